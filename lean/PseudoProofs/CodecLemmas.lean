import PseudoModel.Codec
/-!
  Helper lemmas for property C13 (record text codec round trips): `escNL`/`unescNL`, framing,
  the random-file container, `readWord`/`expectWord`, decimal numerals, `load ∘ dump`.
-/
namespace Pseudo.Codec
open FloatFmt

def NoNL (s : Str) : Prop := ∀ c ∈ s, c ≠ '\n'
def AllSp (s : Str) : Prop := ∀ c ∈ s, c = ' '
def WordOK (w : Str) : Prop := w ≠ [] ∧ ∀ c ∈ w, isSpaceC c = false
def SepOK (rest : Str) : Prop := rest = [] ∨ ∃ r, rest = ' ' :: r

/-! ### decimal numerals -/

theorem isDigit_of_charIsDigit (c : Char) (h : c.isDigit = true) : isDigit c = true := by
  simp only [Char.isDigit, isDigit, Bool.and_eq_true, decide_eq_true_eq] at *
  obtain ⟨h1, h2⟩ := h
  have h1' := UInt32.le_iff_toNat_le.mp h1
  have h2' := UInt32.le_iff_toNat_le.mp h2
  simp at h1' h2'
  exact ⟨by simpa using h1', by simpa using h2'⟩

theorem not_space_of_isDigit (c : Char) (h : isDigit c = true) : isSpaceC c = false := by
  simp [isDigit, isSpaceC] at *
  refine ⟨⟨⟨⟨⟨?_, ?_⟩, ?_⟩, ?_⟩, ?_⟩, ?_⟩
  · rintro rfl; simp at h
  · rintro rfl; simp at h
  · rintro rfl; simp at h
  · omega
  · omega
  · rintro rfl; simp at h


theorem natToStr_eq (n : Nat) : natToStr n = Nat.toDigits 10 n := by
  simp [natToStr]

theorem intToStr_ofNat (n : Nat) : intToStr (n : Int) = natToStr n := by
  simp [intToStr, natToStr, Int.repr_eq_if]

theorem intToStr_nonneg (n : Int) (h : 0 ≤ n) : intToStr n = natToStr n.toNat := by
  simp [intToStr, natToStr, Int.repr_eq_if, h]

theorem intToStr_neg (n : Int) (h : ¬ 0 ≤ n) : intToStr n = '-' :: natToStr (-n).toNat := by
  simp [intToStr, natToStr, Int.repr_eq_if, h]

theorem natToStr_isDigit (n : Nat) : ∀ c ∈ natToStr n, isDigit c = true := by
  intro c hc
  rw [natToStr_eq] at hc
  exact isDigit_of_charIsDigit c (Nat.isDigit_of_mem_toDigits (by decide) (by decide) hc)

theorem natToStr_ne_nil (n : Nat) : natToStr n ≠ [] := by
  rw [natToStr_eq]; exact Nat.toDigits_ne_nil

theorem digitsVal_eq (s : Str) : digitsVal s = Nat.ofDigitChars 10 s 0 := by
  unfold digitsVal Nat.ofDigitChars
  generalize 0 = a
  induction s generalizing a with
  | nil => rfl
  | cons c s ih => simp only [List.foldl_cons]; rw [Nat.mul_comm]; exact ih _

theorem digitsVal_natToStr (n : Nat) : digitsVal (natToStr n) = n := by
  rw [digitsVal_eq, natToStr_eq]; exact Nat.ofDigitChars_ten_toDigits

theorem natToStr_length_le (n : Nat) (h : n < 10 ^ 18) : (natToStr n).length ≤ 18 := by
  rw [natToStr_eq]; exact (Nat.length_toDigits_le_iff (by decide) (by decide)).2 h


/-! ### escNL / unescNL -/

theorem unescAux_escNL (s : Str) : unescAux false (escNL s) = s := by
  induction s with
  | nil => simp [escNL, unescAux]
  | cons c rest ih =>
    by_cases h : c = '\n'
    · subst h
      simp [escNL, unescAux, ih]
    · have hb : (c == '\n') = false := by simp [h]
      simp [escNL, unescAux, hb, ih]

/-! ### framing -/

theorem framedTail_append {a b : Str} (ha : FramedTail a) (hb : FramedTail b) : FramedTail (a ++ b) := by
  induction a with
  | nil => simpa using hb
  | cons c a' ih =>
    obtain ⟨h1, h2⟩ := ha
    refine ⟨?_, ih h2⟩
    intro hc
    obtain ⟨r, hr⟩ := h1 hc
    exact ⟨r ++ b, by simp [hr]⟩

theorem framedTail_of_noNL {a : Str} (h : NoNL a) : FramedTail a := by
  induction a with
  | nil => trivial
  | cons c a' ih =>
    refine ⟨fun hc => absurd hc (h c (by simp)), ih (fun d hd => h d (by simp [hd]))⟩

theorem framedTail_escNL (s : Str) : FramedTail (escNL s) := by
  induction s with
  | nil => simp [escNL, FramedTail]
  | cons c rest ih =>
    by_cases h : c = '\n'
    · subst h
      simp only [escNL, beq_self_eq_true, if_true]
      exact ⟨fun _ => ⟨_, rfl⟩, ⟨fun hc => by simp at hc, ih⟩⟩
    · simp only [escNL, beq_iff_eq, h, if_false]
      exact ⟨fun hc => absurd hc h, ih⟩

/-! ### file container -/

theorem go_nil (cur : Str) : splitLines.go [] cur = [cur.reverse] := by simp [splitLines.go]
theorem go_nl (s cur : Str) : splitLines.go ('\n' :: s) cur = cur.reverse :: splitLines.go s [] := by
  simp [splitLines.go]
theorem go_char (c : Char) (s cur : Str) (h : c ≠ '\n') :
    splitLines.go (c :: s) cur = splitLines.go s (c :: cur) := by
  simp [splitLines.go, h]

theorem joinCont_cont (q : Str) (ls : List Str) (p : Str) (acc : List Str) :
    joinCont (('#' :: q) :: ls) (p :: acc) = joinCont ls ((p ++ ['\n'] ++ '#' :: q) :: acc) := by
  simp [joinCont]

theorem joinCont_first (l : Str) (ls : List Str) (acc : List Str) (h : l.head? ≠ some '#') :
    joinCont (l :: ls) acc = joinCont ls (l :: acc) := by
  cases l with
  | nil => cases acc <;> simp [joinCont]
  | cons c l' =>
    have hc : c ≠ '#' := by simpa using h
    cases acc with
    | nil => simp [joinCont]
    | cons p acc' =>
      rw [joinCont]
      intro _ _ _ h1 _
      injection h1 with h1 _
      exact hc h1


/-- a continuation part of a record (the current physical line starts with `#`) -/
theorem joinCont_go_cont (r : Str) (hr : FramedTail r) :
    ∀ (cur p s : Str) (acc : List Str), (cur.reverse ++ r).head? = some '#' →
      joinCont (splitLines.go (r ++ '\n' :: s) cur) (p :: acc)
        = joinCont (splitLines.go s []) ((p ++ '\n' :: (cur.reverse ++ r)) :: acc) := by
  induction r with
  | nil =>
    intro cur p s acc h
    simp only [List.append_nil] at h
    simp only [List.nil_append, go_nl, List.append_nil]
    cases hcr : cur.reverse with
    | nil => simp [hcr] at h
    | cons c q =>
      have : c = '#' := by simpa [hcr] using h
      subst this
      rw [joinCont_cont]; simp
  | cons c r' ih =>
    intro cur p s acc h
    obtain ⟨h1, h2⟩ := hr
    by_cases hc : c = '\n'
    · subst hc
      obtain ⟨r'', hr''⟩ := h1 rfl
      simp only [List.cons_append, go_nl]
      cases hcr : cur.reverse with
      | nil => simp [hcr] at h
      | cons c q =>
        have : c = '#' := by simpa [hcr] using h
        subst this
        rw [joinCont_cont, ih h2 [] _ s acc (by simp [hr''])]
        simp
    · simp only [List.cons_append, go_char _ _ _ hc]
      rw [ih h2 (c :: cur) p s acc (by simpa using h)]
      simp

/-- the first physical line of a record (does not start with `#`) -/
theorem joinCont_go_first (r : Str) (hr : FramedTail r) :
    ∀ (cur s : Str) (acc : List Str), (cur.reverse ++ r).head? ≠ some '#' →
      joinCont (splitLines.go (r ++ '\n' :: s) cur) acc
        = joinCont (splitLines.go s []) ((cur.reverse ++ r) :: acc) := by
  induction r with
  | nil =>
    intro cur s acc h
    simp only [List.append_nil] at h
    simp only [List.nil_append, go_nl, List.append_nil]
    rw [joinCont_first _ _ _ h]
  | cons c r' ih =>
    intro cur s acc h
    obtain ⟨h1, h2⟩ := hr
    by_cases hc : c = '\n'
    · subst hc
      obtain ⟨r'', hr''⟩ := h1 rfl
      simp only [List.cons_append, go_nl]
      have hcur : cur.reverse.head? ≠ some '#' := by
        cases hcr : cur.reverse with
        | nil => simp
        | cons c q => simpa [hcr] using h
      rw [joinCont_first _ _ _ hcur, joinCont_go_cont r' h2 [] _ s acc (by simp [hr''])]
      simp
    · simp only [List.cons_append, go_char _ _ _ hc]
      rw [ih h2 (c :: cur) s acc (by simpa using h)]
      simp

theorem joinCont_render (rs : List Str) (h : ∀ r ∈ rs, Framed r) :
    ∀ acc, joinCont (splitLines.go (renderFile rs) []) acc = acc.reverse ++ rs ++ [[]] := by
  induction rs with
  | nil => intro acc; simp [renderFile, go_nil, joinCont]
  | cons r rs ih =>
    intro acc
    obtain ⟨_, h2, h3⟩ := h r (by simp)
    simp only [renderFile, List.append_assoc, List.singleton_append]
    rw [joinCont_go_first r h3 [] _ acc (by simpa using h2), ih (fun x hx => h x (by simp [hx]))]
    simp

theorem dropTrailingEmpty_snoc (rs : List Str) (h : ∀ r ∈ rs, r ≠ []) :
    dropTrailingEmpty (rs ++ [[]]) = rs := by
  unfold dropTrailingEmpty
  simp only [List.reverse_append, List.reverse_cons, List.reverse_nil, List.nil_append,
    List.singleton_append]
  rw [List.dropWhile_cons]
  simp only [List.isEmpty_nil, if_true]
  cases hr : rs.reverse with
  | nil => simp_all
  | cons x xs =>
    have hx : x ≠ [] := h x (by
      have : x ∈ rs.reverse := by simp [hr]
      simpa using this)
    rw [List.dropWhile_cons]
    have : x.isEmpty = false := by cases x <;> simp_all
    simp only [this]
    rw [← hr]; simp

theorem loadFile_renderFile (rs : List Str) (h : ∀ r ∈ rs, Framed r) :
    loadFile (renderFile rs) = rs := by
  cases rs with
  | nil => simp [renderFile, loadFile]
  | cons r rs' =>
    have hne : (renderFile (r :: rs')).isEmpty = false := by
      simp [renderFile]
    unfold loadFile
    simp only [hne]
    unfold splitLines
    rw [joinCont_render _ h]
    simpa using dropTrailingEmpty_snoc (r :: rs') (fun x hx => (h x hx).1)

theorem sepOK_nil : SepOK [] := Or.inl rfl
theorem sepOK_sp (r : Str) : SepOK (' ' :: r) := Or.inr ⟨r, rfl⟩
theorem sepOK_pad {pad rest : Str} (hp : AllSp pad) (hr : SepOK rest) : SepOK (pad ++ rest) := by
  cases pad with
  | nil => simpa using hr
  | cons c p => have : c = ' ' := hp c (by simp); subst this; exact sepOK_sp _

theorem dropWhile_allSp (pre s : Str) (h : AllSp pre) :
    (pre ++ s).dropWhile isSpaceC = s.dropWhile isSpaceC := by
  induction pre with
  | nil => rfl
  | cons c p ih =>
    have : c = ' ' := h c (by simp)
    subst this
    simp only [List.cons_append]
    rw [List.dropWhile_cons]
    simp only [show isSpaceC ' ' = true by decide, if_true]
    exact ih (fun d hd => h d (by simp [hd]))

theorem readWord_skip (pre s : Str) (h : AllSp pre) : readWord (pre ++ s) = readWord s := by
  unfold readWord skipWs
  rw [dropWhile_allSp pre s h]

theorem expectWord_skip (w : String) (pre s : Str) (h : AllSp pre) :
    expectWord w (pre ++ s) = expectWord w s := by
  simp only [expectWord, readWord_skip pre s h]

theorem takeWhile_word (w rest : Str) (hw : ∀ c ∈ w, isSpaceC c = false) (hr : SepOK rest) :
    (w ++ rest).takeWhile (fun c => !isSpaceC c) = w := by
  induction w with
  | nil =>
    rcases hr with rfl | ⟨r, rfl⟩
    · rfl
    · simp [show isSpaceC ' ' = true by decide]
  | cons c w ih =>
    simp only [List.cons_append, List.takeWhile_cons, hw c (by simp), Bool.not_false, if_true]
    rw [ih (fun d hd => hw d (by simp [hd]))]

theorem readWord_word (w rest : Str) (hw : WordOK w) (hr : SepOK rest) :
    readWord (w ++ rest) = some (w, rest) := by
  obtain ⟨hne, hsp⟩ := hw
  have hskip : skipWs (w ++ rest) = w ++ rest := by
    cases w with
    | nil => exact absurd rfl hne
    | cons c w' =>
      simp only [skipWs, List.cons_append]
      rw [List.dropWhile_cons]
      simp [hsp c (by simp)]
  simp only [readWord, hskip, takeWhile_word w rest hsp hr]
  have : w.isEmpty = false := by cases w <;> simp_all
  simp [this]

theorem expectWord_ok (t : String) (pre rest : Str) (hp : AllSp pre) (hw : WordOK t.toList) (hr : SepOK rest) :
    expectWord t (pre ++ (t.toList ++ rest)) = some rest := by
  rw [expectWord_skip _ _ _ hp]
  simp only [expectWord, readWord_word _ _ hw hr]
  simp

theorem expectWord_mismatch (t : String) (pre w rest : Str) (hp : AllSp pre) (hw : WordOK w) (hr : SepOK rest)
    (hne : w ≠ t.toList) : expectWord t (pre ++ (w ++ rest)) = none := by
  rw [expectWord_skip _ _ _ hp]
  simp only [expectWord, readWord_word _ _ hw hr]
  simp [hne]


/-! ### the number readers skip leading blanks (one unfolding of their first line) -/

theorem readLong_skip (pre s : Str) (h : AllSp pre) : istreamReadLong (pre ++ s) = istreamReadLong s := by
  unfold istreamReadLong istreamReadLongRaw
  rw [dropWhile_allSp pre s h]

theorem readDouble_skip (pre s : Str) (h : AllSp pre) : istreamReadDouble (pre ++ s) = istreamReadDouble s := by
  unfold istreamReadDouble istreamReadDoubleRaw
  rw [dropWhile_allSp pre s h]

theorem readSizeT_skip (pre s : Str) (h : AllSp pre) : istreamReadSizeT (pre ++ s) = istreamReadSizeT s := by
  unfold istreamReadSizeT istreamReadSizeTRaw istreamReadUnsignedRaw
  rw [dropWhile_allSp pre s h]

theorem readUInt_skip (pre s : Str) (h : AllSp pre) : istreamReadUInt (pre ++ s) = istreamReadUInt s := by
  unfold istreamReadUInt istreamReadUIntRaw istreamReadUnsignedRaw
  rw [dropWhile_allSp pre s h]

theorem allSp_one : AllSp [' '] := by intro c hc; simpa using hc

/-- every `load` starts by skipping blanks -/
theorem load_skip (defs : Defs) (cur : Val) (pre s : Str) (h : AllSp pre) :
    load defs cur (pre ++ s) = load defs cur s := by
  cases cur <;> simp only [load, expectWord_skip _ pre s h]

/-- What the codec needs from the modelled `std::istream` number extractors and the number printers:
    reading back what was printed. `SepOK rest` is what `dump`'s separators provide. Only `double_rt`
    is a genuine assumption (modelled library behaviour, trusted base; `Fin` = "finite normal"):
    the three integer fields are proved for the model at the end of this file
    (`long_rt_model`, `sizet_rt_model`, `uint_rt_model`, `readerLaws_of_double`). -/
structure ReaderLaws (Fin : Float → Prop) : Prop where
  long_rt : ∀ (n : Int) (rest : Str), InRange64 n → SepOK rest →
    istreamReadLong (intToStr n ++ rest) = some (n, rest)
  sizet_rt : ∀ (n : Nat) (rest : Str), n < 2 ^ 64 → SepOK rest →
    istreamReadSizeT (natToStr n ++ rest) = some (n, rest)
  uint_rt : ∀ (n : Nat) (rest : Str), n < 2 ^ 32 → SepOK rest →
    istreamReadUInt (natToStr n ++ rest) = some (n, rest)
  double_rt : ∀ (x : Float) (rest : Str), Fin x → SepOK rest →
    istreamReadDouble (fmtG 17 x ++ rest) = some (x, rest)

theorem tag_split (t : String) : (t ++ " ").toList = t.toList ++ [' '] := by simp

theorem dump_int0 (n : Int) : dump (.int n) = "INTEGER ".toList ++ intToStr n := rfl
theorem dump_int (n : Int) : dump (.int n) = "INTEGER".toList ++ ' ' :: intToStr n := by
  rw [dump_int0]; simp
theorem dump_real (x : Float) : dump (.real x) = "REAL".toList ++ ' ' :: fmtG 17 x := by
  show "REAL ".toList ++ fmtG 17 x = _; simp
theorem dump_bool (b : Bool) : dump (.bool b) = "BOOLEAN".toList ++ ' ' :: (if b then "TRUE".toList else "FALSE".toList) := by
  show "BOOLEAN ".toList ++ (if b then "TRUE".toList else "FALSE".toList) = _; simp
theorem dump_chr (c : Char) : dump (.chr c) = "CHAR".toList ++ ' ' :: c :: (if c == '\n' then ['#'] else []) := by
  show "CHAR ".toList ++ [c] ++ (if c == '\n' then ['#'] else []) = _; simp
theorem dump_str (s : Str) : dump (.str s) = "STRING".toList ++ ' ' :: (natToStr (escNL s).length ++ ' ' :: escNL s) := by
  show "STRING ".toList ++ natToStr (escNL s).length ++ [' '] ++ escNL s = _; simp
theorem dump_date (t : Calendar.Date) : dump (.date t) =
    "DATE".toList ++ ' ' :: (intToStr t.d ++ ' ' :: (intToStr t.m ++ ' ' :: intToStr t.y)) := by
  show "DATE ".toList ++ intToStr t.d ++ [' '] ++ intToStr t.m ++ [' '] ++ intToStr t.y = _; simp
theorem dump_enum (ty : Str) (i : Nat) : dump (.enum ty i) = "ENUM".toList ++ ' ' :: (ty ++ ' ' :: natToStr i) := by
  show "ENUM ".toList ++ ty ++ [' '] ++ natToStr i = _; simp
theorem dump_ptr (ty : Str) (t : Option Loc) : dump (.ptr ty t) = [] := rfl
theorem dump_none : dump .none = [] := rfl
theorem dump_comp (ty : Str) (fs : List (Str × Val)) : dump (.comp ty fs) =
    "COMPOSITE".toList ++ ' ' :: (ty ++ ' ' :: (joinSp (dumpFields fs false) ++
      (if (dumpFields fs true).isEmpty then [] else ' ' :: joinSp (dumpFields fs true)))) := by
  show "COMPOSITE ".toList ++ ty ++ [' '] ++ joinSp (dumpFields fs false) ++
        (if (dumpFields fs true).isEmpty then [] else [' '] ++ joinSp (dumpFields fs true)) = _
  simp
theorem dump_arr (e : Ty) (d : List (Int × Int)) (cells : List Val) : dump (.arr e d cells) =
    "ARRAY".toList ++ ' ' :: (natToStr cells.length ++ ' ' :: joinSp (dumpList cells)) := by
  show "ARRAY ".toList ++ natToStr cells.length ++ [' '] ++ joinSp (dumpList cells) = _; simp
theorem dumpList_nil : dumpList [] = [] := rfl
theorem dumpList_cons (v : Val) (r : List Val) : dumpList (v :: r) = dump v :: dumpList r := rfl
theorem dumpFields_nil (w : Bool) : dumpFields [] w = [] := rfl
theorem dumpFields_cons (n : Str) (v : Val) (r : List (Str × Val)) (w : Bool) :
    dumpFields ((n, v) :: r) w = if v.isArr == w then dump v :: dumpFields r w else dumpFields r w := rfl
instance (w : Str) : Decidable (WordOK w) := by unfold WordOK; exact inferInstance


theorem expectWord_tag (t : String) (rest : Str) (hw : WordOK t.toList) :
    expectWord t (t.toList ++ ' ' :: rest) = some (' ' :: rest) := by
  have := expectWord_ok t [] (' ' :: rest) (by intro c hc; cases hc) hw (sepOK_sp _)
  simpa using this

theorem readLong_sp (s : Str) : istreamReadLong (' ' :: s) = istreamReadLong s :=
  readLong_skip [' '] s allSp_one
theorem readDouble_sp (s : Str) : istreamReadDouble (' ' :: s) = istreamReadDouble s :=
  readDouble_skip [' '] s allSp_one
theorem readSizeT_sp (s : Str) : istreamReadSizeT (' ' :: s) = istreamReadSizeT s :=
  readSizeT_skip [' '] s allSp_one
theorem readUInt_sp (s : Str) : istreamReadUInt (' ' :: s) = istreamReadUInt s :=
  readUInt_skip [' '] s allSp_one
theorem readWord_sp (s : Str) : readWord (' ' :: s) = readWord s :=
  readWord_skip [' '] s allSp_one

theorem load_int (Fin) (L : ReaderLaws Fin) (defs : Defs) (m n : Int) (rest : Str)
    (hn : InRange64 n) (hr : SepOK rest) :
    load defs (.int m) (dump (.int n) ++ rest) = some (.int n, rest) := by
  rw [dump_int, List.append_assoc, List.cons_append]
  simp only [load]
  rw [expectWord_tag _ _ (by decide)]
  simp [readLong_sp, L.long_rt n rest hn hr]

theorem load_real (Fin) (L : ReaderLaws Fin) (defs : Defs) (y x : Float) (rest : Str)
    (hx : Fin x) (hr : SepOK rest) :
    load defs (.real y) (dump (.real x) ++ rest) = some (.real x, rest) := by
  rw [dump_real, List.append_assoc, List.cons_append]
  simp only [load]
  rw [expectWord_tag _ _ (by decide)]
  simp [readDouble_sp, L.double_rt x rest hx hr]

theorem load_bool (defs : Defs) (b' b : Bool) (rest : Str) (hr : SepOK rest) :
    load defs (.bool b') (dump (.bool b) ++ rest) = some (.bool b, rest) := by
  rw [dump_bool, List.append_assoc, List.cons_append]
  simp only [load]
  rw [expectWord_tag _ _ (by decide)]
  simp only [Option.bind_eq_bind, Option.bind_some, readWord_sp]
  rw [readWord_word _ _ (by cases b <;> decide) hr]
  cases b <;> simp

theorem load_chr (defs : Defs) (c' c : Char) (rest : Str) :
    load defs (.chr c') (dump (.chr c) ++ rest) = some (.chr c, rest) := by
  rw [dump_chr, List.append_assoc, List.cons_append, List.cons_append]
  simp only [load]
  rw [expectWord_tag _ _ (by decide)]
  by_cases hc : c = '\n'
  · subst hc; simp
  · have hb : (c == '\n') = false := by simp [hc]
    simp [hb, hc]

theorem wordOK_natToStr (n : Nat) : WordOK (natToStr n) :=
  ⟨natToStr_ne_nil n, fun c hc => not_space_of_isDigit c (natToStr_isDigit n c hc)⟩

theorem load_str (defs : Defs) (s' s : Str) (rest : Str) (hlen : (escNL s).length < 10 ^ 18) :
    load defs (.str s') (dump (.str s) ++ rest) = some (.str s, rest) := by
  rw [dump_str, List.append_assoc, List.cons_append, List.append_assoc, List.cons_append]
  simp only [load]
  rw [expectWord_tag _ _ (by decide)]
  simp only [Option.bind_eq_bind, Option.bind_some, readWord_sp]
  rw [readWord_word _ _ (wordOK_natToStr _) (sepOK_sp _)]
  have h3 : ¬ (natToStr (escNL s).length).length > 18 := by
    have := natToStr_length_le _ hlen; omega
  simp [h3, digitsVal_natToStr, unescNL, unescAux_escNL]
  exact ⟨natToStr_ne_nil _, natToStr_isDigit _⟩

/-- a DATE value that `dump`/`load` carry: never assigned (all zero) or a valid calendar date -/
def DateOK (t : Calendar.Date) : Prop := t = ⟨0, 0, 0⟩ ∨ Calendar.validYMD t.y t.m t.d = true

theorem load_date_aux (Fin) (L : ReaderLaws Fin) (defs : Defs) (t' : Calendar.Date) (d m : Nat) (y : Int)
    (rest : Str) (hd : d < 2 ^ 32) (hm : m < 2 ^ 32) (hy1 : -2147483648 ≤ y) (hy2 : y ≤ 2147483647)
    (hr : SepOK rest) :
    load defs (.date t') (dump (.date ⟨y, m, d⟩) ++ rest) =
      if d == 0 && m == 0 && y == 0 then some (.date ⟨0, 0, 0⟩, rest)
      else match Calendar.setDate d m y with
        | some t => some (.date t, rest)
        | none => none := by
  rw [dump_date]
  simp only [List.append_assoc, List.cons_append, intToStr_ofNat]
  simp only [load]
  rw [expectWord_tag _ _ (by decide)]
  have hyr : InRange64 y := by unfold InRange64 two63; omega
  simp only [Option.bind_eq_bind, Option.bind_some, readUInt_sp, readLong_sp,
    L.uint_rt d _ hd (sepOK_sp _), L.uint_rt m _ hm (sepOK_sp _), L.long_rt y rest hyr hr]
  have h1 : ¬ y < -2147483648 := by omega
  have h2 : ¬ y > 2147483647 := by omega
  simp [h1, h2]
  split
  · simp_all
  · cases Calendar.setDate (↑d) (↑m) y <;> simp_all

theorem load_date_zero (Fin) (L : ReaderLaws Fin) (defs : Defs) (t' : Calendar.Date) (rest : Str)
    (hr : SepOK rest) :
    load defs (.date t') (dump (.date ⟨0, 0, 0⟩) ++ rest) = some (.date ⟨0, 0, 0⟩, rest) := by
  have := load_date_aux Fin L defs t' 0 0 0 rest (by decide) (by decide) (by decide) (by decide) hr
  simpa using this

theorem load_date_valid (Fin) (L : ReaderLaws Fin) (defs : Defs) (t' t : Calendar.Date) (rest : Str)
    (ht : Calendar.validYMD t.y t.m t.d = true) (hr : SepOK rest) :
    load defs (.date t') (dump (.date t) ++ rest) = some (.date t, rest) := by
  obtain ⟨y, m, d⟩ := t
  simp only [Calendar.validYMD, Calendar.yearOk, Bool.and_eq_true, decide_eq_true_eq] at ht
  obtain ⟨⟨⟨⟨⟨hy1, hy2⟩, hm1⟩, hm2⟩, hd1⟩, hd2⟩ := ht
  have hdim : Calendar.daysInMonth y m ≤ 31 := by
    unfold Calendar.daysInMonth; repeat' split <;> omega
  have hd' : d = ((d.toNat : Nat) : Int) := by omega
  have hm' : m = ((m.toNat : Nat) : Int) := by omega
  rw [hd', hm']
  rw [load_date_aux Fin L defs t' d.toNat m.toNat y rest (by omega) (by omega) (by omega) (by omega) hr]
  have hne : (d.toNat == 0) = false := by simp; omega
  have hv : Calendar.validYMD y m d = true := by
    simp [Calendar.validYMD, Calendar.yearOk, hy1, hy2, hm1, hm2, hd1, hd2]
  simp [hne, Calendar.setDate, ← hd', ← hm', hv]

theorem load_date (Fin) (L : ReaderLaws Fin) (defs : Defs) (t' t : Calendar.Date) (rest : Str)
    (ht : DateOK t) (hr : SepOK rest) :
    load defs (.date t') (dump (.date t) ++ rest) = some (.date t, rest) := by
  rcases ht with rfl | ht
  · exact load_date_zero Fin L defs t' rest hr
  · exact load_date_valid Fin L defs t' t rest ht hr

theorem load_enum (Fin) (L : ReaderLaws Fin) (defs : Defs) (ty : Str) (j i : Nat) (vals : List Str) (rest : Str)
    (hty : WordOK ty) (hdef : defs.enumDef ty = some (ty, vals)) (hi : i < vals.length) (hi64 : i < 2 ^ 64)
    (hr : SepOK rest) :
    load defs (.enum ty j) (dump (.enum ty i) ++ rest) = some (.enum ty i, rest) := by
  rw [dump_enum]
  simp only [List.append_assoc, List.cons_append]
  simp only [load]
  rw [expectWord_tag _ _ (by decide)]
  simp only [Option.bind_eq_bind, Option.bind_some, readWord_sp]
  rw [readWord_word _ _ hty (sepOK_sp _)]
  have hge : ¬ i ≥ vals.length := by omega
  simp [hdef, readSizeT_sp, L.sizet_rt i rest hi64 hr, hge]


/-! ### values that can be stored, and the shape of the variable loaded into -/

mutual
  /-- values whose record text reads back: numbers in the range of their C++ type, finite normal
      REALs (`Fin`), enum / record type names that are single words with a visible definition,
      STRING payloads and array lengths below the (astronomic) limits of the length fields;
      no pointers, no `.none`. -/
  def Storable (Fin : Float → Prop) (defs : Defs) : Val → Prop
    | .int n => InRange64 n
    | .real x => Fin x
    | .bool _ => True
    | .chr _ => True
    | .str s => (escNL s).length < 10 ^ 18
    | .date t => DateOK t
    | .enum ty i => WordOK ty ∧ i < 2 ^ 64 ∧ ∃ vals, defs.enumDef ty = some (ty, vals) ∧ i < vals.length
    | .ptr _ _ => False
    | .none => False
    | .comp ty fs => WordOK ty ∧ defs.compDef ty = some ty ∧ StorableFields Fin defs fs
    | .arr _ _ cells => cells.length < 2 ^ 64 ∧ StorableList Fin defs cells
  def StorableList (Fin : Float → Prop) (defs : Defs) : List Val → Prop
    | [] => True
    | v :: r => Storable Fin defs v ∧ StorableList Fin defs r
  def StorableFields (Fin : Float → Prop) (defs : Defs) : List (Str × Val) → Prop
    | [] => True
    | (_, v) :: r => Storable Fin defs v ∧ StorableFields Fin defs r
end

mutual
  /-- `SameShape v cur`: the variable's current value `cur` has the type and shape of `v`
      (same constructor, same enum / record type name, same field names, same array geometry). -/
  def SameShape : Val → Val → Prop
    | .int _, cur => ∃ m, cur = .int m
    | .real _, cur => ∃ y, cur = .real y
    | .bool _, cur => ∃ b, cur = .bool b
    | .chr _, cur => ∃ c, cur = .chr c
    | .str _, cur => ∃ s, cur = .str s
    | .date _, cur => ∃ t, cur = .date t
    | .enum ty _, cur => ∃ j, cur = .enum ty j
    | .ptr _ _, _ => False
    | .none, _ => False
    | .comp ty fs, cur => ∃ gs, cur = .comp ty gs ∧ SameShapeFields fs gs
    | .arr e d cells, cur => ∃ cs, cur = .arr e d cs ∧ SameShapeList cells cs
  def SameShapeList : List Val → List Val → Prop
    | [], cs => cs = []
    | v :: r, cs => ∃ c cs', cs = c :: cs' ∧ SameShape v c ∧ SameShapeList r cs'
  def SameShapeFields : List (Str × Val) → List (Str × Val) → Prop
    | [], gs => gs = []
    | (n, v) :: r, gs => ∃ c gs', gs = (n, c) :: gs' ∧ SameShape v c ∧ SameShapeFields r gs'
end

/-! introduction rules for `SameShape` (to exhibit concrete instances) -/

theorem sameShape_int (n m : Int) : SameShape (.int n) (.int m) := by simp only [SameShape]; exact ⟨m, rfl⟩
theorem sameShape_real (x y : Float) : SameShape (.real x) (.real y) := by simp only [SameShape]; exact ⟨y, rfl⟩
theorem sameShape_bool (a b : Bool) : SameShape (.bool a) (.bool b) := by simp only [SameShape]; exact ⟨b, rfl⟩
theorem sameShape_chr (a b : Char) : SameShape (.chr a) (.chr b) := by simp only [SameShape]; exact ⟨b, rfl⟩
theorem sameShape_str (a b : Str) : SameShape (.str a) (.str b) := by simp only [SameShape]; exact ⟨b, rfl⟩
theorem sameShape_date (a b : Calendar.Date) : SameShape (.date a) (.date b) := by
  simp only [SameShape]; exact ⟨b, rfl⟩
theorem sameShape_enum (ty : Str) (i j : Nat) : SameShape (.enum ty i) (.enum ty j) := by
  simp only [SameShape]; exact ⟨j, rfl⟩
theorem sameShape_comp (ty : Str) {fs gs : List (Str × Val)} (h : SameShapeFields fs gs) :
    SameShape (.comp ty fs) (.comp ty gs) := by simp only [SameShape]; exact ⟨gs, rfl, h⟩
theorem sameShape_arr (e : Ty) (d : List (Int × Int)) {cells cs : List Val} (h : SameShapeList cells cs) :
    SameShape (.arr e d cells) (.arr e d cs) := by simp only [SameShape]; exact ⟨cs, rfl, h⟩
theorem sameShapeList_nil : SameShapeList [] [] := by simp only [SameShapeList]
theorem sameShapeList_cons {v c : Val} {r cs : List Val} (h1 : SameShape v c) (h2 : SameShapeList r cs) :
    SameShapeList (v :: r) (c :: cs) := by simp only [SameShapeList]; exact ⟨c, cs, rfl, h1, h2⟩
theorem sameShapeFields_nil : SameShapeFields [] [] := by simp only [SameShapeFields]
theorem sameShapeFields_cons (n : Str) {v c : Val} {r gs : List (Str × Val)} (h1 : SameShape v c)
    (h2 : SameShapeFields r gs) : SameShapeFields ((n, v) :: r) ((n, c) :: gs) := by
  simp only [SameShapeFields]; exact ⟨c, gs, rfl, h1, h2⟩

theorem sameShape_isArr : ∀ (v c : Val), SameShape v c → c.isArr = v.isArr := by
  intro v c h
  cases v <;> simp only [SameShape] at h
  all_goals first
    | exact h.elim
    | (obtain ⟨_, rfl⟩ := h; rfl)
    | (obtain ⟨_, rfl, _⟩ := h; rfl)

/-- the values of the scalar (resp. array) fields, in declaration order -/
def selVals : List (Str × Val) → Bool → List Val
  | [], _ => []
  | (_, v) :: r, w => if v.isArr == w then v :: selVals r w else selVals r w

theorem mergeFields_sel : ∀ (fs gs : List (Str × Val)), SameShapeFields fs gs →
    mergeFields (mergeFields gs false (selVals fs false)) true (selVals fs true) = fs := by
  intro fs
  induction fs with
  | nil => intro gs h; simp only [SameShapeFields] at h; subst h; simp [mergeFields, selVals]
  | cons p r ih =>
    intro gs h
    obtain ⟨n, v⟩ := p
    simp only [SameShapeFields] at h
    obtain ⟨c, gs', rfl, hs, hr⟩ := h
    have hc := sameShape_isArr v c hs
    cases hv : v.isArr <;> simp [mergeFields, selVals, hc, hv, ih gs' hr]

/-- every element preceded by one blank -/
def spJoin : List Str → Str
  | [] => []
  | x :: r => ' ' :: x ++ spJoin r

theorem joinSp_cons (x : Str) (r : List Str) : joinSp (x :: r) = x ++ spJoin r := by
  induction r generalizing x with
  | nil => simp [joinSp, spJoin]
  | cons y r ih => simp [joinSp, spJoin, ih y]

theorem sp_joinSp (l : List Str) : ' ' :: joinSp l = (if l.isEmpty then [' '] else []) ++ spJoin l := by
  cases l with
  | nil => simp [joinSp, spJoin]
  | cons x r => simp [joinSp_cons, spJoin]

theorem tail_joinSp (l : List Str) : (if l.isEmpty then [] else ' ' :: joinSp l) = spJoin l := by
  cases l with
  | nil => simp [spJoin]
  | cons x r => simp [joinSp_cons, spJoin]

theorem sepOK_spJoin (l : List Str) (rest : Str) (hr : SepOK rest) : SepOK (spJoin l ++ rest) := by
  cases l with
  | nil => simpa [spJoin] using hr
  | cons x r => exact Or.inr ⟨x ++ (spJoin r ++ rest), by simp [spJoin]⟩

/-! ### `load ∘ dump` by induction over the value -/

theorem allSp_nil : AllSp [] := by intro c hc; cases hc
theorem allSp_append {a b : Str} (ha : AllSp a) (hb : AllSp b) : AllSp (a ++ b) := by
  intro c hc
  rcases List.mem_append.mp hc with h | h
  · exact ha c h
  · exact hb c h

theorem loadList_nil (defs : Defs) (s : Str) : loadList defs [] s = some ([], s) := by
  simp only [loadList]
theorem loadFields_nil (defs : Defs) (w : Bool) (s : Str) : loadFields defs [] w s = some ([], s) := by
  simp only [loadFields]

theorem sameShapeList_length : ∀ (vs cs : List Val), SameShapeList vs cs → vs.length = cs.length := by
  intro vs
  induction vs with
  | nil => intro cs h; simp only [SameShapeList] at h; subst h; rfl
  | cons v r ih =>
    intro cs h
    simp only [SameShapeList] at h
    obtain ⟨c, cs', rfl, _, hr⟩ := h
    simp [ih cs' hr]

mutual
  /-- no empty record and no empty array anywhere inside: then `load` consumes exactly `dump v`
      (an empty record / array leaves the separator blank that follows its header unread) -/
  def Tight : Val → Prop
    | .int _ => True
    | .real _ => True
    | .bool _ => True
    | .chr _ => True
    | .str _ => True
    | .date _ => True
    | .enum _ _ => True
    | .ptr _ _ => True
    | .none => True
    | .comp _ fs => fs ≠ [] ∧ TightFields fs
    | .arr _ _ cells => cells ≠ [] ∧ TightList cells
  def TightList : List Val → Prop
    | [] => True
    | v :: r => Tight v ∧ TightList r
  def TightFields : List (Str × Val) → Prop
    | [] => True
    | (_, v) :: r => Tight v ∧ TightFields r
end

theorem dumpFields_ne_nil (fs : List (Str × Val)) (h : fs ≠ []) :
    dumpFields fs false ≠ [] ∨ dumpFields fs true ≠ [] := by
  cases fs with
  | nil => exact absurd rfl h
  | cons p r =>
    obtain ⟨n, v⟩ := p
    cases hv : v.isArr
    · left; simp [dumpFields_cons, hv]
    · right; simp [dumpFields_cons, hv]

theorem comp_text (F T : List Str) (rest : Str) :
    ' ' :: (joinSp F ++ ((if T.isEmpty then [] else ' ' :: joinSp T) ++ rest))
      = (if F.isEmpty then [' '] else []) ++ (spJoin F ++ (spJoin T ++ rest)) := by
  rw [tail_joinSp, ← List.cons_append, sp_joinSp, List.append_assoc]

theorem arr_text (C : List Str) (rest : Str) :
    ' ' :: (joinSp C ++ rest) = (if C.isEmpty then [' '] else []) ++ (spJoin C ++ rest) := by
  rw [← List.cons_append, sp_joinSp, List.append_assoc]

mutual
  theorem load_dump_val (Fin : Float → Prop) (L : ReaderLaws Fin) (defs : Defs) :
      ∀ (v cur : Val), Storable Fin defs v → SameShape v cur → ∀ rest, SepOK rest →
        ∃ pad, AllSp pad ∧ (Tight v → pad = []) ∧ load defs cur (dump v ++ rest) = some (v, pad ++ rest)
    | .int n, cur, hS, hsh, rest, hr => by
      simp only [SameShape] at hsh; obtain ⟨m, rfl⟩ := hsh
      simp only [Storable] at hS
      exact ⟨[], allSp_nil, fun _ => rfl, by simpa using load_int Fin L defs m n rest hS hr⟩
    | .real x, cur, hS, hsh, rest, hr => by
      simp only [SameShape] at hsh; obtain ⟨m, rfl⟩ := hsh
      simp only [Storable] at hS
      exact ⟨[], allSp_nil, fun _ => rfl, by simpa using load_real Fin L defs m x rest hS hr⟩
    | .bool b, cur, hS, hsh, rest, hr => by
      simp only [SameShape] at hsh; obtain ⟨m, rfl⟩ := hsh
      exact ⟨[], allSp_nil, fun _ => rfl, by simpa using load_bool defs m b rest hr⟩
    | .chr c, cur, hS, hsh, rest, hr => by
      simp only [SameShape] at hsh; obtain ⟨m, rfl⟩ := hsh
      exact ⟨[], allSp_nil, fun _ => rfl, by simpa using load_chr defs m c rest⟩
    | .str s, cur, hS, hsh, rest, hr => by
      simp only [SameShape] at hsh; obtain ⟨m, rfl⟩ := hsh
      simp only [Storable] at hS
      exact ⟨[], allSp_nil, fun _ => rfl, by simpa using load_str defs m s rest hS⟩
    | .date t, cur, hS, hsh, rest, hr => by
      simp only [SameShape] at hsh; obtain ⟨m, rfl⟩ := hsh
      simp only [Storable] at hS
      exact ⟨[], allSp_nil, fun _ => rfl, by simpa using load_date Fin L defs m t rest hS hr⟩
    | .enum ty i, cur, hS, hsh, rest, hr => by
      simp only [SameShape] at hsh; obtain ⟨m, rfl⟩ := hsh
      simp only [Storable] at hS
      obtain ⟨h1, h2, vals, h3, h4⟩ := hS
      exact ⟨[], allSp_nil, fun _ => rfl, by simpa using load_enum Fin L defs ty m i vals rest h1 h3 h4 h2 hr⟩
    | .ptr _ _, cur, hS, hsh, rest, hr => by simp only [Storable] at hS
    | .none, cur, hS, hsh, rest, hr => by simp only [Storable] at hS
    | .comp ty fs, cur, hS, hsh, rest, hr => by
      simp only [SameShape] at hsh; obtain ⟨gs, rfl, hgs⟩ := hsh
      simp only [Storable] at hS
      obtain ⟨hty, hdef, hfs⟩ := hS
      obtain ⟨pad1, hp1, ht1, e1⟩ := load_dump_fields Fin L defs fs gs false hfs hgs
        (spJoin (dumpFields fs true) ++ rest) (sepOK_spJoin _ _ hr)
        (if (dumpFields fs false).isEmpty then [' '] else []) (by split; exact allSp_one; exact allSp_nil)
      obtain ⟨pad2, hp2, ht2, e2⟩ := load_dump_fields Fin L defs fs gs true hfs hgs rest hr pad1 hp1
      refine ⟨pad2, hp2, ?_, ?_⟩
      · intro ht
        simp only [Tight] at ht
        obtain ⟨hne, htf⟩ := ht
        apply ht2 htf
        intro hT
        apply ht1 htf
        intro hF
        rcases dumpFields_ne_nil fs hne with h | h
        · exact absurd hF h
        · exact absurd hT h
      rw [dump_comp]
      simp only [List.append_assoc, List.cons_append]
      simp only [load]
      rw [expectWord_tag _ _ (by decide)]
      simp only [Option.bind_eq_bind, Option.bind_some, readWord_sp]
      rw [readWord_word _ _ hty (sepOK_sp _)]
      rw [comp_text]
      simp only [List.isEmpty_iff] at e1
      simp [hdef, e1, e2, mergeFields_sel fs gs hgs]
    | .arr e d cells, cur, hS, hsh, rest, hr => by
      simp only [SameShape] at hsh; obtain ⟨cs, rfl, hcs⟩ := hsh
      simp only [Storable] at hS
      obtain ⟨hlen, hcells⟩ := hS
      obtain ⟨pad, hp, ht1, e1⟩ := load_dump_list Fin L defs cells cs hcells hcs rest hr
        (if (dumpList cells).isEmpty then [' '] else []) (by split; exact allSp_one; exact allSp_nil)
      refine ⟨pad, hp, ?_, ?_⟩
      · intro ht
        simp only [Tight] at ht
        obtain ⟨hne, htl⟩ := ht
        exact ht1 htl (fun h => absurd h hne)
      have hl : cs.length = cells.length := (sameShapeList_length cells cs hcs).symm
      rw [dump_arr]
      simp only [List.append_assoc, List.cons_append]
      simp only [load]
      rw [expectWord_tag _ _ (by decide)]
      simp only [Option.bind_eq_bind, Option.bind_some, readSizeT_sp]
      rw [L.sizet_rt _ _ hlen (sepOK_sp _), arr_text]
      simp only [List.isEmpty_iff] at e1
      simp [hl, e1]
  theorem load_dump_list (Fin : Float → Prop) (L : ReaderLaws Fin) (defs : Defs) :
      ∀ (vs cs : List Val), StorableList Fin defs vs → SameShapeList vs cs → ∀ rest, SepOK rest →
        ∀ pre, AllSp pre →
        ∃ pad, AllSp pad ∧ (TightList vs → (vs = [] → pre = []) → pad = []) ∧
          loadList defs cs (pre ++ (spJoin (dumpList vs) ++ rest)) = some (vs, pad ++ rest)
    | [], cs, hS, hsh, rest, hr, pre, hp => by
      simp only [SameShapeList] at hsh; subst hsh
      exact ⟨pre, hp, fun _ h => h rfl, by simp [loadList_nil, dumpList_nil, spJoin]⟩
    | v :: vs, cs, hS, hsh, rest, hr, pre, hp => by
      simp only [SameShapeList] at hsh; obtain ⟨c, cs', rfl, hc, hcs'⟩ := hsh
      simp only [StorableList] at hS
      obtain ⟨hv, hvs⟩ := hS
      obtain ⟨pad1, hp1, ht1, e1⟩ := load_dump_val Fin L defs v c hv hc
        (spJoin (dumpList vs) ++ rest) (sepOK_spJoin _ _ hr)
      obtain ⟨pad2, hp2, ht2, e2⟩ := load_dump_list Fin L defs vs cs' hvs hcs' rest hr pad1 hp1
      refine ⟨pad2, hp2, ?_, ?_⟩
      · intro ht _
        simp only [TightList] at ht
        exact ht2 ht.2 (fun _ => ht1 ht.1)
      have e0 : pre ++ (spJoin (dumpList (v :: vs)) ++ rest)
          = (pre ++ [' ']) ++ (dump v ++ (spJoin (dumpList vs) ++ rest)) := by
        simp [dumpList_cons, spJoin]
      rw [e0]
      simp only [loadList]
      rw [load_skip _ _ _ _ (allSp_append hp allSp_one), e1]
      simp [e2]
  theorem load_dump_fields (Fin : Float → Prop) (L : ReaderLaws Fin) (defs : Defs) :
      ∀ (fs gs : List (Str × Val)) (w : Bool), StorableFields Fin defs fs → SameShapeFields fs gs →
        ∀ rest, SepOK rest → ∀ pre, AllSp pre →
        ∃ pad, AllSp pad ∧ (TightFields fs → (dumpFields fs w = [] → pre = []) → pad = []) ∧
          loadFields defs gs w (pre ++ (spJoin (dumpFields fs w) ++ rest)) = some (selVals fs w, pad ++ rest)
    | [], gs, w, hS, hsh, rest, hr, pre, hp => by
      simp only [SameShapeFields] at hsh; subst hsh
      exact ⟨pre, hp, fun _ h => h rfl, by simp [loadFields_nil, dumpFields_nil, spJoin, selVals]⟩
    | (n, v) :: fs, gs, w, hS, hsh, rest, hr, pre, hp => by
      simp only [SameShapeFields] at hsh; obtain ⟨c, gs', rfl, hc, hgs'⟩ := hsh
      simp only [StorableFields] at hS
      obtain ⟨hv, hfs⟩ := hS
      have hca := sameShape_isArr v c hc
      by_cases hw : (v.isArr == w) = true
      · obtain ⟨pad1, hp1, ht1, e1⟩ := load_dump_val Fin L defs v c hv hc
          (spJoin (dumpFields fs w) ++ rest) (sepOK_spJoin _ _ hr)
        obtain ⟨pad2, hp2, ht2, e2⟩ := load_dump_fields Fin L defs fs gs' w hfs hgs' rest hr pad1 hp1
        refine ⟨pad2, hp2, ?_, ?_⟩
        · intro ht _
          simp only [TightFields] at ht
          exact ht2 ht.2 (fun _ => ht1 ht.1)
        have e0 : pre ++ (spJoin (dumpFields ((n, v) :: fs) w) ++ rest)
            = (pre ++ [' ']) ++ (dump v ++ (spJoin (dumpFields fs w) ++ rest)) := by
          simp [dumpFields_cons, hw, spJoin]
        rw [e0]
        simp only [loadFields, hca, hw, if_true]
        rw [load_skip _ _ _ _ (allSp_append hp allSp_one), e1]
        simp [e2, selVals, hw]
      · obtain ⟨pad2, hp2, ht2, e2⟩ := load_dump_fields Fin L defs fs gs' w hfs hgs' rest hr pre hp
        refine ⟨pad2, hp2, ?_, ?_⟩
        · intro ht hpre
          simp only [TightFields] at ht
          simp only [dumpFields_cons, hw] at hpre
          exact ht2 ht.2 hpre
        simp only [dumpFields_cons, loadFields, hca, hw, selVals]
        exact e2
end

/-! ### type tags and mismatch -/

/-- the type tag that starts the record text of a value (`""` for values that are never stored) -/
def tagOf : Val → String
  | .int _ => "INTEGER"
  | .real _ => "REAL"
  | .bool _ => "BOOLEAN"
  | .chr _ => "CHAR"
  | .str _ => "STRING"
  | .date _ => "DATE"
  | .enum _ _ => "ENUM"
  | .comp _ _ => "COMPOSITE"
  | .arr _ _ _ => "ARRAY"
  | .ptr _ _ => ""
  | .none => ""

theorem dump_tag (v : Val) (hv : tagOf v ≠ "") : ∃ body, dump v = (tagOf v).toList ++ ' ' :: body := by
  cases v with
  | int n => exact ⟨_, dump_int n⟩
  | real x => exact ⟨_, dump_real x⟩
  | bool b => exact ⟨_, dump_bool b⟩
  | chr c => exact ⟨_, dump_chr c⟩
  | str s => exact ⟨_, dump_str s⟩
  | date t => exact ⟨_, dump_date t⟩
  | enum ty i => exact ⟨_, dump_enum ty i⟩
  | comp ty fs => exact ⟨_, dump_comp ty fs⟩
  | arr e d cells => exact ⟨_, dump_arr e d cells⟩
  | ptr _ _ => exact absurd rfl hv
  | none => exact absurd rfl hv

theorem wordOK_tagOf (v : Val) (hv : tagOf v ≠ "") : WordOK (tagOf v).toList := by
  cases v <;> first | exact absurd rfl hv | (simp only [tagOf]; decide)

theorem load_none_of_expect (defs : Defs) (cur : Val) (s : Str)
    (h : expectWord (tagOf cur) s = none) : load defs cur s = none := by
  cases cur <;> simp only [tagOf] at h <;> simp only [load, h] <;> rfl

theorem load_mismatch (defs : Defs) (cur v : Val) (rest : Str) (hv : tagOf v ≠ "")
    (h : tagOf cur ≠ tagOf v) : load defs cur (dump v ++ rest) = none := by
  apply load_none_of_expect
  obtain ⟨body, hb⟩ := dump_tag v hv
  rw [hb]
  have := expectWord_mismatch (tagOf cur) [] (tagOf v).toList (' ' :: (body ++ rest)) allSp_nil
    (wordOK_tagOf v hv) (sepOK_sp _) (fun e => h (String.toList_inj.mp e).symm)
  simpa using this

theorem load_mismatch_enum (defs : Defs) (ty ty' : Str) (i j : Nat) (rest : Str) (hty : WordOK ty)
    (hname : ∀ dn vals, defs.enumDef ty = some (dn, vals) → dn = ty) (hne : ty ≠ ty') :
    load defs (.enum ty' j) (dump (.enum ty i) ++ rest) = none := by
  rw [dump_enum]
  simp only [List.append_assoc, List.cons_append]
  simp only [load]
  rw [expectWord_tag _ _ (by decide)]
  simp only [Option.bind_eq_bind, Option.bind_some, readWord_sp]
  rw [readWord_word _ _ hty (sepOK_sp _)]
  cases hd : defs.enumDef ty with
  | none => simp [hd]
  | some p =>
    obtain ⟨dn, vals⟩ := p
    have := hname dn vals hd
    subst this
    simp [hd, hne]

theorem load_mismatch_comp (defs : Defs) (ty ty' : Str) (fs gs : List (Str × Val)) (rest : Str) (hty : WordOK ty)
    (hname : ∀ dn, defs.compDef ty = some dn → dn = ty) (hne : ty ≠ ty') :
    load defs (.comp ty' gs) (dump (.comp ty fs) ++ rest) = none := by
  rw [dump_comp]
  simp only [List.append_assoc, List.cons_append]
  simp only [load]
  rw [expectWord_tag _ _ (by decide)]
  simp only [Option.bind_eq_bind, Option.bind_some, readWord_sp]
  rw [readWord_word _ _ hty (sepOK_sp _)]
  cases hd : defs.compDef ty with
  | none => simp [hd]
  | some dn =>
    have := hname dn hd
    subst this
    simp [hd, hne]

theorem load_mismatch_arr (Fin) (L : ReaderLaws Fin) (defs : Defs) (e e' : Ty) (d d' : List (Int × Int))
    (cells cs : List Val) (rest : Str) (hlen : cells.length < 2 ^ 64) (hne : cells.length ≠ cs.length) :
    load defs (.arr e' d' cs) (dump (.arr e d cells) ++ rest) = none := by
  rw [dump_arr]
  simp only [List.append_assoc, List.cons_append]
  simp only [load]
  rw [expectWord_tag _ _ (by decide)]
  simp only [Option.bind_eq_bind, Option.bind_some, readSizeT_sp]
  rw [L.sizet_rt _ _ hlen (sepOK_sp _)]
  simp [hne]

/-! ### framing of record texts -/

instance (s : Str) : Decidable (NoNL s) := by unfold NoNL; exact inferInstance

theorem noNL_natToStr (n : Nat) : NoNL (natToStr n) := by
  intro c hc hnl
  have := not_space_of_isDigit c (natToStr_isDigit n c hc)
  subst hnl
  simp [isSpaceC] at this

theorem noNL_intToStr (n : Int) : NoNL (intToStr n) := by
  by_cases h : 0 ≤ n
  · rw [intToStr_nonneg n h]; exact noNL_natToStr _
  · rw [intToStr_neg n h]
    intro c hc
    rcases List.mem_cons.mp hc with rfl | hc
    · decide
    · exact noNL_natToStr _ c hc

theorem noNL_append {a b : Str} (ha : NoNL a) (hb : NoNL b) : NoNL (a ++ b) := by
  intro c hc
  rcases List.mem_append.mp hc with h | h
  · exact ha c h
  · exact hb c h

theorem noNL_cons {c : Char} {a : Str} (hc : c ≠ '\n') (ha : NoNL a) : NoNL (c :: a) := by
  intro x hx
  rcases List.mem_cons.mp hx with rfl | hx
  · exact hc
  · exact ha x hx

theorem framedTail_cons {c : Char} {a : Str} (hc : c ≠ '\n') (ha : FramedTail a) : FramedTail (c :: a) :=
  ⟨fun h => absurd h hc, ha⟩

theorem framedTail_spJoin (l : List Str) (h : ∀ x ∈ l, FramedTail x) : FramedTail (spJoin l) := by
  induction l with
  | nil => trivial
  | cons x r ih =>
    simp only [spJoin]
    exact framedTail_cons (by decide)
      (framedTail_append (h x (by simp)) (ih (fun y hy => h y (by simp [hy]))))

theorem framedTail_joinSp (l : List Str) (h : ∀ x ∈ l, FramedTail x) : FramedTail (joinSp l) := by
  cases l with
  | nil => trivial
  | cons x r =>
    rw [joinSp_cons]
    exact framedTail_append (h x (by simp)) (framedTail_spJoin r (fun y hy => h y (by simp [hy])))

/-! ### the REAL printer never emits a line break (purely structural: digits, sign, `.`, `e`, `inf`, `nan`) -/

theorem noNL_of_subset {a b : Str} (h : ∀ c ∈ a, c ∈ b) (hb : NoNL b) : NoNL a :=
  fun c hc => hb c (h c hc)

theorem noNL_toDigits (n : Nat) : NoNL (Nat.toDigits 10 n) := by
  have := noNL_natToStr n
  rwa [natToStr_eq] at this

theorem noNL_replicate (k : Nat) (c : Char) (hc : c ≠ '\n') : NoNL (List.replicate k c) := by
  intro x hx
  rw [List.mem_replicate] at hx
  rw [hx.2]; exact hc

theorem noNL_take {l : Str} (k : Nat) (h : NoNL l) : NoNL (l.take k) :=
  noNL_of_subset (fun _ hc => List.mem_of_mem_take hc) h

theorem noNL_drop {l : Str} (k : Nat) (h : NoNL l) : NoNL (l.drop k) :=
  noNL_of_subset (fun _ hc => List.mem_of_mem_drop hc) h

theorem noNL_strip {l : Str} (h : NoNL l) : NoNL (stripTrailingZeros l) := by
  unfold stripTrailingZeros
  intro c hc
  rw [List.mem_reverse] at hc
  have := (List.dropWhile_sublist _).subset hc
  rw [List.mem_reverse] at this
  exact h c this

theorem noNL_padLeft {l : Str} (k : Nat) (h : NoNL l) : NoNL (padLeftZeros k l) := by
  unfold padLeftZeros
  exact noNL_append (noNL_replicate _ _ (by decide)) h

theorem noNL_signPrefix {l : Str} (b : Bool) (h : NoNL l) : NoNL (signPrefix b l) := by
  unfold signPrefix
  split
  · exact noNL_cons (by decide) h
  · exact h

theorem noNL_withFrac {a b : Str} (ha : NoNL a) (hb : NoNL b) : NoNL (withFrac a b) := by
  unfold withFrac
  split
  · exact ha
  · exact noNL_append ha (noNL_cons (by decide) hb)

theorem noNL_gBody (x : Int) (p : Nat) (ds : Str) (hds : NoNL ds) : NoNL (
    if x ≥ -4 && x < (p : Int) then
      if x ≥ 0 then withFrac (ds.take (x.toNat + 1)) (stripTrailingZeros (ds.drop (x.toNat + 1)))
      else withFrac ['0'] (stripTrailingZeros (List.replicate ((-x).toNat - 1) '0' ++ ds))
    else withFrac (ds.take 1) (stripTrailingZeros (ds.drop 1)) ++
      'e' :: (if x < 0 then '-' else '+') :: padLeftZeros 2 (Nat.toDigits 10 x.natAbs)) := by
  split
  · split
    · exact noNL_withFrac (noNL_take _ hds) (noNL_strip (noNL_drop _ hds))
    · exact noNL_withFrac (by decide) (noNL_strip (noNL_append (noNL_replicate _ _ (by decide)) hds))
  · refine noNL_append (noNL_withFrac (noNL_take _ hds) (noNL_strip (noNL_drop _ hds)))
      (noNL_cons (by decide) (noNL_cons ?_ (noNL_padLeft _ (noNL_toDigits _))))
    split <;> decide

theorem noNL_fmtGBits (p : Nat) (b : UInt64) : NoNL (fmtGBits p b) := by
  simp only [fmtGBits]
  split
  · exact noNL_signPrefix _ (by decide)
  · exact noNL_signPrefix _ (by decide)
  · exact noNL_signPrefix _ (by decide)
  · apply noNL_signPrefix
    exact noNL_gBody _ _ _ (noNL_padLeft _ (noNL_toDigits _))

theorem noNL_fmtG (p : Nat) (x : Float) : NoNL (fmtG p x) := noNL_fmtGBits p x.toBits

mutual
  /-- values whose record text is framed: no line break in enum / record type names,
      no pointers, no `.none` -/
  def Clean : Val → Prop
    | .int _ => True
    | .real _ => True
    | .bool _ => True
    | .chr _ => True
    | .str _ => True
    | .date _ => True
    | .enum ty _ => NoNL ty
    | .ptr _ _ => False
    | .none => False
    | .comp ty fs => NoNL ty ∧ CleanFields fs
    | .arr _ _ cells => CleanList cells
  def CleanList : List Val → Prop
    | [] => True
    | v :: r => Clean v ∧ CleanList r
  def CleanFields : List (Str × Val) → Prop
    | [] => True
    | (_, v) :: r => Clean v ∧ CleanFields r
end

theorem noNL_tag (t : String) (h : NoNL t.toList) (b : Str) (hb : FramedTail b) : FramedTail (t.toList ++ ' ' :: b) :=
  framedTail_append (framedTail_of_noNL h) (framedTail_cons (by decide) hb)

mutual
  theorem framedTail_dump :
      ∀ v, Clean v → FramedTail (dump v)
    | .int n, _ => by
      rw [dump_int]; exact noNL_tag _ (by decide) _ (framedTail_of_noNL (noNL_intToStr n))
    | .real x, _ => by
      rw [dump_real]; exact noNL_tag _ (by decide) _ (framedTail_of_noNL (noNL_fmtG 17 x))
    | .bool b, _ => by
      rw [dump_bool]; exact noNL_tag _ (by decide) _ (framedTail_of_noNL (by cases b <;> decide))
    | .chr c, _ => by
      rw [dump_chr]
      refine noNL_tag _ (by decide) _ ?_
      by_cases hc : c = '\n'
      · subst hc; exact ⟨fun _ => ⟨[], rfl⟩, ⟨fun h => absurd h (by decide), trivial⟩⟩
      · have hb : (c == '\n') = false := by simp [hc]
        simp only [hb]
        exact framedTail_cons hc trivial
    | .str s, _ => by
      rw [dump_str]
      exact noNL_tag _ (by decide) _ (framedTail_append (framedTail_of_noNL (noNL_natToStr _))
        (framedTail_cons (by decide) (framedTail_escNL s)))
    | .date t, _ => by
      rw [dump_date]
      exact noNL_tag _ (by decide) _ (framedTail_of_noNL
        (noNL_append (noNL_intToStr _) (noNL_cons (by decide)
          (noNL_append (noNL_intToStr _) (noNL_cons (by decide) (noNL_intToStr _))))))
    | .enum ty i, h => by
      simp only [Clean] at h
      rw [dump_enum]
      exact noNL_tag _ (by decide) _ (framedTail_of_noNL
        (noNL_append h (noNL_cons (by decide) (noNL_natToStr _))))
    | .ptr _ _, h => by simp only [Clean] at h
    | .none, h => by simp only [Clean] at h
    | .comp ty fs, h => by
      simp only [Clean] at h
      rw [dump_comp]
      refine noNL_tag _ (by decide) _ (framedTail_append (framedTail_of_noNL h.1)
        (framedTail_cons (by decide) (framedTail_append
          (framedTail_joinSp _ (framedTail_dumpFields fs false h.2)) ?_)))
      split
      · trivial
      · exact framedTail_cons (by decide) (framedTail_joinSp _ (framedTail_dumpFields fs true h.2))
    | .arr e d cells, h => by
      simp only [Clean] at h
      rw [dump_arr]
      exact noNL_tag _ (by decide) _ (framedTail_append (framedTail_of_noNL (noNL_natToStr _))
        (framedTail_cons (by decide) (framedTail_joinSp _ (framedTail_dumpList cells h))))
  theorem framedTail_dumpList :
      ∀ vs, CleanList vs → ∀ x ∈ dumpList vs, FramedTail x
    | [], _ => by intro x hx; simp [dumpList_nil] at hx
    | v :: vs, h => by
      simp only [CleanList] at h
      intro x hx
      rw [dumpList_cons] at hx
      rcases List.mem_cons.mp hx with rfl | hx
      · exact framedTail_dump v h.1
      · exact framedTail_dumpList vs h.2 x hx
  theorem framedTail_dumpFields :
      ∀ fs w, CleanFields fs → ∀ x ∈ dumpFields fs w, FramedTail x
    | [], w, _ => by intro x hx; simp [dumpFields_nil] at hx
    | (n, v) :: fs, w, h => by
      simp only [CleanFields] at h
      intro x hx
      rw [dumpFields_cons] at hx
      split at hx
      · rcases List.mem_cons.mp hx with rfl | hx
        · exact framedTail_dump v h.1
        · exact framedTail_dumpFields fs w h.2 x hx
      · exact framedTail_dumpFields fs w h.2 x hx
end

theorem tagOf_ne_of_clean (v : Val) (h : Clean v) : tagOf v ≠ "" := by
  cases v <;> first | (simp only [tagOf]; decide) | (simp only [Clean] at h)

theorem framed_dump (v : Val) (h : Clean v) : Framed (dump v) := by
  refine ⟨?_, ?_, framedTail_dump v h⟩
  · obtain ⟨b, hb⟩ := dump_tag v (tagOf_ne_of_clean v h)
    rw [hb]
    cases v <;> first | (simp [tagOf]; done) | (simp only [Clean] at h; done)
  · obtain ⟨b, hb⟩ := dump_tag v (tagOf_ne_of_clean v h)
    rw [hb]
    cases v <;> first | (simp [tagOf]; done) | (simp only [Clean] at h; done)


theorem noNL_of_wordOK {w : Str} (h : WordOK w) : NoNL w := by
  intro c hc hnl
  have := h.2 c hc
  subst hnl
  simp [isSpaceC] at this

mutual
  theorem clean_of_storable (Fin : Float → Prop) (defs : Defs) : ∀ v, Storable Fin defs v → Clean v
    | .int _, _ => by simp only [Clean]
    | .real _, _ => by simp only [Clean]
    | .bool _, _ => by simp only [Clean]
    | .chr _, _ => by simp only [Clean]
    | .str _, _ => by simp only [Clean]
    | .date _, _ => by simp only [Clean]
    | .enum ty _, h => by simp only [Storable] at h; simp only [Clean]; exact noNL_of_wordOK h.1
    | .ptr _ _, h => by simp only [Storable] at h
    | .none, h => by simp only [Storable] at h
    | .comp ty fs, h => by
      simp only [Storable] at h; simp only [Clean]
      exact ⟨noNL_of_wordOK h.1, cleanFields_of_storable Fin defs fs h.2.2⟩
    | .arr _ _ cells, h => by
      simp only [Storable] at h; simp only [Clean]
      exact cleanList_of_storable Fin defs cells h.2
  theorem cleanList_of_storable (Fin : Float → Prop) (defs : Defs) :
      ∀ vs, StorableList Fin defs vs → CleanList vs
    | [], _ => by simp only [CleanList]
    | v :: vs, h => by
      simp only [StorableList] at h; simp only [CleanList]
      exact ⟨clean_of_storable Fin defs v h.1, cleanList_of_storable Fin defs vs h.2⟩
  theorem cleanFields_of_storable (Fin : Float → Prop) (defs : Defs) :
      ∀ fs, StorableFields Fin defs fs → CleanFields fs
    | [], _ => by simp only [CleanFields]
    | (_, v) :: fs, h => by
      simp only [StorableFields] at h; simp only [CleanFields]
      exact ⟨clean_of_storable Fin defs v h.1, cleanFields_of_storable Fin defs fs h.2⟩
end

/-! ### the three integer reader laws hold in the model (so `ReaderLaws` only assumes the REAL law) -/

theorem digitsToNat_eq (l : Str) (h : ∀ c ∈ l, isDigit c = true) : digitsToNat 10 l = digitsVal l := by
  unfold digitsToNat digitsVal
  generalize 0 = a
  induction l generalizing a with
  | nil => rfl
  | cons c l ih =>
    simp only [List.foldl_cons]
    have hc : hexVal c = c.toNat - '0'.toNat := by simp [hexVal, h c (by simp)]
    rw [hc]
    exact ih (fun d hd => h d (by simp [hd])) _

theorem takeWhile_digits (D rest : Str) (hd : ∀ c ∈ D, isDigit c = true) (hr : SepOK rest) :
    (D ++ rest).takeWhile isDigit = D := by
  induction D with
  | nil =>
    rcases hr with rfl | ⟨r, rfl⟩
    · rfl
    · simp [show isDigit ' ' = false by decide]
  | cons c D ih =>
    simp only [List.cons_append, List.takeWhile_cons, hd c (by simp), if_true]
    rw [ih (fun d hd' => hd d (by simp [hd']))]

theorem dropWhile_digit (D rest : Str) (hne : D ≠ []) (hd : ∀ c ∈ D, isDigit c = true) :
    (D ++ rest).dropWhile isSpaceC = D ++ rest := by
  cases D with
  | nil => exact absurd rfl hne
  | cons c D' =>
    simp only [List.cons_append]
    rw [List.dropWhile_cons]
    simp [not_space_of_isDigit c (hd c (by simp))]

theorem accInt_digits (D rest : Str) (hne : D ≠ []) (hd : ∀ c ∈ D, isDigit c = true) (hr : SepOK rest) :
    accInt (D ++ rest) = (false, D, rest) := by
  cases D with
  | nil => exact absurd rfl hne
  | cons c D' =>
    have hc := hd c (by simp)
    have h1 : c ≠ '-' := by rintro rfl; simp [isDigit] at hc
    have h2 : c ≠ '+' := by rintro rfl; simp [isDigit] at hc
    have htw := takeWhile_digits (c :: D') rest hd hr
    unfold accInt
    simp only [List.cons_append] at htw ⊢
    split
    · rename_i heq; injection heq with heq _; exact absurd heq h1
    · rename_i heq; injection heq with heq _; exact absurd heq h2
    · simp only [htw]; simp

theorem accInt_neg (D rest : Str) (hd : ∀ c ∈ D, isDigit c = true) (hr : SepOK rest) :
    accInt ('-' :: (D ++ rest)) = (true, D, rest) := by
  unfold accInt
  simp only [takeWhile_digits D rest hd hr]; simp

theorem dropWhile_minus (s : Str) : ('-' :: s).dropWhile isSpaceC = '-' :: s := by
  rw [List.dropWhile_cons]; simp [isSpaceC]

theorem isEmpty_false_of_ne_nil {l : Str} (h : l ≠ []) : l.isEmpty = false := by
  cases l with
  | nil => exact absurd rfl h
  | cons _ _ => rfl

theorem longRaw_nonneg (k : Nat) (rest : Str) (hk : (k : Int) ≤ longMax) (hr : SepOK rest) :
    istreamReadLongRaw (natToStr k ++ rest) = (false, (k : Int), rest) := by
  have hD := natToStr_isDigit k
  have hne := natToStr_ne_nil k
  have hemp : (natToStr k ++ rest).isEmpty = false := isEmpty_false_of_ne_nil (by simp [hne])
  have hdne := isEmpty_false_of_ne_nil hne
  have hgt : ¬ ((k : Int) > longMax) := by omega
  unfold istreamReadLongRaw
  simp only [dropWhile_digit _ rest hne hD, hemp, accInt_digits _ rest hne hD hr, hdne,
    digitsToNat_eq _ hD, digitsVal_natToStr, Bool.false_eq_true, if_false]
  rw [if_neg hgt]

theorem longRaw_neg (k : Nat) (rest : Str) (hk : (k : Int) ≤ -longMin) (hr : SepOK rest) :
    istreamReadLongRaw ('-' :: (natToStr k ++ rest)) = (false, -(k : Int), rest) := by
  have hD := natToStr_isDigit k
  have hne := natToStr_ne_nil k
  have hdne := isEmpty_false_of_ne_nil hne
  have hgt : ¬ ((k : Int) > -longMin) := by omega
  unfold istreamReadLongRaw
  simp only [dropWhile_minus, accInt_neg _ rest hD hr, hdne,
    digitsToNat_eq _ hD, digitsVal_natToStr, Bool.false_eq_true, if_false, if_true, List.isEmpty_cons]
  rw [if_neg hgt]

theorem long_rt_model (n : Int) (rest : Str) (hn : InRange64 n) (hr : SepOK rest) :
    istreamReadLong (intToStr n ++ rest) = some (n, rest) := by
  unfold InRange64 two63 at hn
  unfold istreamReadLong
  by_cases h : 0 ≤ n
  · rw [intToStr_nonneg n h, longRaw_nonneg _ rest (by unfold longMax; omega) hr]
    simp only [Int.toNat_of_nonneg h]
  · rw [intToStr_neg n h, List.cons_append, longRaw_neg _ rest (by unfold longMin; omega) hr]
    have : -((-n).toNat : Int) = n := by omega
    simp only [this]

theorem unsignedRaw_model (M k : Nat) (rest : Str) (hk : k < M) (hr : SepOK rest) :
    istreamReadUnsignedRaw M (natToStr k ++ rest) = (false, k, rest) := by
  have hD := natToStr_isDigit k
  have hne := natToStr_ne_nil k
  have hemp : (natToStr k ++ rest).isEmpty = false := isEmpty_false_of_ne_nil (by simp [hne])
  have hdne := isEmpty_false_of_ne_nil hne
  have hge : ¬ (k ≥ M) := by omega
  unfold istreamReadUnsignedRaw
  simp only [dropWhile_digit _ rest hne hD, hemp, accInt_digits _ rest hne hD hr, hdne,
    digitsToNat_eq _ hD, digitsVal_natToStr, Bool.false_eq_true, if_false]
  rw [if_neg hge]

theorem sizet_rt_model (n : Nat) (rest : Str) (hn : n < 2 ^ 64) (hr : SepOK rest) :
    istreamReadSizeT (natToStr n ++ rest) = some (n, rest) := by
  unfold istreamReadSizeT istreamReadSizeTRaw
  rw [unsignedRaw_model _ n rest (by unfold pow2_64; omega) hr]

theorem uint_rt_model (n : Nat) (rest : Str) (hn : n < 2 ^ 32) (hr : SepOK rest) :
    istreamReadUInt (natToStr n ++ rest) = some (n, rest) := by
  unfold istreamReadUInt istreamReadUIntRaw
  rw [unsignedRaw_model _ n rest (by omega) hr]

/-- `ReaderLaws` follows from its REAL field alone: the three integer fields are theorems of the model. -/
theorem readerLaws_of_double (Fin : Float → Prop)
    (h : ∀ (x : Float) (rest : Str), Fin x → SepOK rest →
      istreamReadDouble (fmtG 17 x ++ rest) = some (x, rest)) : ReaderLaws Fin :=
  ⟨long_rt_model, sizet_rt_model, uint_rt_model, h⟩

/-- in particular the laws are consistent: they hold outright when no REAL value is allowed -/
theorem readerLaws_noReal : ReaderLaws (fun _ => False) :=
  readerLaws_of_double _ (fun _ _ h => h.elim)

end Pseudo.Codec
