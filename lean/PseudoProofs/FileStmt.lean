import PseudoProofs.EvalStep
/-!
# The file statements of `execStmt` refine the pure file layer

`FilesPure.lean` defines the file layer as a pure state machine (`fpre`, `fstep`, `closeAllF` over `FState`); the property
files C13–C16 prove their theorems about that machine. This file ties the machine to programs:

* `run_doFile_ok/err`, `run_filePre_ok/err`: `doFile` / `filePre` are exactly `fstep` / `fpre` lifted to the interpreter state
  (`fileSt σ` = the file component of `σ`, `setFile σ s'` = `σ` with the file component replaced);
* `run_fileName`, `run_lookupVar`, `run_lookupArr`, `run_codecDefs`, `run_writeText`: the read-only functions a file statement
  uses, as functions of the state;
* `exec_openFile`, `exec_closeFile`, `exec_writeFile`, `exec_seek`, `exec_putRecord`, `exec_readFile`, `exec_getRecord`: for
  each file statement an EQUATION that gives the complete run (result and final state) of the statement in terms of `fpre` /
  `fstep` on `fileSt σ`, under the hypothesis that the file-name (and payload / address) expression evaluates without changing
  the state (`EvalsTo`); `evalsTo_strLit` etc. discharge that hypothesis for literals.
-/
namespace Pseudo.FileStmt
open Pseudo

/-- the file component of an interpreter state -/
def fileSt (σ : St) : FState := { fs := σ.fs, handles := σ.handles }

/-- replace the file component -/
def setFile (σ : St) (s : FState) : St := { σ with fs := s.fs, handles := s.handles }

@[simp] theorem fileSt_setFile (σ : St) (s : FState) : fileSt (setFile σ s) = s := rfl
@[simp] theorem setFile_fileSt (σ : St) : setFile σ (fileSt σ) = σ := rfl
@[simp] theorem fileSt_tickSt (σ : St) : fileSt (tickSt σ) = fileSt σ := rfl
@[simp] theorem fileSt_updSt (σ : St) (id : Nat) (F : Act → Act) : fileSt (updSt σ id F) = fileSt σ := rfl
@[simp] theorem setFile_acts (σ : St) (s : FState) : (setFile σ s).acts = σ.acts := rfl
@[simp] theorem setFile_steps (σ : St) (s : FState) : (setFile σ s).steps = σ.steps := rfl
@[simp] theorem setFile_out (σ : St) (s : FState) : (setFile σ s).out = σ.out := rfl
@[simp] theorem setFile_fs (σ : St) (s : FState) : (setFile σ s).fs = s.fs := rfl
@[simp] theorem setFile_handles (σ : St) (s : FState) : (setFile σ s).handles = s.handles := rfl

/-- the diagnostic depends on the activation chain only -/
theorem rtDiag_congr (σ σ' : St) (h : σ'.acts = σ.acts) (l c : Nat) (m : Msg) : rtDiag σ' l c m = rtDiag σ l c m := by
  unfold rtDiag; rw [h]

@[simp] theorem rtDiag_tickSt (σ : St) (l c : Nat) (m : Msg) : rtDiag (tickSt σ) l c m = rtDiag σ l c m := rfl
@[simp] theorem rtDiag_setFile (σ : St) (s : FState) (l c : Nat) (m : Msg) : rtDiag (setFile σ s) l c m = rtDiag σ l c m := rfl

/-- the outcome "runtime error `m` reported at token `t`, nothing changed" -/
def errAt {α : Type} (σ : St) (t : Tok) (m : Msg) : Except Stop α × St := (.error (.diag (rtDiag σ t.line t.col m)), σ)

/-! ### 1. `doFile` and `filePre` are `fstep` and `fpre`, lifted -/

theorem run_doFile (t : Tok) (op : FOp) (σ : St) :
    (doFile t op).run.run σ =
      match fstep (fileSt σ) op with
      | .ok (s', r) => (.ok r, setFile σ s')
      | .error m => errAt σ t m := by
  unfold doFile
  rw [run_bind_ok _ _ _ _ _ (run_get σ)]
  show (match fstep (fileSt σ) op with
      | .ok (fs', r) => (do set { σ with fs := fs'.fs, handles := fs'.handles }; pure r : M FRes)
      | .error m => rtErr t m).run.run σ = _
  cases fstep (fileSt σ) op with
  | error m => exact run_rtErr t m σ
  | ok p => rfl

theorem run_doFile_ok (t : Tok) (op : FOp) (σ : St) (s' : FState) (r : FRes) (h : fstep (fileSt σ) op = .ok (s', r)) :
    (doFile t op).run.run σ = (.ok r, setFile σ s') := by
  rw [run_doFile, h]

theorem run_doFile_err (t : Tok) (op : FOp) (σ : St) (m : Msg) (h : fstep (fileSt σ) op = .error m) :
    (doFile t op).run.run σ = errAt σ t m := by
  rw [run_doFile, h]

theorem run_filePre (t : Tok) (op : FOp) (σ : St) :
    (filePre t op).run.run σ =
      match fpre (fileSt σ) op with
      | .ok _ => (.ok ⟨⟩, σ)
      | .error m => errAt σ t m := by
  unfold filePre
  rw [run_bind_ok _ _ _ _ _ (run_get σ)]
  show (match fpre (fileSt σ) op with
      | .ok () => (pure () : M Unit)
      | .error m => rtErr t m).run.run σ = _
  cases fpre (fileSt σ) op with
  | error m => exact run_rtErr t m σ
  | ok p => rfl

theorem run_filePre_ok (t : Tok) (op : FOp) (σ : St) (h : fpre (fileSt σ) op = .ok ()) :
    (filePre t op).run.run σ = (.ok ⟨⟩, σ) := by
  rw [run_filePre, h]

theorem run_filePre_err (t : Tok) (op : FOp) (σ : St) (m : Msg) (h : fpre (fileSt σ) op = .error m) :
    (filePre t op).run.run σ = errAt σ t m := by
  rw [run_filePre, h]

theorem run_closeAll (σ : St) : closeAll.run.run σ = (.ok ⟨⟩, setFile σ (closeAllF (fileSt σ))) := rfl

/-! ### the read-only functions a file statement uses -/

/-- state-preserving evaluation of an expression to `v` (the hypothesis of the statement theorems) -/
def EvalsTo (f : Nat) (e : Expr) (σ : St) (v : Val) : Prop := (evalExpr f e).run.run σ = (.ok v, σ)

theorem evalsTo_strLit (f : Nat) (t : Tok) (s : Str) (σ : St) : EvalsTo (f+1) (.strLit t s) σ (.str s) := by
  unfold EvalsTo; rw [evalExpr.eq_def]; rfl
theorem evalsTo_intLit (f : Nat) (t : Tok) (n : Int) (σ : St) : EvalsTo (f+1) (.intLit t n) σ (.int n) := by
  unfold EvalsTo; rw [evalExpr.eq_def]; rfl
theorem evalsTo_boolLit (f : Nat) (t : Tok) (b : Bool) (σ : St) : EvalsTo (f+1) (.boolLit t b) σ (.bool b) := by
  unfold EvalsTo; rw [evalExpr.eq_def]; rfl
theorem evalsTo_charLit (f : Nat) (t : Tok) (c : Char) (σ : St) : EvalsTo (f+1) (.charLit t c) σ (.chr c) := by
  unfold EvalsTo; rw [evalExpr.eq_def]; rfl
theorem evalsTo_realLit (f : Nat) (t : Tok) (txt : Str) (σ : St) :
    EvalsTo (f+1) (.realLit t txt) σ (.real (FloatFmt.strtod txt).1) := by
  unfold EvalsTo; rw [evalExpr.eq_def]; rfl

theorem fileName_succ (f : Nat) (t : Tok) (e : Expr) :
    fileName (f+1) t e = (do
      match ← evalExpr f e with
      | .str s => pure s
      | _ => rtErr t .typeMismatch) := by
  rw [fileName.eq_def]; rfl

/-- a file-name expression that evaluates to a STRING without changing the state -/
theorem run_fileName (f : Nat) (t : Tok) (e : Expr) (σ : St) (name : Str) (h : EvalsTo f e σ (.str name)) :
    (fileName (f+1) t e).run.run σ = (.ok name, σ) := by
  rw [fileName_succ, run_bind_ok _ _ _ _ _ h]
  rfl

/-- a file name of another type is refused -/
theorem run_fileName_bad (f : Nat) (t : Tok) (e : Expr) (σ : St) (v : Val) (h : EvalsTo f e σ v) (hv : ∀ s, v ≠ .str s) :
    (fileName (f+1) t e).run.run σ = errAt σ t .typeMismatch := by
  rw [fileName_succ, run_bind_ok _ _ _ _ _ h]
  cases v <;> first | exact run_rtErr t .typeMismatch σ | exact absurd rfl (hv _)

/-- `curAct` / `globalAct` as functions of the state -/
def curActP (σ : St) : Except Stop Act :=
  match σ.acts with
  | a :: _ => .ok a
  | [] => .error (.crash .noActivation)

def globalActP (σ : St) : Except Stop Act :=
  match σ.acts.getLast? with
  | some a => .ok a
  | none => .error (.crash .noActivation)

theorem run_curAct (σ : St) : curAct.run.run σ = (curActP σ, σ) := by
  unfold curAct curActP
  rw [run_bind_ok _ _ _ _ _ (run_get σ)]
  cases σ.acts <;> rfl

theorem run_globalAct (σ : St) : globalAct.run.run σ = (globalActP σ, σ) := by
  unfold globalAct globalActP
  rw [run_bind_ok _ _ _ _ _ (run_get σ)]
  cases σ.acts.getLast? <;> rfl

/-- `lookupVar` / `lookupArr` as functions of the state: the current activation, then the global one -/
def lookupVarP (σ : St) (n : Str) : Except Stop (Option (Act × Slot)) :=
  match curActP σ, globalActP σ with
  | .ok a, .ok g => .ok (lookupVarIn a g n)
  | .error e, _ => .error e
  | _, .error e => .error e

def lookupArrP (σ : St) (n : Str) : Except Stop (Option (Act × Slot)) :=
  match curActP σ, globalActP σ with
  | .ok a, .ok g => .ok (lookupArrIn a g n)
  | .error e, _ => .error e
  | _, .error e => .error e

theorem run_lookupVar (n : Str) (σ : St) : (lookupVar n).run.run σ = (lookupVarP σ n, σ) := by
  unfold lookupVar lookupVarP
  rw [run_bind, run_curAct]
  cases curActP σ with
  | error e => rfl
  | ok a =>
    dsimp only
    rw [run_bind, run_globalAct]
    cases globalActP σ <;> rfl

theorem run_lookupArr (n : Str) (σ : St) : (lookupArr n).run.run σ = (lookupArrP σ n, σ) := by
  unfold lookupArr lookupArrP
  rw [run_bind, run_curAct]
  cases curActP σ with
  | error e => rfl
  | ok a =>
    dsimp only
    rw [run_bind, run_globalAct]
    cases globalActP σ <;> rfl

/-- with a non-empty activation stack the look-ups cannot fail -/
theorem lookupVarP_cons (σ : St) (a : Act) (rest : List Act) (h : σ.acts = a :: rest) (n : Str) :
    lookupVarP σ n = .ok (lookupVarIn a ((a :: rest).getLast (List.cons_ne_nil a rest)) n) := by
  unfold lookupVarP curActP globalActP
  rw [h, List.getLast?_eq_some_getLast (List.cons_ne_nil a rest)]

theorem lookupArrP_cons (σ : St) (a : Act) (rest : List Act) (h : σ.acts = a :: rest) (n : Str) :
    lookupArrP σ n = .ok (lookupArrIn a ((a :: rest).getLast (List.cons_ne_nil a rest)) n) := by
  unfold lookupArrP curActP globalActP
  rw [h, List.getLast?_eq_some_getLast (List.cons_ne_nil a rest)]

/-- the text WRITEFILE writes for a value (pure content of `writeText`) -/
def writeTextP (v : Val) : Except Msg Str :=
  match v with
  | .none => .error .noValue
  | .enum _ _ | .ptr _ _ | .comp _ _ | .arr _ _ _ => .error .nonPrimitive
  | v => match primToString v with
    | some s => .ok s
    | none => .error .nonPrimitive

theorem run_writeText (t : Tok) (v : Val) (σ : St) :
    (writeText t v).run.run σ =
      match writeTextP v with
      | .ok s => (.ok s, σ)
      | .error m => errAt σ t m := by
  unfold writeText writeTextP
  cases v <;> first | rfl | exact run_rtErr t _ σ

/-- the type definitions visible to the record codec (pure content of `codecDefs`) -/
def scopeActP (σ : St) : Except Stop Act :=
  match σ.acts.find? (fun a => !a.isComp) with
  | some a => .ok a
  | none => .error (.crash .noActivation)

theorem run_scopeAct (σ : St) : scopeAct.run.run σ = (scopeActP σ, σ) := by
  unfold scopeAct scopeActP
  rw [run_bind_ok _ _ _ _ _ (run_get σ)]
  cases σ.acts.find? (fun a => !a.isComp) <;> rfl

def defsOf (a g : Act) : Codec.Defs :=
  let find {β} (sel : Act → List (Str × β)) (n : Str) : Option (Str × β) :=
    match (sel a).find? (·.1 == n) with
    | some x => some x
    | none => if a.id == g.id then none else (sel g).find? (·.1 == n)
  { enumDef := fun n => find (·.enums) n, compDef := fun n => (find (·.comps) n).map (·.1) }

def codecDefsP (σ : St) : Except Stop Codec.Defs :=
  match scopeActP σ, globalActP σ with
  | .ok a, .ok g => .ok (defsOf a g)
  | .error e, _ => .error e
  | _, .error e => .error e

theorem run_codecDefs (σ : St) : codecDefs.run.run σ = (codecDefsP σ, σ) := by
  unfold codecDefs codecDefsP
  rw [run_bind, run_scopeAct]
  cases scopeActP σ with
  | error e => rfl
  | ok a =>
    dsimp only
    rw [run_bind, run_globalAct]
    cases globalActP σ <;> rfl

/-! ### 2. the file statements -/

/-- a statement over budget: reported, nothing changes -/
theorem exec_budget (f : Nat) (s : Stmt) (t : Tok) (σ : St) (h : σ.steps + 1 > σ.stepLimit)
    (hs : ∃ k : M Val, execStmt (f+1) s = (do tick t; k)) :
    (execStmt (f+1) s).run.run σ = errAt σ t .budget := by
  obtain ⟨k, hk⟩ := hs
  rw [hk, run_bind_err _ _ _ _ _ (run_tick_budget t σ h)]
  rfl

theorem execStmt_openFile (f : Nat) (t : Tok) (fn : Expr) (mode : FileMode) :
    execStmt (f+1) (.openFile t fn mode) = (do
      tick t
      let name ← fileName f t fn
      let _ ← doFile t (.open name mode)
      pure .none) := by
  rw [execStmt.eq_def] <;> rfl

theorem execStmt_closeFile (f : Nat) (t : Tok) (fn : Expr) :
    execStmt (f+1) (.closeFile t fn) = (do
      tick t
      let name ← fileName f t fn
      let _ ← doFile t (.close name)
      pure .none) := by
  rw [execStmt.eq_def] <;> rfl

/-- the run of a statement that is one `fstep` and nothing else -/
def liftStep (σ : St) (t : Tok) (op : FOp) : Except Stop Val × St :=
  match fstep (fileSt σ) op with
  | .ok (s', _) => (.ok .none, setFile (tickSt σ) s')
  | .error m => errAt (tickSt σ) t m

theorem run_doFile_none (t : Tok) (op : FOp) (σ : St) :
    (do let _ ← doFile t op; pure Val.none : M Val).run.run (tickSt σ) = liftStep σ t op := by
  rw [run_bind, run_doFile]
  unfold liftStep
  rw [fileSt_tickSt]
  cases fstep (fileSt σ) op <;> rfl

/-- **OPENFILE**: the statement is `fstep … (.open name mode)` on the file component, plus one tick. -/
theorem exec_openFile (f : Nat) (t : Tok) (fn : Expr) (mode : FileMode) (σ : St) (name : Str)
    (hb : σ.steps + 1 ≤ σ.stepLimit) (hfn : EvalsTo f fn (tickSt σ) (.str name)) :
    (execStmt (f+2) (.openFile t fn mode)).run.run σ = liftStep σ t (.open name mode) := by
  rw [execStmt_openFile, run_bind_ok _ _ _ _ _ (run_tick_ok t σ hb),
    run_bind_ok _ _ _ _ _ (run_fileName f t fn _ name hfn)]
  exact run_doFile_none t _ σ

/-- **CLOSEFILE** -/
theorem exec_closeFile (f : Nat) (t : Tok) (fn : Expr) (σ : St) (name : Str)
    (hb : σ.steps + 1 ≤ σ.stepLimit) (hfn : EvalsTo f fn (tickSt σ) (.str name)) :
    (execStmt (f+2) (.closeFile t fn)).run.run σ = liftStep σ t (.close name) := by
  rw [execStmt_closeFile, run_bind_ok _ _ _ _ _ (run_tick_ok t σ hb),
    run_bind_ok _ _ _ _ _ (run_fileName f t fn _ name hfn)]
  exact run_doFile_none t _ σ

theorem execStmt_writeFile (f : Nat) (t : Tok) (fn e : Expr) :
    execStmt (f+1) (.writeFile t fn e) = (do
      tick t
      let name ← fileName f t fn
      filePre t (.write name [])
      let v ← evalExpr f e
      let txt ← writeText t v
      let _ ← doFile t (.write name txt)
      pure .none) := by
  rw [execStmt.eq_def] <;> rfl

/-- the legality of WRITEFILE does not depend on the text -/
theorem fpre_write_txt (s : FState) (n txt txt' : Str) : fpre s (.write n txt) = fpre s (.write n txt') := rfl

/-- **WRITEFILE**: legality check, text of the payload, then `fstep … (.write name txt)`. -/
theorem exec_writeFile (f : Nat) (t : Tok) (fn e : Expr) (σ : St) (name : Str) (v : Val)
    (hb : σ.steps + 1 ≤ σ.stepLimit) (hfn : EvalsTo f fn (tickSt σ) (.str name)) (he : EvalsTo (f+1) e (tickSt σ) v) :
    (execStmt (f+2) (.writeFile t fn e)).run.run σ =
      match fpre (fileSt σ) (.write name []) with
      | .error m => errAt (tickSt σ) t m
      | .ok _ =>
        match writeTextP v with
        | .error m => errAt (tickSt σ) t m
        | .ok txt => liftStep σ t (.write name txt) := by
  rw [execStmt_writeFile, run_bind_ok _ _ _ _ _ (run_tick_ok t σ hb),
    run_bind_ok _ _ _ _ _ (run_fileName f t fn _ name hfn), run_bind, run_filePre, fileSt_tickSt]
  cases fpre (fileSt σ) (.write name []) with
  | error m => rfl
  | ok u =>
    dsimp only
    rw [run_bind_ok _ _ _ _ _ he, run_bind, run_writeText]
    cases writeTextP v with
    | error m => rfl
    | ok txt => exact run_doFile_none t _ σ

theorem execStmt_seek (f : Nat) (t : Tok) (fn addr : Expr) :
    execStmt (f+1) (.seek t fn addr) = (do
      tick t
      match ← evalExpr f addr with
      | .int a =>
        if a < 1 then rtErr t .seekRange
        else
          let name ← fileName f t fn
          let _ ← doFile t (.seek name a)
          pure .none
      | _ => rtErr t .typeMismatch) := by
  rw [execStmt.eq_def] <;> rfl

/-- **SEEK**: an address below 1 is refused before the file name is looked at; otherwise `fstep … (.seek name a)`. -/
theorem exec_seek (f : Nat) (t : Tok) (fn addr : Expr) (σ : St) (name : Str) (a : Int)
    (hb : σ.steps + 1 ≤ σ.stepLimit) (haddr : EvalsTo (f+1) addr (tickSt σ) (.int a)) (hfn : EvalsTo f fn (tickSt σ) (.str name)) :
    (execStmt (f+2) (.seek t fn addr)).run.run σ =
      if a < 1 then errAt (tickSt σ) t .seekRange else liftStep σ t (.seek name a) := by
  rw [execStmt_seek, run_bind_ok _ _ _ _ _ (run_tick_ok t σ hb), run_bind_ok _ _ _ _ _ haddr]
  dsimp only
  split
  · exact run_rtErr t .seekRange _
  · rw [run_bind_ok _ _ _ _ _ (run_fileName f t fn _ name hfn)]
    exact run_doFile_none t _ σ

/-- an address of another type is refused -/
theorem exec_seek_bad (f : Nat) (t : Tok) (fn addr : Expr) (σ : St) (v : Val)
    (hb : σ.steps + 1 ≤ σ.stepLimit) (haddr : EvalsTo (f+1) addr (tickSt σ) v) (hv : ∀ a, v ≠ .int a) :
    (execStmt (f+2) (.seek t fn addr)).run.run σ = errAt (tickSt σ) t .typeMismatch := by
  rw [execStmt_seek, run_bind_ok _ _ _ _ _ (run_tick_ok t σ hb), run_bind_ok _ _ _ _ _ haddr]
  cases v <;> first | exact run_rtErr t .typeMismatch _ | exact absurd rfl (hv _)

/-- the variable (first) or array named in GETRECORD / PUTRECORD: its location (a BYREF formal: the caller's) and type -/
def recTarget (v? a? : Option (Act × Slot)) : Option (Loc × Ty) :=
  match v?, a? with
  | some (a, s), _ => some (match s.ref with
      | some l => l
      | none => { act := a.id, isArr := false, name := s.name, path := [] }, s.ty)
  | none, some (a, s) => some ({ act := a.id, isArr := true, name := s.name, path := [] }, s.ty)
  | none, none => none

def isPtrTy : Ty → Bool
  | .ptr _ => true
  | _ => false

theorem execStmt_putRecord (f : Nat) (t : Tok) (fn : Expr) (id : Tok) :
    execStmt (f+1) (.putRecord t fn id) = (do
      tick t
      let name ← fileName f t fn
      filePre t (.put name [])
      let v? ← lookupVar id.val
      let a? ← lookupArr id.val
      match recTarget v? a? with
      | none => rtErr id .notDefined
      | some (loc, ty) =>
        match ty with
        | .ptr _ => rtErr t .nonPrimitive
        | _ => do
          let cur ← readLoc loc
          let _ ← doFile t (.put name (Codec.dump cur))
          pure .none) := by
  rw [execStmt.eq_def] <;> rfl

/-- **PUTRECORD**: legality check, the variable's current value `cur`, then `fstep … (.put name (Codec.dump cur))`. -/
theorem exec_putRecord (f : Nat) (t : Tok) (fn : Expr) (id : Tok) (σ : St) (name : Str) (v? a? : Option (Act × Slot))
    (hb : σ.steps + 1 ≤ σ.stepLimit) (hfn : EvalsTo f fn (tickSt σ) (.str name))
    (hlv : lookupVarP σ id.val = .ok v?) (hla : lookupArrP σ id.val = .ok a?) :
    (execStmt (f+2) (.putRecord t fn id)).run.run σ =
      match fpre (fileSt σ) (.put name []) with
      | .error m => errAt (tickSt σ) t m
      | .ok _ =>
        match recTarget v? a? with
        | none => errAt (tickSt σ) id .notDefined
        | some (loc, ty) =>
          if isPtrTy ty then errAt (tickSt σ) t .nonPrimitive
          else match readLocP σ loc with
            | .error e => (.error e, tickSt σ)
            | .ok cur => liftStep σ t (.put name (Codec.dump cur)) := by
  have hlv' : lookupVarP (tickSt σ) id.val = .ok v? := hlv
  have hla' : lookupArrP (tickSt σ) id.val = .ok a? := hla
  rw [execStmt_putRecord, run_bind_ok _ _ _ _ _ (run_tick_ok t σ hb),
    run_bind_ok _ _ _ _ _ (run_fileName f t fn _ name hfn), run_bind, run_filePre, fileSt_tickSt]
  cases fpre (fileSt σ) (.put name []) with
  | error m => rfl
  | ok u =>
    dsimp only
    rw [run_bind, run_lookupVar, hlv']
    dsimp only
    rw [run_bind, run_lookupArr, hla']
    dsimp only
    cases recTarget v? a? with
    | none => exact run_rtErr id .notDefined _
    | some p =>
      obtain ⟨loc, ty⟩ := p
      dsimp only
      have hcont : ((do let cur ← readLoc loc; let _ ← doFile t (.put name (Codec.dump cur)); pure Val.none) : M Val).run.run (tickSt σ) =
          match readLocP σ loc with
            | .error e => (.error e, tickSt σ)
            | .ok cur => liftStep σ t (.put name (Codec.dump cur)) := by
        rw [run_bind, run_readLoc, readLocP_tickSt]
        cases readLocP σ loc with
        | error e => rfl
        | ok cur => exact run_doFile_none t _ σ
      cases ty <;> first | exact hcont | exact run_rtErr t .nonPrimitive _

/-- "write `v` to `loc` in state `σ'`, result NONE": the tail of READFILE / GETRECORD -/
def thenWrite (t : Tok) (loc : Loc) (v : Val) (σ' : St) : Except Stop Val × St :=
  match (writeLoc t loc v).run.run σ' with
  | (.ok _, σ'') => (.ok .none, σ'')
  | (.error e, σ'') => (.error e, σ'')

theorem run_thenWrite (t : Tok) (loc : Loc) (v : Val) (σ' : St) :
    (do writeLoc t loc v; pure Val.none : M Val).run.run σ' = thenWrite t loc v σ' := by
  rw [run_bind]
  unfold thenWrite
  rcases (writeLoc t loc v).run.run σ' with ⟨e | u, σ''⟩ <;> rfl

theorem execStmt_getRecord (f : Nat) (t : Tok) (fn : Expr) (id : Tok) :
    execStmt (f+1) (.getRecord t fn id) = (do
      tick t
      let name ← fileName f t fn
      filePre t (.get name)
      let v? ← lookupVar id.val
      let a? ← lookupArr id.val
      match recTarget v? a? with
      | none => rtErr id .notDefined
      | some (loc, ty) =>
        match ty with
        | .ptr _ => rtErr t .nonPrimitive
        | _ => do
          if ← locIsConst loc then rtErr t .constAssign
          match ← doFile t (.get name) with
          | .record rec =>
            let cur ← readLoc loc
            let defs ← codecDefs
            match Codec.load defs cur rec with
            | some (nv, _) => writeLoc t loc nv; pure .none
            | none => rtErr t .recordRead
          | _ => throw (.crash .other)) := by
  rw [execStmt.eq_def] <;> rfl

/-- what GETRECORD does with the record text `rec` it obtained, in state `σ'` -/
def loadInto (t : Tok) (loc : Loc) (rec : Str) (σ' : St) : Except Stop Val × St :=
  match readLocP σ' loc with
  | .error e => (.error e, σ')
  | .ok cur =>
    match codecDefsP σ' with
    | .error e => (.error e, σ')
    | .ok defs =>
      match Codec.load defs cur rec with
      | some (nv, _) => thenWrite t loc nv σ'
      | none => errAt σ' t .recordRead

theorem run_loadInto (t : Tok) (loc : Loc) (rec : Str) (σ' : St) :
    (do
      let cur ← readLoc loc
      let defs ← codecDefs
      match Codec.load defs cur rec with
      | some (nv, _) => writeLoc t loc nv; pure .none
      | none => rtErr t .recordRead : M Val).run.run σ' = loadInto t loc rec σ' := by
  unfold loadInto
  rw [run_bind, run_readLoc]
  cases readLocP σ' loc with
  | error e => rfl
  | ok cur =>
    dsimp only
    rw [run_bind, run_codecDefs]
    cases codecDefsP σ' with
    | error e => rfl
    | ok defs =>
      dsimp only
      cases Codec.load defs cur rec with
      | none => exact run_rtErr t .recordRead σ'
      | some p => exact run_thenWrite t loc p.1 σ'

/-- **GETRECORD**: legality check, target look-up, constant check, `fstep … (.get name)`, then the record text is loaded into
    the variable's current value and stored with `writeLoc`. -/
theorem exec_getRecord (f : Nat) (t : Tok) (fn : Expr) (id : Tok) (σ : St) (name : Str) (v? a? : Option (Act × Slot))
    (hb : σ.steps + 1 ≤ σ.stepLimit) (hfn : EvalsTo f fn (tickSt σ) (.str name))
    (hlv : lookupVarP σ id.val = .ok v?) (hla : lookupArrP σ id.val = .ok a?) :
    (execStmt (f+2) (.getRecord t fn id)).run.run σ =
      match fpre (fileSt σ) (.get name) with
      | .error m => errAt (tickSt σ) t m
      | .ok _ =>
        match recTarget v? a? with
        | none => errAt (tickSt σ) id .notDefined
        | some (loc, ty) =>
          if isPtrTy ty then errAt (tickSt σ) t .nonPrimitive
          else if locConstP σ loc then errAt (tickSt σ) t .constAssign
          else match fstep (fileSt σ) (.get name) with
            | .error m => errAt (tickSt σ) t m
            | .ok (s', .record rec) => loadInto t loc rec (setFile (tickSt σ) s')
            | .ok (s', _) => (.error (.crash .other), setFile (tickSt σ) s') := by
  have hlv' : lookupVarP (tickSt σ) id.val = .ok v? := hlv
  have hla' : lookupArrP (tickSt σ) id.val = .ok a? := hla
  rw [execStmt_getRecord, run_bind_ok _ _ _ _ _ (run_tick_ok t σ hb),
    run_bind_ok _ _ _ _ _ (run_fileName f t fn _ name hfn), run_bind, run_filePre, fileSt_tickSt]
  cases fpre (fileSt σ) (.get name) with
  | error m => rfl
  | ok u =>
    dsimp only
    rw [run_bind, run_lookupVar, hlv']
    dsimp only
    rw [run_bind, run_lookupArr, hla']
    dsimp only
    cases recTarget v? a? with
    | none => exact run_rtErr id .notDefined _
    | some p =>
      obtain ⟨loc, ty⟩ := p
      dsimp only
      have hcont : ((do
            if ← locIsConst loc then rtErr t .constAssign
            match ← doFile t (.get name) with
            | .record rec =>
              let cur ← readLoc loc
              let defs ← codecDefs
              match Codec.load defs cur rec with
              | some (nv, _) => writeLoc t loc nv; pure .none
              | none => rtErr t .recordRead
            | _ => throw (.crash .other)) : M Val).run.run (tickSt σ) =
          if locConstP σ loc then errAt (tickSt σ) t .constAssign
          else match fstep (fileSt σ) (.get name) with
            | .error m => errAt (tickSt σ) t m
            | .ok (s', .record rec) => loadInto t loc rec (setFile (tickSt σ) s')
            | .ok (s', _) => (.error (.crash .other), setFile (tickSt σ) s') := by
        rw [run_bind, run_locIsConst]
        have hc : locConstP (tickSt σ) loc = locConstP σ loc := rfl
        rw [hc]
        cases locConstP σ loc with
        | true =>
          simp only [if_true]
          rw [run_bind, run_rtErr]
          rfl
        | false =>
          simp only [Bool.false_eq_true, if_false]
          rw [run_bind, run_doFile, fileSt_tickSt]
          cases fstep (fileSt σ) (.get name) with
          | error m => rfl
          | ok q =>
            obtain ⟨s', r⟩ := q
            cases r with
            | record rec => exact run_loadInto t loc rec _
            | _ => rfl
      cases ty <;> first | exact hcont | exact run_rtErr t .nonPrimitive _

theorem execStmt_readFile (f : Nat) (t : Tok) (fn : Expr) (id : Tok) :
    execStmt (f+1) (.readFile t fn id) = (do
      tick t
      let name ← fileName f t fn
      let existing ← lookupVar id.val
      match existing with
      | some (_, s) => if s.ty != .str then rtErr t .typeMismatch
      | none => pure ()
      filePre t (.readLine name)
      let loc ← match existing with
        | some (a, s) =>
          match s.ref with
          | some l => pure l
          | none => pure ({ act := a.id, isArr := false, name := s.name, path := [] } : Loc)
        | none =>
          addVar { name := id.val, ty := .str, val := .str [] }
          let a ← curAct
          pure ({ act := a.id, isArr := false, name := id.val, path := [] } : Loc)
      if ← locIsConst loc then rtErr t .constAssign
      match ← doFile t (.readLine name) with
      | .line line => writeLoc t loc (.str line); pure .none
      | _ => throw (.crash .other)) := by
  rw [execStmt.eq_def] <;> rfl

/-- the location a variable slot stands for (a BYREF formal: the caller's location) -/
def varLoc (a : Act) (s : Slot) : Loc :=
  match s.ref with
  | some l => l
  | none => { act := a.id, isArr := false, name := s.name, path := [] }

/-- the tail of READFILE once the target location is known: constant check, `fstep … (.readLine name)`, store the line -/
def readInto (t : Tok) (loc : Loc) (name : Str) (σ' : St) : Except Stop Val × St :=
  if locConstP σ' loc then errAt σ' t .constAssign
  else match fstep (fileSt σ') (.readLine name) with
    | .error m => errAt σ' t m
    | .ok (s', .line line) => thenWrite t loc (.str line) (setFile σ' s')
    | .ok (s', _) => (.error (.crash .other), setFile σ' s')

theorem run_readInto (t : Tok) (loc : Loc) (name : Str) (σ' : St) :
    (do
      if ← locIsConst loc then rtErr t .constAssign
      match ← doFile t (.readLine name) with
      | .line line => writeLoc t loc (.str line); pure .none
      | _ => throw (.crash .other) : M Val).run.run σ' = readInto t loc name σ' := by
  unfold readInto
  rw [run_bind, run_locIsConst]
  cases locConstP σ' loc with
  | true =>
    simp only [if_true]
    rw [run_bind, run_rtErr]
    rfl
  | false =>
    simp only [Bool.false_eq_true, if_false]
    rw [run_bind, run_doFile]
    cases fstep (fileSt σ') (.readLine name) with
    | error m => rfl
    | ok q =>
      obtain ⟨s', r⟩ := q
      cases r with
      | line l => exact run_thenWrite t loc (.str l) _
      | _ => rfl

/-- the state after READFILE has created its (STRING) variable in the activation `id` -/
def addStrVar (σ : St) (id : Nat) (n : Str) : St :=
  updSt σ id fun a => { a with vars := a.vars ++ [{ name := n, ty := .str, val := .str [] }] }

/-- **READFILE into an existing variable**: type check, legality check, then `readInto`. -/
theorem exec_readFile_var (f : Nat) (t : Tok) (fn : Expr) (id : Tok) (σ : St) (name : Str) (a : Act) (s : Slot)
    (hb : σ.steps + 1 ≤ σ.stepLimit) (hfn : EvalsTo f fn (tickSt σ) (.str name))
    (hlv : lookupVarP σ id.val = .ok (some (a, s))) :
    (execStmt (f+2) (.readFile t fn id)).run.run σ =
      if s.ty != .str then errAt (tickSt σ) t .typeMismatch
      else match fpre (fileSt σ) (.readLine name) with
        | .error m => errAt (tickSt σ) t m
        | .ok _ => readInto t (varLoc a s) name (tickSt σ) := by
  have hlv' : lookupVarP (tickSt σ) id.val = .ok (some (a, s)) := hlv
  rw [execStmt_readFile, run_bind_ok _ _ _ _ _ (run_tick_ok t σ hb),
    run_bind_ok _ _ _ _ _ (run_fileName f t fn _ name hfn), run_bind, run_lookupVar, hlv']
  dsimp only
  by_cases hty : (s.ty != .str) = true
  · simp only [hty, if_true]
    rw [run_bind, run_rtErr]
    rfl
  · simp only [hty, Bool.false_eq_true, if_false]
    rw [run_bind, run_filePre, fileSt_tickSt]
    cases fpre (fileSt σ) (.readLine name) with
    | error m => rfl
    | ok u =>
      dsimp only
      unfold varLoc
      cases s.ref with
      | some l =>
        dsimp only
        rw [run_bind_ok _ _ _ _ _ (run_pure l _)]
        exact run_readInto t _ name _
      | none =>
        dsimp only
        rw [run_bind_ok _ _ _ _ _ (run_pure _ _)]
        exact run_readInto t _ name _

/-- **READFILE into a new variable**: legality check first; only then is the STRING variable created in the current
    activation `a`, and `readInto` runs on that state. -/
theorem exec_readFile_new (f : Nat) (t : Tok) (fn : Expr) (id : Tok) (σ : St) (name : Str) (a : Act)
    (hb : σ.steps + 1 ≤ σ.stepLimit) (hfn : EvalsTo f fn (tickSt σ) (.str name))
    (hlv : lookupVarP σ id.val = .ok none) (hcur : curActP σ = .ok a) :
    (execStmt (f+2) (.readFile t fn id)).run.run σ =
      match fpre (fileSt σ) (.readLine name) with
      | .error m => errAt (tickSt σ) t m
      | .ok _ => readInto t { act := a.id, isArr := false, name := id.val, path := [] } name (addStrVar (tickSt σ) a.id id.val) := by
  have hlv' : lookupVarP (tickSt σ) id.val = .ok none := hlv
  rw [execStmt_readFile, run_bind_ok _ _ _ _ _ (run_tick_ok t σ hb),
    run_bind_ok _ _ _ _ _ (run_fileName f t fn _ name hfn), run_bind, run_lookupVar, hlv']
  dsimp only
  rw [run_bind, run_filePre, fileSt_tickSt]
  cases fpre (fileSt σ) (.readLine name) with
  | error m => rfl
  | ok u =>
    dsimp only
    have hcur' : curActP (tickSt σ) = .ok a := hcur
    have hadd : (addVar { name := id.val, ty := .str, val := .str [] }).run.run (tickSt σ) =
        (.ok ⟨⟩, addStrVar (tickSt σ) a.id id.val) := by
      unfold addVar modifyCur
      rw [run_bind, run_curAct, hcur']
      rfl
    have hcur2 : curActP (addStrVar (tickSt σ) a.id id.val) =
        .ok { a with vars := a.vars ++ [{ name := id.val, ty := .str, val := .str [] }] } := by
      unfold curActP at hcur ⊢
      unfold addStrVar updSt
      show (match updActs σ.acts a.id _ with | a :: _ => Except.ok a | [] => _) = _
      cases hacts : σ.acts with
      | nil => rw [hacts] at hcur; cases hcur
      | cons b rest =>
        rw [hacts] at hcur
        injection hcur with hcur
        subst hcur
        simp [updActs]
    rw [run_bind_ok _ _ _ _ _ hadd, run_bind, run_curAct, hcur2]
    dsimp only
    rw [run_bind_ok _ _ _ _ _ (run_pure _ _)]
    exact run_readInto t _ name _

/-! ### facts about `fstep` used to read the equations -/

theorem fstep_of_fpre_err (s : FState) (op : FOp) (m : Msg) (h : fpre s op = .error m) : fstep s op = .error m := by
  unfold fstep; rw [h]

theorem fpre_of_fstep_ok (s : FState) (op : FOp) (x : FState × FRes) (h : fstep s op = .ok x) : fpre s op = .ok () := by
  unfold fstep at h
  cases hp : fpre s op with
  | error m => rw [hp] at h; cases h
  | ok u => rfl

/-- READFILE's step fails only when it is illegal, and delivers a line otherwise -/
theorem fstep_readLine (s : FState) (n : Str) :
    (∀ m, fstep s (.readLine n) = .error m → fpre s (.readLine n) = .error m) ∧
    (∀ s' r, fstep s (.readLine n) = .ok (s', r) → ∃ line, r = .line line) := by
  unfold fstep
  cases hp : fpre s (.readLine n) with
  | error m => exact ⟨fun m' h => by injection h with h; rw [h], fun s' r h => by cases h⟩
  | ok u =>
    dsimp only
    cases hh : s.handle n with
    | none =>
      have : fpre s (.readLine n) = .error .notOpen := by simp only [fpre, hh]
      rw [this] at hp
      cases hp
    | some h0 =>
      dsimp only
      refine ⟨fun m h => ?_, fun s' r h => ?_⟩
      · cases h
      · injection h with h; injection h with h1 h2; exact ⟨_, h2.symm⟩

/-- GETRECORD's step changes nothing and delivers a record text -/
theorem fstep_get (s : FState) (n : Str) (s' : FState) (r : FRes) (h : fstep s (.get n) = .ok (s', r)) :
    s' = s ∧ ∃ rec, r = .record rec := by
  unfold fstep at h
  cases hp : fpre s (.get n) with
  | error m => rw [hp] at h; cases h
  | ok u =>
    rw [hp] at h
    dsimp only at h
    cases hh : s.handle n with
    | none => rw [hh] at h; cases h
    | some h0 =>
      rw [hh] at h
      dsimp only at h
      cases hr : h0.records[h0.ptr]? with
      | none => rw [hr] at h; cases h
      | some rec =>
        rw [hr] at h
        injection h with h; injection h with h1 h2
        exact ⟨h1.symm, rec, h2.symm⟩

/-- PUTRECORD's step fails only when it is illegal (whatever the record text) -/
theorem fstep_put_err (s : FState) (n rec : Str) (m : Msg) (h : fstep s (.put n rec) = .error m) :
    fpre s (.put n []) = .error m := by
  unfold fstep at h
  have e : fpre s (.put n rec) = fpre s (.put n []) := rfl
  rw [e] at h
  cases hp : fpre s (.put n []) with
  | error m' => rw [hp] at h; dsimp only at h; injection h with h; rw [h]
  | ok u => rw [hp] at h; cases h

/-- SEEK's step refuses an address below 1 -/
theorem fstep_seek_low (s : FState) (n : Str) (a : Int) (ha : a < 1) : ∃ m, fstep s (.seek n a) = .error m := by
  unfold fstep
  cases hp : fpre s (.seek n a) with
  | error m => exact ⟨m, rfl⟩
  | ok u =>
    dsimp only
    cases hh : s.handle n with
    | none => exact ⟨_, rfl⟩
    | some h0 => exact ⟨.seekRange, by simp only [ha, if_true]⟩

/-! ### the outcome of a step-only statement -/

theorem liftStep_ok (σ : St) (t : Tok) (op : FOp) (s' : FState) (r : FRes) (h : fstep (fileSt σ) op = .ok (s', r)) :
    liftStep σ t op = (.ok .none, setFile (tickSt σ) s') := by
  unfold liftStep; rw [h]

theorem liftStep_err (σ : St) (t : Tok) (op : FOp) (m : Msg) (h : fstep (fileSt σ) op = .error m) :
    liftStep σ t op = errAt (tickSt σ) t m := by
  unfold liftStep; rw [h]

/-- `errAt` is a runtime diagnostic of the given class at the given token -/
theorem errAt_spec {α : Type} (σ : St) (t : Tok) (m : Msg) :
    ∃ d, (errAt σ t m : Except Stop α × St) = (.error (.diag d), σ) ∧ d.kind = .runtime ∧ d.msg = m ∧ d.line = t.line ∧ d.col = t.col :=
  ⟨rtDiag σ t.line t.col m, rfl, rtDiag_kind _ _ _ _, rtDiag_msg _ _ _ _, rtDiag_line _ _ _ _, rtDiag_col _ _ _ _⟩

/-! ### `writeLoc` as a function of the state -/

/-- the state after the root cell of `l` has been given the value `root` -/
def writeLocSt (σ : St) (l : Loc) (root : Val) : St :=
  updSt σ l.act fun a =>
    if l.isArr then { a with arrs := updSlot a.arrs l.name (fun s => { s with val := root }) }
    else { a with vars := updSlot a.vars l.name (fun s => { s with val := root }) }

def writeLocP (σ : St) (t : Tok) (l : Loc) (v : Val) : Except Stop Unit × St :=
  match σ.acts.find? (·.id == l.act) with
  | none => (.error (.crash .danglingLoc), σ)
  | some a =>
    match slotOf a l with
    | none => (.error (.crash .danglingLoc), σ)
    | some s =>
      if s.isConst then errAt σ t .constAssign
      else match setPath s.val l.path v with
        | none => (.error (.crash .danglingLoc), σ)
        | some root => (.ok ⟨⟩, writeLocSt σ l root)

theorem run_writeLoc (t : Tok) (l : Loc) (v : Val) (σ : St) : (writeLoc t l v).run.run σ = writeLocP σ t l v := by
  unfold writeLoc writeLocP
  rw [run_bind_ok _ _ _ _ _ (run_findAct _ σ)]
  cases hfa : σ.acts.find? (·.id == l.act) with
  | none => rfl
  | some a =>
    dsimp only
    have haid : a.id = l.act := by simpa using List.find?_some hfa
    cases slotOf a l with
    | none => rfl
    | some s =>
      dsimp only
      cases s.isConst with
      | true => simp only [if_true]; exact run_rtErr t .constAssign σ
      | false =>
        simp only [Bool.false_eq_true, if_false]
        cases setPath s.val l.path v with
        | none => rfl
        | some root =>
          dsimp only
          rw [haid]
          rfl

/-- **a successful write, exactly**: if `l` is readable (value `old`), not a constant, and the new value is of the same kind,
    then `writeLoc` changes only the value `root` of the cell named `l.name` in the (first) activation with number `l.act`,
    and `l` then reads the new value. For a whole variable (`l.path = []`) the new cell value is `nv` itself. -/
theorem writeLoc_exact (t : Tok) (l : Loc) (nv old : Val) (σ : St)
    (hold : readLocP σ l = .ok old) (hconst : locConstP σ l = false) (hk : old.isArr = nv.isArr) :
    ∃ root, (writeLoc t l nv).run.run σ = (.ok ⟨⟩, writeLocSt σ l root) ∧
      readLocP (writeLocSt σ l root) l = .ok nv ∧ locConstP (writeLocSt σ l root) l = false ∧ (l.path = [] → root = nv) := by
  obtain ⟨F, _, hrun, hread, hc⟩ := run_writeLoc_ok t l nv old σ hold hconst hk
  rw [run_writeLoc] at hrun
  unfold writeLocP at hrun
  unfold readLocP at hold
  cases hfa : σ.acts.find? (·.id == l.act) with
  | none => rw [hfa] at hold; cases hold
  | some a =>
    rw [hfa] at hrun hold
    dsimp only at hrun hold
    cases hs : slotOf a l with
    | none => rw [hs] at hold; cases hold
    | some s =>
      rw [hs] at hrun
      dsimp only at hrun
      cases hcs : s.isConst with
      | true =>
        rw [hcs] at hrun
        simp only [if_true] at hrun
        unfold errAt at hrun
        injection hrun with h1 _
        cases h1
      | false =>
        rw [hcs] at hrun
        simp only [Bool.false_eq_true, if_false] at hrun
        cases hsp : setPath s.val l.path nv with
        | none => rw [hsp] at hrun; injection hrun with h1 _; cases h1
        | some root =>
          rw [hsp] at hrun
          dsimp only at hrun
          injection hrun with _ h2
          refine ⟨root, ?_, ?_, ?_, ?_⟩
          · rw [run_writeLoc]
            unfold writeLocP
            rw [hfa]
            dsimp only
            rw [hs]
            dsimp only
            rw [hcs]
            simp only [Bool.false_eq_true, if_false]
            rw [hsp]
          · rw [h2]; exact hread
          · rw [h2]; exact hc
          · intro hp
            rw [hp] at hsp
            simp only [setPath] at hsp
            injection hsp with hsp
            exact hsp.symm

theorem thenWrite_ok (t : Tok) (l : Loc) (nv old : Val) (σ : St)
    (hold : readLocP σ l = .ok old) (hconst : locConstP σ l = false) (hk : old.isArr = nv.isArr) :
    ∃ root, thenWrite t l nv σ = (.ok .none, writeLocSt σ l root) ∧
      readLocP (writeLocSt σ l root) l = .ok nv ∧ (l.path = [] → root = nv) := by
  obtain ⟨root, h1, h2, _, h4⟩ := writeLoc_exact t l nv old σ hold hconst hk
  refine ⟨root, ?_, h2, h4⟩
  unfold thenWrite
  rw [h1]

/-- everything but the activation list is untouched by a write -/
theorem writeLocSt_frame (σ : St) (l : Loc) (root : Val) :
    writeLocSt σ l root = { σ with acts := (writeLocSt σ l root).acts } := rfl

@[simp] theorem fileSt_writeLocSt (σ : St) (l : Loc) (root : Val) : fileSt (writeLocSt σ l root) = fileSt σ := rfl

/-- a look-up that finds nothing: the current activation has no such variable -/
theorem findSlot_none_of_lookup (a g : Act) (n : Str) (h : lookupVarIn a g n = none) : findSlot a.vars n = none := by
  unfold lookupVarIn at h
  cases hf : findSlot a.vars n with
  | none => rfl
  | some s => rw [hf] at h; cases h

/-- the variable READFILE creates is readable (empty STRING) and not a constant -/
theorem addStrVar_fresh (σ : St) (a : Act) (rest : List Act) (n : Str) (hacts : σ.acts = a :: rest)
    (hno : findSlot a.vars n = none) :
    readLocP (addStrVar σ a.id n) { act := a.id, isArr := false, name := n, path := [] } = .ok (.str []) ∧
    locConstP (addStrVar σ a.id n) { act := a.id, isArr := false, name := n, path := [] } = false := by
  have hfind : (addStrVar σ a.id n).acts.find? (·.id == a.id) =
      some { a with vars := a.vars ++ [{ name := n, ty := .str, val := .str [] }] } := by
    unfold addStrVar updSt
    show (updActs σ.acts a.id _).find? _ = _
    rw [hacts]
    simp [updActs]
  have hslot : slotOf { a with vars := a.vars ++ [{ name := n, ty := .str, val := .str [] }] }
      { act := a.id, isArr := false, name := n, path := [] } = some { name := n, ty := .str, val := .str [] } := by
    unfold slotOf findSlot at *
    simp only [Bool.false_eq_true, if_false, List.find?_append, hno]
    simp
  constructor
  · unfold readLocP
    dsimp only
    rw [hfind]
    dsimp only
    rw [hslot]
    rfl
  · unfold locConstP
    dsimp only
    rw [hfind]
    dsimp only
    rw [hslot]
    rfl

/-! ### refinement, as a predicate on the complete run of a statement -/

/-- `run` — the complete run (result, final state) of a statement started in `σ` — is `fstep … op` lifted:
    * if the pure layer accepts `op` with new file state `s'`, the statement ends normally with result NONE, the file component
      of the final state is `s'`, the step counter has advanced by one, and NOTHING else has changed;
    * if the pure layer rejects `op` with message class `m`, the statement ends in a runtime diagnostic of class `m` at token `t`,
      and nothing but the step counter has changed (file system, handles, variables, output: as before). -/
def StepRefines (run : Except Stop Val × St) (σ : St) (t : Tok) (op : FOp) : Prop :=
  (∀ s' r, fstep { fs := σ.fs, handles := σ.handles } op = .ok (s', r) →
    run = (.ok .none, { σ with steps := σ.steps + 1, fs := s'.fs, handles := s'.handles })) ∧
  (∀ m, fstep { fs := σ.fs, handles := σ.handles } op = .error m →
    ∃ d, run = (.error (.diag d), { σ with steps := σ.steps + 1 }) ∧ d.kind = .runtime ∧ d.msg = m ∧ d.line = t.line ∧ d.col = t.col)

theorem liftStep_refines (σ : St) (t : Tok) (op : FOp) : StepRefines (liftStep σ t op) σ t op := by
  constructor
  · intro s' r h
    exact liftStep_ok σ t op s' r h
  · intro m h
    rw [liftStep_err σ t op m h]
    exact errAt_spec (tickSt σ) t m

/-- PUTRECORD / GETRECORD on a file that is not open for RANDOM: refused before the variable is even looked up -/
theorem exec_putRecord_illegal (f : Nat) (t : Tok) (fn : Expr) (id : Tok) (σ : St) (name : Str) (m : Msg)
    (hb : σ.steps + 1 ≤ σ.stepLimit) (hfn : EvalsTo f fn (tickSt σ) (.str name))
    (h : fpre (fileSt σ) (.put name []) = .error m) :
    (execStmt (f+2) (.putRecord t fn id)).run.run σ = errAt (tickSt σ) t m := by
  rw [execStmt_putRecord, run_bind_ok _ _ _ _ _ (run_tick_ok t σ hb),
    run_bind_ok _ _ _ _ _ (run_fileName f t fn _ name hfn), run_bind, run_filePre, fileSt_tickSt, h]
  rfl

theorem exec_getRecord_illegal (f : Nat) (t : Tok) (fn : Expr) (id : Tok) (σ : St) (name : Str) (m : Msg)
    (hb : σ.steps + 1 ≤ σ.stepLimit) (hfn : EvalsTo f fn (tickSt σ) (.str name))
    (h : fpre (fileSt σ) (.get name) = .error m) :
    (execStmt (f+2) (.getRecord t fn id)).run.run σ = errAt (tickSt σ) t m := by
  rw [execStmt_getRecord, run_bind_ok _ _ _ _ _ (run_tick_ok t σ hb),
    run_bind_ok _ _ _ _ _ (run_fileName f t fn _ name hfn), run_bind, run_filePre, fileSt_tickSt, h]
  rfl

/-- READFILE on a file that is not open for READ: refused (after the type check of an existing variable), no variable created -/
theorem exec_readFile_illegal (f : Nat) (t : Tok) (fn : Expr) (id : Tok) (σ : St) (name : Str) (m : Msg)
    (ex : Option (Act × Slot))
    (hb : σ.steps + 1 ≤ σ.stepLimit) (hfn : EvalsTo f fn (tickSt σ) (.str name))
    (hlv : lookupVarP σ id.val = .ok ex)
    (h : fpre (fileSt σ) (.readLine name) = .error m) :
    (execStmt (f+2) (.readFile t fn id)).run.run σ = errAt (tickSt σ) t m ∨
    (execStmt (f+2) (.readFile t fn id)).run.run σ = errAt (tickSt σ) t .typeMismatch := by
  cases ex with
  | none =>
    left
    have hcur : ∃ a, curActP σ = .ok a := by
      unfold lookupVarP at hlv
      cases hc : curActP σ with
      | ok a => exact ⟨a, rfl⟩
      | error e => rw [hc] at hlv; cases hlv
    obtain ⟨a, hcur⟩ := hcur
    rw [exec_readFile_new f t fn id σ name a hb hfn hlv hcur, h]
  | some p =>
    obtain ⟨a, s⟩ := p
    rw [exec_readFile_var f t fn id σ name a s hb hfn hlv, h]
    by_cases hty : (s.ty != .str) = true
    · right; simp only [hty, if_true]
    · left; simp only [hty, Bool.false_eq_true, if_false]

/-! ### blocks -/

theorem replEcho_none : replEcho .none = pure () := by
  unfold replEcho; rfl

/-- a statement that ends normally with result NONE, inside a block -/
theorem run_runBlock_cons (f : Nat) (s : Stmt) (rest : Block) (σ σ1 : St)
    (h : (execStmt f s).run.run σ = (.ok .none, σ1)) :
    (runBlock (f+1) (s :: rest)).run.run σ = (runBlock f rest).run.run σ1 := by
  rw [runBlock_cons, run_bind_ok _ _ _ _ _ h, run_bind_ok _ _ _ _ _ (run_get σ1)]
  cases σ1.repl with
  | false => rfl
  | true =>
    simp only [if_true]
    rw [replEcho_none]
    rfl

/-- a statement that ends with an exception ends the block -/
theorem run_runBlock_cons_err (f : Nat) (s : Stmt) (rest : Block) (σ σ1 : St) (e : Stop)
    (h : (execStmt f s).run.run σ = (.error e, σ1)) :
    (runBlock (f+1) (s :: rest)).run.run σ = (.error e, σ1) := by
  rw [runBlock_cons, run_bind_err _ _ _ _ _ h]

theorem run_runBlock_nil (f : Nat) (σ : St) : (runBlock (f+1) []).run.run σ = (.ok ⟨⟩, σ) := by
  rw [runBlock_nil]; rfl

end Pseudo.FileStmt
