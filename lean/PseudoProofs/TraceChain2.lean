import PseudoProofs.TraceChain2Steps
/-!
# The extended traceback chain of C11 (`Properties/C11Chain2.lean`)

`TraceChain.Descent` (`PseudoProofs/TraceChain.lean`) describes the path from a piece of code down to the block that
fails, one constructor per evaluator step, but leaves positions out (see the head of `Properties/C11Chain.lean`).
`Descent` is an inductive type of a finished file: its constructors take `Descent` premises, so a new position BELOW an
old one (`seq` → `head` → `whileS` → *condition of the WHILE*) cannot be expressed by embedding alone.  Therefore

  `Descent2 N σ c calls σl last`

* EMBEDS `Descent` (constructor `old`: every existing path is a path),
* RESTATES the 38 step constructors of `Descent` over `Descent2` (same names, same hypotheses), so that old and new steps
  mix freely, and
* ADDS the missing positions (list: head of `Properties/C11Chain2.lean`).

The code positions `Code2` are those of `TraceChain.Code` (`Code.up`) plus `ref` (`resolveRef`), `indices`
(`evalIndices`), `caseMatch`, `fileName`, `bounds` (`evalBounds`), `bind` (`bindParams`).

* `Descent2.sound`: a diagnostic with which `last` ends is the diagnostic with which `c` ends;
* `Descent2.acts`: the stack of `σl` is the stack of `σ` plus one activation per call;
-/
namespace Pseudo

namespace TraceChain2

set_option linter.unusedVariables false

open ArrayLemmas C07Copy TraceLemmas TraceChain

/-! ## code positions -/

/-- the pieces of code a diagnostic passes on its way up: those of `TraceChain.Code` and six more functions of the
    evaluator -/
inductive Code2
  | block (b : Block)
  | stmt (s : Stmt)
  | ifChain (t : Tok) (bs : List (Expr × Block)) (els : Option Block)
  | caseClauses (v : Val) (cls : List Clause)
  | loopBody (b : Block)
  | whileLoop (t : Tok) (c : Expr) (b : Block)
  | repeatLoop (t : Tok) (b : Block) (c : Expr)
  | forLoop (t : Tok) (it : Loc) (stop step : Int) (b : Block)
  | expr (e : Expr)
  | args (es : List Expr) (acc : List Val)
  | outputAll (es : List Expr)
  /-- a reference being resolved (`resolveRef`) -/
  | ref (r : Ref)
  /-- index expressions being evaluated against the dimensions (`evalIndices`) -/
  | indices (es : List Expr) (dims : List (Int × Int)) (acc : List Int)
  /-- one clause of a CASE being tested (`caseMatch`) -/
  | caseMatch (v : Val) (cl : Clause)
  /-- the file-name expression of a file statement (`fileName`) -/
  | fileName (t : Tok) (e : Expr)
  /-- the bounds of an array declaration (`evalBounds`) -/
  | bounds (bs : List (Expr × Expr)) (acc : List (Int × Int))
  /-- the parameters being bound to the evaluated arguments (`bindParams`) -/
  | bind (t : Tok) (ps : List (Str × Ty × Bool)) (es : List Expr) (vs : List Val) (acc : List Slot)

/-- the positions of `TraceChain.Code` as positions of `Code2` -/
def _root_.Pseudo.TraceChain.Code.up : Code → Code2
  | .block b => .block b
  | .stmt s => .stmt s
  | .ifChain t bs els => .ifChain t bs els
  | .caseClauses v cls => .caseClauses v cls
  | .loopBody b => .loopBody b
  | .whileLoop t c b => .whileLoop t c b
  | .repeatLoop t b c => .repeatLoop t b c
  | .forLoop t it stop step b => .forLoop t it stop step b
  | .expr e => .expr e
  | .args es acc => .args es acc
  | .outputAll es => .outputAll es

/-- the exception with which the code ends when run with `fuel` from `σ` -/
def Code2.err (c : Code2) (f : Nat) (σ : St) : Option Stop :=
  match c with
  | .block b => errOf (runBlock f b) σ
  | .stmt s => errOf (execStmt f s) σ
  | .ifChain t bs els => errOf (Pseudo.ifChain f t bs els) σ
  | .caseClauses v cls => errOf (Pseudo.caseClauses f v cls) σ
  | .loopBody b => errOf (Pseudo.loopBody f b) σ
  | .whileLoop t c b => errOf (Pseudo.whileLoop f t c b) σ
  | .repeatLoop t b c => errOf (Pseudo.repeatLoop f t b c) σ
  | .forLoop t it stop step b => errOf (Pseudo.forLoop f t it stop step b) σ
  | .expr e => errOf (evalExpr f e) σ
  | .args es acc => errOf (evalArgs f es acc) σ
  | .outputAll es => errOf (Pseudo.outputAll f es) σ
  | .ref r => errOf (resolveRef f r) σ
  | .indices es dims acc => errOf (evalIndices f es dims acc) σ
  | .caseMatch v cl => errOf (Pseudo.caseMatch f v cl) σ
  | .fileName t e => errOf (Pseudo.fileName f t e) σ
  | .bounds bs acc => errOf (evalBounds f bs acc) σ
  | .bind t ps es vs acc => errOf (bindParams f t ps es vs acc) σ

theorem Code2.up_err (c : Code) (f : Nat) (σ : St) : c.up.err f σ = c.err f σ := by
  cases c <;> rfl

/-- **more fuel does not change a diagnostic** -/
theorem Code2.err_mono (c : Code2) {f g : Nat} (hfg : f ≤ g) {σ : St} {d : Diag} (h : c.err f σ = some (.diag d)) :
    c.err g σ = some (.diag d) := by
  have hm := fuel_mono_all hfg
  cases c with
  | block b => exact errOf_mono (hm.runBlock b) h
  | stmt s => exact errOf_mono (hm.execStmt s) h
  | ifChain t bs els => exact errOf_mono (hm.ifChain t bs els) h
  | caseClauses v cls => exact errOf_mono (hm.caseClauses v cls) h
  | loopBody b => exact errOf_mono (hm.loopBody b) h
  | whileLoop t c b => exact errOf_mono (hm.whileLoop t c b) h
  | repeatLoop t b c => exact errOf_mono (hm.repeatLoop t b c) h
  | forLoop t it stop step b => exact errOf_mono (hm.forLoop t it stop step b) h
  | expr e => exact errOf_mono (hm.evalExpr e) h
  | args es acc => exact errOf_mono (hm.evalArgs es acc) h
  | outputAll es => exact errOf_mono (hm.outputAll es) h
  | ref r => exact errOf_mono (hm.resolveRef r) h
  | indices es dims acc => exact errOf_mono (hm.evalIndices es dims acc) h
  | caseMatch v cl => exact errOf_mono (hm.caseMatch v cl) h
  | fileName t e => exact errOf_mono (hm.fileName t e) h
  | bounds bs acc => exact errOf_mono (hm.evalBounds bs acc) h
  | bind t ps es vs acc => exact errOf_mono (hm.bindParams t ps es vs acc) h

/-! ## the path from a block to the failing statement -/

/-! ## the stack along the runs of the new positions -/

theorem RTrace_resolveRef {f : Nat} {r : Ref} {σ σ' : St} {x : Except Stop Holder} (h : (resolveRef f r).run.run σ = (x, σ')) :
    RTrace σ σ' := RTrace_of_run ((trace_all f).resolveRef r) h
theorem RTrace_fileName {f : Nat} {t : Tok} {e : Expr} {σ σ' : St} {x : Except Stop Str} (h : (fileName f t e).run.run σ = (x, σ')) :
    RTrace σ σ' := RTrace_of_run ((trace_all f).fileName t e) h

theorem tr_forIter (it : Tok) : Ens RTrace (fun _ => True) (forIter it) := by
  unfold forIter
  tr_auto

theorem RTrace_forIter {it : Tok} {σ σ' : St} {x : Except Stop (Loc × Ty)} (h : (forIter it).run.run σ = (x, σ')) :
    RTrace σ σ' := RTrace_of_run (tr_forIter it) h

inductive Descent2 : Nat → St → Code2 → List (Tok × Str) → St → Block → Prop
  /-- arrived: the block that fails -/
  | here (σ : St) (b : Block) : Descent2 0 σ (.block b) [] σ b
  /-- a block: the first statement ends normally (statements proper end with the value NONE; outside the REPL any value
      will do), the path goes on in the rest -/
  | seq {N : Nat} {calls : List (Tok × Str)} {σl : St} {last : Block} (f : Nat) (s : Stmt) (rest : Block) (v : Val) (σ σ1 : St) :
      (execStmt f s).run.run σ = (.ok v, σ1) → (v = .none ∨ σ1.repl = false) →
      Descent2 N σ1 (.block rest) calls σl last → Descent2 (N + f + 1) σ (.block (s :: rest)) calls σl last
  /-- a block `pre ++ rest`: the statements `pre` end normally (any statements, any state change), the path goes on in
      `rest` -/
  | pre {N : Nat} {calls : List (Tok × Str)} {σl : St} {last : Block} (f : Nat) (pre rest : Block) (σ σ1 : St) :
      (runBlock f pre).run.run σ = (.ok ⟨⟩, σ1) →
      Descent2 N σ1 (.block rest) calls σl last → Descent2 (N + f + pre.length) σ (.block (pre ++ rest)) calls σl last
  /-- a block: the path goes into the first statement -/
  | head {N : Nat} {calls : List (Tok × Str)} {σl : St} {last : Block} (s : Stmt) (rest : Block) (σ : St) :
      Descent2 N σ (.stmt s) calls σl last → Descent2 (N + 1) σ (.block (s :: rest)) calls σl last
  /-- `CALL name(args)` of a procedure with any parameters: the arguments are evaluated (`σ1`), arity and depth are fine,
      the parameters are bound (`σ2`); the path goes on in the body of the procedure -/
  | call {N : Nat} {calls : List (Tok × Str)} {σl : St} {last : Block} (f : Nat) (t : Tok) (name : Str) (args : List Expr)
      (σ σ1 σ2 : St) (pd : ProcDef) (vals : List Val) (cur : Act) (rest : List Act) (slots : List Slot) :
      σ.steps + 1 ≤ σ.stepLimit → σ.procs.find? (·.name == name) = some pd →
      (evalArgs f args []).run.run (tickSt σ) = (.ok vals, σ1) → vals.length = pd.params.length →
      σ1.depth + 1 ≤ σ1.depthLimit → σ1.acts = cur :: rest →
      (bindParams f t pd.params args vals []).run.run σ1 = (.ok slots, σ2) →
      Descent2 N (calleeSt (procAct pd slots) (setSwitch σ2 cur.id t)) (.block pd.body) calls σl last →
      Descent2 (N + f + 2) σ (.stmt (.call t name args)) ((t, pd.name) :: calls) σl last
  /-- a call `name(args)` of a user-defined function inside an expression -/
  | callF {N : Nat} {calls : List (Tok × Str)} {σl : St} {last : Block} (f : Nat) (t : Tok) (args : List Expr)
      (σ σ1 σ2 : St) (fd : FunDef) (body : Block) (defTok : Tok) (vals : List Val) (cur : Act) (rest : List Act) (slots : List Slot) :
      funLookup σ t.val = some fd → fd.body = .user body defTok →
      (evalArgs f args []).run.run σ = (.ok vals, σ1) → vals.length = fd.params.length →
      σ1.depth + 1 ≤ σ1.depthLimit → σ1.acts = cur :: rest →
      (bindParams f t fd.params args vals []).run.run σ1 = (.ok slots, σ2) →
      Descent2 N (calleeSt (funAct fd slots) (setSwitch σ2 cur.id t)) (.block body) calls σl last →
      Descent2 (N + f + 2) σ (.expr (.call t args)) ((t, fd.name) :: calls) σl last
  /-- IF statement -/
  | ifS {N : Nat} {calls : List (Tok × Str)} {σl : St} {last : Block} (t : Tok) (bs : List (Expr × Block)) (els : Option Block) (σ : St) :
      σ.steps + 1 ≤ σ.stepLimit → Descent2 N (tickSt σ) (.ifChain t bs els) calls σl last →
      Descent2 (N + 1) σ (.stmt (.ifs t bs els)) calls σl last
  /-- the condition is true: into the branch -/
  | ifTrue {N : Nat} {calls : List (Tok × Str)} {σl : St} {last : Block} (f : Nat) (t : Tok) (c : Expr) (b : Block)
      (rest : List (Expr × Block)) (els : Option Block) (σ σ1 : St) :
      (evalExpr f c).run.run σ = (.ok (.bool true), σ1) → Descent2 N σ1 (.block b) calls σl last →
      Descent2 (N + f + 1) σ (.ifChain t ((c, b) :: rest) els) calls σl last
  /-- the condition is false: on to the remaining branches -/
  | ifFalse {N : Nat} {calls : List (Tok × Str)} {σl : St} {last : Block} (f : Nat) (t : Tok) (c : Expr) (b : Block)
      (rest : List (Expr × Block)) (els : Option Block) (σ σ1 : St) :
      (evalExpr f c).run.run σ = (.ok (.bool false), σ1) → Descent2 N σ1 (.ifChain t rest els) calls σl last →
      Descent2 (N + f + 1) σ (.ifChain t ((c, b) :: rest) els) calls σl last
  /-- the ELSE branch -/
  | ifElse {N : Nat} {calls : List (Tok × Str)} {σl : St} {last : Block} (t : Tok) (b : Block) (σ : St) :
      Descent2 N σ (.block b) calls σl last → Descent2 (N + 1) σ (.ifChain t [] (some b)) calls σl last
  /-- the condition of an IF branch contains the call -/
  | ifCond {N : Nat} {calls : List (Tok × Str)} {σl : St} {last : Block} (t : Tok) (c : Expr) (b : Block)
      (rest : List (Expr × Block)) (els : Option Block) (σ : St) :
      Descent2 N σ (.expr c) calls σl last → Descent2 (N + 1) σ (.ifChain t ((c, b) :: rest) els) calls σl last
  /-- WHILE statement -/
  | whileS {N : Nat} {calls : List (Tok × Str)} {σl : St} {last : Block} (t : Tok) (c : Expr) (b : Block) (σ : St) :
      σ.steps + 1 ≤ σ.stepLimit → Descent2 N (tickSt σ) (.whileLoop t c b) calls σl last →
      Descent2 (N + 1) σ (.stmt (.while t c b)) calls σl last
  /-- WHILE: this iteration -/
  | whileBody {N : Nat} {calls : List (Tok × Str)} {σl : St} {last : Block} (f : Nat) (t : Tok) (c : Expr) (b : Block) (σ σ1 : St) :
      σ.steps + 1 ≤ σ.stepLimit → (evalExpr f c).run.run (tickSt σ) = (.ok (.bool true), σ1) →
      Descent2 N σ1 (.loopBody b) calls σl last → Descent2 (N + f + 1) σ (.whileLoop t c b) calls σl last
  /-- WHILE: this iteration ends normally (no BREAK), a later one -/
  | whileNext {N : Nat} {calls : List (Tok × Str)} {σl : St} {last : Block} (f : Nat) (t : Tok) (c : Expr) (b : Block) (σ σ1 σ2 : St) :
      σ.steps + 1 ≤ σ.stepLimit → (evalExpr f c).run.run (tickSt σ) = (.ok (.bool true), σ1) →
      (loopBody f b).run.run σ1 = (.ok false, σ2) →
      Descent2 N σ2 (.whileLoop t c b) calls σl last → Descent2 (N + f + 1) σ (.whileLoop t c b) calls σl last
  /-- the body of a loop -/
  | loopBody {N : Nat} {calls : List (Tok × Str)} {σl : St} {last : Block} (b : Block) (σ : St) :
      Descent2 N σ (.block b) calls σl last → Descent2 (N + 1) σ (.loopBody b) calls σl last
  /-- REPEAT statement -/
  | repeatS {N : Nat} {calls : List (Tok × Str)} {σl : St} {last : Block} (t : Tok) (b : Block) (c : Expr) (σ : St) :
      σ.steps + 1 ≤ σ.stepLimit → Descent2 N (tickSt σ) (.repeatLoop t b c) calls σl last →
      Descent2 (N + 1) σ (.stmt (.repeat t b c)) calls σl last
  /-- REPEAT: this iteration -/
  | repeatBody {N : Nat} {calls : List (Tok × Str)} {σl : St} {last : Block} (t : Tok) (b : Block) (c : Expr) (σ : St) :
      σ.steps + 1 ≤ σ.stepLimit → Descent2 N (tickSt σ) (.loopBody b) calls σl last →
      Descent2 (N + 1) σ (.repeatLoop t b c) calls σl last
  /-- REPEAT: this iteration ends normally, the condition is false; a later one -/
  | repeatNext {N : Nat} {calls : List (Tok × Str)} {σl : St} {last : Block} (f : Nat) (t : Tok) (b : Block) (c : Expr) (σ σ1 σ2 : St) :
      σ.steps + 1 ≤ σ.stepLimit → (Pseudo.loopBody f b).run.run (tickSt σ) = (.ok false, σ1) →
      (evalExpr f c).run.run σ1 = (.ok (.bool false), σ2) →
      Descent2 N σ2 (.repeatLoop t b c) calls σl last → Descent2 (N + f + 1) σ (.repeatLoop t b c) calls σl last
  /-- FOR (the iterations; `it`: the iterator's cell): this iteration -/
  | forBody {N : Nat} {calls : List (Tok × Str)} {σl : St} {last : Block} (t : Tok) (it : Loc) (stop step i : Int) (b : Block) (σ : St) :
      readLocP σ it = .ok (.int i) → ((step < 0 && i ≥ stop) || (!(step < 0) && i ≤ stop)) = true →
      σ.steps + 1 ≤ σ.stepLimit → Descent2 N (tickSt σ) (.loopBody b) calls σl last →
      Descent2 (N + 1) σ (.forLoop t it stop step b) calls σl last
  /-- FOR: this iteration ends normally, the iterator is incremented; a later one -/
  | forNext {N : Nat} {calls : List (Tok × Str)} {σl : St} {last : Block} (f : Nat) (t : Tok) (it : Loc) (stop step i j : Int)
      (b : Block) (σ σ1 σ2 : St) :
      readLocP σ it = .ok (.int i) → ((step < 0 && i ≥ stop) || (!(step < 0) && i ≤ stop)) = true →
      σ.steps + 1 ≤ σ.stepLimit → (Pseudo.loopBody f b).run.run (tickSt σ) = (.ok false, σ1) →
      readLocP σ1 it = .ok (.int j) → (writeLoc t it (.int (wrap64 (j + step)))).run.run σ1 = (.ok ⟨⟩, σ2) →
      Descent2 N σ2 (.forLoop t it stop step b) calls σl last → Descent2 (N + f + 1) σ (.forLoop t it stop step b) calls σl last
  /-- CASE statement: the selector is read -/
  | caseS {N : Nat} {calls : List (Tok × Str)} {σl : St} {last : Block} (f : Nat) (t sel : Tok) (cls : List Clause) (v : Val) (σ σ1 : St) :
      σ.steps + 1 ≤ σ.stepLimit → (evalExpr f (.access sel (.var sel))).run.run (tickSt σ) = (.ok v, σ1) →
      Descent2 N σ1 (.caseClauses v cls) calls σl last → Descent2 (N + f + 1) σ (.stmt (.case t sel cls)) calls σl last
  /-- CASE: this clause matches -/
  | caseHit {N : Nat} {calls : List (Tok × Str)} {σl : St} {last : Block} (f : Nat) (v : Val) (cl : Clause) (rest : List Clause)
      (b : Block) (σ σ1 : St) :
      (caseMatch f v cl).run.run σ = (.ok (some b), σ1) → Descent2 N σ1 (.block b) calls σl last →
      Descent2 (N + f + 1) σ (.caseClauses v (cl :: rest)) calls σl last
  /-- CASE: this clause does not match -/
  | caseMiss {N : Nat} {calls : List (Tok × Str)} {σl : St} {last : Block} (f : Nat) (v : Val) (cl : Clause) (rest : List Clause)
      (σ σ1 : St) :
      (caseMatch f v cl).run.run σ = (.ok none, σ1) → Descent2 N σ1 (.caseClauses v rest) calls σl last →
      Descent2 (N + f + 1) σ (.caseClauses v (cl :: rest)) calls σl last
  /-- an expression statement (an assignment, a bare call) -/
  | exprS {N : Nat} {calls : List (Tok × Str)} {σl : St} {last : Block} (e : Expr) (σ : St) :
      σ.steps + 1 ≤ σ.stepLimit → Descent2 N (tickSt σ) (.expr e) calls σl last → Descent2 (N + 1) σ (.stmt (.expr e)) calls σl last
  /-- the right-hand side of an assignment contains the call (`calls ≠ []`: the diagnostic comes from a callee, so the
      handler around the right-hand side passes it on) -/
  | assignRhs {N : Nat} {calls : List (Tok × Str)} {σl : St} {last : Block} (t : Tok) (r : Ref) (rhs : Expr) (cur : Act)
      (rest : List Act) (σ : St) :
      calls ≠ [] → σ.acts = cur :: rest →
      Descent2 N σ (.expr rhs) calls σl last → Descent2 (N + 2) σ (.expr (.assign t r rhs)) calls σl last
  /-- operands of an arithmetic operator -/
  | arithL {N : Nat} {calls : List (Tok × Str)} {σl : St} {last : Block} (t : Tok) (op : ArOp) (l r : Expr) (σ : St) :
      Descent2 N σ (.expr l) calls σl last → Descent2 (N + 1) σ (.expr (.arith t op l r)) calls σl last
  | arithR {N : Nat} {calls : List (Tok × Str)} {σl : St} {last : Block} (f : Nat) (t : Tok) (op : ArOp) (l r : Expr) (lv : Val) (σ σ1 : St) :
      (evalExpr f l).run.run σ = (.ok lv, σ1) → Descent2 N σ1 (.expr r) calls σl last →
      Descent2 (N + f + 1) σ (.expr (.arith t op l r)) calls σl last
  /-- operands of a comparison -/
  | cmpL {N : Nat} {calls : List (Tok × Str)} {σl : St} {last : Block} (t : Tok) (op : CmpOp) (l r : Expr) (σ : St) :
      Descent2 N σ (.expr l) calls σl last → Descent2 (N + 1) σ (.expr (.cmp t op l r)) calls σl last
  | cmpR {N : Nat} {calls : List (Tok × Str)} {σl : St} {last : Block} (f : Nat) (t : Tok) (op : CmpOp) (l r : Expr) (lv : Val) (σ σ1 : St) :
      (evalExpr f l).run.run σ = (.ok lv, σ1) → Descent2 N σ1 (.expr r) calls σl last →
      Descent2 (N + f + 1) σ (.expr (.cmp t op l r)) calls σl last
  /-- OUTPUT statement -/
  | outputS {N : Nat} {calls : List (Tok × Str)} {σl : St} {last : Block} (t : Tok) (es : List Expr) (σ : St) :
      σ.steps + 1 ≤ σ.stepLimit → Descent2 N (tickSt σ) (.outputAll es) calls σl last →
      Descent2 (N + 1) σ (.stmt (.output t es)) calls σl last
  | outHead {N : Nat} {calls : List (Tok × Str)} {σl : St} {last : Block} (e : Expr) (rest : List Expr) (σ : St) :
      Descent2 N σ (.expr e) calls σl last → Descent2 (N + 1) σ (.outputAll (e :: rest)) calls σl last
  | outNext {N : Nat} {calls : List (Tok × Str)} {σl : St} {last : Block} (f : Nat) (e : Expr) (rest : List Expr) (v : Val) (s : Str)
      (σ σ1 : St) :
      (evalExpr f e).run.run σ = (.ok v, σ1) → (outputText v).run.run σ1 = (.ok (some s), σ1) →
      Descent2 N (emitSt σ1 s) (.outputAll rest) calls σl last → Descent2 (N + f + 1) σ (.outputAll (e :: rest)) calls σl last
  /-- the arguments of a `CALL` contain the call -/
  | callArgs {N : Nat} {calls : List (Tok × Str)} {σl : St} {last : Block} (t : Tok) (name : Str) (args : List Expr) (pd : ProcDef) (σ : St) :
      σ.steps + 1 ≤ σ.stepLimit → σ.procs.find? (·.name == name) = some pd →
      Descent2 N (tickSt σ) (.args args []) calls σl last → Descent2 (N + 2) σ (.stmt (.call t name args)) calls σl last
  /-- the arguments of a function call contain the call -/
  | callFArgs {N : Nat} {calls : List (Tok × Str)} {σl : St} {last : Block} (t : Tok) (args : List Expr) (fd : FunDef) (σ : St) :
      funLookup σ t.val = some fd →
      Descent2 N σ (.args args []) calls σl last → Descent2 (N + 2) σ (.expr (.call t args)) calls σl last
  | argHead {N : Nat} {calls : List (Tok × Str)} {σl : St} {last : Block} (e : Expr) (rest : List Expr) (acc : List Val) (σ : St) :
      Descent2 N σ (.expr e) calls σl last → Descent2 (N + 1) σ (.args (e :: rest) acc) calls σl last
  | argNext {N : Nat} {calls : List (Tok × Str)} {σl : St} {last : Block} (f : Nat) (e : Expr) (rest : List Expr) (acc : List Val)
      (v : Val) (σ σ1 : St) :
      (evalExpr f e).run.run σ = (.ok v, σ1) → Descent2 N σ1 (.args rest (v :: acc)) calls σl last →
      Descent2 (N + f + 1) σ (.args (e :: rest) acc) calls σl last
  /-- `RETURN e` inside a function: `e` contains the call -/
  | retS {N : Nat} {calls : List (Tok × Str)} {σl : St} {last : Block} (t : Tok) (e : Expr) (a : Act) (r : List Act) (σ : St) :
      σ.steps + 1 ≤ σ.stepLimit → σ.acts = a :: r → a.isFn = true →
      Descent2 N (tickSt σ) (.expr e) calls σl last → Descent2 (N + 1) σ (.stmt (.ret t e)) calls σl last
  -- new: embedding
  /-- a path of `TraceChain.Descent` is a path -/
  | old {N : Nat} {calls : List (Tok × Str)} {σl : St} {last : Block} (σ : St) (c : Code) :
      Descent N σ c calls σl last → Descent2 N σ c.up calls σl last
  -- new: conditions of WHILE / UNTIL
  /-- WHILE: the condition (of this iteration) contains the call -/
  | whileCond {N : Nat} {calls : List (Tok × Str)} {σl : St} {last : Block} (t : Tok) (c : Expr) (b : Block) (σ : St) :
      σ.steps + 1 ≤ σ.stepLimit → Descent2 N (tickSt σ) (.expr c) calls σl last →
      Descent2 (N + 1) σ (.whileLoop t c b) calls σl last
  /-- REPEAT: the body of this iteration ends normally (no BREAK), the condition after UNTIL contains the call -/
  | repeatCond {N : Nat} {calls : List (Tok × Str)} {σl : St} {last : Block} (f : Nat) (t : Tok) (b : Block) (c : Expr) (σ σ1 : St) :
      σ.steps + 1 ≤ σ.stepLimit → (Pseudo.loopBody f b).run.run (tickSt σ) = (.ok false, σ1) →
      Descent2 N σ1 (.expr c) calls σl last → Descent2 (N + f + 1) σ (.repeatLoop t b c) calls σl last
  -- new: unary operators, casts, `&`, `AND` / `OR`
  /-- unary minus -/
  | negA {N : Nat} {calls : List (Tok × Str)} {σl : St} {last : Block} (t : Tok) (a : Expr) (σ : St) :
      Descent2 N σ (.expr a) calls σl last → Descent2 (N + 1) σ (.expr (.neg t a)) calls σl last
  /-- `NOT a` -/
  | notA {N : Nat} {calls : List (Tok × Str)} {σl : St} {last : Block} (t : Tok) (a : Expr) (σ : St) :
      Descent2 N σ (.expr a) calls σl last → Descent2 (N + 1) σ (.expr (.not t a)) calls σl last
  /-- a cast `INTEGER(a)`, … -/
  | castA {N : Nat} {calls : List (Tok × Str)} {σl : St} {last : Block} (t : Tok) (ty : PrimTy) (a : Expr) (σ : St) :
      Descent2 N σ (.expr a) calls σl last → Descent2 (N + 1) σ (.expr (.cast t ty a)) calls σl last
  /-- operands of `&` -/
  | concatL {N : Nat} {calls : List (Tok × Str)} {σl : St} {last : Block} (t : Tok) (l r : Expr) (σ : St) :
      Descent2 N σ (.expr l) calls σl last → Descent2 (N + 1) σ (.expr (.concat t l r)) calls σl last
  | concatR {N : Nat} {calls : List (Tok × Str)} {σl : St} {last : Block} (f : Nat) (t : Tok) (l r : Expr) (lv : Val) (σ σ1 : St) :
      (evalExpr f l).run.run σ = (.ok lv, σ1) → Descent2 N σ1 (.expr r) calls σl last →
      Descent2 (N + f + 1) σ (.expr (.concat t l r)) calls σl last
  /-- left operand of `AND` / `OR` -/
  | logicL {N : Nat} {calls : List (Tok × Str)} {σl : St} {last : Block} (t : Tok) (op : LogOp) (l r : Expr) (σ : St) :
      Descent2 N σ (.expr l) calls σl last → Descent2 (N + 1) σ (.expr (.logic t op l r)) calls σl last
  /-- right operand of `AND` / `OR`: it is evaluated unless the operator is `AND` and the left operand is `FALSE` (the only
      short circuit of the interpreter; `TRUE OR r` does evaluate `r`) -/
  | logicR {N : Nat} {calls : List (Tok × Str)} {σl : St} {last : Block} (f : Nat) (t : Tok) (op : LogOp) (l r : Expr) (lv : Val) (σ σ1 : St) :
      (evalExpr f l).run.run σ = (.ok lv, σ1) → ¬ (op = .and ∧ lv = .bool false) → Descent2 N σ1 (.expr r) calls σl last →
      Descent2 (N + f + 1) σ (.expr (.logic t op l r)) calls σl last
  -- new: references (fields, dereference, index expressions) read or assigned to
  /-- reading a reference `r` whose resolution contains the call (`calls ≠ []`: the diagnostic comes from a callee, so the
      handler `catchNotDefined` around the resolution passes it on) -/
  | accessRef {N : Nat} {calls : List (Tok × Str)} {σl : St} {last : Block} (t : Tok) (r : Ref) (cur : Act) (rest : List Act) (σ : St) :
      calls ≠ [] → σ.acts = cur :: rest →
      Descent2 N σ (.ref r) calls σl last → Descent2 (N + 1) σ (.expr (.access t r)) calls σl last
  /-- `r.m`: the path goes into `r` -/
  | refField {N : Nat} {calls : List (Tok × Str)} {σl : St} {last : Block} (t : Tok) (r : Ref) (m : Tok) (σ : St) :
      Descent2 N σ (.ref r) calls σl last → Descent2 (N + 1) σ (.ref (.field t r m)) calls σl last
  /-- `r^`: the path goes into `r` -/
  | refDeref {N : Nat} {calls : List (Tok × Str)} {σl : St} {last : Block} (t : Tok) (r : Ref) (σ : St) :
      Descent2 N σ (.ref r) calls σl last → Descent2 (N + 1) σ (.ref (.deref t r)) calls σl last
  /-- `r[idx]`: the path goes into `r` -/
  | refIndexBase {N : Nat} {calls : List (Tok × Str)} {σl : St} {last : Block} (t : Tok) (r : Ref) (idx : List Expr) (σ : St) :
      Descent2 N σ (.ref r) calls σl last → Descent2 (N + 1) σ (.ref (.index t r idx)) calls σl last
  /-- `r[idx]`: `r` resolves to the array holder `h` (its value has dimensions `dims`, as many as there are indices), the
      path goes into the index expressions -/
  | refIndex {N : Nat} {calls : List (Tok × Str)} {σl : St} {last : Block} (f : Nat) (t : Tok) (r : Ref) (idx : List Expr) (h : Holder)
      (ety : Ty) (dims : List (Int × Int)) (cells : List Val) (σ σ1 : St) :
      (resolveRef f r).run.run σ = (.ok h, σ1) → h.isArr = true → readLocP σ1 h.loc = .ok (.arr ety dims cells) →
      idx.length = dims.length → Descent2 N σ1 (.indices idx dims []) calls σl last →
      Descent2 (N + f + 1) σ (.ref (.index t r idx)) calls σl last
  /-- the first index expression contains the call -/
  | idxHead {N : Nat} {calls : List (Tok × Str)} {σl : St} {last : Block} (e : Expr) (rest : List Expr) (dims : List (Int × Int))
      (acc : List Int) (σ : St) :
      Descent2 N σ (.expr e) calls σl last → Descent2 (N + 1) σ (.indices (e :: rest) dims acc) calls σl last
  /-- the first index evaluates to an integer within the bounds of its dimension; a later index -/
  | idxNext {N : Nat} {calls : List (Tok × Str)} {σl : St} {last : Block} (f : Nat) (e : Expr) (rest : List Expr) (d : Int × Int)
      (ds : List (Int × Int)) (acc : List Int) (i : Int) (σ σ1 : St) :
      (evalExpr f e).run.run σ = (.ok (.int i), σ1) → inBounds d i = true →
      Descent2 N σ1 (.indices rest ds (i :: acc)) calls σl last →
      Descent2 (N + f + 1) σ (.indices (e :: rest) (d :: ds) acc) calls σl last
  /-- the target of an assignment that is not a bare name (`A[F(i)] <- rhs`, `r.f <- rhs`): the right-hand side is
      evaluated first, then the target is resolved -/
  | assignTarget {N : Nat} {calls : List (Tok × Str)} {σl : St} {last : Block} (f : Nat) (t : Tok) (r : Ref) (rhs : Expr) (rv : Val)
      (cur : Act) (rest : List Act) (σ σ1 : St) :
      σ.acts = cur :: rest → (evalExpr f rhs).run.run σ = (.ok rv, σ1) → (∀ vt, r ≠ .var vt) →
      Descent2 N σ1 (.ref r) calls σl last → Descent2 (N + f + 2) σ (.expr (.assign t r rhs)) calls σl last
  /-- pointer assignment `r <- ^v`: the reference on the left -/
  | ptrAssignL {N : Nat} {calls : List (Tok × Str)} {σl : St} {last : Block} (t : Tok) (r v : Ref) (σ : St) :
      Descent2 N σ (.ref r) calls σl last → Descent2 (N + 1) σ (.expr (.ptrAssign t r v)) calls σl last
  /-- pointer assignment `r <- ^v`: `r` resolves to a non-array holder; the reference on the right -/
  | ptrAssignR {N : Nat} {calls : List (Tok × Str)} {σl : St} {last : Block} (f : Nat) (t : Tok) (r v : Ref) (ph : Holder) (σ σ1 : St) :
      (resolveRef f r).run.run σ = (.ok ph, σ1) → ph.isArr = false →
      Descent2 N σ1 (.ref v) calls σl last → Descent2 (N + f + 1) σ (.expr (.ptrAssign t r v)) calls σl last
  /-- `INPUT r`: the target reference contains the call (`calls ≠ []`: see `accessRef`) -/
  | inputRef {N : Nat} {calls : List (Tok × Str)} {σl : St} {last : Block} (t : Tok) (r : Ref) (cur : Act) (rest : List Act) (σ : St) :
      calls ≠ [] → σ.acts = cur :: rest → σ.steps + 1 ≤ σ.stepLimit →
      Descent2 N (tickSt σ) (.ref r) calls σl last → Descent2 (N + 1) σ (.stmt (.input t r)) calls σl last
  -- new: CASE labels
  /-- CASE: the label of this clause contains the call -/
  | caseLabel {N : Nat} {calls : List (Tok × Str)} {σl : St} {last : Block} (v : Val) (cl : Clause) (rest : List Clause) (σ : St) :
      Descent2 N σ (.caseMatch v cl) calls σl last → Descent2 (N + 1) σ (.caseClauses v (cl :: rest)) calls σl last
  /-- a single-value label -/
  | caseEq {N : Nat} {calls : List (Tok × Str)} {σl : St} {last : Block} (v : Val) (e : Expr) (b : Block) (σ : St) :
      Descent2 N σ (.expr e) calls σl last → Descent2 (N + 1) σ (.caseMatch v (.eq e b)) calls σl last
  /-- a range label `lo TO hi` (evaluated only for a numeric selector): the lower bound -/
  | caseLo {N : Nat} {calls : List (Tok × Str)} {σl : St} {last : Block} (v : Val) (lo hi : Expr) (b : Block) (σ : St) :
      numeric v → Descent2 N σ (.expr lo) calls σl last → Descent2 (N + 1) σ (.caseMatch v (.range lo hi b)) calls σl last
  /-- a range label: the lower bound evaluates to a number, the upper bound contains the call -/
  | caseHi {N : Nat} {calls : List (Tok × Str)} {σl : St} {last : Block} (f : Nat) (v l : Val) (lo hi : Expr) (b : Block) (σ σ1 : St) :
      numeric v → (evalExpr f lo).run.run σ = (.ok l, σ1) → numeric l →
      Descent2 N σ1 (.expr hi) calls σl last → Descent2 (N + f + 1) σ (.caseMatch v (.range lo hi b)) calls σl last
  -- new: file statements
  /-- OPENFILE / READFILE / WRITEFILE / CLOSEFILE / GETRECORD / PUTRECORD: the file-name expression -/
  | fileS {N : Nat} {calls : List (Tok × Str)} {σl : St} {last : Block} (s : Stmt) (t : Tok) (fn : Expr) (σ : St) :
      fileStmtOf s = some (t, fn) → σ.steps + 1 ≤ σ.stepLimit →
      Descent2 N (tickSt σ) (.fileName t fn) calls σl last → Descent2 (N + 1) σ (.stmt s) calls σl last
  | fileNameE {N : Nat} {calls : List (Tok × Str)} {σl : St} {last : Block} (t : Tok) (e : Expr) (σ : St) :
      Descent2 N σ (.expr e) calls σl last → Descent2 (N + 1) σ (.fileName t e) calls σl last
  /-- `WRITEFILE fn, e`: the name is evaluated, the file is open for writing; the data expression contains the call -/
  | writeData {N : Nat} {calls : List (Tok × Str)} {σl : St} {last : Block} (f : Nat) (t : Tok) (fn e : Expr) (name : Str) (σ σ1 : St) :
      σ.steps + 1 ≤ σ.stepLimit → (Pseudo.fileName f t fn).run.run (tickSt σ) = (.ok name, σ1) →
      fpre (FileStmt.fileSt σ1) (.write name []) = .ok () →
      Descent2 N σ1 (.expr e) calls σl last → Descent2 (N + f + 1) σ (.stmt (.writeFile t fn e)) calls σl last
  /-- `SEEK fn, addr`: the address is evaluated first -/
  | seekAddr {N : Nat} {calls : List (Tok × Str)} {σl : St} {last : Block} (t : Tok) (fn addr : Expr) (σ : St) :
      σ.steps + 1 ≤ σ.stepLimit → Descent2 N (tickSt σ) (.expr addr) calls σl last →
      Descent2 (N + 1) σ (.stmt (.seek t fn addr)) calls σl last
  /-- `SEEK fn, addr`: the address is an integer ≥ 1; the file-name expression -/
  | seekName {N : Nat} {calls : List (Tok × Str)} {σl : St} {last : Block} (f : Nat) (t : Tok) (fn addr : Expr) (a : Int) (σ σ1 : St) :
      σ.steps + 1 ≤ σ.stepLimit → (evalExpr f addr).run.run (tickSt σ) = (.ok (.int a), σ1) → ¬ a < 1 →
      Descent2 N σ1 (.fileName t fn) calls σl last → Descent2 (N + f + 1) σ (.stmt (.seek t fn addr)) calls σl last
  -- new: array declarations, CONSTANT
  /-- `DECLARE ids : ARRAY[bounds] OF ty` (none of the names is an array of the current activation yet): the bounds -/
  | declBounds {N : Nat} {calls : List (Tok × Str)} {σl : St} {last : Block} (t : Tok) (ids : List Tok) (ty : Tok)
      (bounds : List (Expr × Expr)) (a : Act) (r : List Act) (σ : St) :
      σ.steps + 1 ≤ σ.stepLimit → σ.acts = a :: r → ids.any (fun id => (findSlot a.arrs id.val).isSome) = false →
      Descent2 N (tickSt σ) (.bounds bounds []) calls σl last → Descent2 (N + 1) σ (.stmt (.declareArr t ids ty bounds)) calls σl last
  | boundLo {N : Nat} {calls : List (Tok × Str)} {σl : St} {last : Block} (lo hi : Expr) (rest : List (Expr × Expr))
      (acc : List (Int × Int)) (σ : St) :
      Descent2 N σ (.expr lo) calls σl last → Descent2 (N + 1) σ (.bounds ((lo, hi) :: rest) acc) calls σl last
  | boundHi {N : Nat} {calls : List (Tok × Str)} {σl : St} {last : Block} (f : Nat) (lo hi : Expr) (rest : List (Expr × Expr))
      (acc : List (Int × Int)) (a : Int) (σ σ1 : St) :
      (evalExpr f lo).run.run σ = (.ok (.int a), σ1) → Descent2 N σ1 (.expr hi) calls σl last →
      Descent2 (N + f + 1) σ (.bounds ((lo, hi) :: rest) acc) calls σl last
  | boundNext {N : Nat} {calls : List (Tok × Str)} {σl : St} {last : Block} (f : Nat) (lo hi : Expr) (rest : List (Expr × Expr))
      (acc : List (Int × Int)) (a b : Int) (σ σ1 σ2 : St) :
      (evalExpr f lo).run.run σ = (.ok (.int a), σ1) → (evalExpr f hi).run.run σ1 = (.ok (.int b), σ2) → ¬ b < a →
      Descent2 N σ2 (.bounds rest ((a, b) :: acc)) calls σl last →
      Descent2 (N + f + 1) σ (.bounds ((lo, hi) :: rest) acc) calls σl last
  /-- `CONSTANT name = e` -/
  | constE {N : Nat} {calls : List (Tok × Str)} {σl : St} {last : Block} (t name : Tok) (e : Expr) (σ : St) :
      σ.steps + 1 ≤ σ.stepLimit → Descent2 N (tickSt σ) (.expr e) calls σl last →
      Descent2 (N + 1) σ (.stmt (.const t name e)) calls σl last
  -- new: the head of the FOR statement
  /-- `FOR it <- start TO stop [STEP step]`: one step is counted, the iterator is found or created (`forIter`: the
      non-constant INTEGER cell `l`); the start value contains the call -/
  | forStart {N : Nat} {calls : List (Tok × Str)} {σl : St} {last : Block} (t it : Tok) (start stop : Expr) (step : Option Expr)
      (b : Block) (l : Loc) (σ σ1 : St) :
      σ.steps + 1 ≤ σ.stepLimit → (forIter it).run.run (tickSt σ) = (.ok (l, .int), σ1) → locConstP σ1 l = false →
      Descent2 N σ1 (.expr start) calls σl last → Descent2 (N + 1) σ (.stmt (.for t it start stop step b)) calls σl last
  /-- … the start value is an integer; the bound contains the call -/
  | forStop {N : Nat} {calls : List (Tok × Str)} {σl : St} {last : Block} (f : Nat) (t it : Tok) (start stop : Expr) (step : Option Expr)
      (b : Block) (l : Loc) (a : Int) (σ σ1 σ2 : St) :
      σ.steps + 1 ≤ σ.stepLimit → (forIter it).run.run (tickSt σ) = (.ok (l, .int), σ1) → locConstP σ1 l = false →
      (evalExpr f start).run.run σ1 = (.ok (.int a), σ2) →
      Descent2 N σ2 (.expr stop) calls σl last → Descent2 (N + f + 1) σ (.stmt (.for t it start stop step b)) calls σl last
  /-- … start value and bound are integers; the STEP expression contains the call -/
  | forStep {N : Nat} {calls : List (Tok × Str)} {σl : St} {last : Block} (f : Nat) (t it : Tok) (start stop se : Expr)
      (b : Block) (l : Loc) (a bnd : Int) (σ σ1 σ2 σ3 : St) :
      σ.steps + 1 ≤ σ.stepLimit → (forIter it).run.run (tickSt σ) = (.ok (l, .int), σ1) → locConstP σ1 l = false →
      (evalExpr f start).run.run σ1 = (.ok (.int a), σ2) → (evalExpr f stop).run.run σ2 = (.ok (.int bnd), σ3) →
      Descent2 N σ3 (.expr se) calls σl last → Descent2 (N + f + 1) σ (.stmt (.for t it start stop (some se) b)) calls σl last
  /-- **FOR statement**: iterator, start value `a`, bound `bnd`, step `k` (`StepVal`: 1 without STEP); the iterator is
      assigned `a`; the path goes on in the iterations (`forBody` / `forNext`) -/
  | forS {N : Nat} {calls : List (Tok × Str)} {σl : St} {last : Block} (f : Nat) (t it : Tok) (start stop : Expr) (step : Option Expr)
      (b : Block) (l : Loc) (a bnd k : Int) (σ σ1 σ2 σ3 σ4 σ5 : St) :
      σ.steps + 1 ≤ σ.stepLimit → (forIter it).run.run (tickSt σ) = (.ok (l, .int), σ1) → locConstP σ1 l = false →
      (evalExpr f start).run.run σ1 = (.ok (.int a), σ2) → (evalExpr f stop).run.run σ2 = (.ok (.int bnd), σ3) →
      StepVal f step k σ3 σ4 → (writeLoc t l (.int a)).run.run σ4 = (.ok ⟨⟩, σ5) →
      Descent2 N σ5 (.forLoop t l bnd k b) calls σl last →
      Descent2 (N + f + 1) σ (.stmt (.for t it start stop step b)) calls σl last
  -- new: the binding of parameters (the reference of a BYREF argument is resolved a second time)
  /-- `CALL name(args)`: the arguments are evaluated, arity and depth are fine; the path goes into the binding -/
  | callBind {N : Nat} {calls : List (Tok × Str)} {σl : St} {last : Block} (f : Nat) (t : Tok) (name : Str) (args : List Expr)
      (σ σ1 : St) (pd : ProcDef) (vals : List Val) (cur : Act) (rest : List Act) :
      σ.steps + 1 ≤ σ.stepLimit → σ.procs.find? (·.name == name) = some pd →
      (evalArgs f args []).run.run (tickSt σ) = (.ok vals, σ1) → vals.length = pd.params.length →
      σ1.depth + 1 ≤ σ1.depthLimit → σ1.acts = cur :: rest →
      Descent2 N σ1 (.bind t pd.params args vals []) calls σl last →
      Descent2 (N + f + 2) σ (.stmt (.call t name args)) calls σl last
  /-- a function call `name(args)`: the same -/
  | callFBind {N : Nat} {calls : List (Tok × Str)} {σl : St} {last : Block} (f : Nat) (t : Tok) (args : List Expr)
      (σ σ1 : St) (fd : FunDef) (vals : List Val) (cur : Act) (rest : List Act) :
      funLookup σ t.val = some fd → (evalArgs f args []).run.run σ = (.ok vals, σ1) → vals.length = fd.params.length →
      σ1.depth + 1 ≤ σ1.depthLimit → σ1.acts = cur :: rest →
      Descent2 N σ1 (.bind t fd.params args vals []) calls σl last →
      Descent2 (N + f + 2) σ (.expr (.call t args)) calls σl last
  /-- the first parameter is BYREF, its argument is the reference `r` (value of the right type): `r` contains the call -/
  | bindRef {N : Nat} {calls : List (Tok × Str)} {σl : St} {last : Block} (t : Tok) (pn : Str) (pty : Ty) (ps : List (Str × Ty × Bool))
      (at' : Tok) (r : Ref) (es : List Expr) (v : Val) (vs : List Val) (acc : List Slot) (σ : St) :
      v.ty = pty → Descent2 N σ (.ref r) calls σl last →
      Descent2 (N + 1) σ (.bind t ((pn, pty, true) :: ps) (.access at' r :: es) (v :: vs) acc) calls σl last
  /-- the first parameter is passed by value and bound; a later parameter -/
  | bindVal {N : Nat} {calls : List (Tok × Str)} {σl : St} {last : Block} (t : Tok) (pn : Str) (pty : Ty) (ps : List (Str × Ty × Bool))
      (e : Expr) (es : List Expr) (v : Val) (vs : List Val) (acc : List Slot) (σ : St) :
      (implicitCast pty v).ty = pty →
      Descent2 N σ (.bind t ps es vs ({ name := pn, ty := pty, val := implicitCast pty v } :: acc)) calls σl last →
      Descent2 (N + 1) σ (.bind t ((pn, pty, false) :: ps) (e :: es) (v :: vs) acc) calls σl last
  /-- the first parameter is BYREF and bound (its reference resolves to a non-array holder of the right type); a later
      parameter -/
  | bindNextRef {N : Nat} {calls : List (Tok × Str)} {σl : St} {last : Block} (f : Nat) (t : Tok) (pn : Str) (pty : Ty)
      (ps : List (Str × Ty × Bool)) (at' : Tok) (r : Ref) (es : List Expr) (v : Val) (vs : List Val) (acc : List Slot) (h : Holder) (σ σ1 : St) :
      v.ty = pty → (resolveRef f r).run.run σ = (.ok h, σ1) → h.isArr = false → h.ty = pty →
      Descent2 N σ1 (.bind t ps es vs ({ name := pn, ty := h.ty, isConst := locConstP σ1 h.loc, val := .none, ref := some h.loc } :: acc))
        calls σl last →
      Descent2 (N + f + 1) σ (.bind t ((pn, pty, true) :: ps) (.access at' r :: es) (v :: vs) acc) calls σl last

/-- **the stack at the end of a path** -/
theorem Descent2.acts {N : Nat} {σ : St} {c : Code2} {calls : List (Tok × Str)} {σl : St} {last : Block}
    (h : Descent2 N σ c calls σl last) : StackAt σ calls σl := by
  induction h with
  | here σ b => exact StackAt.refl σ
  | seq f s rest v σ σ1 hs _ _ ih => exact ih.step (RTrace_execStmt hs)
  | pre f pre rest σ σ1 hp _ ih => exact ih.step (RTrace_of_run ((trace_all f).runBlock pre) hp)
  | head s rest σ _ ih => exact ih
  | call f t name args σ σ1 σ2 pd vals cur rest slots _ _ hargs _ _ hcur hbind _ ih =>
    exact StackAt.call f t pd.params args vals cur rest slots (procAct pd slots) pd.name (fun _ => rfl)
      (RPre.trans (RTrace_tickSt σ) (RTrace_evalArgs hargs)) hcur hbind ih
  | callF f t args σ σ1 σ2 fd body defTok vals cur rest slots _ _ hargs _ _ hcur hbind _ ih =>
    exact StackAt.call f t fd.params args vals cur rest slots (funAct fd slots) fd.name (fun _ => rfl)
      (RTrace_evalArgs hargs) hcur hbind ih
  | ifS t bs els σ _ _ ih => exact ih.step (RTrace_tickSt σ)
  | ifTrue f t c b rest els σ σ1 hc _ ih => exact ih.step (RTrace_evalExpr hc)
  | ifFalse f t c b rest els σ σ1 hc _ ih => exact ih.step (RTrace_evalExpr hc)
  | ifElse t b σ _ ih => exact ih
  | ifCond t c b rest els σ _ ih => exact ih
  | whileS t c b σ _ _ ih => exact ih.step (RTrace_tickSt σ)
  | whileBody f t c b σ σ1 _ hc _ ih => exact ih.step (RPre.trans (RTrace_tickSt σ) (RTrace_evalExpr hc))
  | whileNext f t c b σ σ1 σ2 _ hc hb _ ih =>
    exact ih.step (RPre.trans (RPre.trans (RTrace_tickSt σ) (RTrace_evalExpr hc)) (RTrace_loopBody hb))
  | loopBody b σ _ ih => exact ih
  | repeatS t b c σ _ _ ih => exact ih.step (RTrace_tickSt σ)
  | repeatBody t b c σ _ _ ih => exact ih.step (RTrace_tickSt σ)
  | repeatNext f t b c σ σ1 σ2 _ hb hc _ ih =>
    exact ih.step (RPre.trans (RPre.trans (RTrace_tickSt σ) (RTrace_loopBody hb)) (RTrace_evalExpr hc))
  | forBody t it stop step i b σ _ _ _ _ ih => exact ih.step (RTrace_tickSt σ)
  | forNext f t it stop step i j b σ σ1 σ2 _ _ _ hb _ hw _ ih =>
    exact ih.step (RPre.trans (RPre.trans (RTrace_tickSt σ) (RTrace_loopBody hb)) (RTrace_writeLoc hw))
  | caseS f t sel cls v σ σ1 _ hv _ ih => exact ih.step (RPre.trans (RTrace_tickSt σ) (RTrace_evalExpr hv))
  | caseHit f v cl rest b σ σ1 hm _ ih => exact ih.step (RTrace_caseMatch hm)
  | caseMiss f v cl rest σ σ1 hm _ ih => exact ih.step (RTrace_caseMatch hm)
  | exprS e σ _ _ ih => exact ih.step (RTrace_tickSt σ)
  | assignRhs t r rhs cur rest σ _ _ _ ih => exact ih
  | arithL t op l r σ _ ih => exact ih
  | arithR f t op l r lv σ σ1 hl _ ih => exact ih.step (RTrace_evalExpr hl)
  | cmpL t op l r σ _ ih => exact ih
  | cmpR f t op l r lv σ σ1 hl _ ih => exact ih.step (RTrace_evalExpr hl)
  | outputS t es σ _ _ ih => exact ih.step (RTrace_tickSt σ)
  | outHead e rest σ _ ih => exact ih
  | outNext f e rest v s σ σ1 hv _ _ ih => exact ih.step (RPre.trans (RTrace_evalExpr hv) (RTrace_emitSt σ1 s))
  | callArgs t name args pd σ _ _ _ ih => exact ih.step (RTrace_tickSt σ)
  | callFArgs t args fd σ _ _ ih => exact ih
  | argHead e rest acc σ _ ih => exact ih
  | argNext f e rest acc v σ σ1 hv _ ih => exact ih.step (RTrace_evalExpr hv)
  | retS t e a r σ _ _ _ _ ih => exact ih.step (RTrace_tickSt σ)
  | old σ c hD => exact hD.acts
  | whileCond t c b σ _ _ ih => exact ih.step (RTrace_tickSt σ)
  | repeatCond f t b c σ σ1 _ hb _ ih => exact ih.step (RPre.trans (RTrace_tickSt σ) (RTrace_loopBody hb))
  | negA t a σ _ ih => exact ih
  | notA t a σ _ ih => exact ih
  | castA t ty a σ _ ih => exact ih
  | concatL t l r σ _ ih => exact ih
  | concatR f t l r lv σ σ1 hl _ ih => exact ih.step (RTrace_evalExpr hl)
  | logicL t op l r σ _ ih => exact ih
  | logicR f t op l r lv σ σ1 hl _ _ ih => exact ih.step (RTrace_evalExpr hl)
  | accessRef t r cur rest σ _ _ _ ih => exact ih
  | refField t r m σ _ ih => exact ih
  | refDeref t r σ _ ih => exact ih
  | refIndexBase t r idx σ _ ih => exact ih
  | refIndex f t r idx h ety dims cells σ σ1 hr _ _ _ _ ih => exact ih.step (RTrace_resolveRef hr)
  | idxHead e rest dims acc σ _ ih => exact ih
  | idxNext f e rest d ds acc i σ σ1 hv _ _ ih => exact ih.step (RTrace_evalExpr hv)
  | assignTarget f t r rhs rv cur rest σ σ1 _ hrhs _ _ ih => exact ih.step (RTrace_evalExpr hrhs)
  | ptrAssignL t r v σ _ ih => exact ih
  | ptrAssignR f t r v ph σ σ1 hp _ _ ih => exact ih.step (RTrace_resolveRef hp)
  | inputRef t r cur rest σ _ _ _ _ ih => exact ih.step (RTrace_tickSt σ)
  | caseLabel v cl rest σ _ ih => exact ih
  | caseEq v e b σ _ ih => exact ih
  | caseLo v lo hi b σ _ _ ih => exact ih
  | caseHi f v l lo hi b σ σ1 _ hl _ _ ih => exact ih.step (RTrace_evalExpr hl)
  | fileS s t fn σ _ _ _ ih => exact ih.step (RTrace_tickSt σ)
  | fileNameE t e σ _ ih => exact ih
  | writeData f t fn e name σ σ1 _ hn _ _ ih => exact ih.step (RPre.trans (RTrace_tickSt σ) (RTrace_fileName hn))
  | seekAddr t fn addr σ _ _ ih => exact ih.step (RTrace_tickSt σ)
  | seekName f t fn addr a σ σ1 _ ha _ _ ih => exact ih.step (RPre.trans (RTrace_tickSt σ) (RTrace_evalExpr ha))
  | declBounds t ids ty bounds a r σ _ _ _ _ ih => exact ih.step (RTrace_tickSt σ)
  | boundLo lo hi rest acc σ _ ih => exact ih
  | boundHi f lo hi rest acc a σ σ1 hl _ ih => exact ih.step (RTrace_evalExpr hl)
  | boundNext f lo hi rest acc a b σ σ1 σ2 hl hh _ _ ih => exact ih.step (RPre.trans (RTrace_evalExpr hl) (RTrace_evalExpr hh))
  | constE t name e σ _ _ ih => exact ih.step (RTrace_tickSt σ)
  | forStart t it start stop step b l σ σ1 _ hit _ _ ih => exact ih.step (RPre.trans (RTrace_tickSt σ) (RTrace_forIter hit))
  | forStop f t it start stop step b l a σ σ1 σ2 _ hit _ hs _ ih =>
    exact ih.step (RPre.trans (RPre.trans (RTrace_tickSt σ) (RTrace_forIter hit)) (RTrace_evalExpr hs))
  | forStep f t it start stop se b l a bnd σ σ1 σ2 σ3 _ hit _ hs he _ ih =>
    exact ih.step (RPre.trans (RPre.trans (RPre.trans (RTrace_tickSt σ) (RTrace_forIter hit)) (RTrace_evalExpr hs)) (RTrace_evalExpr he))
  | forS f t it start stop step b l a bnd k σ σ1 σ2 σ3 σ4 σ5 _ hit _ hs he hk hw _ ih =>
    exact ih.step (RPre.trans (RPre.trans (RPre.trans (RPre.trans (RPre.trans (RTrace_tickSt σ) (RTrace_forIter hit)) (RTrace_evalExpr hs))
      (RTrace_evalExpr he)) hk.rtrace) (RTrace_writeLoc hw))
  | callBind f t name args σ σ1 pd vals cur rest _ _ hargs _ _ _ _ ih =>
    exact ih.step (RPre.trans (RTrace_tickSt σ) (RTrace_evalArgs hargs))
  | callFBind f t args σ σ1 fd vals cur rest _ hargs _ _ _ _ ih => exact ih.step (RTrace_evalArgs hargs)
  | bindRef t pn pty ps at' r es v vs acc σ _ _ ih => exact ih
  | bindVal t pn pty ps e es v vs acc σ _ _ ih => exact ih
  | bindNextRef f t pn pty ps at' r es v vs acc h σ σ1 _ hr _ _ _ ih => exact ih.step (RTrace_resolveRef hr)

/-- **a diagnostic with which the block at the end of the path ends is the diagnostic with which the code at its start
    ends** (fuel: that of `last` plus `N`).  `hdeep`: the traceback has at least one frame per activation of the stack in
    which `last` starts (true of every runtime diagnostic raised there or deeper) — this is what lets it pass the handler
    around the right-hand side of an assignment. -/
theorem Descent2.sound {N : Nat} {σ : St} {c : Code2} {calls : List (Tok × Str)} {σl : St} {last : Block}
    (h : Descent2 N σ c calls σl last) :
    ∀ (F : Nat) (d : Diag), errOf (runBlock F last) σl = some (.diag d) → σl.acts.length ≤ d.trace.length →
      c.err (F + N) σ = some (.diag d) := by
  induction h with
  | here σ b => intro F d h _; exact h
  | @seq N calls σl last f s rest v σ σ1 hs hv hD ih =>
    intro F d h hd
    have ih' : errOf (runBlock (F + N + f) rest) σ1 = some (.diag d) :=
      Code2.err_mono (.block rest) (g := F + N + f) (by omega) (ih F d h hd)
    obtain ⟨σ', hr⟩ := run_of_errOf ih'
    have hs' := ok_mono ((fuel_mono_all (by omega : f ≤ F + N + f)).execStmt s) hs
    show errOf (runBlock (F + (N + f + 1)) (s :: rest)) σ = _
    rw [show F + (N + f + 1) = F + N + f + 1 by omega]
    exact errOf_of_run (C11_trace_propagates_runBlock_tail _ s rest v σ σ1 σ' d hs' hv hr)
  | @pre N calls σl last f pre rest σ σ1 hp hD ih =>
    intro F d h hd
    have ih' : errOf (runBlock (F + N + f) rest) σ1 = some (.diag d) :=
      Code2.err_mono (.block rest) (g := F + N + f) (by omega) (ih F d h hd)
    show errOf (runBlock (F + (N + f + pre.length)) (pre ++ rest)) σ = _
    rw [show F + (N + f + pre.length) = F + N + f + pre.length by omega]
    unfold errOf
    rw [run_runBlock_append rest pre f σ σ1 hp (F + N + f) (by omega)]
    exact ih'
  | @head N calls σl last s rest σ hD ih =>
    intro F d h hd
    obtain ⟨σ', hr⟩ := run_of_errOf (show errOf (execStmt (F + N) s) σ = some (.diag d) from ih F d h hd)
    show errOf (runBlock (F + (N + 1)) (s :: rest)) σ = _
    rw [show F + (N + 1) = F + N + 1 by omega]
    exact errOf_of_run (C11_trace_propagates_runBlock_head _ s rest σ σ' d hr)
  | @call N calls σl last f t name args σ σ1 σ2 pd vals cur rest slots hsteps hpd hargs hlen hdepth hcur hbind hD ih =>
    intro F d h hd
    have ih' : errOf (runBlock (F + N + f) pd.body) (calleeSt (procAct pd slots) (setSwitch σ2 cur.id t)) = some (.diag d) :=
      Code2.err_mono (.block pd.body) (g := F + N + f) (by omega) (ih F d h hd)
    obtain ⟨σ4, hr⟩ := run_of_errOf ih'
    have hm := fuel_mono_all (by omega : f ≤ F + N + f)
    have hargs' := ok_mono (hm.evalArgs args []) hargs
    have hbind' := ok_mono (hm.bindParams t pd.params args vals []) hbind
    have hpd' : (tickSt σ).procs.find? (·.name == name) = some pd := hpd
    show errOf (execStmt (F + (N + f + 2)) (.call t name args)) σ = _
    rw [show F + (N + f + 2) = F + N + f + 1 + 1 by omega]
    exact errOf_of_run (C11_trace_propagates_stmt_call _ t name args σ _ d hsteps
      (C11_trace_propagates_callProc _ t name args (tickSt σ) σ1 σ2 σ4 pd vals cur rest slots d hpd' hargs' hlen hdepth hcur hbind' hr))
  | @callF N calls σl last f t args σ σ1 σ2 fd body defTok vals cur rest slots hfd hbody hargs hlen hdepth hcur hbind hD ih =>
    intro F d h hd
    have ih' : errOf (runBlock (F + N + f) body) (calleeSt (funAct fd slots) (setSwitch σ2 cur.id t)) = some (.diag d) :=
      Code2.err_mono (.block body) (g := F + N + f) (by omega) (ih F d h hd)
    obtain ⟨σ4, hr⟩ := run_of_errOf ih'
    have hm := fuel_mono_all (by omega : f ≤ F + N + f)
    have hargs' := ok_mono (hm.evalArgs args []) hargs
    have hbind' := ok_mono (hm.bindParams t fd.params args vals []) hbind
    show errOf (evalExpr (F + (N + f + 2)) (.call t args)) σ = _
    rw [show F + (N + f + 2) = F + N + f + 1 + 1 by omega, evalExpr_call']
    exact errOf_of_run (C11_trace_propagates_callFun _ t args σ σ1 σ2 σ4 fd body defTok vals cur rest slots d hfd hbody
      hargs' hlen hdepth hcur hbind' hr)
  | @ifS N calls σl last t bs els σ hsteps hD ih =>
    intro F d h hd
    obtain ⟨σ', hr⟩ := run_of_errOf (show errOf (ifChain (F + N) t bs els) (tickSt σ) = some (.diag d) from ih F d h hd)
    show errOf (execStmt (F + (N + 1)) (.ifs t bs els)) σ = _
    rw [show F + (N + 1) = F + N + 1 by omega]
    exact errOf_of_run ((C11_trace_propagates_stmt_wrappers _ t σ σ' d hsteps).1 bs els hr)
  | @ifTrue N calls σl last f t c b rest els σ σ1 hc hD ih =>
    intro F d h hd
    have ih' : errOf (runBlock (F + N + f) b) σ1 = some (.diag d) :=
      Code2.err_mono (.block b) (g := F + N + f) (by omega) (ih F d h hd)
    obtain ⟨σ', hr⟩ := run_of_errOf ih'
    have hc' := ok_mono ((fuel_mono_all (by omega : f ≤ F + N + f)).evalExpr c) hc
    show errOf (ifChain (F + (N + f + 1)) t ((c, b) :: rest) els) σ = _
    rw [show F + (N + f + 1) = F + N + f + 1 by omega]
    exact errOf_of_run (C11_trace_propagates_if _ t c b rest els σ σ1 σ' d hc' hr)
  | @ifFalse N calls σl last f t c b rest els σ σ1 hc hD ih =>
    intro F d h hd
    have ih' : errOf (ifChain (F + N + f) t rest els) σ1 = some (.diag d) :=
      Code2.err_mono (.ifChain t rest els) (g := F + N + f) (by omega) (ih F d h hd)
    obtain ⟨σ', hr⟩ := run_of_errOf ih'
    have hc' := ok_mono ((fuel_mono_all (by omega : f ≤ F + N + f)).evalExpr c) hc
    show errOf (ifChain (F + (N + f + 1)) t ((c, b) :: rest) els) σ = _
    rw [show F + (N + f + 1) = F + N + f + 1 by omega]
    exact errOf_of_run ((C11_trace_if_next _ t c b rest els σ σ1 hc').trans hr)
  | @ifElse N calls σl last t b σ hD ih =>
    intro F d h hd
    show errOf (ifChain (F + (N + 1)) t [] (some b)) σ = _
    rw [show F + (N + 1) = F + N + 1 by omega, C11_trace_if_else]
    exact ih F d h hd
  | @ifCond N calls σl last t c b rest els σ hD ih =>
    intro F d h hd
    obtain ⟨σ', hr⟩ := run_of_errOf (show errOf (evalExpr (F + N) c) σ = some (.diag d) from ih F d h hd)
    show errOf (ifChain (F + (N + 1)) t ((c, b) :: rest) els) σ = _
    rw [show F + (N + 1) = F + N + 1 by omega]
    exact errOf_of_run (run_if_cond_err _ t c b rest els σ σ' _ hr)
  | @whileS N calls σl last t c b σ hsteps hD ih =>
    intro F d h hd
    obtain ⟨σ', hr⟩ := run_of_errOf (show errOf (whileLoop (F + N) t c b) (tickSt σ) = some (.diag d) from ih F d h hd)
    show errOf (execStmt (F + (N + 1)) (.while t c b)) σ = _
    rw [show F + (N + 1) = F + N + 1 by omega]
    exact errOf_of_run ((C11_trace_propagates_stmt_wrappers _ t σ σ' d hsteps).2.1 c b hr)
  | @whileBody N calls σl last f t c b σ σ1 hsteps hc hD ih =>
    intro F d h hd
    have ih' : errOf (Pseudo.loopBody (F + N + f) b) σ1 = some (.diag d) :=
      Code2.err_mono (.loopBody b) (g := F + N + f) (by omega) (ih F d h hd)
    obtain ⟨σ', hr⟩ := run_of_errOf ih'
    have hc' := ok_mono ((fuel_mono_all (by omega : f ≤ F + N + f)).evalExpr c) hc
    show errOf (whileLoop (F + (N + f + 1)) t c b) σ = _
    rw [show F + (N + f + 1) = F + N + f + 1 by omega]
    exact errOf_of_run (C11_trace_propagates_while _ t c b σ σ1 σ' d hsteps hc' hr)
  | @whileNext N calls σl last f t c b σ σ1 σ2 hsteps hc hb hD ih =>
    intro F d h hd
    have ih' : errOf (whileLoop (F + N + f) t c b) σ2 = some (.diag d) :=
      Code2.err_mono (.whileLoop t c b) (g := F + N + f) (by omega) (ih F d h hd)
    obtain ⟨σ', hr⟩ := run_of_errOf ih'
    have hm := fuel_mono_all (by omega : f ≤ F + N + f)
    have hc' := ok_mono (hm.evalExpr c) hc
    have hb' := ok_mono (hm.loopBody b) hb
    show errOf (whileLoop (F + (N + f + 1)) t c b) σ = _
    rw [show F + (N + f + 1) = F + N + f + 1 by omega]
    exact errOf_of_run ((C11_trace_while_next _ t c b σ σ1 σ2 hsteps hc' hb').trans hr)
  | @loopBody N calls σl last b σ hD ih =>
    intro F d h hd
    obtain ⟨σ', hr⟩ := run_of_errOf (show errOf (runBlock (F + N) b) σ = some (.diag d) from ih F d h hd)
    show errOf (Pseudo.loopBody (F + (N + 1)) b) σ = _
    rw [show F + (N + 1) = F + N + 1 by omega]
    exact errOf_of_run (C11_trace_propagates_loopBody _ b σ σ' d hr)
  | @repeatS N calls σl last t b c σ hsteps hD ih =>
    intro F d h hd
    obtain ⟨σ', hr⟩ := run_of_errOf (show errOf (repeatLoop (F + N) t b c) (tickSt σ) = some (.diag d) from ih F d h hd)
    show errOf (execStmt (F + (N + 1)) (.repeat t b c)) σ = _
    rw [show F + (N + 1) = F + N + 1 by omega]
    exact errOf_of_run ((C11_trace_propagates_stmt_wrappers _ t σ σ' d hsteps).2.2 b c hr)
  | @repeatBody N calls σl last t b c σ hsteps hD ih =>
    intro F d h hd
    obtain ⟨σ', hr⟩ := run_of_errOf (show errOf (Pseudo.loopBody (F + N) b) (tickSt σ) = some (.diag d) from ih F d h hd)
    show errOf (repeatLoop (F + (N + 1)) t b c) σ = _
    rw [show F + (N + 1) = F + N + 1 by omega]
    exact errOf_of_run (C11_trace_propagates_repeat _ t b c σ σ' d hsteps hr)
  | @repeatNext N calls σl last f t b c σ σ1 σ2 hsteps hb hc hD ih =>
    intro F d h hd
    have ih' : errOf (repeatLoop (F + N + f) t b c) σ2 = some (.diag d) :=
      Code2.err_mono (.repeatLoop t b c) (g := F + N + f) (by omega) (ih F d h hd)
    obtain ⟨σ', hr⟩ := run_of_errOf ih'
    have hm := fuel_mono_all (by omega : f ≤ F + N + f)
    have hc' := ok_mono (hm.evalExpr c) hc
    have hb' := ok_mono (hm.loopBody b) hb
    show errOf (repeatLoop (F + (N + f + 1)) t b c) σ = _
    rw [show F + (N + f + 1) = F + N + f + 1 by omega]
    exact errOf_of_run ((run_repeat_next _ t b c σ σ1 σ2 hsteps hb' hc').trans hr)
  | @forBody N calls σl last t it stop step i b σ hit hin hsteps hD ih =>
    intro F d h hd
    obtain ⟨σ', hr⟩ := run_of_errOf (show errOf (Pseudo.loopBody (F + N) b) (tickSt σ) = some (.diag d) from ih F d h hd)
    show errOf (forLoop (F + (N + 1)) t it stop step b) σ = _
    rw [show F + (N + 1) = F + N + 1 by omega]
    exact errOf_of_run (C11_trace_propagates_for _ t it stop step i b σ σ' d hit hin hsteps hr)
  | @forNext N calls σl last f t it stop step i j b σ σ1 σ2 hit hin hsteps hb hit2 hw hD ih =>
    intro F d h hd
    have ih' : errOf (forLoop (F + N + f) t it stop step b) σ2 = some (.diag d) :=
      Code2.err_mono (.forLoop t it stop step b) (g := F + N + f) (by omega) (ih F d h hd)
    obtain ⟨σ', hr⟩ := run_of_errOf ih'
    have hb' := ok_mono ((fuel_mono_all (by omega : f ≤ F + N + f)).loopBody b) hb
    show errOf (forLoop (F + (N + f + 1)) t it stop step b) σ = _
    rw [show F + (N + f + 1) = F + N + f + 1 by omega]
    exact errOf_of_run ((run_for_next _ t it stop step i j b σ σ1 σ2 hit hin hsteps hb' hit2 hw).trans hr)
  | @caseS N calls σl last f t sel cls v σ σ1 hsteps hv hD ih =>
    intro F d h hd
    have ih' : errOf (caseClauses (F + N + f) v cls) σ1 = some (.diag d) :=
      Code2.err_mono (.caseClauses v cls) (g := F + N + f) (by omega) (ih F d h hd)
    obtain ⟨σ', hr⟩ := run_of_errOf ih'
    have hv' := ok_mono ((fuel_mono_all (by omega : f ≤ F + N + f)).evalExpr (.access sel (.var sel))) hv
    show errOf (execStmt (F + (N + f + 1)) (.case t sel cls)) σ = _
    rw [show F + (N + f + 1) = F + N + f + 1 by omega]
    exact errOf_of_run (run_case_stmt_err _ t sel cls v σ σ1 σ' _ hsteps hv' hr)
  | @caseHit N calls σl last f v cl rest b σ σ1 hm hD ih =>
    intro F d h hd
    have ih' : errOf (runBlock (F + N + f) b) σ1 = some (.diag d) :=
      Code2.err_mono (.block b) (g := F + N + f) (by omega) (ih F d h hd)
    obtain ⟨σ', hr⟩ := run_of_errOf ih'
    have hm' := ok_mono ((fuel_mono_all (by omega : f ≤ F + N + f)).caseMatch v cl) hm
    show errOf (caseClauses (F + (N + f + 1)) v (cl :: rest)) σ = _
    rw [show F + (N + f + 1) = F + N + f + 1 by omega]
    exact errOf_of_run (C11_trace_propagates_case _ v cl rest b σ σ1 σ' d hm' hr)
  | @caseMiss N calls σl last f v cl rest σ σ1 hm hD ih =>
    intro F d h hd
    have ih' : errOf (caseClauses (F + N + f) v rest) σ1 = some (.diag d) :=
      Code2.err_mono (.caseClauses v rest) (g := F + N + f) (by omega) (ih F d h hd)
    obtain ⟨σ', hr⟩ := run_of_errOf ih'
    have hm' := ok_mono ((fuel_mono_all (by omega : f ≤ F + N + f)).caseMatch v cl) hm
    show errOf (caseClauses (F + (N + f + 1)) v (cl :: rest)) σ = _
    rw [show F + (N + f + 1) = F + N + f + 1 by omega]
    exact errOf_of_run ((run_case_miss _ v cl rest σ σ1 hm').trans hr)
  | @exprS N calls σl last e σ hsteps hD ih =>
    intro F d h hd
    obtain ⟨σ', hr⟩ := run_of_errOf (show errOf (evalExpr (F + N) e) (tickSt σ) = some (.diag d) from ih F d h hd)
    show errOf (execStmt (F + (N + 1)) (.expr e)) σ = _
    rw [show F + (N + 1) = F + N + 1 by omega]
    exact errOf_of_run ((run_expr_stmt _ e σ hsteps).trans hr)
  | @assignRhs N calls σl last t r rhs cur rest σ hcalls hacts hD ih =>
    intro F d h hd
    obtain ⟨σ', hr⟩ := run_of_errOf (show errOf (evalExpr (F + N) rhs) σ = some (.diag d) from ih F d h hd)
    have hlen := hD.acts.length (by rw [hacts]; exact List.cons_ne_nil _ _)
    have hpos : 0 < calls.length := List.length_pos_iff.mpr hcalls
    show errOf (evalExpr (F + (N + 2)) (.assign t r rhs)) σ = _
    rw [show F + (N + 2) = F + N + 1 + 1 by omega]
    exact errOf_of_run (run_assign_err _ t r rhs σ σ' _
      (C11_trace_propagates_assign_rhs_callee _ t r rhs σ σ' cur rest d hacts hr (by omega)))
  | @arithL N calls σl last t op l r σ hD ih =>
    intro F d h hd
    obtain ⟨σ', hr⟩ := run_of_errOf (show errOf (evalExpr (F + N) l) σ = some (.diag d) from ih F d h hd)
    show errOf (evalExpr (F + (N + 1)) (.arith t op l r)) σ = _
    rw [show F + (N + 1) = F + N + 1 by omega]
    exact errOf_of_run (run_arith_left_err _ t op l r σ σ' _ hr)
  | @arithR N calls σl last f t op l r lv σ σ1 hl hD ih =>
    intro F d h hd
    have ih' : errOf (evalExpr (F + N + f) r) σ1 = some (.diag d) :=
      Code2.err_mono (.expr r) (g := F + N + f) (by omega) (ih F d h hd)
    obtain ⟨σ', hr⟩ := run_of_errOf ih'
    have hl' := ok_mono ((fuel_mono_all (by omega : f ≤ F + N + f)).evalExpr l) hl
    show errOf (evalExpr (F + (N + f + 1)) (.arith t op l r)) σ = _
    rw [show F + (N + f + 1) = F + N + f + 1 by omega]
    exact errOf_of_run (run_arith_right_err _ t op l r lv σ σ1 σ' _ hl' hr)
  | @cmpL N calls σl last t op l r σ hD ih =>
    intro F d h hd
    obtain ⟨σ', hr⟩ := run_of_errOf (show errOf (evalExpr (F + N) l) σ = some (.diag d) from ih F d h hd)
    show errOf (evalExpr (F + (N + 1)) (.cmp t op l r)) σ = _
    rw [show F + (N + 1) = F + N + 1 by omega]
    exact errOf_of_run (run_cmp_left_err _ t op l r σ σ' _ hr)
  | @cmpR N calls σl last f t op l r lv σ σ1 hl hD ih =>
    intro F d h hd
    have ih' : errOf (evalExpr (F + N + f) r) σ1 = some (.diag d) :=
      Code2.err_mono (.expr r) (g := F + N + f) (by omega) (ih F d h hd)
    obtain ⟨σ', hr⟩ := run_of_errOf ih'
    have hl' := ok_mono ((fuel_mono_all (by omega : f ≤ F + N + f)).evalExpr l) hl
    show errOf (evalExpr (F + (N + f + 1)) (.cmp t op l r)) σ = _
    rw [show F + (N + f + 1) = F + N + f + 1 by omega]
    exact errOf_of_run (run_cmp_right_err _ t op l r lv σ σ1 σ' _ hl' hr)
  | @outputS N calls σl last t es σ hsteps hD ih =>
    intro F d h hd
    obtain ⟨σ', hr⟩ := run_of_errOf (show errOf (Pseudo.outputAll (F + N) es) (tickSt σ) = some (.diag d) from ih F d h hd)
    show errOf (execStmt (F + (N + 1)) (.output t es)) σ = _
    rw [show F + (N + 1) = F + N + 1 by omega]
    exact errOf_of_run (run_output_stmt_err _ t es σ σ' _ hsteps hr)
  | @outHead N calls σl last e rest σ hD ih =>
    intro F d h hd
    obtain ⟨σ', hr⟩ := run_of_errOf (show errOf (evalExpr (F + N) e) σ = some (.diag d) from ih F d h hd)
    show errOf (Pseudo.outputAll (F + (N + 1)) (e :: rest)) σ = _
    rw [show F + (N + 1) = F + N + 1 by omega]
    exact errOf_of_run (run_outputAll_head_err _ e rest σ σ' _ hr)
  | @outNext N calls σl last f e rest v s σ σ1 hv ht hD ih =>
    intro F d h hd
    have ih' : errOf (Pseudo.outputAll (F + N + f) rest) (emitSt σ1 s) = some (.diag d) :=
      Code2.err_mono (.outputAll rest) (g := F + N + f) (by omega) (ih F d h hd)
    obtain ⟨σ', hr⟩ := run_of_errOf ih'
    have hv' := ok_mono ((fuel_mono_all (by omega : f ≤ F + N + f)).evalExpr e) hv
    show errOf (Pseudo.outputAll (F + (N + f + 1)) (e :: rest)) σ = _
    rw [show F + (N + f + 1) = F + N + f + 1 by omega]
    exact errOf_of_run ((run_outputAll_next _ e rest v s σ σ1 hv' ht).trans hr)
  | @callArgs N calls σl last t name args pd σ hsteps hpd hD ih =>
    intro F d h hd
    obtain ⟨σ', hr⟩ := run_of_errOf (show errOf (evalArgs (F + N) args []) (tickSt σ) = some (.diag d) from ih F d h hd)
    show errOf (execStmt (F + (N + 2)) (.call t name args)) σ = _
    rw [show F + (N + 2) = F + N + 2 by omega]
    exact errOf_of_run (run_call_args_err _ t name args pd σ σ' _ hsteps hpd hr)
  | @callFArgs N calls σl last t args fd σ hfd hD ih =>
    intro F d h hd
    obtain ⟨σ', hr⟩ := run_of_errOf (show errOf (evalArgs (F + N) args []) σ = some (.diag d) from ih F d h hd)
    show errOf (evalExpr (F + (N + 2)) (.call t args)) σ = _
    rw [show F + (N + 2) = F + N + 2 by omega]
    exact errOf_of_run (run_callFun_args_err _ t args fd σ σ' _ hfd hr)
  | @argHead N calls σl last e rest acc σ hD ih =>
    intro F d h hd
    obtain ⟨σ', hr⟩ := run_of_errOf (show errOf (evalExpr (F + N) e) σ = some (.diag d) from ih F d h hd)
    show errOf (evalArgs (F + (N + 1)) (e :: rest) acc) σ = _
    rw [show F + (N + 1) = F + N + 1 by omega]
    exact errOf_of_run (run_args_head_err _ e rest acc σ σ' _ hr)
  | @argNext N calls σl last f e rest acc v σ σ1 hv hD ih =>
    intro F d h hd
    have ih' : errOf (evalArgs (F + N + f) rest (v :: acc)) σ1 = some (.diag d) :=
      Code2.err_mono (.args rest (v :: acc)) (g := F + N + f) (by omega) (ih F d h hd)
    obtain ⟨σ', hr⟩ := run_of_errOf ih'
    have hv' := ok_mono ((fuel_mono_all (by omega : f ≤ F + N + f)).evalExpr e) hv
    show errOf (evalArgs (F + (N + f + 1)) (e :: rest) acc) σ = _
    rw [show F + (N + f + 1) = F + N + f + 1 by omega]
    exact errOf_of_run ((run_args_next _ e rest acc v σ σ1 hv').trans hr)
  | @retS N calls σl last t e a r σ hsteps hacts hfn hD ih =>
    intro F d h hd
    obtain ⟨σ', hr⟩ := run_of_errOf (show errOf (evalExpr (F + N) e) (tickSt σ) = some (.diag d) from ih F d h hd)
    show errOf (execStmt (F + (N + 1)) (.ret t e)) σ = _
    rw [show F + (N + 1) = F + N + 1 by omega]
    exact errOf_of_run (run_ret_err _ t e a r σ σ' _ hsteps hacts hfn hr)
  | @old N calls σl last σ c hD =>
    intro F d h hd
    rw [Code2.up_err]
    exact hD.sound F d h hd
  | @whileCond N calls σl last t c b σ hsteps hD ih =>
    intro F d h hd
    obtain ⟨σ', hr⟩ := run_of_errOf (show errOf (evalExpr (F + N) c) (tickSt σ) = some (.diag d) from ih F d h hd)
    show errOf (whileLoop (F + (N + 1)) t c b) σ = _
    rw [show F + (N + 1) = F + N + 1 by omega]
    exact errOf_of_run (run_while_cond_err _ t c b σ σ' _ hsteps hr)
  | @repeatCond N calls σl last f t b c σ σ1 hsteps hb hD ih =>
    intro F d h hd
    have ih' : errOf (evalExpr (F + N + f) c) σ1 = some (.diag d) :=
      Code2.err_mono (.expr c) (g := F + N + f) (by omega) (ih F d h hd)
    obtain ⟨σ', hr⟩ := run_of_errOf ih'
    have hb' := ok_mono ((fuel_mono_all (by omega : f ≤ F + N + f)).loopBody b) hb
    show errOf (repeatLoop (F + (N + f + 1)) t b c) σ = _
    rw [show F + (N + f + 1) = F + N + f + 1 by omega]
    exact errOf_of_run (run_repeat_cond_err _ t b c σ σ1 σ' _ hsteps hb' hr)
  | @negA N calls σl last t a σ hD ih =>
    intro F d h hd
    obtain ⟨σ', hr⟩ := run_of_errOf (show errOf (evalExpr (F + N) a) σ = some (.diag d) from ih F d h hd)
    show errOf (evalExpr (F + (N + 1)) (.neg t a)) σ = _
    rw [show F + (N + 1) = F + N + 1 by omega]
    exact errOf_of_run (run_neg_err _ t a σ σ' _ hr)
  | @notA N calls σl last t a σ hD ih =>
    intro F d h hd
    obtain ⟨σ', hr⟩ := run_of_errOf (show errOf (evalExpr (F + N) a) σ = some (.diag d) from ih F d h hd)
    show errOf (evalExpr (F + (N + 1)) (.not t a)) σ = _
    rw [show F + (N + 1) = F + N + 1 by omega]
    exact errOf_of_run (run_not_err _ t a σ σ' _ hr)
  | @castA N calls σl last t ty a σ hD ih =>
    intro F d h hd
    obtain ⟨σ', hr⟩ := run_of_errOf (show errOf (evalExpr (F + N) a) σ = some (.diag d) from ih F d h hd)
    show errOf (evalExpr (F + (N + 1)) (.cast t ty a)) σ = _
    rw [show F + (N + 1) = F + N + 1 by omega]
    exact errOf_of_run (run_cast_err _ t ty a σ σ' _ hr)
  | @concatL N calls σl last t l r σ hD ih =>
    intro F d h hd
    obtain ⟨σ', hr⟩ := run_of_errOf (show errOf (evalExpr (F + N) l) σ = some (.diag d) from ih F d h hd)
    show errOf (evalExpr (F + (N + 1)) (.concat t l r)) σ = _
    rw [show F + (N + 1) = F + N + 1 by omega]
    exact errOf_of_run (run_concat_left_err _ t l r σ σ' _ hr)
  | @concatR N calls σl last f t l r lv σ σ1 hl hD ih =>
    intro F d h hd
    have ih' : errOf (evalExpr (F + N + f) r) σ1 = some (.diag d) :=
      Code2.err_mono (.expr r) (g := F + N + f) (by omega) (ih F d h hd)
    obtain ⟨σ', hr⟩ := run_of_errOf ih'
    have hl' := ok_mono ((fuel_mono_all (by omega : f ≤ F + N + f)).evalExpr l) hl
    show errOf (evalExpr (F + (N + f + 1)) (.concat t l r)) σ = _
    rw [show F + (N + f + 1) = F + N + f + 1 by omega]
    exact errOf_of_run (run_concat_right_err _ t l r lv σ σ1 σ' _ hl' hr)
  | @logicL N calls σl last t op l r σ hD ih =>
    intro F d h hd
    obtain ⟨σ', hr⟩ := run_of_errOf (show errOf (evalExpr (F + N) l) σ = some (.diag d) from ih F d h hd)
    show errOf (evalExpr (F + (N + 1)) (.logic t op l r)) σ = _
    rw [show F + (N + 1) = F + N + 1 by omega]
    exact errOf_of_run (run_logic_left_err _ t op l r σ σ' _ hr)
  | @logicR N calls σl last f t op l r lv σ σ1 hl hns hD ih =>
    intro F d h hd
    have ih' : errOf (evalExpr (F + N + f) r) σ1 = some (.diag d) :=
      Code2.err_mono (.expr r) (g := F + N + f) (by omega) (ih F d h hd)
    obtain ⟨σ', hr⟩ := run_of_errOf ih'
    have hl' := ok_mono ((fuel_mono_all (by omega : f ≤ F + N + f)).evalExpr l) hl
    show errOf (evalExpr (F + (N + f + 1)) (.logic t op l r)) σ = _
    rw [show F + (N + f + 1) = F + N + f + 1 by omega]
    exact errOf_of_run (run_logic_right_err _ t op l r lv σ σ1 σ' _ hl' hns hr)
  | @accessRef N calls σl last t r cur rest σ hcalls hacts hD ih =>
    intro F d h hd
    obtain ⟨σ', hr⟩ := run_of_errOf (show errOf (resolveRef (F + N) r) σ = some (.diag d) from ih F d h hd)
    have hlen := hD.acts.length (by rw [hacts]; exact List.cons_ne_nil _ _)
    have hpos : 0 < calls.length := List.length_pos_iff.mpr hcalls
    have hl' := (RTrace_resolveRef hr).length
    show errOf (evalExpr (F + (N + 1)) (.access t r)) σ = _
    rw [show F + (N + 1) = F + N + 1 by omega]
    exact errOf_of_run (run_access_ref_err _ t r σ σ' d hr (by omega))
  | @refField N calls σl last t r m σ hD ih =>
    intro F d h hd
    obtain ⟨σ', hr⟩ := run_of_errOf (show errOf (resolveRef (F + N) r) σ = some (.diag d) from ih F d h hd)
    show errOf (resolveRef (F + (N + 1)) (.field t r m)) σ = _
    rw [show F + (N + 1) = F + N + 1 by omega]
    exact errOf_of_run (run_ref_field_err _ t r m σ σ' _ hr)
  | @refDeref N calls σl last t r σ hD ih =>
    intro F d h hd
    obtain ⟨σ', hr⟩ := run_of_errOf (show errOf (resolveRef (F + N) r) σ = some (.diag d) from ih F d h hd)
    show errOf (resolveRef (F + (N + 1)) (.deref t r)) σ = _
    rw [show F + (N + 1) = F + N + 1 by omega]
    exact errOf_of_run (run_ref_deref_err _ t r σ σ' _ hr)
  | @refIndexBase N calls σl last t r idx σ hD ih =>
    intro F d h hd
    obtain ⟨σ', hr⟩ := run_of_errOf (show errOf (resolveRef (F + N) r) σ = some (.diag d) from ih F d h hd)
    show errOf (resolveRef (F + (N + 1)) (.index t r idx)) σ = _
    rw [show F + (N + 1) = F + N + 1 by omega]
    exact errOf_of_run (run_ref_index_base_err _ t r idx σ σ' _ hr)
  | @refIndex N calls σl last f t r idx hh ety dims cells σ σ1 hres harr hv hlen hD ih =>
    intro F d h hd
    have ih' : errOf (evalIndices (F + N + f) idx dims []) σ1 = some (.diag d) :=
      Code2.err_mono (.indices idx dims []) (g := F + N + f) (by omega) (ih F d h hd)
    obtain ⟨σ', hr⟩ := run_of_errOf ih'
    have hres' := ok_mono ((fuel_mono_all (by omega : f ≤ F + N + f)).resolveRef r) hres
    show errOf (resolveRef (F + (N + f + 1)) (.index t r idx)) σ = _
    rw [show F + (N + f + 1) = F + N + f + 1 by omega]
    exact errOf_of_run (run_ref_index_err _ t r idx hh ety dims cells σ σ1 σ' _ hres' harr hv hlen hr)
  | @idxHead N calls σl last e rest dims acc σ hD ih =>
    intro F d h hd
    obtain ⟨σ', hr⟩ := run_of_errOf (show errOf (evalExpr (F + N) e) σ = some (.diag d) from ih F d h hd)
    show errOf (evalIndices (F + (N + 1)) (e :: rest) dims acc) σ = _
    rw [show F + (N + 1) = F + N + 1 by omega]
    exact errOf_of_run (run_idx_head_err _ e rest dims acc σ σ' _ hr)
  | @idxNext N calls σl last f e rest dd ds acc i σ σ1 hv hin hD ih =>
    intro F d h hd
    have ih' : errOf (evalIndices (F + N + f) rest ds (i :: acc)) σ1 = some (.diag d) :=
      Code2.err_mono (.indices rest ds (i :: acc)) (g := F + N + f) (by omega) (ih F d h hd)
    obtain ⟨σ', hr⟩ := run_of_errOf ih'
    have hv' := ok_mono ((fuel_mono_all (by omega : f ≤ F + N + f)).evalExpr e) hv
    show errOf (evalIndices (F + (N + f + 1)) (e :: rest) (dd :: ds) acc) σ = _
    rw [show F + (N + f + 1) = F + N + f + 1 by omega]
    exact errOf_of_run ((run_idx_next _ e rest dd ds acc i σ σ1 hv' hin).trans hr)
  | @assignTarget N calls σl last f t r rhs rv cur rest σ σ1 hacts hrhs hnv hD ih =>
    intro F d h hd
    have ih' : errOf (resolveRef (F + N + f) r) σ1 = some (.diag d) :=
      Code2.err_mono (.ref r) (g := F + N + f) (by omega) (ih F d h hd)
    obtain ⟨σ', hr⟩ := run_of_errOf ih'
    have hrhs' := ok_mono ((fuel_mono_all (by omega : f ≤ F + N + f)).evalExpr rhs) hrhs
    show errOf (evalExpr (F + (N + f + 2)) (.assign t r rhs)) σ = _
    rw [show F + (N + f + 2) = F + N + f + 2 by omega]
    exact errOf_of_run (run_assign_target_err _ t r rhs σ σ1 σ' cur rest rv d hacts hrhs' hr hnv)
  | @ptrAssignL N calls σl last t r v σ hD ih =>
    intro F d h hd
    obtain ⟨σ', hr⟩ := run_of_errOf (show errOf (resolveRef (F + N) r) σ = some (.diag d) from ih F d h hd)
    show errOf (evalExpr (F + (N + 1)) (.ptrAssign t r v)) σ = _
    rw [show F + (N + 1) = F + N + 1 by omega]
    exact errOf_of_run (run_ptrAssign_left_err _ t r v σ σ' _ hr)
  | @ptrAssignR N calls σl last f t r v ph σ σ1 hp hna hD ih =>
    intro F d h hd
    have ih' : errOf (resolveRef (F + N + f) v) σ1 = some (.diag d) :=
      Code2.err_mono (.ref v) (g := F + N + f) (by omega) (ih F d h hd)
    obtain ⟨σ', hr⟩ := run_of_errOf ih'
    have hp' := ok_mono ((fuel_mono_all (by omega : f ≤ F + N + f)).resolveRef r) hp
    show errOf (evalExpr (F + (N + f + 1)) (.ptrAssign t r v)) σ = _
    rw [show F + (N + f + 1) = F + N + f + 1 by omega]
    exact errOf_of_run (run_ptrAssign_right_err _ t r v ph σ σ1 σ' _ hp' hna hr)
  | @inputRef N calls σl last t r cur rest σ hcalls hacts hsteps hD ih =>
    intro F d h hd
    obtain ⟨σ', hr⟩ := run_of_errOf (show errOf (resolveRef (F + N) r) (tickSt σ) = some (.diag d) from ih F d h hd)
    have hacts' : (tickSt σ).acts = cur :: rest := hacts
    have hlen := hD.acts.length (by rw [hacts']; exact List.cons_ne_nil _ _)
    have hpos : 0 < calls.length := List.length_pos_iff.mpr hcalls
    have hl' := (RTrace_resolveRef hr).length
    show errOf (execStmt (F + (N + 1)) (.input t r)) σ = _
    rw [show F + (N + 1) = F + N + 1 by omega]
    exact errOf_of_run (run_input_ref_err _ t r σ σ' d hsteps hr (by omega))
  | @caseLabel N calls σl last v cl rest σ hD ih =>
    intro F d h hd
    obtain ⟨σ', hr⟩ := run_of_errOf (show errOf (Pseudo.caseMatch (F + N) v cl) σ = some (.diag d) from ih F d h hd)
    show errOf (caseClauses (F + (N + 1)) v (cl :: rest)) σ = _
    rw [show F + (N + 1) = F + N + 1 by omega]
    exact errOf_of_run (run_case_label_err _ v cl rest σ σ' _ hr)
  | @caseEq N calls σl last v e b σ hD ih =>
    intro F d h hd
    obtain ⟨σ', hr⟩ := run_of_errOf (show errOf (evalExpr (F + N) e) σ = some (.diag d) from ih F d h hd)
    show errOf (Pseudo.caseMatch (F + (N + 1)) v (.eq e b)) σ = _
    rw [show F + (N + 1) = F + N + 1 by omega]
    exact errOf_of_run (run_caseMatch_eq_err _ v e b σ σ' _ hr)
  | @caseLo N calls σl last v lo hi b σ hnum hD ih =>
    intro F d h hd
    obtain ⟨σ', hr⟩ := run_of_errOf (show errOf (evalExpr (F + N) lo) σ = some (.diag d) from ih F d h hd)
    show errOf (Pseudo.caseMatch (F + (N + 1)) v (.range lo hi b)) σ = _
    rw [show F + (N + 1) = F + N + 1 by omega]
    exact errOf_of_run (run_caseMatch_lo_err _ v lo hi b σ σ' _ hnum hr)
  | @caseHi N calls σl last f v l lo hi b σ σ1 hnum hl hnl hD ih =>
    intro F d h hd
    have ih' : errOf (evalExpr (F + N + f) hi) σ1 = some (.diag d) :=
      Code2.err_mono (.expr hi) (g := F + N + f) (by omega) (ih F d h hd)
    obtain ⟨σ', hr⟩ := run_of_errOf ih'
    have hl' := ok_mono ((fuel_mono_all (by omega : f ≤ F + N + f)).evalExpr lo) hl
    show errOf (Pseudo.caseMatch (F + (N + f + 1)) v (.range lo hi b)) σ = _
    rw [show F + (N + f + 1) = F + N + f + 1 by omega]
    exact errOf_of_run (run_caseMatch_hi_err _ v l lo hi b σ σ1 σ' _ hnum hl' hnl hr)
  | @fileS N calls σl last s t fn σ hs hsteps hD ih =>
    intro F d h hd
    obtain ⟨σ', hr⟩ := run_of_errOf (show errOf (Pseudo.fileName (F + N) t fn) (tickSt σ) = some (.diag d) from ih F d h hd)
    show errOf (execStmt (F + (N + 1)) s) σ = _
    rw [show F + (N + 1) = F + N + 1 by omega]
    exact errOf_of_run (run_fileStmt_name_err _ s t fn σ σ' _ hs hsteps hr)
  | @fileNameE N calls σl last t e σ hD ih =>
    intro F d h hd
    obtain ⟨σ', hr⟩ := run_of_errOf (show errOf (evalExpr (F + N) e) σ = some (.diag d) from ih F d h hd)
    show errOf (Pseudo.fileName (F + (N + 1)) t e) σ = _
    rw [show F + (N + 1) = F + N + 1 by omega]
    exact errOf_of_run (run_fileName_err _ t e σ σ' _ hr)
  | @writeData N calls σl last f t fn e name σ σ1 hsteps hn hpre hD ih =>
    intro F d h hd
    have ih' : errOf (evalExpr (F + N + f) e) σ1 = some (.diag d) :=
      Code2.err_mono (.expr e) (g := F + N + f) (by omega) (ih F d h hd)
    obtain ⟨σ', hr⟩ := run_of_errOf ih'
    have hn' := ok_mono ((fuel_mono_all (by omega : f ≤ F + N + f)).fileName t fn) hn
    show errOf (execStmt (F + (N + f + 1)) (.writeFile t fn e)) σ = _
    rw [show F + (N + f + 1) = F + N + f + 1 by omega]
    exact errOf_of_run (run_writeFile_data_err _ t fn e name σ σ1 σ' _ hsteps hn' hpre hr)
  | @seekAddr N calls σl last t fn addr σ hsteps hD ih =>
    intro F d h hd
    obtain ⟨σ', hr⟩ := run_of_errOf (show errOf (evalExpr (F + N) addr) (tickSt σ) = some (.diag d) from ih F d h hd)
    show errOf (execStmt (F + (N + 1)) (.seek t fn addr)) σ = _
    rw [show F + (N + 1) = F + N + 1 by omega]
    exact errOf_of_run (run_seek_addr_err _ t fn addr σ σ' _ hsteps hr)
  | @seekName N calls σl last f t fn addr a σ σ1 hsteps ha hge hD ih =>
    intro F d h hd
    have ih' : errOf (Pseudo.fileName (F + N + f) t fn) σ1 = some (.diag d) :=
      Code2.err_mono (.fileName t fn) (g := F + N + f) (by omega) (ih F d h hd)
    obtain ⟨σ', hr⟩ := run_of_errOf ih'
    have ha' := ok_mono ((fuel_mono_all (by omega : f ≤ F + N + f)).evalExpr addr) ha
    show errOf (execStmt (F + (N + f + 1)) (.seek t fn addr)) σ = _
    rw [show F + (N + f + 1) = F + N + f + 1 by omega]
    exact errOf_of_run (run_seek_name_err _ t fn addr a σ σ1 σ' _ hsteps ha' hge hr)
  | @declBounds N calls σl last t ids ty bounds a r σ hsteps hacts hnew hD ih =>
    intro F d h hd
    obtain ⟨σ', hr⟩ := run_of_errOf (show errOf (evalBounds (F + N) bounds []) (tickSt σ) = some (.diag d) from ih F d h hd)
    show errOf (execStmt (F + (N + 1)) (.declareArr t ids ty bounds)) σ = _
    rw [show F + (N + 1) = F + N + 1 by omega]
    exact errOf_of_run (run_declareArr_bounds_err _ t ids ty bounds a r σ σ' _ hsteps hacts hnew hr)
  | @boundLo N calls σl last lo hi rest acc σ hD ih =>
    intro F d h hd
    obtain ⟨σ', hr⟩ := run_of_errOf (show errOf (evalExpr (F + N) lo) σ = some (.diag d) from ih F d h hd)
    show errOf (evalBounds (F + (N + 1)) ((lo, hi) :: rest) acc) σ = _
    rw [show F + (N + 1) = F + N + 1 by omega]
    exact errOf_of_run (run_bounds_lo_err _ lo hi rest acc σ σ' _ hr)
  | @boundHi N calls σl last f lo hi rest acc a σ σ1 hl hD ih =>
    intro F d h hd
    have ih' : errOf (evalExpr (F + N + f) hi) σ1 = some (.diag d) :=
      Code2.err_mono (.expr hi) (g := F + N + f) (by omega) (ih F d h hd)
    obtain ⟨σ', hr⟩ := run_of_errOf ih'
    have hl' := ok_mono ((fuel_mono_all (by omega : f ≤ F + N + f)).evalExpr lo) hl
    show errOf (evalBounds (F + (N + f + 1)) ((lo, hi) :: rest) acc) σ = _
    rw [show F + (N + f + 1) = F + N + f + 1 by omega]
    exact errOf_of_run (run_bounds_hi_err _ lo hi rest acc a σ σ1 σ' _ hl' hr)
  | @boundNext N calls σl last f lo hi rest acc a b σ σ1 σ2 hl hh hab hD ih =>
    intro F d h hd
    have ih' : errOf (evalBounds (F + N + f) rest ((a, b) :: acc)) σ2 = some (.diag d) :=
      Code2.err_mono (.bounds rest ((a, b) :: acc)) (g := F + N + f) (by omega) (ih F d h hd)
    obtain ⟨σ', hr⟩ := run_of_errOf ih'
    have hm := fuel_mono_all (by omega : f ≤ F + N + f)
    have hl' := ok_mono (hm.evalExpr lo) hl
    have hh' := ok_mono (hm.evalExpr hi) hh
    show errOf (evalBounds (F + (N + f + 1)) ((lo, hi) :: rest) acc) σ = _
    rw [show F + (N + f + 1) = F + N + f + 1 by omega]
    exact errOf_of_run ((run_bounds_next _ lo hi rest acc a b σ σ1 σ2 hl' hh' hab).trans hr)
  | @constE N calls σl last t name e σ hsteps hD ih =>
    intro F d h hd
    obtain ⟨σ', hr⟩ := run_of_errOf (show errOf (evalExpr (F + N) e) (tickSt σ) = some (.diag d) from ih F d h hd)
    show errOf (execStmt (F + (N + 1)) (.const t name e)) σ = _
    rw [show F + (N + 1) = F + N + 1 by omega]
    exact errOf_of_run (run_const_err _ t name e σ σ' _ hsteps hr)
  | @forStart N calls σl last t it start stop step b l σ σ1 hsteps hit hconst hD ih =>
    intro F d h hd
    obtain ⟨σ', hr⟩ := run_of_errOf (show errOf (evalExpr (F + N) start) σ1 = some (.diag d) from ih F d h hd)
    show errOf (execStmt (F + (N + 1)) (.for t it start stop step b)) σ = _
    rw [show F + (N + 1) = F + N + 1 by omega]
    exact errOf_of_run ((run_for_prefix _ t it start stop step b l σ σ1 hsteps hit hconst).trans
      (run_forRest_start_err _ t l start stop step b σ1 σ' _ hr))
  | @forStop N calls σl last f t it start stop step b l a σ σ1 σ2 hsteps hit hconst hs hD ih =>
    intro F d h hd
    have ih' : errOf (evalExpr (F + N + f) stop) σ2 = some (.diag d) :=
      Code2.err_mono (.expr stop) (g := F + N + f) (by omega) (ih F d h hd)
    obtain ⟨σ', hr⟩ := run_of_errOf ih'
    have hs' := ok_mono ((fuel_mono_all (by omega : f ≤ F + N + f)).evalExpr start) hs
    show errOf (execStmt (F + (N + f + 1)) (.for t it start stop step b)) σ = _
    rw [show F + (N + f + 1) = F + N + f + 1 by omega]
    exact errOf_of_run ((run_for_prefix _ t it start stop step b l σ σ1 hsteps hit hconst).trans
      (run_forRest_stop_err _ t l start stop step b a σ1 σ2 σ' _ hs' hr))
  | @forStep N calls σl last f t it start stop se b l a bnd σ σ1 σ2 σ3 hsteps hit hconst hs he hD ih =>
    intro F d h hd
    have ih' : errOf (evalExpr (F + N + f) se) σ3 = some (.diag d) :=
      Code2.err_mono (.expr se) (g := F + N + f) (by omega) (ih F d h hd)
    obtain ⟨σ', hr⟩ := run_of_errOf ih'
    have hm := fuel_mono_all (by omega : f ≤ F + N + f)
    have hs' := ok_mono (hm.evalExpr start) hs
    have he' := ok_mono (hm.evalExpr stop) he
    show errOf (execStmt (F + (N + f + 1)) (.for t it start stop (some se) b)) σ = _
    rw [show F + (N + f + 1) = F + N + f + 1 by omega]
    exact errOf_of_run ((run_for_prefix _ t it start stop (some se) b l σ σ1 hsteps hit hconst).trans
      (run_forRest_step_err _ t l start stop se b a bnd σ1 σ2 σ3 σ' _ hs' he' hr))
  | @forS N calls σl last f t it start stop step b l a bnd k σ σ1 σ2 σ3 σ4 σ5 hsteps hit hconst hs he hk hw hD ih =>
    intro F d h hd
    have ih' : errOf (forLoop (F + N + f) t l bnd k b) σ5 = some (.diag d) :=
      Code2.err_mono (.forLoop t l bnd k b) (g := F + N + f) (by omega) (ih F d h hd)
    obtain ⟨σ', hr⟩ := run_of_errOf ih'
    have hm := fuel_mono_all (by omega : f ≤ F + N + f)
    have hs' := ok_mono (hm.evalExpr start) hs
    have he' := ok_mono (hm.evalExpr stop) he
    have hk' := hk.mono (by omega : f ≤ F + N + f)
    show errOf (execStmt (F + (N + f + 1)) (.for t it start stop step b)) σ = _
    rw [show F + (N + f + 1) = F + N + f + 1 by omega]
    exact errOf_of_run ((run_for_prefix _ t it start stop step b l σ σ1 hsteps hit hconst).trans
      (run_forRest_loop _ t l start stop step b a bnd k σ1 σ2 σ3 σ4 σ5 σ' _ hs' he' hk' hw hr))
  | @callBind N calls σl last f t name args σ σ1 pd vals cur rest hsteps hpd hargs hlen hdepth hcur hD ih =>
    intro F d h hd
    have ih' : errOf (bindParams (F + N + f) t pd.params args vals []) σ1 = some (.diag d) :=
      Code2.err_mono (.bind t pd.params args vals []) (g := F + N + f) (by omega) (ih F d h hd)
    obtain ⟨σ', hr⟩ := run_of_errOf ih'
    have hargs' := ok_mono ((fuel_mono_all (by omega : f ≤ F + N + f)).evalArgs args []) hargs
    show errOf (execStmt (F + (N + f + 2)) (.call t name args)) σ = _
    rw [show F + (N + f + 2) = F + N + f + 2 by omega]
    exact errOf_of_run (run_call_bind_err _ t name args σ σ1 σ' pd vals cur rest _ hsteps hpd hargs' hlen hdepth hcur hr)
  | @callFBind N calls σl last f t args σ σ1 fd vals cur rest hfd hargs hlen hdepth hcur hD ih =>
    intro F d h hd
    have ih' : errOf (bindParams (F + N + f) t fd.params args vals []) σ1 = some (.diag d) :=
      Code2.err_mono (.bind t fd.params args vals []) (g := F + N + f) (by omega) (ih F d h hd)
    obtain ⟨σ', hr⟩ := run_of_errOf ih'
    have hargs' := ok_mono ((fuel_mono_all (by omega : f ≤ F + N + f)).evalArgs args []) hargs
    show errOf (evalExpr (F + (N + f + 2)) (.call t args)) σ = _
    rw [show F + (N + f + 2) = F + N + f + 2 by omega]
    exact errOf_of_run (run_callFun_bind_err _ t args σ σ1 σ' fd vals cur rest _ hfd hargs' hlen hdepth hcur hr)
  | @bindRef N calls σl last t pn pty ps at' r es v vs acc σ hty hD ih =>
    intro F d h hd
    obtain ⟨σ', hr⟩ := run_of_errOf (show errOf (resolveRef (F + N) r) σ = some (.diag d) from ih F d h hd)
    show errOf (bindParams (F + (N + 1)) t ((pn, pty, true) :: ps) (.access at' r :: es) (v :: vs) acc) σ = _
    rw [show F + (N + 1) = F + N + 1 by omega]
    exact errOf_of_run (run_bind_ref_err _ t pn pty ps at' r es v vs acc σ σ' _ hty hr)
  | @bindVal N calls σl last t pn pty ps e es v vs acc σ hty hD ih =>
    intro F d h hd
    show errOf (bindParams (F + (N + 1)) t ((pn, pty, false) :: ps) (e :: es) (v :: vs) acc) σ = _
    rw [show F + (N + 1) = F + N + 1 by omega, run_bind_next_val _ t pn pty ps e es v vs acc hty]
    exact ih F d h hd
  | @bindNextRef N calls σl last f t pn pty ps at' r es v vs acc hh σ σ1 hty hres hna hhty hD ih =>
    intro F d h hd
    have ih' := Code2.err_mono (.bind t ps es vs ({ name := pn, ty := hh.ty, isConst := locConstP σ1 hh.loc, val := .none, ref := some hh.loc } :: acc))
      (g := F + N + f) (by omega) (ih F d h hd)
    obtain ⟨σ', hr⟩ := run_of_errOf ih'
    have hres' := ok_mono ((fuel_mono_all (by omega : f ≤ F + N + f)).resolveRef r) hres
    show errOf (bindParams (F + (N + f + 1)) t ((pn, pty, true) :: ps) (.access at' r :: es) (v :: vs) acc) σ = _
    rw [show F + (N + f + 1) = F + N + f + 1 by omega]
    exact errOf_of_run ((run_bind_next_ref _ t pn pty ps at' r es v vs acc hh σ σ1 hty hres' hna hhty).trans hr)

end TraceChain2

end Pseudo
