import PseudoProofs.NoCrashLPrims
import PseudoProofs.NoCrashLLoad
/-!
# C01 with TYPE statements anywhere: the primitives in the Hoare layer, part 2: readable values are fine in the scope of their
activation, values of global types cross scopes, `writeLoc`
-/
namespace Pseudo.NL
open Pseudo
open Pseudo.NC (ReadsIn ActRead ErrOK ErrNR NoCrash RO EOK readsIn_iff mem_updActs updActs_ne_nil errOK_diag errNR_diag errOK_fuel
  errNR_fuel errOK_brk errOK_cont getLast?_mem ro_findAct ro_isLive ro_rtErr ro_rtErr0 ro_pedErr ro_liftMsg ro_liftMsg0 ro_readLoc
  ro_locIsConst ro_filePre ro_writeText ro_get getPath_nil setPath_nil getPath_arr_cons getPath_arr_field setPath_arr_cons
  findSlot_name findSlot_mem findSlot_cons findSlot_updSlot_eq findSlot_updSlot_ne mem_updSlot findSlot_append getPath_append)
open Pseudo.NR (litDims declStmt declBody NArr Kind kind SameKind sigOf SigDefined Live genums gptrs gcomps kind_val_narr
  kind_of_narr kind_arr_inv)

set_option linter.unusedSectionVars false

section
variable {α β : Type} {σ : St} {E : St → Stop → Prop} [EOK E]

theorem SlotOK.good {k : Nat} {d : List Act} {s : Slot} (h : SlotOK σ k d s) : Good σ k s.val := by
  unfold SlotOK at h
  split at h
  · exact h.2
  · rw [h.1]; exact good_none

/-- the value of a slot found in a live activation is fine in the scope of that activation -/
theorem slot_good (hW : WF σ) {a : Act} (ha : a ∈ σ.acts) {l : Loc} {s : Slot} (h2 : slotOf a l = some s) :
    Good σ (scopeAt σ a.id) s.val := by
  obtain ⟨deeper0, hok0⟩ := hW.memOK ha
  unfold slotOf at h2
  cases hl : l.isArr
  · rw [hl] at h2
    exact (hok0.vars s (findSlot_mem h2)).good
  · rw [hl] at h2
    exact (hok0.arrs s (findSlot_mem h2)).1.2

/-- **every readable value is fine in the scope of its activation** -/
theorem WF.reads_good (hW : WF σ) {l : Loc} {w : Val} (h : ReadsIn σ.acts l w) : Good σ (scopeAt σ l.act) w := by
  obtain ⟨a, s, h1, h2, h3⟩ := h
  have haid : a.id = l.act := by simpa using List.find?_some h1
  rw [← haid]
  exact (slot_good hW (List.mem_of_find?_eq_some h1) h2).sub h3

/-- a readable value of a global type, or one of this scope, is fine in scope `k` -/
theorem WF.reads_in (hW : WF σ) {k : Nat} (hk : SV σ k) {l : Loc} {w : Val} (h : ReadsIn σ.acts l w)
    (hc : KG σ (kind w) ∨ scopeAt σ l.act = k) : Good σ k w := by
  rcases hc with hc | hc
  · exact (hW.reads_good h).move hW (scopeAt_sv σ _) hk hc
  · rw [← hc]; exact hW.reads_good h

/-- a value of scope `k` may be stored at a location of scope `k`, or anywhere if its type is global -/
theorem good_for_write (hW : WF σ) {k : Nat} (hk : SV σ k) {v : Val} (hv : Good σ k v) (id : Nat)
    (hc : KG σ (kind v) ∨ scopeAt σ id = k) : Good σ (scopeAt σ id) v := by
  rcases hc with hc | hc
  · exact hv.move hW hk (scopeAt_sv σ _) hc
  · rw [hc]; exact hv

/-- **`writeLoc` at a readable location with a good value of the same kind** -/
theorem run_writeLoc (hW : WF σ) (t : Tok) {l : Loc} {old : Val} (v : Val) (hr : ReadsIn σ.acts l old)
    (k : SameKind old v) (hv : Good σ (scopeAt σ l.act) v) : Run (writeLoc t l v) σ (ResE σ (fun _ _ => True) E) := by
  obtain ⟨a, s, h1, h2, h3⟩ := hr
  have ha : a ∈ σ.acts := List.mem_of_find?_eq_some h1
  have haid : a.id = l.act := by simpa using List.find?_some h1
  have hsg := slot_good hW ha h2
  rw [haid] at hsg
  obtain ⟨nv, hset, knv, hnvg, hpaths⟩ := setPath_good l.path hsg h3 k hv
  have hf : (findAct l.act).run.run σ = (.ok (some a), σ) := by
    show (Except.ok (σ.acts.find? (·.id == l.act)), σ) = _
    rw [h1]
  unfold writeLoc Run
  rw [run_bind_ok _ _ _ _ _ hf]
  dsimp only
  rw [h2]
  dsimp only
  by_cases hc : s.isConst = true
  · rw [if_pos hc]
    exact Run.of_ro (m := rtErr t .constAssign) hW (Ext.refl σ) (EOK.of_nr σ) (ro_rtErr _ _ (fun _ => False))
      (fun _ h => h.elim)
  · rw [if_neg hc, hset]
    dsimp only
    let g : Act → Act := fun a =>
      if l.isArr then { a with arrs := updSlot a.arrs l.name (fun s => { s with val := nv }) }
      else { a with vars := updSlot a.vars l.name (fun s => { s with val := nv }) }
    have hgd : ∀ b, (g b).enums = b.enums ∧ (g b).ptrs = b.ptrs ∧ (g b).comps = b.comps := by
      intro b; simp only [g]; split <;> exact ⟨rfl, rfl, rfl⟩
    have hgid : ∀ b, (g b).id = b.id := by
      intro b; simp only [g]; split <;> rfl
    have hkeep : ∀ b ∈ σ.acts, b.id = a.id → ActKeep b (g b) := by
      intro b hb hid
      have : b = a := hW.act_unique hb ha hid
      subst this
      refine ⟨by simp only [g]; split <;> rfl, ?_⟩
      intro isArr name path v0 ⟨s0, hs0, hp0⟩
      unfold slotOf at h2
      by_cases hsame : isArr = l.isArr ∧ name = l.name
      · obtain ⟨rfl, rfl⟩ := hsame
        have hss : s = s0 := by rw [h2] at hs0; exact Option.some.inj hs0
        subst hss
        obtain ⟨v', hv', kv⟩ := hpaths path v0 hp0
        refine ⟨v', ⟨{ s with val := nv }, ?_, hv'⟩, kv⟩
        simp only [g]
        cases hl : l.isArr
        · rw [hl] at h2
          simp only [Bool.false_eq_true, if_false]
          exact findSlot_updSlot_eq (f := fun s => { s with val := nv }) h2 (fun _ => rfl)
        · rw [hl] at h2
          simp only [if_true]
          exact findSlot_updSlot_eq (f := fun s => { s with val := nv }) h2 (fun _ => rfl)
      · refine ⟨v0, ⟨s0, ?_, hp0⟩, NR.SameKind.refl v0⟩
        simp only [g]
        cases hl : l.isArr <;> cases hi : isArr <;> rw [hi] at hs0 <;>
          simp only [Bool.false_eq_true, if_false, if_true] at hs0 ⊢
        · have : name ≠ l.name := fun e => hsame ⟨by rw [hi, hl], e⟩
          rw [findSlot_updSlot_ne (f := fun s => { s with val := nv }) (fun _ => rfl) this]; exact hs0
        · exact hs0
        · exact hs0
        · have : name ≠ l.name := fun e => hsame ⟨by rw [hi, hl], e⟩
          rw [findSlot_updSlot_ne (f := fun s => { s with val := nv }) (fun _ => rfl) this]; exact hs0
    have hokg : ∀ deeper b, b ∈ σ.acts → b.id = a.id → ActOK σ (scopeAt σ a.id) deeper b → ActOK σ (scopeAt σ a.id) deeper (g b) := by
      intro deeper b hb hid hokb
      have : b = a := hW.act_unique hb ha hid
      subst this
      unfold slotOf at h2
      cases hl : l.isArr
      · rw [hl] at h2
        simp only [Bool.false_eq_true, if_false] at h2
        have hg : g b = { b with vars := updSlot b.vars l.name (fun s => { s with val := nv }) } := by
          simp only [g, hl, Bool.false_eq_true, if_false]
        rw [hg]
        refine ⟨fun s' hs' => ?_, hokb.arrs, ⟨hokb.defs.enums, hokb.defs.ptrs, hokb.defs.comps⟩, hokb.disj, hokb.compDefs,
          fun hcp s' hs' => ?_, hokb.glob, hokb.retVal⟩
        · rcases mem_updSlot hs' with hs' | ⟨s0, hs0, rfl⟩
          · exact hokb.vars s' hs'
          · have hss : s = s0 := by rw [h2] at hs0; exact Option.some.inj hs0
            subst hss
            have hso := hokb.vars s (findSlot_mem h2)
            cases hr : s.ref with
            | none =>
              simp only [SlotOK, hr] at hso ⊢
              exact ⟨Eq.trans knv hso.1, by rw [haid]; exact hnvg⟩
            | some l' =>
              simp only [SlotOK, hr] at hso ⊢
              refine ⟨?_, hso.2⟩
              have hkn : kind nv = .val .none := by rw [knv, hso.1]; rfl
              have := kind_val_narr hkn
              cases nv <;> simp_all [Val.ty, NArr]
        · rcases mem_updSlot hs' with hs' | ⟨s0, hs0, rfl⟩
          · exact hokb.compRef hcp s' hs'
          · exact hokb.compRef hcp s0 (findSlot_mem hs0)
      · rw [hl] at h2
        simp only [if_true] at h2
        have hg : g b = { b with arrs := updSlot b.arrs l.name (fun s => { s with val := nv }) } := by
          simp only [g, hl, if_true]
        rw [hg]
        refine ⟨hokb.vars, fun s' hs' => ?_, ⟨hokb.defs.enums, hokb.defs.ptrs, hokb.defs.comps⟩, hokb.disj, hokb.compDefs,
          hokb.compRef, hokb.glob, hokb.retVal⟩
        rcases mem_updSlot hs' with hs' | ⟨s0, hs0, rfl⟩
        · exact hokb.arrs s' hs'
        · have hss : s = s0 := by rw [h2] at hs0; exact Option.some.inj hs0
          subst hss
          have hso := hokb.arrs s (findSlot_mem h2)
          obtain ⟨d, hd⟩ := hso.1.1
          exact ⟨⟨⟨d, Eq.trans knv hd⟩, by rw [haid]; exact hnvg⟩, hso.2⟩
    show Run (modifyAct a.id g) σ (ResE σ (fun _ _ => True) E)
    refine (run_modifyAct (E := E) hW a.id g hkeep hokg hgid hgd).mono ?_
    exact fun _ _ h => h.weaken (fun _ _ => trivial) (fun _ e => e)

end

end Pseudo.NL
