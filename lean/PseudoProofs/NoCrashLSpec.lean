import PseudoProofs.NoCrashLPrims2
/-!
# C01 with TYPE statements anywhere: the triples proved by induction on the fuel, and helpers for the step lemmas
(the analogue of `NoCrashRSpec.lean`)

All functions that evaluate expressions or run general statements have the precondition `NTop` (the top activation is not a record
context): then `tscope σ` is the id of the top activation and `scopeAct`, `typeScopeAct`, `curAct` all denote it.  The functions on
the *declaration path* (`runBlock` / `execStmt` on DECLAREs, `declareVars`, `declareArrs`, `defaultVal`, `defaultCells`) also run
inside record contexts (while a TYPE body is executed); they are specified relative to `tscope σ` and say which variables / arrays
they add to the top activation (`Frame`).
-/
namespace Pseudo.NL
open Pseudo
open Pseudo.NC (ReadsIn ActRead ErrOK ErrNR NoCrash RO EOK errOK_diag errNR_diag errOK_fuel errNR_fuel errOK_brk errOK_cont
  getLast?_mem ro_findAct ro_isLive ro_rtErr ro_rtErr0 ro_pedErr ro_liftMsg ro_liftMsg0 ro_readLoc ro_locIsConst ro_filePre
  ro_writeText ro_get getPath_nil findSlot_name findSlot_mem lookupVarIn_some lookupArrIn_some lookupVarIn_none top_mem
  getPath_append)
open Pseudo.NR (litDims declStmt declBody NArr Kind kind SameKind sigOf SigDefined Live genums gptrs gcomps kind_val_narr
  kind_of_narr kind_arr_inv)

/-- non-array values that are fine in the current scope -/
def AllOK (σ : St) (vs : List Val) : Prop := ∀ v ∈ vs, NArr v = true ∧ Good σ (tscope σ) v
def CellsOK (σ : St) (k : Nat) (ty : Ty) (vs : List Val) : Prop := ∀ c ∈ vs, CellOK σ k ty c

/-- a slot that is fit to become a variable of a new activation: its value is fine in the global scope, an alias has a global type -/
def SlotG (σ : St) (s : Slot) : Prop :=
  match s.ref with
  | none => kind s.val = .val s.ty ∧ Good σ (gid σ) s.val
  | some l => s.val = .none ∧ (∃ v, ReadsIn σ.acts l v ∧ kind v = .val s.ty) ∧ TyG σ s.ty
def SlotsOK (σ : St) (ss : List Slot) : Prop := ∀ s ∈ ss, SlotG σ s

theorem AllOK.ext {σ σ' : St} {vs : List Val} (hE : Ext σ σ') (h : AllOK σ vs) : AllOK σ' vs :=
  fun v hv => ⟨(h v hv).1, by rw [hE.tscope]; exact (h v hv).2.ext hE⟩
theorem CellsOK.ext {σ σ' : St} {k : Nat} {ty : Ty} {vs : List Val} (hE : Ext σ σ') (h : CellsOK σ k ty vs) :
    CellsOK σ' k ty vs := fun v hv => (h v hv).ext hE

theorem SlotG.ext {σ σ' : St} {s : Slot} (hE : Ext σ σ') (h : SlotG σ s) : SlotG σ' s := by
  unfold SlotG at *
  split
  · rename_i hr; rw [hr] at h; exact ⟨h.1, by rw [hE.gid]; exact h.2.ext hE⟩
  · rename_i l hr
    rw [hr] at h
    obtain ⟨hsv, ⟨v, hv, hk⟩, hg⟩ := h
    obtain ⟨v', hv', k⟩ := hE.reads _ _ hv
    exact ⟨hsv, ⟨v', hv', Eq.trans k hk⟩, TyG.ext hE hg⟩

theorem SlotsOK.ext {σ σ' : St} {ss : List Slot} (hE : Ext σ σ') (h : SlotsOK σ ss) : SlotsOK σ' ss :=
  fun s hs => (h s hs).ext hE

/-! ### frames -/

def varsSig (a : Act) : List (Str × Kind) := a.vars.map fun s => (s.name, Kind.val s.ty)
def arrsSig (a : Act) : List (Str × Kind) := a.arrs.map fun s => (s.name, kind s.val)
def sigs (a : Act) : List (Str × Kind) × List (Str × Kind) × Bool := (varsSig a, arrsSig a, a.isComp)

/-- id and type definitions of an activation -/
def dh (a : Act) : Nat × List (Str × List Str) × List (Str × Ty) × List (Str × Block) := (a.id, a.enums, a.ptrs, a.comps)

/-- the type definitions of all activations are unchanged -/
def DefsSame (σ σ' : St) : Prop := σ'.acts.map dh = σ.acts.map dh

/-- the top activation got the new variables `nv` and arrays `na`; the signatures of the other activations and the type
    definitions are unchanged -/
def Frame (σ σ' : St) (nv na : List (Str × Kind)) : Prop :=
  DefsSame σ σ' ∧ SigDefined nv ∧ SigDefined na ∧ ∃ a rest a' rest', σ.acts = a :: rest ∧ σ'.acts = a' :: rest' ∧
    varsSig a' = varsSig a ++ nv ∧ arrsSig a' = arrsSig a ++ na ∧ a'.isComp = a.isComp ∧ rest'.map sigs = rest.map sigs

theorem DefsSame.refl (σ : St) : DefsSame σ σ := rfl
theorem DefsSame.trans {a b c : St} (h1 : DefsSame a b) (h2 : DefsSame b c) : DefsSame a c := Eq.trans h2 h1

theorem find_of_dh : ∀ {acts acts' : List Act}, acts'.map dh = acts.map dh → ∀ k,
    (acts'.find? (·.id == k)).map dh = (acts.find? (·.id == k)).map dh
  | [], [], _, _ => rfl
  | [], _ :: _, h, _ => by cases h
  | _ :: _, [], h, _ => by cases h
  | a :: r, a' :: r', h, k => by
    simp only [List.map_cons, List.cons.injEq] at h
    have hid : a'.id = a.id := congrArg (·.1) h.1
    simp only [List.find?, hid]
    cases a.id == k with
    | true => simp [h.1]
    | false => exact find_of_dh h.2 k

theorem opt_sel {γ : Type} (sel : Act → γ) (d : γ) (hsel : ∀ a b, dh a = dh b → sel a = sel b) {o o' : Option Act}
    (h : o'.map dh = o.map dh) : (o'.map sel).getD d = (o.map sel).getD d := by
  cases o' <;> cases o <;> simp at h
  · rfl
  · exact hsel _ _ h

theorem gid_eq_getD (σ : St) : gid σ = ((σ.acts.getLast?).map (·.id)).getD 0 := by
  unfold gid; cases σ.acts.getLast? <;> rfl

/-- with the same definitions all lookups agree -/
theorem DefsSame.lookups {σ σ' : St} (h : DefsSame σ σ') :
    (∀ k n, enumLk σ' k n = enumLk σ k n) ∧ (∀ k n, ptrLk σ' k n = ptrLk σ k n) ∧ (∀ k n, compLk σ' k n = compLk σ k n) ∧
    (∀ k t, typeOfTok σ' k t = typeOfTok σ k t) ∧ gid σ' = gid σ := by
  have hl : (σ'.acts.getLast?).map dh = (σ.acts.getLast?).map dh := by
    have := congrArg List.getLast? h
    rwa [List.getLast?_map, List.getLast?_map] at this
  have hfind := find_of_dh h
  have g0 : gid σ' = gid σ := by
    rw [gid_eq_getD, gid_eq_getD]; exact opt_sel (·.id) 0 (fun _ _ e => congrArg (·.1) e) hl
  have g1 : genums σ' = genums σ := by
    rw [NR.genums_eq, NR.genums_eq]; exact opt_sel (·.enums) [] (fun _ _ e => congrArg (·.2.1) e) hl
  have g2 : gptrs σ' = gptrs σ := by
    rw [NR.gptrs_eq, NR.gptrs_eq]; exact opt_sel (·.ptrs) [] (fun _ _ e => congrArg (·.2.2.1) e) hl
  have g3 : gcomps σ' = gcomps σ := by
    rw [NR.gcomps_eq, NR.gcomps_eq]; exact opt_sel (·.comps) [] (fun _ _ e => congrArg (·.2.2.2) e) hl
  have l1 : ∀ k, lenums σ' k = lenums σ k := fun k => by
    rw [lenums_eq, lenums_eq]; exact opt_sel (·.enums) [] (fun _ _ e => congrArg (·.2.1) e) (hfind k)
  have l2 : ∀ k, lptrs σ' k = lptrs σ k := fun k => by
    rw [lptrs_eq, lptrs_eq]; exact opt_sel (·.ptrs) [] (fun _ _ e => congrArg (·.2.2.1) e) (hfind k)
  have l3 : ∀ k, lcomps σ' k = lcomps σ k := fun k => by
    rw [lcomps_eq, lcomps_eq]; exact opt_sel (·.comps) [] (fun _ _ e => congrArg (·.2.2.2) e) (hfind k)
  obtain ⟨a, b, c, d⟩ := lookups_of_lists l1 l2 l3 g1 g2 g3 g0
  exact ⟨a, b, c, d, g0⟩

theorem DefsSame.memSig {σ σ' : St} (h : DefsSame σ σ') (k : Nat) (b : List Stmt) : memSig σ' k b = memSig σ k b :=
  memSig_of_toks (h.lookups.2.2.2.1 k) b

theorem DefsSame.scalSig {σ σ' : St} (h : DefsSame σ σ') (k : Nat) : ∀ b : List Stmt, scalSig σ' k b = scalSig σ k b
  | [] => rfl
  | st :: r => by cases st <;> simp only [NL.scalSig, DefsSame.scalSig h k r, h.lookups.2.2.2.1 k]

theorem DefsSame.arrSig {σ σ' : St} (h : DefsSame σ σ') (k : Nat) : ∀ b : List Stmt, arrSig σ' k b = arrSig σ k b
  | [] => rfl
  | st :: r => by cases st <;> simp only [NL.arrSig, DefsSame.arrSig h k r, h.lookups.2.2.2.1 k]

theorem DefsSame.of_acts_eq {σ σ' : St} (ha : σ'.acts = σ.acts) : DefsSame σ σ' := by unfold DefsSame; rw [ha]

theorem Frame.of_acts_eq {σ σ' : St} (hne : σ.acts ≠ []) (ha : σ'.acts = σ.acts) : Frame σ σ' [] [] := by
  refine ⟨DefsSame.of_acts_eq ha, fun _ h => (by cases h), fun _ h => (by cases h), ?_⟩
  cases h : σ.acts with
  | nil => exact absurd h hne
  | cons a rest => exact ⟨a, rest, a, rest, rfl, by rw [ha, h], by simp, by simp, rfl, rfl⟩

theorem Frame.refl {σ : St} (hne : σ.acts ≠ []) : Frame σ σ [] [] := Frame.of_acts_eq hne rfl

theorem Frame.trans {a b c : St} {nv1 na1 nv2 na2 : List (Str × Kind)} (h1 : Frame a b nv1 na1) (h2 : Frame b c nv2 na2) :
    Frame a c (nv1 ++ nv2) (na1 ++ na2) := by
  obtain ⟨d1, sv1, sa1, x, r, x', r', hx, hx', hv, har, hc1, hr⟩ := h1
  obtain ⟨d2, sv2, sa2, y, s, y', s', hy, hy', hv2, har2, hc2, hs⟩ := h2
  rw [hx'] at hy; cases hy
  refine ⟨d1.trans d2, ?_, ?_, x, r, y', s', hx, hy', by rw [hv2, hv, List.append_assoc], by rw [har2, har, List.append_assoc],
    hc2.trans hc1, hs.trans hr⟩
  · intro e he; rcases List.mem_append.1 he with he | he; exact sv1 e he; exact sv2 e he
  · intro e he; rcases List.mem_append.1 he with he | he; exact sa1 e he; exact sa2 e he

theorem Frame.mono_sig {σ σ' : St} {nv na nv' na' : List (Str × Kind)} (h : Frame σ σ' nv na) (h1 : nv' = nv) (h2 : na' = na) :
    Frame σ σ' nv' na' := by subst h1 h2; exact h

theorem declStmt_ok (top : Bool) {s : Stmt} (h : declStmt s = true) : okStmt top s = true := by
  cases s <;> simp_all [declStmt, okStmt]

theorem declBody_ok (top : Bool) : ∀ {b : List Stmt}, declBody b = true → okBlock top b = true
  | [], _ => rfl
  | s :: r, h => by
    simp only [declBody, List.all_cons, Bool.and_eq_true] at h
    simp only [okBlock, Bool.and_eq_true]
    exact ⟨declStmt_ok top h.1, declBody_ok top (by simpa [declBody] using h.2)⟩

/-- the trivial precondition / postcondition -/
abbrev PT : St → Prop := fun _ => True
abbrev QT {α : Type} : St → α → St → Prop := fun _ _ _ => True
/-- the postcondition of the functions that return a value -/
abbrev QV : St → Val → St → Prop := fun _ v σ' => NArr v = true ∧ Good σ' (tscope σ') v

/-- one triple per function of the mutual block, at fuel `f` -/
structure AllTri (f : Nat) : Prop where
  defaultVal : ∀ t ty, Tri (fun σ => TyDef σ (tscope σ) ty) (defaultVal f t ty)
    (fun σ v σ' => CellOK σ' (tscope σ') ty v ∧ Frame σ σ' [] [])
  defaultCells : ∀ t ty n acc, Tri (fun σ => TyDef σ (tscope σ) ty ∧ CellsOK σ (tscope σ) ty acc) (defaultCells f t ty n acc)
    (fun σ r σ' => r.length = acc.length + n ∧ CellsOK σ' (tscope σ') ty r ∧ Frame σ σ' [] [])
  evalArgs : ∀ es acc, Tri (fun σ => NTop σ ∧ AllOK σ acc) (evalArgs f es acc)
    (fun _ r σ' => AllOK σ' r ∧ r.length = acc.length + es.length)
  evalIndices : ∀ es dims acc, es.length = dims.length →
    Tri NTop (evalIndices f es dims acc) (fun _ r _ => ∃ is', r = acc.reverse ++ is' ∧ InBoundsAll dims is')
  resolveRef : ∀ r, Tri NTop (resolveRef f r) (fun _ h σ' => HolderOK σ' (tscope σ') h)
  callFun : ∀ t args, Tri NTop (callFun f t args) QV
  bindParams : ∀ t ps es vs acc, es.length = ps.length → vs.length = ps.length →
    Tri (fun σ => NTop σ ∧ ParamsOK σ ps ∧ AllOK σ vs ∧ SlotsOK σ acc) (bindParams f t ps es vs acc) (fun _ r σ' => SlotsOK σ' r ∧
      ∃ new, r = acc.reverse ++ new ∧
        ((∀ p ∈ ps, p.2.2 = false) → new.map (·.ty) = ps.map (·.2.1) ∧ ∀ s ∈ new, s.ref = none))
  evalExpr : ∀ e, Tri NTop (evalExpr f e) QV
  execAssign : ∀ t r rhs, Tri NTop (execAssign f t r rhs) QT
  runBlock : ∀ top b, okBlock top b = true → Tri (fun σ => TopCond top σ ∧ (NTop σ ∨ declBody b = true)) (runBlock f b)
    (fun σ _ σ' => declBody b = true → Frame σ σ' (scalSig σ (tscope σ) b) (arrSig σ (tscope σ) b))
  ifChain : ∀ top t bs els, okBranches top bs = true → okOpt top els = true →
    Tri (fun σ => TopCond top σ ∧ NTop σ) (ifChain f t bs els) QT
  caseMatch : ∀ top v cl, okClause top cl = true →
    Tri NTop (caseMatch f v cl) (fun _ r _ => ∀ b, r = some b → okBlock top b = true)
  caseClauses : ∀ top v cls, okClauses top cls = true → Tri (fun σ => TopCond top σ ∧ NTop σ) (caseClauses f v cls) QT
  loopBody : ∀ top b, okBlock top b = true → Tri (fun σ => TopCond top σ ∧ NTop σ) (loopBody f b) QT
  whileLoop : ∀ top t c b, okBlock top b = true → Tri (fun σ => TopCond top σ ∧ NTop σ) (whileLoop f t c b) QT
  repeatLoop : ∀ top t b c, okBlock top b = true → Tri (fun σ => TopCond top σ ∧ NTop σ) (repeatLoop f t b c) QT
  forLoop : ∀ top t it stop step b, okBlock top b = true →
    Tri (fun σ => TopCond top σ ∧ NTop σ ∧ IntLoc σ it) (forLoop f t it stop step b) QT
  callProc : ∀ t name args, Tri NTop (callProc f t name args) QT
  resolveParams : ∀ ps acc, Tri (fun σ => TopCond true σ ∧ ParamsOK σ acc) (resolveParams f ps acc)
    (fun _ r σ' => ParamsOK σ' r)
  evalBounds : ∀ bs acc, Tri NTop (evalBounds f bs acc) QT
  declareVars : ∀ t ids ty, Tri PT (declareVars f t ids ty)
    (fun σ _ σ' => Frame σ σ' (ids.map fun id => (id.val, Kind.val (typeOfTok σ (tscope σ) ty))) [])
  declareArrs : ∀ t ids ty dims, Tri PT (declareArrs f t ids ty dims)
    (fun σ _ σ' => Frame σ σ' [] (ids.map fun id => (id.val, Kind.arr (typeOfTok σ (tscope σ) ty) dims)))
  outputAll : ∀ es, Tri NTop (outputAll f es) QT
  fileName : ∀ t e, Tri NTop (fileName f t e) QT
  execStmt : ∀ top s, okStmt top s = true → Tri (fun σ => TopCond top σ ∧ (NTop σ ∨ declStmt s = true)) (execStmt f s)
    (fun σ v σ' => (NArr v = true ∧ Good σ' (tscope σ') v) ∧
      (declStmt s = true → Frame σ σ' (scalSig σ (tscope σ) [s]) (arrSig σ (tscope σ) [s])))

/-- fuel exhausted: not a crash point -/
theorem tri_fuel {α : Type} {P : St → Prop} {Q : St → α → St → Prop} : Tri P (throw .outOfFuel : M α) Q :=
  fun σ hW _ => Run.throw hW (Ext.refl σ) (errOK_fuel σ)

theorem AllTri.zero : AllTri 0 where
  defaultVal _ _ := by rw [Pseudo.defaultVal.eq_def]; exact tri_fuel
  defaultCells _ _ _ _ := by rw [Pseudo.defaultCells.eq_def]; exact tri_fuel
  evalArgs _ _ := by rw [Pseudo.evalArgs.eq_def]; exact tri_fuel
  evalIndices _ _ _ _ := by rw [Pseudo.evalIndices.eq_def]; exact tri_fuel
  resolveRef _ := by rw [Pseudo.resolveRef.eq_def]; exact tri_fuel
  callFun _ _ := by rw [Pseudo.callFun.eq_def]; exact tri_fuel
  bindParams _ _ _ _ _ _ _ := by rw [Pseudo.bindParams.eq_def]; exact tri_fuel
  evalExpr _ := by rw [Pseudo.evalExpr.eq_def]; exact tri_fuel
  execAssign _ _ _ := by rw [Pseudo.execAssign.eq_def]; exact tri_fuel
  runBlock _ _ _ := by rw [Pseudo.runBlock.eq_def]; exact tri_fuel
  ifChain _ _ _ _ _ _ := by rw [Pseudo.ifChain.eq_def]; exact tri_fuel
  caseMatch _ _ _ _ := by rw [Pseudo.caseMatch.eq_def]; exact tri_fuel
  caseClauses _ _ _ _ := by rw [Pseudo.caseClauses.eq_def]; exact tri_fuel
  loopBody _ _ _ := by rw [Pseudo.loopBody.eq_def]; exact tri_fuel
  whileLoop _ _ _ _ _ := by rw [Pseudo.whileLoop.eq_def]; exact tri_fuel
  repeatLoop _ _ _ _ _ := by rw [Pseudo.repeatLoop.eq_def]; exact tri_fuel
  forLoop _ _ _ _ _ _ _ := by rw [Pseudo.forLoop.eq_def]; exact tri_fuel
  callProc _ _ _ := by rw [Pseudo.callProc.eq_def]; exact tri_fuel
  resolveParams _ _ := by rw [Pseudo.resolveParams.eq_def]; exact tri_fuel
  evalBounds _ _ := by rw [Pseudo.evalBounds.eq_def]; exact tri_fuel
  declareVars _ _ _ := by rw [Pseudo.declareVars.eq_def]; exact tri_fuel
  declareArrs _ _ _ _ := by rw [Pseudo.declareArrs.eq_def]; exact tri_fuel
  outputAll _ := by rw [Pseudo.outputAll.eq_def]; exact tri_fuel
  fileName _ _ := by rw [Pseudo.fileName.eq_def]; exact tri_fuel
  execStmt _ _ _ := by rw [Pseudo.execStmt.eq_def]; exact tri_fuel

/-! ### helpers for the step lemmas -/

set_option linter.unusedSectionVars false

section helpers
variable {α β : Type} {σ0 σ : St} {E : St → Stop → Prop} [EOK E]

/-- a read-only step followed by a continuation -/
theorem Run.ro {m : M α} {k : α → M β} {post : α → Prop} {Qb : β → St → Prop}
    (hW : WF σ) (hE : Ext σ0 σ) (hm : RO m σ post) (hk : ∀ a, post a → Run (k a) σ (ResE σ0 Qb E)) :
    Run (m >>= k) σ (ResE σ0 Qb E) := Run.bind_ro hW hE (EOK.of_nr σ) hm hk

/-- a read-only step in tail position -/
theorem Run.ro_tail {m : M α} {post : α → Prop} {Q : α → St → Prop}
    (hW : WF σ) (hE : Ext σ0 σ) (hm : RO m σ post) (hk : ∀ a, post a → Q a σ) : Run m σ (ResE σ0 Q E) :=
  Run.of_ro hW hE (EOK.of_nr σ) hm hk

theorem Run.rtErr {Q : α → St → Prop} (hW : WF σ) (hE : Ext σ0 σ) (t : Tok) (m : Msg) :
    Run (Pseudo.rtErr t m : M α) σ (ResE σ0 Q E) :=
  Run.ro_tail hW hE (ro_rtErr t m (fun _ => False)) (fun _ h => h.elim)

theorem Run.rtErr0 {Q : α → St → Prop} (hW : WF σ) (hE : Ext σ0 σ) (m : Msg) :
    Run (Pseudo.rtErr0 m : M α) σ (ResE σ0 Q E) :=
  Run.ro_tail hW hE (ro_rtErr0 m (fun _ => False)) (fun _ h => h.elim)

theorem Run.pedErr {Q : α → St → Prop} (hW : WF σ) (hE : Ext σ0 σ) (t : Tok) (m : Msg) :
    Run (Pseudo.pedErr t m : M α) σ (ResE σ0 Q E) :=
  Run.ro_tail hW hE (ro_pedErr t m (fun _ => False)) (fun _ h => h.elim)

/-- `catchNotDefined`: body and handler with the same postconditions -/
theorem Run.catchND {m : M α} {h : Stop → M α} {Q : α → St → Prop}
    (hE : Ext σ0 σ) (hm : Run m σ (ResE σ Q E))
    (hh : ∀ e σ', WF σ' → Ext σ σ' → Ext σ0 σ' → E σ' e → Run (h e) σ' (ResE σ0 Q E)) :
    Run (catchNotDefined m h) σ (ResE σ0 Q E) := by
  unfold catchNotDefined
  refine Run.tryCatch hE hm fun e σ' hW' hE' hE0' he => ?_
  cases e with
  | diag d =>
    dsimp only
    split
    · refine Run.get_bind ?_
      split
      · exact hh _ σ' hW' hE' hE0' he
      · exact Run.throw hW' hE0' he
    · exact Run.throw hW' hE0' he
  | _ => exact Run.throw hW' hE0' he

/-- the REPL echo of a value that is fine in the current scope; the stack is unchanged -/
theorem run_replEcho (hW : WF σ) {v : Val} (hv : Good σ (tscope σ) v) :
    Run (replEcho v) σ (ResE σ (fun _ σ' => σ'.acts = σ.acts) E) := by
  unfold replEcho
  cases v with
  | none => exact Run.pure hW (Ext.refl σ) rfl
  | chr c => exact run_emit hW _
  | str s => exact run_emit hW _
  | enum ty i =>
    dsimp only
    refine Run.ro hW (Ext.refl σ) (ro_outputText hW hv.root) fun o _ => ?_
    cases o with
    | none => exact Run.pure hW (Ext.refl σ) rfl
    | some s => exact run_emit hW _
  | ptr ty tgt =>
    dsimp only
    cases tgt with
    | none => exact run_emit hW _
    | some l =>
      dsimp only
      refine Run.ro hW (Ext.refl σ) (ro_isLive l.act) fun b _ => ?_
      split <;> exact run_emit hW _
  | _ =>
    dsimp only
    refine Run.ro hW (Ext.refl σ) (ro_outputText hW hv.root) fun o _ => ?_
    cases o with
    | none => exact Run.pure hW (Ext.refl σ) rfl
    | some s => exact run_emit hW _

/-- `writeLoc` from scope `k`: the location is of scope `k` or the value's type is global -/
theorem run_writeAt (hW : WF σ) {k : Nat} (hk : SV σ k) (t : Tok) {l : Loc} {old : Val} (v : Val) (hr : ReadsIn σ.acts l old)
    (hs : SameKind old v) (hv : Good σ k v) (hc : KG σ (kind old) ∨ scopeAt σ l.act = k) :
    Run (writeLoc t l v) σ (ResE σ (fun _ _ => True) E) :=
  run_writeLoc hW t v hr hs (good_for_write hW hk hv l.act (by unfold NR.SameKind at hs; rw [hs]; exact hc))

end helpers

/-! ### name lookup and holders -/

/-- the top activation of a state whose top is not a record context -/
theorem ntop_inv {σ : St} (h : NTop σ) : ∃ a rest, σ.acts = a :: rest ∧ a.isComp = false ∧ tscope σ = a.id := by
  obtain ⟨a, rest, hσ, hc⟩ := h
  exact ⟨a, rest, hσ, hc, NTop.tscope hσ hc⟩

/-- the target of an alias slot of any activation of a well-formed stack is readable in the whole stack -/
theorem StackOK.alias_reads {σ : St} {acts : List Act} {b : Act} {s : Slot} {l : Loc} (h : StackOK σ acts) (hb : b ∈ acts)
    (hs : s ∈ b.vars) (hr : s.ref = some l) : (∃ v, ReadsIn acts l v ∧ kind v = .val s.ty) ∧ TyG σ s.ty := by
  induction acts with
  | nil => cases hb
  | cons c rest ih =>
    rcases List.mem_cons.1 hb with rfl | hb
    · have := h.1.vars s hs
      unfold SlotOK at this; rw [hr] at this
      obtain ⟨_, ⟨v, hv, h1⟩, hg⟩ := this
      exact ⟨⟨v, hv.weaken h.2.1, h1⟩, hg⟩
    · obtain ⟨⟨v, hv, h1⟩, hg⟩ := ih h.2.2 hb
      exact ⟨⟨v, hv.weaken h.2.1, h1⟩, hg⟩

/-- the location that a variable name denotes: readable, and holds a non-array value of the slot's declared type -/
theorem var_tyloc {σ : St} (hW : WF σ) {b : Act} (hb : b ∈ σ.acts) {n : Str} {s : Slot}
    (hs : findSlot b.vars n = some s) :
    TyLoc σ (match s.ref with | some l => l | none => { act := b.id, isArr := false, name := s.name, path := [] }) s.ty := by
  have hsm := findSlot_mem hs
  cases hr : s.ref with
  | some l => exact (StackOK.alias_reads hW.stack hb hsm hr).1
  | none =>
    dsimp only
    obtain ⟨d, hd⟩ := hW.memOK hb
    have hso := hd.vars s hsm
    unfold SlotOK at hso; rw [hr] at hso
    refine ⟨s.val, ⟨b, s, hW.stack.find_mem hb, ?_, getPath_nil _⟩, hso.1⟩
    unfold slotOf
    simp only [Bool.false_eq_true, if_false]
    rw [findSlot_name hs]; exact hs

/-- a variable found in the top activation (not a record context) or in the global one: of a global type, or of the current scope -/
theorem var_cross {σ : St} (hW : WF σ) {a : Act} {rest : List Act} (hσ : σ.acts = a :: rest) {b gl : Act}
    (hg : σ.acts.getLast? = some gl) (hb : b = a ∨ b = gl) {n : Str} {s : Slot} (hs : findSlot b.vars n = some s) :
    TyG σ s.ty ∨
      scopeAt σ (match s.ref with | some l => l | none => ({ act := b.id, isArr := false, name := s.name, path := [] } : Loc)).act =
        tscope σ := by
  have hsm := findSlot_mem hs
  have hbm : b ∈ σ.acts := by
    rcases hb with rfl | rfl
    · rw [hσ]; exact List.mem_cons_self
    · exact List.mem_of_getLast? hg
  cases hr : s.ref with
  | some l => exact Or.inl (StackOK.alias_reads hW.stack hbm hsm hr).2
  | none =>
    dsimp only
    rcases hb with rfl | rfl
    · exact Or.inr (scopeAt_top hσ)
    · refine Or.inl ?_
      obtain ⟨g, hl, _, hid, hok⟩ := hW.globOK
      rw [hl] at hg; cases hg
      have hso := hok.vars s hsm
      unfold SlotOK at hso; rw [hr] at hso
      have := (hso.2.root).kg_root hW (kind_val_narr hso.1).1
      rw [hso.1] at this; exact this

/-- the location that an array name denotes: readable, holds a fine array of the slot's element type -/
theorem arr_holder {σ : St} (hW : WF σ) {b : Act} (hb : b ∈ σ.acts) {n : Str} {s : Slot}
    (hs : findSlot b.arrs n = some s) :
    ReadsIn σ.acts { act := b.id, isArr := true, name := s.name, path := [] } s.val ∧ ArrOK σ (scopeAt σ b.id) s.ty s.val := by
  have hsm := findSlot_mem hs
  obtain ⟨d, hd⟩ := hW.memOK hb
  refine ⟨⟨b, s, hW.stack.find_mem hb, ?_, getPath_nil _⟩, (hd.arrs s hsm).1⟩
  unfold slotOf
  simp only [if_true]
  rw [findSlot_name hs]; exact hs

theorem arr_cross {σ : St} (hW : WF σ) {a : Act} {rest : List Act} (hσ : σ.acts = a :: rest) {b gl : Act}
    (hg : σ.acts.getLast? = some gl) (hb : b = a ∨ b = gl) {n : Str} {s : Slot} (hs : findSlot b.arrs n = some s) :
    TyG σ s.ty ∨ scopeAt σ b.id = tscope σ := by
  rcases hb with rfl | rfl
  · exact Or.inr (scopeAt_top hσ)
  · refine Or.inl ?_
    obtain ⟨g, hl, _, hid, hok⟩ := hW.globOK
    rw [hl] at hg; cases hg
    exact (hok.arrs s (findSlot_mem hs)).2

/-- what the invariant says about the value a scalar holder points to, seen from scope `k` -/
theorem HolderOK.cell {σ : St} (hW : WF σ) {k : Nat} (hk : SV σ k) {h : Holder} (hh : HolderOK σ k h) (harr : ¬ h.isArr = true) :
    ∃ v, ReadsIn σ.acts h.loc v ∧ CellOK σ k h.ty v := by
  obtain ⟨⟨v, hr, hkd⟩, hc⟩ := hh
  rw [if_neg harr] at hkd
  exact ⟨v, hr, hkd, hW.reads_in hk hr (by rw [hkd]; exact hc)⟩

theorem HolderOK.arr {σ : St} (hW : WF σ) {k : Nat} (hk : SV σ k) {h : Holder} (hh : HolderOK σ k h) (harr : h.isArr = true) :
    ∃ v, ReadsIn σ.acts h.loc v ∧ ArrOK σ k h.ty v := by
  obtain ⟨⟨v, hr, hkd⟩, hc⟩ := hh
  rw [if_pos harr] at hkd
  obtain ⟨d, hd⟩ := hkd
  exact ⟨v, hr, ⟨d, hd⟩, hW.reads_in hk hr (by rw [hd]; exact hc)⟩

/-- the cross condition of a holder, as `run_writeAt` wants it -/
theorem HolderOK.cross {σ : St} {k : Nat} {h : Holder} (hh : HolderOK σ k h) {v : Val}
    (hv : kind v = .val h.ty ∨ ∃ d, kind v = .arr h.ty d) : KG σ (kind v) ∨ scopeAt σ h.loc.act = k := by
  rcases hh.2 with hc | hc
  · refine Or.inl ?_
    rcases hv with hv | ⟨d, hv⟩ <;> rw [hv] <;> exact hc
  · exact Or.inr hc

theorem TyLoc.holder {σ : St} {k : Nat} {l : Loc} {ty : Ty} {nm : Str} (h : TyLoc σ l ty)
    (hc : TyG σ ty ∨ scopeAt σ l.act = k) : HolderOK σ k { loc := l, isArr := false, ty := ty, name := nm } := by
  obtain ⟨v, hr, hk⟩ := h
  exact ⟨⟨v, hr, by simpa using hk⟩, hc⟩

/-- the member of a record that a holder of a global type or of this scope points to is again of a global type or of this scope -/
theorem field_cross {σ : St} (hW : WF σ) {k : Nat} (hk : SV σ k) {n : Str} {fs : List (Str × Val)} {x : Str × Val}
    (hl : Local σ k (.comp n fs)) (hx : x ∈ fs) (hg : TyG σ (.comp n)) : KG σ (kind x.2) := by
  obtain ⟨body, k', h1, h2, h3⟩ := hl
  obtain ⟨y, hy⟩ := tyG_comp hW hg
  rw [hW.compLk_global hk hy] at h1
  simp only [Option.some.injEq, Prod.mk.injEq] at h1
  obtain ⟨_, rfl⟩ := h1
  have : sigOf x ∈ fs.map sigOf := List.mem_map.2 ⟨_, hx, rfl⟩
  rw [h2] at this
  exact kd_gid (memSig_kd _ body _ this)

/-- the cells of a fine array -/
theorem ArrOK.cells {σ : St} {k : Nat} {ty : Ty} {v : Val} (h : ArrOK σ k ty v) :
    ∃ d cells, v = .arr ty d cells ∧ cells.length = totalCells d ∧ ∀ c ∈ cells, CellOK σ k ty c := by
  obtain ⟨⟨d, hd⟩, hg⟩ := h
  obtain ⟨cells, rfl⟩ := kind_arr_inv hd
  obtain ⟨hl, hc⟩ := hg.root
  refine ⟨d, cells, rfl, hl, fun c hcm => ⟨hc c hcm, ?_⟩⟩
  obtain ⟨j, hj, hje⟩ := List.getElem_of_mem hcm
  refine hg.sub (p := [.idx j]) ?_
  rw [NC.getPath_arr_cons, List.getElem?_eq_getElem hj, hje]
  exact getPath_nil _

theorem ArrOK.mk' {σ : St} {k : Nat} {ty : Ty} {d : List (Int × Int)} {cells : List Val} (hl : cells.length = totalCells d)
    (hc : ∀ c ∈ cells, CellOK σ k ty c) : ArrOK σ k ty (.arr ty d cells) :=
  ⟨⟨d, rfl⟩, good_arr ⟨hl, fun c hcm => (hc c hcm).1⟩ (fun c hcm => (hc c hcm).2)⟩

/-- the size function of enum arithmetic (`scopeAct`, then the global activation) agrees with the lookup in the current scope -/
theorem size_ok {σ : St} (hW : WF σ) {a gl : Act} {rest : List Act} (hσ : σ.acts = a :: rest) (hc : a.isComp = false)
    (hg : σ.acts.getLast? = some gl) (ty : Str) (n : Nat)
    (h : (match a.enums.find? (·.1 == ty) with
      | some (_, vals) => some vals.length
      | none => if (a.id == gl.id) = true then none else (gl.enums.find? (·.1 == ty)).map (·.2.length)) = some n) :
    ∃ vals, enumLk σ (tscope σ) ty = some vals ∧ vals.length = n := by
  have hsf := scope_find hW hσ hg ty
  rw [NTop.tscope hσ hc]
  unfold enumLk
  rw [← hsf]
  cases hf : a.enums.find? (·.1 == ty) with
  | some x =>
    rw [hf] at h
    obtain ⟨nm, vals⟩ := x
    simp only [Option.some.injEq] at h
    exact ⟨vals, rfl, h⟩
  | none =>
    rw [hf] at h
    dsimp only at h ⊢
    by_cases hid : (a.id == gl.id) = true
    · rw [if_pos hid] at h; cases h
    · rw [if_neg hid] at h ⊢
      cases hgf : gl.enums.find? (·.1 == ty) with
      | none => rw [hgf] at h; cases h
      | some y =>
        rw [hgf] at h
        simp only [Option.map_some, Option.some.injEq] at h
        exact ⟨y.2, rfl, h⟩

/-! ### calls -/

/-- a value that is fine in a dead scope is one that is fine in the global scope -/
theorem Good.of_global_dead {σ : St} (hW : WF σ) {k : Nat} (hd : ∀ a ∈ σ.acts, a.id ≠ k) {v : Val} (h : Good σ (gid σ) v) :
    Good σ k v := by
  obtain ⟨e1, e2, e3, e4⟩ := lookups_dead hW hd
  intro p w hp
  have hl := h p w hp
  cases w <;> try exact hl
  · obtain ⟨vals, h1, h2⟩ := hl; exact ⟨vals, by rw [e1]; exact h1, h2⟩
  · rename_i n tgt
    obtain ⟨tg, h1, h2⟩ := hl
    have htg : TyG σ tg := by
      unfold ptrLk at h1
      rw [hW.ptrDef_gid] at h1
      cases hf : (gptrs σ).find? (·.1 == n) with
      | none => rw [hf] at h1; cases h1
      | some x =>
        rw [hf] at h1
        have := hW.gptr_target (List.mem_of_find?_eq_some hf)
        simp only [Option.map_some, Option.some.injEq] at h1
        rw [← h1]; exact this
    exact ⟨tg, by rw [e2]; exact h1, fun l hl' => (h2 l hl').of_global hW htg⟩
  · obtain ⟨body, k', h1, h2, h3⟩ := hl
    exact ⟨body, k', by rw [e3]; exact h1, h2, h3⟩

/-- slots that are fit for a new activation make a well-formed new (procedure / function) activation -/
theorem actOK_new {σ : St} (hW : WF σ) {ss : List Slot} (hs : SlotsOK σ ss) (a : Act) (hid : a.id = σ.nextId) (hv : a.vars = ss)
    (ha : a.arrs = []) (he : a.enums = []) (hp : a.ptrs = []) (hc : a.comps = []) (hcomp : a.isComp = false)
    (hret : a.retVal = none) : ActOK σ σ.nextId σ.acts a := by
  have hdead : ∀ b ∈ σ.acts, b.id ≠ σ.nextId := fun b hb => Nat.ne_of_lt (hW.below b hb)
  refine ⟨fun s hs' => ?_, fun s hs' => (by rw [ha] at hs'; cases hs'), ⟨fun e h => (by rw [he] at h; cases h),
    fun e h => (by rw [hp] at h; cases h), fun e h => (by rw [hc] at h; cases h)⟩, fun _ n hn => ?_,
    fun h => (by rw [hcomp] at h; cases h), fun h => (by rw [hcomp] at h; cases h), fun h => absurd h hW.ne,
    fun v h => (by rw [hret] at h; cases h)⟩
  · have := hs s (hv ▸ hs')
    unfold SlotG at this
    unfold SlotOK
    split
    · rename_i hr; rw [hr] at this; exact ⟨this.1, this.2.of_global_dead hW hdead⟩
    · rename_i l hr; rw [hr] at this; exact this
  · unfold Defines at hn; rw [he, hp, hc] at hn; simp at hn

theorem pushScope_noncomp {σ : St} {mk : Nat → Act} (hid : (mk σ.nextId).id = σ.nextId) (hc : (mk σ.nextId).isComp = false) :
    pushScope mk σ = σ.nextId := by
  unfold pushScope scopeOfL; simp [hc, hid]

/-- a value of a global type that is fine in the scope of the activation about to be popped is fine in the current scope
    afterwards (return values) -/
theorem good_after_pop {σ2 : St} {d : Nat} (hW2 : WF σ2) (hWp : WF (popSt σ2)) (hm : Mono (· ≠ d) σ2 (popSt σ2)) {k : Nat}
    (hk : SV σ2 k) {v : Val} (hv : Good σ2 k v) (hg : KG σ2 (kind v)) : Good (popSt σ2) (tscope (popSt σ2)) v := by
  have h1 := hv.toG hW2 hk hg
  have h2 := hm.good _ hm.pg _ h1
  rw [← hm.gid] at h2
  exact h2.of_global hWp (tscope_sv _)

end Pseudo.NL
