import PseudoProofs.ByvalWritesDefs
/-!
# BYVAL parameter writes: the FOR statement

`ForRun root f b σ σ'`: the state `σ'` is reached from `σ` by counting steps, writes at locations under the root cell of
`root` and runs of the loop body `b` (with fuel `≤ f`) — what a FOR statement whose iterator lies under `root` does.

* `forLoop_run`: the iterations of a FOR loop;
* `for_run`: the FOR statement whose iterator is a plain variable, with pure start / stop / step expressions;
* `ForRun.sk`: the declarations of all activations are kept along a `ForRun`;
* `ForRun.out`: if the body runs leave the locations of the other activations alone, so does the whole.
-/
namespace Pseudo
namespace ByvalWrites

open ArrayLemmas C07Copy CallLemmas RecordLemmas RecordReturn

/-! ## the head of the FOR statement (unfolding lemmas) -/

/-- the iterator of a FOR statement: an existing variable (its cell and type) or a new INTEGER variable -/
def forIter (it : Tok) : M (Loc × Ty) := do
  match ← lookupVar it.val with
  | some (a, s) =>
    match s.ref with
    | some l => pure (l, s.ty)
    | none => pure ({ act := a.id, isArr := false, name := s.name, path := [] : Loc }, s.ty)
  | none =>
    addVar { name := it.val, ty := .int, val := .int 0 }
    let a ← curAct
    pure ({ act := a.id, isArr := false, name := it.val, path := [] : Loc }, Ty.int)

theorem forIter_bind {β : Type} (it : Tok) (K : Loc × Ty → M β) :
    (forIter it >>= K) = (lookupVar it.val >>= fun r =>
      match r with
      | some (a, s) =>
        match s.ref with
        | some l => pure (l, s.ty) >>= K
        | none => pure ({ act := a.id, isArr := false, name := s.name, path := [] : Loc }, s.ty) >>= K
      | none =>
        addVar { name := it.val, ty := .int, val := .int 0 } >>= fun _ => curAct >>= fun a =>
          pure ({ act := a.id, isArr := false, name := it.val, path := [] : Loc }, Ty.int) >>= K) := by
  unfold forIter
  rw [bind_assoc]
  congr 1
  funext r
  cases r with
  | none => simp only [bind_assoc]
  | some p =>
    obtain ⟨a, s⟩ := p
    dsimp only
    cases s.ref <;> rfl

theorem execStmt_for (f : Nat) (t it : Tok) (start stop : Expr) (step : Option Expr) (b : Block) :
    execStmt (f+1) (.for t it start stop step b) = (do
      tick t
      let h ← forIter it
      if h.2 != .int then rtErr t .typeMismatch
      else
        if ← locIsConst h.1 then rtErr t .constAssign
        let sv ← evalExpr f start
        match sv with
        | .int a =>
          let ev ← evalExpr f stop
          match ev with
          | .int bnd =>
            let stepV ← match step with
              | none => pure (1 : Int)
              | some se =>
                match ← evalExpr f se with
                | .int k => pure k
                | _ => rtErr t .typeMismatch
            writeLoc t h.1 (.int a)
            forLoop f t h.1 bnd stepV b
            pure .none
          | _ => rtErr t .typeMismatch
        | _ => rtErr t .typeMismatch) := by
  rw [execStmt.eq_def]
  dsimp only
  rw [forIter_bind]
  rfl

/-- the iterator that is a plain variable: its own cell, its declared type, state unchanged -/
theorem run_forIter_hasVar (σ : St) (it : Tok) (N : Nat) (ty : Ty) (h : varOwner σ it.val = some (N, ty)) :
    (forIter it).run.run σ = (.ok (varLoc N it.val, ty), σ) := by
  unfold varOwner at h
  cases hacts : σ.acts with
  | nil => rw [hacts] at h; cases h
  | cons cur rest =>
    cases hg : σ.acts.getLast? with
    | none => rw [hacts] at hg; simp at hg
    | some g =>
      rw [hg, hacts] at h
      simp only at h
      unfold varInfo at h
      cases hl : lookupVarIn cur g it.val with
      | none => rw [hl] at h; cases h
      | some p =>
        obtain ⟨a, s⟩ := p
        rw [hl] at h
        simp only [Option.map_some] at h
        cases href : s.ref with
        | some l => rw [href] at h; cases h
        | none =>
          rw [href] at h
          simp only [Option.isSome_none, Option.some.injEq, Prod.mk.injEq] at h
          obtain ⟨rfl, rfl⟩ := h
          have hname : s.name = it.val := findSlot_name _ _ _ (lookupVarIn_slot _ _ _ _ _ hl)
          unfold forIter
          rw [run_bind_ok _ _ _ _ _ (ArrayLemmas.run_lookupVar σ cur g rest it.val hacts hg), hl]
          dsimp only
          rw [href, hname]
          rfl

/-! ## what a FOR statement does to the state -/

/-- what a FOR statement does to the state: ticks, writes at locations under the iterator's root cell, runs of its body -/
inductive ForRun (root : Loc) (f : Nat) (b : Block) : St → St → Prop
  | refl (σ : St) : ForRun root f b σ σ
  | tick {σ σ1 : St} : ForRun root f b σ σ1 → ForRun root f b σ (tickSt σ1)
  | write {σ σ1 : St} (l : Loc) (nv : Val) : ForRun root f b σ σ1 → SameRoot root l →
      ForRun root f b σ (updSt σ1 l.act (writeF l nv))
  | body {σ σ1 σ2 : St} (f' : Nat) (res : Except Stop Bool) : ForRun root f b σ σ1 → f' ≤ f →
      (loopBody f' b).run.run σ1 = (res, σ2) → ForRun root f b σ σ2

/-- any run of `writeLoc` at a location under `root`, however it ends -/
theorem ForRun.writeLoc {root : Loc} {f : Nat} {b : Block} {σ σ1 σ2 : St} (h : ForRun root f b σ σ1)
    (t : Tok) (l : Loc) (v : Val) (res : Except Stop Unit) (hs : SameRoot root l)
    (hw : (Pseudo.writeLoc t l v).run.run σ1 = (res, σ2)) : ForRun root f b σ σ2 := by
  rcases run_writeLoc_cases t l v σ1 with ⟨e, he⟩ | ⟨nv, hnv⟩
  · rw [he] at hw
    injection hw with _ h2
    subst h2
    exact h
  · rw [hnv] at hw
    injection hw with _ h2
    subst h2
    exact ForRun.write l nv h hs

/-- the iterations -/
theorem forLoop_run (root : Loc) (b : Block) (t : Tok) (it : Loc) (stop step : Int) (hit : SameRoot root it) :
    ∀ (f F : Nat) (σ0 σ σ₂ : St) (res : Except Stop Unit), f ≤ F → ForRun root F b σ0 σ →
      (forLoop f t it stop step b).run.run σ = (res, σ₂) → ForRun root F b σ0 σ₂ := by
  intro f
  induction f with
  | zero =>
    intro F σ0 σ σ₂ res _ hr h
    rw [forLoop.eq_def] at h
    cases h
    exact hr
  | succ f ih =>
    intro F σ0 σ σ₂ res hF hr h
    rw [forLoop_succ] at h
    rcases bind_cases _ _ _ _ _ h with ⟨e, h1, _⟩ | ⟨cur, σ1, h1, h2⟩
    · rw [run_readLoc] at h1
      injection h1 with _ h1
      subst h1
      exact hr
    · rw [run_readLoc] at h1
      injection h1 with _ h1
      subst h1
      cases cur with
      | int i =>
        dsimp only at h2
        split at h2
        · rcases tick_cases _ _ _ _ _ h2 with h3 | h3
          · subst h3; exact hr
          · have hr1 : ForRun root F b σ0 (tickSt σ) := ForRun.tick hr
            rcases bind_cases _ _ _ _ _ h3 with ⟨e, h4, _⟩ | ⟨brk, σ2, h4, h5⟩
            · exact ForRun.body f _ hr1 (by omega) h4
            · have hr2 : ForRun root F b σ0 σ2 := ForRun.body f _ hr1 (by omega) h4
              cases brk with
              | true =>
                simp only [if_true] at h5
                cases h5
                exact hr2
              | false =>
                simp only [Bool.false_eq_true, if_false] at h5
                rcases bind_cases _ _ _ _ _ h5 with ⟨e, h6, _⟩ | ⟨cur2, σ3, h6, h7⟩
                · rw [run_readLoc] at h6
                  injection h6 with _ h6
                  subst h6
                  exact hr2
                · rw [run_readLoc] at h6
                  injection h6 with _ h6
                  subst h6
                  cases cur2 with
                  | int j =>
                    dsimp only at h7
                    rcases bind_cases _ _ _ _ _ h7 with ⟨e, h8, _⟩ | ⟨u, σ4, h8, h9⟩
                    · exact hr2.writeLoc t it _ _ hit h8
                    · exact ih F σ0 σ4 σ₂ res (by omega) (hr2.writeLoc t it _ _ hit h8) h9
                  | _ => cases h7; exact hr2
        · cases h2; exact hr
      | _ => cases h2; exact hr

/-! ## the FOR statement -/

/-- the FOR statement after its iterator `l` has been found: start value, bound, step, first assignment, iterations -/
def forRest (f : Nat) (t : Tok) (l : Loc) (start stop : Expr) (step : Option Expr) (b : Block) : M Val := do
        let sv ← evalExpr f start
        match sv with
        | .int a =>
          let ev ← evalExpr f stop
          match ev with
          | .int bnd =>
            let stepV ← match step with
              | none => pure (1 : Int)
              | some se =>
                match ← evalExpr f se with
                | .int k => pure k
                | _ => rtErr t .typeMismatch
            writeLoc t l (.int a)
            forLoop f t l bnd stepV b
            pure .none
          | _ => rtErr t .typeMismatch
        | _ => rtErr t .typeMismatch

theorem rtErr_state {α : Type} (t : Tok) (m : Msg) (σ σ₂ : St) (res : Except Stop α)
    (h : (rtErr t m : M α).run.run σ = (res, σ₂)) : σ₂ = σ := by
  rw [run_rtErr] at h
  injection h with _ h2
  exact h2.symm

/-- the tail of the FOR statement: first assignment to the iterator, iterations -/
theorem for_tail (root : Loc) (b : Block) (t : Tok) (l : Loc) (a bnd k : Int) (f F : Nat) (σ0 σ σ₂ : St) (res : Except Stop Val)
    (hs : SameRoot root l) (hF : f ≤ F) (hr : ForRun root F b σ0 σ)
    (h : (writeLoc t l (.int a) >>= fun _ => forLoop f t l bnd k b >>= fun _ => (pure Val.none : M Val)).run.run σ = (res, σ₂)) :
    ForRun root F b σ0 σ₂ := by
  rcases bind_cases _ _ _ _ _ h with ⟨e, h3, _⟩ | ⟨u, σ2, h3, h4⟩
  · exact hr.writeLoc t _ _ _ hs h3
  · have hW := hr.writeLoc t _ _ _ hs h3
    rcases bind_cases _ _ _ _ _ h4 with ⟨e, h5, _⟩ | ⟨u2, σ3, h5, h6⟩
    · exact forLoop_run root b t l bnd k hs f F σ0 σ2 σ₂ _ hF hW h5
    · cases h6
      exact forLoop_run root b t l bnd k hs f F σ0 σ2 _ _ hF hW h5

/-- **FOR whose iterator is the plain variable `it` of activation `N`** (e.g. a BYVAL INTEGER parameter of the running
    procedure), start / stop / step expressions pure: however the statement ends, its final state is reached from the
    start state by ticks, writes to the iterator's own cell and runs of the loop body — nothing else. -/
theorem for_run (σ σ₂ : St) (t it : Tok) (start stop : Expr) (step : Option Expr) (b : Block) (N : Nat) (ty : Ty) (v sv ev : Val)
    (f₀ f : Nat) (res : Except Stop Val)
    (hit : HasVar σ it.val N ty v)
    (hstart : PureAt (tickSt σ) f₀ start sv) (hstop : PureAt (tickSt σ) f₀ stop ev)
    (hstep : ∀ se, step = some se → ∃ kv, PureAt (tickSt σ) f₀ se kv) (hf : f₀ + 1 ≤ f)
    (hrun : (execStmt f (.for t it start stop step b)).run.run σ = (res, σ₂)) :
    ForRun (varLoc N it.val) f b σ σ₂ := by
  obtain ⟨f', rfl⟩ : ∃ f', f = f' + 1 := ⟨f - 1, by omega⟩
  rw [execStmt_for] at hrun
  rcases tick_cases _ _ _ _ _ hrun with h | h
  · subst h; exact ForRun.refl _
  · have hT : ForRun (varLoc N it.val) (f'+1) b σ (tickSt σ) := ForRun.tick (ForRun.refl σ)
    rw [run_bind_ok _ _ _ _ _ (run_forIter_hasVar (tickSt σ) it N ty hit.tick.resolves)] at h
    dsimp only at h
    split at h
    · rw [rtErr_state _ _ _ _ _ h]; exact hT
    · rw [run_bind_ok _ _ _ _ _ (run_locIsConst _ _), hit.tick.notConst] at h
      simp only [Bool.false_eq_true, if_false] at h
      have h' : (forRest f' t (varLoc N it.val) start stop step b).run.run (tickSt σ) = (res, σ₂) := h
      clear h
      unfold forRest at h'
      rw [run_bind_ok _ _ _ _ _ (hstart f' (by omega))] at h'
      cases sv with
      | int a =>
        dsimp only at h'
        rw [run_bind_ok _ _ _ _ _ (hstop f' (by omega))] at h'
        cases ev with
        | int bnd =>
          dsimp only at h'
          cases step with
          | none =>
            dsimp only at h'
            rw [run_bind_ok _ _ _ _ _ (run_pure _ _)] at h'
            exact for_tail _ b t _ a bnd 1 f' (f'+1) σ _ σ₂ res ⟨rfl, rfl, rfl⟩ (by omega) hT h'
          | some se =>
            obtain ⟨kv, hkv⟩ := hstep se rfl
            dsimp only at h'
            rw [run_bind_ok _ _ _ _ _ (hkv f' (by omega))] at h'
            cases kv with
            | int k =>
              dsimp only at h'
              rw [run_bind_ok _ _ _ _ _ (run_pure _ _)] at h'
              exact for_tail _ b t _ a bnd k f' (f'+1) σ _ σ₂ res ⟨rfl, rfl, rfl⟩ (by omega) hT h'
            | _ =>
              dsimp only at h'
              rw [run_bind_err _ _ _ _ _ (run_rtErr _ _ _)] at h'
              cases h'
              exact hT
        | _ => rw [rtErr_state _ _ _ _ _ h']; exact hT
      | _ => rw [rtErr_state _ _ _ _ _ h']; exact hT

/-- `for_run`, stated for the state the run leaves -/
theorem for_run_snd (σ : St) (t it : Tok) (start stop : Expr) (step : Option Expr) (b : Block) (N : Nat) (ty : Ty) (v sv ev : Val)
    (f₀ f : Nat)
    (hit : HasVar σ it.val N ty v)
    (hstart : PureAt (tickSt σ) f₀ start sv) (hstop : PureAt (tickSt σ) f₀ stop ev)
    (hstep : ∀ se, step = some se → ∃ kv, PureAt (tickSt σ) f₀ se kv) (hf : f₀ + 1 ≤ f) :
    ForRun (varLoc N it.val) f b σ ((execStmt f (.for t it start stop step b)).run.run σ).2 :=
  for_run σ _ t it start stop step b N ty v sv ev f₀ f _ hit hstart hstop hstep hf rfl

/-! ## consequences -/

/-- every state of a FOR run is `ActsSk`-related to the start -/
theorem ForRun.sk {root : Loc} {f : Nat} {b : Block} {σ σ1 : St} (h : ForRun root f b σ σ1) : ActsSk σ.acts σ1.acts := by
  induction h with
  | refl => exact ActsSk.refl _
  | tick _ ih => exact ih
  | write l nv _ _ ih => exact ih.trans (RSk_updSt _ l.act (writeF l nv) (asim_writeF l nv))
  | @body σb σc f' res _ _ hb ih =>
    have h2 : ActsSk σb.acts ((loopBody f' b).run.run σb).2.acts := (((sk_all f').loopBody b).run σb).1
    rw [hb] at h2
    exact ih.trans h2

/-- corollary: if every run of the loop body, from every state the FOR statement reaches, leaves the locations outside
    activation `root.act` as they are, so does the FOR statement -/
theorem ForRun.out {root : Loc} {f : Nat} {b : Block} {σ σ₂ : St} (h : ForRun root f b σ σ₂)
    (hbody : ∀ σ1 f' res σ2, ForRun root f b σ σ1 → f' ≤ f → (loopBody f' b).run.run σ1 = (res, σ2) →
      ∀ l : Loc, l.act ≠ root.act → readLocP σ2 l = readLocP σ1 l) :
    ∀ l : Loc, l.act ≠ root.act → readLocP σ₂ l = readLocP σ l := by
  induction h with
  | refl => intro _ _; rfl
  | tick _ ih => exact ih
  | write l' nv _ hs ih =>
    intro l hl
    rw [← ih l hl]
    exact (keeps_write root _ l' nv hs).out l hl
  | body f' res hr hf hb ih =>
    intro l hl
    rw [← ih l hl]
    exact hbody _ f' res _ hr hf hb l hl

/-! ## a concrete instance

`FOR x ← 1 TO 3 STEP 1   b.f ← x   NEXT x` in the example state of `Properties/C07Exec.lean` (global INTEGER `x = 5`, record
`b`): the hypotheses of `for_run` hold; the run ends normally with `x = 4` and `b.f = 3`. -/
namespace ForEx
open C07ExecEx

def body : Block := [.expr (.assign (tk "<-" 2 5) (.field (tk "." 2 2) (.var (tk "b" 2 1)) (tk "f" 2 3)) (var "x"))]

theorem ex_forRun : ForRun (varLoc 0 (tk "x").val) 50 body exSt
    ((execStmt 50 (.for (tk "FOR") (tk "x") (lit 1) (lit 3) (some (lit 1)) body)).run.run exSt).2 :=
  for_run_snd exSt (tk "FOR") (tk "x") (lit 1) (lit 3) (some (lit 1)) body 0 .int (.int 5) (.int 1) (.int 3) 1 50 hasX
    (pureAt_intLit _ _ _) (pureAt_intLit _ _ _) (fun se h => ⟨.int 1, by cases h; exact pureAt_intLit _ _ _⟩) (by omega)

theorem ex_result :
    (isOk ((execStmt 50 (.for (tk "FOR") (tk "x") (lit 1) (lit 3) (some (lit 1)) body)).run.run exSt).1 &&
     readsInt ((execStmt 50 (.for (tk "FOR") (tk "x") (lit 1) (lit 3) (some (lit 1)) body)).run.run exSt).2
       (varLoc 0 (tk "x").val) 4 &&
     readsInt ((execStmt 50 (.for (tk "FOR") (tk "x") (lit 1) (lit 3) (some (lit 1)) body)).run.run exSt).2
       ⟨0, false, "b".toList, [.field "f".toList]⟩ 3) = true := by decide +kernel

end ForEx

end ByvalWrites
end Pseudo
