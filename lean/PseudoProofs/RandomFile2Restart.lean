import PseudoProofs.RandomFile2Pair
/-!
# Random files, part 5: a second program opens TWO random files of a previous run
-/
namespace Pseudo.RandomFile2
open Pseudo Pseudo.FileStmt Pseudo.ReadLoop Pseudo.RandomFile

/-- OPENFILE m FOR RANDOM of a closed name whose file holds the records `rs`, whatever other handles are open: a fresh handle
    is appended -/
theorem run_open_more (f : Nat) (t tn : Tok) (m : Str) (rs : List Str) (σ : St)
    (hcl : FState.handle (fileSt σ) m = none) (hb : σ.steps + 1 ≤ σ.stepLimit) (hlong : nameTooLong m = false)
    (hd : DiskHas σ.fs m rs) :
    (execStmt (f+3) (.openFile t (.strLit tn m) .random)).run.run σ =
      (.ok .none, { σ with steps := σ.steps + 1, handles := σ.handles ++ [{ name := m, mode := .random, records := rs }] }) := by
  have hstep := fstep_open_random (fileSt σ) m rs hcl hlong hd
  exact (C16_exec_openFile_lit f t tn m .random σ hb).1 _ .unit hstep

/-- the state after `OPENFILE n FOR RANDOM ; OPENFILE m FOR RANDOM` at the start of a fresh interpreter, when the two files
    hold record texts of values of two classes: the two-file invariant, both cursors at record 1 -/
theorem rinv2_open_fresh {defs : Codec.Defs} (C1 C2 : RecClass defs) (n m : Str) (vs1 vs2 : List Val) (σ0 : St) (a : Act)
    (rest : List Act) (hne : n ≠ m) (hacts : σ0.acts = a :: rest) (hdefs : codecDefsP σ0 = .ok defs)
    (hlong1 : nameTooLong n = false) (hlong2 : nameTooLong m = false)
    (hd1 : DiskHas σ0.fs n (vs1.map Codec.dump)) (hd2 : DiskHas σ0.fs m (vs2.map Codec.dump))
    (hvs1 : ∀ v ∈ vs1, C1.T v) (hvs2 : ∀ v ∈ vs2, C2.T v) :
    RInv2 C1 C2 { σ0 with steps := σ0.steps + 1 + 1,
                          handles := [{ name := n, mode := .random, records := vs1.map Codec.dump },
                                      { name := m, mode := .random, records := vs2.map Codec.dump }] }
      n m ⟨vs1, 0⟩ ⟨vs2, 0⟩ a rest := by
  have i1 := rinv_open_fresh C1 n vs1 σ0 a rest hacts hdefs hlong1 hd1 hvs1
  let σ1 : St := { σ0 with steps := σ0.steps + 1, handles := [{ name := n, mode := .random, records := vs1.map Codec.dump }] }
  have hcl : FState.handle (fileSt σ1) m = none := by
    have : (n == m) = false := by simpa using hne
    simp [FState.handle, fileSt, σ1, this]
  obtain ⟨s2, hstep, hopen, _, _, _⟩ := pure_open (C := C2) (fileSt σ1) m vs2 hcl hlong2 hd2 hvs2
  have hstep' := fstep_open_random (fileSt σ1) m (vs2.map Codec.dump) hcl hlong2 hd2
  have e : s2 = { fileSt σ1 with handles := (fileSt σ1).handles ++ [{ name := m, mode := .random, records := vs2.map Codec.dump }] } := by
    rw [hstep] at hstep'
    injection hstep' with h
    exact (Prod.mk.inj h).1
  have hk : Kept (fileSt σ1) s2 n := fstep_kept (fileSt σ1) s2 _ _ n hstep hne
  subst e
  exact ⟨hne, rinv_frame (σ := σ1) i1 hacts hdefs hk, ⟨hacts, hdefs, _, hopen⟩⟩

/-- the program text lexes and parses to a block that starts with `OPENFILE n FOR RANDOM ; OPENFILE m FOR RANDOM` (STRING
    literals): a check that can be evaluated -/
def frontOpen2 (cfg : Cfg) (content : Str) (n m : Str) : Bool :=
  match lex { pedantic := cfg.pedantic } (content ++ ['\n']) with
  | .ok toks =>
    match parse { pedantic := cfg.pedantic } toks with
    | .ok (.openFile _ (.strLit _ a) .random :: .openFile _ (.strLit _ b) .random :: _, _) => a == n && b == m
    | _ => false
  | .error _ => false

theorem frontOpen2_spec (cfg : Cfg) (content : Str) (n m : Str) (h : frontOpen2 cfg content n m = true) :
    ∃ toks t tn t' tn' more warns, lex { pedantic := cfg.pedantic } (content ++ ['\n']) = .ok toks ∧
      parse { pedantic := cfg.pedantic } toks =
        .ok (.openFile t (.strLit tn n) .random :: .openFile t' (.strLit tn' m) .random :: more, warns) := by
  unfold frontOpen2 at h
  split at h
  · rename_i toks hl
    split at h
    · rename_i t tn a t' tn' b more warns hp
      have : a = n ∧ b = m := by simpa using h
      obtain ⟨rfl, rfl⟩ := this
      exact ⟨toks, t, tn, t', tn', more, warns, hl, hp⟩
    · cases h
  · cases h

/-- a file component with a modified RANDOM handle `hd` (framed records) over a regular file, the only handle of its name -/
theorem seqAtExit_modified (s : FState) (hd : Handle) (c : Str) (hh : s.handle hd.name = some hd) (hm : hd.mode = .random)
    (hmod : hd.modified = true) (hfr : ∀ r ∈ hd.records, Codec.Framed r) (hn : s.node hd.name = some (.file c))
    (huniq : ∀ x ∈ s.handles, x.name = hd.name → x = hd) : SeqAtExit s hd.name hd.records := by
  refine Or.inl ⟨hd, hh, hm, rfl, hfr, ?_, huniq⟩
  unfold DiskOK
  rw [hmod]
  exact Or.inr ⟨c, hn⟩

end Pseudo.RandomFile2
