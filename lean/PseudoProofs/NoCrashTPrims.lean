import PseudoProofs.NoCrashT
import PseudoProofs.NoCrashSpec
/-!
# C01 with enum / pointer types: the primitives in the Hoare layer (analogue of `NoCrashPrims.lean`)
-/
namespace Pseudo.NT
open Pseudo
open Pseudo.NC (ReadsIn ActRead ErrOK ErrNR NoCrash RO EOK readsIn_iff mem_updActs updActs_ne_nil errOK_diag errNR_diag errOK_fuel
  errNR_fuel errOK_brk errOK_cont getLast?_mem ro_findAct ro_isLive ro_rtErr ro_rtErr0 ro_pedErr ro_liftMsg ro_liftMsg0 ro_readLoc
  ro_locIsConst ro_filePre ro_writeText ro_get getPath_nil setPath_nil getPath_arr_cons getPath_arr_field setPath_arr_cons
  findSlot_name findSlot_mem findSlot_cons findSlot_updSlot_eq findSlot_updSlot_ne mem_updSlot findSlot_append)

section ro
variable {α β : Type} {σ : St}

theorem WF.top (h : WF σ) : ∃ a rest, σ.acts = a :: rest := by
  cases hσ : σ.acts with
  | nil => exact absurd hσ h.ne
  | cons a rest => exact ⟨a, rest, rfl⟩

theorem WF.topOK (h : WF σ) {a : Act} {rest : List Act} (hσ : σ.acts = a :: rest) : ActOK σ rest a := by
  have := h.stack; rw [hσ] at this; exact this.1

theorem StackOK.mem {σ : St} : ∀ {acts : List Act} {a : Act}, StackOK σ acts → a ∈ acts → ∃ deeper, ActOK σ deeper a
  | b :: rest, a, h, hm => by
    rcases List.mem_cons.1 hm with rfl | hm
    · exact ⟨rest, h.1⟩
    · exact StackOK.mem h.2.2 hm

theorem WF.memOK (h : WF σ) {a : Act} (ha : a ∈ σ.acts) : ∃ deeper, ActOK σ deeper a := h.stack.mem ha

theorem ro_curAct (hW : WF σ) : RO curAct σ (fun a => ∃ rest, σ.acts = a :: rest) := by
  obtain ⟨a, rest, hσ⟩ := hW.top
  unfold curAct
  apply NC.RO.get_bind
  rw [hσ]
  exact ⟨rfl, ⟨rest, rfl⟩⟩

theorem ro_globalAct (hW : WF σ) : RO globalAct σ (fun g => σ.acts.getLast? = some g) := by
  unfold globalAct
  apply NC.RO.get_bind
  cases h : σ.acts.getLast? with
  | none => exact absurd (List.getLast?_eq_none_iff.1 h) hW.ne
  | some g => exact ⟨rfl, rfl⟩

theorem ro_scopeAct (hW : WF σ) : RO scopeAct σ (fun a => ∃ rest, σ.acts = a :: rest) := by
  obtain ⟨a, rest, hσ⟩ := hW.top
  have hc := (hW.topOK hσ).isComp
  unfold scopeAct
  apply NC.RO.get_bind
  rw [hσ]
  simp only [List.find?, hc, Bool.not_false]
  exact ⟨rfl, ⟨rest, rfl⟩⟩

theorem ro_typeScopeAct (hW : WF σ) : RO typeScopeAct σ (fun a => ∃ rest, σ.acts = a :: rest) := by
  obtain ⟨a, rest, hσ⟩ := hW.top
  have hc := (hW.topOK hσ).isComp
  unfold typeScopeAct
  apply NC.RO.get_bind
  have : ((σ.acts.takeWhile (·.isComp)).any (·.typeGlobal)) = false := by
    rw [hσ]; simp [List.takeWhile, hc]
  rw [this]
  simp only [Bool.false_eq_true, if_false]
  exact ro_scopeAct hW

theorem ro_lookupVar (hW : WF σ) (n : Str) :
    RO (lookupVar n) σ (fun r => ∃ a rest g, σ.acts = a :: rest ∧ σ.acts.getLast? = some g ∧ r = lookupVarIn a g n) := by
  unfold lookupVar
  refine NC.RO.bind (ro_curAct hW) fun a ⟨rest, ha⟩ => NC.RO.bind (ro_globalAct hW) fun g hg => ?_
  exact ⟨rfl, a, rest, g, ha, hg, rfl⟩

theorem ro_lookupArr (hW : WF σ) (n : Str) :
    RO (lookupArr n) σ (fun r => ∃ a rest g, σ.acts = a :: rest ∧ σ.acts.getLast? = some g ∧ r = lookupArrIn a g n) := by
  unfold lookupArr
  refine NC.RO.bind (ro_curAct hW) fun a ⟨rest, ha⟩ => NC.RO.bind (ro_globalAct hW) fun g hg => ?_
  exact ⟨rfl, a, rest, g, ha, hg, rfl⟩

/-- the top activation is the global one, or it has no type definitions and another id -/
theorem WF.top_cases (hW : WF σ) {a gl : Act} {rest : List Act} (ha : σ.acts = a :: rest) (hg : σ.acts.getLast? = some gl) :
    (rest = [] ∧ a = gl) ∨ (a.enums = [] ∧ a.ptrs = [] ∧ (a.id == gl.id) = false) := by
  cases rest with
  | nil =>
    rw [ha] at hg
    simp at hg
    exact Or.inl ⟨rfl, hg⟩
  | cons b r =>
    have hok := hW.topOK ha
    have hgl : gl ∈ b :: r := by
      rw [ha, List.getLast?_cons_cons] at hg
      exact List.mem_of_getLast? hg
    have hst := hW.stack; rw [ha] at hst
    have hne : gl.id ≠ a.id := hst.2.1 gl hgl
    exact Or.inr ⟨hok.enums (by simp), hok.ptrs (by simp), by simpa using fun e => hne e.symm⟩

/-- type names are looked up in the global definitions (`global := true`) -/
theorem ro_lookupList {γ : Type} (hW : WF σ) (sel : Act → List (Str × γ)) (gsel : List (Str × γ))
    (hgsel : ∀ gl, σ.acts.getLast? = some gl → sel gl = gsel)
    (hloc : ∀ a rest, σ.acts = a :: rest → rest ≠ [] → sel a = []) (n : Str) :
    RO (lookupList sel n true) σ (· = gsel.find? (·.1 == n)) := by
  unfold lookupList
  refine NC.RO.bind (ro_typeScopeAct hW) fun a ⟨rest, ha⟩ => NC.RO.bind (ro_globalAct hW) fun gl hg => ?_
  rcases hW.top_cases ha hg with ⟨hr, rfl⟩ | ⟨_, _, hid⟩
  · rw [hgsel a hg]
    cases hf : gsel.find? (·.1 == n) with
    | some x => exact ⟨rfl, rfl⟩
    | none => simp only [beq_self_eq_true, Bool.or_true, if_true]; exact ⟨rfl, rfl⟩
  · have hrest : rest ≠ [] := by
      intro hr; subst hr; rw [ha] at hg; simp at hg; subst hg; simp at hid
    rw [hloc a rest ha hrest, hgsel gl hg]
    simp only [List.find?, Bool.not_true, hid, Bool.or_self, Bool.false_eq_true, if_false]
    exact ⟨rfl, rfl⟩

theorem genums_last {gl : Act} (hg : σ.acts.getLast? = some gl) : genums σ = gl.enums := by unfold genums; rw [hg]
theorem gptrs_last {gl : Act} (hg : σ.acts.getLast? = some gl) : gptrs σ = gl.ptrs := by unfold gptrs; rw [hg]

theorem ro_enumDefOf (hW : WF σ) (n : Str) : RO (enumDefOf n true) σ (· = (genums σ).find? (·.1 == n)) :=
  ro_lookupList hW _ _ (fun _ hg => (genums_last hg).symm)
    (fun _ _ ha hr => (hW.topOK ha).enums hr) n

theorem ro_ptrDefOf (hW : WF σ) (n : Str) : RO (ptrDefOf n true) σ (· = (gptrs σ).find? (·.1 == n)) :=
  ro_lookupList hW _ _ (fun _ hg => (gptrs_last hg).symm)
    (fun _ _ ha hr => (hW.topOK ha).ptrs hr) n

theorem ro_compDefOf (hW : WF σ) (n : Str) : RO (compDefOf n true) σ (· = none) := by
  refine (ro_lookupList hW (·.comps) [] (fun gl hg => ?_) (fun a rest ha _ => (hW.topOK ha).comps) n).mono fun _ h => by
    rw [h]; rfl
  obtain ⟨d, hd⟩ := hW.memOK (getLast?_mem hg)
  exact hd.comps


theorem find_key {γ : Type} {l : List (Str × γ)} {n : Str} {x : Str × γ} (h : l.find? (·.1 == n) = some x) : x.1 = n := by
  have := List.find?_some h
  simpa using this

/-- the type a token denotes, given the global definitions -/
def typeOfTok (σ : St) (t : Tok) : Ty :=
  if t.k == .DATA_TYPE then
    if t.val == "INTEGER".toList then .int
    else if t.val == "REAL".toList then .real
    else if t.val == "BOOLEAN".toList then .bool
    else if t.val == "CHAR".toList then .chr
    else if t.val == "STRING".toList then .str
    else .date
  else
    match (genums σ).find? (·.1 == t.val) with
    | some (n, _) => .enum n
    | none => match (gptrs σ).find? (·.1 == t.val) with
      | some (n, _) => .ptr n
      | none => .none

theorem ro_getType (hW : WF σ) (t : Tok) : RO (getType t true) σ (· = typeOfTok σ t) := by
  unfold getType typeOfTok
  split
  · repeat' split
    all_goals exact ⟨rfl, rfl⟩
  · refine NC.RO.bind (ro_enumDefOf hW _) fun e he => ?_
    subst he
    cases (genums σ).find? (·.1 == t.val) with
    | some x => exact ⟨rfl, rfl⟩
    | none =>
      dsimp only
      refine NC.RO.bind (ro_ptrDefOf hW _) fun e he => ?_
      subst he
      cases (gptrs σ).find? (·.1 == t.val) with
      | some x => exact ⟨rfl, rfl⟩
      | none =>
        dsimp only
        refine NC.RO.bind (ro_compDefOf hW _) fun e he => ?_
        subst he
        exact ⟨rfl, rfl⟩

theorem typeOfTok_wf (hW : WF σ) (t : Tok) : TyWF σ (typeOfTok σ t) := by
  unfold typeOfTok
  split
  · repeat' split
    all_goals trivial
  · cases hf : (genums σ).find? (·.1 == t.val) with
    | some x =>
      obtain ⟨n, vals⟩ := x
      have hk : n = t.val := find_key hf
      subst hk
      exact ⟨vals, by unfold enumLk; rw [hf]; rfl, (hW.glob.enums _ (List.mem_of_find?_eq_some hf)).2⟩
    | none =>
      dsimp only
      cases hp : (gptrs σ).find? (·.1 == t.val) with
      | some x =>
        obtain ⟨n, tg⟩ := x
        have hk : n = t.val := find_key hp
        subst hk
        exact ⟨tg, by unfold ptrLk; rw [hp]; rfl⟩
      | none => trivial

theorem typeOfTok_none {t : Tok} (hk : (t.k == .DATA_TYPE) = false) (h : typeOfTok σ t = .none) :
    (genums σ).find? (·.1 == t.val) = none ∧ (gptrs σ).find? (·.1 == t.val) = none := by
  unfold typeOfTok at h
  rw [hk] at h
  simp only [Bool.false_eq_true, if_false] at h
  cases hf : (genums σ).find? (·.1 == t.val) with
  | some x => rw [hf] at h; cases h
  | none =>
    rw [hf] at h
    cases hp : (gptrs σ).find? (·.1 == t.val) with
    | some x => rw [hp] at h; cases h
    | none => exact ⟨rfl, rfl⟩

theorem typeOfTok_not_comp (t : Tok) (n : Str) : typeOfTok σ t ≠ .comp n := by
  unfold typeOfTok
  repeat' split
  all_goals (intro h; cases h)

/-- the enum element a name denotes, given the global definitions -/
def enumElemG (σ : St) (v : Str) : Option Val :=
  (genums σ).findSome? fun (n, vals) =>
    match vals.findIdx? (· == v) with
    | some i => some (.enum n i)
    | none => none

theorem ro_getEnumElement (hW : WF σ) (v : Str) : RO (getEnumElement v true) σ (· = enumElemG σ v) := by
  unfold getEnumElement
  refine NC.RO.bind (ro_typeScopeAct hW) fun a ⟨rest, ha⟩ => NC.RO.bind (ro_globalAct hW) fun gl hg => ?_
  rcases hW.top_cases ha hg with ⟨_, rfl⟩ | ⟨he, _, hid⟩
  · have : enumElemIn a v = enumElemG σ v := by unfold enumElemIn enumElemG; rw [genums_last hg]; rfl
    rw [this]
    cases enumElemG σ v with
    | some x => exact ⟨rfl, rfl⟩
    | none => simp only [beq_self_eq_true, Bool.or_true, if_true]; exact ⟨rfl, rfl⟩
  · have h1 : enumElemIn a v = none := by unfold enumElemIn; rw [he]; rfl
    have h2 : enumElemIn gl v = enumElemG σ v := by unfold enumElemIn enumElemG; rw [genums_last hg]; rfl
    rw [h1, h2]
    simp only [Bool.not_true, hid, Bool.or_self, Bool.false_eq_true, if_false]
    exact ⟨rfl, rfl⟩

theorem enumElemG_ok (hW : WF σ) {v : Str} {x : Val} (h : enumElemG σ v = some x) : Scal x = true ∧ ValOK σ x := by
  unfold enumElemG at h
  obtain ⟨⟨n, vals⟩, hmem, hx⟩ := List.exists_of_findSome?_eq_some h
  dsimp only at hx
  cases hi : vals.findIdx? (· == v) with
  | none => rw [hi] at hx; cases hx
  | some i =>
    rw [hi] at hx; cases hx
    refine ⟨rfl, vals, ?_, ?_⟩
    · unfold enumLk; rw [(hW.glob.enums _ hmem).1]; rfl
    · exact (List.findIdx?_eq_some_iff_findIdx_eq.1 hi).1

theorem ro_isIdentifierType (hW : WF σ) (t : Tok) :
    RO (isIdentifierType t true) σ (fun b => b = false → typeOfTok σ t = .none ∧ enumElemG σ t.val = none) := by
  unfold isIdentifierType
  refine NC.RO.bind (ro_getType hW t) fun ty hty => ?_
  subst hty
  split
  · exact ⟨rfl, fun h => by cases h⟩
  · rename_i hne
    have hn : typeOfTok σ t = .none := by simpa using hne
    refine NC.RO.bind (ro_getEnumElement hW _) fun r hr => ?_
    subst hr
    refine ⟨rfl, fun h => ⟨hn, ?_⟩⟩
    cases he : enumElemG σ t.val with
    | none => rfl
    | some x => rw [he] at h; simp at h

theorem ro_outputText (hW : WF σ) {v : Val} (hs : Scal v = true) (hv : ValOK σ v) : RO (outputText v) σ (fun _ => True) := by
  unfold outputText
  cases v with
  | enum ty i =>
    dsimp only
    refine NC.RO.bind (ro_enumDefOf hW ty) fun r hr => ?_
    subst hr
    obtain ⟨vals, hl, hi⟩ := hv
    unfold enumLk at hl
    cases hf : (genums σ).find? (·.1 == ty) with
    | none => rw [hf] at hl; cases hl
    | some x =>
      rw [hf] at hl
      obtain ⟨n, vs⟩ := x
      simp only [Option.map_some, Option.some.injEq] at hl
      subst hl
      dsimp only
      rw [List.getElem?_eq_getElem hi]
      exact ⟨rfl, trivial⟩
  | comp _ _ => simp [Scal] at hs
  | arr _ _ _ => simp [Scal] at hs
  | _ => exact ⟨rfl, trivial⟩

/-- the definitions the record codec sees are the global ones -/
theorem ro_codecDefs (hW : WF σ) :
    RO codecDefs σ (fun d => ∀ n, d.enumDef n = (genums σ).find? (·.1 == n)) := by
  unfold codecDefs
  refine NC.RO.bind (ro_scopeAct hW) fun a ⟨rest, ha⟩ => NC.RO.bind (ro_globalAct hW) fun gl hg => ?_
  refine ⟨rfl, fun n => ?_⟩
  dsimp only
  rcases hW.top_cases ha hg with ⟨_, rfl⟩ | ⟨he, _, hid⟩
  · rw [genums_last hg]
    cases a.enums.find? (·.1 == n) with
    | some x => rfl
    | none => simp
  · rw [he, genums_last hg]
    simp [hid]

end ro


/-! ### state-changing steps -/

set_option linter.unusedSectionVars false

section changing
variable {α β : Type} {σ : St} {E : St → Stop → Prop} [EOK E]

/-- a step that leaves the stack, `nextId`, the procedures and the functions alone and raises only diagnostics -/
theorem run_frame {m : M α} {Q : α → St → Prop} (hW : WF σ)
    (h : (m.run.run σ).2.acts = σ.acts ∧ (m.run.run σ).2.nextId = σ.nextId ∧ (m.run.run σ).2.procs = σ.procs ∧
      (m.run.run σ).2.funs = σ.funs ∧
      match (m.run.run σ).1 with | .ok a => Q a (m.run.run σ).2 | .error e => ∃ d, e = .diag d) :
    Run m σ (ResE σ Q E) := by
  obtain ⟨h1, h2, h3, h4, h5⟩ := h
  refine ⟨hW.of_acts_eq h1 h2 h3 h4, Ext.of_acts_eq h1 h2, ?_⟩
  split <;> rename_i heq <;> rw [heq] at h5
  · exact h5
  · obtain ⟨d, rfl⟩ := h5; exact EOK.of_nr _ _ (errNR_diag _ d)

theorem run_modify_frame (hW : WF σ) (f : St → St) (h1 : (f σ).acts = σ.acts) (h2 : (f σ).nextId = σ.nextId)
    (h3 : (f σ).procs = σ.procs) (h4 : (f σ).funs = σ.funs) :
    Run (modify f : M PUnit) σ (ResE σ (fun _ _ => True) E) :=
  run_frame hW ⟨h1, h2, h3, h4, trivial⟩

theorem run_emit (hW : WF σ) (x : Str) : Run (emit x) σ (ResE σ (fun _ _ => True) E) :=
  run_modify_frame hW _ rfl rfl rfl rfl

theorem run_tick (hW : WF σ) (t : Tok) : Run (tick t) σ (ResE σ (fun _ _ => True) E) := by
  apply run_frame hW
  unfold tick
  rw [run_bind_ok _ _ _ _ _ (run_get σ)]
  split
  · obtain ⟨d, hd, _⟩ := rtErr_run (α := Unit) t .budget σ
    rw [hd]; exact ⟨rfl, rfl, rfl, rfl, d, rfl⟩
  · exact ⟨rfl, rfl, rfl, rfl, trivial⟩

theorem run_getLine (hW : WF σ) : Run getLine σ (ResE σ (fun _ _ => True) E) := by
  apply run_frame hW
  unfold getLine
  rw [run_bind_ok _ _ _ _ _ (run_get σ)]
  split
  · exact ⟨rfl, rfl, rfl, rfl, trivial⟩
  · dsimp only
    split <;> exact ⟨rfl, rfl, rfl, rfl, trivial⟩

theorem run_doFile (hW : WF σ) (t : Tok) (op : FOp) :
    Run (doFile t op) σ (ResE σ (fun r _ => ∃ s s', fstep s op = .ok (s', r)) E) := by
  apply run_frame hW
  unfold doFile
  rw [run_bind_ok _ _ _ _ _ (run_get σ)]
  split
  · rename_i f r heq
    exact ⟨rfl, rfl, rfl, rfl, _, _, heq⟩
  · rename_i m _
    obtain ⟨d, hd, _⟩ := rtErr_run (α := FRes) t m σ
    rw [hd]; exact ⟨rfl, rfl, rfl, rfl, d, rfl⟩

theorem run_doFile0 (hW : WF σ) (op : FOp) :
    Run (doFile0 op) σ (ResE σ (fun r _ => ∃ s s', fstep s op = .ok (s', r)) E) := by
  apply run_frame hW
  unfold doFile0
  rw [run_bind_ok _ _ _ _ _ (run_get σ)]
  split
  · rename_i f r heq
    exact ⟨rfl, rfl, rfl, rfl, _, _, heq⟩
  · rename_i m _
    obtain ⟨d, hd, _⟩ := rtErr0_run (α := FRes) m σ
    rw [hd]; exact ⟨rfl, rfl, rfl, rfl, d, rfl⟩

theorem run_addProc (hW : WF σ) (p : ProcDef) (hp : ProcOK σ p) :
    Run (modify fun st => { st with procs := st.procs ++ [p] } : M PUnit) σ (ResE σ (fun _ _ => True) E) := by
  have hE : Ext σ { σ with procs := σ.procs ++ [p] } := Ext.of_acts_eq rfl rfl
  refine ⟨⟨hW.ne, hW.stack.mono (ValMono.of_ext hE), hW.below, ?_, fun q hq => (hW.funs q hq).ext hE,
    GlobOK.of_acts_eq (σ := σ) rfl hW.glob⟩, hE, trivial⟩
  intro q hq
  rcases List.mem_append.1 hq with hq | hq
  · exact (hW.procs q hq).ext hE
  · rw [List.mem_singleton.1 hq]; exact hp.ext hE

theorem run_addFun (hW : WF σ) (p : FunDef) (hp : FunOK σ p) :
    Run (modify fun st => { st with funs := st.funs ++ [p] } : M PUnit) σ (ResE σ (fun _ _ => True) E) := by
  have hE : Ext σ { σ with funs := σ.funs ++ [p] } := Ext.of_acts_eq rfl rfl
  refine ⟨⟨hW.ne, hW.stack.mono (ValMono.of_ext hE), hW.below, fun q hq => (hW.procs q hq).ext hE, ?_,
    GlobOK.of_acts_eq (σ := σ) rfl hW.glob⟩, hE, trivial⟩
  intro q hq
  rcases List.mem_append.1 hq with hq | hq
  · exact (hW.funs q hq).ext hE
  · rw [List.mem_singleton.1 hq]; exact hp.ext hE

/-- `modifyAct` with an update that keeps the readable cells, the well-formedness of the activation and the definitions -/
theorem run_modifyAct (hW : WF σ) (id : Nat) (f : Act → Act)
    (hk : ∀ a ∈ σ.acts, a.id = id → ActKeep a (f a))
    (hok : ∀ deeper a, a ∈ σ.acts → a.id = id → ActOK σ deeper a → ActOK σ deeper (f a))
    (hd : ∀ a, (f a).enums = a.enums ∧ (f a).ptrs = a.ptrs) :
    Run (modifyAct id f) σ (ResE σ (fun _ σ' => σ' = updSt σ id f) E) :=
  ⟨hW.updSt hk hok (hW.glob.upd hk hd), Ext.updSt hk, rfl⟩

/-- updates of the bookkeeping fields -/
theorem ActKeep.of_eq {a a' : Act} (h1 : a'.id = a.id) (h2 : a'.isFn = a.isFn) (h3 : a'.vars = a.vars)
    (h4 : a'.arrs = a.arrs) (h5 : a'.enums = a.enums) (h6 : a'.ptrs = a.ptrs) : ActKeep a a' :=
  ⟨h1, h2, fun isArr name path v ⟨s, hs, hp⟩ => ⟨v, ⟨s, by rw [h3, h4]; exact hs, hp⟩, SameKind.refl v⟩,
   by rw [h5]; exact List.prefix_refl _, by rw [h6]; exact List.prefix_refl _⟩

theorem run_setSwitchTok (hW : WF σ) (id : Nat) (v : Option (Nat × Nat)) :
    Run (modifyAct id fun a => { a with switchTok := v }) σ (ResE σ (fun _ _ => True) E) := by
  refine (run_modifyAct (E := E) hW id (fun a => { a with switchTok := v }) (fun _ _ _ => ActKeep.of_eq rfl rfl rfl rfl rfl rfl)
    (fun _ _ _ _ h => ⟨h.vars, h.arrs, h.enums, h.ptrs, h.comps, h.isComp, h.retVal⟩) (fun _ => ⟨rfl, rfl⟩)).mono ?_
  exact fun _ _ h => h.weaken (fun _ _ => trivial) (fun _ e => e)

theorem run_setRetVal (hW : WF σ) (id : Nat) (v : Val) (hs : Scal v = true) (hv : ValOK σ v) :
    Run (modifyAct id fun a => { a with retVal := some v }) σ (ResE σ (fun _ _ => True) E) := by
  refine (run_modifyAct (E := E) hW id (fun a => { a with retVal := some v }) (fun _ _ _ => ActKeep.of_eq rfl rfl rfl rfl rfl rfl)
    (fun _ _ _ _ h => ⟨h.vars, h.arrs, h.enums, h.ptrs, h.comps, h.isComp, fun x hx => ?_⟩) (fun _ => ⟨rfl, rfl⟩)).mono ?_
  · simp only [Option.some.injEq] at hx; subst hx; exact ⟨hs, hv⟩
  · exact fun _ _ h => h.weaken (fun _ _ => trivial) (fun _ e => e)

theorem run_modifyCur (hW : WF σ) (f : Act → Act)
    (hk : ∀ a, ActKeep a (f a)) (hok : ∀ deeper a, ActOK σ deeper a → ActOK σ deeper (f a))
    (hglob : ∀ a rest, σ.acts = a :: rest → GlobOK (updSt σ a.id f)) :
    Run (modifyCur f) σ (ResE σ (fun _ σ' => ∀ a rest, σ.acts = a :: rest → σ'.acts = f a :: rest) E) := by
  obtain ⟨a, rest, hσ⟩ := hW.top
  have hrun : (modifyCur f).run.run σ = (.ok ⟨⟩, updSt σ a.id f) := by
    unfold modifyCur
    have hc : curAct.run.run σ = (.ok a, σ) := by
      unfold curAct
      rw [run_bind_ok _ _ _ _ _ (run_get σ), hσ]; rfl
    rw [run_bind_ok _ _ _ _ _ hc]
    rfl
  unfold Run
  rw [hrun]
  refine ⟨hW.updSt (fun b _ _ => hk b) (fun d b _ _ => hok d b) (hglob a rest hσ), Ext.updSt (fun b _ _ => hk b), ?_⟩
  intro a' rest' h
  rw [hσ] at h; cases h
  show updActs σ.acts a.id f = _
  rw [hσ]; unfold updActs; simp

/-- appending a variable with an own cell -/
theorem run_addVar (hW : WF σ) (s : Slot) (h1 : s.ref = none) (h2 : CellOK σ s.ty s.val) :
    Run (addVar s) σ (ResE σ (fun _ σ' => ∀ a rest, σ.acts = a :: rest → findSlot a.vars s.name = none →
      ReadsIn σ'.acts ⟨a.id, false, s.name, []⟩ s.val) E) := by
  unfold addVar
  have hk : ∀ a : Act, ActKeep a { a with vars := a.vars ++ [s] } := by
    intro a
    refine ⟨rfl, rfl, fun isArr name path v ⟨s0, hs0, hp⟩ => ⟨v, ⟨s0, ?_, hp⟩, SameKind.refl v⟩,
      List.prefix_refl _, List.prefix_refl _⟩
    cases isArr
    · simp only [Bool.false_eq_true, if_false] at hs0 ⊢
      rw [findSlot_append, hs0]; rfl
    · exact hs0
  refine (run_modifyCur (E := E) hW _ hk ?_ ?_).mono fun r σ' h => ?_
  · intro d a h
    refine ⟨fun s' hs' => ?_, h.arrs, h.enums, h.ptrs, h.comps, h.isComp, h.retVal⟩
    rcases List.mem_append.1 hs' with hs' | hs'
    · exact h.vars s' hs'
    · rw [List.mem_singleton.1 hs']
      unfold SlotOK; rw [h1]; exact h2
  · intro a rest _
    exact hW.glob.upd (fun b _ _ => hk b) (fun _ => ⟨rfl, rfl⟩)
  · refine h.weaken (fun _ hq a rest hσ hnone => ?_) (fun _ e => e)
    rw [hq a rest hσ]
    refine (NC.ReadsIn.cons_eq rfl).2 ⟨s, ?_, rfl⟩
    simp only [Bool.false_eq_true, if_false]
    rw [findSlot_append, hnone]
    simp

theorem run_addArr (hW : WF σ) (s : Slot) (hs : ArrSlotOK σ s) :
    Run (addArr s) σ (ResE σ (fun _ _ => True) E) := by
  unfold addArr
  have hk : ∀ a : Act, ActKeep a { a with arrs := a.arrs ++ [s] } := by
    intro a
    refine ⟨rfl, rfl, fun isArr name path v ⟨s0, hs0, hp⟩ => ⟨v, ⟨s0, ?_, hp⟩, SameKind.refl v⟩,
      List.prefix_refl _, List.prefix_refl _⟩
    cases isArr
    · exact hs0
    · simp only [if_true] at hs0 ⊢
      rw [findSlot_append, hs0]; rfl
  refine (run_modifyCur (E := E) hW _ hk ?_ ?_).mono fun r σ' h => h.weaken (fun _ _ => trivial) (fun _ e => e)
  · intro d a h
    refine ⟨h.vars, fun s' hs' => ?_, h.enums, h.ptrs, h.comps, h.isComp, h.retVal⟩
    rcases List.mem_append.1 hs' with hs' | hs'
    · exact h.arrs s' hs'
    · rw [List.mem_singleton.1 hs']; exact hs
  · intro a rest _
    exact hW.glob.upd (fun b _ _ => hk b) (fun _ => ⟨rfl, rfl⟩)


/-! ### TYPE statements at top level -/

theorem run_modifyCur_eq {g : Act} (hσ : σ.acts = [g]) (f : Act → Act) :
    (modifyCur f).run.run σ = (.ok ⟨⟩, { σ with acts := [f g] }) := by
  unfold modifyCur
  have hc : curAct.run.run σ = (.ok g, σ) := by
    unfold curAct
    rw [run_bind_ok _ _ _ _ _ (run_get σ), hσ]; rfl
  rw [run_bind_ok _ _ _ _ _ hc]
  show (Except.ok PUnit.unit, updSt σ g.id f) = _
  unfold updSt
  rw [hσ]
  simp [updActs]

/-- an update of the global activation when it is the only one: the new definitions are checked by `hglob` -/
theorem run_modifyCur_top (hW : WF σ) {g : Act} (hσ : σ.acts = [g]) (f : Act → Act) (hk : ActKeep g (f g))
    (hvars : (f g).vars = g.vars) (harrs : (f g).arrs = g.arrs) (hcomps : (f g).comps = g.comps)
    (hisComp : (f g).isComp = g.isComp) (hret : (f g).retVal = g.retVal)
    (hglob : GlobOK { σ with acts := [f g] }) :
    Run (modifyCur f) σ (ResE σ (fun _ _ => True) E) := by
  have hE : Ext σ { σ with acts := [f g] } := by
    have := Ext.updSt (σ := σ) (id := g.id) (f := f) (fun b hb _ => by
      rw [hσ] at hb; simp at hb; subst hb; exact hk)
    unfold updSt at this
    rw [hσ] at this
    simpa [updActs] using this
  unfold Run
  rw [run_modifyCur_eq hσ f]
  have hok := hW.topOK hσ
  refine ⟨⟨by simp, ⟨?_, by simp, trivial⟩, ?_, fun p hp => (hW.procs p hp).ext hE, fun p hp => (hW.funs p hp).ext hE, hglob⟩,
    hE, trivial⟩
  · have hm := ValMono.of_ext hE
    exact ⟨fun s hs => ((hok.vars s (hvars ▸ hs))).mono hm, fun s hs => (hok.arrs s (harrs ▸ hs)).mono hm,
      fun h => absurd rfl h, fun h => absurd rfl h, hcomps.trans hok.comps, hisComp.trans hok.isComp,
      fun v hv => ⟨(hok.retVal v (hret ▸ hv)).1, hm _ (hok.retVal v (hret ▸ hv)).2⟩⟩
  · intro b hb
    simp only [List.mem_singleton] at hb
    subst hb
    rw [hk.id]
    exact hW.below g (by rw [hσ]; simp)

theorem genums_single {g : Act} : genums { σ with acts := [g] } = g.enums := rfl
theorem gptrs_single {g : Act} : gptrs { σ with acts := [g] } = g.ptrs := rfl

/-- `TYPE name = (v1, …)` at top level with a fresh name -/
theorem run_addEnum (hW : WF σ) {g : Act} (hσ : σ.acts = [g]) (name : Str) (vals : List Str) (hne : vals ≠ [])
    (hfresh : (genums σ).find? (·.1 == name) = none) :
    Run (modifyCur fun a => { a with enums := a.enums ++ [(name, vals)] }) σ (ResE σ (fun _ _ => True) E) := by
  have hge : genums σ = g.enums := by unfold genums; rw [hσ]; rfl
  have hgp : gptrs σ = g.ptrs := by unfold gptrs; rw [hσ]; rfl
  refine run_modifyCur_top hW hσ _ ⟨rfl, rfl, fun _ _ _ v h => ⟨v, h, SameKind.refl v⟩, List.prefix_append _ _, List.prefix_refl _⟩
    rfl rfl rfl rfl rfl ⟨?_, ?_⟩
  · rw [genums_single]
    intro e he
    rcases List.mem_append.1 he with he | he
    · have := hW.glob.enums e (hge ▸ he)
      rw [hge] at this
      exact ⟨find_prefix (List.prefix_append _ _) this.1, this.2⟩
    · rw [List.mem_singleton.1 he]
      rw [hge] at hfresh
      refine ⟨?_, hne⟩
      rw [List.find?_append, hfresh]
      simp [List.find?]
  · rw [gptrs_single]
    intro p hp
    exact (hW.glob.ptrs p (hgp ▸ hp)).ext (by rw [genums_single, hge]; exact List.prefix_append _ _)
      (by rw [gptrs_single, hgp]; exact List.prefix_refl _)

/-- `TYPE name = ^target` at top level -/
theorem run_addPtr (hW : WF σ) {g : Act} (hσ : σ.acts = [g]) (name : Str) (tg : Ty) (htg : TyWF σ tg) :
    Run (modifyCur fun a => { a with ptrs := a.ptrs ++ [(name, tg)] }) σ (ResE σ (fun _ _ => True) E) := by
  have hge : genums σ = g.enums := by unfold genums; rw [hσ]; rfl
  have hgp : gptrs σ = g.ptrs := by unfold gptrs; rw [hσ]; rfl
  refine run_modifyCur_top hW hσ _ ⟨rfl, rfl, fun _ _ _ v h => ⟨v, h, SameKind.refl v⟩, List.prefix_refl _, List.prefix_append _ _⟩
    rfl rfl rfl rfl rfl ⟨?_, ?_⟩
  · rw [genums_single]
    intro e he
    have := hW.glob.enums e (hge ▸ he)
    rw [hge] at this
    exact this
  · rw [gptrs_single]
    have hpre : ∀ {ty : Ty}, TyWF σ ty → TyWF { σ with acts := [{ g with ptrs := g.ptrs ++ [(name, tg)] }] } ty :=
      fun h => h.ext (by rw [genums_single, hge]; exact List.prefix_refl _)
        (by rw [gptrs_single, hgp]; exact List.prefix_append _ _)
    intro p hp
    rcases List.mem_append.1 hp with hp | hp
    · exact hpre (hW.glob.ptrs p (hgp ▸ hp))
    · rw [List.mem_singleton.1 hp]; exact hpre htg


/-! ### `writeLoc` -/

theorem getPath_scal {x : Val} (hx : Scal x = true) (st : Step) (p : List Step) : getPath x (st :: p) = none := by
  cases x <;> first | rfl | (cases st <;> rfl) | simp [Scal] at hx

theorem scal_ty_none {v : Val} (h : Scal v = true) (ht : v.ty = .none) : v = .none := by
  cases v <;> simp_all [Scal, Val.ty]

/-- values that are stored in a slot: scalars or well-shaped arrays -/
def Storable (x : Val) : Prop := Scal x = true ∨ ∃ ty, ArrSh ty x

/-- every scalar inside `x` is fine in `σ` -/
def SubOK (σ : St) (x : Val) : Prop := ∀ q w, getPath x q = some w → Scal w = true → ValOK σ w

theorem arr_read {ty : Ty} {dims : List (Int × Int)} {cells : List Val} (hc : ∀ c ∈ cells, Scal c = true ∧ c.ty = ty)
    {st : Step} {q : List Step} {v0 : Val} (h : getPath (.arr ty dims cells) (st :: q) = some v0) :
    ∃ j, st = .idx j ∧ q = [] ∧ cells[j]? = some v0 ∧ Scal v0 = true ∧ v0.ty = ty := by
  cases st with
  | field n => rw [getPath_arr_field] at h; cases h
  | idx j =>
    rw [getPath_arr_cons] at h
    cases hj : cells[j]? with
    | none => rw [hj] at h; cases h
    | some c =>
      rw [hj] at h; dsimp only at h
      have hcm := hc c (List.mem_of_getElem? hj)
      cases q with
      | nil => rw [getPath_nil] at h; cases h; exact ⟨j, rfl, rfl, hj, hcm⟩
      | cons st' q' => rw [getPath_scal hcm.1] at h; cases h

theorem SubOK.of_scal {v : Val} (hs : Scal v = true) (hv : ValOK σ v) : SubOK σ v := by
  intro q w hq _
  cases q with
  | nil => rw [getPath_nil] at hq; cases hq; exact hv
  | cons st q => rw [getPath_scal hs] at hq; cases hq

theorem SubOK.of_arrOK {ty : Ty} {v : Val} (h : ArrOK σ ty v) : SubOK σ v := by
  obtain ⟨dims, cells, rfl, _, hc⟩ := h
  intro q w hq hw
  cases q with
  | nil => rw [getPath_nil] at hq; cases hq; simp [Scal] at hw
  | cons st q =>
    obtain ⟨j, _, _, hj, _, _⟩ := arr_read (fun c hcm => ⟨(hc c hcm).1, (hc c hcm).2.1⟩) hq
    exact (hc w (List.mem_of_getElem? hj)).2.2

theorem ArrOK.sh {ty : Ty} {v : Val} (h : ArrOK σ ty v) : ArrSh ty v := by
  obtain ⟨d, c, h1, h2, h3⟩ := h
  exact ⟨d, c, h1, h2, fun x hx => ⟨(h3 x hx).1, (h3 x hx).2.1⟩⟩

theorem ArrOK.of_sh {ty : Ty} {v : Val} (h : ArrSh ty v) (hs : SubOK σ v) : ArrOK σ ty v := by
  obtain ⟨d, c, rfl, h2, h3⟩ := h
  refine ⟨d, c, rfl, h2, fun x hx => ⟨(h3 x hx).1, (h3 x hx).2, ?_⟩⟩
  obtain ⟨j, hj, hje⟩ := List.getElem_of_mem hx
  refine hs [.idx j] x ?_ (h3 x hx).1
  rw [getPath_arr_cons, List.getElem?_eq_getElem hj, hje]
  exact getPath_nil _

/-- a store of the same kind at a readable path: it succeeds, the root keeps its kind, so does every readable path, and every
    value inside the result comes from the stored value or from the old root -/
theorem setPath_kind {x : Val} (hx : Storable x) {p : List Step} {old v : Val} (hg : getPath x p = some old)
    (k : SameKind old v) :
    ∃ nv, setPath x p v = some nv ∧ SameKind x nv ∧
      (∀ p' v0, getPath x p' = some v0 → ∃ v', getPath nv p' = some v' ∧ SameKind v0 v') ∧
      (∀ p' w, getPath nv p' = some w → Scal w = true → (∃ q, getPath v q = some w) ∨ (∃ q, getPath x q = some w)) := by
  rcases hx with hx | ⟨ty, dims, cells, rfl, hlen, hc⟩
  · cases p with
    | cons st q => rw [getPath_scal hx] at hg; cases hg
    | nil =>
      rw [getPath_nil] at hg; cases hg
      refine ⟨v, setPath_nil _ _, k, fun p' v0 h => ?_, fun p' w h _ => Or.inl ⟨p', h⟩⟩
      cases p' with
      | cons st q => rw [getPath_scal hx] at h; cases h
      | nil => rw [getPath_nil] at h; cases h; exact ⟨v, getPath_nil _, k⟩
  · cases p with
    | nil =>
      rw [getPath_nil] at hg; cases hg
      refine ⟨v, setPath_nil _ _, k, fun p' v0 h => ?_, fun p' w h _ => Or.inl ⟨p', h⟩⟩
      cases p' with
      | nil => rw [getPath_nil] at h; cases h; exact ⟨v, getPath_nil _, k⟩
      | cons st q =>
        obtain ⟨j, rfl, rfl, hj, hs, ht⟩ := arr_read hc h
        rcases k with rfl | ⟨ha, _, _⟩ | ⟨ty2, dims2, cs, cs', heq, rfl, hl, hc2⟩
        · exact ⟨v0, h, SameKind.refl _⟩
        · simp [Scal] at ha
        · cases heq
          have hjlt : j < cs'.length := by
            rw [hl]; exact (List.getElem?_eq_some_iff.1 hj).1
          refine ⟨cs'[j], ?_, ?_⟩
          · rw [getPath_arr_cons, List.getElem?_eq_getElem hjlt]; exact getPath_nil _
          · have := hc2 cs'[j] (List.getElem_mem hjlt)
            exact SameKind.of_scal hs this.1 (this.2.trans ht.symm)
    | cons st q =>
      obtain ⟨i, rfl, rfl, hi, hs, ht⟩ := arr_read hc hg
      obtain ⟨hvs, hvt⟩ := k.scal_ty hs
      have hilt : i < cells.length := (List.getElem?_eq_some_iff.1 hi).1
      have hcset : ∀ c ∈ cells.set i v, Scal c = true ∧ c.ty = ty := by
        intro c hcm
        rcases List.mem_or_eq_of_mem_set hcm with hcm | rfl
        · exact hc c hcm
        · exact ⟨hvs, hvt.trans ht⟩
      refine ⟨.arr ty dims (cells.set i v), ?_, ?_, fun p' v0 h => ?_, fun p' w h hw => ?_⟩
      · rw [setPath_arr_cons, hi]; dsimp only; rw [setPath_nil]
      · exact SameKind.of_arr rfl rfl (by simp) hcset
      · cases p' with
        | nil =>
          rw [getPath_nil] at h; cases h
          exact ⟨_, getPath_nil _, SameKind.of_arr rfl rfl (by simp) hcset⟩
        | cons st q =>
          obtain ⟨j, rfl, rfl, hj, hs0, ht0⟩ := arr_read hc h
          have hjlt : j < (cells.set i v).length := by
            rw [List.length_set]; exact (List.getElem?_eq_some_iff.1 hj).1
          refine ⟨(cells.set i v)[j], ?_, ?_⟩
          · rw [getPath_arr_cons, List.getElem?_eq_getElem hjlt]; exact getPath_nil _
          · have := hcset _ (List.getElem_mem hjlt)
            exact SameKind.of_scal hs0 this.1 (this.2.trans ht0.symm)
      · cases p' with
        | nil =>
          rw [getPath_nil] at h; cases h
          simp [Scal] at hw
        | cons st q =>
          obtain ⟨j, rfl, rfl, hj, _, _⟩ := arr_read hcset h
          by_cases hij : i = j
          · subst hij
            rw [List.getElem?_set_self hilt] at hj
            cases hj
            exact Or.inl ⟨[], getPath_nil _⟩
          · rw [List.getElem?_set_ne hij] at hj
            refine Or.inr ⟨[.idx j], ?_⟩
            rw [getPath_arr_cons, hj]; exact getPath_nil _


theorem StackOK.find_unique {acts : List Act} {id : Nat} {a b : Act} (h : StackOK σ acts)
    (hf : acts.find? (·.id == id) = some a) (hb : b ∈ acts) (hid : b.id = id) : b = a := by
  induction acts with
  | nil => cases hb
  | cons c rest ih =>
    by_cases hc : (c.id == id) = true
    · rw [List.find?, hc] at hf
      have hca : c = a := by simpa using hf
      rcases List.mem_cons.1 hb with hb | hb
      · exact hb.trans hca
      · have hcid : c.id = id := by simpa using hc
        exact absurd (hid.trans hcid.symm) (h.2.1 b hb)
    · have hc' : (c.id == id) = false := by simpa using hc
      rw [List.find?, hc'] at hf
      rcases List.mem_cons.1 hb with hb | hb
      · subst hb; exact absurd (by simpa using hid) hc
      · exact ih h.2.2 hf hb

theorem SlotOK.scal_val {d : List Act} {s : Slot} (h : SlotOK σ d s) : Scal s.val = true := by
  unfold SlotOK at h
  split at h
  · exact h.1
  · rw [h.1]; rfl

theorem SlotOK.subOK {d : List Act} {s : Slot} (h : SlotOK σ d s) : SubOK σ s.val := by
  unfold SlotOK at h
  split at h
  · exact SubOK.of_scal h.1 h.2.2
  · rw [h.1]; exact SubOK.of_scal rfl trivial

/-- the value of a slot found in a well-formed activation: storable, with fine contents -/
theorem slot_facts (hW : WF σ) {a : Act} (ha : a ∈ σ.acts) {l : Loc} {s : Slot} (h2 : slotOf a l = some s) :
    Storable s.val ∧ SubOK σ s.val := by
  obtain ⟨deeper0, hok0⟩ := hW.memOK ha
  unfold slotOf at h2
  cases hl : l.isArr
  · rw [hl] at h2
    have := hok0.vars s (findSlot_mem h2)
    exact ⟨Or.inl this.scal_val, this.subOK⟩
  · rw [hl] at h2
    have := hok0.arrs s (findSlot_mem h2)
    exact ⟨Or.inr ⟨_, ArrOK.sh this⟩, SubOK.of_arrOK this⟩

/-- every readable scalar of a well-formed state is fine -/
theorem WF.reads_ok (hW : WF σ) {l : Loc} {w : Val} (h : ReadsIn σ.acts l w) (hw : Scal w = true) : ValOK σ w := by
  obtain ⟨a, s, h1, h2, h3⟩ := h
  exact (slot_facts hW (List.mem_of_find?_eq_some h1) h2).2 _ _ h3 hw

/-- every readable array of a well-formed state is fine -/
theorem WF.reads_arr (hW : WF σ) {l : Loc} {w : Val} {ty : Ty} (h : ReadsIn σ.acts l w) (hw : ArrSh ty w) : ArrOK σ ty w := by
  refine ArrOK.of_sh hw fun q x hq hx => ?_
  obtain ⟨a, s, h1, h2, h3⟩ := h
  refine (slot_facts hW (List.mem_of_find?_eq_some h1) h2).2 (l.path ++ q) x ?_ hx
  rw [NC.getPath_append _ h3]; exact hq

/-- **`writeLoc` at a readable location with a value of the same kind whose contents are fine** -/
theorem run_writeLoc (hW : WF σ) (t : Tok) {l : Loc} {old : Val} (v : Val) (hr : ReadsIn σ.acts l old)
    (k : SameKind old v) (hv : SubOK σ v) : Run (writeLoc t l v) σ (ResE σ (fun _ _ => True) E) := by
  obtain ⟨a, s, h1, h2, h3⟩ := hr
  have ha : a ∈ σ.acts := List.mem_of_find?_eq_some h1
  have haid : a.id = l.act := by simpa using List.find?_some h1
  obtain ⟨hstor, hsub⟩ := slot_facts hW ha h2
  obtain ⟨nv, hset, knv, hpaths, horig⟩ := setPath_kind hstor h3 k
  have hnvsub : SubOK σ nv := by
    intro q w hq hw
    rcases horig q w hq hw with ⟨q', h'⟩ | ⟨q', h'⟩
    · exact hv q' w h' hw
    · exact hsub q' w h' hw
  have hf : (findAct l.act).run.run σ = (.ok (some a), σ) := by
    show (Except.ok (σ.acts.find? (·.id == l.act)), σ) = _
    rw [h1]
  unfold writeLoc Run
  rw [run_bind_ok _ _ _ _ _ hf]
  dsimp only
  rw [h2]
  dsimp only
  by_cases hc : s.isConst = true
  · rw [if_pos hc]
    exact Run.of_ro (m := rtErr t .constAssign) hW (Ext.refl σ) (EOK.of_nr σ) (ro_rtErr _ _ (fun _ => False))
      (fun _ h => h.elim)
  · rw [if_neg hc, hset]
    dsimp only
    let g : Act → Act := fun a =>
      if l.isArr then { a with arrs := updSlot a.arrs l.name (fun s => { s with val := nv }) }
      else { a with vars := updSlot a.vars l.name (fun s => { s with val := nv }) }
    have hgd : ∀ b, (g b).enums = b.enums ∧ (g b).ptrs = b.ptrs := by
      intro b; simp only [g]; split <;> exact ⟨rfl, rfl⟩
    have hkeep : ∀ b ∈ σ.acts, b.id = a.id → ActKeep b (g b) := by
      intro b hb hid
      have : b = a := hW.stack.find_unique h1 hb (hid.trans haid)
      subst this
      refine ⟨by simp only [g]; split <;> rfl, by simp only [g]; split <;> rfl, ?_,
        by rw [(hgd b).1]; exact List.prefix_refl _, by rw [(hgd b).2]; exact List.prefix_refl _⟩
      intro isArr name path v0 ⟨s0, hs0, hp0⟩
      unfold slotOf at h2
      by_cases hsame : isArr = l.isArr ∧ name = l.name
      · obtain ⟨rfl, rfl⟩ := hsame
        have hss : s = s0 := by rw [h2] at hs0; exact Option.some.inj hs0
        subst hss
        obtain ⟨v', hv', kv⟩ := hpaths path v0 hp0
        refine ⟨v', ⟨{ s with val := nv }, ?_, hv'⟩, kv⟩
        simp only [g]
        cases hl : l.isArr
        · rw [hl] at h2
          simp only [Bool.false_eq_true, if_false]
          exact findSlot_updSlot_eq (f := fun s => { s with val := nv }) h2 (fun _ => rfl)
        · rw [hl] at h2
          simp only [if_true]
          exact findSlot_updSlot_eq (f := fun s => { s with val := nv }) h2 (fun _ => rfl)
      · refine ⟨v0, ⟨s0, ?_, hp0⟩, SameKind.refl v0⟩
        simp only [g]
        cases hl : l.isArr <;> cases hi : isArr <;> rw [hi] at hs0 <;>
          simp only [Bool.false_eq_true, if_false, if_true] at hs0 ⊢
        · have : name ≠ l.name := fun e => hsame ⟨by rw [hi, hl], e⟩
          rw [findSlot_updSlot_ne (f := fun s => { s with val := nv }) (fun _ => rfl) this]; exact hs0
        · exact hs0
        · exact hs0
        · have : name ≠ l.name := fun e => hsame ⟨by rw [hi, hl], e⟩
          rw [findSlot_updSlot_ne (f := fun s => { s with val := nv }) (fun _ => rfl) this]; exact hs0
    have hokg : ∀ deeper b, b ∈ σ.acts → b.id = a.id → ActOK σ deeper b → ActOK σ deeper (g b) := by
      intro deeper b hb hid hokb
      have : b = a := hW.stack.find_unique h1 hb (hid.trans haid)
      subst this
      unfold slotOf at h2
      simp only [g]
      cases hl : l.isArr
      · rw [hl] at h2
        simp only [Bool.false_eq_true, if_false] at h2 ⊢
        refine ⟨fun s' hs' => ?_, hokb.arrs, hokb.enums, hokb.ptrs, hokb.comps, hokb.isComp, hokb.retVal⟩
        rcases mem_updSlot hs' with hs' | ⟨s0, hs0, rfl⟩
        · exact hokb.vars s' hs'
        · have hss : s = s0 := by rw [h2] at hs0; exact Option.some.inj hs0
          subst hss
          have hso := hokb.vars s (findSlot_mem h2)
          obtain ⟨n1, n2⟩ := knv.scal_ty hso.scal_val
          cases hr : s.ref with
          | none =>
            simp only [SlotOK, hr] at hso ⊢
            exact ⟨n1, n2.trans hso.2.1, hnvsub [] nv (getPath_nil _) n1⟩
          | some l' =>
            simp only [SlotOK, hr] at hso ⊢
            refine ⟨scal_ty_none n1 (by rw [n2, hso.1]; rfl), hso.2⟩
      · rw [hl] at h2
        simp only [if_true] at h2 ⊢
        refine ⟨hokb.vars, fun s' hs' => ?_, hokb.enums, hokb.ptrs, hokb.comps, hokb.isComp, hokb.retVal⟩
        rcases mem_updSlot hs' with hs' | ⟨s0, hs0, rfl⟩
        · exact hokb.arrs s' hs'
        · have hss : s = s0 := by rw [h2] at hs0; exact Option.some.inj hs0
          subst hss
          have hso := hokb.arrs s (findSlot_mem h2)
          exact ArrOK.of_sh (knv.arrSh (ArrOK.sh hso)) hnvsub
    show Run (modifyAct a.id g) σ (ResE σ (fun _ _ => True) E)
    refine (run_modifyAct (E := E) hW a.id g hkeep hokg hgd).mono ?_
    exact fun _ _ h => h.weaken (fun _ _ => trivial) (fun _ e => e)


/-! ### the bracket `withAct` -/

theorem genums_push (hne : σ.acts ≠ []) (mk : Nat → Act) : genums (pushSt mk σ) = genums σ := by
  unfold genums pushSt
  cases h : σ.acts with
  | nil => exact absurd h hne
  | cons a r => simp [List.getLast?_cons_cons]
theorem gptrs_push (hne : σ.acts ≠ []) (mk : Nat → Act) : gptrs (pushSt mk σ) = gptrs σ := by
  unfold gptrs pushSt
  cases h : σ.acts with
  | nil => exact absurd h hne
  | cons a r => simp [List.getLast?_cons_cons]

/-- values stay fine when a fresh activation is pushed -/
theorem ValMono.push (hne : σ.acts ≠ []) {mk : Nat → Act} (hmk : ∀ i, (mk i).id = i) : ValMono σ (pushSt mk σ) := by
  intro v hv
  cases v <;> try exact hv
  · obtain ⟨vals, h1, h2⟩ := hv
    exact ⟨vals, by unfold enumLk at *; rw [genums_push hne]; exact h1, h2⟩
  · obtain ⟨tg, h1, h2⟩ := hv
    refine ⟨tg, by unfold ptrLk at *; rw [gptrs_push hne]; exact h1, fun l hl => ?_⟩
    obtain ⟨hlt, hlive⟩ := h2 l hl
    refine ⟨Nat.lt_succ_of_lt hlt, fun hL => ?_⟩
    obtain ⟨b, hb, hbid⟩ := hL
    have hb' : b ∈ σ.acts := by
      rcases List.mem_cons.1 hb with rfl | hb
      · rw [hmk] at hbid; exact absurd hbid (Nat.ne_of_gt hlt)
      · exact hb
    obtain ⟨w, hr, hs, ht⟩ := hlive ⟨b, hb', hbid⟩
    refine ⟨w, ?_, hs, ht⟩
    show ReadsIn (mk σ.nextId :: σ.acts) l w
    exact (NC.ReadsIn.cons_ne (by rw [hmk]; exact Nat.ne_of_gt hlt)).2 hr

theorem WF.push (hW : WF σ) {mk : Nat → Act} (hmk : ∀ i, (mk i).id = i) (hnew : ActOK σ σ.acts (mk σ.nextId)) :
    WF (pushSt mk σ) := by
  have hm := ValMono.push (σ := σ) hW.ne hmk
  have hte : ∀ {ty : Ty}, TyWF σ ty → TyWF (pushSt mk σ) ty := fun h =>
    h.ext (by rw [genums_push hW.ne]; exact List.prefix_refl _) (by rw [gptrs_push hW.ne]; exact List.prefix_refl _)
  refine ⟨by simp [pushSt], ⟨hnew.mono hm, fun b hb => ?_, hW.stack.mono hm⟩, fun b hb => ?_,
    fun p hp => ⟨fun q hq => hte ((hW.procs p hp).1 q hq), (hW.procs p hp).2⟩,
    fun p hp => ⟨fun q hq => hte ((hW.funs p hp).1 q hq), (hW.funs p hp).2⟩, ⟨?_, ?_⟩⟩
  · rw [hmk]; exact Nat.ne_of_lt (hW.below b hb)
  · rcases List.mem_cons.1 hb with rfl | hb
    · rw [hmk]; exact Nat.lt_succ_self _
    · exact Nat.lt_succ_of_lt (hW.below b hb)
  · rw [genums_push hW.ne]; exact hW.glob.enums
  · rw [gptrs_push hW.ne]; exact fun p hp => hte (hW.glob.ptrs p hp)

/-- push, run, pop: the state after the pop is well-formed and extends the state before the push -/
theorem pop_ok (hW : WF σ) {mk : Nat → Act} (hmk : ∀ i, (mk i).id = i) {σ2 : St} (hW2 : WF σ2)
    (hE2 : Ext (pushSt mk σ) σ2) : WF (popSt σ2) ∧ Ext σ (popSt σ2) ∧ ValMono σ2 (popSt σ2) := by
  have hids := hE2.ids
  obtain ⟨top, rest, hσ2⟩ := hW2.top
  rw [hσ2] at hids
  simp only [pushSt, List.map_cons, List.cons.injEq, Prod.mk.injEq] at hids
  obtain ⟨⟨htid, _⟩, hrest⟩ := hids
  rw [hmk] at htid
  have hpop : (popSt σ2).acts = rest := by simp [popSt, hσ2]
  have hst := hW2.stack; rw [hσ2] at hst
  have hrne : rest ≠ [] := by
    intro h
    rw [h] at hrest
    exact hW.ne (List.map_eq_nil_iff.1 hrest.symm)
  have hge : genums (popSt σ2) = genums σ2 := by
    unfold genums; rw [hpop, hσ2]
    cases rest with
    | nil => exact absurd rfl hrne
    | cons b r => simp [List.getLast?_cons_cons]
  have hgp : gptrs (popSt σ2) = gptrs σ2 := by
    unfold gptrs; rw [hpop, hσ2]
    cases rest with
    | nil => exact absurd rfl hrne
    | cons b r => simp [List.getLast?_cons_cons]
  have hm : ValMono σ2 (popSt σ2) := by
    intro v hv
    cases v <;> try exact hv
    · obtain ⟨vals, h1, h2⟩ := hv
      exact ⟨vals, by unfold enumLk at *; rw [hge]; exact h1, h2⟩
    · obtain ⟨tg, h1, h2⟩ := hv
      refine ⟨tg, by unfold ptrLk at *; rw [hgp]; exact h1, fun l hl => ?_⟩
      obtain ⟨hlt, hlive⟩ := h2 l hl
      refine ⟨hlt, fun hL => ?_⟩
      obtain ⟨b, hb, hbid⟩ := hL
      rw [hpop] at hb
      have hne : top.id ≠ l.act := by rw [← hbid]; exact fun e => hst.2.1 b hb e.symm
      obtain ⟨w, hr, hs, ht⟩ := hlive ⟨b, by rw [hσ2]; exact List.mem_cons_of_mem _ hb, hbid⟩
      rw [hσ2] at hr
      exact ⟨w, by rw [hpop]; exact (NC.ReadsIn.cons_ne hne).1 hr, hs, ht⟩
  have hte : ∀ {ty : Ty}, TyWF σ2 ty → TyWF (popSt σ2) ty := fun h =>
    h.ext (by rw [hge]; exact List.prefix_refl _) (by rw [hgp]; exact List.prefix_refl _)
  refine ⟨⟨?_, ?_, ?_, fun p hp => ⟨fun q hq => hte ((hW2.procs p hp).1 q hq), (hW2.procs p hp).2⟩,
    fun p hp => ⟨fun q hq => hte ((hW2.funs p hp).1 q hq), (hW2.funs p hp).2⟩, ⟨?_, ?_⟩⟩, ⟨?_, ?_, ?_, ?_, ?_⟩, hm⟩
  · rw [hpop]; exact hrne
  · rw [hpop]; exact hst.2.2.mono hm
  · rw [hpop]; intro b hb
    exact hW2.below b (by rw [hσ2]; exact List.mem_cons_of_mem _ hb)
  · rw [hge]; exact hW2.glob.enums
  · rw [hgp]; exact fun p hp => hte (hW2.glob.ptrs p hp)
  · rw [hpop]; exact hrest
  · exact Nat.le_trans (Nat.le_succ _) hE2.nextId
  · intro l v hr
    obtain ⟨b, hb, hbid⟩ := hr.mem
    have hne : σ.nextId ≠ l.act := by
      rw [← hbid]; exact Nat.ne_of_gt (hW.below b hb)
    have hr1 : ReadsIn (pushSt mk σ).acts l v := by
      show ReadsIn (mk σ.nextId :: σ.acts) l v
      exact (NC.ReadsIn.cons_ne (by rw [hmk]; exact hne)).2 hr
    obtain ⟨v', hr2, k⟩ := hE2.reads l v hr1
    rw [hσ2] at hr2
    rw [hpop]
    exact ⟨v', (NC.ReadsIn.cons_ne (by rw [htid]; exact hne)).1 hr2, k⟩
  · rw [hge, ← genums_push hW.ne mk]; exact hE2.enums
  · rw [hgp, ← gptrs_push hW.ne mk]; exact hE2.ptrs

theorem Run.withAct {σ0 : St} {mk : Nat → Act} {body : M α} {Q Qb : α → St → Prop}
    (hW : WF σ) (hE : Ext σ0 σ) (hmk : ∀ i, (mk i).id = i) (hnew : ActOK σ σ.acts (mk σ.nextId))
    (hbody : WF (pushSt mk σ) → Run body (pushSt mk σ) (ResE (pushSt mk σ) Qb ErrNR))
    (hpost : ∀ a σ2, WF σ2 → Ext (pushSt mk σ) σ2 → ValMono σ2 (popSt σ2) → Qb a σ2 → Q a (popSt σ2)) :
    Run (Pseudo.withAct mk body) σ (ResE σ0 Q E) := by
  have hb := hbody (hW.push hmk hnew)
  unfold Run at *
  rw [run_withAct]
  obtain ⟨hW2, hE2, hres⟩ := hb
  obtain ⟨hWp, hEp, hm⟩ := pop_ok hW hmk hW2 hE2
  refine ⟨hWp, hE.trans hEp, ?_⟩
  dsimp only
  rcases hr : (body.run.run (pushSt mk σ)).1 with e | a
  · rw [hr] at hres
    exact EOK.of_nr _ _ ⟨⟨hres.1.1, fun he => absurd he hres.2⟩, hres.2⟩
  · rw [hr] at hres
    exact hpost a _ hW2 hE2 hm hres

end changing

end Pseudo.NT
