import PseudoProofs.ReplLoopSim
/-!
# The REPL-entry / file-run simulation holds for the whole evaluator (`lsim_all`), for `runMain` and `runOn`
-/
namespace Pseudo
namespace ReplSim

macro_rules | `(tactic| lsim_step) => `(tactic| with_reducible apply LSimAt.catchNotDefined)
macro_rules | `(tactic| lsim_step) => `(tactic| contradiction)
macro_rules | `(tactic| lsim_step) => `(tactic| with_reducible refine LSimAt.tryCatch ?_ ?_ (by intro d hd; first | rfl | simp [hd]))

/-- the file side is over the call-depth limit, the REPL side is not -/
theorem LSimAt.budget_left_bind {α : Type} {kr : M α} {kf : PUnit → M α} {τ : St} {p1 p2 : Priv} (t : Tok)
    (h : ∀ τ p1 p2, LSimAt kr kr τ p1 p2) : LSimAt kr (rtErr t .budget >>= kf) τ p1 p2 :=
  ⟨fun _ => .budget _ _ (run_bind_err _ _ _ _ _ (run_rtErr t .budget _)) (rtDiag_msg _ _ _ _)
    ((h τ p1 p1).alt (Rel.refl _)).mono⟩

/-- both sides raise the same runtime error -/
theorem LSimAt.rtErr_bind {α : Type} {kr kf : PUnit → M α} {τ : St} {p1 p2 : Priv} (t : Tok) (m : Msg) :
    LSimAt (rtErr t m >>= kr) (rtErr t m >>= kf) τ p1 p2 :=
  ⟨fun hR => .same (.error (.diag (rtDiag (τ.wth p1) t.line t.col m))) τ [] p1.steps p2.steps p1.depth p2.depth
    hR.steps hR.depth (run_bind_err _ _ _ _ _ (run_rtErr t m _))
    (by rw [run_bind_err _ _ _ _ _ (run_rtErr t m _)]; rfl)⟩

-- tried first (the rules added last come first): the cases of the call-depth check
macro_rules | `(tactic| lsim_step) => `(tactic| with_reducible apply LSimAt.budget_left_bind)
macro_rules | `(tactic| lsim_step) => `(tactic| with_reducible exact LSimAt.rtErr_bind _ _)
macro_rules | `(tactic| lsim_step) => `(tactic| (refine ⟨fun hR => False.elim ?_⟩; have := Rel.depth hR; omega))

structure AllLSim (f : Nat) : Prop where
  defaultVal : ∀ t ty, LSim (defaultVal f t ty)
  defaultCells : ∀ t ty n acc, LSim (defaultCells f t ty n acc)
  evalArgs : ∀ es acc, LSim (evalArgs f es acc)
  evalIndices : ∀ es dims acc, LSim (evalIndices f es dims acc)
  resolveRef : ∀ r, LSim (resolveRef f r)
  callFun : ∀ t args, LSim (callFun f t args)
  bindParams : ∀ t ps es vs acc, LSim (bindParams f t ps es vs acc)
  evalExpr : ∀ e, LSim (evalExpr f e)
  execAssign : ∀ t r rhs, LSim (execAssign f t r rhs)
  runBlock : ∀ b, LSim (runBlock f b)
  ifChain : ∀ t bs els, LSim (ifChain f t bs els)
  caseMatch : ∀ v cl, LSim (caseMatch f v cl)
  caseClauses : ∀ v cls, LSim (caseClauses f v cls)
  loopBody : ∀ b, LSim (loopBody f b)
  whileLoop : ∀ t c b, LSim (whileLoop f t c b)
  repeatLoop : ∀ t b c, LSim (repeatLoop f t b c)
  forLoop : ∀ t it stop step b, LSim (forLoop f t it stop step b)
  callProc : ∀ t name args, LSim (callProc f t name args)
  resolveParams : ∀ ps acc, LSim (resolveParams f ps acc)
  evalBounds : ∀ bs acc, LSim (evalBounds f bs acc)
  declareVars : ∀ t ids ty, LSim (declareVars f t ids ty)
  declareArrs : ∀ t ids ty dims, LSim (declareArrs f t ids ty dims)
  outputAll : ∀ es, LSim (outputAll f es)
  fileName : ∀ t e, LSim (fileName f t e)
  execStmt : ∀ s, LSim (execStmt f s)

set_option hygiene false in
macro_rules | `(tactic| lsim_ih) => `(tactic| first
  | apply ih.evalExpr | apply ih.resolveRef | apply ih.evalArgs | apply ih.evalIndices | apply ih.callFun
  | apply ih.bindParams | apply ih.execAssign | apply ih.runBlock | apply ih.ifChain | apply ih.caseMatch
  | apply ih.caseClauses | apply ih.loopBody | apply ih.whileLoop | apply ih.repeatLoop | apply ih.forLoop
  | apply ih.callProc | apply ih.resolveParams | apply ih.evalBounds | apply ih.declareVars | apply ih.declareArrs
  | apply ih.outputAll | apply ih.fileName | apply ih.execStmt | apply ih.defaultVal | apply ih.defaultCells)

open Lean in
macro "lsim_fn " id:ident : tactic =>
  `(tactic| (apply LSim.of_run; intro τ p1 p2; rw [$(mkIdent (id.getId ++ `eq_def)):ident]; try dsimp only
             lsim_auto))

section induction
variable {f : Nat}

theorem AllLSim.zero : AllLSim 0 where
  defaultVal _ _ := by lsim_fn defaultVal
  defaultCells _ _ _ _ := by lsim_fn defaultCells
  evalArgs _ _ := by lsim_fn evalArgs
  evalIndices _ _ _ := by lsim_fn evalIndices
  resolveRef _ := by lsim_fn resolveRef
  callFun _ _ := by lsim_fn callFun
  bindParams _ _ _ _ _ := by lsim_fn bindParams
  evalExpr _ := by lsim_fn evalExpr
  execAssign _ _ _ := by lsim_fn execAssign
  runBlock _ := by lsim_fn runBlock
  ifChain _ _ _ := by lsim_fn ifChain
  caseMatch _ _ := by lsim_fn caseMatch
  caseClauses _ _ := by lsim_fn caseClauses
  loopBody _ := by lsim_fn loopBody
  whileLoop _ _ _ := by lsim_fn whileLoop
  repeatLoop _ _ _ := by lsim_fn repeatLoop
  forLoop _ _ _ _ _ := by lsim_fn forLoop
  callProc _ _ _ := by lsim_fn callProc
  resolveParams _ _ := by lsim_fn resolveParams
  evalBounds _ _ := by lsim_fn evalBounds
  declareVars _ _ _ := by lsim_fn declareVars
  declareArrs _ _ _ _ := by lsim_fn declareArrs
  outputAll _ := by lsim_fn outputAll
  fileName _ _ := by lsim_fn fileName
  execStmt _ := by lsim_fn execStmt

theorem lstep_defaultVal (ih : AllLSim f) : ∀ t ty, LSim (defaultVal (f+1) t ty) := by
  intro t ty; lsim_fn defaultVal

theorem lstep_defaultCells (ih : AllLSim f) : ∀ t ty n acc, LSim (defaultCells (f+1) t ty n acc) := by
  intro t ty n acc; lsim_fn defaultCells

theorem lstep_evalArgs (ih : AllLSim f) : ∀ es acc, LSim (evalArgs (f+1) es acc) := by
  intro es acc; lsim_fn evalArgs

theorem lstep_evalIndices (ih : AllLSim f) : ∀ es dims acc, LSim (evalIndices (f+1) es dims acc) := by
  intro es dims acc; lsim_fn evalIndices

theorem lstep_resolveRef (ih : AllLSim f) : ∀ r, LSim (resolveRef (f+1) r) := by
  intro r; lsim_fn resolveRef

set_option maxHeartbeats 2000000 in
theorem lstep_callFun (ih : AllLSim f) : ∀ t args, LSim (callFun (f+1) t args) := by
  intro t args; lsim_fn callFun

theorem lstep_bindParams (ih : AllLSim f) : ∀ t ps es vs acc, LSim (bindParams (f+1) t ps es vs acc) := by
  intro t ps es vs acc; lsim_fn bindParams

theorem lstep_evalExpr (ih : AllLSim f) : ∀ e, LSim (evalExpr (f+1) e) := by
  intro e; lsim_fn evalExpr

theorem lstep_execAssign (ih : AllLSim f) : ∀ t r rhs, LSim (execAssign (f+1) t r rhs) := by
  intro t r rhs; lsim_fn execAssign

theorem lstep_ifChain (ih : AllLSim f) : ∀ t bs els, LSim (ifChain (f+1) t bs els) := by
  intro t bs els; lsim_fn ifChain

theorem lstep_caseMatch (ih : AllLSim f) : ∀ v cl, LSim (caseMatch (f+1) v cl) := by
  intro v cl; lsim_fn caseMatch

theorem lstep_caseClauses (ih : AllLSim f) : ∀ v cls, LSim (caseClauses (f+1) v cls) := by
  intro v cls; lsim_fn caseClauses

theorem lstep_loopBody (ih : AllLSim f) : ∀ b, LSim (loopBody (f+1) b) := by
  intro b; lsim_fn loopBody

theorem lstep_whileLoop (ih : AllLSim f) : ∀ t c b, LSim (whileLoop (f+1) t c b) := by
  intro t c b; lsim_fn whileLoop

theorem lstep_repeatLoop (ih : AllLSim f) : ∀ t b c, LSim (repeatLoop (f+1) t b c) := by
  intro t b c; lsim_fn repeatLoop

theorem lstep_forLoop (ih : AllLSim f) : ∀ t it stop step b, LSim (forLoop (f+1) t it stop step b) := by
  intro t it stop step b; lsim_fn forLoop

set_option maxHeartbeats 2000000 in
theorem lstep_callProc (ih : AllLSim f) : ∀ t name args, LSim (callProc (f+1) t name args) := by
  intro t name args; lsim_fn callProc

theorem lstep_resolveParams (ih : AllLSim f) : ∀ ps acc, LSim (resolveParams (f+1) ps acc) := by
  intro ps acc; lsim_fn resolveParams

theorem lstep_evalBounds (ih : AllLSim f) : ∀ bs acc, LSim (evalBounds (f+1) bs acc) := by
  intro bs acc; lsim_fn evalBounds

theorem lstep_declareVars (ih : AllLSim f) : ∀ t ids ty, LSim (declareVars (f+1) t ids ty) := by
  intro t ids ty; lsim_fn declareVars

theorem lstep_declareArrs (ih : AllLSim f) : ∀ t ids ty dims, LSim (declareArrs (f+1) t ids ty dims) := by
  intro t ids ty dims; lsim_fn declareArrs

theorem lstep_outputAll (ih : AllLSim f) : ∀ es, LSim (outputAll (f+1) es) := by
  intro es; lsim_fn outputAll

theorem lstep_fileName (ih : AllLSim f) : ∀ t e, LSim (fileName (f+1) t e) := by
  intro t e; lsim_fn fileName

set_option maxHeartbeats 2000000 in
theorem lstep_execStmt (ih : AllLSim f) : ∀ s, LSim (execStmt (f+1) s) := by
  intro s; lsim_fn execStmt

theorem lstep_runBlock (ih : AllLSim f) : ∀ b, LSim (runBlock (f+1) b) := by
  intro b; lsim_fn runBlock

theorem AllLSim.succ (ih : AllLSim f) : AllLSim (f + 1) where
  defaultVal := lstep_defaultVal ih
  defaultCells := lstep_defaultCells ih
  evalArgs := lstep_evalArgs ih
  evalIndices := lstep_evalIndices ih
  resolveRef := lstep_resolveRef ih
  callFun := lstep_callFun ih
  bindParams := lstep_bindParams ih
  evalExpr := lstep_evalExpr ih
  execAssign := lstep_execAssign ih
  runBlock := lstep_runBlock ih
  ifChain := lstep_ifChain ih
  caseMatch := lstep_caseMatch ih
  caseClauses := lstep_caseClauses ih
  loopBody := lstep_loopBody ih
  whileLoop := lstep_whileLoop ih
  repeatLoop := lstep_repeatLoop ih
  forLoop := lstep_forLoop ih
  callProc := lstep_callProc ih
  resolveParams := lstep_resolveParams ih
  evalBounds := lstep_evalBounds ih
  declareVars := lstep_declareVars ih
  declareArrs := lstep_declareArrs ih
  outputAll := lstep_outputAll ih
  fileName := lstep_fileName ih
  execStmt := lstep_execStmt ih

end induction

/-- **the evaluator in the REPL and outside it run in lockstep, up to the echo**: all 25 functions, every fuel -/
theorem lsim_all : ∀ fuel, AllLSim fuel
  | 0 => AllLSim.zero
  | f + 1 => (lsim_all f).succ

/-- whole programs / REPL entries (`MainBlock::run`) -/
theorem lsim_runMain (f : Nat) (b : Block) : LSim (runMain f b) := by
  apply LSim.of_run
  intro τ p1 p2
  unfold runMain
  refine LSimAt.tryCatch (((lsim_all f).runBlock b).run τ p1 p2) ?_ (by intro d hd; rfl)
  intro e τ p1 p2
  lsim_auto

end ReplSim
end Pseudo
