import PseudoProofs.FrameInvDefs
import PseudoProofs.NoCrashRLoad
/-!
# C04 frame theorem: a value read by GETRECORD (`Codec.load`) contains no pointer
-/
namespace Pseudo.Frame
open Pseudo Pseudo.NR

theorem floaded_mem {defs : Codec.Defs} {fs fs' : List (Str × Val)} (h : All2 (FLoaded defs) fs fs') {q : Str × Val}
    (hq : q ∈ fs') : ∃ p ∈ fs, Loaded defs p.2 q.2 := by
  induction h with
  | nil => cases hq
  | @cons a b l₁ l₂ hab _ ih =>
    rcases List.mem_cons.1 hq with rfl | hq
    · exact ⟨a, List.mem_cons_self .., hab.2⟩
    · obtain ⟨x, hx, hxy⟩ := ih hq
      exact ⟨x, List.mem_cons_of_mem _ hx, hxy⟩

/-- what `Codec.load` produced contains no pointer (a pointer cannot be loaded: `load` fails on it) -/
theorem hasPtr_loaded {k : Nat} {y : Val} (hy : HasPtr k y) : ∀ (x : Val) (defs : Codec.Defs), Loaded defs x y → False := by
  induction hy with
  | ptr ty l hl =>
    intro x defs ⟨s, r, h⟩
    have hk := load_kind defs x _ s r h
    cases x <;> simp [kind, Val.ty] at hk
    simp [Codec.load] at h
  | comp ty fs p hp hpp ih =>
    intro x defs ⟨s, r, h⟩
    have hk := load_kind defs x _ s r h
    cases x <;> simp [kind, Val.ty] at hk
    rename_i ty0 fs0
    obtain ⟨s1, vs1, r1, s2, vs2, r2, h1, h2, heq⟩ := load_comp_inv h
    have hall := loadFields_forall defs fs0 s1 vs1 r1 s2 vs2 r2 h1 h2
    cases heq
    obtain ⟨p0, _, hl⟩ := floaded_mem hall hp
    exact ih _ _ hl
  | arr e d cs v hv hvp ih =>
    intro x defs ⟨s, r, h⟩
    have hk := load_kind defs x _ s r h
    cases x <;> simp [kind, Val.ty] at hk
    rename_i e0 d0 cells0
    obtain ⟨s1, cs1, r1, h1, heq⟩ := load_arr_inv h
    have hall := loadList_forall defs cells0 cs1 s1 r1 h1
    cases heq
    obtain ⟨x0, _, hl⟩ := loaded_mem hall hv
    exact ih _ _ hl

theorem noPtr_load {k : Nat} {defs : Codec.Defs} {cur nv : Val} {s r : Str} (h : Codec.load defs cur s = some (nv, r)) :
    NoPtr k nv := fun hp => hasPtr_loaded hp cur defs ⟨s, r, h⟩

end Pseudo.Frame
