import PseudoProofs.EvalStep
import Properties.C05Typed
/-!
# Typed store (C05): the invariant, the triple `EnsAt`, its combinators, the proof search

Files: `TypedInvBase.lean` (this file), `TypedInvSteps.lean` (`AllW`, the 25 functions except `execStmt`),
`TypedInv.lean` (the statements; `TypedInv.all : ∀ fuel, AllW fuel`); theorems in `Properties/C05Store.lean`.

`Inv σ` (the inductive strengthening of `C05.WT`):
* every variable slot of every live activation is `SlotOK`: a plain slot holds a value of its declared type, a BYREF
  alias slot's declared type is the declared type of the (root-level, plain) slot it points to, as long as that
  activation lives (`LocOK`);
* live activation ids are pairwise distinct and below the id counter (ids are never reused).

`Ext σ σ'`: same activation ids in the same order, the counter does not decrease, and in every activation each
variable name that resolved to a slot still resolves to a slot of the same declared type and alias target.
`LocOK` / `SlotOK` / `HolderOK` are monotone along `Ext` — that is what keeps a resolved holder valid while the
right-hand side, the bounds of a FOR loop or further arguments are evaluated.

`EnsAt σ m P`: running `m` from `σ` ends (however it ends) in a state `σ'` with `Inv σ'`, `Ext σ σ'`, and a normal
result `a` satisfies `P a σ'`. Combinators: `pure`, `throw`, `bind`, `bind_triv`, `bind_ro` (after a read-only
computation the continuation runs from the *same* state and knows the run equation of the first part),
`tryCatch`, `catchNotDefined`, `target`, `withAct` (bracket rule), `writeLoc` (the guard of a root-level store),
`addVar`, `fresh` (in `TypedInvSteps`), dead code after `rtErr` / `throw`.

`wt_auto`: syntax-directed search (leaves `wt_leaf`, library `wt_lib`, induction hypotheses `wt_ih` / `wt_ihb`,
extra bind rules `wt_bind`); what it leaves are exactly the stores and the value postconditions, with every
run equation and every `Ext` step of the path in the context.
-/
namespace Pseudo
namespace TypedInv
open C05

/-! ### definitions -/

/-- a root-level variable location `l` is (while its activation lives) a slot of declared type `ty` -/
def LocOK (σ : St) (l : Loc) (ty : Ty) : Prop :=
  l.isArr = false → l.path = [] →
    l.act < σ.nextId ∧
    ∀ a, σ.acts.find? (·.id == l.act) = some a →
      ∃ s, findSlot a.vars l.name = some s ∧ (s.ref = none → s.ty = ty)

def SlotOK (σ : St) (s : Slot) : Prop :=
  (s.ref = none → s.val.ty = s.ty) ∧ (∀ l, s.ref = some l → LocOK σ l s.ty)

def SlotsOK (σ : St) (ss : List Slot) : Prop := ∀ s ∈ ss, SlotOK σ s

structure Inv (σ : St) : Prop where
  slots : ∀ a ∈ σ.acts, SlotsOK σ a.vars
  nodup : (σ.acts.map (·.id)).Nodup
  below : ∀ a ∈ σ.acts, a.id < σ.nextId

theorem Inv.wt {σ : St} (h : Inv σ) : WT σ := fun a ha s hs href => (h.slots a ha s hs).1 href

def ActExt (a a' : Act) : Prop :=
  a'.id = a.id ∧
  ∀ n s, findSlot a.vars n = some s → ∃ s', findSlot a'.vars n = some s' ∧ s'.ty = s.ty ∧ s'.ref = s.ref

def ActsExt : List Act → List Act → Prop
  | [], [] => True
  | a :: as, b :: bs => ActExt a b ∧ ActsExt as bs
  | _, _ => False

structure Ext (σ σ' : St) : Prop where
  nextId : σ.nextId ≤ σ'.nextId
  acts : ActsExt σ.acts σ'.acts

/-- the result of `resolveRef` -/
def HolderOK (σ : St) (h : Holder) : Prop :=
  (h.isArr = true → h.loc.isArr = true ∨ h.loc.path ≠ []) ∧ LocOK σ h.loc h.ty

/-! ### `Ext` -/

theorem ActExt.refl (a : Act) : ActExt a a := ⟨rfl, fun _ s h => ⟨s, h, rfl, rfl⟩⟩

theorem ActExt.trans {a b c : Act} (h1 : ActExt a b) (h2 : ActExt b c) : ActExt a c := by
  refine ⟨h2.1.trans h1.1, fun n s hs => ?_⟩
  obtain ⟨s1, hs1, ht1, hr1⟩ := h1.2 n s hs
  obtain ⟨s2, hs2, ht2, hr2⟩ := h2.2 n s1 hs1
  exact ⟨s2, hs2, ht2.trans ht1, hr2.trans hr1⟩

theorem ActsExt.refl : ∀ as : List Act, ActsExt as as
  | [] => trivial
  | a :: as => ⟨ActExt.refl a, ActsExt.refl as⟩

theorem ActsExt.trans : ∀ {as bs cs : List Act}, ActsExt as bs → ActsExt bs cs → ActsExt as cs
  | [], [], [], _, _ => trivial
  | _ :: _, _ :: _, _ :: _, h1, h2 => ⟨h1.1.trans h2.1, ActsExt.trans h1.2 h2.2⟩
  | [], _ :: _, _, h1, _ => h1.elim
  | _ :: _, [], _, h1, _ => h1.elim
  | _ :: _, _ :: _, [], _, h2 => h2.elim
  | [], [], _ :: _, _, h2 => h2.elim

theorem ActsExt.ids : ∀ {as bs : List Act}, ActsExt as bs → bs.map (·.id) = as.map (·.id)
  | [], [], _ => rfl
  | a :: as, b :: bs, h => by
    have := ActsExt.ids h.2
    simp only [List.map_cons, this, h.1.1]
  | [], _ :: _, h => h.elim
  | _ :: _, [], h => h.elim

theorem ActsExt.find (i : Nat) : ∀ {as bs : List Act}, ActsExt as bs → ∀ b, bs.find? (·.id == i) = some b →
    ∃ a, as.find? (·.id == i) = some a ∧ ActExt a b
  | [], [], _, b, hb => by cases hb
  | a :: as, b' :: bs, h, b, hb => by
    simp only [List.find?_cons] at hb ⊢
    rw [h.1.1] at hb
    cases hid : (a.id == i) with
    | true =>
      rw [hid] at hb
      cases hb
      exact ⟨a, rfl, h.1⟩
    | false =>
      rw [hid] at hb
      exact ActsExt.find i h.2 b hb
  | [], _ :: _, h, _, _ => h.elim
  | _ :: _, [], h, _, _ => h.elim

theorem Ext.refl (σ : St) : Ext σ σ := ⟨Nat.le_refl _, ActsExt.refl _⟩
theorem Ext.trans {a b c : St} (h1 : Ext a b) (h2 : Ext b c) : Ext a c :=
  ⟨Nat.le_trans h1.1 h2.1, ActsExt.trans h1.2 h2.2⟩

instance : RPre Ext := ⟨Ext.refl, Ext.trans⟩

theorem Ext.ids {σ σ' : St} (h : Ext σ σ') : σ'.acts.map (·.id) = σ.acts.map (·.id) := ActsExt.ids h.2

theorem Ext.of_eq {σ σ' : St} (h1 : σ'.acts = σ.acts) (h2 : σ'.nextId = σ.nextId) : Ext σ σ' :=
  ⟨Nat.le_of_eq h2.symm, by rw [h1]; exact ActsExt.refl _⟩

theorem Ext.of_sameActs {σ σ' : St} (h : SameActs σ σ') : Ext σ σ' := Ext.of_eq h.1 h.2

theorem ActsExt.updActs (id : Nat) (f : Act → Act) (hf : ∀ a, ActExt a (f a)) :
    ∀ acts : List Act, ActsExt acts (updActs acts id f)
  | [] => trivial
  | a :: rest => by
    unfold Pseudo.updActs
    split
    · exact ⟨hf a, ActsExt.refl rest⟩
    · exact ⟨ActExt.refl a, ActsExt.updActs id f hf rest⟩

theorem Ext.updSt (σ : St) (id : Nat) (f : Act → Act) (hf : ∀ a, ActExt a (f a)) : Ext σ (updSt σ id f) :=
  ⟨Nat.le_refl _, ActsExt.updActs id f hf σ.acts⟩

theorem Ext.bracket {mk : Nat → Act} {σ σ2 : St} (h : Ext (pushSt mk σ) σ2) : Ext σ (popSt σ2) := by
  obtain ⟨h1, h2⟩ := h
  constructor
  · show σ.nextId ≤ σ2.nextId
    have : σ.nextId + 1 ≤ σ2.nextId := h1
    omega
  · show ActsExt σ.acts (σ2.acts.drop 1)
    have h2' : ActsExt (mk σ.nextId :: σ.acts) σ2.acts := h2
    cases hs : σ2.acts with
    | nil => rw [hs] at h2'; exact h2'.elim
    | cons b bs => rw [hs] at h2'; exact h2'.2

/-! ### monotonicity along `Ext` -/

theorem LocOK.mono {σ σ' : St} (he : Ext σ σ') {l : Loc} {ty : Ty} (h : LocOK σ l ty) : LocOK σ' l ty := by
  intro h1 h2
  obtain ⟨hlt, hf⟩ := h h1 h2
  refine ⟨Nat.lt_of_lt_of_le hlt he.1, fun a' ha' => ?_⟩
  obtain ⟨a, ha, hext⟩ := ActsExt.find l.act he.2 a' ha'
  obtain ⟨s, hs, hty⟩ := hf a ha
  obtain ⟨s', hs', ht', hr'⟩ := hext.2 _ s hs
  exact ⟨s', hs', fun hr => by rw [ht']; exact hty (by rw [← hr']; exact hr)⟩

theorem SlotOK.mono {σ σ' : St} (he : Ext σ σ') {s : Slot} (h : SlotOK σ s) : SlotOK σ' s :=
  ⟨h.1, fun l hl => (h.2 l hl).mono he⟩

theorem SlotsOK.mono {σ σ' : St} (he : Ext σ σ') {ss : List Slot} (h : SlotsOK σ ss) : SlotsOK σ' ss :=
  fun s hs => (h s hs).mono he

theorem HolderOK.mono {σ σ' : St} (he : Ext σ σ') {h : Holder} (hh : HolderOK σ h) : HolderOK σ' h :=
  ⟨hh.1, hh.2.mono he⟩

theorem SlotOK.plain {σ : St} {s : Slot} (hr : s.ref = none) (hv : s.val.ty = s.ty) : SlotOK σ s :=
  ⟨fun _ => hv, fun l hl => by rw [hr] at hl; cases hl⟩

theorem SlotsOK.nil (σ : St) : SlotsOK σ [] := fun _ h => by cases h

theorem SlotsOK.cons {σ : St} {s : Slot} {ss : List Slot} (h1 : SlotOK σ s) (h2 : SlotsOK σ ss) : SlotsOK σ (s :: ss) := by
  intro x hx
  rcases List.mem_cons.mp hx with h | h
  · rw [h]; exact h1
  · exact h2 x h

theorem SlotsOK.reverse {σ : St} {ss : List Slot} (h : SlotsOK σ ss) : SlotsOK σ ss.reverse :=
  fun s hs => h s (List.mem_reverse.mp hs)

theorem SlotsOK.append {σ : St} {ss ts : List Slot} (h1 : SlotsOK σ ss) (h2 : SlotsOK σ ts) : SlotsOK σ (ss ++ ts) := by
  intro x hx
  rcases List.mem_append.mp hx with h | h
  · exact h1 x h
  · exact h2 x h

/-! ### `Inv` along updates -/

/-- the general way to re-establish the invariant after a step that extends the state -/
theorem Inv.of_ext {σ σ' : St} (hi : Inv σ) (he : Ext σ σ') (hs : ∀ a ∈ σ'.acts, SlotsOK σ' a.vars) : Inv σ' := by
  refine ⟨hs, ?_, ?_⟩
  · rw [he.ids]; exact hi.nodup
  · intro a ha
    have : a.id ∈ σ'.acts.map (·.id) := List.mem_map.mpr ⟨a, ha, rfl⟩
    rw [he.ids] at this
    obtain ⟨a0, ha0, hid⟩ := List.mem_map.mp this
    rw [← hid]
    exact Nat.lt_of_lt_of_le (hi.below a0 ha0) he.1

theorem Inv.of_eq {σ σ' : St} (hi : Inv σ) (h1 : σ'.acts = σ.acts) (h2 : σ'.nextId = σ.nextId) : Inv σ' :=
  hi.of_ext (Ext.of_eq h1 h2) fun a ha => (hi.slots a (h1 ▸ ha)).mono (Ext.of_eq h1 h2)

/-- update of one activation: the new variable list of the updated activation must be fine (in the old state) -/
theorem Inv.updSt {σ : St} (hi : Inv σ) (id : Nat) (f : Act → Act) (hf : ∀ a, ActExt a (f a))
    (hs : ∀ a, σ.acts.find? (·.id == id) = some a → SlotsOK σ (f a).vars) : Inv (updSt σ id f) := by
  have he := Ext.updSt σ id f hf
  refine hi.of_ext he fun a' ha' => ?_
  rcases mem_updActs ha' with h | ⟨a, ha, rfl⟩
  · exact (hi.slots a' h).mono he
  · exact (hs a ha).mono he

theorem find_of_mem_nodup : ∀ {acts : List Act}, (acts.map (·.id)).Nodup → ∀ {a : Act}, a ∈ acts →
    acts.find? (·.id == a.id) = some a
  | [], _, _, ha => by cases ha
  | b :: rest, hn, a, ha => by
    simp only [List.map_cons, List.nodup_cons] at hn
    simp only [List.find?_cons]
    rcases List.mem_cons.mp ha with h | h
    · subst h
      simp
    · have hne : (b.id == a.id) = false := by
        cases hb : (b.id == a.id) with
        | false => rfl
        | true =>
          exfalso
          have : b.id = a.id := by simpa using hb
          exact hn.1 (this ▸ List.mem_map.mpr ⟨a, h, rfl⟩)
      rw [hne]
      exact find_of_mem_nodup hn.2 h

theorem find_id {acts : List Act} {i : Nat} {a : Act} (h : acts.find? (·.id == i) = some a) : a.id = i := by
  simpa using List.find?_some h

theorem LocOK.push {σ : St} (mk : Nat → Act) (hmk : (mk σ.nextId).id = σ.nextId) {l : Loc} {ty : Ty}
    (h : LocOK σ l ty) : LocOK (pushSt mk σ) l ty := by
  intro h1 h2
  obtain ⟨hlt, hf⟩ := h h1 h2
  refine ⟨Nat.lt_succ_of_lt hlt, fun a ha => ?_⟩
  have ha' : (mk σ.nextId :: σ.acts).find? (·.id == l.act) = some a := ha
  simp only [List.find?_cons] at ha'
  have : ((mk σ.nextId).id == l.act) = false := by
    rw [hmk]
    cases hb : (σ.nextId == l.act) with
    | false => rfl
    | true =>
      have : σ.nextId = l.act := by simpa using hb
      omega
  rw [this] at ha'
  exact hf a ha'

theorem Inv.push {σ : St} (hi : Inv σ) (mk : Nat → Act) (hmk : (mk σ.nextId).id = σ.nextId)
    (hs : SlotsOK σ (mk σ.nextId).vars) : Inv (pushSt mk σ) := by
  have hpush : ∀ {s : Slot}, SlotOK σ s → SlotOK (pushSt mk σ) s :=
    fun h => ⟨h.1, fun l hl => (h.2 l hl).push mk hmk⟩
  refine ⟨?_, ?_, ?_⟩
  · intro a ha s hs'
    rcases List.mem_cons.mp (show a ∈ mk σ.nextId :: σ.acts from ha) with h | h
    · subst h; exact hpush (hs s hs')
    · exact hpush (hi.slots a h s hs')
  · show ((mk σ.nextId :: σ.acts).map (·.id)).Nodup
    simp only [List.map_cons, List.nodup_cons]
    refine ⟨fun hmem => ?_, hi.nodup⟩
    obtain ⟨a, ha, hid⟩ := List.mem_map.mp hmem
    have := hi.below a ha
    rw [hmk] at hid
    omega
  · intro a ha
    rcases List.mem_cons.mp (show a ∈ mk σ.nextId :: σ.acts from ha) with h | h
    · subst h; rw [hmk]; exact Nat.lt_succ_self _
    · exact Nat.lt_succ_of_lt (hi.below a h)

theorem Inv.pop {σ : St} (hi : Inv σ) : Inv (popSt σ) := by
  cases hacts : σ.acts with
  | nil =>
    have : popSt σ = σ := by
      cases σ; simp only [popSt] at *; simp [hacts]
    rw [this]; exact hi
  | cons b rest =>
    have hpa : (popSt σ).acts = rest := by simp [popSt, hacts]
    have hnd := hi.nodup
    rw [hacts] at hnd
    simp only [List.map_cons, List.nodup_cons] at hnd
    have hloc : ∀ {l : Loc} {ty : Ty}, LocOK σ l ty → LocOK (popSt σ) l ty := by
      intro l ty h h1 h2
      obtain ⟨hlt, hf⟩ := h h1 h2
      refine ⟨hlt, fun a ha => ?_⟩
      rw [hpa] at ha
      apply hf a
      rw [hacts]
      simp only [List.find?_cons]
      have : (b.id == l.act) = false := by
        cases hb : (b.id == l.act) with
        | false => rfl
        | true =>
          exfalso
          have hb' : b.id = l.act := by simpa using hb
          have : a.id = l.act := find_id ha
          exact hnd.1 (List.mem_map.mpr ⟨a, List.mem_of_find?_eq_some ha, by rw [this, hb']⟩)
      rw [this]
      exact ha
    refine ⟨?_, ?_, ?_⟩
    · intro a ha s hs
      rw [hpa] at ha
      have := hi.slots a (by rw [hacts]; exact List.mem_cons_of_mem _ ha) s hs
      exact ⟨this.1, fun l hl => hloc (this.2 l hl)⟩
    · rw [hpa]; exact hnd.2
    · intro a ha
      rw [hpa] at ha
      exact hi.below a (by rw [hacts]; exact List.mem_cons_of_mem _ ha)

/-! ### the triple -/

/-- running `m` from `σ`: the final state satisfies `Inv` and extends `σ`; a normal result satisfies `P` -/
structure EnsAt {α : Type} (σ : St) (m : M α) (P : α → St → Prop) : Prop where
  inv : Inv (m.run.run σ).2
  ext : Ext σ (m.run.run σ).2
  post : ∀ a, (m.run.run σ).1 = .ok a → P a (m.run.run σ).2

/-- the trivial postcondition -/
abbrev T {α : Type} : α → St → Prop := fun _ _ => True

/-- `m` never changes the state -/
def RO {α : Type} (m : M α) : Prop := ∀ σ, (m.run.run σ).2 = σ

def SameSt (σ σ' : St) : Prop := σ' = σ
instance : RPre SameSt := ⟨fun _ => rfl, fun h1 h2 => h2.trans h1⟩

/-- an opaque trivial postcondition on exceptions (a `def`, so that no beta-reduction gets in the way of the search) -/
def QT : Stop → Prop := fun _ => True
instance : QBase QT := ⟨fun _ => trivial, fun _ => trivial, trivial⟩

theorem RO.of_ens {α : Type} {m : M α} (h : Ens SameSt QT m) : RO m := fun σ => (h.run σ).1

section combinators
variable {α β : Type} {σ : St}

theorem EnsAt.pure {a : α} {P : α → St → Prop} (hi : Inv σ) (hp : P a σ) : EnsAt σ (pure a : M α) P :=
  ⟨hi, Ext.refl σ, fun _ h => by cases h; exact hp⟩

theorem EnsAt.throw {e : Stop} {P : α → St → Prop} (hi : Inv σ) : EnsAt σ (throw e : M α) P :=
  ⟨hi, Ext.refl σ, fun _ h => by cases h⟩

theorem EnsAt.triv {m : M α} {P : α → St → Prop} (h : EnsAt σ m P) : EnsAt σ m T :=
  ⟨h.inv, h.ext, fun _ _ => trivial⟩

theorem EnsAt.mono {m : M α} {P Q : α → St → Prop} (h : EnsAt σ m P)
    (hpq : ∀ a σ', Inv σ' → Ext σ σ' → P a σ' → Q a σ') : EnsAt σ m Q :=
  ⟨h.inv, h.ext, fun a ha => hpq a _ h.inv h.ext (h.post a ha)⟩

theorem EnsAt.bind {m : M α} {f : α → M β} {P : α → St → Prop} {Q : β → St → Prop} (hm : EnsAt σ m P)
    (hf : ∀ a σ1, Inv σ1 → Ext σ σ1 → P a σ1 → EnsAt σ1 (f a) Q) : EnsAt σ (m >>= f) Q := by
  rcases h : m.run.run σ with ⟨e | a, σ'⟩
  · have h1 := hm.inv; have h2 := hm.ext
    rw [h] at h1 h2
    refine ⟨?_, ?_, ?_⟩ <;> rw [run_bind_err m f σ σ' e h]
    · exact h1
    · exact h2
    · intro _ hh; cases hh
  · have h1 := hm.inv; have h2 := hm.ext; have h3 := hm.post a
    rw [h] at h1 h2 h3
    have hk := hf a σ' h1 h2 (h3 rfl)
    refine ⟨?_, ?_, ?_⟩ <;> rw [run_bind_ok m f σ σ' a h]
    · exact hk.inv
    · exact h2.trans hk.ext
    · exact hk.post

theorem EnsAt.bind_triv {m : M α} {f : α → M β} {Q : β → St → Prop} (hm : EnsAt σ m T)
    (hf : ∀ a σ1, Inv σ1 → Ext σ σ1 → EnsAt σ1 (f a) Q) : EnsAt σ (m >>= f) Q :=
  hm.bind fun a σ1 h1 h2 _ => hf a σ1 h1 h2

/-- bind after a computation that does not change the state: the continuation runs from the same state and knows
    the run equation of the first part -/
theorem EnsAt.bind_ro {m : M α} {f : α → M β} {Q : β → St → Prop} (hro : RO m) (hi : Inv σ)
    (hf : ∀ a, (m.run.run σ).1 = .ok a → EnsAt σ (f a) Q) : EnsAt σ (m >>= f) Q := by
  rcases h : m.run.run σ with ⟨e | a, σ'⟩
  · have : σ' = σ := by have := hro σ; rw [h] at this; exact this
    subst this
    refine ⟨?_, ?_, ?_⟩ <;> rw [run_bind_err m f _ _ e h]
    · exact hi
    · exact Ext.refl _
    · intro _ hh; cases hh
  · have : σ' = σ := by have := hro σ; rw [h] at this; exact this
    subst this
    have hk := hf a (by rw [h])
    refine ⟨?_, ?_, ?_⟩ <;> rw [run_bind_ok m f _ _ a h]
    · exact hk.inv
    · exact hk.ext
    · exact hk.post

theorem EnsAt.pure_bind {a : α} {f : α → M β} {Q : β → St → Prop} (h : EnsAt σ (f a) Q) :
    EnsAt σ ((Pure.pure a : M α) >>= f) Q := by
  refine ⟨?_, ?_, ?_⟩ <;> rw [run_bind_ok _ _ _ _ _ (run_pure a σ)]
  · exact h.inv
  · exact h.ext
  · exact h.post

theorem EnsAt.ro {m : M α} (hro : RO m) (hi : Inv σ) : EnsAt σ m T :=
  ⟨by rw [hro σ]; exact hi, by rw [hro σ]; exact Ext.refl _, fun _ _ => trivial⟩

/-- a read-only computation as a leaf, keeping its run equation -/
theorem EnsAt.ro_post {m : M α} {P : α → St → Prop} (hro : RO m) (hi : Inv σ)
    (hp : ∀ a, (m.run.run σ).1 = .ok a → P a σ) : EnsAt σ m P :=
  ⟨by rw [hro σ]; exact hi, by rw [hro σ]; exact Ext.refl _, fun a ha => by rw [hro σ]; exact hp a ha⟩

theorem EnsAt.tryCatch {m : M α} {hd : Stop → M α} {P : α → St → Prop} (hm : EnsAt σ m P)
    (hh : ∀ e σ1, Inv σ1 → Ext σ σ1 → EnsAt σ1 (hd e) P) : EnsAt σ (tryCatch m hd) P := by
  rcases h : m.run.run σ with ⟨e | a, σ'⟩
  · have h1 := hm.inv; have h2 := hm.ext
    rw [h] at h1 h2
    have hk := hh e σ' h1 h2
    refine ⟨?_, ?_, ?_⟩ <;> rw [run_tryCatch_err m hd σ σ' e h]
    · exact hk.inv
    · exact h2.trans hk.ext
    · exact hk.post
  · have h1 := hm.inv; have h2 := hm.ext; have h3 := hm.post a
    rw [h] at h1 h2 h3
    refine ⟨?_, ?_, ?_⟩ <;> rw [run_tryCatch_ok m hd σ σ' a h]
    · exact h1
    · exact h2
    · intro b hb; cases hb; exact h3 rfl

theorem EnsAt.tryCatch' {m : M α} {hd : Stop → M α} {P : α → St → Prop} (hm : EnsAt σ m P)
    (hh : ∀ e σ1, Inv σ1 → Ext σ σ1 → EnsAt σ1 (hd e) P) : EnsAt σ (MonadExcept.tryCatch m hd) P :=
  EnsAt.tryCatch hm hh

theorem EnsAt.get (hi : Inv σ) : EnsAt σ (MonadState.get : M St) T :=
  ⟨hi, Ext.refl σ, fun _ _ => trivial⟩

theorem EnsAt.get_bind {f : St → M α} {P : α → St → Prop} (h : EnsAt σ (f σ) P) :
    EnsAt σ ((MonadState.get : M St) >>= f) P := by
  refine ⟨?_, ?_, ?_⟩ <;> rw [run_bind_ok _ _ _ _ _ (run_get σ)]
  · exact h.inv
  · exact h.ext
  · exact h.post

/-- a step that leaves the activations and the id counter alone -/
theorem EnsAt.of_sameActs {m : M α} (h : Ens SameActs QT m) (hi : Inv σ) : EnsAt σ m T :=
  have hs := (h.run σ).1
  ⟨hi.of_eq hs.1 hs.2, Ext.of_sameActs hs, fun _ _ => trivial⟩

theorem EnsAt.modify_frame (f : St → St) (h1 : (f σ).acts = σ.acts) (h2 : (f σ).nextId = σ.nextId) (hi : Inv σ) :
    EnsAt σ (modify f : M PUnit) T :=
  ⟨hi.of_eq h1 h2, Ext.of_eq h1 h2, fun _ _ => trivial⟩

/-- `modifyAct` with an update that is fine -/
theorem EnsAt.modifyAct (id : Nat) (f : Act → Act) (hi : Inv σ) (hf : ∀ a, ActExt a (f a))
    (hs : ∀ a, σ.acts.find? (·.id == id) = some a → SlotsOK σ (f a).vars) : EnsAt σ (modifyAct id f) T :=
  ⟨hi.updSt id f hf hs, Ext.updSt σ id f hf, fun _ _ => trivial⟩

theorem ActExt.of_meta {f : Act → Act} (hf : ∀ a, (f a).id = a.id ∧ (f a).vars = a.vars) (a : Act) : ActExt a (f a) :=
  ⟨(hf a).1, fun n s hs => ⟨s, by rw [(hf a).2]; exact hs, rfl, rfl⟩⟩

/-- `modifyAct` with an update that keeps id and variables -/
theorem EnsAt.modifyAct_meta (id : Nat) (f : Act → Act) (hi : Inv σ) (hf : ∀ a, (f a).id = a.id ∧ (f a).vars = a.vars) :
    EnsAt σ (Pseudo.modifyAct id f) T :=
  EnsAt.modifyAct id f hi (ActExt.of_meta hf) fun a ha => by
    rw [(hf a).2]; exact hi.slots a (List.mem_of_find?_eq_some ha)

end combinators

/-! ### the primitives that change activations -/

theorem RO.curAct : RO curAct := RO.of_ens Ens.l_curAct
theorem RO.findAct (id : Nat) : RO (findAct id) := RO.of_ens (Ens.l_findAct id)
theorem RO.rtErr {α : Type} (t : Tok) (m : Msg) : RO (rtErr t m : M α) := RO.of_ens (Ens.l_rtErr t m)

section prims
variable {α : Type} {σ : St}

theorem EnsAt.rtErr {P : α → St → Prop} (t : Tok) (m : Msg) (hi : Inv σ) : EnsAt σ (rtErr t m : M α) P := by
  refine ⟨?_, ?_, ?_⟩ <;> rw [run_rtErr]
  · exact hi
  · exact Ext.refl _
  · intro _ h; cases h

/-- `rtErr` never returns: what follows it is dead code -/
theorem EnsAt.rtErr_bind {β : Type} {Q : β → St → Prop} (t : Tok) (m : Msg) (f : α → M β) (hi : Inv σ) :
    EnsAt σ ((Pseudo.rtErr t m : M α) >>= f) Q := by
  refine ⟨?_, ?_, ?_⟩ <;> rw [run_bind_err _ _ _ _ _ (run_rtErr t m σ)]
  · exact hi
  · exact Ext.refl _
  · intro _ h; cases h

theorem EnsAt.throw_bind {β : Type} {Q : β → St → Prop} (e : Stop) (f : α → M β) (hi : Inv σ) :
    EnsAt σ ((MonadExcept.throw e : M α) >>= f) Q := by
  refine ⟨?_, ?_, ?_⟩ <;> rw [run_bind_err _ _ _ _ _ (run_throw e σ)]
  · exact hi
  · exact Ext.refl _
  · intro _ h; cases h

theorem EnsAt.modifyCur (f : Act → Act) (hi : Inv σ) (hf : ∀ a, ActExt a (f a))
    (hs : ∀ a ∈ σ.acts, SlotsOK σ (f a).vars) : EnsAt σ (modifyCur f) T := by
  unfold Pseudo.modifyCur
  refine EnsAt.bind_ro RO.curAct hi fun a _ => ?_
  exact EnsAt.modifyAct a.id f hi hf fun a' ha' => hs a' (List.mem_of_find?_eq_some ha')

theorem EnsAt.modifyCur_meta (f : Act → Act) (hi : Inv σ) (hf : ∀ a, (f a).id = a.id ∧ (f a).vars = a.vars) :
    EnsAt σ (Pseudo.modifyCur f) T :=
  EnsAt.modifyCur f hi (ActExt.of_meta hf) fun a ha => by rw [(hf a).2]; exact hi.slots a ha

theorem findSlot_append_some {ss : List Slot} {n : Str} {s : Slot} (ts : List Slot) (h : findSlot ss n = some s) :
    findSlot (ss ++ ts) n = some s := by
  unfold findSlot at *
  rw [List.find?_append, h]; rfl

theorem EnsAt.addVar (s : Slot) (hi : Inv σ) (hs : SlotOK σ s) : EnsAt σ (addVar s) T := by
  unfold Pseudo.addVar
  refine EnsAt.modifyCur _ hi (fun a => ⟨rfl, fun n s0 h0 => ⟨s0, findSlot_append_some _ h0, rfl, rfl⟩⟩) fun a ha => ?_
  exact (hi.slots a ha).append (SlotsOK.cons hs (SlotsOK.nil σ))

theorem EnsAt.addArr (s : Slot) (hi : Inv σ) : EnsAt σ (addArr s) T := by
  unfold Pseudo.addArr
  exact EnsAt.modifyCur_meta _ hi fun _ => ⟨rfl, rfl⟩

theorem findSlot_updSlot_ext (n : Str) (g : Slot → Slot)
    (hg : ∀ s, (g s).name = s.name ∧ (g s).ty = s.ty ∧ (g s).ref = s.ref) (m : Str) :
    ∀ (ss : List Slot) (s : Slot), findSlot ss m = some s →
      ∃ s', findSlot (updSlot ss n g) m = some s' ∧ s'.ty = s.ty ∧ s'.ref = s.ref := by
  intro ss
  induction ss with
  | nil => intro s h; cases h
  | cons x rest ih =>
    intro s h
    unfold updSlot
    unfold findSlot at h ih ⊢
    simp only [List.find?_cons] at h
    split
    · simp only [List.find?_cons, (hg x).1]
      cases hx : (x.name == m) with
      | true =>
        rw [hx] at h; cases h
        exact ⟨g x, rfl, (hg x).2.1, (hg x).2.2⟩
      | false =>
        rw [hx] at h
        exact ⟨s, h, rfl, rfl⟩
    · simp only [List.find?_cons]
      cases hx : (x.name == m) with
      | true =>
        rw [hx] at h; cases h
        exact ⟨x, rfl, rfl, rfl⟩
      | false =>
        rw [hx] at h
        exact ih s h

/-- `writeLoc`: a root-level variable write must carry a value of the declared type of the (plain) slot it hits -/
theorem EnsAt.writeLoc (t : Tok) (l : Loc) (v : Val) (hi : Inv σ)
    (hg : l.isArr = false → l.path = [] → ∀ a s, σ.acts.find? (·.id == l.act) = some a →
      findSlot a.vars l.name = some s → s.ref = none → v.ty = s.ty) : EnsAt σ (writeLoc t l v) T := by
  unfold Pseudo.writeLoc
  refine EnsAt.bind_ro (RO.findAct _) hi fun oa hoa => ?_
  rw [run_findAct] at hoa
  cases oa with
  | none => exact EnsAt.throw hi
  | some a =>
    have hfa : σ.acts.find? (·.id == l.act) = some a := by injection hoa
    have hain : a ∈ σ.acts := List.mem_of_find?_eq_some hfa
    have haid : a.id = l.act := find_id hfa
    dsimp only
    cases hso : slotOf a l with
    | none => exact EnsAt.throw hi
    | some s =>
      dsimp only
      split
      · exact EnsAt.rtErr _ _ hi
      · cases hsp : setPath s.val l.path v with
        | none => exact EnsAt.throw hi
        | some nv =>
          dsimp only
          refine EnsAt.modifyAct _ _ hi (fun a0 => ?_) (fun a' ha' => ?_)
          · split
            · exact ⟨rfl, fun n s0 h0 => ⟨s0, h0, rfl, rfl⟩⟩
            · exact ⟨rfl, fun n s0 h0 => findSlot_updSlot_ext l.name (fun s => { s with val := nv }) (fun _ => ⟨rfl, rfl, rfl⟩) n _ s0 h0⟩
          · rw [haid, hfa] at ha'
            cases ha'
            unfold slotOf at hso
            cases hl : l.isArr with
            | true =>
              simp only [if_true]
              exact hi.slots a hain
            | false =>
              simp only [hl, Bool.false_eq_true, if_false] at hso ⊢
              intro s' hs'
              rcases mem_updSlot hs' with hmem | ⟨s0, hs0, rfl⟩
              · exact hi.slots a hain s' hmem
              · rw [hso] at hs0
                cases hs0
                have hsin : s ∈ a.vars := List.mem_of_find?_eq_some hso
                have hsok := hi.slots a hain s hsin
                refine ⟨fun href => ?_, fun l' hl' => hsok.2 l' hl'⟩
                show nv.ty = s.ty
                by_cases hp : l.path = []
                · rw [hp] at hsp
                  simp only [setPath] at hsp
                  cases hsp
                  exact hg hl hp a s hfa hso href
                · rw [C05_setPath_root_ty _ _ _ _ hp hsp]
                  exact hsok.1 href

/-- the bracket rule -/
theorem EnsAt.withAct {P0 : α → Prop} (mk : Nat → Act) (body : M α) (hi : Inv σ) (hmk : (mk σ.nextId).id = σ.nextId)
    (hs : SlotsOK σ (mk σ.nextId).vars)
    (hb : Inv (pushSt mk σ) → EnsAt (pushSt mk σ) body (fun a _ => P0 a)) :
    EnsAt σ (withAct mk body) (fun a _ => P0 a) := by
  have hb' := hb (hi.push mk hmk hs)
  refine ⟨?_, ?_, ?_⟩ <;> rw [run_withAct]
  · exact hb'.inv.pop
  · exact Ext.bracket hb'.ext
  · exact hb'.post

theorem EnsAt.withAct_T (mk : Nat → Act) (body : M α) (hi : Inv σ) (hmk : (mk σ.nextId).id = σ.nextId)
    (hs : SlotsOK σ (mk σ.nextId).vars)
    (hb : Inv (pushSt mk σ) → EnsAt (pushSt mk σ) body T) : EnsAt σ (Pseudo.withAct mk body) T :=
  EnsAt.withAct (P0 := fun _ => True) mk body hi hmk hs hb

theorem EnsAt.catchNotDefined {m : M α} {h : Stop → M α} {P : α → St → Prop} (hm : EnsAt σ m P)
    (hh : ∀ e σ1, Inv σ1 → Ext σ σ1 → EnsAt σ1 (h e) P) : EnsAt σ (catchNotDefined m h) P := by
  unfold Pseudo.catchNotDefined
  refine EnsAt.tryCatch hm fun e σ1 h1 h2 => ?_
  split
  · split
    · refine EnsAt.get_bind ?_
      split
      · exact hh _ σ1 h1 h2
      · exact EnsAt.throw h1
    · exact EnsAt.throw h1
  · exact EnsAt.throw h1

end prims

/-! ### what the read-only functions return -/

theorem run_curAct (σ : St) :
    curAct.run.run σ = ((match σ.acts with | a :: _ => .ok a | [] => .error (.crash .noActivation)), σ) := by
  unfold curAct
  rw [run_bind_ok _ _ _ _ _ (run_get σ)]
  cases σ.acts <;> rfl

theorem run_globalAct (σ : St) :
    globalAct.run.run σ = ((match σ.acts.getLast? with | some a => .ok a | none => .error (.crash .noActivation)), σ) := by
  unfold globalAct
  rw [run_bind_ok _ _ _ _ _ (run_get σ)]
  cases σ.acts.getLast? <;> rfl

/-- `lookupVar` as a function of the state -/
theorem run_lookupVar (n : Str) (σ : St) (cur : Act) (rest : List Act) (hacts : σ.acts = cur :: rest) :
    ∃ g, g ∈ σ.acts ∧ (lookupVar n).run.run σ = (.ok (lookupVarIn cur g n), σ) := by
  obtain ⟨g, hg⟩ : ∃ g, σ.acts.getLast? = some g := by
    rw [hacts]; exact ⟨_, List.getLast?_eq_some_getLast (by simp)⟩
  refine ⟨g, List.mem_of_getLast? hg, ?_⟩
  unfold lookupVar
  have h1 : curAct.run.run σ = (.ok cur, σ) := by rw [run_curAct, hacts]
  have h2 : globalAct.run.run σ = (.ok g, σ) := by rw [run_globalAct, hg]
  rw [run_bind_ok _ _ _ _ _ h1, run_bind_ok _ _ _ _ _ h2]
  rfl

theorem lookupVar_some {n : Str} {σ : St} {a : Act} {s : Slot}
    (h : ((lookupVar n).run.run σ).1 = .ok (some (a, s))) : a ∈ σ.acts ∧ findSlot a.vars n = some s := by
  cases hacts : σ.acts with
  | nil =>
    exfalso
    unfold lookupVar at h
    have h1 : curAct.run.run σ = (.error (.crash .noActivation), σ) := by rw [run_curAct, hacts]
    rw [run_bind_err _ _ _ _ _ h1] at h
    cases h
  | cons cur rest =>
    obtain ⟨g, hg, hrun⟩ := run_lookupVar n σ cur rest hacts
    rw [hrun] at h
    have h' : lookupVarIn cur g n = some (a, s) := by injection h
    unfold lookupVarIn at h'
    cases hc : findSlot cur.vars n with
    | some s' =>
      rw [hc] at h'
      cases h'
      exact ⟨by simp, hc⟩
    | none =>
      rw [hc] at h'
      dsimp only at h'
      split at h'
      · cases h'
      · cases hgs : findSlot g.vars n with
        | none => rw [hgs] at h'; cases h'
        | some s' =>
          rw [hgs] at h'
          cases h'
          exact ⟨hacts ▸ hg, hgs⟩

theorem lookupVar_none {n : Str} {σ : St} (h : ((lookupVar n).run.run σ).1 = .ok none)
    (cur : Act) (rest : List Act) (hacts : σ.acts = cur :: rest) : findSlot cur.vars n = none := by
  obtain ⟨g, _, hrun⟩ := run_lookupVar n σ cur rest hacts
  rw [hrun] at h
  have h' : lookupVarIn cur g n = none := by injection h
  unfold lookupVarIn at h'
  cases hc : findSlot cur.vars n with
  | some s' => rw [hc] at h'; cases h'
  | none => rfl

theorem findSlot_name {ss : List Slot} {n : Str} {s : Slot} (h : findSlot ss n = some s) : s.name = n := by
  unfold findSlot at h
  simpa using List.find?_some h

/-- the location of a slot found by name in a live activation -/
theorem LocOK.of_slot {σ : St} (hi : Inv σ) {a : Act} (ha : a ∈ σ.acts) {n : Str} {s : Slot}
    (hs : findSlot a.vars n = some s) :
    LocOK σ { act := a.id, isArr := false, name := s.name, path := [] } s.ty := by
  intro _ _
  refine ⟨hi.below a ha, fun a' ha' => ?_⟩
  have : σ.acts.find? (·.id == a.id) = some a := find_of_mem_nodup hi.nodup ha
  have ha'' : σ.acts.find? (·.id == a.id) = some a' := ha'
  rw [this] at ha''
  cases ha''
  exact ⟨s, by show findSlot a.vars s.name = some s; rw [findSlot_name hs]; exact hs, fun _ => rfl⟩

theorem readLocP_root {σ : St} {l : Loc} {v : Val} (h : readLocP σ l = .ok v) (h1 : l.isArr = false) (h2 : l.path = []) :
    ∃ a s, σ.acts.find? (·.id == l.act) = some a ∧ findSlot a.vars l.name = some s ∧ v = s.val := by
  unfold readLocP at h
  cases ha : σ.acts.find? (·.id == l.act) with
  | none => rw [ha] at h; cases h
  | some a =>
    rw [ha] at h
    dsimp only at h
    unfold slotOf at h
    simp only [h1, Bool.false_eq_true, if_false, h2, getPath] at h
    cases hs : findSlot a.vars l.name with
    | none => rw [hs] at h; cases h
    | some s =>
      rw [hs] at h
      dsimp only at h
      injection h with h
      exact ⟨a, s, rfl, hs, h.symm⟩

/-- a location that reads `v` now: its slot (if root-level and plain) has declared type `v.ty` -/
theorem LocOK.of_read {σ : St} (hi : Inv σ) {l : Loc} {v : Val} (h : readLocP σ l = .ok v) : LocOK σ l v.ty := by
  intro h1 h2
  obtain ⟨a, s, ha, hs, hv⟩ := readLocP_root h h1 h2
  have hain := List.mem_of_find?_eq_some ha
  refine ⟨by rw [← find_id ha]; exact hi.below a hain, fun a' ha' => ?_⟩
  rw [ha] at ha'
  cases ha'
  refine ⟨s, hs, fun hr => ?_⟩
  rw [hv]
  exact ((hi.slots a hain s (List.mem_of_find?_eq_some hs)).1 hr).symm

theorem readLoc_run_ok {σ : St} {l : Loc} {v : Val} (h : ((readLoc l).run.run σ).1 = .ok v) : readLocP σ l = .ok v := by
  rw [run_readLoc] at h; exact h

section writes
variable {σ : St}

/-- a write guarded by a `LocOK` fact -/
theorem EnsAt.writeLoc_of_locOK (t : Tok) {l : Loc} {ty : Ty} (v : Val) (hi : Inv σ) (hl : LocOK σ l ty) (hv : v.ty = ty) :
    EnsAt σ (Pseudo.writeLoc t l v) T :=
  EnsAt.writeLoc t l v hi fun h1 h2 a s ha hs hr => by
    obtain ⟨_, hf⟩ := hl h1 h2
    obtain ⟨s', hs', hty⟩ := hf a ha
    rw [hs] at hs'
    cases hs'
    rw [hv, hty hr]

/-- a write of a value of the type of the value just read there -/
theorem EnsAt.writeLoc_of_read (t : Tok) {l : Loc} {v0 : Val} (v : Val) (hi : Inv σ)
    (hr : ((readLoc l).run.run σ).1 = .ok v0) (hv : v.ty = v0.ty) : EnsAt σ (Pseudo.writeLoc t l v) T :=
  EnsAt.writeLoc_of_locOK t v hi (LocOK.of_read hi (readLoc_run_ok hr)) hv

theorem EnsAt.writeLoc_holder (t : Tok) {h : Holder} (v : Val) (hi : Inv σ) (hh : HolderOK σ h) (hv : v.ty = h.ty) :
    EnsAt σ (Pseudo.writeLoc t h.loc v) T :=
  EnsAt.writeLoc_of_locOK t v hi hh.2 hv

/-- a write to an array root or through a path -/
theorem EnsAt.writeLoc_nonroot (t : Tok) {l : Loc} (v : Val) (hi : Inv σ) (h : l.isArr = true ∨ l.path ≠ []) :
    EnsAt σ (Pseudo.writeLoc t l v) T :=
  EnsAt.writeLoc t l v hi fun h1 h2 => by
    rcases h with h | h
    · rw [h1] at h; cases h
    · exact absurd h2 h

end writes

theorem ty_of_not_bne {a b : Ty} (h : ¬ (a != b) = true) : a = b := by simpa using h

/-- the result of resolving an assignment / INPUT target: a holder, or `none` (the variable is to be created) -/
abbrev TargetPost : Option Holder → St → Prop := fun o σ' => ∀ h, o = some h → HolderOK σ' h

theorem EnsAt.target {σ : St} {m : M Holder} {hd : Stop → M (Option Holder)} (hm : EnsAt σ m (fun h σ' => HolderOK σ' h))
    (hh : ∀ e σ1, Inv σ1 → Ext σ σ1 → EnsAt σ1 (hd e) (fun o _ => o = none)) :
    EnsAt σ (Pseudo.catchNotDefined (m >>= fun h => Pure.pure (some h)) hd) TargetPost := by
  refine EnsAt.catchNotDefined ?_ fun e σ1 h1 h2 => (hh e σ1 h1 h2).mono fun o _ _ _ ho h hh' => ?_
  · refine hm.bind fun h σ1 h1 _ hp => EnsAt.pure h1 fun h' hh' => ?_
    cases hh'
    exact hp
  · rw [ho] at hh'; cases hh'

/-! ### automation -/

syntax "wt_lib" : tactic
macro_rules | `(tactic| wt_lib) => `(tactic| fail "wt_lib: no lemma")
syntax "wt_ih" : tactic
macro_rules | `(tactic| wt_ih) => `(tactic| fail "wt_ih: no hypothesis")
/-- further rules for binds (tried before the generic ones) -/
syntax "wt_bind" : tactic
macro_rules | `(tactic| wt_bind) => `(tactic| fail "wt_bind: no rule")
/-- binds whose first part is a function of the induction with a value postcondition -/
syntax "wt_ihb" : tactic
macro_rules | `(tactic| wt_ihb) => `(tactic| fail "wt_ihb: no hypothesis")

/-- leaves -/
macro "wt_leaf" : tactic => `(tactic| with_reducible first
  | exact EnsAt.pure (by assumption) trivial
  | exact EnsAt.throw (by assumption)
  | exact EnsAt.rtErr _ _ (by assumption)
  | (refine EnsAt.ro (RO.of_ens ?ro) (by assumption); case ro => ens_lib)
  | exact EnsAt.get (by assumption)
  | exact EnsAt.of_sameActs (frame_emit _) (by assumption)
  | exact EnsAt.of_sameActs (frame_tick _) (by assumption)
  | exact EnsAt.of_sameActs frame_getLine (by assumption)
  | exact EnsAt.of_sameActs (frame_doFile _ _) (by assumption)
  | exact EnsAt.of_sameActs (frame_doFile0 _) (by assumption)
  | exact EnsAt.modify_frame _ rfl rfl (by assumption)
  | exact EnsAt.modifyAct_meta _ _ (by assumption) (fun _ => ⟨rfl, rfl⟩)
  | exact EnsAt.modifyCur_meta _ (by assumption) (fun _ => ⟨rfl, rfl⟩)
  | exact EnsAt.addArr _ (by assumption)
  | exact EnsAt.addVar _ (by assumption) (SlotOK.plain rfl (by first | assumption | with_unfolding_all rfl))
  | exact EnsAt.writeLoc_of_read _ _ (by assumption) (by assumption) (by with_unfolding_all rfl))

macro "wt_step" : tactic => `(tactic| first
  | cases ‹_ + 1 = Nat.succ _›
  | cases ‹@some _ _ = @some _ _›
  | cases ‹@some _ _ = none›
  | cases ‹none = @some _ _›
  | wt_leaf
  | with_reducible wt_lib
  | with_reducible wt_ih
  | with_reducible apply EnsAt.pure_bind
  | with_reducible exact EnsAt.rtErr_bind _ _ _ (by assumption)
  | with_reducible exact EnsAt.throw_bind _ _ (by assumption)
  | wt_bind
  | with_reducible (refine EnsAt.bind_ro (RO.of_ens ?ro) (by assumption) ?_; case ro => ens_lib)
  | with_reducible wt_ihb
  | with_reducible apply EnsAt.bind_triv
  | with_reducible apply EnsAt.tryCatch'
  | with_reducible apply EnsAt.catchNotDefined
  | with_reducible refine EnsAt.withAct_T _ _ (by assumption) rfl (SlotsOK.nil _) ?_
  | intro _
  | split
  | dsimp only)

macro "wt_auto" : tactic => `(tactic| repeat' wt_step)

open Lean in
macro "wt_fn " id:ident : tactic =>
  `(tactic| (rw [$(mkIdent (id.getId ++ `eq_def)):ident]; try dsimp only
             wt_auto))

section libs
variable {σ : St}

macro_rules | `(tactic| ens_lib) => `(tactic| exact frame_doFile0 _)
macro_rules | `(tactic| ens_lib) => `(tactic| exact frame_emit _)

set_option maxHeartbeats 400000 in
theorem sa_runBuiltin {Q : Stop → Prop} [QBase Q] (id : Str) (args : List Val) : Ens SameActs Q (runBuiltin id args) := by
  unfold runBuiltin; ens_auto
theorem sa_replEcho {Q : Stop → Prop} [QBase Q] (v : Val) : Ens SameActs Q (replEcho v) := by
  unfold replEcho; ens_auto

theorem EnsAt.l_runBuiltin (id : Str) (args : List Val) (hi : Inv σ) : EnsAt σ (runBuiltin id args) T :=
  EnsAt.of_sameActs (sa_runBuiltin id args) hi
macro_rules | `(tactic| wt_lib) => `(tactic| exact EnsAt.l_runBuiltin _ _ (by assumption))

theorem EnsAt.l_replEcho (v : Val) (hi : Inv σ) : EnsAt σ (replEcho v) T :=
  EnsAt.of_sameActs (sa_replEcho v) hi
macro_rules | `(tactic| wt_lib) => `(tactic| exact EnsAt.l_replEcho _ (by assumption))

end libs

end TypedInv
end Pseudo
