import PseudoProofs.NoCrashR
/-!
# C01 with TYPE statements anywhere (procedure-level enum, pointer and record types): definitions

Fourth sublanguage: TYPE statements may be executed in any activation; the body of a record type consists of DECLAREs whose array
bounds are integer literals (`declBody`); PROCEDURE / FUNCTION definitions are executed at top level only (the parser refuses them
elsewhere).

A type name now means something relative to a **scope** `k` (the id of the activation whose definitions are searched first, then the
global ones — `typeScopeAct`):

* `enumLk / ptrLk / compLk σ k n`: the lookups; `compLk` also tells in which scope the member types of the record body are resolved
  (the declaring scope for a local record type, the global scope for a global one);
* `Local σ k w`, `Good σ k v`: the value predicate relative to a scope;
* `scopeOfL`: the scope in which the slots of an activation are typed (a record context defers to the declaring context, or to the
  global one if it is the context of a global record type) — `tscope σ` for the top activation;
* local names are disjoint from the global ones (`ActOK.disj`), so a value of a global type is fine in every scope and a value that
  is fine in some scope and has a global type is fine in the global scope (`NoCrashLScope.lean`).
-/
namespace Pseudo.NL
open Pseudo
open Pseudo.NC (ReadsIn ActRead ErrOK ErrNR NoCrash)
open Pseudo.NR (litDims declStmt declBody NArr Kind kind SameKind sigOf SigDefined Live genums gptrs gcomps)

/-! ### the sublanguage -/

mutual
  /-- `top = true`: the statement runs in the global activation, where PROCEDURE / FUNCTION definitions are allowed -/
  def okStmt (top : Bool) : Stmt → Bool
    | .typeEnum _ _ vals => !vals.isEmpty
    | .typeRec _ _ body => declBody body
    | .ifs _ brs els => okBranches top brs && okOpt top els
    | .case _ _ cls => okClauses top cls
    | .while _ _ b => okBlock top b
    | .repeat _ b _ => okBlock top b
    | .for _ _ _ _ _ b => okBlock top b
    | .procDef _ _ _ b => top && okBlock false b
    | .funDef _ _ _ _ b => top && okBlock false b
    | _ => true
  def okBlock (top : Bool) : List Stmt → Bool
    | [] => true
    | s :: r => okStmt top s && okBlock top r
  def okBranches (top : Bool) : List (Expr × List Stmt) → Bool
    | [] => true
    | (_, b) :: r => okBlock top b && okBranches top r
  def okOpt (top : Bool) : Option (List Stmt) → Bool
    | none => true
    | some b => okBlock top b
  def okClause (top : Bool) : Clause → Bool
    | .eq _ b => okBlock top b
    | .range _ _ b => okBlock top b
    | .otherwise b => okBlock top b
  def okClauses (top : Bool) : List Clause → Bool
    | [] => true
    | c :: r => okClause top c && okClauses top r
end

/-- the side condition that goes with `top`: only the global activation is on the stack -/
def TopCond (top : Bool) (σ : St) : Prop := top = true → ∃ g, σ.acts = [g]

/-- the top activation is not a record context -/
def NTop (σ : St) : Prop := ∃ a rest, σ.acts = a :: rest ∧ a.isComp = false

/-! ### scopes and lookups -/

/-- the id of the global activation -/
def gid (σ : St) : Nat := match σ.acts.getLast? with | some g => g.id | none => 0

def actOf (σ : St) (k : Nat) : Option Act := σ.acts.find? (·.id == k)

def lenums (σ : St) (k : Nat) : List (Str × List Str) := match actOf σ k with | some a => a.enums | none => []
def lptrs (σ : St) (k : Nat) : List (Str × Ty) := match actOf σ k with | some a => a.ptrs | none => []
def lcomps (σ : St) (k : Nat) : List (Str × Block) := match actOf σ k with | some a => a.comps | none => []

/-- local definitions first, then the global ones -/
def lk {β : Type} (loc glob : List (Str × β)) (n : Str) : Option (Str × β) :=
  match loc.find? (·.1 == n) with
  | some x => some x
  | none => glob.find? (·.1 == n)

def enumDef (σ : St) (k : Nat) (n : Str) : Option (Str × List Str) := lk (lenums σ k) (genums σ) n
def ptrDef (σ : St) (k : Nat) (n : Str) : Option (Str × Ty) := lk (lptrs σ k) (gptrs σ) n
def compDef (σ : St) (k : Nat) (n : Str) : Option (Str × Block) := lk (lcomps σ k) (gcomps σ) n

def enumLk (σ : St) (k : Nat) (n : Str) : Option (List Str) := (enumDef σ k n).map (·.2)
def ptrLk (σ : St) (k : Nat) (n : Str) : Option Ty := (ptrDef σ k n).map (·.2)
/-- the body of a record type and the scope in which its member types are resolved -/
def compLk (σ : St) (k : Nat) (n : Str) : Option (Block × Nat) :=
  match (lcomps σ k).find? (·.1 == n) with
  | some x => some (x.2, k)
  | none => ((gcomps σ).find? (·.1 == n)).map fun x => (x.2, gid σ)

/-- the type a token denotes in scope `k` (`Context::getType`) -/
def typeOfTok (σ : St) (k : Nat) (t : Tok) : Ty :=
  if t.k == .DATA_TYPE then
    if t.val == "INTEGER".toList then .int
    else if t.val == "REAL".toList then .real
    else if t.val == "BOOLEAN".toList then .bool
    else if t.val == "CHAR".toList then .chr
    else if t.val == "STRING".toList then .str
    else .date
  else
    match enumDef σ k t.val with
    | some (n, _) => .enum n
    | none => match ptrDef σ k t.val with
      | some (n, _) => .ptr n
      | none => match compDef σ k t.val with
        | some (n, _) => .comp n
        | none => .none

def scalSig (σ : St) (k : Nat) : List Stmt → List (Str × Kind)
  | [] => []
  | .declare _ ids tyTok :: r => ids.map (fun id => (id.val, Kind.val (typeOfTok σ k tyTok))) ++ scalSig σ k r
  | _ :: r => scalSig σ k r

def arrSig (σ : St) (k : Nat) : List Stmt → List (Str × Kind)
  | [] => []
  | .declareArr _ ids tyTok bounds :: r =>
    (match litDims bounds with
     | some d => ids.map (fun id => (id.val, Kind.arr (typeOfTok σ k tyTok) d))
     | none => []) ++ arrSig σ k r
  | _ :: r => arrSig σ k r

/-- the members a record body declares when its member types are resolved in scope `k` -/
def memSig (σ : St) (k : Nat) (body : List Stmt) : List (Str × Kind) := scalSig σ k body ++ arrSig σ k body

/-- a type that is defined in scope `k` -/
def TyDef (σ : St) (k : Nat) : Ty → Prop
  | .enum n => ∃ vals, enumLk σ k n = some vals
  | .ptr n => ∃ tg, ptrLk σ k n = some tg
  | .comp n => ∃ b, compLk σ k n = some b
  | _ => True

/-- a type that is defined globally (or a primitive one) -/
def TyG (σ : St) (ty : Ty) : Prop := TyDef σ (gid σ) ty

/-- a kind over a global type -/
def KG (σ : St) : Kind → Prop
  | .val ty => TyG σ ty
  | .arr e _ => TyG σ e

/-- the scope in which the slots of the head activation of `acts` are typed; `g` is the id of the global activation -/
def scopeOfL (g : Nat) : List Act → Nat
  | [] => g
  | a :: rest => if a.isComp then (if a.typeGlobal then g else scopeOfL g rest) else a.id

/-- the scope in which the slots of activation `id` are typed -/
def scopeAtL (g : Nat) : List Act → Nat → Nat
  | [], _ => g
  | a :: rest, id => if a.id == id then scopeOfL g (a :: rest) else scopeAtL g rest id

/-- the scope from which type names are looked up right now (`typeScopeAct`) -/
def tscope (σ : St) : Nat := scopeOfL (gid σ) σ.acts
def scopeAt (σ : St) (id : Nat) : Nat := scopeAtL (gid σ) σ.acts id

/-- a scope: the global activation or a live activation that is not a record context -/
def SV (σ : St) (k : Nat) : Prop := k = gid σ ∨ ∃ a ∈ σ.acts, a.id = k ∧ a.isComp = false

/-! ### values -/

/-- the target of a pointer of a type defined in scope `k`: its activation was created and, while it lives, the location is readable,
    holds a value of the pointer's target type, and that type is global or the location belongs to scope `k` -/
def TgtOK (σ : St) (k : Nat) (l : Loc) (tg : Ty) : Prop :=
  l.act < σ.nextId ∧
  (Live σ l.act → (∃ w, ReadsIn σ.acts l w ∧ kind w = .val tg) ∧ (TyG σ tg ∨ scopeAt σ l.act = k))

/-- what the invariant says about one node of a value that lives in scope `k` -/
def Local (σ : St) (k : Nat) : Val → Prop
  | .enum n i => ∃ vals, enumLk σ k n = some vals ∧ i < vals.length
  | .ptr n tgt => ∃ tg, ptrLk σ k n = some tg ∧ ∀ l, tgt = some l → TgtOK σ k l tg
  | .comp n fs => ∃ body k', compLk σ k n = some (body, k') ∧ fs.map sigOf = memSig σ k' body ∧ SigDefined (memSig σ k' body)
  | .arr e d cells => cells.length = totalCells d ∧ ∀ c ∈ cells, kind c = .val e
  | _ => True

/-- **the value predicate relative to scope `k`**: every reachable node is fine -/
def Good (σ : St) (k : Nat) (v : Val) : Prop := ∀ p w, getPath v p = some w → Local σ k w

def CellOK (σ : St) (k : Nat) (ty : Ty) (c : Val) : Prop := kind c = .val ty ∧ Good σ k c
def ArrOK (σ : St) (k : Nat) (ty : Ty) (v : Val) : Prop := (∃ d, kind v = .arr ty d) ∧ Good σ k v

/-! ### states -/

/-- a variable of an activation whose slots are typed in scope `k`; an alias (BYREF formal) has a global type -/
def SlotOK (σ : St) (k : Nat) (deeper : List Act) (s : Slot) : Prop :=
  match s.ref with
  | none => CellOK σ k s.ty s.val
  | some l => s.val = .none ∧ (∃ v, ReadsIn deeper l v ∧ kind v = .val s.ty) ∧ TyG σ s.ty

def ArrSlotOK (σ : St) (k : Nat) (s : Slot) : Prop := ArrOK σ k s.ty s.val ∧ TyDef σ k s.ty

/-- the definitions of an activation are well-formed -/
structure DefsOK (σ : St) (a : Act) : Prop where
  enums : ∀ e ∈ a.enums, a.enums.find? (·.1 == e.1) = some e ∧ e.2 ≠ []
  ptrs : ∀ p ∈ a.ptrs, TyDef σ a.id p.2
  comps : ∀ c ∈ a.comps, declBody c.2 = true

/-- no global type has this name -/
def GFresh (σ : St) (n : Str) : Prop :=
  (genums σ).find? (·.1 == n) = none ∧ (gptrs σ).find? (·.1 == n) = none ∧ (gcomps σ).find? (·.1 == n) = none

/-- `n` is the name of a type defined in `a` -/
def Defines (a : Act) (n : Str) : Prop :=
  (a.enums.find? (·.1 == n)).isSome ∨ (a.ptrs.find? (·.1 == n)).isSome ∨ (a.comps.find? (·.1 == n)).isSome

structure ActOK (σ : St) (k : Nat) (deeper : List Act) (a : Act) : Prop where
  vars : ∀ s ∈ a.vars, SlotOK σ k deeper s
  arrs : ∀ s ∈ a.arrs, ArrSlotOK σ k s
  defs : DefsOK σ a
  /-- the names of local types are not names of global types -/
  disj : deeper ≠ [] → ∀ n, Defines a n → GFresh σ n
  /-- a record context has no type definitions -/
  compDefs : a.isComp = true → a.enums = [] ∧ a.ptrs = [] ∧ a.comps = []
  /-- the members of a record under construction are plain cells -/
  compRef : a.isComp = true → ∀ s ∈ a.vars, s.ref = none
  /-- the global activation is not a record context -/
  glob : deeper = [] → a.isComp = false
  retVal : ∀ v, a.retVal = some v → NArr v = true ∧ Good σ k v

def StackOK (σ : St) : List Act → Prop
  | [] => True
  | a :: rest => ActOK σ (scopeOfL (gid σ) (a :: rest)) rest a ∧ (∀ b ∈ rest, b.id ≠ a.id) ∧ StackOK σ rest

def ParamsOK (σ : St) (ps : List (Str × Ty × Bool)) : Prop := ∀ p ∈ ps, TyG σ p.2.1

def ProcOK (σ : St) (pd : ProcDef) : Prop := ParamsOK σ pd.params ∧ okBlock false pd.body = true

def FunOK (σ : St) (fd : FunDef) : Prop :=
  ParamsOK σ fd.params ∧ TyG σ fd.ret ∧ ∃ b t, fd.body = .user b t ∧ okBlock false b = true

/-- **the invariant** -/
structure WF (σ : St) : Prop where
  ne : σ.acts ≠ []
  stack : StackOK σ σ.acts
  below : ∀ a ∈ σ.acts, a.id < σ.nextId
  procs : ∀ p ∈ σ.procs, ProcOK σ p
  funs : ∀ f ∈ σ.funs, FunOK σ f

/-- what never changes in a live activation -/
def hdr (a : Act) : Nat × Bool × Bool × Bool × Ty := (a.id, a.isFn, a.isComp, a.typeGlobal, a.retTy)

/-- the RETURN protocol: the stored return value has the declared return type -/
def RetTyped (a : Act) : Prop := ∃ v, a.retVal = some v ∧ v.ty = a.retTy

/-- what `NoCrashLRet.lean` proves for the full language: a function body that ends normally did not execute a RETURN (the
    activation's `retVal` is still unset), one that ends with the RETURN signal stored a value of the declared return type -/
def FunBodyRet : Prop := ∀ (f : Nat) (body : Block) (σ : St) (a : Act) (rest : List Act), σ.acts = a :: rest → a.retVal = none →
  match (Pseudo.runBlock f body).run.run σ with
  | (.ok _, σ') => ∃ a' rest', σ'.acts = a' :: rest' ∧ a'.retVal = none ∧ hdr a' = hdr a
  | (.error .ret, σ') => ∃ a' rest', σ'.acts = a' :: rest' ∧ RetTyped a' ∧ hdr a' = hdr a
  | _ => True

/-- **before / after** -/
structure Ext (σ σ' : St) : Prop where
  ids : σ'.acts.map hdr = σ.acts.map hdr
  nextId : σ.nextId ≤ σ'.nextId
  reads : ∀ l v, ReadsIn σ.acts l v → ∃ v', ReadsIn σ'.acts l v' ∧ SameKind v v'
  enums : ∀ k n x, enumLk σ k n = some x → enumLk σ' k n = some x
  ptrs : ∀ k n x, ptrLk σ k n = some x → ptrLk σ' k n = some x
  comps : ∀ k n x, compLk σ k n = some x → compLk σ' k n = some x
  /-- a token that denotes a type keeps denoting it (new definitions use fresh names) -/
  toks : ∀ k t, typeOfTok σ k t ≠ .none → typeOfTok σ' k t = typeOfTok σ k t
  /-- while there is a non-global activation the global definitions do not change -/
  gsame : (∃ a b r, σ.acts = a :: b :: r) → genums σ' = genums σ ∧ gptrs σ' = gptrs σ ∧ gcomps σ' = gcomps σ

/-- a resolved reference, seen from scope `k`: readable, of the right kind, and of a global type or in scope `k` itself -/
def HolderOK (σ : St) (k : Nat) (h : Holder) : Prop :=
  (∃ v, ReadsIn σ.acts h.loc v ∧ (if h.isArr = true then ∃ d, kind v = .arr h.ty d else kind v = .val h.ty)) ∧
  (TyG σ h.ty ∨ scopeAt σ h.loc.act = k)

end Pseudo.NL
