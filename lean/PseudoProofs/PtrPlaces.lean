import Properties.C09Exec
import PseudoProofs.ArrayFieldLemmas
import PseudoProofs.ReadLoop2
/-!
# Pointers to places at any depth, held in places at any depth (helper lemmas for `Properties/C09Places.lean`)

`Properties/C09Exec.lean` proves the clauses of C09 for a pointer held in a PLAIN VARIABLE (`HasVar`) and targets `x`, `a[i]`,
`r.m`.  Here the pointer is held in ANY place `pr` that resolves without effect (`ArrayFieldLemmas.RefAt`: plain variables,
nested fields, elements, fields of elements, … and — `RefAt.of_tgt` — names that resolve anywhere on the stack, in particular
BYREF formals), and the target is any such place as well.

* `RefAt.of_tgt`: a name that resolves (`ReadLoop2.Tgt`: current activation, global activation, BYREF formal) is a `RefAt`;
* `run_deref_ref`, `RefAt.deref`: `pr^` resolves to the holder at the location the pointer holds (so `pr^.f`, `pr^[i]` chain);
* `run_deref_ref_bad`, `run_access_deref_ref_bad`, `run_assign_deref_ref_bad`: unset / dead pointer;
* `run_ptrAssign_ref`: `pr <- ^ref`;
* `run_assign_deref_ref`: `pr^ <- rhs`.
-/
namespace Pseudo
namespace PtrPlaces
open ArrayLemmas C07Copy CallLemmas RecordLemmas C09ExecL ArrayFieldLemmas

/-- the holder a resolving name yields: the location, the declared type of the slot -/
abbrev tgtHolder (L : Loc) (ty : Ty) : Holder := { loc := L, isArr := false, ty := ty, name := L.name }

theorem holderOf_eq (a : Act) (s : Slot) : holderOf a s = tgtHolder (FileStmt.varLoc a s) s.ty := by
  unfold holderOf FileStmt.varLoc tgtHolder
  cases s.ref <;> rfl

/-- **a name that resolves anywhere on the stack** (current activation, global activation, BYREF formal — then `L` is the
    caller's location) resolves, as a reference, to the holder at `L` -/
theorem RefAt.of_tgt {σ : St} {ty : Ty} {L : Loc} {v : Val} (t : Tok) (h : ReadLoop2.Tgt σ t.val ty L v) :
    RefAt σ 1 (.var t) (tgtHolder L ty) v := by
  refine ⟨?_, h.val⟩
  intro f hf
  obtain ⟨f', rfl⟩ : ∃ f', f = f' + 1 := ⟨f - 1, by omega⟩
  obtain ⟨a, s, hl, hty, hloc⟩ := h.look
  cases hacts : σ.acts with
  | nil =>
    unfold FileStmt.lookupVarP FileStmt.curActP at hl
    rw [hacts] at hl
    cases hl
  | cons cur rest =>
    rw [FileStmt.lookupVarP_cons σ cur rest hacts] at hl
    injection hl with hl
    have hg : σ.acts.getLast? = some ((cur :: rest).getLast (List.cons_ne_nil cur rest)) := by
      rw [hacts]; exact List.getLast?_eq_some_getLast (List.cons_ne_nil cur rest)
    rw [run_resolveRef_var σ cur _ rest t f' a s hacts hg hl, holderOf_eq, hty, hloc]

/-! ## `pr^` -/

/-- `pr^` for a pointer place that holds the target `l`, readable (hence live): the holder at `l` -/
theorem run_deref_ref (σ : St) (t : Tok) (pr : Ref) (ph : Holder) (pn : Str) (l : Loc) (tv : Val) (f₀ f : Nat)
    (hp : RefAt σ f₀ pr ph (.ptr pn (some l))) (harr : ph.isArr = false) (hv : readLocP σ l = .ok tv) (hf : f₀ ≤ f) :
    (resolveRef (f+1) (.deref t pr)).run.run σ = (.ok (derefHolder l tv), σ) :=
  C09_deref_alias f t pr σ σ ph pn l tv (hp.run f hf) harr
    (by rw [run_readLoc]; exact hp.reads) (live_of_read σ l tv hv) (by rw [run_readLoc]; exact hv)

/-- **one dereference step**: `pr^` is itself a reference that resolves without effect — to the holder at the target, which
    reads what the target reads; so `pr^.f`, `pr^[i]`, `pr^^` follow by `RefAt.field`, `RefAt.index`, `RefAt.deref` -/
theorem RefAt.deref {σ : St} {f₀ : Nat} {pr : Ref} {ph : Holder} {pn : Str} {l : Loc} {tv : Val} (t : Tok)
    (hp : RefAt σ f₀ pr ph (.ptr pn (some l))) (harr : ph.isArr = false) (hv : readLocP σ l = .ok tv) :
    RefAt σ (f₀+1) (.deref t pr) (derefHolder l tv) tv := by
  refine ⟨?_, hv⟩
  intro f hf
  obtain ⟨f', rfl⟩ : ∃ f', f = f' + 1 := ⟨f - 1, by omega⟩
  exact run_deref_ref σ t pr ph pn l tv f₀ f' hp harr hv (by omega)

/-- `pr^` for a pointer place that was never set, or whose target's activation is not live: `deletedObject` at the `^` -/
theorem run_deref_ref_bad (σ : St) (t : Tok) (pr : Ref) (ph : Holder) (pn : Str) (tgt : Option Loc) (f₀ f : Nat)
    (hp : RefAt σ f₀ pr ph (.ptr pn tgt)) (harr : ph.isArr = false)
    (hbad : ∀ l, tgt = some l → σ.acts.any (·.id == l.act) = false) (hf : f₀ ≤ f) :
    (resolveRef (f+1) (.deref t pr)).run.run σ = (.error (.diag (rtDiag σ t.line t.col .deletedObject)), σ) := by
  have hp' : (readLoc ph.loc).run.run σ = (.ok (.ptr pn tgt), σ) := by
    rw [run_readLoc]; exact congrArg (·, σ) hp.reads
  rw [resolveRef_deref, run_bind_ok _ _ _ _ _ (hp.run f hf)]
  simp only [harr, Bool.false_eq_true, if_false]
  rw [run_bind_ok _ _ _ _ _ hp']
  cases tgt with
  | none => exact run_rtErr t .deletedObject σ
  | some l =>
    simp only
    rw [run_bind_ok _ _ _ _ _ (run_isLive l.act σ)]
    simp only [hbad l rfl, Bool.not_false, if_true]
    exact run_rtErr t .deletedObject σ

theorem run_access_deref_ref_bad (σ : St) (at' t : Tok) (pr : Ref) (ph : Holder) (pn : Str) (tgt : Option Loc) (f₀ f : Nat)
    (hp : RefAt σ f₀ pr ph (.ptr pn tgt)) (harr : ph.isArr = false)
    (hbad : ∀ l, tgt = some l → σ.acts.any (·.id == l.act) = false) (hf : f₀ + 2 ≤ f) :
    (evalExpr f (.access at' (.deref t pr))).run.run σ = (.error (.diag (rtDiag σ t.line t.col .deletedObject)), σ) := by
  obtain ⟨f', rfl⟩ : ∃ f', f = f' + 2 := ⟨f - 2, by omega⟩
  exact run_evalExpr_access_resolve_error σ at' _ _ (f'+1) (run_deref_ref_bad σ t pr ph pn tgt f₀ f' hp harr hbad (by omega))
    (deletedObject_ne σ _ _)

theorem run_assign_deref_ref_bad (σ : St) (at' t : Tok) (pr : Ref) (ph : Holder) (rhs : Expr) (rv : Val) (pn : Str)
    (tgt : Option Loc) (fp f₀ f : Nat) (hp : RefAt σ fp pr ph (.ptr pn tgt)) (harr : ph.isArr = false)
    (hbad : ∀ l, tgt = some l → σ.acts.any (·.id == l.act) = false)
    (hrhs : PureAt σ f₀ rhs rv) (hf : max f₀ (fp+1) + 1 ≤ f) :
    (execAssign f at' (.deref t pr) rhs).run.run σ = (.error (.diag (rtDiag σ t.line t.col .deletedObject)), σ) := by
  obtain ⟨f', rfl⟩ : ∃ f', f = f' + 2 := ⟨f - 2, by omega⟩
  rw [run_execAssign_eval σ σ at' _ rhs rv (f'+1) (acts_ne_of_readLocP hp.reads) (hrhs (f'+1) (by omega))]
  exact run_assignTail_err_nonvar σ σ at' _ rv _ (f'+1) (fun vt h => by cases h)
    (run_deref_ref_bad σ t pr ph pn tgt fp f' hp harr hbad (by omega))

/-! ## `pr <- ^ref` -/

/-- `pr <- ^ref`: the pointer place `pr` (holder `ph`, of the pointer type `pn`, currently holding a pointer value, root
    cell not a constant), the target `ref` (non-array holder `vh`): accepted iff the pointed-to type `T` is exactly `vh.ty`;
    then one write at `ph.loc` -/
theorem run_ptrAssign_ref (σ : St) (t : Tok) (pr ref : Ref) (ph vh : Holder) (pn : Str) (T : Ty) (old : Option Loc) (tv : Val)
    (fp fv f : Nat)
    (hp : RefAt σ fp pr ph (.ptr pn old)) (hparr : ph.isArr = false) (hpty : ph.ty = .ptr pn)
    (hpc : locConstP σ ph.loc = false)
    (hv : RefAt σ fv ref vh tv) (hvarr : vh.isArr = false) (hdef : PtrDef σ pn T) (hf : max fp fv + 1 ≤ f) :
    ∃ root root', readLocP σ (rootOf ph.loc) = .ok root ∧ getPath root ph.loc.path = some (.ptr pn old) ∧
      setPath root ph.loc.path (.ptr pn (some vh.loc)) = some root' ∧
      (evalExpr f (.ptrAssign t pr ref)).run.run σ =
        if T = vh.ty then (.ok .none, updSt σ ph.loc.act (writeF (rootOf ph.loc) root'))
        else (.error (.diag (rtDiag σ t.line t.col .typeMismatch)), σ) := by
  obtain ⟨f', rfl⟩ : ∃ f', f = f' + 1 := ⟨f - 1, by omega⟩
  obtain ⟨root, root', h1, h2, h3, _, hw⟩ := run_writeLoc_at σ t ph.loc (.ptr pn old) (.ptr pn (some vh.loc)) hp.reads hpc rfl
  refine ⟨root, root', h1, h2, h3, ?_⟩
  rw [run_ptrAssign σ t pr ref ph vh pn T f' (hp.run f' (by omega)) hparr (hv.run f' (by omega)) hvarr hpty hdef, hw]

/-- what the place `l` and every other root read after the root cell of `l` got `root'` -/
theorem reads_after_write (σ : St) (l : Loc) (root root' x' : Val) (h : readLocP σ (rootOf l) = .ok root)
    (hg : getPath root' l.path = some x') :
    readLocP (updSt σ l.act (writeF (rootOf l) root')) l = .ok x' ∧
    (∀ l', DiffRoot l l' → readLocP (updSt σ l.act (writeF (rootOf l) root')) l' = readLocP σ l') ∧
    (∀ k, (updSt σ l.act (writeF (rootOf l) root')).acts.any (·.id == k) = σ.acts.any (·.id == k)) := by
  refine ⟨?_, fun l' hd => readLocP_updSt_writeF_other σ (rootOf l) l' root' hd,
    fun _ => any_updActs _ _ _ (writeF_id _ _) σ.acts⟩
  have := readLocP_after σ l root root' l.path h
  rw [this]
  simp only [pathRead, hg]

/-! ## `pr^ <- rhs` -/

/-- the assignment `pr^ <- rhs`: the type check against the CURRENT value of the target, then one `writeLoc` at the target -/
theorem run_assign_deref_ref (σ : St) (at' t : Tok) (pr : Ref) (ph : Holder) (rhs : Expr) (rv : Val) (pn : Str) (l : Loc)
    (tv : Val) (fp f₀ f : Nat) (hp : RefAt σ fp pr ph (.ptr pn (some l))) (harr : ph.isArr = false)
    (hv : readLocP σ l = .ok tv) (hc : locConstP σ l = false) (hrhs : PureAt σ f₀ rhs rv) (hf : max f₀ (fp+1) + 1 ≤ f) :
    (execAssign f at' (.deref t pr) rhs).run.run σ =
      ((if (implicitCast tv.ty rv).ty != tv.ty then (rtErr at' .typeMismatch : M Unit)
        else writeLoc at' l (implicitCast tv.ty rv)).run.run σ) := by
  obtain ⟨f', rfl⟩ : ∃ f', f = f' + 2 := ⟨f - 2, by omega⟩
  rw [run_execAssign_eval σ σ at' _ rhs rv (f'+1) (acts_ne_of_readLocP hv) (hrhs (f'+1) (by omega)),
    run_assignTail_resolved σ at' _ rv (derefHolder l tv) (f'+1) (run_deref_ref σ t pr ph pn l tv fp f' hp harr hv (by omega)) rfl]
  have : locConstP σ (derefHolder l tv).loc = false := hc
  simp only [this, Bool.false_eq_true, if_false]
  rfl

/-! ## names: reading and assigning a variable that resolves anywhere on the stack -/

/-- a place with a non-array holder, as an expression -/
theorem pureAt_refAt {σ : St} {f₀ : Nat} {r : Ref} {h : Holder} {v : Val} (a : Tok) (hr : RefAt σ f₀ r h v)
    (harr : h.isArr = false) : PureAt σ (f₀+1) (.access a r) v := by
  intro f hf
  obtain ⟨f', rfl⟩ : ∃ f', f = f' + 1 := ⟨f - 1, by omega⟩
  rw [run_evalExpr_access_resolved σ a r h f' (hr.run f' (by omega)) harr]
  exact congrArg (·, σ) hr.reads

/-- `q <- rhs` for a resolving name `q` (current / global activation, BYREF formal) and a pure `rhs` that fits the declared
    type: exactly one write of the whole variable -/
theorem run_assign_tgt (σ : St) (at' qt : Tok) (rhs : Expr) (rv : Val) (ty : Ty) (Lq : Loc) (old : Val) (f₀ f : Nat)
    (hq : ReadLoop2.Tgt σ qt.val ty Lq old) (hrhs : PureAt σ f₀ rhs rv) (hty : (implicitCast ty rv).ty = ty)
    (hf : max f₀ 1 + 1 ≤ f) :
    (execAssign f at' (.var qt) rhs).run.run σ = (.ok ⟨⟩, updSt σ Lq.act (writeF Lq (implicitCast ty rv))) := by
  obtain ⟨f', rfl⟩ : ∃ f', f = f' + 2 := ⟨f - 2, by omega⟩
  rw [run_execAssign_eval σ σ at' _ rhs rv (f'+1) (acts_ne_of_readLocP hq.val) (hrhs (f'+1) (by omega)),
    run_assignTail_resolved σ at' _ rv (tgtHolder Lq ty) (f'+1) ((RefAt.of_tgt qt hq).run (f'+1) (by omega)) rfl]
  have hc : locConstP σ (tgtHolder Lq ty).loc = false := hq.nconst
  have hty' : ((implicitCast (tgtHolder Lq ty).ty rv).ty != (tgtHolder Lq ty).ty) = false := by
    show ((implicitCast ty rv).ty != ty) = false
    simp [hty]
  simp only [hc, hty', Bool.false_eq_true, if_false]
  have hpath := hq.path
  have hval := hq.val
  have hnc := hq.nconst
  obtain ⟨a, b, n, p⟩ := Lq
  simp only at hpath
  subst hpath
  exact run_writeLoc_path σ at' a b n [] old _ _ hval hnc rfl

end PtrPlaces
end Pseudo
