import PseudoProofs.RandomFile2
/-!
# Random files, part 4: records of several types in one file

No record class for the file: the handle may hold any record texts. What GETRECORD does is decided by `Codec.load` on the
record under the cursor and the variable's current value alone (`step_get_any`); SEEK and PUTRECORD do not look at the records.
-/
namespace Pseudo.RandomFile2
open Pseudo Pseudo.FileStmt Pseudo.ReadLoop Pseudo.RandomFile

variable {defs : Codec.Defs} {σ : St} {n : Str} {a : Act} {rest : List Act}

/-- **GETRECORD n, x** for a plain variable `x` (current value `cur`) of the current activation, `n` open FOR RANDOM with ANY
    records, the cursor on the record text `rec`:
    * `Codec.load defs cur rec = none` (the text does not decode against the variable): runtime error `recordRead` at the
      statement's token, and the state is `tickSt σ` — `steps + 1`, nothing else: the variable, the handle (records AND cursor)
      and the disk are untouched;
    * `Codec.load defs cur rec = some (nv, _)`: normal end, `x := nv`, nothing else but `steps + 1`. -/
theorem step_get_any (hacts : σ.acts = a :: rest) (hdefs : codecDefsP σ = .ok defs) (f : Nat) (t tn x : Tok) (ty : Ty)
    (cur : Val) (h : Handle) (rec : Str) (hb : σ.steps + 1 ≤ σ.stepLimit) (hx : HasVar a x.val ty cur)
    (hp : isPtrTy ty = false) (hh : FState.handle (fileSt σ) n = some h) (hm : h.mode = .random)
    (hrec : h.records[h.ptr]? = some rec) :
    (Codec.load defs cur rec = none →
      (execStmt (f+3) (.getRecord t (.strLit tn n) x)).run.run σ = errAt (tickSt σ) t .recordRead) ∧
    (∀ nv r, Codec.load defs cur rec = some (nv, r) → cur.isArr = nv.isArr →
      (execStmt (f+3) (.getRecord t (.strLit tn n) x)).run.run σ =
        (.ok .none, { σ with steps := σ.steps + 1, acts := setVar a x.val nv :: rest })) := by
  obtain ⟨s, hs, hty, hconst, href, hval⟩ := hx
  obtain ⟨hlv, hla, htgt⟩ := target_cur hacts x.val s hs href
  have hcur : readLocP σ (curLoc a x.val) = .ok cur := by rw [readLocP_cur σ a rest x.val s hacts hs, hval]
  have hc : locConstP σ (curLoc a x.val) = false := by rw [locConstP_cur σ a rest x.val s hacts hs, hconst]
  have hp' : isPtrTy s.ty = false := by rw [hty]; exact hp
  have hget : fstep (fileSt σ) (.get n) = .ok (fileSt σ, .record rec) := (C14_get (fileSt σ) n h hh hm).1 rec hrec
  constructor
  · intro hl
    have hpre : fpre (fileSt σ) (.get n) = .ok () := by simp [fpre, hh, hm]
    rw [exec_getRecord (f+1) t (.strLit tn n) x σ n _ _ hb (evalsTo_strLit f tn n _) hlv hla, hpre, htgt]
    simp only [hp', hc, Bool.false_eq_true, if_false, hget]
    unfold loadInto
    have e1 : readLocP (setFile (tickSt σ) (fileSt σ)) (curLoc a x.val) = .ok cur := hcur
    have e2 : codecDefsP (setFile (tickSt σ) (fileSt σ)) = .ok defs := hdefs
    rw [e1, e2]
    dsimp only
    rw [hl]
    rfl
  · intro nv r hl hk
    obtain ⟨_, rec', hr, hok, _⟩ :=
      (C16_exec_getRecord (f+1) t (.strLit tn n) x σ n _ _ (curLoc a x.val) s.ty cur defs hb (evalsTo_strLit f tn n _)
        hlv hla (htgt _) hp' hc hcur hdefs).1 _ _ hget
    injection hr with hr
    subst hr
    obtain ⟨root, hrun, _, hroot⟩ := hok nv r hl hk
    have hroot' : root = nv := hroot rfl
    subst hroot'
    have hacts' : ({ σ with steps := σ.steps + 1 } : St).acts = a :: rest := hacts
    rw [writeLocSt_cur _ a rest x.val root hacts'] at hrun
    exact hrun

/-- … with a record class for the record under the cursor and the variable ONLY (the other records of the file are arbitrary):
    the variable receives exactly the value whose text the record is -/
theorem step_get_class (C : RecClass defs) (hacts : σ.acts = a :: rest) (hdefs : codecDefsP σ = .ok defs) (f : Nat)
    (t tn x : Tok) (v : Val) (h : Handle) (hb : σ.steps + 1 ≤ σ.stepLimit) (hx : GoodVar C a x.val) (hv : C.T v)
    (hh : FState.handle (fileSt σ) n = some h) (hm : h.mode = .random)
    (hrec : h.records[h.ptr]? = some (Codec.dump v)) :
    (execStmt (f+3) (.getRecord t (.strLit tn n) x)).run.run σ =
      (.ok .none, { σ with steps := σ.steps + 1, acts := setVar a x.val v :: rest }) := by
  obtain ⟨ty, cur, hvar, hp, hcT⟩ := hx
  have hl := C.load_dump v cur hv hcT
  cases hl' : Codec.load defs cur (Codec.dump v) with
  | none => rw [hl'] at hl; cases hl
  | some p =>
    obtain ⟨nv, r⟩ := p
    rw [hl'] at hl
    injection hl with hl
    have : nv = v := hl
    subst this
    exact (step_get_any hacts hdefs f t tn x ty cur h _ hb hvar hp hh hm hrec).2 nv r hl' (C.isArr nv cur hv hcT)

/-- **SEEK n, k** (`k` a literal, `1 ≤ k ≤ len + 1`) on a RANDOM handle with any records: only the cursor moves -/
theorem step_seek_any (f : Nat) (t tn tk : Tok) (k : Int) (h : Handle) (hb : σ.steps + 1 ≤ σ.stepLimit)
    (hh : FState.handle (fileSt σ) n = some h) (hm : h.mode = .random) (h1 : 1 ≤ k)
    (h2 : k ≤ (h.records.length : Int) + 1) :
    (execStmt (f+3) (.seek t (.strLit tn n) (.intLit tk k))).run.run σ =
      (.ok .none, { σ with steps := σ.steps + 1,
                           handles := updHandles σ.handles n fun h => { h with ptr := k.toNat - 1 } }) ∧
    FState.handle { fs := σ.fs, handles := updHandles σ.handles n fun h => { h with ptr := k.toNat - 1 } } n =
      some { h with ptr := k.toNat - 1 } := by
  have hp : fpre (fileSt σ) (.seek n k) = .ok () := by simp [fpre, hh, hm]
  have c1 : ¬ (k < 1) := by omega
  have c2 : ¬ (k.toNat > h.records.length + 1) := by omega
  have hstep : fstep (fileSt σ) (.seek n k) =
      .ok ({ fileSt σ with handles := updHandles (fileSt σ).handles n fun h => { h with ptr := k.toNat - 1 } }, .unit) := by
    simp only [fstep, hp, hh, c1, c2, if_false]
  refine ⟨(C16_exec_seek_lit f t tn tk n k σ hb h1).1 _ .unit hstep, ?_⟩
  have hu := handle_upd σ.handles n (fun h : Handle => { h with ptr := k.toNat - 1 }) (fun _ => rfl)
  unfold FState.handle at hh ⊢
  dsimp only [fileSt] at hh ⊢
  rw [hu, hh]
  rfl

end Pseudo.RandomFile2
