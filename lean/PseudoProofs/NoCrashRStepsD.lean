import PseudoProofs.NoCrashRSpec
/-!
# C01 with record types: the declaration path
`defaultVal` (builds a record value by running the TYPE body in a record context), `defaultCells`, `declareVars`, `declareArrs`,
`runBlock`, and `execStmt` on DECLARE statements — with their frames.
-/
namespace Pseudo.NR
open Pseudo
open Pseudo.NC (ReadsIn ActRead ErrOK ErrNR NoCrash RO EOK errOK_diag errNR_diag errOK_fuel errNR_fuel errOK_brk errOK_cont
  getLast?_mem ro_findAct ro_isLive ro_rtErr ro_rtErr0 ro_pedErr ro_liftMsg ro_liftMsg0 ro_readLoc ro_locIsConst ro_filePre
  ro_writeText ro_get getPath_nil findSlot_name findSlot_mem lookupVarIn_some lookupArrIn_some lookupVarIn_none top_mem
  getPath_append findSlot_append)
variable {f : Nat}

set_option linter.unusedSectionVars false
set_option linter.unusedVariables false

section prims
variable {α : Type} {σ : St} {E : St → Stop → Prop} [EOK E]

/-- steps that leave the stack alone, with that fact in the postcondition -/
theorem run_tick' (hW : WF σ) (t : Tok) : Run (tick t) σ (ResE σ (fun _ σ' => σ'.acts = σ.acts) E) := by
  apply run_frame hW
  unfold tick
  rw [run_bind_ok _ _ _ _ _ (run_get σ)]
  split
  · obtain ⟨d, hd, _⟩ := rtErr_run (α := Unit) t .budget σ
    rw [hd]; exact ⟨rfl, rfl, rfl, rfl, d, rfl⟩
  · exact ⟨rfl, rfl, rfl, rfl, rfl⟩

theorem run_emit' (hW : WF σ) (x : Str) : Run (emit x) σ (ResE σ (fun _ σ' => σ'.acts = σ.acts) E) :=
  run_frame hW ⟨rfl, rfl, rfl, rfl, rfl⟩

theorem run_replEcho' (hW : WF σ) {v : Val} (hv : Good σ v) :
    Run (replEcho v) σ (ResE σ (fun _ σ' => σ'.acts = σ.acts) E) := by
  unfold replEcho
  cases v with
  | none => exact Run.pure hW (Ext.refl σ) rfl
  | chr c => exact run_emit' hW _
  | str s => exact run_emit' hW _
  | enum ty i =>
    dsimp only
    refine Run.ro hW (Ext.refl σ) (ro_outputText hW hv.root) fun o _ => ?_
    cases o with
    | none => exact Run.pure hW (Ext.refl σ) rfl
    | some s => exact run_emit' hW _
  | ptr ty tgt =>
    dsimp only
    cases tgt with
    | none => exact run_emit' hW _
    | some l =>
      dsimp only
      refine Run.ro hW (Ext.refl σ) (ro_isLive l.act) fun b _ => ?_
      split <;> exact run_emit' hW _
  | _ =>
    dsimp only
    refine Run.ro hW (Ext.refl σ) (ro_outputText hW hv.root) fun o _ => ?_
    cases o with
    | none => exact Run.pure hW (Ext.refl σ) rfl
    | some s => exact run_emit' hW _

/-- the definitions seen from a stack only depend on its last activation -/
theorem defsSame_of_top {σ σ' : St} {a a' : Act} {rest : List Act} (hσ : σ.acts = a :: rest) (hσ' : σ'.acts = a' :: rest)
    (he : a'.enums = a.enums) (hp : a'.ptrs = a.ptrs) (hc : a'.comps = a.comps) : DefsSame σ σ' := by
  unfold DefsSame genums gptrs gcomps
  rw [hσ, hσ']
  cases rest with
  | nil => simp [he, hp, hc]
  | cons b r => simp [List.getLast?_cons_cons]

/-- appending a variable: the frame -/
theorem run_addVar_frame (hW : WF σ) (s : Slot) (h1 : s.ref = none) (h2 : CellOK σ s.ty s.val) (hty : s.ty ≠ .none) :
    Run (addVar s) σ (ResE σ (fun _ σ' => Frame σ σ' [(s.name, Kind.val s.ty)] []) E) := by
  unfold addVar
  have hk : ∀ a : Act, ActKeep a { a with vars := a.vars ++ [s] } := by
    intro a
    refine ⟨rfl, rfl, fun isArr name path v ⟨s0, hs0, hp⟩ => ⟨v, ⟨s0, ?_, hp⟩, SameKind.refl v⟩⟩
    cases isArr
    · simp only [Bool.false_eq_true, if_false] at hs0 ⊢
      rw [findSlot_append, hs0]; rfl
    · exact hs0
  refine (run_modifyCur (E := E) hW _ hk ?_ (fun _ => ⟨rfl, rfl, rfl⟩)).mono fun r σ' h => ?_
  · intro d a h
    refine ⟨fun s' hs' => ?_, h.arrs, h.enums, h.ptrs, h.comps, fun hc s' hs' => ?_, h.glob, h.retVal⟩
    · rcases List.mem_append.1 hs' with hs' | hs'
      · exact h.vars s' hs'
      · rw [List.mem_singleton.1 hs']
        unfold SlotOK; rw [h1]; exact h2
    · rcases List.mem_append.1 hs' with hs' | hs'
      · exact h.compRef hc s' hs'
      · rw [List.mem_singleton.1 hs']; exact h1
  · refine h.weaken (fun _ hq => ?_) (fun _ e => e)
    obtain ⟨a, rest, hσ⟩ := hW.top
    have hσ' := hq a rest hσ
    refine ⟨defsSame_of_top hσ hσ' rfl rfl rfl, ?_, fun _ h => (by cases h), a, rest, _, rest, hσ, hσ', ?_, by simp [arrsSig], rfl, rfl⟩
    · intro e he
      simp only [List.mem_singleton] at he
      subst he
      exact ⟨fun h => hty (by simpa using h), fun d h => by cases h⟩
    · simp [varsSig]

/-- appending an array: the frame -/
theorem run_addArr_frame (hW : WF σ) (s : Slot) (hs : ArrSlotOK σ s) (hty : s.ty ≠ .none) :
    Run (addArr s) σ (ResE σ (fun _ σ' => Frame σ σ' [] [(s.name, kind s.val)]) E) := by
  unfold addArr
  have hk : ∀ a : Act, ActKeep a { a with arrs := a.arrs ++ [s] } := by
    intro a
    refine ⟨rfl, rfl, fun isArr name path v ⟨s0, hs0, hp⟩ => ⟨v, ⟨s0, ?_, hp⟩, SameKind.refl v⟩⟩
    cases isArr
    · exact hs0
    · simp only [if_true] at hs0 ⊢
      rw [findSlot_append, hs0]; rfl
  refine (run_modifyCur (E := E) hW _ hk ?_ (fun _ => ⟨rfl, rfl, rfl⟩)).mono fun r σ' h => ?_
  · intro d a h
    refine ⟨h.vars, fun s' hs' => ?_, h.enums, h.ptrs, h.comps, h.compRef, h.glob, h.retVal⟩
    rcases List.mem_append.1 hs' with hs' | hs'
    · exact h.arrs s' hs'
    · rw [List.mem_singleton.1 hs']; exact hs
  · refine h.weaken (fun _ hq => ?_) (fun _ e => e)
    obtain ⟨a, rest, hσ⟩ := hW.top
    have hσ' := hq a rest hσ
    refine ⟨defsSame_of_top hσ hσ' rfl rfl rfl, fun _ h => (by cases h), ?_, a, rest, _, rest, hσ, hσ', by simp [varsSig], ?_, rfl, rfl⟩
    · intro e he
      simp only [List.mem_singleton] at he
      subst he
      obtain ⟨d, hd⟩ := hs.1
      refine ⟨fun h => ?_, fun d' h => ?_⟩
      · rw [hd] at h; cases h
      · rw [hd] at h
        exact hty (by injection h)
    · simp [arrsSig]

/-- a body that runs in an activation which is not a function activation cannot end with the RETURN signal -/
theorem run_noret {m : M α} {Q : α → St → Prop} (hm : Run m σ (ResE σ Q ErrOK))
    (htop : ∀ a rest, σ.acts = a :: rest → a.isFn = false) : Run m σ (ResE σ Q ErrNR) := by
  unfold Run at *
  obtain ⟨h1, h2, h3⟩ := hm
  refine ⟨h1, h2, ?_⟩
  rcases hr : (m.run.run σ).1 with e | a
  · rw [hr] at h3
    refine ⟨h3, fun he => ?_⟩
    subst he
    obtain ⟨a', rest', hacts, hfn⟩ := h3.2 rfl
    have hids := h2.ids
    rw [hacts] at hids
    cases hσ : σ.acts with
    | nil => rw [hσ] at hids; simp at hids
    | cons a rest =>
      rw [hσ] at hids
      simp only [List.map_cons, List.cons.injEq, Prod.mk.injEq] at hids
      rw [hids.1.2, htop a rest hσ] at hfn
      cases hfn
  · rw [hr] at h3; exact h3

/-- push – declare – pop: the frame of the caller is untouched -/
theorem Frame.pop {mk : Nat → Act} {σ2 : St} {nv na : List (Str × Kind)} (hne : σ.acts ≠ [])
    (h : Frame (pushSt mk σ) σ2 nv na) : Frame σ (popSt σ2) [] [] := by
  obtain ⟨hd, _, _, a, rest, a', rest', hx, hx', _, _, _, hr⟩ := h
  have hrest : rest = σ.acts := by
    simp only [pushSt, List.cons.injEq] at hx
    exact hx.2.symm
  subst hrest
  have hpop : (popSt σ2).acts = rest' := by simp [popSt, hx']
  cases hσ : σ.acts with
  | nil => exact absurd hσ hne
  | cons b r =>
    rw [hσ] at hr
    cases rest' with
    | nil => simp at hr
    | cons b' r' =>
      simp only [List.map_cons, List.cons.injEq] at hr
      have hdefs : DefsSame σ (popSt σ2) := by
        have h1 : DefsSame (pushSt mk σ) σ := ⟨(genums_push hne mk).symm ▸ rfl, (gptrs_push hne mk).symm ▸ rfl,
          (gcomps_push hne mk).symm ▸ rfl⟩
        have h2 : DefsSame σ2 (popSt σ2) := by
          unfold DefsSame genums gptrs gcomps
          rw [hpop, hx']
          simp [List.getLast?_cons_cons]
        refine ⟨?_, ?_, ?_⟩
        · rw [h2.1, hd.1, genums_push hne mk]
        · rw [h2.2.1, hd.2.1, gptrs_push hne mk]
        · rw [h2.2.2, hd.2.2, gcomps_push hne mk]
      have h3 : varsSig b' = varsSig b ∧ arrsSig b' = arrsSig b ∧ b'.isComp = b.isComp := by
        have := hr.1; simpa [sigs] using this
      exact ⟨hdefs, fun _ h => (by cases h), fun _ h => (by cases h), b, r, b', r', hσ, hpop, by simp [h3.1], by simp [h3.2.1],
        h3.2.2, hr.2⟩

end prims

/-! ### literal bounds -/

theorem evalExpr_intLit (n : Nat) (t : Tok) (a : Int) (σ : St) :
    RO (evalExpr n (.intLit t a)) σ (· = .int a) := by
  cases n with
  | zero => rw [evalExpr.eq_def]; exact ⟨rfl, errNR_fuel σ⟩
  | succ n => rw [evalExpr.eq_def]; exact ⟨rfl, rfl⟩

/-- literal array bounds evaluate to themselves and change nothing -/
theorem evalBounds_lit : ∀ (bounds : List (Expr × Expr)) (d : List (Int × Int)), litDims bounds = some d →
    ∀ (n : Nat) (acc : List (Int × Int)) (σ : St), RO (evalBounds n bounds acc) σ (· = acc.reverse ++ d)
  | [], d, h, n, acc, σ => by
    simp only [litDims, Option.some.injEq] at h; subst h
    cases n with
    | zero => rw [evalBounds.eq_def]; exact ⟨rfl, errNR_fuel σ⟩
    | succ n => rw [evalBounds.eq_def]; exact (NC.RO.pure _).mono (fun a h => by rw [h]; simp)
  | (lo, hi) :: rest, d, h, n, acc, σ => by
    cases n with
    | zero => rw [evalBounds.eq_def]; exact ⟨rfl, errNR_fuel σ⟩
    | succ n =>
      cases lo <;> try (simp [litDims] at h; done)
      cases hi <;> try (simp [litDims] at h; done)
      rename_i t1 a t2 b
      simp only [litDims] at h
      split at h
      · cases h
      · rename_i hba
        cases hr : litDims rest with
        | none => rw [hr] at h; cases h
        | some d' =>
          rw [hr] at h
          simp only [Option.map_some, Option.some.injEq] at h
          subst h
          rw [evalBounds.eq_def]; dsimp only
          refine NC.RO.bind (evalExpr_intLit n t1 a σ) fun l hl => ?_
          subst hl
          dsimp only
          refine NC.RO.bind (evalExpr_intLit n t2 b σ) fun hh hhe => ?_
          subst hhe
          dsimp only
          rw [if_neg hba]
          refine (evalBounds_lit rest d' hr n ((a, b) :: acc) σ).mono fun r hrr => ?_
          rw [hrr]; simp

theorem scalSig_cons (σ : St) (s : Stmt) (r : List Stmt) : scalSig σ (s :: r) = scalSig σ [s] ++ scalSig σ r := by
  cases s <;> simp [scalSig]
theorem arrSig_cons (σ : St) (s : Stmt) (r : List Stmt) : arrSig σ (s :: r) = arrSig σ [s] ++ arrSig σ r := by
  cases s <;> simp [arrSig]

theorem Frame.mono_sig {σ σ' : St} {nv na nv' na' : List (Str × Kind)} (h : Frame σ σ' nv na) (h1 : nv' = nv) (h2 : na' = na) :
    Frame σ σ' nv' na' := by subst h1 h2; exact h

/-! ### the steps -/

/-- the field list of a record value built from the slots of a record context has the signature of that context -/
theorem fields_sig {σ : St} {d : List Act} {a : Act} (hok : ActOK σ d a) (hc : a.isComp = true) :
    ((a.vars.map fun s => (s.name, s.val)) ++ (a.arrs.map fun s => (s.name, s.val))).map sigOf = varsSig a ++ arrsSig a := by
  rw [List.map_append, List.map_map, List.map_map]
  congr 1
  unfold varsSig
  apply List.map_congr_left
  intro s hs
  have hso := hok.vars s hs
  unfold SlotOK at hso
  rw [hok.compRef hc s hs] at hso
  simp only [Function.comp, sigOf]
  rw [hso.1]

theorem step_defaultVal (ih : AllTri f) : ∀ t ty, Tri (fun σ => TyWF σ ty) (defaultVal (f+1) t ty)
    (fun σ v σ' => CellOK σ' ty v ∧ Frame σ σ' [] []) := by
  intro t ty σ hW hP
  have hE0 := Ext.refl σ
  rw [defaultVal.eq_def]; dsimp only
  split
  · rename_i n
    obtain ⟨body, hbody⟩ := hP
    refine Run.ro hW hE0 (ro_compDefOf hW n) fun r hr => ?_
    subst hr
    unfold compLk at hbody
    cases hf : (gcomps σ).find? (·.1 == n) with
    | none => rw [hf] at hbody; cases hbody
    | some x =>
      rw [hf] at hbody
      obtain ⟨n', body'⟩ := x
      simp only [Option.map_some, Option.some.injEq] at hbody
      subst hbody
      have hdecl : declBody body' = true := hW.glob.comps _ (List.mem_of_find?_eq_some hf)
      have hlk : compLk σ n = some body' := by unfold compLk; rw [hf]; rfl
      dsimp only
      refine Run.ro hW hE0 (ro_compDefOf_any hW n false) fun loc _ => ?_
      refine Run.withAct (Qb := fun v σ2 => CellOK σ2 (.comp n) v ∧ ∃ nv na, Frame (pushSt (fun id => { id := id, name := n, isComp := true, typeGlobal := loc.isNone }) σ) σ2 nv na)
        hW hE0 (fun _ => rfl) ?_ ?_ ?_
      · exact ⟨fun s hs => (by cases hs), fun s hs => (by cases hs), fun _ => rfl, fun _ => rfl, fun _ => rfl,
          fun _ s hs => (by cases hs), fun h => absurd h hW.ne, fun v hv => (by cases hv)⟩
      · intro hWp
        have hrb := ih.runBlock false body' (declBody_ok false hdecl) _ hWp (TopCond.false _)
        refine Run.bind (Ext.refl _) (run_noret hrb ?_) fun _ σ2 hW2 hE2 hE02 hfr => ?_
        · intro a rest ha
          simp only [pushSt, List.cons.injEq] at ha
          rw [← ha.1]
        · have hfr := hfr hdecl
          refine Run.ro hW2 hE02 (ro_curAct hW2) fun a ⟨rest, ha⟩ => ?_
          have haok := hW2.topOK ha
          -- the top activation is the record context that was pushed
          obtain ⟨hds, hsd1, hsd2, a0, rest0, a', rest', hx, hx', hvs, has, hcp, hrs⟩ := hfr
          rw [ha] at hx'; cases hx'
          simp only [pushSt, List.cons.injEq] at hx
          obtain ⟨hx0, hx1⟩ := hx
          subst hx0
          subst hx1
          have hac : a.isComp = true := hcp
          have hvs' : varsSig a = scalSig σ2 body' := by rw [hvs, hds.scalSig]; rfl
          have has' : arrsSig a = arrSig σ2 body' := by rw [has, hds.arrSig]; rfl
          have hlk2 : compLk σ2 n = some body' :=
            compLk_ext hE2.defs (compLk_ext (DefsExt.push hW.ne _) hlk)
          have hgood : Good σ2 (.comp n ((a.vars.map fun s => (s.name, s.val)) ++ (a.arrs.map fun s => (s.name, s.val)))) := by
            refine good_comp ⟨body', hlk2, ?_, ?_⟩ ?_
            · rw [fields_sig haok hac, hvs', has']; rfl
            · unfold memSig
              intro e he
              rcases List.mem_append.1 he with he | he
              · rw [hds.scalSig] at he; exact hsd1 e he
              · rw [hds.arrSig] at he; exact hsd2 e he
            · intro x hx
              rcases List.mem_append.1 hx with hx | hx
              · obtain ⟨s, hs, rfl⟩ := List.mem_map.1 hx
                exact (haok.vars s hs).good
              · obtain ⟨s, hs, rfl⟩ := List.mem_map.1 hx
                exact (haok.arrs s hs).2
          exact Run.pure hW2 hE02 ⟨⟨rfl, hgood⟩, _, _, ⟨hds, hsd1, hsd2, _, _, a, rest, rfl, ha, hvs, has, hcp, hrs⟩⟩
      · intro v σ2 hW2 hE2 hm ⟨hcell, nv, na, hfr⟩
        exact ⟨⟨hcell.1, hm _ hcell.2⟩, hfr.pop hW.ne⟩
  · rename_i hnc
    exact Run.pure hW hE0 ⟨ok_defaultPrim hP (fun n e => hnc n e), Frame.refl hW.ne⟩

theorem step_defaultCells (ih : AllTri f) : ∀ t ty n acc,
    Tri (fun σ => TyWF σ ty ∧ CellsOK σ ty acc) (defaultCells (f+1) t ty n acc)
      (fun σ r σ' => r.length = acc.length + n ∧ CellsOK σ' ty r ∧ Frame σ σ' [] []) := by
  intro t ty n acc σ hW hP
  obtain ⟨hty, hacc⟩ := hP
  cases n with
  | zero =>
    rw [defaultCells.eq_def]
    refine Run.pure hW (Ext.refl σ) ⟨by simp, ?_, Frame.refl hW.ne⟩
    intro c hc; exact hacc c (List.mem_reverse.1 hc)
  | succ n =>
    rw [defaultCells.eq_def]; dsimp only
    refine Run.bind (Ext.refl σ) (ih.defaultVal t ty σ hW hty) fun v σ1 hW1 hE1 hE01 hv => ?_
    refine Run.of_tri hE01 (ih.defaultCells t ty n (v :: acc) σ1 hW1 ⟨hty.ext hE1.defs, ?_⟩) ?_
    · intro c hc; rcases List.mem_cons.1 hc with rfl | hc
      · exact hv.1
      · exact (hacc c hc).ext hE1
    · intro r σ2 _ _ ⟨h1, h2, h3⟩
      exact ⟨by simp at h1 ⊢; omega, h2, (hv.2.trans h3).mono_sig rfl rfl⟩

theorem step_declareVars (ih : AllTri f) : ∀ t ids ty, Tri PT (declareVars (f+1) t ids ty)
    (fun σ _ σ' => Frame σ σ' (ids.map fun id => (id.val, Kind.val (typeOfTok σ ty))) []) := by
  intro t ids tyTok σ hW _
  have hE0 := Ext.refl σ
  cases ids with
  | nil => rw [declareVars.eq_def]; exact Run.pure hW hE0 (Frame.refl hW.ne)
  | cons id rest =>
    rw [declareVars.eq_def]; dsimp only
    refine Run.ro hW hE0 (ro_curAct hW) fun a _ => ?_
    split
    · exact Run.rtErr hW hE0 _ _
    · refine Run.ro hW hE0 (ro_isIdentifierType hW id) fun b _ => ?_
      split
      · exact Run.rtErr hW hE0 _ _
      · refine Run.ro hW hE0 (ro_getType hW tyTok) fun ty hty => ?_
        split
        · exact Run.rtErr hW hE0 _ _
        · rename_i hne
          have hne' : ty ≠ .none := by simpa using hne
          have htywf : TyWF σ ty := by rw [hty]; exact typeOfTok_wf hW tyTok
          refine Run.bind hE0 (ih.defaultVal t ty σ hW htywf) fun v σ1 hW1 hE1 hE01 hv => ?_
          refine Run.bind hE01 (run_addVar_frame hW1 { name := id.val, ty := ty, val := v } rfl hv.1 hne')
            fun _ σ2 hW2 hE2 hE02 hfr => ?_
          refine Run.of_tri hE02 (ih.declareVars t rest tyTok σ2 hW2 trivial) fun _ σ3 _ _ hfr3 => ?_
          have hds : DefsSame σ σ2 := hv.2.1.trans hfr.1
          refine ((hv.2.trans hfr).trans hfr3).mono_sig ?_ rfl
          simp only [List.map_cons, List.nil_append, List.singleton_append, hds.typeOfTok, hty]

theorem step_declareArrs (ih : AllTri f) : ∀ t ids ty dims, Tri PT (declareArrs (f+1) t ids ty dims)
    (fun σ _ σ' => Frame σ σ' [] (ids.map fun id => (id.val, Kind.arr (typeOfTok σ ty) dims))) := by
  intro t ids tyTok dims σ hW _
  have hE0 := Ext.refl σ
  cases ids with
  | nil => rw [declareArrs.eq_def]; exact Run.pure hW hE0 (Frame.refl hW.ne)
  | cons id rest =>
    rw [declareArrs.eq_def]; dsimp only
    refine Run.ro hW hE0 (ro_getType hW tyTok) fun ty hty => ?_
    split
    · exact Run.rtErr hW hE0 _ _
    · rename_i hne
      have hne' : ty ≠ .none := by simpa using hne
      have htywf : TyWF σ ty := by rw [hty]; exact typeOfTok_wf hW tyTok
      split
      · exact Run.rtErr hW hE0 _ _
      · refine Run.bind hE0 (ih.defaultCells t ty (totalCells dims) [] σ hW ⟨htywf, fun c hc => by cases hc⟩)
          fun cells σ1 hW1 hE1 hE01 hc => ?_
        have harr : ArrOK σ1 ty (.arr ty dims cells) := ArrOK.mk' (by simpa using hc.1) hc.2.1
        refine Run.bind hE01 (run_addArr_frame hW1 { name := id.val, ty := ty, val := .arr ty dims cells } harr hne')
          fun _ σ2 hW2 hE2 hE02 hfr => ?_
        refine Run.of_tri hE02 (ih.declareArrs t rest tyTok dims σ2 hW2 trivial) fun _ σ3 _ _ hfr3 => ?_
        have hds : DefsSame σ σ2 := hc.2.2.1.trans hfr.1
        refine ((hc.2.2.trans hfr).trans hfr3).mono_sig rfl ?_
        simp only [List.map_cons, List.nil_append, List.singleton_append, hds.typeOfTok, hty, kind]

theorem step_execStmt_declare (ih : AllTri f) (top : Bool) (t : Tok) (ids : List Tok) (ty : Tok)
    (hok : okStmt top (.declare t ids ty) = true) :
    Tri (TopCond top) (execStmt (f+1) (.declare t ids ty))
      (fun σ v σ' => (NArr v = true ∧ Good σ' v) ∧ (declStmt (.declare t ids ty) = true →
        Frame σ σ' (scalSig σ [.declare t ids ty]) (arrSig σ [.declare t ids ty]))) := by
  intro σ hW _; have hE0 := Ext.refl σ; rw [execStmt.eq_def]; dsimp only
  refine Run.bind hE0 (run_tick' hW _) fun _ σ1 hW1 hE1 hE01 hacts => ?_
  refine Run.bind hE01 (ih.declareVars t ids ty σ1 hW1 trivial) fun _ σ2 hW2 hE2 hE02 hfr => ?_
  refine Run.pure hW2 hE02 ⟨⟨rfl, good_of_scalar trivial trivial⟩, fun _ => ?_⟩
  have h01 : Frame σ σ1 [] [] := Frame.of_acts_eq hW.ne hacts
  refine (h01.trans hfr).mono_sig ?_ ?_
  · simp [scalSig, h01.1.typeOfTok]
  · simp [arrSig]

theorem step_execStmt_declareArr (ih : AllTri f) (top : Bool) (t : Tok) (ids : List Tok) (ty : Tok)
    (bounds : List (Expr × Expr)) (hok : okStmt top (.declareArr t ids ty bounds) = true) :
    Tri (TopCond top) (execStmt (f+1) (.declareArr t ids ty bounds))
      (fun σ v σ' => (NArr v = true ∧ Good σ' v) ∧ (declStmt (.declareArr t ids ty bounds) = true →
        Frame σ σ' (scalSig σ [.declareArr t ids ty bounds]) (arrSig σ [.declareArr t ids ty bounds]))) := by
  intro σ hW _; have hE0 := Ext.refl σ; rw [execStmt.eq_def]; dsimp only
  refine Run.bind hE0 (run_tick' hW _) fun _ σ1 hW1 hE1 hE01 hacts => ?_
  have h01 : Frame σ σ1 [] [] := Frame.of_acts_eq hW.ne hacts
  refine Run.ro hW1 hE01 (ro_curAct hW1) fun a ⟨rest, ha⟩ => ?_
  split
  · exact Run.rtErr hW1 hE01 _ _
  · cases hl : litDims bounds with
    | none =>
      refine Run.bind hE01 (ih.evalBounds bounds [] σ1 hW1 trivial) fun dims σ2 hW2 hE2 hE02 _ => ?_
      refine Run.bind hE02 (ih.declareArrs t ids ty dims σ2 hW2 trivial) fun _ σ3 hW3 hE3 hE03 _ => ?_
      refine Run.pure hW3 hE03 ⟨⟨rfl, good_of_scalar trivial trivial⟩, fun h => ?_⟩
      simp [declStmt, hl] at h
    | some d =>
      refine Run.ro hW1 hE01 (evalBounds_lit bounds d hl f [] σ1) fun dims hdims => ?_
      have hdims' : dims = d := by simpa using hdims
      subst hdims'
      refine Run.bind hE01 (ih.declareArrs t ids ty dims σ1 hW1 trivial) fun _ σ3 hW3 hE3 hE03 hfr => ?_
      refine Run.pure hW3 hE03 ⟨⟨rfl, good_of_scalar trivial trivial⟩, fun _ => ?_⟩
      refine (h01.trans hfr).mono_sig ?_ ?_
      · simp [scalSig]
      · simp [arrSig, hl, h01.1.typeOfTok]

theorem step_runBlock (ih : AllTri f) : ∀ top b, okBlock top b = true → Tri (TopCond top) (runBlock (f+1) b)
    (fun σ _ σ' => declBody b = true → Frame σ σ' (scalSig σ b) (arrSig σ b)) := by
  intro top b hok σ hW hTop
  have hE0 := Ext.refl σ
  cases b with
  | nil => rw [runBlock.eq_def]; exact Run.pure hW hE0 fun _ => Frame.refl hW.ne
  | cons s rest =>
    rw [runBlock.eq_def]; dsimp only
    simp only [okBlock, Bool.and_eq_true] at hok
    refine Run.bind hE0 (ih.execStmt top s hok.1 σ hW hTop) fun v σ1 hW1 hE1 hE01 hv => ?_
    have hfin : ∀ {σ2 σ3 : St}, (declBody (s :: rest) = true → Frame σ σ2 (scalSig σ [s]) (arrSig σ [s])) →
        (declBody rest = true → Frame σ2 σ3 (scalSig σ2 rest) (arrSig σ2 rest)) →
        declBody (s :: rest) = true → Frame σ σ3 (scalSig σ (s :: rest)) (arrSig σ (s :: rest)) := by
      intro σ2 σ3 h1 h2 hd
      have hd' : declStmt s = true ∧ declBody rest = true := by
        simpa [declBody] using hd
      have f1 := h1 hd
      have f2 := h2 hd'.2
      refine (f1.trans f2).mono_sig ?_ ?_
      · rw [scalSig_cons, f1.1.scalSig]
      · rw [arrSig_cons, f1.1.arrSig]
    have hs1 : declBody (s :: rest) = true → Frame σ σ1 (scalSig σ [s]) (arrSig σ [s]) := by
      intro hd
      have hd' : declStmt s = true ∧ declBody rest = true := by simpa [declBody] using hd
      exact hv.2 hd'.1
    refine Run.get_bind ?_
    split
    · refine Run.bind hE01 (run_replEcho' hW1 hv.1.2) fun _ σ2 hW2 hE2 hE02 hacts => ?_
      refine Run.of_tri hE02 (ih.runBlock top rest hok.2 σ2 hW2 (hTop.ext hE02)) fun _ σ3 _ _ hr => ?_
      have h12 : Frame σ1 σ2 [] [] := Frame.of_acts_eq hW1.ne hacts
      refine hfin (σ2 := σ2) (fun hd => ((hs1 hd).trans h12).mono_sig (by simp) (by simp)) hr
    · exact Run.of_tri hE01 (ih.runBlock top rest hok.2 σ1 hW1 (hTop.ext hE01)) fun _ σ3 _ _ hr => hfin hs1 hr

end Pseudo.NR
