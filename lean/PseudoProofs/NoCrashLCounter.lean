import PseudoModel.Top
/-!
# C01 with procedure-level TYPE statements: a program that crashed model and C++ before the repair d712123, now refused
-/
namespace Pseudo

/-- A BYREF argument is evaluated (for the type check) and later resolved a second time (for the alias).  The first time the
    evaluation of `A[F(1)]` raises "not defined" inside `F`; the access node catches it and falls back to the enum element `A` of
    the global type `G`, which passes the type check against the parameter type `G`.  The second time `F` succeeds, so the alias
    `x` of `Q` refers to `A[1]`, a record of the type `LT` that is local to `P`; `OUTPUT x.e` then looks up the enum type `LE`
    (local to `P`) from `Q` and finds nothing: `enumIndexOOB` in the model, a null `EnumTypeDefinition` reference (segmentation
    fault) in the C++ — BEFORE the repair (C++ d712123; model: `bindParams` checks the type of the re-resolved reference against
    the parameter type).  Now the call is refused with "invalid arguments". -/
def C01.progByrefReresolve : String :=
  "TYPE G = (A, B)\nDECLARE cnt : INTEGER\ncnt <- 0\nFUNCTION F(x : INTEGER) RETURNS INTEGER\ncnt <- cnt + 1\nIF cnt = 1 THEN\nOUTPUT undefinedVar\nENDIF\nRETURN 1\nENDFUNCTION\nPROCEDURE Q(BYREF x : G)\nOUTPUT \"in Q\"\nOUTPUT x.e\nENDPROCEDURE\nPROCEDURE P()\nTYPE LE = (L1, L2, L3)\nTYPE LT\nDECLARE e : LE\nENDTYPE\nDECLARE A : ARRAY[1:3] OF LT\nA[1].e <- L3\nCALL Q(A[F(1)])\nENDPROCEDURE\nCALL P()\nOUTPUT \"done\""

/-- the former counterexample `C01_counterexample_byref_reresolve` is refused: a diagnostic (exit status 1), no crash point -/
theorem C01.cx_byrefReresolve_refused :
    (runFile {} C01.progByrefReresolve.toList [] []).crash = none ∧
    (runFile {} C01.progByrefReresolve.toList [] []).exitCode = 1 := by decide +kernel

end Pseudo
