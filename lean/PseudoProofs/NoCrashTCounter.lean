import PseudoProofs.NoCrashTMain
import PseudoProofs.NoCrashTRepl
/-!
# C01 with enum / pointer types: a concrete program, evaluated by the kernel
-/
namespace Pseudo

/-- enum type with cyclic arithmetic through a BYREF parameter, pointer to a global variable, pointer returned from a function to
    one of its own variables (dangling after the return: its dereference is a diagnostic) -/
def C01.progEnumPtr : String :=
  "TYPE Season = (Spring, Summer, Autumn, Winter)\nTYPE PI = ^INTEGER\nDECLARE s : Season\nDECLARE p : PI\nDECLARE x : INTEGER\nPROCEDURE Next(BYREF t : Season)\nt <- t + 1\nENDPROCEDURE\nFUNCTION Mk() RETURNS PI\nDECLARE loc : INTEGER\nDECLARE q : PI\nloc <- 5\nq <- ^loc\nRETURN q\nENDFUNCTION\ns <- Winter\nCALL Next(s)\nOUTPUT s\nx <- 41\np <- ^x\np^ <- p^ + 1\nOUTPUT x\np <- Mk()\nOUTPUT p^"

namespace NT

theorem progEnumPtr_ok : OkSrc {} (C01.progEnumPtr.toList ++ ['\n']) := by decide +kernel
theorem progEnumPtr_runs : (runFile {} C01.progEnumPtr.toList [] []).out = "Spring\n42\n\n".toList := by decide +kernel
theorem progEnumPtr_exit : (runFile {} C01.progEnumPtr.toList [] []).exitCode = 1 := by decide +kernel
/-- a REPL session that defines an enum type and uses it -/
theorem replEnum_ok : ReplOk {} 40 true (replInit {} [] "TYPE E = (a, b)\nx <- b\nx + 1\n".toList) := by decide +kernel

end NT
end Pseudo
