import Properties.C16Exec
import Properties.C03Loops
import PseudoProofs.FuelMono
/-!
# Helpers for C15 on the evaluator: the loop `WHILE NOT EOF(f) … READFILE f, line … ENDWHILE`

* `run_callEOF`, `run_notEOF`: the complete run of the built-in call `EOF("n")` / of `NOT EOF("n")` on a state whose handle for
  `n` is a READ handle: the value is `h.rest.isEmpty` (resp. its negation); the state changes in `nextId` only (the call runs in
  an activation of its own, which uses up one activation number) — `eofSt`.
* `run_readFile_cur`: READFILE into a STRING variable of the current activation, final state in closed form.
* `run_incr`, `run_outputVar`: the statements `cnt <- cnt + 1` and `OUTPUT line`, final state in closed form.
* `Reads txt L`: the unread text `txt` is consumed by repeated `readLineOf` as the lines `L`.
* `while_round_true` / `while_round_false`: one round of WHILE from run facts about condition and body.
-/
namespace Pseudo.ReadLoop
open Pseudo Pseudo.FileStmt

def eofDef : FunDef := { name := "EOF".toList, params := [("File".toList, .str, false)], ret := .bool, body := .builtin "EOF".toList }

theorem find_eof : builtinFuns.find? (·.name == "EOF".toList) = some eofDef := by rfl

theorem callFun_succ (f : Nat) (t : Tok) (args : List Expr) :
    callFun (f+1) t args = (do
      let st ← get
      let fd? := match builtinFuns.find? (·.name == t.val) with
        | some b => some b
        | none => st.funs.find? (·.name == t.val)
      match fd? with
      | none => rtErr t .notDefined
      | some fd =>
        let vals ← evalArgs f args []
        if vals.length != fd.params.length then rtErr t .invalidArgs
        else
          if (← get).depth + 1 > (← get).depthLimit then rtErr t .budget
          let caller ← curAct
          let slots ← bindParams f t fd.params args vals []
          modifyAct caller.id fun a => { a with switchTok := some (t.line, t.col) }
          modify fun s => { s with depth := s.depth + 1 }
          let r ← withAct (fun id => { id := id, name := fd.name, isFn := true, retTy := fd.ret, vars := slots }) do
            match fd.body with
            | .builtin id =>
              let a ← curAct
              let argv := a.vars.map (·.val)
              let v ← runBuiltin id argv
              pure (some v)
            | .user body defTok =>
              tryCatch (runBlock f body) fun e =>
                match e with
                | .ret => pure ()
                | .brk bt => rtErr bt .breakOutside
                | .cont ct => rtErr ct .breakOutside
                | e => throw e
              let a ← curAct
              match a.retVal with
              | some v => pure (some v)
              | none => rtErr defTok .missingReturn
          modify fun s => { s with depth := s.depth - 1 }
          modifyAct caller.id fun a => { a with switchTok := none }
          match r with
          | some v => pure v
          | none => throw (.crash .other)) := by
  rw [callFun.eq_def]; rfl



theorem runBuiltin_eof (n : Str) : runBuiltin "EOF".toList [.str n] = (do
    match ← doFile0 (.eof n) with
    | .bool b => pure (.bool b)
    | _ => throw (.crash .other)) := by
  rfl

theorem run_doFile0_eof (n : Str) (σ : St) (h : Handle) (hh : FState.handle (fileSt σ) n = some h) (hm : h.mode = .read) :
    (doFile0 (.eof n)).run.run σ = (.ok (.bool h.rest.isEmpty), σ) := by
  unfold doFile0
  rw [run_bind_ok _ _ _ _ _ (run_get σ)]
  have := C15_eof_exact (fileSt σ) n h hh hm
  show (match fstep (fileSt σ) (.eof n) with
      | .ok (fs', r) => (do set { σ with fs := fs'.fs, handles := fs'.handles }; pure r : M FRes)
      | .error m => rtErr0 m).run.run σ = _
  rw [this]
  rfl

/-- the body of a built-in call of `EOF`, in the callee's activation `b` (one parameter holding the file name) -/
theorem run_eofBody (n : Str) (σ : St) (b : Act) (rest : List Act) (h : Handle)
    (hacts : σ.acts = b :: rest) (hv : b.vars.map (·.val) = [.str n])
    (hh : FState.handle (fileSt σ) n = some h) (hm : h.mode = .read) :
    (do let a ← curAct
        let v ← runBuiltin "EOF".toList (a.vars.map (·.val))
        pure (some v) : M (Option Val)).run.run σ = (.ok (some (.bool h.rest.isEmpty)), σ) := by
  have hcur : curAct.run.run σ = (.ok b, σ) := by rw [run_curAct]; unfold curActP; rw [hacts]
  rw [run_bind_ok _ _ _ _ _ hcur, hv, runBuiltin_eof, run_bind, run_bind, run_doFile0_eof n σ h hh hm]
  rfl


/-- the built-in call of `EOF` in its own activation: the activation is pushed and popped again -/
theorem run_withAct_eof (n : Str) (σ1 : St) (hs : List Handle) (h : Handle)
    (hhs : σ1.handles = hs) (hh : hs.find? (·.name == n) = some h) (hm : h.mode = .read) :
    (withAct (fun id => { id := id, name := "EOF".toList, isFn := true, retTy := .bool,
                          vars := [{ name := "File".toList, ty := .str, val := .str n }] })
        (do let a ← curAct
            let v ← runBuiltin "EOF".toList (a.vars.map (·.val))
            pure (some v) : M (Option Val))).run.run σ1 =
      (.ok (some (.bool h.rest.isEmpty)), { σ1 with nextId := σ1.nextId + 1 }) := by
  subst hhs
  rw [run_withAct, run_eofBody n (pushSt _ σ1) _ _ h rfl rfl hh hm]
  rfl

/-- the state after a call of the built-in `EOF`: one activation number is used up; the caller's call-site mark is cleared -/
def eofSt (σ : St) : St :=
  { σ with nextId := σ.nextId + 1,
           acts := match σ.acts with
             | a :: rest => { a with switchTok := none } :: rest
             | [] => [] }

theorem run_callEOF (f : Nat) (teof tn : Tok) (n : Str) (σ : St) (a : Act) (rest : List Act) (h : Handle)
    (heof : teof.val = "EOF".toList) (hacts : σ.acts = a :: rest) (hd : σ.depth + 1 ≤ σ.depthLimit)
    (hh : FState.handle (fileSt σ) n = some h) (hm : h.mode = .read) :
    (callFun (f+3) teof [.strLit tn n]).run.run σ = (.ok (.bool h.rest.isEmpty), eofSt σ) := by
  rw [callFun_succ, run_bind_ok _ _ _ _ _ (run_get σ)]
  simp only [heof, find_eof]
  have hargs : (evalArgs (f+2) [.strLit tn n] []).run.run σ = (.ok [.str n], σ) := by
    rw [evalArgs.eq_def]; dsimp only
    rw [run_bind_ok _ _ _ _ _ (evalsTo_strLit f tn n σ)]
    rw [evalArgs.eq_def]; rfl
  rw [run_bind_ok _ _ _ _ _ hargs]
  have hlen : ([Val.str n].length != eofDef.params.length) = false := rfl
  simp only [hlen, Bool.false_eq_true, if_false]
  rw [run_bind_ok _ _ _ _ _ (run_get σ), run_bind_ok _ _ _ _ _ (run_get σ)]
  have hd' : ¬ (σ.depth + 1 > σ.depthLimit) := by omega
  simp only [hd', if_false]
  have hcur : curAct.run.run σ = (.ok a, σ) := by rw [run_curAct]; unfold curActP; rw [hacts]
  rw [run_bind_ok _ _ _ _ _ hcur]
  have hbp : ∀ σ', (bindParams (f + 2) teof eofDef.params [Expr.strLit tn n] [Val.str n] []).run.run σ' =
      (.ok [{ name := "File".toList, ty := .str, val := .str n }], σ') := by
    intro σ'
    rw [bindParams.eq_def]
    show (bindParams (f+1) teof [] [] [] [{ name := "File".toList, ty := .str, val := .str n }]).run.run σ' = _
    rw [bindParams.eq_def]; rfl
  rw [run_bind_ok _ _ _ _ _ (hbp _), run_bind_ok _ _ _ _ _ (run_modifyAct _ _ σ), run_bind_ok _ _ _ _ _ (run_modify _ _)]
  dsimp only [eofDef]
  rw [run_bind_ok _ _ _ _ _ (run_withAct_eof n _ σ.handles h ?_ hh hm)]
  · rw [run_bind_ok _ _ _ _ _ (run_modify _ _), run_bind_ok _ _ _ _ _ (run_modifyAct _ _ _)]
    show ((Except.ok (Val.bool h.rest.isEmpty) : Except Stop Val), _) = _
    unfold eofSt updSt
    simp only [hacts, updActs, beq_self_eq_true, if_true, Nat.add_sub_cancel]
  · rfl


/-- in a state whose current activation carries no call-site mark, the call changes `nextId` only -/
theorem eofSt_eq (σ : St) (a : Act) (rest : List Act) (hacts : σ.acts = a :: rest) (hsw : a.switchTok = none) :
    eofSt σ = { σ with nextId := σ.nextId + 1 } := by
  unfold eofSt
  rw [hacts]
  dsimp only
  have : ({ a with switchTok := none } : Act) = a := by
    cases a; simp only at hsw; subst hsw; rfl
  rw [this, ← hacts]

@[simp] theorem fileSt_eofSt (σ : St) : fileSt (eofSt σ) = fileSt σ := rfl
@[simp] theorem eofSt_steps (σ : St) : (eofSt σ).steps = σ.steps := rfl
@[simp] theorem eofSt_stepLimit (σ : St) : (eofSt σ).stepLimit = σ.stepLimit := rfl

/-- `EOF("n")` as an expression -/
theorem run_evalEOF (f : Nat) (teof tn : Tok) (n : Str) (σ : St) (a : Act) (rest : List Act) (h : Handle)
    (heof : teof.val = "EOF".toList) (hacts : σ.acts = a :: rest) (hd : σ.depth + 1 ≤ σ.depthLimit)
    (hh : FState.handle (fileSt σ) n = some h) (hm : h.mode = .read) :
    (evalExpr (f+4) (.call teof [.strLit tn n])).run.run σ = (.ok (.bool h.rest.isEmpty), eofSt σ) := by
  rw [evalExpr.eq_def]
  exact run_callEOF f teof tn n σ a rest h heof hacts hd hh hm

/-- `NOT EOF("n")` -/
theorem run_notEOF (f : Nat) (tnot teof tn : Tok) (n : Str) (σ : St) (a : Act) (rest : List Act) (h : Handle)
    (heof : teof.val = "EOF".toList) (hacts : σ.acts = a :: rest) (hd : σ.depth + 1 ≤ σ.depthLimit)
    (hh : FState.handle (fileSt σ) n = some h) (hm : h.mode = .read) :
    (evalExpr (f+5) (.not tnot (.call teof [.strLit tn n]))).run.run σ = (.ok (.bool (!h.rest.isEmpty)), eofSt σ) := by
  have hcall := run_evalEOF f teof tn n σ a rest h heof hacts hd hh hm
  rw [evalExpr.eq_def]
  dsimp only
  rw [run_bind_ok _ _ _ _ _ hcall]
  rfl

/-! ### READFILE into a STRING variable of the current activation -/

/-- the handle table after the unread text of the handle(s) named `n` has been replaced by `r` -/
def setRest (hs : List Handle) (n : Str) (r : Str) : List Handle := updHandles hs n fun h => { h with rest := r }

theorem findSlot_name (ss : List Slot) (n : Str) (s : Slot) (h : findSlot ss n = some s) : s.name = n := by
  unfold findSlot at h
  have := List.find?_some h
  simpa using this

/-- the state after `v` has been stored in the variable `x` of the current activation `a` -/
def setVar (a : Act) (x : Str) (v : Val) : Act := { a with vars := updSlot a.vars x fun s => { s with val := v } }

theorem fstep_readLine_ok (s : FState) (n : Str) (h : Handle) (hh : s.handle n = some h) (hm : h.mode = .read) :
    fstep s (.readLine n) =
      .ok ({ s with handles := setRest s.handles n (readLineOf h.rest).2 }, .line (readLineOf h.rest).1) := by
  have hp : fpre s (.readLine n) = .ok () := by unfold fpre; simp [hh, hm]
  simp only [fstep, hp, hh]
  rfl

theorem run_readFile_cur (f : Nat) (t tn id : Tok) (n : Str) (σ : St) (a : Act) (rest : List Act) (s : Slot) (v0 : Str)
    (h : Handle) (hb : σ.steps + 1 ≤ σ.stepLimit) (hacts : σ.acts = a :: rest)
    (hs : findSlot a.vars id.val = some s) (hty : s.ty = .str) (hc : s.isConst = false) (href : s.ref = none)
    (hv : s.val = .str v0) (hh : FState.handle (fileSt σ) n = some h) (hm : h.mode = .read) :
    (execStmt (f+3) (.readFile t (.strLit tn n) id)).run.run σ =
      (.ok .none, { σ with steps := σ.steps + 1, handles := setRest σ.handles n (readLineOf h.rest).2,
                           acts := setVar a id.val (.str (readLineOf h.rest).1) :: rest }) := by
  have hname := findSlot_name _ _ _ hs
  have hlv : lookupVarP σ id.val = .ok (some (a, s)) := by
    rw [lookupVarP_cons σ a rest hacts]; unfold lookupVarIn; rw [hs]
  have hloc : varLoc a s = { act := a.id, isArr := false, name := id.val, path := [] } := by
    unfold varLoc; rw [href, hname]
  have hfind : σ.acts.find? (·.id == a.id) = some a := by rw [hacts]; simp
  have hslot : slotOf a { act := a.id, isArr := false, name := id.val, path := [] } = some s := hs
  have hconst : locConstP σ (varLoc a s) = false := by
    rw [hloc]; unfold locConstP; dsimp only; rw [hfind]; dsimp only; rw [hslot]; simpa using hc
  have hold : readLocP σ (varLoc a s) = .ok (.str v0) := by
    rw [hloc]; unfold readLocP; dsimp only; rw [hfind]; dsimp only; rw [hslot]; dsimp only; rw [hv]; rfl
  obtain ⟨line, root, hr, hrun, _, hroot⟩ :=
    (C16_exec_readFile (f+1) t (.strLit tn n) id σ n a s (.str v0) hb (evalsTo_strLit f tn n _) hlv hty hconst hold rfl).1
      _ _ (fstep_readLine_ok (fileSt σ) n h hh hm)
  injection hr with hr
  subst hr
  have hroot' : root = .str (readLineOf h.rest).1 := hroot (by rw [hloc])
  subst hroot'
  rw [hrun, hloc]
  unfold writeLocSt updSt setVar
  simp only [hacts, updActs, beq_self_eq_true, if_true, Bool.false_eq_true, if_false]
  rfl

/-! ### variables of the current activation: look-up, read, `x <- x + 1`, `OUTPUT x` -/

theorem run_catchNotDefined_ok {α : Type} (m : M α) (hd : Stop → M α) (σ σ' : St) (x : α) (h : m.run.run σ = (.ok x, σ')) :
    (catchNotDefined m hd).run.run σ = (.ok x, σ') := by
  unfold catchNotDefined
  exact run_tryCatch_ok _ _ _ _ _ h

theorem lookupVarP_cur (σ : St) (a : Act) (rest : List Act) (x : Str) (s : Slot) (hacts : σ.acts = a :: rest)
    (hs : findSlot a.vars x = some s) : lookupVarP σ x = .ok (some (a, s)) := by
  rw [lookupVarP_cons σ a rest hacts]; unfold lookupVarIn; rw [hs]

/-- the location of the variable `x` of the activation `a` -/
def curLoc (a : Act) (x : Str) : Loc := { act := a.id, isArr := false, name := x, path := [] }

theorem run_resolveVar (f : Nat) (t : Tok) (σ : St) (a : Act) (rest : List Act) (s : Slot) (hacts : σ.acts = a :: rest)
    (hs : findSlot a.vars t.val = some s) (href : s.ref = none) :
    (resolveRef (f+1) (.var t)).run.run σ =
      (.ok { loc := curLoc a t.val, isArr := false, ty := s.ty, name := t.val }, σ) := by
  have hname := findSlot_name _ _ _ hs
  rw [resolveRef.eq_def]
  dsimp only
  rw [run_bind, run_lookupVar, lookupVarP_cur σ a rest t.val s hacts hs]
  dsimp only
  rw [href]
  dsimp only
  rw [hname]
  rfl

theorem readLocP_cur (σ : St) (a : Act) (rest : List Act) (x : Str) (s : Slot) (hacts : σ.acts = a :: rest)
    (hs : findSlot a.vars x = some s) : readLocP σ (curLoc a x) = .ok s.val := by
  have hfind : σ.acts.find? (·.id == a.id) = some a := by rw [hacts]; simp
  have hslot : slotOf a (curLoc a x) = some s := hs
  unfold readLocP
  show (match σ.acts.find? (·.id == a.id) with | none => _ | some a' => _) = _
  rw [hfind]
  dsimp only
  rw [hslot]
  rfl

theorem locConstP_cur (σ : St) (a : Act) (rest : List Act) (x : Str) (s : Slot) (hacts : σ.acts = a :: rest)
    (hs : findSlot a.vars x = some s) : locConstP σ (curLoc a x) = s.isConst := by
  have hfind : σ.acts.find? (·.id == a.id) = some a := by rw [hacts]; simp
  have hslot : slotOf a (curLoc a x) = some s := hs
  unfold locConstP
  show (match σ.acts.find? (·.id == a.id) with | none => _ | some a' => _) = _
  rw [hfind]
  dsimp only
  rw [hslot]
  rfl

/-- reading a variable of the current activation -/
theorem run_accessVar (f : Nat) (tacc tv : Tok) (σ : St) (a : Act) (rest : List Act) (s : Slot) (hacts : σ.acts = a :: rest)
    (hs : findSlot a.vars tv.val = some s) (href : s.ref = none) :
    (evalExpr (f+2) (.access tacc (.var tv))).run.run σ = (.ok s.val, σ) := by
  have hres : (resolveRef (f+1) (.var tv) >>= fun h => pure (some h)).run.run σ =
      (.ok (some { loc := curLoc a tv.val, isArr := false, ty := s.ty, name := tv.val }), σ) := by
    rw [run_bind_ok _ _ _ _ _ (run_resolveVar f tv σ a rest s hacts hs href)]; rfl
  rw [evalExpr_access, run_bind_ok _ _ _ _ _ (run_catchNotDefined_ok _ _ _ _ _ hres)]
  dsimp only
  simp only [Bool.false_eq_true, if_false]
  rw [run_readLoc, readLocP_cur σ a rest tv.val s hacts hs]

theorem evalArith_add_int (sz : Str → Option Nat) (c k : Int) :
    evalArith sz .add (.int c) (.int k) = .ok (.int (wrap64 (c + k))) := rfl

/-- `x + 1` for an INTEGER variable `x` of the current activation -/
theorem run_varPlusOne (f : Nat) (tp tacc tv t1 : Tok) (σ : St) (a : Act) (rest : List Act) (s : Slot) (c : Int)
    (hacts : σ.acts = a :: rest) (hcomp : a.isComp = false)
    (hs : findSlot a.vars tv.val = some s) (href : s.ref = none) (hv : s.val = .int c) :
    (evalExpr (f+3) (.arith tp .add (.access tacc (.var tv)) (.intLit t1 1))).run.run σ = (.ok (.int (wrap64 (c + 1))), σ) := by
  have hl := run_accessVar f tacc tv σ a rest s hacts hs href
  rw [hv] at hl
  have hr : (evalExpr (f+2) (.intLit t1 1)).run.run σ = (.ok (.int 1), σ) := evalsTo_intLit (f+1) t1 1 σ
  have hsc : scopeAct.run.run σ = (.ok a, σ) := by
    rw [run_scopeAct]; unfold scopeActP; rw [hacts]; simp [hcomp]
  have hg : globalAct.run.run σ = (.ok ((a :: rest).getLast (List.cons_ne_nil a rest)), σ) := by
    rw [run_globalAct]; unfold globalActP; rw [hacts, List.getLast?_eq_some_getLast (List.cons_ne_nil a rest)]
  rw [evalExpr.eq_def]
  dsimp only
  rw [run_bind_ok _ _ _ _ _ hl, run_bind_ok _ _ _ _ _ hr, run_bind_ok _ _ _ _ _ hsc, run_bind_ok _ _ _ _ _ hg,
    evalArith_add_int]
  rfl

theorem writeLocSt_cur (σ : St) (a : Act) (rest : List Act) (x : Str) (v : Val) (hacts : σ.acts = a :: rest) :
    writeLocSt σ (curLoc a x) v = { σ with acts := setVar a x v :: rest } := by
  unfold writeLocSt updSt setVar curLoc
  simp only [hacts, updActs, beq_self_eq_true, if_true, Bool.false_eq_true, if_false]

/-- storing into a non-constant variable of the current activation -/
theorem run_writeLoc_cur (t : Tok) (σ : St) (a : Act) (rest : List Act) (x : Str) (s : Slot) (v : Val)
    (hacts : σ.acts = a :: rest) (hs : findSlot a.vars x = some s) (hc : s.isConst = false) :
    (writeLoc t (curLoc a x) v).run.run σ = (.ok ⟨⟩, { σ with acts := setVar a x v :: rest }) := by
  have hfind : σ.acts.find? (·.id == a.id) = some a := by rw [hacts]; simp
  have hslot : slotOf a (curLoc a x) = some s := hs
  rw [run_writeLoc]
  unfold writeLocP
  show (match σ.acts.find? (·.id == a.id) with | none => _ | some a' => _) = _
  rw [hfind]
  dsimp only
  rw [hslot]
  dsimp only
  rw [hc]
  simp only [Bool.false_eq_true, if_false]
  have hp : (curLoc a x).path = [] := rfl
  rw [hp]
  simp only [setPath]
  rw [writeLocSt_cur σ a rest x v hacts]

/-- the statement `x <- x + 1` for an INTEGER variable `x` of the current activation (64-bit wrap-around as in the model) -/
theorem run_incr (f : Nat) (ta tx tp tacc tv t1 : Tok) (σ : St) (a : Act) (rest : List Act) (s : Slot) (c : Int)
    (hb : σ.steps + 1 ≤ σ.stepLimit) (hacts : σ.acts = a :: rest) (hcomp : a.isComp = false) (htv : tv.val = tx.val)
    (hs : findSlot a.vars tx.val = some s) (hty : s.ty = .int) (hc : s.isConst = false) (href : s.ref = none)
    (hv : s.val = .int c) :
    (execStmt (f+6) (.expr (.assign ta (.var tx) (.arith tp .add (.access tacc (.var tv)) (.intLit t1 1))))).run.run σ =
      (.ok .none, { σ with steps := σ.steps + 1, acts := setVar a tx.val (.int (wrap64 (c + 1))) :: rest }) := by
  have hacts' : (tickSt σ).acts = a :: rest := hacts
  have hs' : findSlot a.vars tv.val = some s := by rw [htv]; exact hs
  have hrhs := run_varPlusOne f tp tacc tv t1 (tickSt σ) a rest s c hacts' hcomp hs' href hv
  have hrhs' : (evalExpr (f+3) (.arith tp .add (.access tacc (.var tv)) (.intLit t1 1)) >>= fun v => pure (some v)).run.run
      (tickSt σ) = (.ok (some (.int (wrap64 (c + 1)))), tickSt σ) := by
    rw [run_bind_ok _ _ _ _ _ hrhs]; rfl
  have hres : (resolveRef (f+3) (.var tx) >>= fun h => pure (some h)).run.run (tickSt σ) =
      (.ok (some { loc := curLoc a tx.val, isArr := false, ty := s.ty, name := tx.val }), tickSt σ) := by
    rw [run_bind_ok _ _ _ _ _ (run_resolveVar (f+2) tx (tickSt σ) a rest s hacts' hs href)]; rfl
  have hcur : curAct.run.run (tickSt σ) = (.ok a, tickSt σ) := by rw [run_curAct]; unfold curActP; rw [hacts']
  rw [execStmt.eq_def]
  dsimp only [Expr.tok]
  rw [run_bind_ok _ _ _ _ _ (run_tick_ok ta σ hb), evalExpr.eq_def]
  dsimp only
  rw [run_bind, execAssign.eq_def]
  dsimp only
  rw [run_bind_ok _ _ _ _ _ hcur, run_bind_ok _ _ _ _ _ (run_get _), run_bind_ok _ _ _ _ _ (run_tryCatch_ok _ _ _ _ _ hrhs')]
  dsimp only
  rw [run_bind_ok _ _ _ _ _ (run_catchNotDefined_ok _ _ _ _ _ hres)]
  dsimp only
  simp only [Bool.false_eq_true, if_false]
  rw [run_bind, run_locIsConst, locConstP_cur (tickSt σ) a rest tx.val s hacts' hs, hc]
  dsimp only
  simp only [Bool.false_eq_true, if_false]
  rw [hty]
  have hcast : implicitCast .int (.int (wrap64 (c + 1))) = .int (wrap64 (c + 1)) := rfl
  have hne : ((Val.int (wrap64 (c + 1))).ty != Ty.int) = false := rfl
  rw [hcast, hne]
  simp only [Bool.false_eq_true, if_false]
  rw [run_writeLoc_cur ta (tickSt σ) a rest tx.val s _ hacts' hs hc]
  rfl

/-- the statement `OUTPUT x` for a STRING variable `x` of the current activation: two chunks, the text and the line break -/
theorem run_outputVar (f : Nat) (to tacc tv : Tok) (σ : St) (a : Act) (rest : List Act) (s : Slot) (l : Str)
    (hb : σ.steps + 1 ≤ σ.stepLimit) (hacts : σ.acts = a :: rest)
    (hs : findSlot a.vars tv.val = some s) (href : s.ref = none) (hv : s.val = .str l) :
    (execStmt (f+4) (.output to [.access tacc (.var tv)])).run.run σ =
      (.ok .none, { σ with steps := σ.steps + 1, out := ['\n'] :: l :: σ.out }) := by
  have hacts' : (tickSt σ).acts = a :: rest := hacts
  have he := run_accessVar f tacc tv (tickSt σ) a rest s hacts' hs href
  rw [hv] at he
  rw [execStmt.eq_def]
  dsimp only
  rw [run_bind_ok _ _ _ _ _ (run_tick_ok to σ hb), run_bind, outputAll.eq_def]
  dsimp only
  rw [run_bind_ok _ _ _ _ _ he]
  have hot : (outputText (.str l)).run.run (tickSt σ) = (.ok (some l), tickSt σ) := rfl
  rw [run_bind_ok _ _ _ _ _ hot]
  dsimp only
  have hemit : ∀ (x : Str) (τ : St), (emit x).run.run τ = (.ok ⟨⟩, { τ with out := x :: τ.out }) := fun _ _ => rfl
  rw [run_bind_ok _ _ _ _ _ (hemit l _), outputAll.eq_def]
  rfl

/-! ### the lines of an unread text -/

/-- the unread text `txt` is consumed by repeated `readLineOf` (one READFILE each) as the lines `L`, ending with no text left -/
inductive Reads : Str → List Str → Prop
  | nil : Reads [] []
  | cons (txt l r : Str) (L : List Str) : txt ≠ [] → readLineOf txt = (l, r) → Reads r L → Reads txt (l :: L)

theorem Reads.nil_inv {txt : Str} (h : Reads txt []) : txt = [] := by cases h; rfl

theorem readLineOf_noNL (l : Str) (h : NoNL l) : readLineOf l = (l, []) := by
  unfold readLineOf
  simp only [takeWhile_all l h]
  simp

/-- complete lines: `l₁\n … lₖ\n` is read as `l₁ … lₖ` -/
theorem reads_joinLines : ∀ (ls : List Str), (∀ l ∈ ls, NoNL l) → Reads (joinLines ls) ls
  | [], _ => Reads.nil
  | l :: ls, h => by
    have e : joinLines (l :: ls) = l ++ '\n' :: joinLines ls := by simp [joinLines]
    rw [e]
    refine Reads.cons _ l (joinLines ls) ls (by simp) (C15_read_line l _ (h l (by simp))) ?_
    exact reads_joinLines ls (fun x hx => h x (by simp [hx]))

/-- a last line without a final line break is read as a line of its own -/
theorem reads_joinLines_last : ∀ (ls : List Str) (last : Str), (∀ l ∈ ls, NoNL l) → NoNL last → last ≠ [] →
    Reads (joinLines ls ++ last) (ls ++ [last])
  | [], last, _, hl, hne => by
    show Reads ([] ++ last) [last]
    rw [List.nil_append]
    exact Reads.cons last last [] [] hne (readLineOf_noNL last hl) Reads.nil
  | l :: ls, last, h, hl, hne => by
    have e : joinLines (l :: ls) ++ last = l ++ '\n' :: (joinLines ls ++ last) := by simp [joinLines]
    rw [e]
    refine Reads.cons _ l (joinLines ls ++ last) (ls ++ [last]) (by simp) (C15_read_line l _ (h l (by simp))) ?_
    exact reads_joinLines_last ls last (fun x hx => h x (by simp [hx])) hl hne

/-- `Reads` is what the pure loop `readAll` computes -/
theorem reads_readAll {txt : Str} {L : List Str} (h : Reads txt L) : readAll (L.length + 1) txt = L := by
  induction h with
  | nil => rfl
  | cons txt l r L hne hrl _ ih =>
    have he : txt.isEmpty = false := by cases txt <;> simp_all
    have e : readAll ((L.length + 1) + 1) txt =
        (if txt.isEmpty then [] else (readLineOf txt).1 :: readAll (L.length + 1) (readLineOf txt).2) := rfl
    show readAll ((L.length + 1) + 1) txt = l :: L
    rw [e, he, hrl]
    simp [ih]

/-! ### one round of WHILE from facts about condition and body -/

theorem while_round_true (k : Nat) (t : Tok) (c : Expr) (b : Block) (σ σ1 σ2 : St) (hb : σ.steps + 1 ≤ σ.stepLimit)
    (hc : (evalExpr k c).run.run (tickSt σ) = (.ok (.bool true), σ1))
    (hbody : (loopBody k b).run.run σ1 = (.ok false, σ2)) :
    (whileLoop (k+1) t c b).run.run σ = (whileLoop k t c b).run.run σ2 := by
  rw [C03_while_run k t c b σ hb, hc]
  dsimp only
  rw [hbody]

theorem while_round_false (k : Nat) (t : Tok) (c : Expr) (b : Block) (σ σ1 : St) (hb : σ.steps + 1 ≤ σ.stepLimit)
    (hc : (evalExpr k c).run.run (tickSt σ) = (.ok (.bool false), σ1)) :
    (whileLoop (k+1) t c b).run.run σ = (.ok ⟨⟩, σ1) := by
  rw [C03_while_run k t c b σ hb, hc]

/-- a two-statement loop body whose statements end normally -/
theorem run_loopBody2 (f : Nat) (s1 s2 : Stmt) (σ σ1 σ2 : St)
    (h1 : (execStmt (f+1) s1).run.run σ = (.ok .none, σ1)) (h2 : (execStmt f s2).run.run σ1 = (.ok .none, σ2)) :
    (loopBody (f+3) [s1, s2]).run.run σ = (.ok false, σ2) := by
  rw [C03_body_run, run_runBlock_cons (f+1) s1 [s2] σ σ1 h1]
  cases f with
  | zero => rw [execStmt.eq_def] at h2; cases h2
  | succ g => rw [run_runBlock_cons (g+1) s2 [] σ1 σ2 h2, run_runBlock_nil]

/-! ### algebra of `setVar` / `setRest` -/

/-- `a` has a plain (not constant, not BYREF) variable `x` of type `ty` holding `v` -/
def HasVar (a : Act) (x : Str) (ty : Ty) (v : Val) : Prop :=
  ∃ s, findSlot a.vars x = some s ∧ s.ty = ty ∧ s.isConst = false ∧ s.ref = none ∧ s.val = v

theorem findSlot_updSlot_ne (n m : Str) (f : Slot → Slot) (hf : ∀ s, (f s).name = s.name) (hne : n ≠ m) :
    ∀ ss : List Slot, findSlot (updSlot ss n f) m = findSlot ss m := by
  intro ss
  induction ss with
  | nil => rfl
  | cons s rest ih =>
    unfold updSlot
    by_cases hs : (s.name == n) = true
    · have hsn : s.name = n := by simpa using hs
      have hm : (s.name == m) = false := by rw [hsn]; simpa using hne
      simp only [hs, if_true, findSlot, List.find?_cons, hf, hm]
    · simp only [hs, Bool.false_eq_true, if_false]
      unfold findSlot at ih ⊢
      simp only [List.find?_cons]
      cases (s.name == m)
      · exact ih
      · rfl

theorem updSlot_updSlot_same (n : Str) (f g : Slot → Slot) (hf : ∀ s, (f s).name = s.name) :
    ∀ ss : List Slot, updSlot (updSlot ss n f) n g = updSlot ss n (fun s => g (f s)) := by
  intro ss
  induction ss with
  | nil => rfl
  | cons s rest ih =>
    by_cases hs : (s.name == n) = true
    · have : ((f s).name == n) = true := by rw [hf]; exact hs
      simp only [updSlot, hs, if_true, this]
    · simp only [updSlot, hs, Bool.false_eq_true, if_false, ih]

theorem updSlot_comm (n m : Str) (f g : Slot → Slot) (hf : ∀ s, (f s).name = s.name) (hg : ∀ s, (g s).name = s.name)
    (hne : n ≠ m) : ∀ ss : List Slot, updSlot (updSlot ss n f) m g = updSlot (updSlot ss m g) n f := by
  intro ss
  induction ss with
  | nil => rfl
  | cons s rest ih =>
    by_cases hs : (s.name == n) = true
    · have hsn : s.name = n := by simpa using hs
      have hm : (s.name == m) = false := by rw [hsn]; simpa using hne
      have hm' : ((f s).name == m) = false := by rw [hf]; exact hm
      simp only [updSlot, hs, if_true, hm, hm', Bool.false_eq_true, if_false]
    · by_cases hsm : (s.name == m) = true
      · have hn' : ((g s).name == n) = false := by rw [hg]; simpa using hs
        simp only [updSlot, hs, hsm, hn', if_true, Bool.false_eq_true, if_false]
      · simp only [updSlot, hs, hsm, Bool.false_eq_true, if_false, ih]

theorem updSlot_id (n : Str) (f : Slot → Slot) : ∀ (ss : List Slot) (s : Slot), findSlot ss n = some s → f s = s →
    updSlot ss n f = ss := by
  intro ss
  induction ss with
  | nil => intro s h; cases h
  | cons x rest ih =>
    intro s h hfs
    unfold findSlot at h ih
    by_cases hx : (x.name == n) = true
    · simp only [List.find?_cons, hx] at h
      injection h with h
      subst h
      simp only [updSlot, hx, if_true, hfs]
    · simp only [List.find?_cons, hx] at h
      simp only [updSlot, hx, Bool.false_eq_true, if_false, ih s h hfs]

theorem setVar_setVar_same (a : Act) (x : Str) (v w : Val) : setVar (setVar a x v) x w = setVar a x w := by
  unfold setVar
  dsimp only
  rw [updSlot_updSlot_same x (fun s => { s with val := v }) (fun s => { s with val := w }) (fun _ => rfl)]

theorem setVar_comm (a : Act) (x y : Str) (v w : Val) (hne : x ≠ y) :
    setVar (setVar a x v) y w = setVar (setVar a y w) x v := by
  unfold setVar
  dsimp only
  rw [updSlot_comm x y (fun s => { s with val := v }) (fun s => { s with val := w }) (fun _ => rfl) (fun _ => rfl) hne]

theorem setVar_id (a : Act) (x : Str) (ty : Ty) (v : Val) (h : HasVar a x ty v) : setVar a x v = a := by
  obtain ⟨s, hs, _, _, _, hv⟩ := h
  unfold setVar
  rw [updSlot_id x (fun s => { s with val := v }) a.vars s hs (by cases s; simp only at hv; subst hv; rfl)]

theorem hasVar_setVar_same (a : Act) (x : Str) (ty : Ty) (v w : Val) (h : HasVar a x ty v) : HasVar (setVar a x w) x ty w := by
  obtain ⟨s, hs, hty, hc, hr, _⟩ := h
  refine ⟨{ s with val := w }, ?_, hty, hc, hr, rfl⟩
  unfold setVar
  dsimp only
  rw [findSlot_updSlot x (fun s => { s with val := w }) (fun _ => rfl), hs]
  rfl

theorem hasVar_setVar_ne (a : Act) (x y : Str) (ty : Ty) (v w : Val) (hne : x ≠ y) (h : HasVar a y ty v) :
    HasVar (setVar a x w) y ty v := by
  obtain ⟨s, hs, hty, hc, hr, hv⟩ := h
  refine ⟨s, ?_, hty, hc, hr, hv⟩
  unfold setVar
  dsimp only
  rw [findSlot_updSlot_ne x y (fun s => { s with val := w }) (fun _ => rfl) hne, hs]

/-- two variables of different types have different names -/
theorem hasVar_ne (a : Act) (x y : Str) (tx ty : Ty) (v w : Val) (hx : HasVar a x tx v) (hy : HasVar a y ty w) (hne : tx ≠ ty) :
    x ≠ y := by
  intro e
  subst e
  obtain ⟨s, hs, hts, _⟩ := hx
  obtain ⟨s', hs', hts', _⟩ := hy
  rw [hs] at hs'
  injection hs' with hs'
  subst hs'
  exact hne (hts.symm.trans hts')

@[simp] theorem setVar_switchTok (a : Act) (x : Str) (v : Val) : (setVar a x v).switchTok = a.switchTok := rfl
@[simp] theorem setVar_isComp (a : Act) (x : Str) (v : Val) : (setVar a x v).isComp = a.isComp := rfl

theorem setRest_setRest (hs : List Handle) (n : Str) (r r' : Str) : setRest (setRest hs n r) n r' = setRest hs n r' := by
  unfold setRest updHandles
  rw [List.map_map]
  apply List.map_congr_left
  intro h _
  simp only [Function.comp]
  by_cases hn : (h.name == n) = true
  · simp only [hn, if_true]
  · simp only [hn, Bool.false_eq_true, if_false]

theorem find_setRest (hs : List Handle) (n : Str) (r : Str) (h : Handle) (hh : hs.find? (·.name == n) = some h) :
    (setRest hs n r).find? (·.name == n) = some { h with rest := r } := by
  unfold setRest
  rw [handle_upd hs n (fun h => { h with rest := r }) (fun _ => rfl), hh]
  rfl

/-- the handle table after the loop has read the lines `L` from `n`: untouched if there was nothing to read -/
def drain (hs : List Handle) (n : Str) : List Str → List Handle
  | [] => hs
  | _ :: _ => setRest hs n []

theorem drain_step (hs : List Handle) (n : Str) (r l : Str) (L : List Str) (hL : L = [] → r = []) :
    drain (setRest hs n r) n L = drain hs n (l :: L) := by
  cases L with
  | nil => rw [hL rfl]; rfl
  | cons l' L' => exact setRest_setRest hs n r []

end Pseudo.ReadLoop
