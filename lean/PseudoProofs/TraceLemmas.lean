import PseudoProofs.ArrayLemmas
import Properties.C11
/-!
# Helper lemmas for the traceback clause of C11 (`Properties/C11Trace.lean`)

A runtime diagnostic is built by `mkRuntime` from the activation stack: the failing position for the innermost
activation, then, for every enclosing activation `p`, the call position `p.switchTok` that `callProc` / `callFun`
noted in `p` (after binding the parameters) before they ran the callee (`frameOf p`).

* the decomposition of a call for the repaired order "bind, then note" (`callProc_succ`, `run_callProc`, `callFun_succ`,
  `run_callFun_user`, `procResult`, `funResult`, `calleeSt`, `setSwitch`, …; self-contained: this file does not import
  `PseudoProofs/CallLemmas.lean`, which has the same for the order before the repair);
* `frameOf`, `rtDiag_trace`: the shape of the `trace` field;
* `RTrace σ σ'`: id and name of EVERY activation, and the call-position note (`switchTok`) of every activation BELOW the
  innermost one, are the same in `σ'` as in `σ`;
* `trace_all`: all 25 functions of the evaluator respect `RTrace` (whatever way they end).  This is NOT an instance of
  `eval_all`: the field `PrimOK.setSwitchTok` of the generic theorem asks for `modifyAct id (switchTok := v)` with an
  ARBITRARY `id`, which would change the note of an enclosing activation.  The evaluator only ever uses the id of the
  innermost activation (`caller ← curAct`), and both uses (`switchTok := some …` after the binding, `switchTok := none`
  after the call) rely on the binding / the callee having kept the id of the caller.  The induction is therefore
  repeated here (same proof search `ens_auto`, primitives `tr_*`) with the two call functions proved through `EnsH` (a
  state-dependent variant of `Ens`: "started with the innermost activation having id `c`");
* `CallChain sites σ`: the enclosing activations of `σ` carry exactly the call positions `sites` (innermost first);
* `enter`, `enterAll`: the state in which the body of a parameterless procedure starts, after one call / after a chain
  of nested calls; `enterAll_acts`: its activation stack;
* `Chain procs b calls last`: the block `b` starts with a `CALL`, the called body starts with the next `CALL`, …, the
  innermost body is `last`;
* `chain_propagates`: an error of the innermost body reaches the outermost block unchanged.
-/
namespace Pseudo

namespace TraceLemmas

set_option linter.unusedSectionVars false
set_option linter.unusedVariables false

open ArrayLemmas C07Copy

/-! ## the decomposition of a call

(`PseudoProofs/CallLemmas.lean` has the same for the model before repair `c59159a`, in which the call position was noted
BEFORE the parameters were bound.  Here: the order of the repaired code — arguments, arity check, depth check, binding
(in the caller), THEN the note, then the body in the new activation.) -/

theorem evalArgs_nil (f : Nat) (acc : List Val) : evalArgs (f+1) [] acc = pure acc.reverse := by
  rw [evalArgs.eq_def]

theorem bindParams_nil (f : Nat) (t : Tok) (es : List Expr) (vs : List Val) (acc : List Slot) :
    bindParams (f+1) t [] es vs acc = pure acc.reverse := by
  rw [bindParams.eq_def]

/-- the handler around a procedure body: a stray BREAK / CONTINUE becomes `breakOutside` -/
def procBody (f : Nat) (body : Block) : M Unit :=
  tryCatch (runBlock f body) fun e =>
    match e with
    | .brk bt => rtErr bt .breakOutside
    | .cont ct => rtErr ct .breakOutside
    | e => throw e

theorem callProc_succ (f : Nat) (t : Tok) (name : Str) (args : List Expr) :
    callProc (f+1) t name args = (do
      match (← get).procs.find? (·.name == name) with
      | none => rtErr t .notDefined
      | some pd =>
        let vals ← evalArgs f args []
        if vals.length != pd.params.length then rtErr t .invalidArgs
        else
          if (← get).depth + 1 > (← get).depthLimit then rtErr t .budget
          let caller ← curAct
          let slots ← bindParams f t pd.params args vals []
          modifyAct caller.id fun a => { a with switchTok := some (t.line, t.col) }
          modify fun s => { s with depth := s.depth + 1 }
          withAct (fun id => { id := id, name := pd.name, vars := slots }) (procBody f pd.body)
          modify fun s => { s with depth := s.depth - 1 }
          modifyAct caller.id fun a => { a with switchTok := none }) := by
  rw [callProc.eq_def]; rfl

/-- the definition a function name denotes: built-in functions first, then the user's -/
def funLookup (σ : St) (n : Str) : Option FunDef :=
  match builtinFuns.find? (·.name == n) with
  | some b => some b
  | none => σ.funs.find? (·.name == n)

/-- the handler around a function body: RETURN ends the body normally, a stray BREAK / CONTINUE becomes `breakOutside` -/
def funBlock (f : Nat) (body : Block) : M Unit :=
  tryCatch (runBlock f body) fun e =>
    match e with
    | .ret => pure ()
    | .brk bt => rtErr bt .breakOutside
    | .cont ct => rtErr ct .breakOutside
    | e => throw e

/-- what runs inside the activation of a function call -/
def funBody (f : Nat) (fd : FunDef) : M (Option Val) :=
  match fd.body with
  | .builtin id => do
    let a ← curAct
    let argv := a.vars.map (·.val)
    let v ← runBuiltin id argv
    pure (some v)
  | .user body defTok => do
    funBlock f body
    let a ← curAct
    match a.retVal with
    | some v => pure (some v)
    | none => rtErr defTok .missingReturn

theorem callFun_succ (f : Nat) (t : Tok) (args : List Expr) :
    callFun (f+1) t args = (do
      let st ← get
      match funLookup st t.val with
      | none => rtErr t .notDefined
      | some fd =>
        let vals ← evalArgs f args []
        if vals.length != fd.params.length then rtErr t .invalidArgs
        else
          if (← get).depth + 1 > (← get).depthLimit then rtErr t .budget
          let caller ← curAct
          let slots ← bindParams f t fd.params args vals []
          modifyAct caller.id fun a => { a with switchTok := some (t.line, t.col) }
          modify fun s => { s with depth := s.depth + 1 }
          let r ← withAct (fun id => { id := id, name := fd.name, isFn := true, retTy := fd.ret, vars := slots }) (funBody f fd)
          modify fun s => { s with depth := s.depth - 1 }
          modifyAct caller.id fun a => { a with switchTok := none }
          match r with
          | some v => pure v
          | none => throw (.crash .other)) := by
  rw [callFun.eq_def]; rfl

theorem execStmt_call (f : Nat) (t : Tok) (name : Str) (args : List Expr) :
    execStmt (f+1) (.call t name args) = (do tick t; callProc f t name args; pure .none) := by
  rw [execStmt.eq_def]

/-- the caller notes the position of the call (for the traceback of a diagnostic raised in the callee) -/
def setSwitch (σ : St) (id : Nat) (t : Tok) : St := updSt σ id fun a => { a with switchTok := some (t.line, t.col) }
def clearSwitch (σ : St) (id : Nat) : St := updSt σ id fun a => { a with switchTok := none }
def incDepth (σ : St) : St := { σ with depth := σ.depth + 1 }
def decDepth (σ : St) : St := { σ with depth := σ.depth - 1 }

/-- the activation of a procedure call -/
def procAct (pd : ProcDef) (slots : List Slot) : Nat → Act := fun id => { id := id, name := pd.name, vars := slots }
/-- the activation of a function call -/
def funAct (fd : FunDef) (slots : List Slot) : Nat → Act :=
  fun id => { id := id, name := fd.name, isFn := true, retTy := fd.ret, vars := slots }

/-- the state in which the body of the callee starts: one level deeper, the new activation on top -/
def calleeSt (mk : Nat → Act) (σ : St) : St := pushSt mk (incDepth σ)

/-- a signal that reaches the handler of a procedure / function body in state `σ` -/
def sigToErr (σ : St) : Stop → Stop
  | .brk bt => .diag (rtDiag σ bt.line bt.col .breakOutside)
  | .cont ct => .diag (rtDiag σ ct.line ct.col .breakOutside)
  | e => e

theorem run_procBody (f : Nat) (body : Block) (σ : St) :
    (procBody f body).run.run σ =
      match (runBlock f body).run.run σ with
      | (.ok u, σ') => (.ok u, σ')
      | (.error e, σ') => (.error (sigToErr σ' e), σ') := by
  unfold procBody
  rw [run_tryCatch]
  rcases (runBlock f body).run.run σ with ⟨e | u, σ'⟩
  · cases e <;> first | rfl | exact run_rtErr _ _ σ'
  · rfl

/-- the outcome of a procedure call from the outcome of its body (run in the callee's state): the new activation
    is removed; after a normal end the depth counter and the caller's call-position note are reset -/
def procResult (callerId : Nat) : Except Stop Unit × St → Except Stop Unit × St
  | (.ok _, σ4) => (.ok ⟨⟩, clearSwitch (decDepth (popSt σ4)) callerId)
  | (.error e, σ4) => (.error (sigToErr σ4 e), popSt σ4)

/-- **decomposition of a procedure call**: arguments (in the caller), arity check, depth check, binding (in the
    caller), the caller notes the call position, then the body in the new activation -/
theorem run_callProc (f : Nat) (t : Tok) (name : Str) (args : List Expr) (σ σ1 σ2 : St) (pd : ProcDef)
    (vals : List Val) (cur : Act) (rest : List Act) (slots : List Slot)
    (hpd : σ.procs.find? (·.name == name) = some pd)
    (hargs : (evalArgs f args []).run.run σ = (.ok vals, σ1))
    (hlen : vals.length = pd.params.length)
    (hdepth : σ1.depth + 1 ≤ σ1.depthLimit)
    (hcur : σ1.acts = cur :: rest)
    (hbind : (bindParams f t pd.params args vals []).run.run σ1 = (.ok slots, σ2)) :
    (callProc (f+1) t name args).run.run σ =
      procResult cur.id ((runBlock f pd.body).run.run (calleeSt (procAct pd slots) (setSwitch σ2 cur.id t))) := by
  rw [callProc_succ, run_bind_ok _ _ _ _ _ (run_get σ), hpd]
  dsimp only
  rw [run_bind_ok _ _ _ _ _ hargs]
  have hl : (vals.length != pd.params.length) = false := by simp [hlen]
  simp only [hl, Bool.false_eq_true, if_false]
  rw [run_bind_ok _ _ _ _ _ (run_get σ1), run_bind_ok _ _ _ _ _ (run_get σ1)]
  have hd : ¬ (σ1.depth + 1 > σ1.depthLimit) := by omega
  simp only [hd, if_false]
  rw [run_bind_ok _ _ _ _ _ (run_curAct_cons σ1 cur rest hcur), run_bind_ok _ _ _ _ _ hbind,
    run_bind_ok _ _ _ _ _ (run_modifyAct _ _ σ2), run_bind_ok _ _ _ _ _ (run_modify _ _)]
  rw [run_bind, run_withAct, run_procBody]
  show _ = procResult cur.id ((runBlock f pd.body).run.run (pushSt (procAct pd slots) (incDepth (setSwitch σ2 cur.id t))))
  have hst : pushSt (fun id => ({ id := id, name := pd.name, vars := slots } : Act))
      { (updSt σ2 cur.id fun a => { a with switchTok := some (t.line, t.col) }) with
        depth := (updSt σ2 cur.id fun a => { a with switchTok := some (t.line, t.col) }).depth + 1 } =
      pushSt (procAct pd slots) (incDepth (setSwitch σ2 cur.id t)) := rfl
  rw [hst]
  rcases (runBlock f pd.body).run.run (pushSt (procAct pd slots) (incDepth (setSwitch σ2 cur.id t))) with ⟨e | u, σ4⟩
  · rfl
  · simp only [procResult]
    rw [run_bind_ok _ _ _ _ _ (run_modify _ _)]
    rfl

/-- the outcome of a user function call from the outcome of its body -/
def funResult (callerId : Nat) (defTok : Tok) : Except Stop Unit × St → Except Stop Val × St
  | (.ok _, σ4) | (.error .ret, σ4) =>
    match σ4.acts with
    | a :: _ =>
      match a.retVal with
      | some v => (.ok v, clearSwitch (decDepth (popSt σ4)) callerId)
      | none => (.error (.diag (rtDiag σ4 defTok.line defTok.col .missingReturn)), popSt σ4)
    | [] => (.error (.crash .noActivation), popSt σ4)
  | (.error e, σ4) => (.error (sigToErr σ4 e), popSt σ4)

theorem run_funBlock (f : Nat) (body : Block) (σ : St) :
    (funBlock f body).run.run σ =
      match (runBlock f body).run.run σ with
      | (.ok u, σ') => (.ok u, σ')
      | (.error .ret, σ') => (.ok ⟨⟩, σ')
      | (.error e, σ') => (.error (sigToErr σ' e), σ') := by
  unfold funBlock
  rw [run_tryCatch]
  rcases (runBlock f body).run.run σ with ⟨e | u, σ'⟩
  · cases e <;> first | rfl | exact run_rtErr _ _ σ'
  · rfl

/-- the outcome of the body of a user function (inside its activation) -/
def funBodyOut (defTok : Tok) : Except Stop Unit × St → Except Stop (Option Val) × St
  | (.ok _, σ4) | (.error .ret, σ4) =>
    match σ4.acts with
    | a :: _ =>
      match a.retVal with
      | some v => (.ok (some v), σ4)
      | none => (.error (.diag (rtDiag σ4 defTok.line defTok.col .missingReturn)), σ4)
    | [] => (.error (.crash .noActivation), σ4)
  | (.error e, σ4) => (.error (sigToErr σ4 e), σ4)

theorem run_retCheck (defTok : Tok) (σ4 : St) :
    (do let a ← curAct
        match a.retVal with
        | some v => pure (some v)
        | none => rtErr defTok .missingReturn : M (Option Val)).run.run σ4 = funBodyOut defTok (.ok ⟨⟩, σ4) := by
  simp only [funBodyOut]
  cases hacts : σ4.acts with
  | nil =>
    have : curAct.run.run σ4 = (.error (.crash .noActivation), σ4) := by
      unfold curAct; rw [run_bind_ok _ _ _ _ _ (run_get σ4), hacts]; rfl
    rw [run_bind_err _ _ _ _ _ this]
  | cons a r4 =>
    rw [run_bind_ok _ _ _ _ _ (run_curAct_cons σ4 a r4 hacts)]
    cases hrv : a.retVal with
    | none => simp only [hrv]; exact run_rtErr _ _ σ4
    | some v => simp only [hrv]; rfl

theorem run_funBody_user (f : Nat) (fd : FunDef) (body : Block) (defTok : Tok) (σ : St) (hbody : fd.body = .user body defTok) :
    (funBody f fd).run.run σ = funBodyOut defTok ((runBlock f body).run.run σ) := by
  unfold funBody
  rw [hbody]
  dsimp only
  rw [run_bind, run_funBlock]
  rcases (runBlock f body).run.run σ with ⟨e | u, σ4⟩
  · cases e with
    | ret => exact run_retCheck defTok σ4
    | _ => rfl
  · exact run_retCheck defTok σ4

/-- **decomposition of a call of a user-defined function** -/
theorem run_callFun_user (f : Nat) (t : Tok) (args : List Expr) (σ σ1 σ2 : St) (fd : FunDef) (body : Block) (defTok : Tok)
    (vals : List Val) (cur : Act) (rest : List Act) (slots : List Slot)
    (hfd : funLookup σ t.val = some fd) (hbody : fd.body = .user body defTok)
    (hargs : (evalArgs f args []).run.run σ = (.ok vals, σ1))
    (hlen : vals.length = fd.params.length)
    (hdepth : σ1.depth + 1 ≤ σ1.depthLimit)
    (hcur : σ1.acts = cur :: rest)
    (hbind : (bindParams f t fd.params args vals []).run.run σ1 = (.ok slots, σ2)) :
    (callFun (f+1) t args).run.run σ =
      funResult cur.id defTok ((runBlock f body).run.run (calleeSt (funAct fd slots) (setSwitch σ2 cur.id t))) := by
  rw [callFun_succ, run_bind_ok _ _ _ _ _ (run_get σ), hfd]
  dsimp only
  rw [run_bind_ok _ _ _ _ _ hargs]
  have hl : (vals.length != fd.params.length) = false := by simp [hlen]
  simp only [hl, Bool.false_eq_true, if_false]
  rw [run_bind_ok _ _ _ _ _ (run_get σ1), run_bind_ok _ _ _ _ _ (run_get σ1)]
  have hd : ¬ (σ1.depth + 1 > σ1.depthLimit) := by omega
  simp only [hd, if_false]
  rw [run_bind_ok _ _ _ _ _ (run_curAct_cons σ1 cur rest hcur), run_bind_ok _ _ _ _ _ hbind,
    run_bind_ok _ _ _ _ _ (run_modifyAct _ _ σ2), run_bind_ok _ _ _ _ _ (run_modify _ _)]
  rw [run_bind, run_withAct]
  have hst : pushSt (fun id => ({ id := id, name := fd.name, isFn := true, retTy := fd.ret, vars := slots } : Act))
      { (updSt σ2 cur.id fun a => { a with switchTok := some (t.line, t.col) }) with
        depth := (updSt σ2 cur.id fun a => { a with switchTok := some (t.line, t.col) }).depth + 1 } =
      calleeSt (funAct fd slots) (setSwitch σ2 cur.id t) := rfl
  rw [hst, run_funBody_user f fd body defTok _ hbody]
  rcases (runBlock f body).run.run (calleeSt (funAct fd slots) (setSwitch σ2 cur.id t)) with ⟨e | u, σ4⟩
  · cases e with
    | ret =>
      simp only [funResult, funBodyOut]
      cases hacts : σ4.acts with
      | nil => rfl
      | cons a r4 =>
        cases hrv : a.retVal with
        | none => simp only [hrv]
        | some v =>
          simp only [hrv]
          rw [run_bind_ok _ _ _ _ _ (run_modify _ _), run_bind_ok _ _ _ _ _ (run_modifyAct _ _ _)]
          rfl
    | _ => rfl
  · simp only [funResult, funBodyOut]
    cases hacts : σ4.acts with
    | nil => rfl
    | cons a r4 =>
      cases hrv : a.retVal with
      | none => simp only [hrv]
      | some v =>
        simp only [hrv]
        rw [run_bind_ok _ _ _ _ _ (run_modify _ _), run_bind_ok _ _ _ _ _ (run_modifyAct _ _ _)]
        rfl

/-! ### blocks -/

theorem run_replEcho_none (σ : St) : (replEcho .none).run.run σ = (.ok ⟨⟩, σ) := by
  unfold replEcho; rfl

/-- a statement that ends normally with the value NONE (every statement proper; or any value outside the REPL):
    the block goes on with the rest -/
theorem run_runBlock_cons_ok (f : Nat) (s : Stmt) (rest : Block) (v : Val) (σ σ' : St)
    (h : (execStmt f s).run.run σ = (.ok v, σ')) (hv : v = .none ∨ σ'.repl = false) :
    (runBlock (f+1) (s :: rest)).run.run σ = (runBlock f rest).run.run σ' := by
  rw [runBlock_cons, run_bind_ok _ _ _ _ _ h, run_bind_ok _ _ _ _ _ (run_get σ')]
  cases hr : σ'.repl with
  | false => simp only [Bool.false_eq_true, if_false]; try rw [run_bind_ok _ _ _ _ _ (run_pure _ σ')]
  | true =>
    rcases hv with rfl | hv
    · simp only [if_true]; rw [run_bind_ok _ _ _ _ _ (run_replEcho_none σ')]
    · rw [hr] at hv; cases hv

theorem run_runBlock_cons_err (f : Nat) (s : Stmt) (rest : Block) (e : Stop) (σ σ' : St)
    (h : (execStmt f s).run.run σ = (.error e, σ')) :
    (runBlock (f+1) (s :: rest)).run.run σ = (.error e, σ') := by
  rw [runBlock_cons]; exact run_bind_err _ _ _ _ _ h

theorem exists_getLast {α : Type} (a : α) (l : List α) : ∃ g, (a :: l).getLast? = some g := by
  cases h : (a :: l).getLast? with
  | some g => exact ⟨g, rfl⟩
  | none => simp at h

/-! ## the traceback of a diagnostic -/

/-- the traceback entry of an enclosing activation: its name and the call position noted in it (0, 0 when there is none) -/
def frameOf (p : Act) : Frame :=
  match p.switchTok with
  | some (l, c) => { name := p.name, line := l, col := c }
  | none => { name := p.name, line := 0, col := 0 }

theorem rtDiag_trace (σ : St) (a : Act) (parents : List Act) (h : σ.acts = a :: parents) (l c : Nat) (m : Msg) :
    (rtDiag σ l c m).trace = { name := a.name, line := l, col := c } :: parents.map frameOf := by
  unfold rtDiag
  rw [h]
  rfl

theorem frameOf_some (p : Act) (l c : Nat) (h : p.switchTok = some (l, c)) : frameOf p = { name := p.name, line := l, col := c } := by
  unfold frameOf; rw [h]

/-- the traceback entries depend on name and note only -/
theorem map_frameOf_congr : ∀ (l l' : List Act), l'.map (·.name) = l.map (·.name) → l'.map (·.switchTok) = l.map (·.switchTok) →
    l'.map frameOf = l.map frameOf
  | [], [], _, _ => rfl
  | [], _ :: _, h, _ => by cases h
  | _ :: _, [], h, _ => by cases h
  | a :: l, a' :: l', h1, h2 => by
    simp only [List.map_cons, List.cons.injEq] at h1 h2 ⊢
    refine ⟨?_, map_frameOf_congr l l' h1.2 h2.2⟩
    unfold frameOf
    rw [h1.1, h2.1]

/-! ## the relation -/

/-- id and name of an activation -/
def ident (a : Act) : Nat × Str := (a.id, a.name)

/-- every activation keeps id and name (same number, same order); every activation below the innermost one keeps the
    call position noted in it -/
def RTrace (σ σ' : St) : Prop :=
  σ'.acts.map ident = σ.acts.map ident ∧
  (σ'.acts.drop 1).map (·.switchTok) = (σ.acts.drop 1).map (·.switchTok)

instance : RPre RTrace := ⟨fun _ => ⟨rfl, rfl⟩, fun h1 h2 => ⟨h2.1.trans h1.1, h2.2.trans h1.2⟩⟩

theorem names_of_idents (l l' : List Act) (h : l'.map ident = l.map ident) : l'.map (·.name) = l.map (·.name) := by
  have := congrArg (List.map (·.2)) h
  simpa [List.map_map, Function.comp_def, ident] using this

theorem ids_of_idents (l l' : List Act) (h : l'.map ident = l.map ident) : l'.map (·.id) = l.map (·.id) := by
  have := congrArg (List.map (·.1)) h
  simpa [List.map_map, Function.comp_def, ident] using this

/-- the traceback entries of the enclosing activations are the same in related states -/
theorem RTrace.frames {σ σ' : St} (h : RTrace σ σ') : (σ'.acts.drop 1).map frameOf = (σ.acts.drop 1).map frameOf := by
  apply map_frameOf_congr _ _ _ h.2
  have := names_of_idents _ _ h.1
  rw [List.map_drop, List.map_drop, this]

theorem RTrace.length {σ σ' : St} (h : RTrace σ σ') : σ'.acts.length = σ.acts.length := by
  have := congrArg List.length h.1
  simpa using this

theorem updActs_map {β : Type} (g : Act → β) (id : Nat) (F : Act → Act) (hF : ∀ a, g (F a) = g a) :
    ∀ acts : List Act, (updActs acts id F).map g = acts.map g := by
  intro acts
  induction acts with
  | nil => rfl
  | cons a rest ih =>
    unfold updActs
    split
    · simp [hF]
    · simp [ih]

/-- an update (of whatever activation) that keeps id, name and note -/
theorem RTrace_updSt (σ : St) (id : Nat) (F : Act → Act) (hF : ∀ a, ident (F a) = ident a ∧ (F a).switchTok = a.switchTok) :
    RTrace σ (updSt σ id F) := by
  refine ⟨updActs_map ident id F (fun a => (hF a).1) σ.acts, ?_⟩
  simp only [updSt]
  rw [List.map_drop, List.map_drop, updActs_map (·.switchTok) id F (fun a => (hF a).2)]

theorem updSt_head (σ : St) (a : Act) (rest : List Act) (F : Act → Act) (h : σ.acts = a :: rest) :
    (updSt σ a.id F).acts = F a :: rest := by
  simp only [updSt, h, updActs, beq_self_eq_true, if_true]

/-- an update of the innermost activation that keeps id and name: its own note may change -/
theorem RTrace_updHead (σ : St) (a : Act) (rest : List Act) (F : Act → Act) (h : σ.acts = a :: rest) (hF : ident (F a) = ident a) :
    RTrace σ (updSt σ a.id F) := by
  have := updSt_head σ a rest F h
  refine ⟨?_, ?_⟩
  · rw [this, h]; simp [hF]
  · rw [this, h]; rfl

theorem RTrace_of_sameActs (σ σ' : St) (h : SameActs σ σ') : RTrace σ σ' := by
  unfold RTrace; rw [h.1]; exact ⟨rfl, rfl⟩

/-- the push–pop bracket -/
theorem RTrace_bracket (mk : Nat → Act) (σ σ2 : St) (h : RTrace (pushSt mk σ) σ2) : RTrace σ (popSt σ2) := by
  obtain ⟨h1, h2⟩ := h
  have h1' : (σ2.acts.map ident).drop 1 = σ.acts.map ident := by rw [h1]; rfl
  have h2' : (σ2.acts.drop 1).map (·.switchTok) = σ.acts.map (·.switchTok) := h2
  refine ⟨?_, ?_⟩
  · show (σ2.acts.drop 1).map ident = _
    rw [List.map_drop]; exact h1'
  · show ((σ2.acts.drop 1).drop 1).map (·.switchTok) = _
    rw [List.map_drop, h2', List.map_drop]

/-- after the bracket EVERY activation has the note it had (the innermost one included) -/
theorem RTrace_bracket_notes (mk : Nat → Act) (σ σ2 : St) (h : RTrace (pushSt mk σ) σ2) :
    (popSt σ2).acts.map (·.switchTok) = σ.acts.map (·.switchTok) := h.2

/-! ## the primitives -/

section prims
variable {Q : Stop → Prop} [QBase Q]

theorem tr_emit (x : Str) : Ens RTrace Q (emit x) := (frame_emit x).mono RTrace_of_sameActs fun _ h => h
theorem tr_tick (t : Tok) : Ens RTrace Q (tick t) := (frame_tick t).mono RTrace_of_sameActs fun _ h => h
theorem tr_getLine : Ens RTrace Q getLine := frame_getLine.mono RTrace_of_sameActs fun _ h => h
theorem tr_doFile (t : Tok) (op : FOp) : Ens RTrace Q (doFile t op) := (frame_doFile t op).mono RTrace_of_sameActs fun _ h => h
theorem tr_doFile0 (op : FOp) : Ens RTrace Q (doFile0 op) := (frame_doFile0 op).mono RTrace_of_sameActs fun _ h => h
theorem tr_depthInc : Ens RTrace Q (modify fun s => { s with depth := s.depth + 1 }) :=
  Ens.modify _ fun _ => RTrace_of_sameActs _ _ ⟨rfl, rfl⟩
theorem tr_depthDec : Ens RTrace Q (modify fun s => { s with depth := s.depth - 1 }) :=
  Ens.modify _ fun _ => RTrace_of_sameActs _ _ ⟨rfl, rfl⟩
theorem tr_addProc (p : ProcDef) : Ens RTrace Q (modify fun st => { st with procs := st.procs ++ [p] }) :=
  Ens.modify _ fun _ => RTrace_of_sameActs _ _ ⟨rfl, rfl⟩
theorem tr_addFun (p : FunDef) : Ens RTrace Q (modify fun st => { st with funs := st.funs ++ [p] }) :=
  Ens.modify _ fun _ => RTrace_of_sameActs _ _ ⟨rfl, rfl⟩
theorem tr_setRetVal (id : Nat) (v : Option Val) : Ens RTrace Q (modifyAct id fun a => { a with retVal := v }) :=
  Ens.modifyAct_of _ _ fun σ => RTrace_updSt σ id _ fun _ => ⟨rfl, rfl⟩
theorem tr_addVar (s : Slot) : Ens RTrace Q (addVar s) :=
  Ens.modifyCur_of _ fun σ id => RTrace_updSt σ id _ fun _ => ⟨rfl, rfl⟩
theorem tr_addArr (s : Slot) : Ens RTrace Q (addArr s) :=
  Ens.modifyCur_of _ fun σ id => RTrace_updSt σ id _ fun _ => ⟨rfl, rfl⟩
theorem tr_addEnum (x : Str × List Str) : Ens RTrace Q (modifyCur fun a => { a with enums := a.enums ++ [x] }) :=
  Ens.modifyCur_of _ fun σ id => RTrace_updSt σ id _ fun _ => ⟨rfl, rfl⟩
theorem tr_addPtr (x : Str × Ty) : Ens RTrace Q (modifyCur fun a => { a with ptrs := a.ptrs ++ [x] }) :=
  Ens.modifyCur_of _ fun σ id => RTrace_updSt σ id _ fun _ => ⟨rfl, rfl⟩
theorem tr_addComp (x : Str × Block) : Ens RTrace Q (modifyCur fun a => { a with comps := a.comps ++ [x] }) :=
  Ens.modifyCur_of _ fun σ id => RTrace_updSt σ id _ fun _ => ⟨rfl, rfl⟩

theorem tr_writeLoc (t : Tok) (l : Loc) (v : Val) : Ens RTrace Q (writeLoc t l v) := by
  unfold writeLoc
  ens_auto
  all_goals
    apply Ens.modifyAct_of
    intro σ
    apply RTrace_updSt
    intro a
    first | exact ⟨rfl, rfl⟩ | (split <;> exact ⟨rfl, rfl⟩)

theorem tr_withAct {α : Type} (mk : Nat → Act) (body : M α) (hmk : ∀ i, (mk i).id = i) (hb : Ens RTrace Q body) :
    Ens RTrace Q (withAct mk body) :=
  Ens.withAct_of (R := RTrace) (fun mk σ σ2 _ h => RTrace_bracket mk σ σ2 h) mk body hmk hb

end prims

/-- the primitives, then the generic proof search -/
macro "tr_prim" : tactic => `(tactic| with_reducible first
  | exact tr_emit _
  | exact tr_tick _
  | exact tr_getLine
  | exact tr_doFile _ _
  | exact tr_doFile0 _
  | exact tr_depthInc
  | exact tr_depthDec
  | exact tr_addProc _
  | exact tr_addFun _
  | exact tr_setRetVal _ _
  | exact tr_addVar _
  | exact tr_addArr _
  | exact tr_addEnum _
  | exact tr_addPtr _
  | exact tr_addComp _
  | exact tr_writeLoc _ _ _
  | apply tr_withAct _ _ (fun _ => rfl))

/-- library lemmas that need the primitives (extended below) -/
syntax "tr_lib" : tactic
macro_rules | `(tactic| tr_lib) => `(tactic| fail "tr_lib: no lemma")

macro "tr_step" : tactic => `(tactic| first | tr_prim | with_reducible tr_lib | ens_step)
macro "tr_auto_nt" : tactic => `(tactic| repeat' tr_step)
macro "tr_auto" : tactic => `(tactic| repeat' (first | with_reducible apply Ens.tryCatch_same | tr_step))

open Lean in
macro "tr_fn " id:ident : tactic =>
  `(tactic| (rw [$(mkIdent (id.getId ++ `eq_def)):ident]; try dsimp only
             tr_auto))

section lib
variable {Q : Stop → Prop} [QBase Q]
theorem tr_runBuiltin (id : Str) (args : List Val) : Ens RTrace Q (runBuiltin id args) := by unfold runBuiltin; tr_auto
theorem tr_replEcho (v : Val) : Ens RTrace Q (replEcho v) := by unfold replEcho; tr_auto
end lib
macro_rules | `(tactic| tr_lib) => `(tactic| exact tr_runBuiltin _ _)
macro_rules | `(tactic| tr_lib) => `(tactic| exact tr_replEcho _)

/-! ## the two call functions: the note is written into the innermost activation only -/

/-- the innermost activation has id `c` -/
def HeadId (c : Nat) (σ : St) : Prop := ∃ a rest, σ.acts = a :: rest ∧ a.id = c

theorem HeadId.of_RTrace {c : Nat} {σ σ' : St} (h : HeadId c σ) (hr : RTrace σ σ') : HeadId c σ' := by
  obtain ⟨a, rest, hacts, hid⟩ := h
  have h1 := hr.1
  rw [hacts] at h1
  cases hacts' : σ'.acts with
  | nil => rw [hacts'] at h1; cases h1
  | cons a' rest' =>
    rw [hacts'] at h1
    simp only [List.map_cons, List.cons.injEq] at h1
    refine ⟨a', rest', hacts', ?_⟩
    have : (ident a').1 = (ident a).1 := by rw [h1.1]
    exact this.trans hid

/-- `Ens RTrace Q` for runs that start with the innermost activation having id `c` -/
structure EnsH (c : Nat) (Q : Stop → Prop) {α : Type} (m : M α) : Prop where
  run : ∀ σ, HeadId c σ → RTrace σ (m.run.run σ).2 ∧ ∀ e, (m.run.run σ).1 = .error e → Q e

section ensh
variable {Q : Stop → Prop} {α β : Type} {c : Nat}

theorem EnsH.of_ens {m : M α} (h : Ens RTrace Q m) : EnsH c Q m := ⟨fun σ _ => h.run σ⟩

theorem EnsH.bind {m : M α} {f : α → M β} (hm : EnsH c Q m) (hf : ∀ a, EnsH c Q (f a)) : EnsH c Q (m >>= f) := by
  constructor
  intro σ hσ
  rcases h : m.run.run σ with ⟨a | a, σ'⟩
  · rw [run_bind_err m f σ σ' a h]
    have := hm.run σ hσ
    rw [h] at this
    exact ⟨this.1, fun e he => by cases he; exact this.2 _ rfl⟩
  · rw [run_bind_ok m f σ σ' a h]
    have h1 := hm.run σ hσ
    rw [h] at h1
    have h2 := (hf a).run σ' (hσ.of_RTrace h1.1)
    exact ⟨RPre.trans h1.1 h2.1, h2.2⟩

/-- the note of the innermost activation is set / cleared -/
theorem EnsH.setSw (v : Option (Nat × Nat)) : EnsH c Q (modifyAct c fun a => { a with switchTok := v }) := by
  constructor
  intro σ hσ
  obtain ⟨a, rest, hacts, rfl⟩ := hσ
  rw [run_modifyAct]
  exact ⟨RTrace_updHead σ a rest _ hacts rfl, fun e he => by cases he⟩

/-- `caller ← curAct`, then a computation that is fine when started with `caller` innermost -/
theorem Ens.caller_bind [QBase Q] {k : Act → M β} (h : ∀ a, EnsH a.id Q (k a)) : Ens RTrace Q (curAct >>= k) := by
  constructor
  intro σ
  cases hacts : σ.acts with
  | nil =>
    have : curAct.run.run σ = (.error (.crash .noActivation), σ) := by
      unfold curAct; rw [run_bind_ok _ _ _ _ _ (run_get σ), hacts]; rfl
    rw [run_bind_err _ _ _ _ _ this]
    exact ⟨RPre.refl σ, fun e he => by cases he; exact QBase.crash _⟩
  | cons a rest =>
    rw [run_bind_ok _ _ _ _ _ (run_curAct_cons σ a rest hacts)]
    exact (h a).run σ ⟨a, rest, hacts, rfl⟩

end ensh

/-- proof search for the part of a call after `caller ← curAct` -/
macro "tr_callee" : tactic => `(tactic| repeat' (first
  | exact EnsH.setSw _
  | with_reducible apply EnsH.bind
  | intro _
  | exact EnsH.of_ens (by tr_auto)))

/-! ## the induction -/

section induction
variable {Q : Stop → Prop} [QBase Q] [QSig Q]

theorem trace_zero : AllEns RTrace Q Q 0 where
  defaultVal _ _ := by rw [Pseudo.defaultVal.eq_def]; dsimp only; ens_auto
  defaultCells _ _ _ _ := by rw [Pseudo.defaultCells.eq_def]; dsimp only; ens_auto
  evalArgs _ _ := by rw [Pseudo.evalArgs.eq_def]; dsimp only; ens_auto
  evalIndices _ _ _ := by rw [Pseudo.evalIndices.eq_def]; dsimp only; ens_auto
  resolveRef _ := by rw [Pseudo.resolveRef.eq_def]; dsimp only; ens_auto
  callFun _ _ := by rw [Pseudo.callFun.eq_def]; dsimp only; ens_auto
  bindParams _ _ _ _ _ := by rw [Pseudo.bindParams.eq_def]; dsimp only; ens_auto
  evalExpr _ := by rw [Pseudo.evalExpr.eq_def]; dsimp only; ens_auto
  execAssign _ _ _ := by rw [Pseudo.execAssign.eq_def]; dsimp only; ens_auto
  runBlock _ := by rw [Pseudo.runBlock.eq_def]; dsimp only; ens_auto
  ifChain _ _ _ := by rw [Pseudo.ifChain.eq_def]; dsimp only; ens_auto
  caseMatch _ _ := by rw [Pseudo.caseMatch.eq_def]; dsimp only; ens_auto
  caseClauses _ _ := by rw [Pseudo.caseClauses.eq_def]; dsimp only; ens_auto
  loopBody _ := by rw [Pseudo.loopBody.eq_def]; dsimp only; ens_auto
  whileLoop _ _ _ := by rw [Pseudo.whileLoop.eq_def]; dsimp only; ens_auto
  repeatLoop _ _ _ := by rw [Pseudo.repeatLoop.eq_def]; dsimp only; ens_auto
  forLoop _ _ _ _ _ := by rw [Pseudo.forLoop.eq_def]; dsimp only; ens_auto
  callProc _ _ _ := by rw [Pseudo.callProc.eq_def]; dsimp only; ens_auto
  resolveParams _ _ := by rw [Pseudo.resolveParams.eq_def]; dsimp only; ens_auto
  evalBounds _ _ := by rw [Pseudo.evalBounds.eq_def]; dsimp only; ens_auto
  declareVars _ _ _ := by rw [Pseudo.declareVars.eq_def]; dsimp only; ens_auto
  declareArrs _ _ _ _ := by rw [Pseudo.declareArrs.eq_def]; dsimp only; ens_auto
  outputAll _ := by rw [Pseudo.outputAll.eq_def]; dsimp only; ens_auto
  fileName _ _ := by rw [Pseudo.fileName.eq_def]; dsimp only; ens_auto
  execStmt _ := by rw [Pseudo.execStmt.eq_def]; dsimp only; ens_auto

variable {f : Nat}

theorem ts_evalArgs (ih : AllEns RTrace Q Q f) : ∀ es acc, Ens RTrace Q (evalArgs (f+1) es acc) := by
  intro es acc; tr_fn evalArgs
theorem ts_evalIndices (ih : AllEns RTrace Q Q f) :
    ∀ es dims acc, Ens RTrace Q (evalIndices (f+1) es dims acc) := by
  intro es dims acc; tr_fn evalIndices
theorem ts_resolveRef (ih : AllEns RTrace Q Q f) : ∀ r, Ens RTrace Q (resolveRef (f+1) r) := by
  intro r; tr_fn resolveRef
theorem ts_evalExpr (ih : AllEns RTrace Q Q f) : ∀ e, Ens RTrace Q (evalExpr (f+1) e) := by
  intro e; tr_fn evalExpr
theorem ts_bindParams (ih : AllEns RTrace Q Q f) :
    ∀ t ps es vs acc, Ens RTrace Q (bindParams (f+1) t ps es vs acc) := by
  intro t ps es vs acc; tr_fn bindParams
theorem ts_caseMatch (ih : AllEns RTrace Q Q f) : ∀ v cl, Ens RTrace Q (caseMatch (f+1) v cl) := by
  intro v cl; tr_fn caseMatch
theorem ts_resolveParams (ih : AllEns RTrace Q Q f) :
    ∀ ps acc, Ens RTrace Q (resolveParams (f+1) ps acc) := by
  intro ps acc; tr_fn resolveParams
theorem ts_evalBounds (ih : AllEns RTrace Q Q f) : ∀ bs acc, Ens RTrace Q (evalBounds (f+1) bs acc) := by
  intro bs acc; tr_fn evalBounds
theorem ts_outputAll (ih : AllEns RTrace Q Q f) : ∀ es, Ens RTrace Q (outputAll (f+1) es) := by
  intro es; tr_fn outputAll
theorem ts_fileName (ih : AllEns RTrace Q Q f) : ∀ t e, Ens RTrace Q (fileName (f+1) t e) := by
  intro t e; tr_fn fileName
theorem ts_whileLoop (ih : AllEns RTrace Q Q f) : ∀ t c b, Ens RTrace Q (whileLoop (f+1) t c b) := by
  intro t c b; tr_fn whileLoop
theorem ts_repeatLoop (ih : AllEns RTrace Q Q f) : ∀ t b c, Ens RTrace Q (repeatLoop (f+1) t b c) := by
  intro t b c; tr_fn repeatLoop
theorem ts_forLoop (ih : AllEns RTrace Q Q f) :
    ∀ t it stop step b, Ens RTrace Q (forLoop (f+1) t it stop step b) := by
  intro t it stop step b; tr_fn forLoop
theorem ts_execAssign (ih : AllEns RTrace Q Q f) : ∀ t r rhs, Ens RTrace Q (execAssign (f+1) t r rhs) := by
  intro t r rhs; tr_fn execAssign
theorem ts_loopBody (ih : AllEns RTrace Q Q f) : ∀ b, Ens RTrace Q (loopBody (f+1) b) := by
  intro b; tr_fn loopBody
theorem ts_defaultVal (ih : AllEns RTrace Q Q f) : ∀ t ty, Ens RTrace Q (defaultVal (f+1) t ty) := by
  intro t ty; tr_fn defaultVal
theorem ts_defaultCells (ih : AllEns RTrace Q Q f) :
    ∀ t ty n acc, Ens RTrace Q (defaultCells (f+1) t ty n acc) := by
  intro t ty n acc; tr_fn defaultCells
theorem ts_runBlock (ih : AllEns RTrace Q Q f) : ∀ b, Ens RTrace Q (runBlock (f+1) b) := by
  intro b; tr_fn runBlock
theorem ts_ifChain (ih : AllEns RTrace Q Q f) : ∀ t bs els, Ens RTrace Q (ifChain (f+1) t bs els) := by
  intro t bs els; tr_fn ifChain
theorem ts_caseClauses (ih : AllEns RTrace Q Q f) : ∀ v cls, Ens RTrace Q (caseClauses (f+1) v cls) := by
  intro v cls; tr_fn caseClauses
theorem ts_declareVars (ih : AllEns RTrace Q Q f) : ∀ t ids ty, Ens RTrace Q (declareVars (f+1) t ids ty) := by
  intro t ids ty; tr_fn declareVars
theorem ts_declareArrs (ih : AllEns RTrace Q Q f) :
    ∀ t ids ty dims, Ens RTrace Q (declareArrs (f+1) t ids ty dims) := by
  intro t ids ty dims; tr_fn declareArrs

theorem ts_procBody (ih : AllEns RTrace Q Q f) (body : Block) : Ens RTrace Q (procBody f body) := by
  unfold procBody; tr_auto

theorem ts_funBody (ih : AllEns RTrace Q Q f) (fd : FunDef) : Ens RTrace Q (funBody f fd) := by
  unfold funBody funBlock; tr_auto

set_option hygiene false in
macro_rules | `(tactic| tr_lib) => `(tactic| first | exact ts_procBody ih _ | exact ts_funBody ih _)

/-- `callProc`: up to `caller ← curAct` the generic search; from there on the note is written into the innermost
    activation, whose id the binding and the callee keep -/
theorem ts_callProc (ih : AllEns RTrace Q Q f) : ∀ t name args, Ens RTrace Q (callProc (f+1) t name args) := by
  intro t name args
  rw [callProc_succ]
  repeat' (first
    | (with_reducible apply Ens.caller_bind; intro caller; tr_callee)
    | tr_step)

theorem ts_callFun (ih : AllEns RTrace Q Q f) : ∀ t args, Ens RTrace Q (callFun (f+1) t args) := by
  intro t args
  rw [callFun_succ]
  repeat' (first
    | (with_reducible apply Ens.caller_bind; intro caller; tr_callee)
    | tr_step)

theorem ts_stmt_expr (ih : AllEns RTrace Q Q f) : ∀ x0, Ens RTrace Q (execStmt (f+1) (.expr x0)) := by
  intro x0; tr_fn execStmt
theorem ts_stmt_declare (ih : AllEns RTrace Q Q f) : ∀ x0 x1 x2, Ens RTrace Q (execStmt (f+1) (.declare x0 x1 x2)) := by
  intro x0 x1 x2; tr_fn execStmt
theorem ts_stmt_declareArr (ih : AllEns RTrace Q Q f) : ∀ x0 x1 x2 x3, Ens RTrace Q (execStmt (f+1) (.declareArr x0 x1 x2 x3)) := by
  intro x0 x1 x2 x3; tr_fn execStmt
theorem ts_stmt_const (ih : AllEns RTrace Q Q f) : ∀ x0 x1 x2, Ens RTrace Q (execStmt (f+1) (.const x0 x1 x2)) := by
  intro x0 x1 x2; tr_fn execStmt
theorem ts_stmt_typeEnum (ih : AllEns RTrace Q Q f) : ∀ x0 x1 x2, Ens RTrace Q (execStmt (f+1) (.typeEnum x0 x1 x2)) := by
  intro x0 x1 x2; tr_fn execStmt
theorem ts_stmt_typePtr (ih : AllEns RTrace Q Q f) : ∀ x0 x1 x2, Ens RTrace Q (execStmt (f+1) (.typePtr x0 x1 x2)) := by
  intro x0 x1 x2; tr_fn execStmt
theorem ts_stmt_typeRec (ih : AllEns RTrace Q Q f) : ∀ x0 x1 x2, Ens RTrace Q (execStmt (f+1) (.typeRec x0 x1 x2)) := by
  intro x0 x1 x2; tr_fn execStmt
theorem ts_stmt_ifs (ih : AllEns RTrace Q Q f) : ∀ x0 x1 x2, Ens RTrace Q (execStmt (f+1) (.ifs x0 x1 x2)) := by
  intro x0 x1 x2; tr_fn execStmt
theorem ts_stmt_case (ih : AllEns RTrace Q Q f) : ∀ x0 x1 x2, Ens RTrace Q (execStmt (f+1) (.case x0 x1 x2)) := by
  intro x0 x1 x2; tr_fn execStmt
theorem ts_stmt_while (ih : AllEns RTrace Q Q f) : ∀ x0 x1 x2, Ens RTrace Q (execStmt (f+1) (.while x0 x1 x2)) := by
  intro x0 x1 x2; tr_fn execStmt
theorem ts_stmt_repeat (ih : AllEns RTrace Q Q f) : ∀ x0 x1 x2, Ens RTrace Q (execStmt (f+1) (.repeat x0 x1 x2)) := by
  intro x0 x1 x2; tr_fn execStmt
theorem ts_stmt_for (ih : AllEns RTrace Q Q f) : ∀ x0 x1 x2 x3 x4 x5, Ens RTrace Q (execStmt (f+1) (.for x0 x1 x2 x3 x4 x5)) := by
  intro x0 x1 x2 x3 x4 x5; tr_fn execStmt
theorem ts_stmt_call (ih : AllEns RTrace Q Q f) : ∀ x0 x1 x2, Ens RTrace Q (execStmt (f+1) (.call x0 x1 x2)) := by
  intro x0 x1 x2; tr_fn execStmt
theorem ts_stmt_ret (ih : AllEns RTrace Q Q f) : ∀ x0 x1, Ens RTrace Q (execStmt (f+1) (.ret x0 x1)) := by
  intro x0 x1; tr_fn execStmt
theorem ts_stmt_brk (ih : AllEns RTrace Q Q f) : ∀ x0, Ens RTrace Q (execStmt (f+1) (.brk x0)) := by
  intro x0; tr_fn execStmt
theorem ts_stmt_cont (ih : AllEns RTrace Q Q f) : ∀ x0, Ens RTrace Q (execStmt (f+1) (.cont x0)) := by
  intro x0; tr_fn execStmt
theorem ts_stmt_output (ih : AllEns RTrace Q Q f) : ∀ x0 x1, Ens RTrace Q (execStmt (f+1) (.output x0 x1)) := by
  intro x0 x1; tr_fn execStmt
theorem ts_stmt_input (ih : AllEns RTrace Q Q f) : ∀ x0 x1, Ens RTrace Q (execStmt (f+1) (.input x0 x1)) := by
  intro x0 x1; tr_fn execStmt
theorem ts_stmt_openFile (ih : AllEns RTrace Q Q f) : ∀ x0 x1 x2, Ens RTrace Q (execStmt (f+1) (.openFile x0 x1 x2)) := by
  intro x0 x1 x2; tr_fn execStmt
theorem ts_stmt_readFile (ih : AllEns RTrace Q Q f) : ∀ x0 x1 x2, Ens RTrace Q (execStmt (f+1) (.readFile x0 x1 x2)) := by
  intro x0 x1 x2; tr_fn execStmt
theorem ts_stmt_writeFile (ih : AllEns RTrace Q Q f) : ∀ x0 x1 x2, Ens RTrace Q (execStmt (f+1) (.writeFile x0 x1 x2)) := by
  intro x0 x1 x2; tr_fn execStmt
theorem ts_stmt_closeFile (ih : AllEns RTrace Q Q f) : ∀ x0 x1, Ens RTrace Q (execStmt (f+1) (.closeFile x0 x1)) := by
  intro x0 x1; tr_fn execStmt
theorem ts_stmt_seek (ih : AllEns RTrace Q Q f) : ∀ x0 x1 x2, Ens RTrace Q (execStmt (f+1) (.seek x0 x1 x2)) := by
  intro x0 x1 x2; tr_fn execStmt
theorem ts_stmt_getRecord (ih : AllEns RTrace Q Q f) : ∀ x0 x1 x2, Ens RTrace Q (execStmt (f+1) (.getRecord x0 x1 x2)) := by
  intro x0 x1 x2; tr_fn execStmt
theorem ts_stmt_putRecord (ih : AllEns RTrace Q Q f) : ∀ x0 x1 x2, Ens RTrace Q (execStmt (f+1) (.putRecord x0 x1 x2)) := by
  intro x0 x1 x2; tr_fn execStmt
theorem ts_stmt_procDef (ih : AllEns RTrace Q Q f) : ∀ x0 x1 x2 x3, Ens RTrace Q (execStmt (f+1) (.procDef x0 x1 x2 x3)) := by
  intro x0 x1 x2 x3; tr_fn execStmt
theorem ts_stmt_funDef (ih : AllEns RTrace Q Q f) : ∀ x0 x1 x2 x3 x4, Ens RTrace Q (execStmt (f+1) (.funDef x0 x1 x2 x3 x4)) := by
  intro x0 x1 x2 x3 x4; tr_fn execStmt

theorem ts_execStmt (ih : AllEns RTrace Q Q f) : ∀ s, Ens RTrace Q (execStmt (f+1) s) := fun s =>
  match s with
  | .expr x0 => ts_stmt_expr ih x0
  | .declare x0 x1 x2 => ts_stmt_declare ih x0 x1 x2
  | .declareArr x0 x1 x2 x3 => ts_stmt_declareArr ih x0 x1 x2 x3
  | .const x0 x1 x2 => ts_stmt_const ih x0 x1 x2
  | .typeEnum x0 x1 x2 => ts_stmt_typeEnum ih x0 x1 x2
  | .typePtr x0 x1 x2 => ts_stmt_typePtr ih x0 x1 x2
  | .typeRec x0 x1 x2 => ts_stmt_typeRec ih x0 x1 x2
  | .ifs x0 x1 x2 => ts_stmt_ifs ih x0 x1 x2
  | .case x0 x1 x2 => ts_stmt_case ih x0 x1 x2
  | .while x0 x1 x2 => ts_stmt_while ih x0 x1 x2
  | .repeat x0 x1 x2 => ts_stmt_repeat ih x0 x1 x2
  | .for x0 x1 x2 x3 x4 x5 => ts_stmt_for ih x0 x1 x2 x3 x4 x5
  | .call x0 x1 x2 => ts_stmt_call ih x0 x1 x2
  | .ret x0 x1 => ts_stmt_ret ih x0 x1
  | .brk x0 => ts_stmt_brk ih x0
  | .cont x0 => ts_stmt_cont ih x0
  | .output x0 x1 => ts_stmt_output ih x0 x1
  | .input x0 x1 => ts_stmt_input ih x0 x1
  | .openFile x0 x1 x2 => ts_stmt_openFile ih x0 x1 x2
  | .readFile x0 x1 x2 => ts_stmt_readFile ih x0 x1 x2
  | .writeFile x0 x1 x2 => ts_stmt_writeFile ih x0 x1 x2
  | .closeFile x0 x1 => ts_stmt_closeFile ih x0 x1
  | .seek x0 x1 x2 => ts_stmt_seek ih x0 x1 x2
  | .getRecord x0 x1 x2 => ts_stmt_getRecord ih x0 x1 x2
  | .putRecord x0 x1 x2 => ts_stmt_putRecord ih x0 x1 x2
  | .procDef x0 x1 x2 x3 => ts_stmt_procDef ih x0 x1 x2 x3
  | .funDef x0 x1 x2 x3 x4 => ts_stmt_funDef ih x0 x1 x2 x3 x4

/-- the induction step -/
theorem trace_succ (ih : AllEns RTrace Q Q f) : AllEns RTrace Q Q (f + 1) where
  defaultVal := ts_defaultVal ih
  defaultCells := ts_defaultCells ih
  evalArgs := ts_evalArgs ih
  evalIndices := ts_evalIndices ih
  resolveRef := ts_resolveRef ih
  callFun := ts_callFun ih
  bindParams := ts_bindParams ih
  evalExpr := ts_evalExpr ih
  execAssign := ts_execAssign ih
  runBlock := ts_runBlock ih
  ifChain := ts_ifChain ih
  caseMatch := ts_caseMatch ih
  caseClauses := ts_caseClauses ih
  loopBody := ts_loopBody ih
  whileLoop := ts_whileLoop ih
  repeatLoop := ts_repeatLoop ih
  forLoop := ts_forLoop ih
  callProc := ts_callProc ih
  resolveParams := ts_resolveParams ih
  evalBounds := ts_evalBounds ih
  declareVars := ts_declareVars ih
  declareArrs := ts_declareArrs ih
  outputAll := ts_outputAll ih
  fileName := ts_fileName ih
  execStmt := ts_execStmt ih

end induction

/-- **all 25 functions of the evaluator keep id and name of every activation and the call position noted in every
    activation below the innermost one** — whatever way they end (normally, runtime error, signal, crash point, out of fuel) -/
theorem trace_all_gen (Q : Stop → Prop) [QBase Q] [QSig Q] : ∀ fuel, AllEns RTrace Q Q fuel
  | 0 => trace_zero
  | f + 1 => trace_succ (trace_all_gen Q f)

theorem trace_all (fuel : Nat) : AllEns RTrace (fun _ => True) (fun _ => True) fuel := trace_all_gen _ fuel

/-! ## consequences for runs -/

theorem runBlock_RTrace (fuel : Nat) (b : Block) (σ : St) : RTrace σ ((runBlock fuel b).run.run σ).2 :=
  (((trace_all fuel).runBlock b).run σ).1

theorem execStmt_RTrace (fuel : Nat) (s : Stmt) (σ : St) : RTrace σ ((execStmt fuel s).run.run σ).2 :=
  (((trace_all fuel).execStmt s).run σ).1

theorem bindParams_RTrace (fuel : Nat) (t : Tok) (ps : List (Str × Ty × Bool)) (es : List Expr) (vs : List Val) (acc : List Slot)
    (σ : St) : RTrace σ ((bindParams fuel t ps es vs acc).run.run σ).2 :=
  (((trace_all fuel).bindParams t ps es vs acc).run σ).1

/-! ## call positions of the enclosing activations -/

/-- the activations below the innermost one carry exactly the call positions `sites` (innermost first) -/
def CallChain (sites : List (Nat × Nat)) (σ : St) : Prop :=
  (σ.acts.drop 1).map (·.switchTok) = sites.map some

theorem CallChain.of_RTrace {sites : List (Nat × Nat)} {σ σ' : St} (h : CallChain sites σ) (hr : RTrace σ σ') :
    CallChain sites σ' := hr.2.trans h

theorem frames_of_notes : ∀ (parents : List Act) (sites : List (Nat × Nat)), parents.map (·.switchTok) = sites.map some →
    parents.map frameOf = List.zipWith (fun p s => ({ name := p.name, line := s.1, col := s.2 } : Frame)) parents sites
  | [], [], _ => rfl
  | [], _ :: _, h => by cases h
  | _ :: _, [], h => by cases h
  | p :: ps, s :: ss, h => by
    simp only [List.map_cons, List.cons.injEq] at h
    simp only [List.map_cons, List.zipWith_cons_cons, frames_of_notes ps ss h.2, List.cons.injEq, and_true]
    exact frameOf_some p s.1 s.2 h.1

/-! ## nested calls of parameterless procedures -/

/-- id of the innermost activation -/
def headId (σ : St) : Nat :=
  match σ.acts with
  | a :: _ => a.id
  | [] => 0

/-- the state in which the body of the parameterless procedure `pd` starts when it is called from `σ` by a `CALL`
    statement at token `t`: the statement is counted, the caller notes the position, one level deeper, new activation -/
def enter (σ : St) (t : Tok) (pd : ProcDef) : St :=
  calleeSt (procAct pd []) (setSwitch (tickSt σ) (headId σ) t)

/-- … after a chain of nested calls -/
def enterAll : St → List (Tok × ProcDef) → St
  | σ, [] => σ
  | σ, (t, pd) :: more => enterAll (enter σ t pd) more

theorem enter_acts (σ : St) (t : Tok) (pd : ProcDef) (cur : Act) (rest : List Act) (h : σ.acts = cur :: rest) :
    (enter σ t pd).acts = procAct pd [] σ.nextId :: { cur with switchTok := some (t.line, t.col) } :: rest := by
  have h1 : headId σ = cur.id := by unfold headId; rw [h]
  have h2 : (tickSt σ).acts = cur :: rest := h
  unfold enter
  rw [h1]
  show procAct pd [] σ.nextId :: (setSwitch (tickSt σ) cur.id t).acts = _
  unfold setSwitch
  rw [updSt_head _ cur rest _ h2]

theorem enter_procs (σ : St) (t : Tok) (pd : ProcDef) : (enter σ t pd).procs = σ.procs := rfl
theorem enter_steps (σ : St) (t : Tok) (pd : ProcDef) : (enter σ t pd).steps = σ.steps + 1 := rfl
theorem enter_stepLimit (σ : St) (t : Tok) (pd : ProcDef) : (enter σ t pd).stepLimit = σ.stepLimit := rfl
theorem enter_depth (σ : St) (t : Tok) (pd : ProcDef) : (enter σ t pd).depth = σ.depth + 1 := rfl
theorem enter_depthLimit (σ : St) (t : Tok) (pd : ProcDef) : (enter σ t pd).depthLimit = σ.depthLimit := rfl

/-- the traceback entries of the callers: the activation named `nm` calls at the first token, the callee at the next… -/
def callerFrames : Str → List (Tok × ProcDef) → List Frame → List Frame
  | _, [], acc => acc
  | nm, (t, pd) :: more, acc => callerFrames pd.name more ({ name := nm, line := t.line, col := t.col } :: acc)

/-- the name of the innermost activation after the calls -/
def innerName : Str → List (Tok × ProcDef) → Str
  | nm, [] => nm
  | _, (_, pd) :: more => innerName pd.name more

/-- the activation stack after a chain of nested calls: the innermost activation is the last callee, the traceback
    entries of the enclosing ones are the call sites, innermost first, then those that were there before -/
theorem enterAll_acts : ∀ (calls : List (Tok × ProcDef)) (σ : St) (cur : Act) (rest : List Act), σ.acts = cur :: rest →
    ∃ a parents, (enterAll σ calls).acts = a :: parents ∧ a.name = innerName cur.name calls ∧
      parents.map frameOf = callerFrames cur.name calls (rest.map frameOf)
  | [], σ, cur, rest, h => ⟨cur, rest, h, rfl, rfl⟩
  | (t, pd) :: more, σ, cur, rest, h => by
    obtain ⟨a, parents, h1, h2, h3⟩ := enterAll_acts more (enter σ t pd) _ _ (enter_acts σ t pd cur rest h)
    exact ⟨a, parents, h1, h2, h3⟩

/-- `Chain procs b calls last`: the block `b` starts with `CALL P₁()` (token `t₀`), the body of `P₁` starts with
    `CALL P₂()` (token `t₁`), …; `calls = [(t₀, P₁), (t₁, P₂), …]`; `last` is the body of the last procedure (`b` itself
    when there is no call).  All procedures are parameterless and are the ones `procs` defines under their names. -/
inductive Chain (procs : List ProcDef) : Block → List (Tok × ProcDef) → Block → Prop
  | here (b : Block) : Chain procs b [] b
  | call (t : Tok) (pd : ProcDef) (post : Block) (more : List (Tok × ProcDef)) (last : Block) :
      procs.find? (·.name == pd.name) = some pd → pd.params = [] → Chain procs pd.body more last →
      Chain procs (.call t pd.name [] :: post) ((t, pd) :: more) last

/-- a `CALL` of a parameterless procedure whose body ends with the exception `e`: the statement, and the block it
    stands in, end with `e` (a stray BREAK / CONTINUE becomes `breakOutside`), the callee's activation is removed -/
theorem run_call_enter_err (g : Nat) (t : Tok) (pd : ProcDef) (post : Block) (σ σ4 : St) (e : Stop)
    (hne : σ.acts ≠ []) (hpd : σ.procs.find? (·.name == pd.name) = some pd) (hparams : pd.params = [])
    (hsteps : σ.steps + 1 ≤ σ.stepLimit) (hdepth : σ.depth + 1 ≤ σ.depthLimit)
    (hbody : (runBlock (g+1) pd.body).run.run (enter σ t pd) = (.error e, σ4)) :
    (runBlock (g+4) (.call t pd.name [] :: post)).run.run σ = (.error (sigToErr σ4 e), popSt σ4) := by
  cases hcur : σ.acts with
  | nil => exact absurd hcur hne
  | cons cur rest =>
    have hargs : (evalArgs (g+1) [] []).run.run (tickSt σ) = (.ok [], tickSt σ) := by rw [evalArgs_nil]; rfl
    have hbind : (bindParams (g+1) t pd.params [] [] []).run.run (tickSt σ) = (.ok [], tickSt σ) := by
      rw [hparams, bindParams_nil]; rfl
    have hcall := run_callProc (g+1) t pd.name [] (tickSt σ) (tickSt σ) (tickSt σ) pd [] cur rest []
      hpd hargs (by rw [hparams]; rfl) hdepth hcur hbind
    have henter : enter σ t pd = calleeSt (procAct pd []) (setSwitch (tickSt σ) cur.id t) := by
      unfold enter headId; rw [hcur]
    rw [← henter, hbody] at hcall
    have hstmt : (execStmt (g+3) (.call t pd.name [])).run.run σ = (.error (sigToErr σ4 e), popSt σ4) := by
      rw [execStmt_call, run_bind_ok _ _ _ _ _ (run_tick_ok t σ hsteps)]
      exact run_bind_err _ _ _ _ _ hcall
    exact run_runBlock_cons_err (g+3) _ post _ σ _ hstmt

theorem enterAll_procs : ∀ (calls : List (Tok × ProcDef)) (σ : St), (enterAll σ calls).procs = σ.procs
  | [], _ => rfl
  | (t, pd) :: more, σ => (enterAll_procs more (enter σ t pd)).trans (enter_procs σ t pd)

/-- **a runtime error of the innermost body of a chain of nested calls reaches the outermost block unchanged** -/
theorem chain_propagates {procs : List ProcDef} {b last : Block} {calls : List (Tok × ProcDef)} (hc : Chain procs b calls last) :
    ∀ (F : Nat) (σ σe : St) (d : Diag), σ.procs = procs → σ.acts ≠ [] →
      σ.steps + calls.length ≤ σ.stepLimit → σ.depth + calls.length ≤ σ.depthLimit →
      (runBlock (F+1) last).run.run (enterAll σ calls) = (.error (.diag d), σe) →
      ∃ σ', (runBlock (F + 1 + 3 * calls.length) b).run.run σ = (.error (.diag d), σ') := by
  induction hc with
  | here b => intro F σ σe d _ _ _ _ h; exact ⟨σe, h⟩
  | call t pd post more last hfind hparams _ ih =>
    intro F σ σe d hprocs hne hsteps hdepth hfail
    simp only [List.length_cons] at hsteps hdepth
    obtain ⟨cur, rest, hcur⟩ : ∃ cur rest, σ.acts = cur :: rest := by
      cases h : σ.acts with
      | nil => exact absurd h hne
      | cons a r => exact ⟨a, r, rfl⟩
    have hne' : (enter σ t pd).acts ≠ [] := by rw [enter_acts σ t pd cur rest hcur]; exact List.cons_ne_nil _ _
    obtain ⟨σ4, h4⟩ := ih F (enter σ t pd) σe d (by rw [enter_procs]; exact hprocs) hne'
      (by rw [enter_steps, enter_stepLimit]; omega) (by rw [enter_depth, enter_depthLimit]; omega) hfail
    refine ⟨popSt σ4, ?_⟩
    have hfuel : F + 1 + 3 * (more.length + 1) = (F + 3 * more.length) + 4 := by omega
    have hfuel' : F + 1 + 3 * more.length = (F + 3 * more.length) + 1 := by omega
    simp only [List.length_cons]
    rw [hfuel]
    rw [hfuel'] at h4
    exact run_call_enter_err (F + 3 * more.length) t pd post σ σ4 (.diag d) hne (by rw [hprocs]; exact hfind) hparams
      (by omega) (by omega) h4

end TraceLemmas

end Pseudo
