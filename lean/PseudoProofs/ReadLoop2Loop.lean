import PseudoProofs.ReadLoop2Run
/-!
# Helpers for C15 (`Properties/C15Files.lean`), part 3: the generic reading loop

`whileLoop_readGen`: the loop `WHILE NOT EOF(n) DO READFILE n, line ; s2 ENDWHILE` where `line` is any `Tgt` variable and `s2` is
ANY second statement with a specification `S2`; the final state is the fold `loopFinal`. `loopFinal_simple`: closed form of the
fold when `s2` touches only `steps`, `out` and `fs` (OUTPUT line, WRITEFILE b, line).
-/
namespace Pseudo.ReadLoop2
open Pseudo Pseudo.FileStmt Pseudo.ReadLoop Pseudo.ArrayLemmas Pseudo.C07Copy

/-- what the loop needs at its head: a current activation without call-site mark, room for one more call (of `EOF`), `x`
    resolving to an assignable STRING variable at `L` (holding `v0`), and `n` open FOR READ (handle `h`) -/
structure Core (σ : St) (n x : Str) (L : Loc) (v0 : Str) (h : Handle) : Prop where
  acts : ∃ a rest, σ.acts = a :: rest ∧ a.switchTok = none
  depth : σ.depth + 1 ≤ σ.depthLimit
  tgt : Tgt σ x .str L (.str v0)
  hh : FState.handle (fileSt σ) n = some h
  hm : h.mode = .read

/-- the state after one test `NOT EOF(n)` (TRUE) and `READFILE n, line`: the line `l` is in the variable, `r` is left unread -/
def rdSt (σ : St) (n : Str) (L : Loc) (l r : Str) : St :=
  writeLocSt { σ with steps := σ.steps + 1 + 1, nextId := σ.nextId + 1, handles := setRest σ.handles n r } L (.str l)

/-- the final state of the loop on the unread text `txt`, consumed as the lines of the list; `post l` is the effect of the
    second statement of the body when the line read is `l` -/
def loopFinal (post : Str → St → St) (n : Str) (L : Loc) : Str → List Str → St → St
  | _, [], σ => { σ with steps := σ.steps + 1, nextId := σ.nextId + 1 }
  | txt, l :: ls, σ => loopFinal post n L (readLineOf txt).2 ls (post l (rdSt σ n L l (readLineOf txt).2))

theorem writeF_switchTok (l : Loc) (nv : Val) (a : Act) : (writeF l nv a).switchTok = a.switchTok := by
  unfold writeF; split <;> rfl

theorem writeF_isComp (l : Loc) (nv : Val) (a : Act) : (writeF l nv a).isComp = a.isComp := by
  unfold writeF; split <;> rfl

/-- a write keeps the shape of the head of the activation stack -/
theorem head_writeLocSt (σ : St) (l : Loc) (nv : Val) (a : Act) (rest : List Act) (hacts : σ.acts = a :: rest) :
    ∃ a' rest', (writeLocSt σ l nv).acts = a' :: rest' ∧ a'.switchTok = a.switchTok ∧ a'.isComp = a.isComp := by
  obtain ⟨a', rest', hu, hor⟩ := head_updActs l.act (writeF l nv) a rest
  refine ⟨a', rest', ?_, ?_, ?_⟩
  · rw [writeLocSt_eq]; show updActs σ.acts _ _ = _; rw [hacts, hu]
  · rcases hor with rfl | rfl
    · rfl
    · exact writeF_switchTok l nv a
  · rcases hor with rfl | rfl
    · rfl
    · exact writeF_isComp l nv a

theorem Core.rd {σ : St} {n x : Str} {L : Loc} {v0 : Str} {h : Handle} (c : Core σ n x L v0 h) (l r : Str) :
    Core (rdSt σ n L l r) n x L l { h with rest := r } := by
  obtain ⟨a, rest, hacts, hsw⟩ := c.acts
  let σ' : St := { σ with steps := σ.steps + 1 + 1, nextId := σ.nextId + 1, handles := setRest σ.handles n r }
  have hacts' : σ'.acts = a :: rest := hacts
  obtain ⟨a', rest', hu, hsw', _⟩ := head_writeLocSt σ' L (.str l) a rest hacts'
  refine ⟨⟨a', rest', hu, hsw'.trans hsw⟩, c.depth, ?_, ?_, c.hm⟩
  · exact (c.tgt.of_acts (σ' := σ') rfl).write_same (.str l)
  · exact find_setRest σ.handles n r h c.hh

/-- the specification of the second statement of the body: started in the state after READFILE (where `Core` holds again and
    the variable holds the line `l`) it ends normally in `post l τ`, uses one step, and re-establishes `Core` and the user
    invariant `Inv` (indexed by the lines still to be read) -/
def S2 (s2 : Stmt) (n x : Str) (L : Loc) (post : Str → St → St) (Inv : List Str → St → Prop) : Prop :=
  ∀ (f : Nat) (l r : Str) (ls : List Str) (σ : St) (v0 : Str) (h : Handle),
    Core σ n x L v0 h → Inv (l :: ls) σ → σ.steps + 3 ≤ σ.stepLimit →
    Core (rdSt σ n L l r) n x L l { h with rest := r } →
      (execStmt (f+7) s2).run.run (rdSt σ n L l r) = (.ok .none, post l (rdSt σ n L l r)) ∧
      Core (post l (rdSt σ n L l r)) n x L l { h with rest := r } ∧ Inv ls (post l (rdSt σ n L l r)) ∧
      (post l (rdSt σ n L l r)).steps = σ.steps + 3 ∧ (post l (rdSt σ n L l r)).stepLimit = σ.stepLimit

theorem handle_rest_eta (h : Handle) (e : h.rest = []) : ({ h with rest := [] } : Handle) = h := by
  cases h; simp only at e; subst e; rfl

/-- **the generic reading loop** -/
theorem whileLoop_readGen (tw tnot teof tn1 tr tn2 idLine : Tok) (n : Str) (s2 : Stmt) (L : Loc)
    (post : Str → St → St) (Inv : List Str → St → Prop)
    (heof : teof.val = "EOF".toList) (hs2 : S2 s2 n idLine.val L post Inv)
    (hfin : ∀ σ, Inv [] σ → Inv [] { σ with steps := σ.steps + 1, nextId := σ.nextId + 1 }) :
    ∀ (txt : Str) (Ls : List Str), Reads txt Ls →
    ∀ (σ : St) (v0 : Str) (h : Handle), Core σ n idLine.val L v0 h → h.rest = txt → Inv Ls σ →
      σ.steps + 3 * Ls.length + 1 ≤ σ.stepLimit →
      (whileLoop (Ls.length + 10) tw (eofCond tnot teof tn1 n) [.readFile tr (.strLit tn2 n) idLine, s2]).run.run σ =
        (.ok ⟨⟩, loopFinal post n L txt Ls σ) ∧
      Core (loopFinal post n L txt Ls σ) n idLine.val L (Ls.getLastD v0) { h with rest := [] } ∧
      Inv [] (loopFinal post n L txt Ls σ) := by
  intro txt Ls hreads
  induction hreads with
  | nil =>
    intro σ v0 h c hrest hinv hbud
    obtain ⟨a, rest, hacts, hsw⟩ := c.acts
    have hσ1 : eofSt (tickSt σ) = { σ with steps := σ.steps + 1, nextId := σ.nextId + 1 } :=
      eofSt_eq (tickSt σ) a rest hacts hsw
    have hcond := run_notEOF 4 tnot teof tn1 n (tickSt σ) a rest h heof hacts c.depth c.hh c.hm
    rw [hrest] at hcond
    refine ⟨?_, ?_, ?_⟩
    · unfold eofCond
      show (whileLoop (9 + 1) tw _ _).run.run σ = _
      rw [while_round_false 9 tw _ _ σ _ (by omega) hcond, hσ1]
      rfl
    · rw [handle_rest_eta h hrest]
      exact ⟨⟨a, rest, hacts, hsw⟩, c.depth, c.tgt.of_acts rfl, c.hh, c.hm⟩
    · exact hfin σ hinv
  | cons txt l r Ls hne hrl hreads ih =>
    intro σ v0 h c hrest hinv hbud
    simp only [List.length_cons] at hbud ⊢
    obtain ⟨a, rest, hacts, hsw⟩ := c.acts
    have hrl' : readLineOf h.rest = (l, r) := by rw [hrest]; exact hrl
    have hσ1 : eofSt (tickSt σ) = { σ with steps := σ.steps + 1, nextId := σ.nextId + 1 } :=
      eofSt_eq (tickSt σ) a rest hacts hsw
    have hcond := run_notEOF (Ls.length + 5) tnot teof tn1 n (tickSt σ) a rest h heof hacts c.depth c.hh c.hm
    rw [hrest, isEmpty_false_of_ne hne, hσ1] at hcond
    let σ1 : St := { σ with steps := σ.steps + 1, nextId := σ.nextId + 1 }
    have ht1 : Tgt σ1 idLine.val .str L (.str v0) := c.tgt.of_acts rfl
    have h1 := run_readFile_tgt (Ls.length + 5) tr tn2 idLine n σ1 L v0 h (by show σ.steps + 1 + 1 ≤ σ.stepLimit; omega)
      ht1 c.hh c.hm
    rw [hrl'] at h1
    have hr2 : (readLineOf txt).2 = r := by rw [hrl]
    have hc2 := c.rd l r
    obtain ⟨h2, hc3, hinv3, hst3, hlim3⟩ := hs2 Ls.length l r Ls σ v0 h c hinv (by omega) hc2
    have hbody : (loopBody (Ls.length + 10) [.readFile tr (.strLit tn2 n) idLine, s2]).run.run σ1 =
        (.ok false, post l (rdSt σ n L l r)) := run_loopBody2 (Ls.length + 7) _ _ σ1 _ _ h1 h2
    obtain ⟨hrec, hcf, hif⟩ := ih (post l (rdSt σ n L l r)) l { h with rest := r } hc3 rfl hinv3
      (by rw [hst3, hlim3]; omega)
    refine ⟨?_, ?_, ?_⟩
    · unfold eofCond at hrec ⊢
      show (whileLoop ((Ls.length + 10) + 1) tw _ _).run.run σ = _
      rw [while_round_true (Ls.length + 10) tw _ _ σ σ1 _ (by omega) hcond hbody, hrec]
      show _ = (_, loopFinal post n L (readLineOf txt).2 Ls (post l (rdSt σ n L l (readLineOf txt).2)))
      rw [hr2]
    · show Core (loopFinal post n L (readLineOf txt).2 Ls (post l (rdSt σ n L l (readLineOf txt).2))) _ _ _ _ _
      rw [hr2, List.getLastD_cons]
      exact hcf
    · show Inv [] (loopFinal post n L (readLineOf txt).2 Ls (post l (rdSt σ n L l (readLineOf txt).2)))
      rw [hr2]
      exact hif

end Pseudo.ReadLoop2
