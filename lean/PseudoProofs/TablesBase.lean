import Generated.Tables
import PseudoModel.Parser
import PseudoModel.Builtins
/-! Tie II (common part): the complete token vocabulary of the model. See the Tables* modules: each proves that one table regenerated from the
    C++ sources on every run (lean/Generated/Tables.lean) equals the model's own table; a changed keyword, token kind, operator level, block
    terminator, built-in signature or pedantic site makes the corresponding module fail to check (a broken proof obligation of the properties
    that use the table). A table whose source shape was not recognised is flagged unavailable and its theorem holds trivially. -/
namespace Pseudo
def allTK : List TK := [
  .INTEGER, .REAL, .CHAR, .STRING, .DATE, .RPAREN, .LPAREN, .PLUS, .MINUS, .STAR, .SLASH, .DIV, .MOD, .AMPERSAND,
  .ASSIGNMENT, .COLON, .COMMA, .EQUALS, .NOT_EQUALS, .GREATER, .LESSER, .GREATER_EQUAL, .LESSER_EQUAL, .AND, .OR, .NOT,
  .TRUE, .FALSE, .DECLARE, .CONSTANT, .IDENTIFIER, .DATA_TYPE, .ARRAY, .LSQRBRACKET, .RSQRBRACKET, .TYPE, .ENDTYPE, .CARET, .PERIOD,
  .IF, .THEN, .ELSE, .ENDIF, .CASE, .OF, .OTHERWISE, .ENDCASE, .WHILE, .DO, .ENDWHILE, .REPEAT, .UNTIL, .FOR, .TO, .STEP, .NEXT,
  .BREAK, .CONTINUE, .PROCEDURE, .BYREF, .BYVAL, .ENDPROCEDURE, .CALL, .FUNCTION, .ENDFUNCTION, .RETURNS, .RETURN, .OUTPUT, .INPUT,
  .OPENFILE, .READFILE, .WRITEFILE, .CLOSEFILE, .READ, .WRITE, .APPEND, .RANDOM, .SEEK, .GETRECORD, .PUTRECORD, .LINE_END, .EXPRESSION_END]

theorem allTK_complete (k : TK) : k ∈ allTK := by cases k <;> decide

end Pseudo
