import PseudoProofs.EvalInv
/-!
# Fuel monotonicity of the evaluator

`Mono m1 m2`: from every state, if `m1` ends with anything but `outOfFuel`, then `m2` ends in exactly the same way
(same result, same final state). It is closed under `bind`, `tryCatch` (for a handler that passes `outOfFuel` on —
true of every handler of the model), `withAct`, `catchNotDefined`, and it is reflexive, which takes care of everything
that does not mention the fuel.

`AllMono f`: `Mono (fn f args) (fn (f+1) args)` for the 25 functions of the mutual block; `mono_all` proves it for every
`f` by ONE induction. `FuelMonoAll f g` (`fuel_mono_all : f ≤ g → FuelMonoAll f g`) is the same between any two fuels;
`evalExpr_fuel_mono`, `execStmt_fuel_mono`, `runBlock_fuel_mono`, `runMain_fuel_mono`, `runOn_fuel_mono` are the
run-level corollaries.
-/
namespace Pseudo

/-- `m2` ends like `m1` whenever `m1` does not run out of fuel -/
structure Mono {α : Type} (m1 m2 : M α) : Prop where
  run : ∀ σ r σ', m1.run.run σ = (r, σ') → r ≠ .error .outOfFuel → m2.run.run σ = (r, σ')

section combinators
variable {α β : Type}

theorem Mono.refl (m : M α) : Mono m m := ⟨fun _ _ _ h _ => h⟩

theorem Mono.trans {m1 m2 m3 : M α} (h12 : Mono m1 m2) (h23 : Mono m2 m3) : Mono m1 m3 :=
  ⟨fun σ r σ' h hr => h23.run σ r σ' (h12.run σ r σ' h hr) hr⟩

/-- nothing is claimed about a computation that runs out of fuel -/
theorem Mono.fuel (m2 : M α) : Mono (throw .outOfFuel : M α) m2 :=
  ⟨fun σ r σ' h hr => by
    rw [run_throw] at h
    cases h
    exact absurd rfl hr⟩

theorem Mono.of_eq {m1 m1' m2 m2' : M α} (h1 : m1 = m1') (h2 : m2 = m2') (h : Mono m1' m2') : Mono m1 m2 := by
  subst h1; subst h2; exact h

theorem Mono.bind {m1 m2 : M α} {f1 f2 : α → M β} (hm : Mono m1 m2) (hf : ∀ a, Mono (f1 a) (f2 a)) :
    Mono (m1 >>= f1) (m2 >>= f2) := by
  constructor
  intro σ r σ' h hr
  rcases h1 : m1.run.run σ with ⟨e | a, σ1⟩
  · rw [run_bind_err _ _ _ _ _ h1] at h
    cases h
    rw [run_bind_err _ _ _ _ _ (hm.run σ _ _ h1 (fun he => hr (by cases he; rfl)))]
  · rw [run_bind_ok _ _ _ _ _ h1] at h
    rw [run_bind_ok _ _ _ _ _ (hm.run σ _ _ h1 (fun h => nomatch h))]
    exact (hf a).run σ1 r σ' h hr

/-- the handler must pass `outOfFuel` on -/
theorem Mono.tryCatch {m1 m2 : M α} {h1 h2 : Stop → M α} (hm : Mono m1 m2) (hh : ∀ e, Mono (h1 e) (h2 e))
    (hfuel : h1 .outOfFuel = MonadExcept.throw .outOfFuel) : Mono (tryCatch m1 h1) (tryCatch m2 h2) := by
  constructor
  intro σ r σ' h hr
  rcases hm1 : m1.run.run σ with ⟨e | a, σ1⟩
  · rw [run_tryCatch_err _ _ _ _ _ hm1] at h
    have hne : (Except.error e : Except Stop α) ≠ .error .outOfFuel := by
      intro he
      cases he
      rw [hfuel] at h
      cases h
      exact hr rfl
    rw [run_tryCatch_err _ _ _ _ _ (hm.run σ _ _ hm1 hne)]
    exact (hh e).run σ1 r σ' h hr
  · rw [run_tryCatch_ok _ _ _ _ _ hm1] at h
    cases h
    rw [run_tryCatch_ok _ _ _ _ _ (hm.run σ _ _ hm1 hr)]

theorem Mono.withAct {mk : Nat → Act} {b1 b2 : M α} (h : Mono b1 b2) : Mono (withAct mk b1) (withAct mk b2) := by
  constructor
  intro σ r σ' hrun hr
  rw [run_withAct] at hrun ⊢
  rcases hb : b1.run.run (pushSt mk σ) with ⟨r1, σ1⟩
  rw [hb] at hrun
  cases hrun
  rw [h.run _ _ _ hb hr]

theorem Mono.catchNotDefined {m1 m2 : M α} {h1 h2 : Stop → M α} (hm : Mono m1 m2) (hh : ∀ e, Mono (h1 e) (h2 e)) :
    Mono (catchNotDefined m1 h1) (catchNotDefined m2 h2) := by
  unfold Pseudo.catchNotDefined
  refine Mono.tryCatch hm ?_ rfl
  intro e
  split
  · split
    · refine Mono.bind (Mono.refl _) fun s => ?_
      split
      · exact hh _
      · exact Mono.refl _
    · exact Mono.refl _
  · exact Mono.refl _

end combinators

/-! ### automation -/

syntax "mono_ih" : tactic
macro_rules | `(tactic| mono_ih) => `(tactic| fail "mono_ih: no hypothesis")

macro "mono_step" : tactic => `(tactic| first
  | cases ‹_ + 1 = Nat.succ _›
  | with_reducible exact Mono.refl _
  | with_reducible exact Mono.fuel _
  | with_reducible mono_ih
  | with_reducible apply Mono.bind
  | with_reducible apply Mono.withAct
  | with_reducible apply Mono.catchNotDefined
  | with_reducible refine Mono.tryCatch ?_ ?_ rfl
  | intro _
  | split
  | dsimp only)

macro "mono_auto" : tactic => `(tactic| repeat' mono_step)

/-! ### the induction -/

/-- one more unit of fuel: one field per function of the mutual block -/
structure AllMono (f : Nat) : Prop where
  defaultVal : ∀ t ty, Mono (defaultVal f t ty) (defaultVal (f+1) t ty)
  defaultCells : ∀ t ty n acc, Mono (defaultCells f t ty n acc) (defaultCells (f+1) t ty n acc)
  evalArgs : ∀ es acc, Mono (evalArgs f es acc) (evalArgs (f+1) es acc)
  evalIndices : ∀ es dims acc, Mono (evalIndices f es dims acc) (evalIndices (f+1) es dims acc)
  resolveRef : ∀ r, Mono (resolveRef f r) (resolveRef (f+1) r)
  callFun : ∀ t args, Mono (callFun f t args) (callFun (f+1) t args)
  bindParams : ∀ t ps es vs acc, Mono (bindParams f t ps es vs acc) (bindParams (f+1) t ps es vs acc)
  evalExpr : ∀ e, Mono (evalExpr f e) (evalExpr (f+1) e)
  execAssign : ∀ t r rhs, Mono (execAssign f t r rhs) (execAssign (f+1) t r rhs)
  runBlock : ∀ b, Mono (runBlock f b) (runBlock (f+1) b)
  ifChain : ∀ t bs els, Mono (ifChain f t bs els) (ifChain (f+1) t bs els)
  caseMatch : ∀ v cl, Mono (caseMatch f v cl) (caseMatch (f+1) v cl)
  caseClauses : ∀ v cls, Mono (caseClauses f v cls) (caseClauses (f+1) v cls)
  loopBody : ∀ b, Mono (loopBody f b) (loopBody (f+1) b)
  whileLoop : ∀ t c b, Mono (whileLoop f t c b) (whileLoop (f+1) t c b)
  repeatLoop : ∀ t b c, Mono (repeatLoop f t b c) (repeatLoop (f+1) t b c)
  forLoop : ∀ t it stop step b, Mono (forLoop f t it stop step b) (forLoop (f+1) t it stop step b)
  callProc : ∀ t name args, Mono (callProc f t name args) (callProc (f+1) t name args)
  resolveParams : ∀ ps acc, Mono (resolveParams f ps acc) (resolveParams (f+1) ps acc)
  evalBounds : ∀ bs acc, Mono (evalBounds f bs acc) (evalBounds (f+1) bs acc)
  declareVars : ∀ t ids ty, Mono (declareVars f t ids ty) (declareVars (f+1) t ids ty)
  declareArrs : ∀ t ids ty dims, Mono (declareArrs f t ids ty dims) (declareArrs (f+1) t ids ty dims)
  outputAll : ∀ es, Mono (outputAll f es) (outputAll (f+1) es)
  fileName : ∀ t e, Mono (fileName f t e) (fileName (f+1) t e)
  execStmt : ∀ s, Mono (execStmt f s) (execStmt (f+1) s)

set_option hygiene false in
macro_rules | `(tactic| mono_ih) => `(tactic| first
  | apply ih.evalExpr | apply ih.resolveRef | apply ih.evalArgs | apply ih.evalIndices | apply ih.callFun
  | apply ih.bindParams | apply ih.execAssign | apply ih.runBlock | apply ih.ifChain | apply ih.caseMatch
  | apply ih.caseClauses | apply ih.loopBody | apply ih.whileLoop | apply ih.repeatLoop | apply ih.forLoop
  | apply ih.callProc | apply ih.resolveParams | apply ih.evalBounds | apply ih.declareVars | apply ih.declareArrs
  | apply ih.outputAll | apply ih.fileName | apply ih.execStmt | apply ih.defaultVal | apply ih.defaultCells)

open Lean in
/-- unfold both sides by `eq_def` and search -/
macro "mono_fn " id:ident : tactic =>
  `(tactic| (refine Mono.of_eq ($(mkIdent (id.getId ++ `eq_def)):ident ..) ($(mkIdent (id.getId ++ `eq_def)):ident ..) ?_
             try dsimp only
             mono_auto))

section induction
variable {f : Nat}

theorem AllMono.zero : AllMono 0 where
  defaultVal _ _ := by mono_fn defaultVal
  defaultCells _ _ _ _ := by mono_fn defaultCells
  evalArgs _ _ := by mono_fn evalArgs
  evalIndices _ _ _ := by mono_fn evalIndices
  resolveRef _ := by mono_fn resolveRef
  callFun _ _ := by mono_fn callFun
  bindParams _ _ _ _ _ := by mono_fn bindParams
  evalExpr _ := by mono_fn evalExpr
  execAssign _ _ _ := by mono_fn execAssign
  runBlock _ := by mono_fn runBlock
  ifChain _ _ _ := by mono_fn ifChain
  caseMatch _ _ := by mono_fn caseMatch
  caseClauses _ _ := by mono_fn caseClauses
  loopBody _ := by mono_fn loopBody
  whileLoop _ _ _ := by mono_fn whileLoop
  repeatLoop _ _ _ := by mono_fn repeatLoop
  forLoop _ _ _ _ _ := by mono_fn forLoop
  callProc _ _ _ := by mono_fn callProc
  resolveParams _ _ := by mono_fn resolveParams
  evalBounds _ _ := by mono_fn evalBounds
  declareVars _ _ _ := by mono_fn declareVars
  declareArrs _ _ _ _ := by mono_fn declareArrs
  outputAll _ := by mono_fn outputAll
  fileName _ _ := by mono_fn fileName
  execStmt _ := by mono_fn execStmt

theorem mstep_defaultVal (ih : AllMono f) : ∀ t ty, Mono (defaultVal (f+1) t ty) (defaultVal (f+1+1) t ty) := by
  intro t ty; mono_fn defaultVal

theorem mstep_defaultCells (ih : AllMono f) : ∀ t ty n acc, Mono (defaultCells (f+1) t ty n acc) (defaultCells (f+1+1) t ty n acc) := by
  intro t ty n acc; mono_fn defaultCells

theorem mstep_evalArgs (ih : AllMono f) : ∀ es acc, Mono (evalArgs (f+1) es acc) (evalArgs (f+1+1) es acc) := by
  intro es acc; mono_fn evalArgs

theorem mstep_evalIndices (ih : AllMono f) : ∀ es dims acc, Mono (evalIndices (f+1) es dims acc) (evalIndices (f+1+1) es dims acc) := by
  intro es dims acc; mono_fn evalIndices

theorem mstep_resolveRef (ih : AllMono f) : ∀ r, Mono (resolveRef (f+1) r) (resolveRef (f+1+1) r) := by
  intro r; mono_fn resolveRef

theorem mstep_callFun (ih : AllMono f) : ∀ t args, Mono (callFun (f+1) t args) (callFun (f+1+1) t args) := by
  intro t args; mono_fn callFun

theorem mstep_bindParams (ih : AllMono f) : ∀ t ps es vs acc, Mono (bindParams (f+1) t ps es vs acc) (bindParams (f+1+1) t ps es vs acc) := by
  intro t ps es vs acc; mono_fn bindParams

theorem mstep_evalExpr (ih : AllMono f) : ∀ e, Mono (evalExpr (f+1) e) (evalExpr (f+1+1) e) := by
  intro e; mono_fn evalExpr

theorem mstep_execAssign (ih : AllMono f) : ∀ t r rhs, Mono (execAssign (f+1) t r rhs) (execAssign (f+1+1) t r rhs) := by
  intro t r rhs; mono_fn execAssign

theorem mstep_runBlock (ih : AllMono f) : ∀ b, Mono (runBlock (f+1) b) (runBlock (f+1+1) b) := by
  intro b; mono_fn runBlock

theorem mstep_ifChain (ih : AllMono f) : ∀ t bs els, Mono (ifChain (f+1) t bs els) (ifChain (f+1+1) t bs els) := by
  intro t bs els; mono_fn ifChain

theorem mstep_caseMatch (ih : AllMono f) : ∀ v cl, Mono (caseMatch (f+1) v cl) (caseMatch (f+1+1) v cl) := by
  intro v cl; mono_fn caseMatch

theorem mstep_caseClauses (ih : AllMono f) : ∀ v cls, Mono (caseClauses (f+1) v cls) (caseClauses (f+1+1) v cls) := by
  intro v cls; mono_fn caseClauses

theorem mstep_loopBody (ih : AllMono f) : ∀ b, Mono (loopBody (f+1) b) (loopBody (f+1+1) b) := by
  intro b; mono_fn loopBody

theorem mstep_whileLoop (ih : AllMono f) : ∀ t c b, Mono (whileLoop (f+1) t c b) (whileLoop (f+1+1) t c b) := by
  intro t c b; mono_fn whileLoop

theorem mstep_repeatLoop (ih : AllMono f) : ∀ t b c, Mono (repeatLoop (f+1) t b c) (repeatLoop (f+1+1) t b c) := by
  intro t b c; mono_fn repeatLoop

theorem mstep_forLoop (ih : AllMono f) : ∀ t it stop step b, Mono (forLoop (f+1) t it stop step b) (forLoop (f+1+1) t it stop step b) := by
  intro t it stop step b; mono_fn forLoop

theorem mstep_callProc (ih : AllMono f) : ∀ t name args, Mono (callProc (f+1) t name args) (callProc (f+1+1) t name args) := by
  intro t name args; mono_fn callProc

theorem mstep_resolveParams (ih : AllMono f) : ∀ ps acc, Mono (resolveParams (f+1) ps acc) (resolveParams (f+1+1) ps acc) := by
  intro ps acc; mono_fn resolveParams

theorem mstep_evalBounds (ih : AllMono f) : ∀ bs acc, Mono (evalBounds (f+1) bs acc) (evalBounds (f+1+1) bs acc) := by
  intro bs acc; mono_fn evalBounds

theorem mstep_declareVars (ih : AllMono f) : ∀ t ids ty, Mono (declareVars (f+1) t ids ty) (declareVars (f+1+1) t ids ty) := by
  intro t ids ty; mono_fn declareVars

theorem mstep_declareArrs (ih : AllMono f) : ∀ t ids ty dims, Mono (declareArrs (f+1) t ids ty dims) (declareArrs (f+1+1) t ids ty dims) := by
  intro t ids ty dims; mono_fn declareArrs

theorem mstep_outputAll (ih : AllMono f) : ∀ es, Mono (outputAll (f+1) es) (outputAll (f+1+1) es) := by
  intro es; mono_fn outputAll

theorem mstep_fileName (ih : AllMono f) : ∀ t e, Mono (fileName (f+1) t e) (fileName (f+1+1) t e) := by
  intro t e; mono_fn fileName

set_option maxHeartbeats 2000000 in
theorem mstep_execStmt (ih : AllMono f) : ∀ s, Mono (execStmt (f+1) s) (execStmt (f+1+1) s) := by
  intro s; mono_fn execStmt

theorem AllMono.succ (ih : AllMono f) : AllMono (f + 1) where
  defaultVal := mstep_defaultVal ih
  defaultCells := mstep_defaultCells ih
  evalArgs := mstep_evalArgs ih
  evalIndices := mstep_evalIndices ih
  resolveRef := mstep_resolveRef ih
  callFun := mstep_callFun ih
  bindParams := mstep_bindParams ih
  evalExpr := mstep_evalExpr ih
  execAssign := mstep_execAssign ih
  runBlock := mstep_runBlock ih
  ifChain := mstep_ifChain ih
  caseMatch := mstep_caseMatch ih
  caseClauses := mstep_caseClauses ih
  loopBody := mstep_loopBody ih
  whileLoop := mstep_whileLoop ih
  repeatLoop := mstep_repeatLoop ih
  forLoop := mstep_forLoop ih
  callProc := mstep_callProc ih
  resolveParams := mstep_resolveParams ih
  evalBounds := mstep_evalBounds ih
  declareVars := mstep_declareVars ih
  declareArrs := mstep_declareArrs ih
  outputAll := mstep_outputAll ih
  fileName := mstep_fileName ih
  execStmt := mstep_execStmt ih

end induction

/-- **one more unit of fuel changes nothing but an `outOfFuel` result**: all 25 functions, every fuel -/
theorem mono_all : ∀ fuel, AllMono fuel
  | 0 => AllMono.zero
  | f + 1 => (mono_all f).succ

/-- from one unit to any number of units -/
theorem Mono.of_succ {α : Type} (F : Nat → M α) (h : ∀ f, Mono (F f) (F (f+1))) : ∀ f g, f ≤ g → Mono (F f) (F g) := by
  intro f g hfg
  induction hfg with
  | refl => exact Mono.refl _
  | step _ ih => exact ih.trans (h _)

/-- fuel monotonicity between two fuels `f ≤ g`: one field per function of the mutual block -/
structure FuelMonoAll (f g : Nat) : Prop where
  defaultVal : ∀ t ty, Mono (defaultVal f t ty) (defaultVal g t ty)
  defaultCells : ∀ t ty n acc, Mono (defaultCells f t ty n acc) (defaultCells g t ty n acc)
  evalArgs : ∀ es acc, Mono (evalArgs f es acc) (evalArgs g es acc)
  evalIndices : ∀ es dims acc, Mono (evalIndices f es dims acc) (evalIndices g es dims acc)
  resolveRef : ∀ r, Mono (resolveRef f r) (resolveRef g r)
  callFun : ∀ t args, Mono (callFun f t args) (callFun g t args)
  bindParams : ∀ t ps es vs acc, Mono (bindParams f t ps es vs acc) (bindParams g t ps es vs acc)
  evalExpr : ∀ e, Mono (evalExpr f e) (evalExpr g e)
  execAssign : ∀ t r rhs, Mono (execAssign f t r rhs) (execAssign g t r rhs)
  runBlock : ∀ b, Mono (runBlock f b) (runBlock g b)
  ifChain : ∀ t bs els, Mono (ifChain f t bs els) (ifChain g t bs els)
  caseMatch : ∀ v cl, Mono (caseMatch f v cl) (caseMatch g v cl)
  caseClauses : ∀ v cls, Mono (caseClauses f v cls) (caseClauses g v cls)
  loopBody : ∀ b, Mono (loopBody f b) (loopBody g b)
  whileLoop : ∀ t c b, Mono (whileLoop f t c b) (whileLoop g t c b)
  repeatLoop : ∀ t b c, Mono (repeatLoop f t b c) (repeatLoop g t b c)
  forLoop : ∀ t it stop step b, Mono (forLoop f t it stop step b) (forLoop g t it stop step b)
  callProc : ∀ t name args, Mono (callProc f t name args) (callProc g t name args)
  resolveParams : ∀ ps acc, Mono (resolveParams f ps acc) (resolveParams g ps acc)
  evalBounds : ∀ bs acc, Mono (evalBounds f bs acc) (evalBounds g bs acc)
  declareVars : ∀ t ids ty, Mono (declareVars f t ids ty) (declareVars g t ids ty)
  declareArrs : ∀ t ids ty dims, Mono (declareArrs f t ids ty dims) (declareArrs g t ids ty dims)
  outputAll : ∀ es, Mono (outputAll f es) (outputAll g es)
  fileName : ∀ t e, Mono (fileName f t e) (fileName g t e)
  execStmt : ∀ s, Mono (execStmt f s) (execStmt g s)

/-- **Fuel monotonicity of the whole evaluator.** For `f ≤ g`, every function of the mutual block, all arguments, every
    start state: a run with fuel `f` that does not end in `outOfFuel` is reproduced exactly (result and final state)
    by the run with fuel `g`. -/
theorem fuel_mono_all {f g : Nat} (h : f ≤ g) : FuelMonoAll f g where
  defaultVal t ty := Mono.of_succ (fun k => defaultVal k t ty) (fun k => (mono_all k).defaultVal t ty) f g h
  defaultCells t ty n acc := Mono.of_succ (fun k => defaultCells k t ty n acc) (fun k => (mono_all k).defaultCells t ty n acc) f g h
  evalArgs es acc := Mono.of_succ (fun k => evalArgs k es acc) (fun k => (mono_all k).evalArgs es acc) f g h
  evalIndices es dims acc := Mono.of_succ (fun k => evalIndices k es dims acc) (fun k => (mono_all k).evalIndices es dims acc) f g h
  resolveRef r := Mono.of_succ (fun k => resolveRef k r) (fun k => (mono_all k).resolveRef r) f g h
  callFun t args := Mono.of_succ (fun k => callFun k t args) (fun k => (mono_all k).callFun t args) f g h
  bindParams t ps es vs acc := Mono.of_succ (fun k => bindParams k t ps es vs acc) (fun k => (mono_all k).bindParams t ps es vs acc) f g h
  evalExpr e := Mono.of_succ (fun k => evalExpr k e) (fun k => (mono_all k).evalExpr e) f g h
  execAssign t r rhs := Mono.of_succ (fun k => execAssign k t r rhs) (fun k => (mono_all k).execAssign t r rhs) f g h
  runBlock b := Mono.of_succ (fun k => runBlock k b) (fun k => (mono_all k).runBlock b) f g h
  ifChain t bs els := Mono.of_succ (fun k => ifChain k t bs els) (fun k => (mono_all k).ifChain t bs els) f g h
  caseMatch v cl := Mono.of_succ (fun k => caseMatch k v cl) (fun k => (mono_all k).caseMatch v cl) f g h
  caseClauses v cls := Mono.of_succ (fun k => caseClauses k v cls) (fun k => (mono_all k).caseClauses v cls) f g h
  loopBody b := Mono.of_succ (fun k => loopBody k b) (fun k => (mono_all k).loopBody b) f g h
  whileLoop t c b := Mono.of_succ (fun k => whileLoop k t c b) (fun k => (mono_all k).whileLoop t c b) f g h
  repeatLoop t b c := Mono.of_succ (fun k => repeatLoop k t b c) (fun k => (mono_all k).repeatLoop t b c) f g h
  forLoop t it stop step b := Mono.of_succ (fun k => forLoop k t it stop step b) (fun k => (mono_all k).forLoop t it stop step b) f g h
  callProc t name args := Mono.of_succ (fun k => callProc k t name args) (fun k => (mono_all k).callProc t name args) f g h
  resolveParams ps acc := Mono.of_succ (fun k => resolveParams k ps acc) (fun k => (mono_all k).resolveParams ps acc) f g h
  evalBounds bs acc := Mono.of_succ (fun k => evalBounds k bs acc) (fun k => (mono_all k).evalBounds bs acc) f g h
  declareVars t ids ty := Mono.of_succ (fun k => declareVars k t ids ty) (fun k => (mono_all k).declareVars t ids ty) f g h
  declareArrs t ids ty dims := Mono.of_succ (fun k => declareArrs k t ids ty dims) (fun k => (mono_all k).declareArrs t ids ty dims) f g h
  outputAll es := Mono.of_succ (fun k => outputAll k es) (fun k => (mono_all k).outputAll es) f g h
  fileName t e := Mono.of_succ (fun k => fileName k t e) (fun k => (mono_all k).fileName t e) f g h
  execStmt s := Mono.of_succ (fun k => execStmt k s) (fun k => (mono_all k).execStmt s) f g h

/-- the statement in the `FuelMono` form asked for: `fn` is a fuel-indexed computation -/
def FuelMono {α : Type} (F : Nat → M α) : Prop :=
  ∀ f g, f ≤ g → ∀ σ r σ', (F f).run.run σ = (r, σ') → r ≠ .error .outOfFuel → (F g).run.run σ = (r, σ')

theorem FuelMono.of_mono {α : Type} {F : Nat → M α} (h : ∀ f g, f ≤ g → Mono (F f) (F g)) : FuelMono F :=
  fun f g hfg σ r σ' hr hne => (h f g hfg).run σ r σ' hr hne

/-- **fuel monotonicity, expressions** -/
theorem evalExpr_fuel_mono (e : Expr) : FuelMono (fun f => evalExpr f e) :=
  .of_mono fun _ _ h => (fuel_mono_all h).evalExpr e

/-- **fuel monotonicity, statements** -/
theorem execStmt_fuel_mono (s : Stmt) : FuelMono (fun f => execStmt f s) :=
  .of_mono fun _ _ h => (fuel_mono_all h).execStmt s

/-- **fuel monotonicity, blocks** -/
theorem runBlock_fuel_mono (b : Block) : FuelMono (fun f => runBlock f b) :=
  .of_mono fun _ _ h => (fuel_mono_all h).runBlock b

theorem runMain_mono {f g : Nat} (h : f ≤ g) (b : Block) : Mono (runMain f b) (runMain g b) := by
  unfold runMain
  refine Mono.tryCatch ((fuel_mono_all h).runBlock b) (fun _ => Mono.refl _) rfl

/-- **fuel monotonicity, whole programs** (`MainBlock::run`) -/
theorem runMain_fuel_mono (b : Block) : FuelMono (fun f => runMain f b) :=
  .of_mono fun _ _ h => runMain_mono h b

/-- the outcome `runOn` reports for a result of `runMain` -/
def outcomeOf : Except Stop Unit → Outcome
  | .ok () => .ok
  | .error (.diag d) => .diag d
  | .error (.crash p) => .crash p
  | .error .outOfFuel => .fuel
  | .error _ => .crash .other

theorem runOn_eq (f : Nat) (b : Block) (σ : St) :
    runOn f b σ = (outcomeOf ((runMain f b).run.run σ).1, ((runMain f b).run.run σ).2) := by
  unfold runOn
  rcases (runMain f b).run.run σ with ⟨r, τ⟩
  rcases r with e | ⟨⟨⟩⟩
  · cases e <;> rfl
  · rfl

theorem outcomeOf_fuel (r : Except Stop Unit) : outcomeOf r = .fuel → r = .error .outOfFuel := by
  intro h
  rcases r with e | ⟨⟨⟩⟩
  · cases e <;> first | rfl | cases h
  · cases h

/-- **fuel monotonicity of `runOn`**: an outcome other than `.fuel` (and the state that goes with it) is the same
    with any larger fuel -/
theorem runOn_fuel_mono (b : Block) (σ : St) {f g : Nat} (h : f ≤ g) (o : Outcome) (σ' : St)
    (hrun : runOn f b σ = (o, σ')) (hne : o ≠ .fuel) : runOn g b σ = (o, σ') := by
  rw [runOn_eq] at hrun ⊢
  rcases hm : (runMain f b).run.run σ with ⟨r, τ⟩
  rw [hm] at hrun
  cases hrun
  have hr : r ≠ .error .outOfFuel := by
    intro hr
    subst hr
    exact hne rfl
  rw [(runMain_mono h b).run σ r τ hm hr]


/-! ### non-vacuity -/

namespace FuelMonoDemo

def tok (s : String) : Tok := { k := .IDENTIFIER, line := 1, col := 1, val := s.toList }
/-- `x <- 1` then `OUTPUT x + 1` -/
def prog : Block :=
  [.expr (.assign (tok "<-") (.var (tok "x")) (.intLit (tok "1") 1)),
   .output (tok "OUTPUT") [.arith (tok "+") .add (.access (tok "x") (.var (tok "x"))) (.intLit (tok "1") 1)]]
def σ0 : St := St.init [] [] false false

def isFuel {α : Type} : Except Stop α → Bool
  | .error .outOfFuel => true
  | _ => false

theorem ne_fuel_of {α : Type} {r : Except Stop α} (h : isFuel r = false) : r ≠ .error .outOfFuel := by
  intro hr; subst hr; cases h

/-- with fuel 3 the program runs out of fuel (so the side condition of monotonicity excludes something) … -/
example : isFuel ((runBlock 3 prog).run.run σ0).1 = true := by decide
/-- … with fuel 10 it runs to the end and prints `2` … -/
example : isFuel ((runBlock 10 prog).run.run σ0).1 = false := by decide
example : ((runBlock 10 prog).run.run σ0).2.output = "2\n".toList := by decide
/-- … and therefore with any larger fuel: result and final state are those of the run with fuel 10 (not computed) -/
example (g : Nat) (h : 10 ≤ g) : (runBlock g prog).run.run σ0 = (runBlock 10 prog).run.run σ0 :=
  runBlock_fuel_mono prog 10 g h σ0 _ _ rfl (ne_fuel_of (by decide))
example (g : Nat) (h : 10 ≤ g) : ((runOn g prog σ0).2).output = "2\n".toList := by
  have h1 : runOn 10 prog σ0 = (.ok, (runOn 10 prog σ0).2) := by rfl
  rw [runOn_fuel_mono prog σ0 h .ok _ h1 (fun h => nomatch h)]
  decide

end FuelMonoDemo

end Pseudo
