import PseudoModel.Eval
import Properties.C02
import Properties.C02Eval
/-!
# ExprDenote — a typed denotation of the whole operator grammar (helpers for `Properties/C02Full.lean`)

* `TExpr` — expression trees over literals of all five primitive types (INTEGER, REAL, BOOLEAN, CHAR, STRING),
  the 15 binary operators (6 arithmetic `ArOp`, 6 comparisons `CmpOp`, `AND` / `OR`, `&`), unary minus, `NOT` and
  parentheses.  Every node carries the token the parser attaches to it (an arbitrary `Tok`: the run-time
  diagnostics are positioned at it).  `denoteT : TExpr → Expr` is the AST the parser builds (parentheses leave
  no node).
* `evalT : TExpr → Except (Tok × Msg) Val` — the reference semantics, by structural recursion, on top of the
  value-level specifications `arithT`, `cmpT`, `logicT`, `concatT`, `negT`, `notT`, each written by cases on the
  operand types.  An error carries the token of the node that raised it and the message class.
* `arithT_eq`, `cmpT_eq`, … — on operands of the five literal types the specifications agree with the model's
  `evalArith` (for every enum table), `evalCmp`, `evalLogic`, `evalConcat`, `evalNeg`, `evalNot`.
* `evalT_lit` — every value of `evalT` is of one of the five literal types; `evalT_*_ok` / `evalT_*_error`, `bin2_ok` /
  `bin2_error` — inversion of `evalT` at each node; `arithT_error`, `cmpT_error`, `logicT_error`, `negT_error`,
  `notT_error`, `concatT_lit` — exactly when the value-level operations fail.
* `run_*` — running `M` computations; `rtDiag` is the diagnostic `mkRuntime` builds (the same definition as
  `Pseudo.rtDiag` of `PseudoProofs/EvalStep.lean`, which cannot be imported here: `EvalInv` clashes with
  `ParseLemmas`, see `Properties/C02Eval.lean`).

`Float` is opaque to the kernel: REAL results are stated as "which `Float` operation is applied to which operands".
-/
namespace Pseudo.ExprDenote

open FloatFmt C02Eval

/-! ## syntax -/

inductive TExpr
  | int (t : Tok) (n : Int)
  | real (t : Tok) (txt : Str)
  | bool (t : Tok) (b : Bool)
  | chr (t : Tok) (c : Char)
  | str (t : Tok) (s : Str)
  | paren (e : TExpr)
  | neg (t : Tok) (e : TExpr)
  | not (t : Tok) (e : TExpr)
  | arith (t : Tok) (op : ArOp) (l r : TExpr)
  | cmp (t : Tok) (op : CmpOp) (l r : TExpr)
  | logic (t : Tok) (op : LogOp) (l r : TExpr)
  | concat (t : Tok) (l r : TExpr)
deriving Inhabited

/-- the AST the parser builds: one node per literal / operator, none for parentheses -/
def denoteT : TExpr → Expr
  | .int t n => .intLit t n
  | .real t txt => .realLit t txt
  | .bool t b => .boolLit t b
  | .chr t c => .charLit t c
  | .str t s => .strLit t s
  | .paren e => denoteT e
  | .neg t e => .neg t (denoteT e)
  | .not t e => .not t (denoteT e)
  | .arith t op l r => .arith t op (denoteT l) (denoteT r)
  | .cmp t op l r => .cmp t op (denoteT l) (denoteT r)
  | .logic t op l r => .logic t op (denoteT l) (denoteT r)
  | .concat t l r => .concat t (denoteT l) (denoteT r)

/-- number of AST nodes -/
def TExpr.size : TExpr → Nat
  | .int _ _ | .real _ _ | .bool _ _ | .chr _ _ | .str _ _ => 1
  | .paren e => e.size
  | .neg _ e | .not _ e => e.size + 1
  | .arith _ _ l r | .cmp _ _ l r | .logic _ _ l r | .concat _ l r => l.size + r.size + 1

theorem TExpr.size_pos (e : TExpr) : 0 < e.size := by
  induction e <;> simp [TExpr.size] <;> assumption

/-! ## value-level specification -/

/-- the values of the five literal types -/
def IsLit : Val → Bool
  | .int _ | .real _ | .bool _ | .chr _ | .str _ => true
  | _ => false

/-- INTEGER or REAL -/
def IsNum : Val → Bool
  | .int _ | .real _ => true
  | _ => false

/-- INTEGER ⊕ INTEGER: exact integer arithmetic wrapped to 64 bits; only `/` leaves the integers -/
def intOp (op : ArOp) (a b : Int) : Except Msg Val :=
  match op with
  | .add => .ok (.int (wrap64 (a + b)))
  | .sub => .ok (.int (wrap64 (a - b)))
  | .mul => .ok (.int (wrap64 (a * b)))
  | .div => if b = 0 then .error .divZero else .ok (.real (floatOfInt a / floatOfInt b))
  | .idiv => if b = 0 then .error .divZero else .ok (.int (wrap64 (Int.tdiv a b)))
  | .mod => if b = 0 then .error .divZero else .ok (.int (Int.tmod a b))

/-- REAL ⊕ REAL (after promotion); `zero` tells whether the divisor is zero (decided on the operand BEFORE its
    promotion: `b == 0` for an INTEGER divisor, `y == 0.0` for a REAL one) -/
def realOp (op : ArOp) (x y : Float) (zero : Bool) : Except Msg Val :=
  match op with
  | .add => .ok (.real (x + y))
  | .sub => .ok (.real (x - y))
  | .mul => .ok (.real (x * y))
  | .div => if zero then .error .divZero else .ok (.real (x / y))
  | .idiv => if zero then .error .divZero else .ok (.int (floatToIntTrunc (x / y).floor))
  | .mod => if zero then .error .divZero else .ok (.real (modReal x y))

/-- `+ - * / DIV MOD` -/
def arithT (op : ArOp) : Val → Val → Except Msg Val
  | .int a, .int b => intOp op a b
  | .int a, .real y => realOp op (floatOfInt a) y (y == 0.0)
  | .real x, .int b => realOp op x (floatOfInt b) (b == 0)
  | .real x, .real y => realOp op x y (y == 0.0)
  | _, _ => .error .typeMismatch

/-- unary minus -/
def negT : Val → Except Msg Val
  | .int n => .ok (.int (wrap64 (-n)))
  | .real x => .ok (.real (x * floatOfInt (-1)))
  | _ => .error .typeMismatch

/-- `=` / `<>` on operands that are only comparable for equality; the ordering operators reject them -/
def eqOnly (op : CmpOp) (same : Bool) : Except Msg Val :=
  match op with
  | .eq => .ok (.bool same)
  | .ne => .ok (.bool (!same))
  | _ => .error .typeMismatch

/-- `= <> < <= > >=`: numbers numerically (mixed INTEGER / REAL promoted), CHARs by their (signed) byte value;
    BOOLEANs and STRINGs only for equality; operands of two different types are unequal (not an error) -/
def cmpT (op : CmpOp) : Val → Val → Except Msg Val
  | .int a, .int b => .ok (.bool (cmpInt op a b))
  | .int a, .real y => .ok (.bool (cmpReal op (floatOfInt a) y))
  | .real x, .int b => .ok (.bool (cmpReal op x (floatOfInt b)))
  | .real x, .real y => .ok (.bool (cmpReal op x y))
  | .chr a, .chr b => .ok (.bool (cmpInt op (intOfByte a) (intOfByte b)))
  | .bool a, .bool b => eqOnly op (a == b)
  | .str a, .str b => eqOnly op (a == b)
  | _, _ => eqOnly op false

/-- `AND` / `OR` on both evaluated operands -/
def logicT (op : LogOp) : Val → Val → Except Msg Val
  | .bool a, .bool b => .ok (.bool (match op with | .and => a && b | .or => a || b))
  | _, _ => .error .typeMismatch

def notT : Val → Except Msg Val
  | .bool b => .ok (.bool (!b))
  | _ => .error .typeMismatch

/-- the text `&` uses for an operand -/
def textT : Val → Option Str
  | .str s => some s
  | .chr c => some [c]
  | .int n => some (intToStr n)
  | .real x => some (realToString x)
  | .bool b => some (if b then "TRUE".toList else "FALSE".toList)
  | _ => none

/-- `&` -/
def concatT (l r : Val) : Except Msg Val :=
  match textT l, textT r with
  | some a, some b => .ok (.str (a ++ b))
  | _, _ => .error .nonPrimitive

/-- the only short circuit: `FALSE AND …` -/
def shortT : LogOp → Val → Bool
  | .and, .bool false => true
  | _, _ => false

/-! ## the denotation -/

/-- an error: the token of the node that raised it, and the message class -/
abbrev Err := Tok × Msg

/-- attach the node's token to a value-level error -/
def atTok (t : Tok) : Except Msg Val → Except Err Val
  | .ok v => .ok v
  | .error m => .error (t, m)

/-- Reference semantics of the operator grammar.  Operands are evaluated left to right; the first error wins.
    `FALSE AND r` does not evaluate `r`; `OR` and `TRUE AND r` always do. -/
def evalT : TExpr → Except Err Val
  | .int _ n => .ok (.int n)
  | .real _ txt => .ok (.real (strtod txt).1)
  | .bool _ b => .ok (.bool b)
  | .chr _ c => .ok (.chr c)
  | .str _ s => .ok (.str s)
  | .paren e => evalT e
  | .neg t e =>
    match evalT e with
    | .error x => .error x
    | .ok v => atTok t (negT v)
  | .not t e =>
    match evalT e with
    | .error x => .error x
    | .ok v => atTok t (notT v)
  | .arith t op l r =>
    match evalT l with
    | .error x => .error x
    | .ok a =>
      match evalT r with
      | .error x => .error x
      | .ok b => atTok t (arithT op a b)
  | .cmp t op l r =>
    match evalT l with
    | .error x => .error x
    | .ok a =>
      match evalT r with
      | .error x => .error x
      | .ok b => atTok t (cmpT op a b)
  | .logic t op l r =>
    match evalT l with
    | .error x => .error x
    | .ok a =>
      if shortT op a then .ok (.bool false)
      else
        match evalT r with
        | .error x => .error x
        | .ok b => atTok t (logicT op a b)
  | .concat t l r =>
    match evalT l with
    | .error x => .error x
    | .ok a =>
      match evalT r with
      | .error x => .error x
      | .ok b => atTok t (concatT a b)

/-! ## the specifications agree with the model's value-level operations -/

theorem atTok_ok {t : Tok} {r : Except Msg Val} {v : Val} : atTok t r = .ok v ↔ r = .ok v := by
  cases r <;> simp [atTok]

theorem atTok_error {t : Tok} {r : Except Msg Val} {x : Err} : atTok t r = .error x ↔ ∃ m, r = .error m ∧ x = (t, m) := by
  cases r <;> simp [atTok, eq_comm]

theorem arithT_eq (sz : Str → Option Nat) (op : ArOp) (l r : Val) (hl : IsLit l = true) (hr : IsLit r = true) :
    arithT op l r = evalArith sz op l r := by
  cases l <;> simp [IsLit] at hl <;> cases r <;> simp [IsLit] at hr <;>
    cases op <;> simp [arithT, evalArith, divides, intOp, realOp, intArith, realArith] <;>
    (try split) <;> simp_all

theorem negT_eq (v : Val) : negT v = evalNeg v := by
  cases v <;> simp [negT, evalNeg, Int.mul_neg_one]

theorem cmpT_eq (op : CmpOp) (l r : Val) (hl : IsLit l = true) (hr : IsLit r = true) :
    cmpT op l r = evalCmp op l r := by
  cases l <;> simp [IsLit] at hl <;> cases r <;> simp [IsLit] at hr <;>
    cases op <;> simp [cmpT, evalCmp, eqOnly, eqRes, Val.ty]

theorem logicT_eq (op : LogOp) (l r : Val) : logicT op l r = evalLogic op l r := by
  cases l <;> cases r <;> simp [logicT, evalLogic] <;> cases op <;> rfl

theorem notT_eq (v : Val) : notT v = evalNot v := by
  cases v <;> simp [notT, evalNot]

theorem textT_eq (v : Val) (h : IsLit v = true) : textT v = primToString v := by
  cases v <;> simp [IsLit] at h <;> simp [textT, primToString]

theorem concatT_eq (l r : Val) (hl : IsLit l = true) (hr : IsLit r = true) : concatT l r = evalConcat l r := by
  unfold concatT evalConcat
  rw [textT_eq l hl, textT_eq r hr]
  cases primToString l <;> cases primToString r <;> rfl

/-! ## results stay within the five literal types -/

theorem intOp_lit {op : ArOp} {a b : Int} {v : Val} (h : intOp op a b = .ok v) : IsLit v = true := by
  cases op <;> simp only [intOp] at h <;> (try split at h) <;> cases h <;> rfl

theorem realOp_lit {op : ArOp} {x y : Float} {z : Bool} {v : Val} (h : realOp op x y z = .ok v) : IsLit v = true := by
  cases op <;> simp only [realOp] at h <;> (try split at h) <;> cases h <;> rfl

theorem arithT_lit {op : ArOp} {l r v : Val} (h : arithT op l r = .ok v) : IsLit v = true := by
  unfold arithT at h
  split at h
  · exact intOp_lit h
  · exact realOp_lit h
  · exact realOp_lit h
  · exact realOp_lit h
  · cases h

theorem negT_lit {a v : Val} (h : negT a = .ok v) : IsLit v = true := by
  cases a <;> simp [negT] at h <;> subst h <;> rfl

theorem eqOnly_bool {op : CmpOp} {s : Bool} {v : Val} (h : eqOnly op s = .ok v) : ∃ b, v = .bool b := by
  cases op <;> simp [eqOnly] at h <;> exact ⟨_, h.symm⟩

theorem cmpT_bool {op : CmpOp} {l r v : Val} (h : cmpT op l r = .ok v) : ∃ b, v = .bool b := by
  unfold cmpT at h
  split at h <;> first | exact eqOnly_bool h | (simp only [Except.ok.injEq] at h; exact ⟨_, h.symm⟩)

theorem logicT_bool {op : LogOp} {l r v : Val} (h : logicT op l r = .ok v) : ∃ b, v = .bool b := by
  unfold logicT at h
  split at h
  · simp only [Except.ok.injEq] at h; exact ⟨_, h.symm⟩
  · cases h

theorem notT_bool {a v : Val} (h : notT a = .ok v) : ∃ b, v = .bool b := by
  cases a <;> simp [notT] at h; exact ⟨_, h.symm⟩

theorem concatT_str {l r v : Val} (h : concatT l r = .ok v) : ∃ s, v = .str s := by
  unfold concatT at h
  split at h
  · simp only [Except.ok.injEq] at h; exact ⟨_, h.symm⟩
  · cases h

theorem evalT_lit (e : TExpr) : ∀ v, evalT e = .ok v → IsLit v = true := by
  induction e with
  | int t n => intro v h; simp only [evalT, Except.ok.injEq] at h; subst h; rfl
  | real t x => intro v h; simp only [evalT, Except.ok.injEq] at h; subst h; rfl
  | bool t b => intro v h; simp only [evalT, Except.ok.injEq] at h; subst h; rfl
  | chr t c => intro v h; simp only [evalT, Except.ok.injEq] at h; subst h; rfl
  | str t s => intro v h; simp only [evalT, Except.ok.injEq] at h; subst h; rfl
  | paren e ih => intro v h; exact ih v h
  | neg t e ih =>
    intro v h
    simp only [evalT] at h
    split at h
    · cases h
    · exact negT_lit (atTok_ok.mp h)
  | not t e ih =>
    intro v h
    simp only [evalT] at h
    split at h
    · cases h
    · obtain ⟨b, rfl⟩ := notT_bool (atTok_ok.mp h); rfl
  | arith t op l r ihl ihr =>
    intro v h
    simp only [evalT] at h
    split at h
    · cases h
    · split at h
      · cases h
      · exact arithT_lit (atTok_ok.mp h)
  | cmp t op l r ihl ihr =>
    intro v h
    simp only [evalT] at h
    split at h
    · cases h
    · split at h
      · cases h
      · obtain ⟨b, rfl⟩ := cmpT_bool (atTok_ok.mp h); rfl
  | logic t op l r ihl ihr =>
    intro v h
    simp only [evalT] at h
    split at h
    · cases h
    · split at h
      · simp only [Except.ok.injEq] at h; subst h; rfl
      · split at h
        · cases h
        · obtain ⟨b, rfl⟩ := logicT_bool (atTok_ok.mp h); rfl
  | concat t l r ihl ihr =>
    intro v h
    simp only [evalT] at h
    split at h
    · cases h
    · split at h
      · cases h
      · obtain ⟨s, rfl⟩ := concatT_str (atTok_ok.mp h); rfl


/-! ## inversion of `evalT` -/

/-- the common shape of the strict binary nodes -/
def bin2 (t : Tok) (f : Val → Val → Except Msg Val) (rl rr : Except Err Val) : Except Err Val :=
  match rl with
  | .error x => .error x
  | .ok a =>
    match rr with
    | .error x => .error x
    | .ok b => atTok t (f a b)

theorem evalT_arith (t : Tok) (op : ArOp) (l r : TExpr) :
    evalT (.arith t op l r) = bin2 t (arithT op) (evalT l) (evalT r) := by
  simp only [evalT, bin2]

theorem evalT_cmp (t : Tok) (op : CmpOp) (l r : TExpr) :
    evalT (.cmp t op l r) = bin2 t (cmpT op) (evalT l) (evalT r) := by
  simp only [evalT, bin2]

theorem evalT_concat (t : Tok) (l r : TExpr) :
    evalT (.concat t l r) = bin2 t concatT (evalT l) (evalT r) := by
  simp only [evalT, bin2]

theorem bin2_ok {t : Tok} {f : Val → Val → Except Msg Val} {rl rr : Except Err Val} {v : Val} :
    bin2 t f rl rr = .ok v ↔ ∃ a b, rl = .ok a ∧ rr = .ok b ∧ f a b = .ok v := by
  cases rl <;> cases rr <;> simp [bin2, atTok_ok]

theorem bin2_error {t : Tok} {f : Val → Val → Except Msg Val} {rl rr : Except Err Val} {x : Err} :
    bin2 t f rl rr = .error x ↔
      rl = .error x ∨ (∃ a, rl = .ok a ∧ rr = .error x) ∨
      (∃ a b m, rl = .ok a ∧ rr = .ok b ∧ f a b = .error m ∧ x = (t, m)) := by
  cases rl <;> cases rr <;> simp [bin2, atTok_error]

theorem evalT_neg_ok {t : Tok} {e : TExpr} {v : Val} :
    evalT (.neg t e) = .ok v ↔ ∃ a, evalT e = .ok a ∧ negT a = .ok v := by
  simp only [evalT]
  cases evalT e <;> simp [atTok_ok]

theorem evalT_neg_error {t : Tok} {e : TExpr} {x : Err} :
    evalT (.neg t e) = .error x ↔ evalT e = .error x ∨ ∃ a m, evalT e = .ok a ∧ negT a = .error m ∧ x = (t, m) := by
  simp only [evalT]
  cases evalT e <;> simp [atTok_error]

theorem evalT_not_ok {t : Tok} {e : TExpr} {v : Val} :
    evalT (.not t e) = .ok v ↔ ∃ a, evalT e = .ok a ∧ notT a = .ok v := by
  simp only [evalT]
  cases evalT e <;> simp [atTok_ok]

theorem evalT_not_error {t : Tok} {e : TExpr} {x : Err} :
    evalT (.not t e) = .error x ↔ evalT e = .error x ∨ ∃ a m, evalT e = .ok a ∧ notT a = .error m ∧ x = (t, m) := by
  simp only [evalT]
  cases evalT e <;> simp [atTok_error]

theorem evalT_logic_ok {t : Tok} {op : LogOp} {l r : TExpr} {v : Val} :
    evalT (.logic t op l r) = .ok v ↔
      ∃ a, evalT l = .ok a ∧
        ((shortT op a = true ∧ v = .bool false) ∨
         (shortT op a = false ∧ ∃ b, evalT r = .ok b ∧ logicT op a b = .ok v)) := by
  simp only [evalT]
  cases evalT l with
  | error x => simp
  | ok a =>
    cases hs : shortT op a
    · cases evalT r <;> simp [hs, atTok_ok]
    · simp [hs, eq_comm (a := v)]

theorem evalT_logic_error {t : Tok} {op : LogOp} {l r : TExpr} {x : Err} :
    evalT (.logic t op l r) = .error x ↔
      evalT l = .error x ∨
      (∃ a, evalT l = .ok a ∧ shortT op a = false ∧ evalT r = .error x) ∨
      (∃ a b m, evalT l = .ok a ∧ shortT op a = false ∧ evalT r = .ok b ∧ logicT op a b = .error m ∧ x = (t, m)) := by
  simp only [evalT]
  cases evalT l with
  | error y => simp
  | ok a =>
    cases hs : shortT op a
    · cases evalT r <;> simp [hs, atTok_error]
    · simp [hs]

/-! ## when the value-level operations fail -/

def IsBool : Val → Bool
  | .bool _ => true
  | _ => false

def IsChr : Val → Bool
  | .chr _ => true
  | _ => false

theorem intOp_error {op : ArOp} {a b : Int} {m : Msg} :
    intOp op a b = .error m ↔ divides op = true ∧ b = 0 ∧ m = .divZero := by
  cases op <;> simp [intOp, divides] <;> (try split) <;> simp_all [eq_comm (a := Msg.divZero)]

theorem realOp_error {op : ArOp} {x y : Float} {z : Bool} {m : Msg} :
    realOp op x y z = .error m ↔ divides op = true ∧ z = true ∧ m = .divZero := by
  cases op <;> simp [realOp, divides] <;> (try split) <;> simp_all [eq_comm (a := Msg.divZero)]

/-- an arithmetic operator fails exactly on a non-numeric operand (type mismatch) or, for `/ DIV MOD`, on a
    zero divisor -/
theorem arithT_error {op : ArOp} {a b : Val} {m : Msg} :
    arithT op a b = .error m ↔
      ((IsNum a = false ∨ IsNum b = false) ∧ m = .typeMismatch) ∨
      (IsNum a = true ∧ IsNum b = true ∧ divides op = true ∧ isZeroNum b = true ∧ m = .divZero) := by
  cases a <;> cases b <;> simp [arithT, IsNum, isZeroNum, intOp_error, realOp_error, eq_comm (a := Msg.typeMismatch)]

theorem negT_error {a : Val} {m : Msg} : negT a = .error m ↔ IsNum a = false ∧ m = .typeMismatch := by
  cases a <;> simp [negT, IsNum, eq_comm (a := Msg.typeMismatch)]

theorem notT_error {a : Val} {m : Msg} : notT a = .error m ↔ IsBool a = false ∧ m = .typeMismatch := by
  cases a <;> simp [notT, IsBool, eq_comm (a := Msg.typeMismatch)]

theorem logicT_error {op : LogOp} {a b : Val} {m : Msg} :
    logicT op a b = .error m ↔ (IsBool a = false ∨ IsBool b = false) ∧ m = .typeMismatch := by
  cases a <;> cases b <;> simp [logicT, IsBool, eq_comm (a := Msg.typeMismatch)]

/-- `< <= > >=` -/
def IsOrder : CmpOp → Bool
  | .eq | .ne => false
  | _ => true

theorem eqOnly_error {op : CmpOp} {s : Bool} {m : Msg} :
    eqOnly op s = .error m ↔ IsOrder op = true ∧ m = .typeMismatch := by
  cases op <;> simp [eqOnly, IsOrder, eq_comm (a := Msg.typeMismatch)]

/-- a comparison fails exactly when an ordering operator meets operands that are neither two numbers nor two
    CHARs; `=` and `<>` never fail -/
theorem cmpT_error {op : CmpOp} {a b : Val} {m : Msg} :
    cmpT op a b = .error m ↔
      IsOrder op = true ∧ (IsNum a && IsNum b) = false ∧ (IsChr a && IsChr b) = false ∧ m = .typeMismatch := by
  cases a <;> cases b <;> simp [cmpT, IsNum, IsChr, eqOnly_error]

/-- `&` never fails on operands of the five literal types -/
theorem concatT_lit {a b : Val} (ha : IsLit a = true) (hb : IsLit b = true) :
    ∃ s u, textT a = some s ∧ textT b = some u ∧ concatT a b = .ok (.str (s ++ u)) := by
  cases a <;> simp [IsLit] at ha <;> cases b <;> simp [IsLit] at hb <;> simp [concatT, textT]

/-! ## running `M` -/

/-- the runtime diagnostic `mkRuntime` builds in state `σ` (same definition as `Pseudo.rtDiag` of
    `PseudoProofs/EvalStep.lean`) -/
def rtDiag (σ : St) (line col : Nat) (msg : Msg) : Diag :=
  match σ.acts with
  | [] => { kind := .runtime, line := line, col := col, msg := msg }
  | a :: parents =>
    { kind := .runtime, line := line, col := col, msg := msg,
      trace := { name := a.name, line := line, col := col } :: parents.map fun p =>
        match p.switchTok with
        | some (l, c) => { name := p.name, line := l, col := c }
        | none => { name := p.name, line := 0, col := 0 } }

@[simp] theorem rtDiag_msg (σ : St) (l c : Nat) (m : Msg) : (rtDiag σ l c m).msg = m := by
  unfold rtDiag; cases σ.acts <;> rfl
@[simp] theorem rtDiag_kind (σ : St) (l c : Nat) (m : Msg) : (rtDiag σ l c m).kind = .runtime := by
  unfold rtDiag; cases σ.acts <;> rfl
@[simp] theorem rtDiag_line (σ : St) (l c : Nat) (m : Msg) : (rtDiag σ l c m).line = l := by
  unfold rtDiag; cases σ.acts <;> rfl
@[simp] theorem rtDiag_col (σ : St) (l c : Nat) (m : Msg) : (rtDiag σ l c m).col = c := by
  unfold rtDiag; cases σ.acts <;> rfl

theorem mrun_bind_err {α β : Type} (m : M α) (f : α → M β) (σ σ' : St) (e : Stop)
    (h : m.run.run σ = (.error e, σ')) : (m >>= f).run.run σ = (.error e, σ') := by
  simp only [bind, ExceptT.bind, ExceptT.mk, ExceptT.run, StateT.bind, ExceptT.bindCont, StateT.run] at h ⊢
  rw [h]
  rfl

theorem run_mkRuntime (l c : Nat) (m : Msg) (σ : St) : (mkRuntime l c m).run.run σ = (.ok (rtDiag σ l c m), σ) := by
  unfold mkRuntime rtDiag
  rw [mrun_bind_ok _ _ _ _ _ (mrun_get σ)]
  cases σ.acts <;> rfl

/-- `rtErr t m` ends in the diagnostic `rtDiag σ t.line t.col m` and leaves the state alone -/
theorem run_rtErr {α : Type} (t : Tok) (m : Msg) (σ : St) :
    (rtErr t m : M α).run.run σ = (.error (.diag (rtDiag σ t.line t.col m)), σ) := by
  unfold rtErr
  rw [mrun_bind_ok _ _ _ _ _ (run_mkRuntime _ _ _ σ)]
  rfl

/-- what the evaluator returns for a denoted result: the value, or the runtime diagnostic of the denoted message
    class at the denoted token; the state is unchanged either way -/
def outT (σ : St) : Except Err Val → Except Stop Val × St
  | .ok v => (.ok v, σ)
  | .error (t, m) => (.error (.diag (rtDiag σ t.line t.col m)), σ)

theorem run_liftMsg (t : Tok) (r : Except Msg Val) (σ : St) : (liftMsg t r).run.run σ = outT σ (atTok t r) := by
  cases r with
  | ok v => rfl
  | error m => exact run_rtErr t m σ

/-! ## one-round unfolding equations for the remaining nodes (`C02Eval` has `intLit`, `boolLit`, `neg`, `not`,
`arith`, `cmp`, `logic`) -/

theorem evalExpr_realLit (f : Nat) (t : Tok) (txt : Str) :
    evalExpr (f+1) (.realLit t txt) = pure (.real (strtod txt).1) := by
  rw [evalExpr.eq_def]

theorem evalExpr_charLit (f : Nat) (t : Tok) (c : Char) : evalExpr (f+1) (.charLit t c) = pure (.chr c) := by
  rw [evalExpr.eq_def]

theorem evalExpr_strLit (f : Nat) (t : Tok) (s : Str) : evalExpr (f+1) (.strLit t s) = pure (.str s) := by
  rw [evalExpr.eq_def]

theorem evalExpr_concat (f : Nat) (t : Tok) (l r : Expr) :
    evalExpr (f+1) (.concat t l r) = (do
      let lv ← evalExpr f l
      let rv ← evalExpr f r
      liftMsg t (evalConcat lv rv)) := by
  rw [evalExpr.eq_def]

end Pseudo.ExprDenote
