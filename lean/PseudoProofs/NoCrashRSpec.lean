import PseudoProofs.NoCrashRPure
/-!
# C01 with enum / pointer / record types: the triples proved by induction on the fuel, and helpers for the step lemmas

New with respect to `NoCrashTSpec.lean`: the functions on the *declaration path* (`runBlock` / `execStmt` on DECLAREs, `declareVars`,
`declareArrs`, `defaultVal`, `defaultCells`) also say exactly which variables / arrays they add to the top activation and that
they leave the signatures of all other activations and the type definitions alone (`Frame`) — this is what makes the value of a
freshly built record match the member signature of its type (`memSig`).
-/
namespace Pseudo.NR
open Pseudo
open Pseudo.NC (ReadsIn ActRead ErrOK ErrNR NoCrash RO EOK errOK_diag errNR_diag errOK_fuel errNR_fuel errOK_brk errOK_cont
  getLast?_mem ro_findAct ro_isLive ro_rtErr ro_rtErr0 ro_pedErr ro_liftMsg ro_liftMsg0 ro_readLoc ro_locIsConst ro_filePre
  ro_writeText ro_get getPath_nil findSlot_name findSlot_mem lookupVarIn_some lookupArrIn_some lookupVarIn_none top_mem
  getPath_append)

/-- non-array values that are fine in `σ` -/
def AllOK (σ : St) (vs : List Val) : Prop := ∀ v ∈ vs, NArr v = true ∧ Good σ v
def CellsOK (σ : St) (ty : Ty) (vs : List Val) : Prop := ∀ c ∈ vs, CellOK σ ty c
/-- slots that are fit to become the variables of a new activation on top of the stack of `σ` -/
def SlotsOK (σ : St) (ss : List Slot) : Prop := ∀ s ∈ ss, SlotOK σ σ.acts s

theorem AllOK.ext {σ σ' : St} {vs : List Val} (hE : Ext σ σ') (h : AllOK σ vs) : AllOK σ' vs :=
  fun v hv => ⟨(h v hv).1, (h v hv).2.ext hE⟩
theorem CellsOK.ext {σ σ' : St} {ty : Ty} {vs : List Val} (hE : Ext σ σ') (h : CellsOK σ ty vs) : CellsOK σ' ty vs :=
  fun v hv => (h v hv).ext hE

theorem SlotOK.ext {σ σ' : St} {s : Slot} (hE : Ext σ σ') (h : SlotOK σ σ.acts s) : SlotOK σ' σ'.acts s := by
  unfold SlotOK at *
  split
  · rename_i hr; rw [hr] at h; exact h.ext hE
  · rename_i l hr
    rw [hr] at h
    obtain ⟨hsv, v, hv, hk⟩ := h
    obtain ⟨v', hv', k⟩ := hE.reads _ _ hv
    exact ⟨hsv, v', hv', Eq.trans k hk⟩

theorem SlotsOK.ext {σ σ' : St} {ss : List Slot} (hE : Ext σ σ') (h : SlotsOK σ ss) : SlotsOK σ' ss :=
  fun s hs => (h s hs).ext hE

theorem TopCond.ext {σ σ' : St} {top : Bool} (hE : Ext σ σ') (h : TopCond top σ) : TopCond top σ' := by
  intro ht
  obtain ⟨g, hg⟩ := h ht
  have hl := hE.length
  rw [hg] at hl
  cases hσ' : σ'.acts with
  | nil => rw [hσ'] at hl; simp at hl
  | cons a r =>
    rw [hσ'] at hl
    cases r with
    | nil => exact ⟨a, rfl⟩
    | cons b r' => simp at hl

theorem TopCond.false (σ : St) : TopCond false σ := fun h => by cases h

/-! ### frames -/

def varsSig (a : Act) : List (Str × Kind) := a.vars.map fun s => (s.name, Kind.val s.ty)
def arrsSig (a : Act) : List (Str × Kind) := a.arrs.map fun s => (s.name, kind s.val)
def sigs (a : Act) : List (Str × Kind) × List (Str × Kind) × Bool := (varsSig a, arrsSig a, a.isComp)

/-- the type definitions are unchanged -/
def DefsSame (σ σ' : St) : Prop := genums σ' = genums σ ∧ gptrs σ' = gptrs σ ∧ gcomps σ' = gcomps σ

/-- the top activation got the new variables `nv` and arrays `na`; the signatures of the other activations and the type
    definitions are unchanged -/
def Frame (σ σ' : St) (nv na : List (Str × Kind)) : Prop :=
  DefsSame σ σ' ∧ SigDefined nv ∧ SigDefined na ∧ ∃ a rest a' rest', σ.acts = a :: rest ∧ σ'.acts = a' :: rest' ∧
    varsSig a' = varsSig a ++ nv ∧ arrsSig a' = arrsSig a ++ na ∧ a'.isComp = a.isComp ∧ rest'.map sigs = rest.map sigs

theorem DefsSame.refl (σ : St) : DefsSame σ σ := ⟨rfl, rfl, rfl⟩
theorem DefsSame.trans {a b c : St} (h1 : DefsSame a b) (h2 : DefsSame b c) : DefsSame a c :=
  ⟨h2.1.trans h1.1, h2.2.1.trans h1.2.1, h2.2.2.trans h1.2.2⟩

theorem DefsSame.typeOfTok {σ σ' : St} (h : DefsSame σ σ') (t : Tok) : typeOfTok σ' t = typeOfTok σ t := by
  unfold NR.typeOfTok; rw [h.1, h.2.1, h.2.2]

theorem DefsSame.scalSig {σ σ' : St} (h : DefsSame σ σ') : ∀ b : List Stmt, scalSig σ' b = scalSig σ b
  | [] => rfl
  | st :: r => by cases st <;> simp only [NR.scalSig, DefsSame.scalSig h r, h.typeOfTok]

theorem DefsSame.arrSig {σ σ' : St} (h : DefsSame σ σ') : ∀ b : List Stmt, arrSig σ' b = arrSig σ b
  | [] => rfl
  | st :: r => by cases st <;> simp only [NR.arrSig, DefsSame.arrSig h r, h.typeOfTok]

theorem DefsSame.of_acts_eq {σ σ' : St} (ha : σ'.acts = σ.acts) : DefsSame σ σ' :=
  ⟨genums_of_acts ha, gptrs_of_acts ha, gcomps_of_acts ha⟩

theorem Frame.of_acts_eq {σ σ' : St} (hne : σ.acts ≠ []) (ha : σ'.acts = σ.acts) : Frame σ σ' [] [] := by
  refine ⟨DefsSame.of_acts_eq ha, fun _ h => (by cases h), fun _ h => (by cases h), ?_⟩
  cases h : σ.acts with
  | nil => exact absurd h hne
  | cons a rest => exact ⟨a, rest, a, rest, rfl, by rw [ha, h], by simp, by simp, rfl, rfl⟩

theorem Frame.refl {σ : St} (hne : σ.acts ≠ []) : Frame σ σ [] [] := Frame.of_acts_eq hne rfl

theorem Frame.trans {a b c : St} {nv1 na1 nv2 na2 : List (Str × Kind)} (h1 : Frame a b nv1 na1) (h2 : Frame b c nv2 na2) :
    Frame a c (nv1 ++ nv2) (na1 ++ na2) := by
  obtain ⟨d1, sv1, sa1, x, r, x', r', hx, hx', hv, har, hc1, hr⟩ := h1
  obtain ⟨d2, sv2, sa2, y, s, y', s', hy, hy', hv2, har2, hc2, hs⟩ := h2
  rw [hx'] at hy; cases hy
  refine ⟨d1.trans d2, ?_, ?_, x, r, y', s', hx, hy', by rw [hv2, hv, List.append_assoc], by rw [har2, har, List.append_assoc],
    hc2.trans hc1, hs.trans hr⟩
  · intro e he; rcases List.mem_append.1 he with he | he; exact sv1 e he; exact sv2 e he
  · intro e he; rcases List.mem_append.1 he with he | he; exact sa1 e he; exact sa2 e he

theorem declStmt_ok (top : Bool) {s : Stmt} (h : declStmt s = true) : okStmt top s = true := by
  cases s <;> simp_all [declStmt, okStmt]

theorem declBody_ok (top : Bool) : ∀ {b : List Stmt}, declBody b = true → okBlock top b = true
  | [], _ => rfl
  | s :: r, h => by
    simp only [declBody, List.all_cons, Bool.and_eq_true] at h
    simp only [okBlock, Bool.and_eq_true]
    exact ⟨declStmt_ok top h.1, declBody_ok top (by simpa [declBody] using h.2)⟩

/-- the trivial precondition / postcondition -/
abbrev PT : St → Prop := fun _ => True
abbrev QT {α : Type} : St → α → St → Prop := fun _ _ _ => True
/-- the postcondition of the functions that return a value -/
abbrev QV : St → Val → St → Prop := fun _ v σ' => NArr v = true ∧ Good σ' v

/-- one triple per function of the mutual block, at fuel `f` -/
structure AllTri (f : Nat) : Prop where
  defaultVal : ∀ t ty, Tri (fun σ => TyWF σ ty) (defaultVal f t ty) (fun σ v σ' => CellOK σ' ty v ∧ Frame σ σ' [] [])
  defaultCells : ∀ t ty n acc, Tri (fun σ => TyWF σ ty ∧ CellsOK σ ty acc) (defaultCells f t ty n acc)
    (fun σ r σ' => r.length = acc.length + n ∧ CellsOK σ' ty r ∧ Frame σ σ' [] [])
  evalArgs : ∀ es acc, Tri (fun σ => AllOK σ acc) (evalArgs f es acc)
    (fun _ r σ' => AllOK σ' r ∧ r.length = acc.length + es.length)
  evalIndices : ∀ es dims acc, es.length = dims.length →
    Tri PT (evalIndices f es dims acc) (fun _ r _ => ∃ is', r = acc.reverse ++ is' ∧ InBoundsAll dims is')
  resolveRef : ∀ r, Tri PT (resolveRef f r) (fun _ h σ' => HolderOK σ' h)
  callFun : ∀ t args, Tri PT (callFun f t args) QV
  bindParams : ∀ t ps es vs acc, es.length = ps.length → vs.length = ps.length →
    Tri (fun σ => ParamsOK σ ps ∧ AllOK σ vs ∧ SlotsOK σ acc) (bindParams f t ps es vs acc) (fun _ r σ' => SlotsOK σ' r ∧
      ∃ new, r = acc.reverse ++ new ∧
        ((∀ p ∈ ps, p.2.2 = false) → new.map (·.ty) = ps.map (·.2.1) ∧ ∀ s ∈ new, s.ref = none))
  evalExpr : ∀ e, Tri PT (evalExpr f e) QV
  execAssign : ∀ t r rhs, Tri PT (execAssign f t r rhs) QT
  runBlock : ∀ top b, okBlock top b = true → Tri (TopCond top) (runBlock f b)
    (fun σ _ σ' => declBody b = true → Frame σ σ' (scalSig σ b) (arrSig σ b))
  ifChain : ∀ top t bs els, okBranches top bs = true → okOpt top els = true → Tri (TopCond top) (ifChain f t bs els) QT
  caseMatch : ∀ top v cl, okClause top cl = true →
    Tri PT (caseMatch f v cl) (fun _ r _ => ∀ b, r = some b → okBlock top b = true)
  caseClauses : ∀ top v cls, okClauses top cls = true → Tri (TopCond top) (caseClauses f v cls) QT
  loopBody : ∀ top b, okBlock top b = true → Tri (TopCond top) (loopBody f b) QT
  whileLoop : ∀ top t c b, okBlock top b = true → Tri (TopCond top) (whileLoop f t c b) QT
  repeatLoop : ∀ top t b c, okBlock top b = true → Tri (TopCond top) (repeatLoop f t b c) QT
  forLoop : ∀ top t it stop step b, okBlock top b = true →
    Tri (fun σ => TopCond top σ ∧ IntLoc σ it) (forLoop f t it stop step b) QT
  callProc : ∀ t name args, Tri PT (callProc f t name args) QT
  resolveParams : ∀ ps acc, Tri (fun σ => ParamsOK σ acc) (resolveParams f ps acc) (fun _ r σ' => ParamsOK σ' r)
  evalBounds : ∀ bs acc, Tri PT (evalBounds f bs acc) QT
  declareVars : ∀ t ids ty, Tri PT (declareVars f t ids ty)
    (fun σ _ σ' => Frame σ σ' (ids.map fun id => (id.val, Kind.val (typeOfTok σ ty))) [])
  declareArrs : ∀ t ids ty dims, Tri PT (declareArrs f t ids ty dims)
    (fun σ _ σ' => Frame σ σ' [] (ids.map fun id => (id.val, Kind.arr (typeOfTok σ ty) dims)))
  outputAll : ∀ es, Tri PT (outputAll f es) QT
  fileName : ∀ t e, Tri PT (fileName f t e) QT
  execStmt : ∀ top s, okStmt top s = true → Tri (TopCond top) (execStmt f s)
    (fun σ v σ' => (NArr v = true ∧ Good σ' v) ∧ (declStmt s = true → Frame σ σ' (scalSig σ [s]) (arrSig σ [s])))

/-- fuel exhausted: not a crash point -/
theorem tri_fuel {α : Type} {P : St → Prop} {Q : St → α → St → Prop} : Tri P (throw .outOfFuel : M α) Q :=
  fun σ hW _ => Run.throw hW (Ext.refl σ) (errOK_fuel σ)

theorem AllTri.zero : AllTri 0 where
  defaultVal _ _ := by rw [Pseudo.defaultVal.eq_def]; exact tri_fuel
  defaultCells _ _ _ _ := by rw [Pseudo.defaultCells.eq_def]; exact tri_fuel
  evalArgs _ _ := by rw [Pseudo.evalArgs.eq_def]; exact tri_fuel
  evalIndices _ _ _ _ := by rw [Pseudo.evalIndices.eq_def]; exact tri_fuel
  resolveRef _ := by rw [Pseudo.resolveRef.eq_def]; exact tri_fuel
  callFun _ _ := by rw [Pseudo.callFun.eq_def]; exact tri_fuel
  bindParams _ _ _ _ _ _ _ := by rw [Pseudo.bindParams.eq_def]; exact tri_fuel
  evalExpr _ := by rw [Pseudo.evalExpr.eq_def]; exact tri_fuel
  execAssign _ _ _ := by rw [Pseudo.execAssign.eq_def]; exact tri_fuel
  runBlock _ _ _ := by rw [Pseudo.runBlock.eq_def]; exact tri_fuel
  ifChain _ _ _ _ _ _ := by rw [Pseudo.ifChain.eq_def]; exact tri_fuel
  caseMatch _ _ _ _ := by rw [Pseudo.caseMatch.eq_def]; exact tri_fuel
  caseClauses _ _ _ _ := by rw [Pseudo.caseClauses.eq_def]; exact tri_fuel
  loopBody _ _ _ := by rw [Pseudo.loopBody.eq_def]; exact tri_fuel
  whileLoop _ _ _ _ _ := by rw [Pseudo.whileLoop.eq_def]; exact tri_fuel
  repeatLoop _ _ _ _ _ := by rw [Pseudo.repeatLoop.eq_def]; exact tri_fuel
  forLoop _ _ _ _ _ _ _ := by rw [Pseudo.forLoop.eq_def]; exact tri_fuel
  callProc _ _ _ := by rw [Pseudo.callProc.eq_def]; exact tri_fuel
  resolveParams _ _ := by rw [Pseudo.resolveParams.eq_def]; exact tri_fuel
  evalBounds _ _ := by rw [Pseudo.evalBounds.eq_def]; exact tri_fuel
  declareVars _ _ _ := by rw [Pseudo.declareVars.eq_def]; exact tri_fuel
  declareArrs _ _ _ _ := by rw [Pseudo.declareArrs.eq_def]; exact tri_fuel
  outputAll _ := by rw [Pseudo.outputAll.eq_def]; exact tri_fuel
  fileName _ _ := by rw [Pseudo.fileName.eq_def]; exact tri_fuel
  execStmt _ _ _ := by rw [Pseudo.execStmt.eq_def]; exact tri_fuel

/-! ### helpers for the step lemmas -/

set_option linter.unusedSectionVars false

section helpers
variable {α β : Type} {σ0 σ : St} {E : St → Stop → Prop} [EOK E]

/-- a read-only step followed by a continuation -/
theorem Run.ro {m : M α} {k : α → M β} {post : α → Prop} {Qb : β → St → Prop}
    (hW : WF σ) (hE : Ext σ0 σ) (hm : RO m σ post) (hk : ∀ a, post a → Run (k a) σ (ResE σ0 Qb E)) :
    Run (m >>= k) σ (ResE σ0 Qb E) := Run.bind_ro hW hE (EOK.of_nr σ) hm hk

/-- a read-only step in tail position -/
theorem Run.ro_tail {m : M α} {post : α → Prop} {Q : α → St → Prop}
    (hW : WF σ) (hE : Ext σ0 σ) (hm : RO m σ post) (hk : ∀ a, post a → Q a σ) : Run m σ (ResE σ0 Q E) :=
  Run.of_ro hW hE (EOK.of_nr σ) hm hk

theorem Run.rtErr {Q : α → St → Prop} (hW : WF σ) (hE : Ext σ0 σ) (t : Tok) (m : Msg) :
    Run (Pseudo.rtErr t m : M α) σ (ResE σ0 Q E) :=
  Run.ro_tail hW hE (ro_rtErr t m (fun _ => False)) (fun _ h => h.elim)

theorem Run.rtErr0 {Q : α → St → Prop} (hW : WF σ) (hE : Ext σ0 σ) (m : Msg) :
    Run (Pseudo.rtErr0 m : M α) σ (ResE σ0 Q E) :=
  Run.ro_tail hW hE (ro_rtErr0 m (fun _ => False)) (fun _ h => h.elim)

theorem Run.pedErr {Q : α → St → Prop} (hW : WF σ) (hE : Ext σ0 σ) (t : Tok) (m : Msg) :
    Run (Pseudo.pedErr t m : M α) σ (ResE σ0 Q E) :=
  Run.ro_tail hW hE (ro_pedErr t m (fun _ => False)) (fun _ h => h.elim)

/-- `catchNotDefined`: body and handler with the same postconditions -/
theorem Run.catchND {m : M α} {h : Stop → M α} {Q : α → St → Prop}
    (hE : Ext σ0 σ) (hm : Run m σ (ResE σ Q E))
    (hh : ∀ e σ', WF σ' → Ext σ σ' → Ext σ0 σ' → E σ' e → Run (h e) σ' (ResE σ0 Q E)) :
    Run (catchNotDefined m h) σ (ResE σ0 Q E) := by
  unfold catchNotDefined
  refine Run.tryCatch hE hm fun e σ' hW' hE' hE0' he => ?_
  cases e with
  | diag d =>
    dsimp only
    split
    · refine Run.get_bind ?_
      split
      · exact hh _ σ' hW' hE' hE0' he
      · exact Run.throw hW' hE0' he
    · exact Run.throw hW' hE0' he
  | _ => exact Run.throw hW' hE0' he

theorem run_replEcho (hW : WF σ) {v : Val} (hv : Good σ v) :
    Run (replEcho v) σ (ResE σ (fun _ _ => True) E) := by
  unfold replEcho
  cases v with
  | none => exact Run.pure hW (Ext.refl σ) trivial
  | chr c => exact run_emit hW _
  | str s => exact run_emit hW _
  | enum ty i =>
    dsimp only
    refine Run.ro hW (Ext.refl σ) (ro_outputText hW hv.root) fun o _ => ?_
    cases o with
    | none => exact Run.pure hW (Ext.refl σ) trivial
    | some s => exact run_emit hW _
  | ptr ty tgt =>
    dsimp only
    cases tgt with
    | none => exact run_emit hW _
    | some l =>
      dsimp only
      refine Run.ro hW (Ext.refl σ) (ro_isLive l.act) fun b _ => ?_
      split <;> exact run_emit hW _
  | _ =>
    dsimp only
    refine Run.ro hW (Ext.refl σ) (ro_outputText hW hv.root) fun o _ => ?_
    cases o with
    | none => exact Run.pure hW (Ext.refl σ) trivial
    | some s => exact run_emit hW _

end helpers

/-! ### name lookup -/

theorem StackOK.find_mem {σ : St} {acts : List Act} {b : Act} (h : StackOK σ acts) (hb : b ∈ acts) :
    acts.find? (·.id == b.id) = some b := by
  induction acts with
  | nil => cases hb
  | cons c rest ih =>
    rcases List.mem_cons.1 hb with rfl | hb
    · simp [List.find?]
    · have : (c.id == b.id) = false := by
        have := h.2.1 b hb
        simpa using fun e => this e.symm
      rw [List.find?, this]
      exact ih h.2.2 hb

/-- the target of an alias slot of any activation of a well-formed stack is readable in the whole stack -/
theorem StackOK.alias_reads {σ : St} {acts : List Act} {b : Act} {s : Slot} {l : Loc} (h : StackOK σ acts) (hb : b ∈ acts)
    (hs : s ∈ b.vars) (hr : s.ref = some l) : ∃ v, ReadsIn acts l v ∧ kind v = .val s.ty := by
  induction acts with
  | nil => cases hb
  | cons c rest ih =>
    rcases List.mem_cons.1 hb with rfl | hb
    · have := h.1.vars s hs
      unfold SlotOK at this; rw [hr] at this
      obtain ⟨_, v, hv, h1⟩ := this
      exact ⟨v, hv.weaken h.2.1, h1⟩
    · obtain ⟨v, hv, h1⟩ := ih h.2.2 hb
      exact ⟨v, hv.weaken h.2.1, h1⟩

/-- the location that a variable name denotes: readable, and holds a non-array value of the slot's declared type -/
theorem var_tyloc {σ : St} (hW : WF σ) {b : Act} (hb : b ∈ σ.acts) {n : Str} {s : Slot}
    (hs : findSlot b.vars n = some s) :
    TyLoc σ (match s.ref with | some l => l | none => { act := b.id, isArr := false, name := s.name, path := [] }) s.ty := by
  have hsm := findSlot_mem hs
  cases hr : s.ref with
  | some l => exact StackOK.alias_reads hW.stack hb hsm hr
  | none =>
    dsimp only
    obtain ⟨d, hd⟩ := hW.memOK hb
    have hso := hd.vars s hsm
    unfold SlotOK at hso; rw [hr] at hso
    refine ⟨s.val, ⟨b, s, hW.stack.find_mem hb, ?_, getPath_nil _⟩, hso.1⟩
    unfold slotOf
    simp only [Bool.false_eq_true, if_false]
    rw [findSlot_name hs]; exact hs

/-- the location that an array name denotes: readable, holds a fine array of the slot's element type -/
theorem arr_holder {σ : St} (hW : WF σ) {b : Act} (hb : b ∈ σ.acts) {n : Str} {s : Slot}
    (hs : findSlot b.arrs n = some s) :
    ReadsIn σ.acts { act := b.id, isArr := true, name := s.name, path := [] } s.val ∧ ArrOK σ s.ty s.val := by
  have hsm := findSlot_mem hs
  obtain ⟨d, hd⟩ := hW.memOK hb
  refine ⟨⟨b, s, hW.stack.find_mem hb, ?_, getPath_nil _⟩, hd.arrs s hsm⟩
  unfold slotOf
  simp only [if_true]
  rw [findSlot_name hs]; exact hs

/-- what the invariant says about the value a scalar holder points to -/
theorem HolderOK.cell {σ : St} (hW : WF σ) {h : Holder} (hh : HolderOK σ h) (harr : ¬ h.isArr = true) :
    ∃ v, ReadsIn σ.acts h.loc v ∧ CellOK σ h.ty v := by
  obtain ⟨v, hr, hk⟩ := hh
  rw [if_neg harr] at hk
  exact ⟨v, hr, hk, hW.reads_good hr⟩

theorem HolderOK.arr {σ : St} (hW : WF σ) {h : Holder} (hh : HolderOK σ h) (harr : h.isArr = true) :
    ∃ v, ReadsIn σ.acts h.loc v ∧ ArrOK σ h.ty v := by
  obtain ⟨v, hr, hk⟩ := hh
  rw [if_pos harr] at hk
  exact ⟨v, hr, hk, hW.reads_good hr⟩

theorem TyLoc.holder {σ : St} {l : Loc} {ty : Ty} {nm : Str} (h : TyLoc σ l ty) :
    HolderOK σ { loc := l, isArr := false, ty := ty, name := nm } := by
  obtain ⟨v, hr, hk⟩ := h
  exact ⟨v, hr, by simpa using hk⟩

/-- the cells of a fine array -/
theorem ArrOK.cells {σ : St} {ty : Ty} {v : Val} (h : ArrOK σ ty v) :
    ∃ d cells, v = .arr ty d cells ∧ cells.length = totalCells d ∧ ∀ c ∈ cells, CellOK σ ty c := by
  obtain ⟨⟨d, hd⟩, hg⟩ := h
  obtain ⟨cells, rfl⟩ := kind_arr_inv hd
  obtain ⟨hl, hc⟩ := hg.root
  refine ⟨d, cells, rfl, hl, fun c hcm => ⟨hc c hcm, ?_⟩⟩
  obtain ⟨j, hj, hje⟩ := List.getElem_of_mem hcm
  refine hg.sub (p := [.idx j]) ?_
  rw [NC.getPath_arr_cons, List.getElem?_eq_getElem hj, hje]
  exact getPath_nil _

theorem ArrOK.mk' {σ : St} {ty : Ty} {d : List (Int × Int)} {cells : List Val} (hl : cells.length = totalCells d)
    (hc : ∀ c ∈ cells, CellOK σ ty c) : ArrOK σ ty (.arr ty d cells) :=
  ⟨⟨d, rfl⟩, good_arr ⟨hl, fun c hcm => (hc c hcm).1⟩ (fun c hcm => (hc c hcm).2)⟩

end Pseudo.NR
