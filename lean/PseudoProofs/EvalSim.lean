import PseudoProofs.EvalInv
/-!
# Two-run simulation for the evaluator: the `pedantic` flag only rejects

`pedOn σ` / `pedOff σ` are `σ` with the flag set / cleared. `XSimAt mp mn σ`: running `mp` from `pedOn σ` either ends
in a *pedantic* diagnostic, or it ends exactly like `mn` from `pedOff σ`: same result, and the final states are
`pedOn τ` / `pedOff τ` of one `τ` (equal up to the flag, which is still set / cleared).
`XSim m := ∀ σ, XSimAt m m σ`.

Two programs are needed because of `get`: after `let s ← get` the continuation is `f (pedOn σ)` in one run and
`f (pedOff σ)` in the other; all uses of the state read are projections, which are equal for every field but
`pedantic`, and `pedantic` is read in two places only, both of the form `if s.pedantic then pedErr … else …`.

* combinators `XSimAt.pure/throw/bind/tryCatch/get_bind/modify/set/withAct/ped`;
* `XSim` of every primitive and library function used by the mutual block;
* `AllXSim fuel`: one field per function of the mutual block; `evalX_all`: ONE induction on fuel.
-/
namespace Pseudo

/-- the state with `--pedantic` -/
def pedOn (σ : St) : St := { σ with pedantic := true }
/-- the state without -/
def pedOff (σ : St) : St := { σ with pedantic := false }

/-- the pedantic run of `mp` ends in a pedantic diagnostic or like the non-pedantic run of `mn` -/
inductive XSimAt {α : Type} (mp mn : M α) (σ : St) : Prop
  | ped (d : Diag) (τ : St) (h : mp.run.run (pedOn σ) = (.error (.diag d), τ)) (hk : d.kind = .pedantic)
  | same (r : Except Stop α) (τ : St) (hp : mp.run.run (pedOn σ) = (r, pedOn τ)) (hn : mn.run.run (pedOff σ) = (r, pedOff τ))

/-- `m` is insensitive to the flag, up to pedantic diagnostics -/
structure XSim {α : Type} (m : M α) : Prop where
  run : ∀ σ, XSimAt m m σ

section combinators
variable {α β : Type}

theorem XSimAt.pure (a : α) (σ : St) : XSimAt (pure a : M α) (pure a) σ := .same (.ok a) σ rfl rfl

theorem XSimAt.throw (e : Stop) (σ : St) : XSimAt (throw e : M α) (throw e) σ := .same (.error e) σ rfl rfl

theorem XSimAt.bind {mp mn : M α} {fp fn : α → M β} {σ : St} (hm : XSimAt mp mn σ)
    (hf : ∀ a τ, XSimAt (fp a) (fn a) τ) : XSimAt (mp >>= fp) (mn >>= fn) σ := by
  cases hm with
  | ped d τ h hk => exact .ped d τ (run_bind_err _ _ _ _ _ h) hk
  | same r τ hp hn =>
    cases r with
    | error e => exact .same (.error e) τ (run_bind_err _ _ _ _ _ hp) (run_bind_err _ _ _ _ _ hn)
    | ok a =>
      cases hf a τ with
      | ped d τ' h hk => exact .ped d τ' (by rw [run_bind_ok _ _ _ _ _ hp]; exact h) hk
      | same r' τ' hp' hn' =>
        exact .same r' τ' (by rw [run_bind_ok _ _ _ _ _ hp]; exact hp') (by rw [run_bind_ok _ _ _ _ _ hn]; exact hn')

/-- the handler of the pedantic run must pass pedantic diagnostics on -/
theorem XSimAt.tryCatch {mp mn : M α} {hp hn : Stop → M α} {σ : St} (hm : XSimAt mp mn σ)
    (hh : ∀ e τ, XSimAt (hp e) (hn e) τ)
    (hped : ∀ d, d.kind = .pedantic → hp (.diag d) = MonadExcept.throw (.diag d)) :
    XSimAt (tryCatch mp hp) (tryCatch mn hn) σ := by
  cases hm with
  | ped d τ h hk =>
    refine .ped d τ ?_ hk
    rw [run_tryCatch_err _ _ _ _ _ h, hped d hk]
    rfl
  | same r τ hp' hn' =>
    cases r with
    | ok a => exact .same (.ok a) τ (run_tryCatch_ok _ _ _ _ _ hp') (run_tryCatch_ok _ _ _ _ _ hn')
    | error e =>
      cases hh e τ with
      | ped d τ' h hk => exact .ped d τ' (by rw [run_tryCatch_err _ _ _ _ _ hp']; exact h) hk
      | same r' τ' hp2 hn2 =>
        exact .same r' τ' (by rw [run_tryCatch_err _ _ _ _ _ hp']; exact hp2) (by rw [run_tryCatch_err _ _ _ _ _ hn']; exact hn2)

/-- after `get`: the two continuations, on the two states read -/
theorem XSimAt.get_bind {fp fn : St → M α} {σ : St} (h : XSimAt (fp (pedOn σ)) (fn (pedOff σ)) σ) :
    XSimAt ((MonadState.get : M St) >>= fp) ((MonadState.get : M St) >>= fn) σ := by
  cases h with
  | ped d τ h hk => exact .ped d τ (by rw [run_bind_ok _ _ _ _ _ (run_get _)]; exact h) hk
  | same r τ hp hn =>
    exact .same r τ (by rw [run_bind_ok _ _ _ _ _ (run_get _)]; exact hp) (by rw [run_bind_ok _ _ _ _ _ (run_get _)]; exact hn)

theorem XSimAt.modify (f : St → St) (σ : St) (hp : f (pedOn σ) = pedOn (f σ)) (hn : f (pedOff σ) = pedOff (f σ)) :
    XSimAt (modify f : M PUnit) (modify f) σ :=
  .same (.ok ⟨⟩) (f σ) (by rw [run_modify, hp]) (by rw [run_modify, hn])

theorem XSimAt.set (sp sn : St) (σ τ : St) (hp : sp = pedOn τ) (hn : sn = pedOff τ) :
    XSimAt (set sp : M PUnit) (set sn) σ :=
  .same (.ok ⟨⟩) τ (by rw [run_set, hp]) (by rw [run_set, hn])

theorem XSimAt.withAct {mk : Nat → Act} {bp bn : M α} {σ : St} (h : ∀ τ, XSimAt bp bn τ) :
    XSimAt (withAct mk bp) (withAct mk bn) σ := by
  cases h (pushSt mk σ) with
  | ped d τ h hk =>
    refine .ped d (popSt τ) ?_ hk
    rw [run_withAct]
    have : pushSt mk (pedOn σ) = pedOn (pushSt mk σ) := rfl
    rw [this, h]
  | same r τ hp hn =>
    refine .same r (popSt τ) ?_ ?_
    · rw [run_withAct]
      have : pushSt mk (pedOn σ) = pedOn (pushSt mk σ) := rfl
      rw [this, hp]
      rfl
    · rw [run_withAct]
      have : pushSt mk (pedOff σ) = pedOff (pushSt mk σ) := rfl
      rw [this, hn]
      rfl

/-- the pedantic run raises a pedantic diagnostic: nothing to show about the other run -/
theorem XSimAt.pedErr {mn : M α} (t : Tok) (m : Msg) (σ : St) : XSimAt (pedErr t m : M α) mn σ :=
  .ped { kind := .pedantic, line := t.line, col := t.col, msg := m } (pedOn σ) rfl rfl

theorem XSim.of_run {m : M α} (h : ∀ σ, XSimAt m m σ) : XSim m := ⟨h⟩

end combinators

/-! ### automation -/

syntax "xsim_lib" : tactic
macro_rules | `(tactic| xsim_lib) => `(tactic| fail "xsim_lib: no lemma")
syntax "xsim_ih" : tactic
macro_rules | `(tactic| xsim_ih) => `(tactic| fail "xsim_ih: no hypothesis")

macro "xsim_step" : tactic => `(tactic| first
  | cases ‹_ + 1 = Nat.succ _›
  | with_reducible exact XSimAt.pure _ _
  | with_reducible exact XSimAt.throw _ _
  | with_reducible exact XSimAt.pedErr _ _ _
  | (with_reducible apply XSim.run; with_reducible first | xsim_lib | xsim_ih)
  | (with_reducible apply XSimAt.get_bind; dsimp only [pedOn, pedOff])
  | with_reducible apply XSimAt.bind
  | with_reducible apply XSimAt.withAct
  | with_reducible exact XSimAt.modify _ _ rfl rfl
  | intro _
  | split
  | dsimp only)

macro "xsim_auto" : tactic => `(tactic| repeat' xsim_step)

/-- prove `XSim (f args)` for a function defined outside the mutual block -/
macro "xsim_def " id:ident : tactic => `(tactic| (apply XSim.of_run; intro σ; unfold $id; xsim_auto))

/-! ### primitives -/

theorem XSim.l_emit (x : Str) : XSim (emit x) := by xsim_def emit
macro_rules | `(tactic| xsim_lib) => `(tactic| exact XSim.l_emit _)

theorem XSim.l_curAct : XSim curAct := by xsim_def curAct
macro_rules | `(tactic| xsim_lib) => `(tactic| exact XSim.l_curAct)
theorem XSim.l_globalAct : XSim globalAct := by xsim_def globalAct
macro_rules | `(tactic| xsim_lib) => `(tactic| exact XSim.l_globalAct)
theorem XSim.l_findAct (id : Nat) : XSim (findAct id) := by xsim_def findAct
macro_rules | `(tactic| xsim_lib) => `(tactic| exact XSim.l_findAct _)
theorem XSim.l_mkRuntime (l c : Nat) (m : Msg) : XSim (mkRuntime l c m) := by xsim_def mkRuntime
macro_rules | `(tactic| xsim_lib) => `(tactic| exact XSim.l_mkRuntime _ _ _)
theorem XSim.l_rtErr {α : Type} (t : Tok) (m : Msg) : XSim (rtErr t m : M α) := by xsim_def rtErr
macro_rules | `(tactic| xsim_lib) => `(tactic| exact XSim.l_rtErr _ _)
theorem XSim.l_rtErr0 {α : Type} (m : Msg) : XSim (rtErr0 m : M α) := by xsim_def rtErr0
macro_rules | `(tactic| xsim_lib) => `(tactic| exact XSim.l_rtErr0 _)

theorem XSim.l_pedErr {α : Type} (t : Tok) (m : Msg) : XSim (pedErr t m : M α) := by xsim_def pedErr
macro_rules | `(tactic| xsim_lib) => `(tactic| exact XSim.l_pedErr _ _ )
theorem XSim.l_lookupVar (n : Str) : XSim (lookupVar n) := by xsim_def lookupVar
macro_rules | `(tactic| xsim_lib) => `(tactic| exact XSim.l_lookupVar _ )
theorem XSim.l_lookupArr (n : Str) : XSim (lookupArr n) := by xsim_def lookupArr
macro_rules | `(tactic| xsim_lib) => `(tactic| exact XSim.l_lookupArr _ )
theorem XSim.l_scopeAct : XSim (scopeAct) := by xsim_def scopeAct
macro_rules | `(tactic| xsim_lib) => `(tactic| exact XSim.l_scopeAct )
theorem XSim.l_typeScopeAct : XSim (typeScopeAct) := by xsim_def typeScopeAct
macro_rules | `(tactic| xsim_lib) => `(tactic| exact XSim.l_typeScopeAct )
theorem XSim.l_lookupList {β : Type} (sel : Act → List (Str × β)) (n : Str) (g : Bool) : XSim (lookupList sel n g) := by xsim_def lookupList
macro_rules | `(tactic| xsim_lib) => `(tactic| exact XSim.l_lookupList _ _ _ )
theorem XSim.l_enumDefOf (n : Str) (g : Bool) : XSim (enumDefOf n g) := by xsim_def enumDefOf
macro_rules | `(tactic| xsim_lib) => `(tactic| exact XSim.l_enumDefOf _ _ )
theorem XSim.l_ptrDefOf (n : Str) (g : Bool) : XSim (ptrDefOf n g) := by xsim_def ptrDefOf
macro_rules | `(tactic| xsim_lib) => `(tactic| exact XSim.l_ptrDefOf _ _ )
theorem XSim.l_compDefOf (n : Str) (g : Bool) : XSim (compDefOf n g) := by xsim_def compDefOf
macro_rules | `(tactic| xsim_lib) => `(tactic| exact XSim.l_compDefOf _ _ )
theorem XSim.l_getType (t : Tok) (g : Bool) : XSim (getType t g) := by xsim_def getType
macro_rules | `(tactic| xsim_lib) => `(tactic| exact XSim.l_getType _ _ )
theorem XSim.l_getEnumElement (v : Str) (g : Bool) : XSim (getEnumElement v g) := by xsim_def getEnumElement
macro_rules | `(tactic| xsim_lib) => `(tactic| exact XSim.l_getEnumElement _ _ )
theorem XSim.l_isIdentifierType (t : Tok) (g : Bool) : XSim (isIdentifierType t g) := by xsim_def isIdentifierType
macro_rules | `(tactic| xsim_lib) => `(tactic| exact XSim.l_isIdentifierType _ _ )
theorem XSim.l_readLoc (l : Loc) : XSim (readLoc l) := by xsim_def readLoc
macro_rules | `(tactic| xsim_lib) => `(tactic| exact XSim.l_readLoc _ )
theorem XSim.l_locIsConst (l : Loc) : XSim (locIsConst l) := by xsim_def locIsConst
macro_rules | `(tactic| xsim_lib) => `(tactic| exact XSim.l_locIsConst _ )
theorem XSim.l_isLive (id : Nat) : XSim (isLive id) := by xsim_def isLive
macro_rules | `(tactic| xsim_lib) => `(tactic| exact XSim.l_isLive _ )
theorem XSim.l_liftMsg {α : Type} (t : Tok) (x : Except Msg α) : XSim (liftMsg t x) := by xsim_def liftMsg
macro_rules | `(tactic| xsim_lib) => `(tactic| exact XSim.l_liftMsg _ _ )
theorem XSim.l_liftMsg0 {α : Type} (x : Except Msg α) : XSim (liftMsg0 x) := by xsim_def liftMsg0
macro_rules | `(tactic| xsim_lib) => `(tactic| exact XSim.l_liftMsg0 _ )
theorem XSim.l_outputText (v : Val) : XSim (outputText v) := by xsim_def outputText
macro_rules | `(tactic| xsim_lib) => `(tactic| exact XSim.l_outputText _ )
theorem XSim.l_filePre (t : Tok) (op : FOp) : XSim (filePre t op) := by xsim_def filePre
macro_rules | `(tactic| xsim_lib) => `(tactic| exact XSim.l_filePre _ _ )
theorem XSim.l_codecDefs : XSim (codecDefs) := by xsim_def codecDefs
macro_rules | `(tactic| xsim_lib) => `(tactic| exact XSim.l_codecDefs )
theorem XSim.l_writeText (t : Tok) (v : Val) : XSim (writeText t v) := by xsim_def writeText
macro_rules | `(tactic| xsim_lib) => `(tactic| exact XSim.l_writeText _ _ )
theorem XSim.l_modifyAct (id : Nat) (f : Act → Act) : XSim (modifyAct id f) := by xsim_def modifyAct
macro_rules | `(tactic| xsim_lib) => `(tactic| exact XSim.l_modifyAct _ _ )
theorem XSim.l_modifyCur (f : Act → Act) : XSim (modifyCur f) := by xsim_def modifyCur
macro_rules | `(tactic| xsim_lib) => `(tactic| exact XSim.l_modifyCur _ )
theorem XSim.l_addVar (s : Slot) : XSim (addVar s) := by xsim_def addVar
macro_rules | `(tactic| xsim_lib) => `(tactic| exact XSim.l_addVar _ )
theorem XSim.l_addArr (s : Slot) : XSim (addArr s) := by xsim_def addArr
macro_rules | `(tactic| xsim_lib) => `(tactic| exact XSim.l_addArr _ )
theorem XSim.l_writeLoc (t : Tok) (l : Loc) (v : Val) : XSim (writeLoc t l v) := by xsim_def writeLoc
macro_rules | `(tactic| xsim_lib) => `(tactic| exact XSim.l_writeLoc _ _ _ )


theorem XSim.l_tick (t : Tok) : XSim (tick t) := by
  apply XSim.of_run; intro σ; unfold tick
  apply XSimAt.get_bind
  dsimp only [pedOn, pedOff]
  split
  · exact (XSim.l_rtErr t .budget).run σ
  · exact XSimAt.set _ _ σ { σ with steps := σ.steps + 1 } rfl rfl
macro_rules | `(tactic| xsim_lib) => `(tactic| exact XSim.l_tick _)

theorem XSim.l_getLine : XSim getLine := by
  apply XSim.of_run; intro σ; unfold getLine
  apply XSimAt.get_bind
  dsimp only [pedOn, pedOff]
  split
  · exact XSimAt.pure _ _
  · split
    · exact XSimAt.bind (XSimAt.set _ _ σ { σ with stdin := [], stdinEof := true } rfl rfl) fun _ τ => XSimAt.pure _ τ
    · rename_i rest' _
      exact XSimAt.bind (XSimAt.set _ _ σ { σ with stdin := rest' } rfl rfl) fun _ τ => XSimAt.pure _ τ
macro_rules | `(tactic| xsim_lib) => `(tactic| exact XSim.l_getLine)

theorem XSim.l_doFile (t : Tok) (op : FOp) : XSim (doFile t op) := by
  apply XSim.of_run; intro σ; unfold doFile
  apply XSimAt.get_bind
  dsimp only [pedOn, pedOff]
  split
  · rename_i f r _
    exact XSimAt.bind (XSimAt.set _ _ σ { σ with fs := f.fs, handles := f.handles } rfl rfl) fun _ τ => XSimAt.pure _ τ
  · exact (XSim.l_rtErr t _).run σ
macro_rules | `(tactic| xsim_lib) => `(tactic| exact XSim.l_doFile _ _)

theorem XSim.l_doFile0 (op : FOp) : XSim (doFile0 op) := by
  apply XSim.of_run; intro σ; unfold doFile0
  apply XSimAt.get_bind
  dsimp only [pedOn, pedOff]
  split
  · rename_i f r _
    exact XSimAt.bind (XSimAt.set _ _ σ { σ with fs := f.fs, handles := f.handles } rfl rfl) fun _ τ => XSimAt.pure _ τ
  · exact (XSim.l_rtErr0 _).run σ
macro_rules | `(tactic| xsim_lib) => `(tactic| exact XSim.l_doFile0 _)

theorem XSim.l_runBuiltin (id : Str) (args : List Val) : XSim (runBuiltin id args) := by xsim_def runBuiltin
macro_rules | `(tactic| xsim_lib) => `(tactic| exact XSim.l_runBuiltin _ _)
theorem XSim.l_replEcho (v : Val) : XSim (replEcho v) := by xsim_def replEcho
macro_rules | `(tactic| xsim_lib) => `(tactic| exact XSim.l_replEcho _)

/-- `catchNotDefined` never catches a pedantic diagnostic -/
theorem XSimAt.catchNotDefined {α : Type} {mp mn : M α} {hp hn : Stop → M α} {σ : St} (hm : XSimAt mp mn σ)
    (hh : ∀ e τ, XSimAt (hp e) (hn e) τ) : XSimAt (catchNotDefined mp hp) (catchNotDefined mn hn) σ := by
  unfold Pseudo.catchNotDefined
  apply XSimAt.tryCatch hm
  · intro e τ
    xsim_auto
    exact hh _ _
  · intro d hd
    simp [hd]


/-! ### the induction -/

macro_rules | `(tactic| xsim_step) => `(tactic| with_reducible apply XSimAt.catchNotDefined)
macro_rules | `(tactic| xsim_step) => `(tactic| contradiction)
macro_rules | `(tactic| xsim_step) => `(tactic| with_reducible refine XSimAt.tryCatch ?_ ?_ (by intro d hd; first | rfl | simp [hd]))

structure AllXSim (f : Nat) : Prop where
  defaultVal : ∀ t ty, XSim (defaultVal f t ty)
  defaultCells : ∀ t ty n acc, XSim (defaultCells f t ty n acc)
  evalArgs : ∀ es acc, XSim (evalArgs f es acc)
  evalIndices : ∀ es dims acc, XSim (evalIndices f es dims acc)
  resolveRef : ∀ r, XSim (resolveRef f r)
  callFun : ∀ t args, XSim (callFun f t args)
  bindParams : ∀ t ps es vs acc, XSim (bindParams f t ps es vs acc)
  evalExpr : ∀ e, XSim (evalExpr f e)
  execAssign : ∀ t r rhs, XSim (execAssign f t r rhs)
  runBlock : ∀ b, XSim (runBlock f b)
  ifChain : ∀ t bs els, XSim (ifChain f t bs els)
  caseMatch : ∀ v cl, XSim (caseMatch f v cl)
  caseClauses : ∀ v cls, XSim (caseClauses f v cls)
  loopBody : ∀ b, XSim (loopBody f b)
  whileLoop : ∀ t c b, XSim (whileLoop f t c b)
  repeatLoop : ∀ t b c, XSim (repeatLoop f t b c)
  forLoop : ∀ t it stop step b, XSim (forLoop f t it stop step b)
  callProc : ∀ t name args, XSim (callProc f t name args)
  resolveParams : ∀ ps acc, XSim (resolveParams f ps acc)
  evalBounds : ∀ bs acc, XSim (evalBounds f bs acc)
  declareVars : ∀ t ids ty, XSim (declareVars f t ids ty)
  declareArrs : ∀ t ids ty dims, XSim (declareArrs f t ids ty dims)
  outputAll : ∀ es, XSim (outputAll f es)
  fileName : ∀ t e, XSim (fileName f t e)
  execStmt : ∀ s, XSim (execStmt f s)

set_option hygiene false in
macro_rules | `(tactic| xsim_ih) => `(tactic| first
  | apply ih.evalExpr | apply ih.resolveRef | apply ih.evalArgs | apply ih.evalIndices | apply ih.callFun
  | apply ih.bindParams | apply ih.execAssign | apply ih.runBlock | apply ih.ifChain | apply ih.caseMatch
  | apply ih.caseClauses | apply ih.loopBody | apply ih.whileLoop | apply ih.repeatLoop | apply ih.forLoop
  | apply ih.callProc | apply ih.resolveParams | apply ih.evalBounds | apply ih.declareVars | apply ih.declareArrs
  | apply ih.outputAll | apply ih.fileName | apply ih.execStmt | apply ih.defaultVal | apply ih.defaultCells)

open Lean in
/-- unfold by `eq_def` and search -/
macro "xsim_fn " id:ident : tactic =>
  `(tactic| (apply XSim.of_run; intro σ; rw [$(mkIdent (id.getId ++ `eq_def)):ident]; try dsimp only
             xsim_auto))

section induction
variable {f : Nat}

theorem AllXSim.zero : AllXSim 0 where
  defaultVal _ _ := by xsim_fn defaultVal
  defaultCells _ _ _ _ := by xsim_fn defaultCells
  evalArgs _ _ := by xsim_fn evalArgs
  evalIndices _ _ _ := by xsim_fn evalIndices
  resolveRef _ := by xsim_fn resolveRef
  callFun _ _ := by xsim_fn callFun
  bindParams _ _ _ _ _ := by xsim_fn bindParams
  evalExpr _ := by xsim_fn evalExpr
  execAssign _ _ _ := by xsim_fn execAssign
  runBlock _ := by xsim_fn runBlock
  ifChain _ _ _ := by xsim_fn ifChain
  caseMatch _ _ := by xsim_fn caseMatch
  caseClauses _ _ := by xsim_fn caseClauses
  loopBody _ := by xsim_fn loopBody
  whileLoop _ _ _ := by xsim_fn whileLoop
  repeatLoop _ _ _ := by xsim_fn repeatLoop
  forLoop _ _ _ _ _ := by xsim_fn forLoop
  callProc _ _ _ := by xsim_fn callProc
  resolveParams _ _ := by xsim_fn resolveParams
  evalBounds _ _ := by xsim_fn evalBounds
  declareVars _ _ _ := by xsim_fn declareVars
  declareArrs _ _ _ _ := by xsim_fn declareArrs
  outputAll _ := by xsim_fn outputAll
  fileName _ _ := by xsim_fn fileName
  execStmt _ := by xsim_fn execStmt

theorem xstep_defaultVal (ih : AllXSim f) : ∀ t ty, XSim (defaultVal (f+1) t ty) := by
  intro t ty; xsim_fn defaultVal

theorem xstep_defaultCells (ih : AllXSim f) : ∀ t ty n acc, XSim (defaultCells (f+1) t ty n acc) := by
  intro t ty n acc; xsim_fn defaultCells

theorem xstep_evalArgs (ih : AllXSim f) : ∀ es acc, XSim (evalArgs (f+1) es acc) := by
  intro es acc; xsim_fn evalArgs

theorem xstep_evalIndices (ih : AllXSim f) : ∀ es dims acc, XSim (evalIndices (f+1) es dims acc) := by
  intro es dims acc; xsim_fn evalIndices

theorem xstep_resolveRef (ih : AllXSim f) : ∀ r, XSim (resolveRef (f+1) r) := by
  intro r; xsim_fn resolveRef

theorem xstep_callFun (ih : AllXSim f) : ∀ t args, XSim (callFun (f+1) t args) := by
  intro t args; xsim_fn callFun

theorem xstep_bindParams (ih : AllXSim f) : ∀ t ps es vs acc, XSim (bindParams (f+1) t ps es vs acc) := by
  intro t ps es vs acc; xsim_fn bindParams

theorem xstep_evalExpr (ih : AllXSim f) : ∀ e, XSim (evalExpr (f+1) e) := by
  intro e; xsim_fn evalExpr

theorem xstep_execAssign (ih : AllXSim f) : ∀ t r rhs, XSim (execAssign (f+1) t r rhs) := by
  intro t r rhs; xsim_fn execAssign

theorem xstep_runBlock (ih : AllXSim f) : ∀ b, XSim (runBlock (f+1) b) := by
  intro b; xsim_fn runBlock

theorem xstep_ifChain (ih : AllXSim f) : ∀ t bs els, XSim (ifChain (f+1) t bs els) := by
  intro t bs els; xsim_fn ifChain

theorem xstep_caseMatch (ih : AllXSim f) : ∀ v cl, XSim (caseMatch (f+1) v cl) := by
  intro v cl; xsim_fn caseMatch

theorem xstep_caseClauses (ih : AllXSim f) : ∀ v cls, XSim (caseClauses (f+1) v cls) := by
  intro v cls; xsim_fn caseClauses

theorem xstep_loopBody (ih : AllXSim f) : ∀ b, XSim (loopBody (f+1) b) := by
  intro b; xsim_fn loopBody

theorem xstep_whileLoop (ih : AllXSim f) : ∀ t c b, XSim (whileLoop (f+1) t c b) := by
  intro t c b; xsim_fn whileLoop

theorem xstep_repeatLoop (ih : AllXSim f) : ∀ t b c, XSim (repeatLoop (f+1) t b c) := by
  intro t b c; xsim_fn repeatLoop

theorem xstep_forLoop (ih : AllXSim f) : ∀ t it stop step b, XSim (forLoop (f+1) t it stop step b) := by
  intro t it stop step b; xsim_fn forLoop

theorem xstep_callProc (ih : AllXSim f) : ∀ t name args, XSim (callProc (f+1) t name args) := by
  intro t name args; xsim_fn callProc

theorem xstep_resolveParams (ih : AllXSim f) : ∀ ps acc, XSim (resolveParams (f+1) ps acc) := by
  intro ps acc; xsim_fn resolveParams

theorem xstep_evalBounds (ih : AllXSim f) : ∀ bs acc, XSim (evalBounds (f+1) bs acc) := by
  intro bs acc; xsim_fn evalBounds

theorem xstep_declareVars (ih : AllXSim f) : ∀ t ids ty, XSim (declareVars (f+1) t ids ty) := by
  intro t ids ty; xsim_fn declareVars

theorem xstep_declareArrs (ih : AllXSim f) : ∀ t ids ty dims, XSim (declareArrs (f+1) t ids ty dims) := by
  intro t ids ty dims; xsim_fn declareArrs

theorem xstep_outputAll (ih : AllXSim f) : ∀ es, XSim (outputAll (f+1) es) := by
  intro es; xsim_fn outputAll

theorem xstep_fileName (ih : AllXSim f) : ∀ t e, XSim (fileName (f+1) t e) := by
  intro t e; xsim_fn fileName

set_option maxHeartbeats 2000000 in
theorem xstep_execStmt (ih : AllXSim f) : ∀ s, XSim (execStmt (f+1) s) := by
  intro s; xsim_fn execStmt

theorem AllXSim.succ (ih : AllXSim f) : AllXSim (f + 1) where
  defaultVal := xstep_defaultVal ih
  defaultCells := xstep_defaultCells ih
  evalArgs := xstep_evalArgs ih
  evalIndices := xstep_evalIndices ih
  resolveRef := xstep_resolveRef ih
  callFun := xstep_callFun ih
  bindParams := xstep_bindParams ih
  evalExpr := xstep_evalExpr ih
  execAssign := xstep_execAssign ih
  runBlock := xstep_runBlock ih
  ifChain := xstep_ifChain ih
  caseMatch := xstep_caseMatch ih
  caseClauses := xstep_caseClauses ih
  loopBody := xstep_loopBody ih
  whileLoop := xstep_whileLoop ih
  repeatLoop := xstep_repeatLoop ih
  forLoop := xstep_forLoop ih
  callProc := xstep_callProc ih
  resolveParams := xstep_resolveParams ih
  evalBounds := xstep_evalBounds ih
  declareVars := xstep_declareVars ih
  declareArrs := xstep_declareArrs ih
  outputAll := xstep_outputAll ih
  fileName := xstep_fileName ih
  execStmt := xstep_execStmt ih

end induction

/-- **the evaluator is insensitive to the pedantic flag, up to pedantic diagnostics**: all 25 functions, every fuel -/
theorem evalX_all : ∀ fuel, AllXSim fuel
  | 0 => AllXSim.zero
  | f + 1 => (evalX_all f).succ

end Pseudo
