import PseudoProofs.NoCrashSpec
/-!
# C01 step lemmas, part 3: `forLoop`, `bindParams`, `callProc`, `callFun`
-/
namespace Pseudo.NC
open Pseudo
variable {f : Nat}

theorem step_forLoop (ih : AllTri f) : ∀ t it stop step b, okBlock b = true →
    Tri (fun σ => IntLoc σ it) (forLoop (f+1) t it stop step b) QT := by
  intro t it stop step b hok σ hW hP
  have hE0 := Ext.refl σ
  rw [forLoop.eq_def]; dsimp only
  obtain ⟨v, hr, hs, hty⟩ := hP
  refine Run.ro hW hE0 (ro_readLoc hr) fun cur hcur => ?_
  subst hcur
  obtain ⟨i, rfl⟩ := ty_int _ hty
  dsimp only
  split
  · refine Run.bind hE0 (run_tick hW t) fun _ σ1 hW1 hE1 hE01 _ => ?_
    refine Run.bind hE01 (ih.loopBody b hok σ1 hW1 trivial) fun br σ2 hW2 hE2 hE02 _ => ?_
    split
    · exact Run.pure hW2 hE02 trivial
    · have hI2 : IntLoc σ2 it := IntLoc.ext hE02 ⟨_, hr, hs, hty⟩
      obtain ⟨v2, hr2, hs2, hty2⟩ := hI2
      refine Run.ro hW2 hE02 (ro_readLoc hr2) fun cur2 hcur2 => ?_
      subst hcur2
      obtain ⟨j, rfl⟩ := ty_int _ hty2
      dsimp only
      refine Run.bind hE02 (run_writeLoc hW2 t _ hr2 (SameKind.of_simple hs2 rfl rfl)) fun _ σ3 hW3 hE3 hE03 _ => ?_
      refine Run.of_tri hE03 (ih.forLoop t it stop step b hok σ3 hW3 (IntLoc.ext hE3 ⟨_, hr2, hs2, hty2⟩)) ?_
      exact fun _ _ _ _ _ => trivial
  · exact Run.pure hW hE0 trivial

theorem step_bindParams (ih : AllTri f) : ∀ t ps es vs acc, ParamsOK ps → AllSimple vs → es.length = ps.length →
    vs.length = ps.length →
    Tri (fun σ => SlotsOK σ acc) (bindParams (f+1) t ps es vs acc) (fun _ r σ' => SlotsOK σ' r ∧
      ∃ new, r = acc.reverse ++ new ∧
        ((∀ p ∈ ps, p.2.2 = false) → new.map (·.ty) = ps.map (·.2.1) ∧ ∀ s ∈ new, s.ref = none)) := by
  intro t ps es vs acc hps hvs hle hlv σ hW hP
  have hE0 := Ext.refl σ
  cases ps with
  | nil =>
    cases es with
    | cons _ _ => simp at hle
    | nil =>
    cases vs with
    | cons _ _ => simp at hlv
    | nil =>
      rw [bindParams.eq_def]; dsimp only
      refine Run.pure hW hE0 ⟨?_, [], by simp, fun _ => ⟨rfl, by simp⟩⟩
      intro s hs; exact hP s (List.mem_reverse.1 hs)
  | cons p ps' =>
    obtain ⟨pn, pty, byRef⟩ := p
    cases es with
    | nil => simp at hle
    | cons e es' =>
    cases vs with
    | nil => simp at hlv
    | cons v vs' =>
      have hps' : ParamsOK ps' := fun q hq => hps q (List.mem_cons_of_mem _ hq)
      have hvs' : AllSimple vs' := fun x hx => hvs x (List.mem_cons_of_mem _ hx)
      have hle' : es'.length = ps'.length := by simpa using hle
      have hlv' : vs'.length = ps'.length := by simpa using hlv
      rw [bindParams.eq_def]; dsimp only
      cases byRef with
      | false =>
        simp only [Bool.false_eq_true, if_false]
        split
        · exact Run.rtErr hW hE0 _ _
        · rename_i hty
          have hty' : (implicitCast pty v).ty = pty := by simpa using hty
          have hsv : simple (implicitCast pty v) = true :=
            simple_implicitCast pty v (hvs v List.mem_cons_self)
          have hP' : SlotsOK σ ({ name := pn, ty := pty, val := implicitCast pty v } :: acc) := by
            intro s hs
            rcases List.mem_cons.1 hs with rfl | hs
            · unfold SlotOK; exact ⟨hsv, hty'⟩
            · exact hP s hs
          refine Run.of_tri hE0 (ih.bindParams t ps' es' vs' _ hps' hvs' hle' hlv' σ hW hP') ?_
          rintro r σ' _ _ ⟨hso, new, rfl, hcond⟩
          refine ⟨hso, { name := pn, ty := pty, val := implicitCast pty v } :: new, by simp, fun hall => ?_⟩
          obtain ⟨hmap, href⟩ := hcond (fun q hq => hall q (List.mem_cons_of_mem _ hq))
          refine ⟨by simp [hmap], ?_⟩
          intro s hs
          rcases List.mem_cons.1 hs with rfl | hs
          · rfl
          · exact href s hs
      | true =>
        simp only [if_true]
        split
        · exact Run.rtErr hW hE0 _ _
        · split
          · rename_i at' r
            refine Run.bind hE0 (ih.resolveRef r σ hW trivial) fun h σ1 hW1 hE1 hE01 hh => ?_
            split
            · exact Run.rtErr hW1 hE01 _ _
            · rename_i harr
              split
              · exact Run.rtErr hW1 hE01 _ _
              refine Run.ro hW1 hE01 (ro_locIsConst h.loc) fun c _ => ?_
              obtain ⟨hv, hrd, hk⟩ := hh
              rw [if_neg harr] at hk
              have hP' : SlotsOK σ1 ({ name := pn, ty := h.ty, isConst := c, val := .none, ref := some h.loc } :: acc) := by
                intro s hs
                rcases List.mem_cons.1 hs with rfl | hs
                · unfold SlotOK; exact ⟨rfl, hv, hrd, hk.1, hk.2⟩
                · exact (hP s hs).ext hE1
              refine Run.of_tri hE01 (ih.bindParams t ps' es' vs' _ hps' hvs' hle' hlv' σ1 hW1 hP') ?_
              rintro r σ' _ _ ⟨hso, new, rfl, _⟩
              refine ⟨hso, { name := pn, ty := h.ty, isConst := c, val := .none, ref := some h.loc } :: new, by simp,
                fun hall => ?_⟩
              have := hall (pn, pty, true) List.mem_cons_self
              cases this
          · exact Run.rtErr hW hE0 _ _

theorem step_callProc (ih : AllTri f) : ∀ t name args, Tri PT (callProc (f+1) t name args) QT := by
  intro t name args σ hW _
  have hE0 := Ext.refl σ
  rw [callProc.eq_def]; dsimp only
  refine Run.get_bind ?_
  split
  · exact Run.rtErr hW hE0 _ _
  · rename_i pd hfind
    refine Run.bind hE0 (ih.evalArgs args [] (fun v hv => by cases hv) σ hW trivial) fun vals σ1 hW1 hE1 hE01 hv => ?_
    obtain ⟨hvals, hlen⟩ := hv
    split
    · exact Run.rtErr hW1 hE01 _ _
    · rename_i hl
      have hl' : vals.length = pd.params.length := by simpa using hl
      have hpd : ProcOK pd := hW.procs pd (List.mem_of_find?_eq_some hfind)
      refine Run.get_bind ?_
      refine Run.get_bind ?_
      have main : Run (do
          let caller ← curAct
          let slots ← bindParams f t pd.params args vals []
          modifyAct caller.id fun a => { a with switchTok := some (t.line, t.col) }
          modify fun s => { s with depth := s.depth + 1 }
          withAct (fun id => { id := id, name := pd.name, vars := slots }) do
            tryCatch (runBlock f pd.body) fun e =>
              match e with
              | .brk bt => rtErr bt .breakOutside
              | .cont ct => rtErr ct .breakOutside
              | e => throw e
          modify fun s => { s with depth := s.depth - 1 }
          modifyAct caller.id fun a => { a with switchTok := none }) σ1 (ResE σ (QT σ) ErrOK) := by
        refine Run.ro hW1 hE01 (ro_curAct hW1) fun caller _ => ?_
        refine Run.bind hE01 (ih.bindParams t pd.params args vals [] hpd.1 hvals (by simp at hlen; omega) hl' σ1 hW1
          (fun s hs => by cases hs)) fun slots σ2 hW2 hE2 hE02 hsl0 => ?_
        refine Run.bind hE02 (run_setSwitchTok hW2 caller.id _) fun _ σ3 hW3 hE3 hE03 _ => ?_
        have hsl := And.intro (hsl0.1.ext hE3) hsl0.2
        obtain ⟨hso, -⟩ := hsl
        refine Run.bind hE03 (run_modify_frame hW3 _ rfl rfl rfl rfl) fun _ σ4 hW4 hE4 hE04 _ => ?_
        refine Run.bind hE04 (Run.withAct (E := ErrOK) (Q := fun _ _ => True) (Qb := fun _ _ => True)
          hW4 (Ext.refl σ4) (fun i => rfl) ?_ ?_ ?_) fun _ σ5 hW5 hE5 hE05 _ => ?_
        · exact ⟨hso.ext hE4, fun s hs => (by cases hs), rfl, rfl, rfl, rfl, fun v h => (by cases h)⟩
        · intro hWp
          refine Run.tryCatch (Ext.refl _) (ih.runBlock pd.body hpd.2 _ hWp trivial) fun e σ' hW' hE' hE0' he => ?_
          cases e with
          | brk bt => exact Run.rtErr hW' hE0' _ _
          | cont ct => exact Run.rtErr hW' hE0' _ _
          | ret =>
            exfalso
            obtain ⟨a, rest, hacts, hfn⟩ := he.2 rfl
            have hids := hE'.ids
            rw [hacts] at hids
            simp [pushSt] at hids
            rw [hids.1.2] at hfn
            cases hfn
          | diag d => exact Run.throw hW' hE0' ⟨he, fun h => nomatch h⟩
          | outOfFuel => exact Run.throw hW' hE0' ⟨he, fun h => nomatch h⟩
          | crash p => exact Run.throw hW' hE0' ⟨he, fun h => nomatch h⟩
        · exact fun _ _ _ _ _ => trivial
        refine Run.bind hE05 (run_modify_frame hW5 _ rfl rfl rfl rfl) fun _ σ6 hW6 hE6 hE06 _ => ?_
        exact Run.of_tri hE06 (run_setSwitchTok hW6 caller.id none) fun _ _ _ _ _ => trivial
      split
      · exact Run.ro hW1 hE01 (ro_rtErr t _ (fun _ => False)) fun _ h => h.elim
      · exact main

theorem builtinTable_prim : ∀ e ∈ builtinTable, ∀ q ∈ e.2.1, q.2.isPrimitive = true := by decide

theorem builtinFuns_ok : ∀ fd ∈ builtinFuns, ParamsOK fd.params ∧ ∃ n ps rt, (n, ps, rt) ∈ builtinTable ∧
    fd.body = .builtin n.toList ∧ fd.params.map (·.2.1) = ps.map (·.2) ∧ ∀ p ∈ fd.params, p.2.2 = false := by
  intro fd hfd
  unfold builtinFuns at hfd
  obtain ⟨⟨n, ps, rt⟩, hmem, rfl⟩ := List.mem_map.1 hfd
  refine ⟨?_, n, ps, rt, hmem, rfl, ?_, ?_⟩
  · intro p hp
    obtain ⟨⟨pn, ty⟩, hq, rfl⟩ := List.mem_map.1 hp
    exact builtinTable_prim _ hmem _ hq
  · simp [List.map_map, Function.comp_def]
  · intro p hp
    obtain ⟨⟨pn, ty⟩, hq, rfl⟩ := List.mem_map.1 hp
    rfl

theorem slots_val_ty {acts : List Act} : ∀ ss : List Slot, (∀ s ∈ ss, SlotOK acts s) → (∀ s ∈ ss, s.ref = none) →
    (ss.map (·.val)).map Val.ty = ss.map (·.ty)
  | [], _, _ => rfl
  | s :: ss, h1, h2 => by
    have hs := h1 s List.mem_cons_self
    unfold SlotOK at hs
    rw [h2 s List.mem_cons_self] at hs
    simp only [List.map_cons, hs.2]
    rw [slots_val_ty ss (fun x hx => h1 x (List.mem_cons_of_mem _ hx)) (fun x hx => h2 x (List.mem_cons_of_mem _ hx))]

theorem ro_runBuiltin {σ : St} (n : String) (ps : List (String × Ty)) (rt : Ty) (hmem : (n, ps, rt) ∈ builtinTable)
    (args : List Val) (hty : args.map Val.ty = ps.map (·.2)) :
    RO (runBuiltin n.toList args) σ (fun v => simple v = true) := by
  obtain ⟨h1, h2⟩ := C01_builtin_total n ps rt hmem args hty σ
  refine ⟨h1, ?_⟩
  split <;> rename_i heq <;> rw [heq] at h2
  · exact h2
  · obtain ⟨d, rfl⟩ := h2; exact errNR_diag _ d

theorem step_callFun (ih : AllTri f) : ∀ t args, Tri PT (callFun (f+1) t args) (fun _ v _ => simple v = true) := by
  intro t args σ hW _
  have hE0 := Ext.refl σ
  rw [callFun.eq_def]; dsimp only
  refine Run.get_bind ?_
  split
  · exact Run.rtErr hW hE0 _ _
  · rename_i fd hfd
    have hshape : ParamsOK fd.params ∧
        ((∃ n ps rt, (n, ps, rt) ∈ builtinTable ∧ fd.body = .builtin n.toList ∧ fd.params.map (·.2.1) = ps.map (·.2) ∧
            ∀ p ∈ fd.params, p.2.2 = false) ∨
         (∃ b tok, fd.body = .user b tok ∧ okBlock b = true)) := by
      split at hfd
      · rename_i b hb
        cases hfd
        obtain ⟨h1, h2⟩ := builtinFuns_ok _ (List.mem_of_find?_eq_some hb)
        exact ⟨h1, Or.inl h2⟩
      · obtain ⟨h1, h2⟩ := hW.funs fd (List.mem_of_find?_eq_some hfd)
        exact ⟨h1, Or.inr h2⟩
    obtain ⟨hpok, hbody⟩ := hshape
    refine Run.bind hE0 (ih.evalArgs args [] (fun v hv => by cases hv) σ hW trivial) fun vals σ1 hW1 hE1 hE01 hv => ?_
    obtain ⟨hvals, hlen⟩ := hv
    split
    · exact Run.rtErr hW1 hE01 _ _
    · rename_i hl
      have hl' : vals.length = fd.params.length := by simpa using hl
      refine Run.get_bind ?_
      refine Run.get_bind ?_
      have main : Run (do
          let caller ← curAct
          let slots ← bindParams f t fd.params args vals []
          modifyAct caller.id fun a => { a with switchTok := some (t.line, t.col) }
          modify fun s => { s with depth := s.depth + 1 }
          let r ← withAct (fun id => { id := id, name := fd.name, isFn := true, retTy := fd.ret, vars := slots }) do
            match fd.body with
            | .builtin id =>
              let a ← curAct
              let argv := a.vars.map (·.val)
              let v ← runBuiltin id argv
              pure (some v)
            | .user body defTok =>
              tryCatch (runBlock f body) fun e =>
                match e with
                | .ret => pure ()
                | .brk bt => rtErr bt .breakOutside
                | .cont ct => rtErr ct .breakOutside
                | e => throw e
              let a ← curAct
              match a.retVal with
              | some v => pure (some v)
              | none => rtErr defTok .missingReturn
          modify fun s => { s with depth := s.depth - 1 }
          modifyAct caller.id fun a => { a with switchTok := none }
          match r with
          | some v => pure v
          | none => throw (.crash .other)) σ1 (ResE σ (fun v _ => simple v = true) ErrOK) := by
        refine Run.ro hW1 hE01 (ro_curAct hW1) fun caller _ => ?_
        refine Run.bind hE01 (ih.bindParams t fd.params args vals [] hpok hvals (by simp at hlen; omega) hl' σ1 hW1
          (fun s hs => by cases hs)) fun slots σ2 hW2 hE2 hE02 hsl0 => ?_
        refine Run.bind hE02 (run_setSwitchTok hW2 caller.id _) fun _ σ3 hW3 hE3 hE03 _ => ?_
        have hsl := And.intro (hsl0.1.ext hE3) hsl0.2
        obtain ⟨hso, new, hnew, hcond⟩ := hsl
        have hnew' : slots = new := by simpa using hnew
        subst hnew'
        refine Run.bind hE03 (run_modify_frame hW3 _ rfl rfl rfl rfl) fun _ σ4 hW4 hE4 hE04 _ => ?_
        have hso4 : SlotsOK σ4 slots := hso.ext hE4
        refine Run.bind hE04 (Run.withAct (E := ErrOK) (Q := fun r _ => ∃ v, r = some v ∧ simple v = true)
          (Qb := fun r _ => ∃ v, r = some v ∧ simple v = true)
          hW4 (Ext.refl σ4) (fun i => rfl) ?_ ?_ ?_) fun r σ5 hW5 hE5 hE05 hr => ?_
        · exact ⟨hso4, fun s hs => (by cases hs), rfl, rfl, rfl, rfl, fun v h => (by cases h)⟩
        · intro hWp
          rcases hbody with ⟨n, ps, rt, hmem, hb, hpm, hbv⟩ | ⟨b, tok, hb, hokb⟩
          · obtain ⟨hmap, href⟩ := hcond hbv
            rw [hb]; dsimp only
            refine Run.ro hWp (Ext.refl _) (ro_curAct hWp) fun a ⟨rest, ha⟩ => ?_
            have ha' : a = { id := σ4.nextId, name := fd.name, isFn := true, retTy := fd.ret, vars := slots } := by
              simp only [pushSt, List.cons.injEq] at ha
              exact ha.1.symm
            subst ha'
            dsimp only
            have hty : (slots.map (·.val)).map Val.ty = ps.map (·.2) := by
              rw [slots_val_ty slots hso4 href, hmap, hpm]
            refine Run.ro hWp (Ext.refl _) (ro_runBuiltin n ps rt hmem _ hty) fun v hv => ?_
            exact Run.pure hWp (Ext.refl _) ⟨v, rfl, hv⟩
          · rw [hb]; dsimp only
            refine Run.bind (Qa := fun _ _ => True) (Ext.refl _) ?_ fun _ σ' hW' hE' hE0' _ => ?_
            · refine Run.tryCatch (Ext.refl _) (ih.runBlock b hokb _ hWp trivial) fun e σ' hW' hE' hE0' he => ?_
              cases e with
              | ret => exact Run.pure hW' hE0' trivial
              | brk bt => exact Run.rtErr hW' hE0' _ _
              | cont ct => exact Run.rtErr hW' hE0' _ _
              | diag d => exact Run.throw hW' hE0' ⟨he, fun h => nomatch h⟩
              | outOfFuel => exact Run.throw hW' hE0' ⟨he, fun h => nomatch h⟩
              | crash p => exact Run.throw hW' hE0' ⟨he, fun h => nomatch h⟩
            · refine Run.ro hW' hE0' (ro_curAct hW') fun a ⟨rest, ha⟩ => ?_
              split
              · rename_i v heq
                exact Run.pure hW' hE0' ⟨v, rfl, (hW'.topOK ha).retVal v heq⟩
              · exact Run.rtErr hW' hE0' _ _
        · exact fun _ _ _ _ h => h
        refine Run.bind hE05 (run_modify_frame hW5 _ rfl rfl rfl rfl) fun _ σ6 hW6 hE6 hE06 _ => ?_
        refine Run.bind hE06 (run_setSwitchTok hW6 caller.id none) fun _ σ7 hW7 hE7 hE07 _ => ?_
        obtain ⟨v, hrv, hv⟩ := hr
        subst hrv
        exact Run.pure hW7 hE07 hv
      split
      · exact Run.ro hW1 hE01 (ro_rtErr t _ (fun _ => False)) fun _ h => h.elim
      · exact main

end Pseudo.NC
