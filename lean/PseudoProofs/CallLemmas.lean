import PseudoProofs.ArrayLemmas
import Properties.C04
import Properties.C04Core
/-!
# Helper lemmas for C04 at the level of the evaluator (`Properties/C04Exec.lean`)

* one-round unfolding equations of `evalArgs`, `bindParams`, `callProc`, `callFun`, `execStmt` on `CALL` / `RETURN`;
* `run_evalArgs_pure`, `evalArgs_length`;
* name lookup: `holderOf`, `run_resolveRef_var`, `pureAt_var`;
* the states a call goes through: `setSwitch`, `incDepth`, `calleeSt`, `clearSwitch`, `decDepth`, and how `readLocP` /
  `locConstP` travel through them (`readLocP_meta`, `readLocP_pushSt`, `readLocP_popSt`, `readLocP_dangling`);
* `run_bindParams_byval`, `run_bindParams_byref` (one step of the binding loop);
* the decomposition of a call: `run_callProc` (`procResult`), `run_callFun_user` (`funResult`);
* blocks of one statement: `run_runBlock_one`, `run_runBlock_one_err`;
* RETURN: `run_execStmt_ret`, `run_execStmt_ret_outside`;
* `RShape` / `shape_all`: the declared names of every activation below the innermost one are untouched by whatever
  the evaluator does, and a `withAct` bracket restores the names of all activations (instance of `eval_all`).
-/
namespace Pseudo

namespace CallLemmas

open ArrayLemmas C07Copy

/-! ## unfolding equations -/

theorem evalArgs_nil (f : Nat) (acc : List Val) : evalArgs (f+1) [] acc = pure acc.reverse := by
  rw [evalArgs.eq_def]

theorem evalArgs_cons (f : Nat) (e : Expr) (rest : List Expr) (acc : List Val) :
    evalArgs (f+1) (e :: rest) acc = (do
      let v ← evalExpr f e
      evalArgs f rest (v :: acc)) := by
  rw [evalArgs.eq_def]

theorem bindParams_cons (f : Nat) (t : Tok) (pn : Str) (pty : Ty) (byRef : Bool) (ps : List (Str × Ty × Bool))
    (e : Expr) (es : List Expr) (v : Val) (vs : List Val) (acc : List Slot) :
    bindParams (f+1) t ((pn, pty, byRef) :: ps) (e :: es) (v :: vs) acc = (do
      let v' := if byRef then v else implicitCast pty v
      if v'.ty != pty then rtErr t .invalidArgs
      else if byRef then
        match e with
        | .access _ r =>
          let h ← resolveRef f r
          if h.isArr then rtErr t .arrayDirect
          else if h.ty != pty then rtErr t .invalidArgs
          else
            let c ← locIsConst h.loc
            bindParams f t ps es vs ({ name := pn, ty := h.ty, isConst := c, val := .none, ref := some h.loc } :: acc)
        | _ => rtErr t .byrefArg
      else
        bindParams f t ps es vs ({ name := pn, ty := pty, val := v' } :: acc)) := by
  rw [bindParams.eq_def]; rfl

theorem bindParams_nil (f : Nat) (t : Tok) (es : List Expr) (vs : List Val) (acc : List Slot) :
    bindParams (f+1) t [] es vs acc = pure acc.reverse := by
  rw [bindParams.eq_def]

/-- the handler around a procedure / function body: a stray BREAK / CONTINUE becomes `breakOutside` -/
def procBody (f : Nat) (body : Block) : M Unit :=
  tryCatch (runBlock f body) fun e =>
    match e with
    | .brk bt => rtErr bt .breakOutside
    | .cont ct => rtErr ct .breakOutside
    | e => throw e

theorem callProc_succ (f : Nat) (t : Tok) (name : Str) (args : List Expr) :
    callProc (f+1) t name args = (do
      match (← get).procs.find? (·.name == name) with
      | none => rtErr t .notDefined
      | some pd =>
        let vals ← evalArgs f args []
        if vals.length != pd.params.length then rtErr t .invalidArgs
        else
          if (← get).depth + 1 > (← get).depthLimit then rtErr t .budget
          let caller ← curAct
          let slots ← bindParams f t pd.params args vals []
          modifyAct caller.id fun a => { a with switchTok := some (t.line, t.col) }
          modify fun s => { s with depth := s.depth + 1 }
          withAct (fun id => { id := id, name := pd.name, vars := slots }) (procBody f pd.body)
          modify fun s => { s with depth := s.depth - 1 }
          modifyAct caller.id fun a => { a with switchTok := none }) := by
  rw [callProc.eq_def]; rfl

/-- the definition a function name denotes: built-in functions first, then the user's -/
def funLookup (σ : St) (n : Str) : Option FunDef :=
  match builtinFuns.find? (·.name == n) with
  | some b => some b
  | none => σ.funs.find? (·.name == n)

/-- the handler around a function body: RETURN ends the body normally, a stray BREAK / CONTINUE becomes
    `breakOutside` -/
def funBlock (f : Nat) (body : Block) : M Unit :=
  tryCatch (runBlock f body) fun e =>
    match e with
    | .ret => pure ()
    | .brk bt => rtErr bt .breakOutside
    | .cont ct => rtErr ct .breakOutside
    | e => throw e

/-- what runs inside the activation of a function call -/
def funBody (f : Nat) (fd : FunDef) : M (Option Val) :=
  match fd.body with
  | .builtin id => do
    let a ← curAct
    let argv := a.vars.map (·.val)
    let v ← runBuiltin id argv
    pure (some v)
  | .user body defTok => do
    funBlock f body
    let a ← curAct
    match a.retVal with
    | some v => pure (some v)
    | none => rtErr defTok .missingReturn

theorem callFun_succ (f : Nat) (t : Tok) (args : List Expr) :
    callFun (f+1) t args = (do
      let st ← get
      match funLookup st t.val with
      | none => rtErr t .notDefined
      | some fd =>
        let vals ← evalArgs f args []
        if vals.length != fd.params.length then rtErr t .invalidArgs
        else
          if (← get).depth + 1 > (← get).depthLimit then rtErr t .budget
          let caller ← curAct
          let slots ← bindParams f t fd.params args vals []
          modifyAct caller.id fun a => { a with switchTok := some (t.line, t.col) }
          modify fun s => { s with depth := s.depth + 1 }
          let r ← withAct (fun id => { id := id, name := fd.name, isFn := true, retTy := fd.ret, vars := slots }) (funBody f fd)
          modify fun s => { s with depth := s.depth - 1 }
          modifyAct caller.id fun a => { a with switchTok := none }
          match r with
          | some v => pure v
          | none => throw (.crash .other)) := by
  rw [callFun.eq_def]; rfl

theorem evalExpr_call (f : Nat) (t : Tok) (args : List Expr) : evalExpr (f+1) (.call t args) = callFun f t args := by
  rw [evalExpr.eq_def]

theorem execStmt_call (f : Nat) (t : Tok) (name : Str) (args : List Expr) :
    execStmt (f+1) (.call t name args) = (do tick t; callProc f t name args; pure .none) := by
  rw [execStmt.eq_def]

theorem execStmt_ret (f : Nat) (t : Tok) (e : Expr) :
    execStmt (f+1) (.ret t e) = (do
      tick t
      let a ← curAct
      if !a.isFn then rtErr t .returnOutside
      else
        let v ← evalExpr f e
        let v' := implicitCast a.retTy v
        modifyAct a.id fun a => { a with retVal := some v' }
        if v'.ty != a.retTy then rtErr t .typeMismatch
        else throw .ret) := by
  rw [execStmt.eq_def]

theorem execStmt_declare (f : Nat) (t : Tok) (ids : List Tok) (ty : Tok) :
    execStmt (f+1) (.declare t ids ty) = (do tick t; declareVars f t ids ty; pure .none) := by
  rw [execStmt.eq_def]

/-! ## argument evaluation -/

theorem run_evalArgs_pure (σ : St) (f₀ : Nat) : ∀ (es : List Expr) (vs : List Val) (acc : List Val) (f : Nat),
    PureAll σ f₀ es vs → f₀ + es.length + 1 ≤ f →
    (evalArgs f es acc).run.run σ = (.ok (acc.reverse ++ vs), σ) := by
  intro es
  induction es with
  | nil =>
    intro vs acc f hp hf
    obtain ⟨f', rfl⟩ : ∃ f', f = f' + 1 := ⟨f - 1, by omega⟩
    cases vs with
    | nil => rw [evalArgs_nil, List.append_nil]; rfl
    | cons _ _ => cases hp
  | cons e es ih =>
    intro vs acc f hp hf
    obtain ⟨f', rfl⟩ : ∃ f', f = f' + 1 := ⟨f - 1, by omega⟩
    simp only [List.length_cons] at hf
    cases vs with
    | nil => cases hp
    | cons v vs =>
      obtain ⟨hv, hrest⟩ := hp
      rw [evalArgs_cons, run_bind_ok _ _ _ _ _ (hv f' (by omega)), ih vs (v :: acc) f' hrest (by omega)]
      simp only [List.reverse_cons, List.append_assoc, List.singleton_append]

/-- `evalArgs` yields one value per argument expression -/
theorem evalArgs_length : ∀ (es : List Expr) (f : Nat) (acc vals : List Val) (σ σ' : St),
    (evalArgs f es acc).run.run σ = (.ok vals, σ') → vals.length = acc.length + es.length := by
  intro es
  induction es with
  | nil =>
    intro f acc vals σ σ' h
    cases f with
    | zero => rw [evalArgs.eq_def] at h; cases h
    | succ f =>
      rw [evalArgs_nil] at h
      have h2 : ((.ok acc.reverse, σ) : Except Stop (List Val) × St) = (.ok vals, σ') := h
      injection h2 with h2 _
      injection h2 with h2
      subst h2
      simp
  | cons e es ih =>
    intro f acc vals σ σ' h
    cases f with
    | zero => rw [evalArgs.eq_def] at h; cases h
    | succ f =>
      rw [evalArgs_cons, run_bind] at h
      rcases he : (evalExpr f e).run.run σ with ⟨x | v, σ1⟩
      · rw [he] at h; cases h
      · rw [he] at h
        have := ih f (v :: acc) vals σ1 σ' h
        simp only [List.length_cons] at this ⊢
        omega

/-! ## name lookup -/

/-- the holder a variable slot `s` of activation `a` resolves to: the caller's location for a BYREF formal,
    the slot's own cell otherwise -/
def holderOf (a : Act) (s : Slot) : Holder :=
  match s.ref with
  | some l => { loc := l, isArr := false, ty := s.ty, name := l.name }
  | none => { loc := { act := a.id, isArr := false, name := s.name, path := [] }, isArr := false, ty := s.ty, name := s.name }

theorem holderOf_isArr (a : Act) (s : Slot) : (holderOf a s).isArr = false := by
  unfold holderOf; cases s.ref <;> rfl

theorem holderOf_ty (a : Act) (s : Slot) : (holderOf a s).ty = s.ty := by
  unfold holderOf; cases s.ref <;> rfl

/-- a name that denotes a variable resolves to its holder; the state is unchanged -/
theorem run_resolveRef_var (σ : St) (cur g : Act) (rest : List Act) (t : Tok) (f : Nat) (a : Act) (s : Slot)
    (h : σ.acts = cur :: rest) (hg : σ.acts.getLast? = some g) (hl : lookupVarIn cur g t.val = some (a, s)) :
    (resolveRef (f+1) (.var t)).run.run σ = (.ok (holderOf a s), σ) := by
  rw [resolveRef_var, run_bind_ok _ _ _ _ _ (run_lookupVar σ cur g rest t.val h hg), hl]
  dsimp only
  unfold holderOf
  cases s.ref <;> rfl

/-- a name that denotes nothing: `notDefined` -/
theorem run_resolveRef_undefined (σ : St) (cur g : Act) (rest : List Act) (t : Tok) (f : Nat)
    (h : σ.acts = cur :: rest) (hg : σ.acts.getLast? = some g) (hl : lookupVarIn cur g t.val = none)
    (hla : lookupArrIn cur g t.val = none) :
    (resolveRef (f+1) (.var t)).run.run σ = (.error (.diag (rtDiag σ t.line t.col .notDefined)), σ) := by
  rw [resolveRef_var, run_bind_ok _ _ _ _ _ (run_lookupVar σ cur g rest t.val h hg), hl]
  simp only
  rw [run_bind_ok _ _ _ _ _ (run_lookupArr σ cur g rest t.val h hg), hla]
  exact run_rtErr t .notDefined σ

/-- a variable that reads `v` is a pure expression -/
theorem pureAt_var (σ : St) (cur g : Act) (rest : List Act) (xt x : Tok) (a : Act) (s : Slot) (v : Val)
    (h : σ.acts = cur :: rest) (hg : σ.acts.getLast? = some g) (hl : lookupVarIn cur g x.val = some (a, s))
    (hv : readLocP σ (holderOf a s).loc = .ok v) : PureAt σ 2 (.access xt (.var x)) v := by
  intro f hf
  obtain ⟨f', rfl⟩ : ∃ f', f = f' + 2 := ⟨f - 2, by omega⟩
  rw [run_evalExpr_access_resolved σ xt (.var x) (holderOf a s) (f'+1)
    (run_resolveRef_var σ cur g rest x f' a s h hg hl) (holderOf_isArr a s), hv]

/-! ## the states a call goes through -/

/-- the caller notes the position of the call (for the stack trace of a diagnostic raised in the callee) -/
def setSwitch (σ : St) (id : Nat) (t : Tok) : St := updSt σ id fun a => { a with switchTok := some (t.line, t.col) }
def clearSwitch (σ : St) (id : Nat) : St := updSt σ id fun a => { a with switchTok := none }
def incDepth (σ : St) : St := { σ with depth := σ.depth + 1 }
def decDepth (σ : St) : St := { σ with depth := σ.depth - 1 }

/-- the activation of a procedure call -/
def procAct (pd : ProcDef) (slots : List Slot) : Nat → Act := fun id => { id := id, name := pd.name, vars := slots }
/-- the activation of a function call -/
def funAct (fd : FunDef) (slots : List Slot) : Nat → Act :=
  fun id => { id := id, name := fd.name, isFn := true, retTy := fd.ret, vars := slots }

/-- the state in which the body of the callee starts: one level deeper, the new activation on top -/
def calleeSt (mk : Nat → Act) (σ : St) : St := pushSt mk (incDepth σ)

/-- reading depends on the activation list only -/
theorem readLocP_congr (σ σ' : St) (l : Loc) (h : σ'.acts = σ.acts) : readLocP σ' l = readLocP σ l := by
  unfold readLocP; rw [h]

theorem locConstP_congr (σ σ' : St) (l : Loc) (h : σ'.acts = σ.acts) : locConstP σ' l = locConstP σ l := by
  unfold locConstP; rw [h]

theorem find_updActs_meta (id k : Nat) (F : Act → Act) (hF : ∀ a, (F a).id = a.id) :
    ∀ acts : List Act, (updActs acts id F).find? (·.id == k) =
      (acts.find? (·.id == k)).map (fun a => if k = id then F a else a) := by
  intro acts
  by_cases hk : k = id
  · subst hk
    simp only [if_true]
    exact find_updActs k F hF acts
  · simp only [hk, if_false]
    rw [find_updActs_ne id k F hk hF acts]
    cases acts.find? (·.id == k) <;> rfl

/-- an update that keeps id, variables and arrays of the activation (`switchTok`, `retVal`, type tables) changes no
    stored value -/
theorem readLocP_meta (σ : St) (id : Nat) (F : Act → Act) (l : Loc)
    (hF : ∀ a, (F a).id = a.id ∧ (F a).vars = a.vars ∧ (F a).arrs = a.arrs) :
    readLocP (updSt σ id F) l = readLocP σ l := by
  unfold readLocP
  simp only [updSt]
  rw [find_updActs_meta id l.act F (fun a => (hF a).1)]
  cases σ.acts.find? (·.id == l.act) with
  | none => rfl
  | some a =>
    simp only [Option.map_some]
    by_cases hk : l.act = id
    · have : slotOf (F a) l = slotOf a l := by unfold slotOf; rw [(hF a).2.1, (hF a).2.2]
      simp only [hk, if_true, this]
    · simp only [hk, if_false]

theorem locConstP_meta (σ : St) (id : Nat) (F : Act → Act) (l : Loc)
    (hF : ∀ a, (F a).id = a.id ∧ (F a).vars = a.vars ∧ (F a).arrs = a.arrs) :
    locConstP (updSt σ id F) l = locConstP σ l := by
  unfold locConstP
  simp only [updSt]
  rw [find_updActs_meta id l.act F (fun a => (hF a).1)]
  cases σ.acts.find? (·.id == l.act) with
  | none => rfl
  | some a =>
    simp only [Option.map_some]
    by_cases hk : l.act = id
    · have : slotOf (F a) l = slotOf a l := by unfold slotOf; rw [(hF a).2.1, (hF a).2.2]
      simp only [hk, if_true, this]
    · simp only [hk, if_false]

theorem readLocP_setSwitch (σ : St) (id : Nat) (t : Tok) (l : Loc) : readLocP (setSwitch σ id t) l = readLocP σ l :=
  readLocP_meta σ id _ l fun _ => ⟨rfl, rfl, rfl⟩
theorem readLocP_clearSwitch (σ : St) (id : Nat) (l : Loc) : readLocP (clearSwitch σ id) l = readLocP σ l :=
  readLocP_meta σ id _ l fun _ => ⟨rfl, rfl, rfl⟩
theorem locConstP_setSwitch (σ : St) (id : Nat) (t : Tok) (l : Loc) : locConstP (setSwitch σ id t) l = locConstP σ l :=
  locConstP_meta σ id _ l fun _ => ⟨rfl, rfl, rfl⟩

/-- a new activation on top does not disturb the locations of the others -/
theorem readLocP_pushSt (σ : St) (mk : Nat → Act) (l : Loc) (hmk : (mk σ.nextId).id = σ.nextId) (hl : l.act ≠ σ.nextId) :
    readLocP (pushSt mk σ) l = readLocP σ l := by
  unfold readLocP pushSt
  have : ((mk σ.nextId).id == l.act) = false := by
    rw [hmk]
    cases h : σ.nextId == l.act with
    | false => rfl
    | true => exact absurd (by simpa using h : σ.nextId = l.act).symm hl
  simp only [List.find?_cons, this]

theorem locConstP_pushSt (σ : St) (mk : Nat → Act) (l : Loc) (hmk : (mk σ.nextId).id = σ.nextId) (hl : l.act ≠ σ.nextId) :
    locConstP (pushSt mk σ) l = locConstP σ l := by
  unfold locConstP pushSt
  have : ((mk σ.nextId).id == l.act) = false := by
    rw [hmk]
    cases h : σ.nextId == l.act with
    | false => rfl
    | true => exact absurd (by simpa using h : σ.nextId = l.act).symm hl
  simp only [List.find?_cons, this]

/-- removing the innermost activation does not disturb the locations of the others -/
theorem readLocP_popSt (σ : St) (a : Act) (rest : List Act) (l : Loc) (h : σ.acts = a :: rest) (hl : l.act ≠ a.id) :
    readLocP (popSt σ) l = readLocP σ l := by
  unfold readLocP popSt
  have : (a.id == l.act) = false := by
    cases h' : a.id == l.act with
    | false => rfl
    | true => exact absurd (by simpa using h' : a.id = l.act).symm hl
  simp only [h, List.drop_one, List.tail_cons, List.find?_cons, this]

/-- a location whose activation is not live cannot be read -/
theorem readLocP_dangling (σ : St) (l : Loc) (h : l.act ∉ C04.ids σ) : readLocP σ l = .error (.crash .danglingLoc) := by
  unfold readLocP
  cases hf : σ.acts.find? (·.id == l.act) with
  | none => rfl
  | some a =>
    exfalso
    apply h
    have h1 := List.find?_some hf
    have h2 := List.mem_of_find?_eq_some hf
    have : a.id = l.act := by simpa using h1
    unfold C04.ids
    rw [← this]
    exact List.mem_map_of_mem h2

/-- a readable location lies in a live activation -/
theorem act_mem_ids_of_read (σ : St) (l : Loc) (v : Val) (h : readLocP σ l = .ok v) : l.act ∈ C04.ids σ := by
  apply Classical.byContradiction
  intro hn
  rw [readLocP_dangling σ l hn] at h
  cases h

/-! ## one step of the binding loop -/

/-- the slot of a BYVAL parameter: a cell of its own, holding the (implicitly cast) copy of the argument value -/
def byvalSlot (pn : Str) (pty : Ty) (v : Val) : Slot := { name := pn, ty := pty, val := implicitCast pty v }

/-- the slot of a BYREF parameter: no value of its own, an alias of the location of the argument -/
def byrefSlot (pn : Str) (h : Holder) (c : Bool) : Slot :=
  { name := pn, ty := h.ty, isConst := c, val := .none, ref := some h.loc }

/-- BYVAL: the argument value is cast to the parameter type; on a mismatch `invalidArgs`, otherwise a new cell -/
theorem run_bindParams_byval (f : Nat) (t : Tok) (pn : Str) (pty : Ty) (ps : List (Str × Ty × Bool))
    (e : Expr) (es : List Expr) (v : Val) (vs : List Val) (acc : List Slot) (σ : St) :
    (bindParams (f+1) t ((pn, pty, false) :: ps) (e :: es) (v :: vs) acc).run.run σ =
      if (implicitCast pty v).ty = pty then (bindParams f t ps es vs (byvalSlot pn pty v :: acc)).run.run σ
      else (.error (.diag (rtDiag σ t.line t.col .invalidArgs)), σ) := by
  rw [bindParams_cons]
  by_cases h : (implicitCast pty v).ty = pty
  · have h' : ((implicitCast pty v).ty != pty) = false := by simp [h]
    simp only [Bool.false_eq_true, if_false, h']
    rw [if_pos h]
    rfl
  · have h' : ((implicitCast pty v).ty != pty) = true := by simpa using h
    simp only [Bool.false_eq_true, if_false, h', if_true]
    rw [if_neg h]
    exact run_rtErr t .invalidArgs σ

/-- BYREF, type of the argument value differs from the parameter type (no implicit cast): `invalidArgs` -/
theorem run_bindParams_byref_type (f : Nat) (t : Tok) (pn : Str) (pty : Ty) (ps : List (Str × Ty × Bool))
    (e : Expr) (es : List Expr) (v : Val) (vs : List Val) (acc : List Slot) (σ : St) (hty : v.ty ≠ pty) :
    (bindParams (f+1) t ((pn, pty, true) :: ps) (e :: es) (v :: vs) acc).run.run σ =
      (.error (.diag (rtDiag σ t.line t.col .invalidArgs)), σ) := by
  rw [bindParams_cons]
  have h' : (v.ty != pty) = true := by simpa using hty
  simp only [if_true, h']
  exact run_rtErr t .invalidArgs σ

/-- BYREF, the argument expression is not a reference: `byrefArg` -/
theorem run_bindParams_byref_nonref (f : Nat) (t : Tok) (pn : Str) (pty : Ty) (ps : List (Str × Ty × Bool))
    (e : Expr) (es : List Expr) (v : Val) (vs : List Val) (acc : List Slot) (σ : St) (hty : v.ty = pty)
    (he : ∀ at' r, e ≠ .access at' r) :
    (bindParams (f+1) t ((pn, pty, true) :: ps) (e :: es) (v :: vs) acc).run.run σ =
      (.error (.diag (rtDiag σ t.line t.col .byrefArg)), σ) := by
  rw [bindParams_cons]
  have h' : (v.ty != pty) = false := by simp [hty]
  simp only [if_true, h', Bool.false_eq_true, if_false]
  cases e with
  | access at' r => exact absurd rfl (he at' r)
  | _ => exact run_rtErr t .byrefArg σ

/-- BYREF, the argument is a reference: it is resolved (in the caller) — a second evaluation after the one that
    produced the argument value `v` —; the variable that is actually bound must be of the parameter's type as well
    (an index expression with a side effect may have selected another variable the second time): otherwise
    `invalidArgs` -/
theorem run_bindParams_byref (f : Nat) (t : Tok) (pn : Str) (pty : Ty) (ps : List (Str × Ty × Bool))
    (at' : Tok) (r : Ref) (es : List Expr) (v : Val) (vs : List Val) (acc : List Slot) (σ σ' : St) (h : Holder)
    (hty : v.ty = pty) (hr : (resolveRef f r).run.run σ = (.ok h, σ')) :
    (bindParams (f+1) t ((pn, pty, true) :: ps) (.access at' r :: es) (v :: vs) acc).run.run σ =
      if h.isArr then (.error (.diag (rtDiag σ' t.line t.col .arrayDirect)), σ')
      else if h.ty = pty then (bindParams f t ps es vs (byrefSlot pn h (locConstP σ' h.loc) :: acc)).run.run σ'
      else (.error (.diag (rtDiag σ' t.line t.col .invalidArgs)), σ') := by
  rw [bindParams_cons]
  have h' : (v.ty != pty) = false := by simp [hty]
  simp only [if_true, h', Bool.false_eq_true, if_false]
  rw [run_bind_ok _ _ _ _ _ hr]
  cases hi : h.isArr with
  | true => simp only [if_true]; exact run_rtErr t .arrayDirect σ'
  | false =>
    simp only [Bool.false_eq_true, if_false]
    by_cases hh : h.ty = pty
    · have hh' : (h.ty != pty) = false := by simp [hh]
      simp only [hh', Bool.false_eq_true, if_false]
      rw [if_pos hh, run_bind_ok _ _ _ _ _ (run_locIsConst h.loc σ')]
      rfl
    · have hh' : (h.ty != pty) = true := by simpa using hh
      simp only [hh', if_true]
      rw [if_neg hh]
      exact run_rtErr t .invalidArgs σ'

/-- BYREF, the reference does not resolve: its diagnostic -/
theorem run_bindParams_byref_err (f : Nat) (t : Tok) (pn : Str) (pty : Ty) (ps : List (Str × Ty × Bool))
    (at' : Tok) (r : Ref) (es : List Expr) (v : Val) (vs : List Val) (acc : List Slot) (σ σ' : St) (x : Stop)
    (hty : v.ty = pty) (hr : (resolveRef f r).run.run σ = (.error x, σ')) :
    (bindParams (f+1) t ((pn, pty, true) :: ps) (.access at' r :: es) (v :: vs) acc).run.run σ = (.error x, σ') := by
  rw [bindParams_cons]
  have h' : (v.ty != pty) = false := by simp [hty]
  simp only [if_true, h', Bool.false_eq_true, if_false]
  exact run_bind_err _ _ _ _ _ hr

theorem run_bindParams_done (f : Nat) (t : Tok) (es : List Expr) (vs : List Val) (acc : List Slot) (σ : St) :
    (bindParams (f+1) t [] es vs acc).run.run σ = (.ok acc.reverse, σ) := by
  rw [bindParams_nil]; rfl

/-! ## the decomposition of a call -/

/-- a signal that reaches the handler of a procedure / function body in state `σ` -/
def sigToErr (σ : St) : Stop → Stop
  | .brk bt => .diag (rtDiag σ bt.line bt.col .breakOutside)
  | .cont ct => .diag (rtDiag σ ct.line ct.col .breakOutside)
  | e => e

theorem run_procBody (f : Nat) (body : Block) (σ : St) :
    (procBody f body).run.run σ =
      match (runBlock f body).run.run σ with
      | (.ok u, σ') => (.ok u, σ')
      | (.error e, σ') => (.error (sigToErr σ' e), σ') := by
  unfold procBody
  rw [run_tryCatch]
  rcases (runBlock f body).run.run σ with ⟨e | u, σ'⟩
  · cases e <;> first | rfl | exact run_rtErr _ _ σ'
  · rfl

/-- the outcome of a procedure call from the outcome of its body (run in the callee's state): the new activation
    is removed; after a normal end the depth counter and the caller's call-position note are reset -/
def procResult (callerId : Nat) : Except Stop Unit × St → Except Stop Unit × St
  | (.ok _, σ4) => (.ok ⟨⟩, clearSwitch (decDepth (popSt σ4)) callerId)
  | (.error e, σ4) => (.error (sigToErr σ4 e), popSt σ4)

/-- **decomposition of a procedure call**: arguments (in the caller), arity check, depth check, binding (in the
    caller), the caller notes the call position, then the body in the new activation -/
theorem run_callProc (f : Nat) (t : Tok) (name : Str) (args : List Expr) (σ σ1 σ2 : St) (pd : ProcDef)
    (vals : List Val) (cur : Act) (rest : List Act) (slots : List Slot)
    (hpd : σ.procs.find? (·.name == name) = some pd)
    (hargs : (evalArgs f args []).run.run σ = (.ok vals, σ1))
    (hlen : vals.length = pd.params.length)
    (hdepth : σ1.depth + 1 ≤ σ1.depthLimit)
    (hcur : σ1.acts = cur :: rest)
    (hbind : (bindParams f t pd.params args vals []).run.run σ1 = (.ok slots, σ2)) :
    (callProc (f+1) t name args).run.run σ =
      procResult cur.id ((runBlock f pd.body).run.run (calleeSt (procAct pd slots) (setSwitch σ2 cur.id t))) := by
  rw [callProc_succ, run_bind_ok _ _ _ _ _ (run_get σ), hpd]
  dsimp only
  rw [run_bind_ok _ _ _ _ _ hargs]
  have hl : (vals.length != pd.params.length) = false := by simp [hlen]
  simp only [hl, Bool.false_eq_true, if_false]
  rw [run_bind_ok _ _ _ _ _ (run_get σ1), run_bind_ok _ _ _ _ _ (run_get σ1)]
  have hd : ¬ (σ1.depth + 1 > σ1.depthLimit) := by omega
  simp only [hd, if_false]
  rw [run_bind_ok _ _ _ _ _ (run_curAct_cons σ1 cur rest hcur), run_bind_ok _ _ _ _ _ hbind,
    run_bind_ok _ _ _ _ _ (run_modifyAct _ _ σ2), run_bind_ok _ _ _ _ _ (run_modify _ _)]
  rw [run_bind, run_withAct, run_procBody]
  show _ = procResult cur.id ((runBlock f pd.body).run.run (pushSt (procAct pd slots) (incDepth (setSwitch σ2 cur.id t))))
  have hst : pushSt (fun id => ({ id := id, name := pd.name, vars := slots } : Act))
      { (updSt σ2 cur.id fun a => { a with switchTok := some (t.line, t.col) }) with
        depth := (updSt σ2 cur.id fun a => { a with switchTok := some (t.line, t.col) }).depth + 1 } =
      pushSt (procAct pd slots) (incDepth (setSwitch σ2 cur.id t)) := rfl
  rw [hst]
  rcases (runBlock f pd.body).run.run (pushSt (procAct pd slots) (incDepth (setSwitch σ2 cur.id t))) with ⟨e | u, σ4⟩
  · rfl
  · simp only [procResult]
    rw [run_bind_ok _ _ _ _ _ (run_modify _ _)]
    rfl

/-- the outcome of a user function call from the outcome of its body -/
def funResult (callerId : Nat) (defTok : Tok) : Except Stop Unit × St → Except Stop Val × St
  | (.ok _, σ4) | (.error .ret, σ4) =>
    match σ4.acts with
    | a :: _ =>
      match a.retVal with
      | some v => (.ok v, clearSwitch (decDepth (popSt σ4)) callerId)
      | none => (.error (.diag (rtDiag σ4 defTok.line defTok.col .missingReturn)), popSt σ4)
    | [] => (.error (.crash .noActivation), popSt σ4)
  | (.error e, σ4) => (.error (sigToErr σ4 e), popSt σ4)

theorem run_funBlock (f : Nat) (body : Block) (σ : St) :
    (funBlock f body).run.run σ =
      match (runBlock f body).run.run σ with
      | (.ok u, σ') => (.ok u, σ')
      | (.error .ret, σ') => (.ok ⟨⟩, σ')
      | (.error e, σ') => (.error (sigToErr σ' e), σ') := by
  unfold funBlock
  rw [run_tryCatch]
  rcases (runBlock f body).run.run σ with ⟨e | u, σ'⟩
  · cases e <;> first | rfl | exact run_rtErr _ _ σ'
  · rfl

/-- the outcome of the body of a user function (inside its activation) -/
def funBodyOut (defTok : Tok) : Except Stop Unit × St → Except Stop (Option Val) × St
  | (.ok _, σ4) | (.error .ret, σ4) =>
    match σ4.acts with
    | a :: _ =>
      match a.retVal with
      | some v => (.ok (some v), σ4)
      | none => (.error (.diag (rtDiag σ4 defTok.line defTok.col .missingReturn)), σ4)
    | [] => (.error (.crash .noActivation), σ4)
  | (.error e, σ4) => (.error (sigToErr σ4 e), σ4)

theorem run_retCheck (defTok : Tok) (σ4 : St) :
    (do let a ← curAct
        match a.retVal with
        | some v => pure (some v)
        | none => rtErr defTok .missingReturn : M (Option Val)).run.run σ4 = funBodyOut defTok (.ok ⟨⟩, σ4) := by
  simp only [funBodyOut]
  cases hacts : σ4.acts with
  | nil =>
    have : curAct.run.run σ4 = (.error (.crash .noActivation), σ4) := by
      unfold curAct; rw [run_bind_ok _ _ _ _ _ (run_get σ4), hacts]; rfl
    rw [run_bind_err _ _ _ _ _ this]
  | cons a r4 =>
    rw [run_bind_ok _ _ _ _ _ (run_curAct_cons σ4 a r4 hacts)]
    cases hrv : a.retVal with
    | none => simp only [hrv]; exact run_rtErr _ _ σ4
    | some v => simp only [hrv]; rfl

theorem run_funBody_user (f : Nat) (fd : FunDef) (body : Block) (defTok : Tok) (σ : St) (hbody : fd.body = .user body defTok) :
    (funBody f fd).run.run σ = funBodyOut defTok ((runBlock f body).run.run σ) := by
  unfold funBody
  rw [hbody]
  dsimp only
  rw [run_bind, run_funBlock]
  rcases (runBlock f body).run.run σ with ⟨e | u, σ4⟩
  · cases e with
    | ret => exact run_retCheck defTok σ4
    | _ => rfl
  · exact run_retCheck defTok σ4

/-- **decomposition of a call of a user-defined function** -/
theorem run_callFun_user (f : Nat) (t : Tok) (args : List Expr) (σ σ1 σ2 : St) (fd : FunDef) (body : Block) (defTok : Tok)
    (vals : List Val) (cur : Act) (rest : List Act) (slots : List Slot)
    (hfd : funLookup σ t.val = some fd) (hbody : fd.body = .user body defTok)
    (hargs : (evalArgs f args []).run.run σ = (.ok vals, σ1))
    (hlen : vals.length = fd.params.length)
    (hdepth : σ1.depth + 1 ≤ σ1.depthLimit)
    (hcur : σ1.acts = cur :: rest)
    (hbind : (bindParams f t fd.params args vals []).run.run σ1 = (.ok slots, σ2)) :
    (callFun (f+1) t args).run.run σ =
      funResult cur.id defTok ((runBlock f body).run.run (calleeSt (funAct fd slots) (setSwitch σ2 cur.id t))) := by
  rw [callFun_succ, run_bind_ok _ _ _ _ _ (run_get σ), hfd]
  dsimp only
  rw [run_bind_ok _ _ _ _ _ hargs]
  have hl : (vals.length != fd.params.length) = false := by simp [hlen]
  simp only [hl, Bool.false_eq_true, if_false]
  rw [run_bind_ok _ _ _ _ _ (run_get σ1), run_bind_ok _ _ _ _ _ (run_get σ1)]
  have hd : ¬ (σ1.depth + 1 > σ1.depthLimit) := by omega
  simp only [hd, if_false]
  rw [run_bind_ok _ _ _ _ _ (run_curAct_cons σ1 cur rest hcur), run_bind_ok _ _ _ _ _ hbind,
    run_bind_ok _ _ _ _ _ (run_modifyAct _ _ σ2), run_bind_ok _ _ _ _ _ (run_modify _ _)]
  rw [run_bind, run_withAct]
  have hst : pushSt (fun id => ({ id := id, name := fd.name, isFn := true, retTy := fd.ret, vars := slots } : Act))
      { (updSt σ2 cur.id fun a => { a with switchTok := some (t.line, t.col) }) with
        depth := (updSt σ2 cur.id fun a => { a with switchTok := some (t.line, t.col) }).depth + 1 } =
      calleeSt (funAct fd slots) (setSwitch σ2 cur.id t) := rfl
  rw [hst, run_funBody_user f fd body defTok _ hbody]
  rcases (runBlock f body).run.run (calleeSt (funAct fd slots) (setSwitch σ2 cur.id t)) with ⟨e | u, σ4⟩
  · cases e with
    | ret =>
      simp only [funResult, funBodyOut]
      cases hacts : σ4.acts with
      | nil => rfl
      | cons a r4 =>
        cases hrv : a.retVal with
        | none => simp only [hrv]
        | some v =>
          simp only [hrv]
          rw [run_bind_ok _ _ _ _ _ (run_modify _ _), run_bind_ok _ _ _ _ _ (run_modifyAct _ _ _)]
          rfl
    | _ => rfl
  · simp only [funResult, funBodyOut]
    cases hacts : σ4.acts with
    | nil => rfl
    | cons a r4 =>
      cases hrv : a.retVal with
      | none => simp only [hrv]
      | some v =>
        simp only [hrv]
        rw [run_bind_ok _ _ _ _ _ (run_modify _ _), run_bind_ok _ _ _ _ _ (run_modifyAct _ _ _)]
        rfl

/-! ## blocks -/

theorem run_replEcho_none (σ : St) : (replEcho .none).run.run σ = (.ok ⟨⟩, σ) := by
  unfold replEcho; rfl

/-- a statement that ends normally with the value NONE (every statement proper; or any value outside the REPL):
    the block goes on with the rest -/
theorem run_runBlock_cons_ok (f : Nat) (s : Stmt) (rest : Block) (v : Val) (σ σ' : St)
    (h : (execStmt f s).run.run σ = (.ok v, σ')) (hv : v = .none ∨ σ'.repl = false) :
    (runBlock (f+1) (s :: rest)).run.run σ = (runBlock f rest).run.run σ' := by
  rw [runBlock_cons, run_bind_ok _ _ _ _ _ h, run_bind_ok _ _ _ _ _ (run_get σ')]
  cases hr : σ'.repl with
  | false => simp only [Bool.false_eq_true, if_false]; try rw [run_bind_ok _ _ _ _ _ (run_pure _ σ')]
  | true =>
    rcases hv with rfl | hv
    · simp only [if_true]; rw [run_bind_ok _ _ _ _ _ (run_replEcho_none σ')]
    · rw [hr] at hv; cases hv

theorem run_runBlock_cons_err (f : Nat) (s : Stmt) (rest : Block) (e : Stop) (σ σ' : St)
    (h : (execStmt f s).run.run σ = (.error e, σ')) :
    (runBlock (f+1) (s :: rest)).run.run σ = (.error e, σ') := by
  rw [runBlock_cons]; exact run_bind_err _ _ _ _ _ h

theorem run_runBlock_nil (f : Nat) (σ : St) : (runBlock (f+1) []).run.run σ = (.ok ⟨⟩, σ) := by
  rw [runBlock_nil]; rfl

theorem run_runBlock_one (f : Nat) (s : Stmt) (σ σ' : St) (h : (execStmt (f+1) s).run.run σ = (.ok .none, σ')) :
    (runBlock (f+2) [s]).run.run σ = (.ok ⟨⟩, σ') := by
  rw [run_runBlock_cons_ok (f+1) s [] .none σ σ' h (.inl rfl), run_runBlock_nil]

/-! ## RETURN -/

/-- the state after `RETURN` has recorded the value in the function's activation -/
def retSt (σ : St) (id : Nat) (v : Val) : St := updSt σ id fun a => { a with retVal := some v }

/-- RETURN in a function activation: the value of the expression, cast to the declared return type, is recorded in
    the activation; then the signal `Stop.ret` (a value of another type: `typeMismatch`) -/
theorem run_execStmt_ret (f : Nat) (t : Tok) (e : Expr) (σ σ1 : St) (a : Act) (rest : List Act) (v : Val)
    (hsteps : σ.steps + 1 ≤ σ.stepLimit) (hacts : σ.acts = a :: rest) (hfn : a.isFn = true)
    (he : (evalExpr f e).run.run (tickSt σ) = (.ok v, σ1)) :
    (execStmt (f+1) (.ret t e)).run.run σ =
      if (implicitCast a.retTy v).ty = a.retTy then (.error .ret, retSt σ1 a.id (implicitCast a.retTy v))
      else (.error (.diag (rtDiag (retSt σ1 a.id (implicitCast a.retTy v)) t.line t.col .typeMismatch)),
            retSt σ1 a.id (implicitCast a.retTy v)) := by
  rw [execStmt_ret, run_bind_ok _ _ _ _ _ (run_tick_ok t σ hsteps),
    run_bind_ok _ _ _ _ _ (run_curAct_cons (tickSt σ) a rest hacts)]
  simp only [hfn, Bool.not_true, Bool.false_eq_true, if_false]
  rw [run_bind_ok _ _ _ _ _ he, run_bind_ok _ _ _ _ _ (run_modifyAct _ _ σ1)]
  by_cases h : (implicitCast a.retTy v).ty = a.retTy
  · have h' : ((implicitCast a.retTy v).ty != a.retTy) = false := by simp [h]
    simp only [h', Bool.false_eq_true, if_false]
    rw [if_pos h]
    rfl
  · have h' : ((implicitCast a.retTy v).ty != a.retTy) = true := by simpa using h
    simp only [h', if_true]
    rw [if_neg h]
    exact run_rtErr t .typeMismatch _

/-- RETURN where the current activation is not a function call (a procedure, the main program, a TYPE body):
    the runtime diagnostic `returnOutside`; the expression is not evaluated -/
theorem run_execStmt_ret_outside (f : Nat) (t : Tok) (e : Expr) (σ : St) (a : Act) (rest : List Act)
    (hsteps : σ.steps + 1 ≤ σ.stepLimit) (hacts : σ.acts = a :: rest) (hfn : a.isFn = false) :
    (execStmt (f+1) (.ret t e)).run.run σ =
      (.error (.diag (rtDiag (tickSt σ) t.line t.col .returnOutside)), tickSt σ) := by
  rw [execStmt_ret, run_bind_ok _ _ _ _ _ (run_tick_ok t σ hsteps),
    run_bind_ok _ _ _ _ _ (run_curAct_cons (tickSt σ) a rest hacts)]
  simp only [hfn, Bool.not_false, if_true]
  exact run_rtErr t .returnOutside _

/-! ## the declared names of the activations -/

/-- id and declared names of an activation -/
def shape (a : Act) : Nat × List Str × List Str := (a.id, a.vars.map (·.name), a.arrs.map (·.name))

/-- the activations below the innermost one keep id and declared names (same number, same order) -/
def RShape (σ σ' : St) : Prop := (σ'.acts.drop 1).map shape = (σ.acts.drop 1).map shape ∧ C04.ids σ' = C04.ids σ

instance : RPre RShape := ⟨fun _ => ⟨rfl, rfl⟩, fun h1 h2 => ⟨h2.1.trans h1.1, h2.2.trans h1.2⟩⟩

theorem shape_id (a : Act) : (shape a).1 = a.id := rfl

theorem ids_of_shapes (l l' : List Act) (h : l'.map shape = l.map shape) : l'.map (·.id) = l.map (·.id) := by
  have := congrArg (List.map (·.1)) h
  simpa [List.map_map, Function.comp_def, shape] using this

theorem updSlot_names (n : Str) (F : Slot → Slot) (hF : ∀ s, (F s).name = s.name) :
    ∀ ss : List Slot, (updSlot ss n F).map (·.name) = ss.map (·.name) := by
  intro ss
  induction ss with
  | nil => rfl
  | cons s rest ih =>
    unfold updSlot
    split
    · simp [hF]
    · simp [ih]

theorem updSlot_val_names (n : Str) (nv : Val) (ss : List Slot) :
    (updSlot ss n fun s => { s with val := nv }).map (·.name) = ss.map (·.name) :=
  updSlot_names n (fun s => { s with val := nv }) (fun _ => rfl) ss

theorem updActs_shapes (id : Nat) (F : Act → Act) (hF : ∀ a, shape (F a) = shape a) :
    ∀ acts : List Act, (updActs acts id F).map shape = acts.map shape := by
  intro acts
  induction acts with
  | nil => rfl
  | cons a rest ih =>
    unfold updActs
    split
    · simp [hF]
    · simp [ih]

/-- an update that keeps the shape of the activation it touches -/
theorem RShape_updSt (σ : St) (id : Nat) (F : Act → Act) (hF : ∀ a, shape (F a) = shape a) : RShape σ (updSt σ id F) := by
  have h := updActs_shapes id F hF σ.acts
  refine ⟨?_, ?_⟩
  · simp only [updSt]
    rw [List.map_drop, List.map_drop, h]
  · exact ids_of_shapes _ _ h

/-- an update of the innermost activation that keeps its id -/
theorem RShape_updHead (σ : St) (a : Act) (rest : List Act) (F : Act → Act) (h : σ.acts = a :: rest) (hF : (F a).id = a.id) :
    RShape σ (updSt σ a.id F) := by
  have : (updSt σ a.id F).acts = F a :: rest := by
    simp only [updSt, h, updActs, beq_self_eq_true, if_true]
  refine ⟨?_, ?_⟩
  · rw [this, h]; rfl
  · unfold C04.ids; rw [this, h]; simp [hF]

theorem RShape_bracket (mk : Nat → Act) (σ σ2 : St) (h : RShape (pushSt mk σ) σ2) :
    (popSt σ2).acts.map shape = σ.acts.map shape := by
  have := h.1
  simpa [pushSt, popSt] using this

theorem shape_writeLoc (Q : Stop → Prop) [QBase Q] (t : Tok) (l : Loc) (v : Val) : Ens RShape Q (writeLoc t l v) := by
  unfold writeLoc
  ens_auto
  all_goals
    apply Ens.modifyAct_of
    intro σ
    apply RShape_updSt
    intro a
    simp only [shape, updSlot_val_names]

theorem shape_modifyCur (Q : Stop → Prop) [QBase Q] (F : Act → Act) (hF : ∀ a, (F a).id = a.id) : Ens RShape Q (modifyCur F) := by
  constructor
  intro σ
  unfold modifyCur
  cases h : σ.acts with
  | nil =>
    have : curAct.run.run σ = (.error (.crash .noActivation), σ) := by
      unfold curAct; rw [run_bind_ok _ _ _ _ _ (run_get σ), h]; rfl
    rw [run_bind_err _ _ _ _ _ this]
    exact ⟨RPre.refl σ, fun e he => by cases he; exact QBase.crash _⟩
  | cons a rest =>
    rw [run_bind_ok _ _ _ _ _ (run_curAct_cons σ a rest h), run_modifyAct]
    exact ⟨RShape_updHead σ a rest F h (hF a), fun e he => by cases he⟩

theorem RShape_of_sameActs (σ σ' : St) (h : SameActs σ σ') : RShape σ σ' := by
  unfold RShape C04.ids; rw [h.1]; exact ⟨rfl, rfl⟩

/-- the primitives respect `RShape` -/
instance shapePrimOK (Q : Stop → Prop) [QBase Q] : PrimOK RShape Q where
  emit x := (frame_emit x).mono RShape_of_sameActs fun _ h => h
  tick t := (frame_tick t).mono RShape_of_sameActs fun _ h => h
  setSwitchTok id _ := Ens.modifyAct_of _ _ fun σ => RShape_updSt σ id _ fun _ => rfl
  setRetVal id _ := Ens.modifyAct_of _ _ fun σ => RShape_updSt σ id _ fun _ => rfl
  addVar _ := shape_modifyCur Q _ fun _ => rfl
  addArr _ := shape_modifyCur Q _ fun _ => rfl
  addEnum _ := shape_modifyCur Q _ fun _ => rfl
  addPtr _ := shape_modifyCur Q _ fun _ => rfl
  addComp _ := shape_modifyCur Q _ fun _ => rfl
  writeLoc := shape_writeLoc Q
  withAct mk body hmk hb := by
    refine Ens.withAct_of (R := RShape) ?_ mk body hmk hb
    intro mk σ σ2 hmk h
    have h1 := RShape_bracket mk σ σ2 h
    refine ⟨?_, ids_of_shapes _ _ h1⟩
    rw [List.map_drop, List.map_drop, h1]
  getLine := frame_getLine.mono RShape_of_sameActs fun _ h => h
  doFile t op := (frame_doFile t op).mono RShape_of_sameActs fun _ h => h
  doFile0 op := (frame_doFile0 op).mono RShape_of_sameActs fun _ h => h
  depthInc := Ens.modify _ fun _ => RShape_of_sameActs _ _ ⟨rfl, rfl⟩
  depthDec := Ens.modify _ fun _ => RShape_of_sameActs _ _ ⟨rfl, rfl⟩
  addProc _ := Ens.modify _ fun _ => RShape_of_sameActs _ _ ⟨rfl, rfl⟩
  addFun _ := Ens.modify _ fun _ => RShape_of_sameActs _ _ ⟨rfl, rfl⟩

/-- all 25 functions of the evaluator leave id and declared names of every activation below the innermost one alone -/
theorem shape_all (fuel : Nat) : AllEns RShape (fun _ => True) (fun _ => True) fuel := eval_all RShape _ _ fuel

/-- **the bracket restores every activation's names**: whatever block runs inside a new activation and however it
    ends, after `withAct` every activation has the id and the declared variable / array names it had before -/
theorem withAct_shapes {α : Type} (mk : Nat → Act) (body : M α) (σ : St) (hb : Ens RShape (fun _ => True) body) :
    ((withAct mk body).run.run σ).2.acts.map shape = σ.acts.map shape := by
  rw [run_withAct]
  exact RShape_bracket mk σ _ (hb.run _).1

/-! ## writing a whole variable -/

/-- a write to the root cell of an existing, non-constant variable succeeds (whatever the old and the new value) -/
theorem run_writeLoc_root (t : Tok) (l : Loc) (nv : Val) (σ : St) (a : Act) (s : Slot)
    (ha : σ.acts.find? (·.id == l.act) = some a) (hs : slotOf a l = some s) (hc : s.isConst = false) (hp : l.path = []) :
    (writeLoc t l nv).run.run σ = (.ok ⟨⟩, updSt σ l.act (writeF l nv)) := by
  have haid : a.id = l.act := by simpa using List.find?_some ha
  unfold writeLoc
  rw [run_bind_ok _ _ _ _ _ (run_findAct _ σ)]
  simp only [ha, hs, hc, Bool.false_eq_true, if_false, hp, setPath]
  rw [haid]
  rfl

/-- … and the variable then reads the new value -/
theorem readLocP_after_root_write (l : Loc) (nv : Val) (σ : St) (a : Act) (s : Slot)
    (ha : σ.acts.find? (·.id == l.act) = some a) (hs : slotOf a l = some s) (hp : l.path = []) :
    readLocP (updSt σ l.act (writeF l nv)) l = .ok nv := by
  unfold readLocP
  simp only [updSt]
  rw [find_updActs _ _ (writeF_id l nv), ha]
  simp only [Option.map_some, slotOf_writeF_same l nv a s hs, hp, getPath]

/-! ## lookups under updates that keep ids and variables -/

theorem holderOf_congr (a a' : Act) (s : Slot) (h : a'.id = a.id) : holderOf a' s = holderOf a s := by
  unfold holderOf; rw [h]

/-- `lookupVarIn` depends on the ids and the variable lists only -/
theorem lookupVarIn_meta (cur cur' g g' : Act) (n : Str) (a : Act) (s : Slot)
    (hc : cur'.id = cur.id ∧ cur'.vars = cur.vars) (hg : g'.id = g.id ∧ g'.vars = g.vars)
    (h : lookupVarIn cur g n = some (a, s)) : ∃ a', lookupVarIn cur' g' n = some (a', s) ∧ a'.id = a.id := by
  unfold lookupVarIn at h ⊢
  rw [hc.1, hc.2, hg.1, hg.2]
  cases hf : findSlot cur.vars n with
  | some s' =>
    rw [hf] at h
    simp only [Option.some.injEq, Prod.mk.injEq] at h
    obtain ⟨rfl, rfl⟩ := h
    exact ⟨cur', rfl, hc.1⟩
  | none =>
    rw [hf] at h
    simp only at h ⊢
    cases hid : cur.id == g.id with
    | true => rw [hid] at h; cases h
    | false =>
      rw [hid] at h
      simp only [Bool.false_eq_true, if_false] at h ⊢
      cases hgs : findSlot g.vars n with
      | none => rw [hgs] at h; cases h
      | some s' =>
        rw [hgs] at h
        simp only [Option.map_some, Option.some.injEq, Prod.mk.injEq] at h
        obtain ⟨rfl, rfl⟩ := h
        exact ⟨g', rfl, hg.1⟩

theorem lookupVarIn_meta_none (cur cur' g g' : Act) (n : Str)
    (hc : cur'.id = cur.id ∧ cur'.vars = cur.vars) (hg : g'.id = g.id ∧ g'.vars = g.vars)
    (h : lookupVarIn cur g n = none) : lookupVarIn cur' g' n = none := by
  unfold lookupVarIn at h ⊢
  rw [hc.1, hc.2, hg.1, hg.2]
  cases hf : findSlot cur.vars n with
  | some s' => rw [hf] at h; cases h
  | none =>
    rw [hf] at h
    simp only at h ⊢
    cases hid : cur.id == g.id with
    | true => rfl
    | false =>
      rw [hid] at h
      simp only [Bool.false_eq_true, if_false] at h ⊢
      cases hgs : findSlot g.vars n with
      | none => rfl
      | some s' => rw [hgs] at h; cases h

/-- the activation list after an update of one activation: head and last element are the old ones or their images -/
theorem updActs_head_last (id : Nat) (F : Act → Act) (cur g : Act) (rest : List Act) (hg : (cur :: rest).getLast? = some g) :
    ∃ cur' rest' g', updActs (cur :: rest) id F = cur' :: rest' ∧ (cur' :: rest').getLast? = some g' ∧
      (cur' = cur ∨ cur' = F cur) ∧ (g' = g ∨ g' = F g) := by
  obtain ⟨g', hg', hor⟩ := getLast?_updActs id F (cur :: rest) g hg
  unfold updActs at hg' ⊢
  by_cases hc : (cur.id == id) = true
  · simp only [hc, if_true] at hg' ⊢
    exact ⟨F cur, rest, g', rfl, hg', .inr rfl, hor⟩
  · simp only [hc, Bool.false_eq_true, if_false] at hg' ⊢
    exact ⟨cur, updActs rest id F, g', rfl, hg', .inl rfl, hor⟩

/-- a variable resolves to the same holder after an update that keeps ids and variables (the caller's note of the call
    position, for instance) -/
theorem run_resolveRef_var_meta (σ : St) (cur g : Act) (rest : List Act) (t : Tok) (f : Nat) (a : Act) (s : Slot)
    (id : Nat) (F : Act → Act) (hF : ∀ a, (F a).id = a.id ∧ (F a).vars = a.vars ∧ (F a).arrs = a.arrs)
    (h : σ.acts = cur :: rest) (hg : σ.acts.getLast? = some g) (hl : lookupVarIn cur g t.val = some (a, s)) :
    (resolveRef (f+1) (.var t)).run.run (updSt σ id F) = (.ok (holderOf a s), updSt σ id F) := by
  rw [h] at hg
  obtain ⟨cur', rest', g', hacts', hg', hc, hgg⟩ := updActs_head_last id F cur g rest hg
  have hc' : cur'.id = cur.id ∧ cur'.vars = cur.vars := by
    rcases hc with rfl | rfl
    · exact ⟨rfl, rfl⟩
    · exact ⟨(hF cur).1, (hF cur).2.1⟩
  have hg'' : g'.id = g.id ∧ g'.vars = g.vars := by
    rcases hgg with rfl | rfl
    · exact ⟨rfl, rfl⟩
    · exact ⟨(hF g).1, (hF g).2.1⟩
  obtain ⟨a', hl', ha'⟩ := lookupVarIn_meta cur cur' g g' t.val a s hc' hg'' hl
  have hσ : (updSt σ id F).acts = cur' :: rest' := by simp only [updSt, h, hacts']
  rw [run_resolveRef_var (updSt σ id F) cur' g' rest' t f a' s hσ (by rw [hσ]; exact hg') hl', holderOf_congr a a' s ha']

/-! ## visibility is a matter of the declared names -/

theorem findSlot_isSome_names : ∀ (ss ss' : List Slot) (n : Str), ss'.map (·.name) = ss.map (·.name) →
    (findSlot ss' n).isSome = (findSlot ss n).isSome
  | [], [], _, _ => rfl
  | [], _ :: _, _, h => by cases h
  | _ :: _, [], _, h => by cases h
  | s :: ss, s' :: ss', n, h => by
    simp only [List.map_cons, List.cons.injEq] at h
    have ih := findSlot_isSome_names ss ss' n h.2
    unfold findSlot at ih ⊢
    simp only [List.find?_cons, h.1]
    cases s.name == n
    · exact ih
    · rfl

theorem varHit_shape (a a' g g' : Act) (n : Str) (ha : shape a' = shape a) (hg : shape g' = shape g) :
    varHit a' g' n = varHit a g n := by
  unfold shape at ha hg
  simp only [Prod.mk.injEq] at ha hg
  unfold varHit
  rw [ha.1, hg.1, findSlot_isSome_names a.vars a'.vars n ha.2.1, findSlot_isSome_names g.vars g'.vars n hg.2.1]

theorem getLast?_map {α β : Type} (f : α → β) : ∀ l : List α, (l.map f).getLast? = l.getLast?.map f
  | [] => rfl
  | [_] => rfl
  | _ :: b :: l => by
    simp only [List.map_cons, List.getLast?_cons_cons]
    have := getLast?_map f (b :: l)
    simpa using this

/-- two activation lists with the same shapes: a name is visible in the one iff it is in the other -/
theorem visible_of_shapes (acts acts' : List Act) (cur cur' g g' : Act) (rest rest' : List Act) (n : Str)
    (hs : acts'.map shape = acts.map shape) (h : acts = cur :: rest) (h' : acts' = cur' :: rest')
    (hg : acts.getLast? = some g) (hg' : acts'.getLast? = some g') :
    (lookupVarIn cur' g' n).isSome = (lookupVarIn cur g n).isSome := by
  rw [lookupVarIn_isSome, lookupVarIn_isSome]
  have h1 : shape cur' = shape cur := by
    rw [h, h'] at hs
    simp only [List.map_cons, List.cons.injEq] at hs
    exact hs.1
  have h2 : shape g' = shape g := by
    have := congrArg List.getLast? hs
    rw [getLast?_map, getLast?_map, hg, hg'] at this
    simpa using this
  exact varHit_shape cur cur' g g' n h1 h2

/-! ## the statement `p <- rhs` where `p` is a variable of the innermost activation -/

theorem exists_getLast {α : Type} (a : α) (l : List α) : ∃ g, (a :: l).getLast? = some g := by
  cases h : (a :: l).getLast? with
  | some g => exact ⟨g, rfl⟩
  | none => simp at h

/-- a slot of the innermost activation is found first -/
theorem lookupVarIn_own (a g : Act) (n : Str) (s : Slot) (h : findSlot a.vars n = some s) :
    lookupVarIn a g n = some (a, s) := by
  unfold lookupVarIn; rw [h]

/-- the innermost activation is the first one with its id -/
theorem find_head (σ : St) (a : Act) (rest : List Act) (h : σ.acts = a :: rest) :
    σ.acts.find? (·.id == a.id) = some a := by
  rw [h]; simp

/-- the block consisting of the one statement `p <- rhs`, where the name `p` denotes the variable slot `s` of the
    innermost activation `new` (a cell of its own, or a BYREF alias) and `rhs` is pure: one tick, the check of the
    constant flag and of the type, then exactly one `writeLoc` at the holder's location -/
theorem run_block_assign_own (σ : St) (new : Act) (restA : List Act) (at' pt : Tok) (rhs : Expr) (rv : Val) (s : Slot)
    (f₀ f : Nat)
    (hacts : σ.acts = new :: restA) (hsteps : σ.steps + 1 ≤ σ.stepLimit)
    (hs : findSlot new.vars pt.val = some s)
    (hrhs : PureAt (tickSt σ) f₀ rhs rv) (hconst : locConstP σ (holderOf new s).loc = false)
    (hcast : (implicitCast s.ty rv).ty = s.ty) (hf : f₀ + 5 ≤ f) :
    (runBlock f [.expr (.assign at' (.var pt) rhs)]).run.run σ =
      match (writeLoc at' (holderOf new s).loc (implicitCast s.ty rv)).run.run (tickSt σ) with
      | (.ok _, σ') => (.ok ⟨⟩, σ')
      | (.error e, σ') => (.error e, σ') := by
  obtain ⟨f', rfl⟩ : ∃ f', f = f' + 5 := ⟨f - 5, by omega⟩
  obtain ⟨g, hg⟩ := exists_getLast new restA
  have hacts' : (tickSt σ).acts = new :: restA := hacts
  have hg' : (tickSt σ).acts.getLast? = some g := by rw [hacts']; exact hg
  have hr := run_resolveRef_var (tickSt σ) new g restA pt f' new s hacts' hg' (lookupVarIn_own new g pt.val s hs)
  have hne : (tickSt σ).acts ≠ [] := by rw [hacts']; exact List.cons_ne_nil _ _
  have hc' : locConstP (tickSt σ) (holderOf new s).loc = false := hconst
  have hassign := run_execAssign_resolved (tickSt σ) at' (.var pt) rhs rv (holderOf new s) (f'+1) hne
    (hrhs (f'+1) (by omega)) hr (holderOf_isArr new s) hc'
  rw [holderOf_ty] at hassign
  have hcast' : ((implicitCast s.ty rv).ty != s.ty) = false := by simp [hcast]
  simp only [hcast', Bool.false_eq_true, if_false] at hassign
  have hstmt := run_execStmt_assign σ at' (.var pt) rhs (f'+2) hsteps
  rw [hassign] at hstmt
  rcases hw : (writeLoc at' (holderOf new s).loc (implicitCast s.ty rv)).run.run (tickSt σ) with ⟨e | u, σ'⟩
  · rw [hw] at hstmt
    simp only at hstmt ⊢
    exact run_runBlock_cons_err (f'+4) _ [] e σ σ' hstmt
  · rw [hw] at hstmt
    simp only at hstmt ⊢
    exact run_runBlock_one (f'+3) _ σ σ' hstmt

end CallLemmas

end Pseudo
