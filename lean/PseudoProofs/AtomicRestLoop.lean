import PseudoProofs.AtomicRestSimAll
import PseudoProofs.AtomicRestIOAll
import PseudoProofs.ReplLoopAux
/-!
# From the evaluator to entries and sessions: two runs that differ in `out` (and in the standard input)

* `runOn_out`, `runSource_out`: `out` is write-only for whole blocks and for entries (lexer, parser, run, the line break before
  a diagnostic, the parser's warnings);
* `runOn_io`, `runSource_io`: the same when the standard input differs too — unless the first run reads input;
* `turn_sim`: one turn of the REPL loop in two sessions whose states have the same core;
* `session_sim`: any number of common turns.
-/
namespace Pseudo
namespace AtomicRest
open ReplLoop

/-! ### `out` only -/

theorem runOn_out (f : Nat) (b : Block) (τ : St) (o1 o2 : List Str) :
    ∃ (o : Outcome) (τ' : St) (a : List Str),
      runOn f b (τ.wo o1) = (o, τ'.wo (a ++ o1)) ∧ runOn f b (τ.wo o2) = (o, τ'.wo (a ++ o2)) := by
  obtain ⟨r, τ', a, h1, h2⟩ := ((OutSim.osim_runMain f b).run τ o1 o2).alt
  refine ⟨outcomeOf r, τ', a, ?_, ?_⟩
  · rw [runOn_eq, h1]
  · rw [runOn_eq, h2]

theorem runSource_out (cfg : Cfg) (src : Str) (τ : St) (o1 o2 : List Str) :
    ∃ (o : Outcome) (τ' : St) (a : List Str),
      runSource cfg src (τ.wo o1) = (o, τ'.wo (a ++ o1)) ∧ runSource cfg src (τ.wo o2) = (o, τ'.wo (a ++ o2)) := by
  unfold runSource
  cases lex { pedantic := cfg.pedantic } src with
  | error d => exact ⟨.diag d, τ, [['\n']], rfl, rfl⟩
  | ok toks =>
    dsimp only
    cases parse { pedantic := cfg.pedantic } toks with
    | error dw =>
      obtain ⟨d, warns⟩ := dw
      dsimp only
      by_cases hb : isBudget d = true
      · simp only [hb, if_true]
        exact ⟨.fuel, τ, (warns.map warningText).reverse, rfl, rfl⟩
      · simp only [hb, Bool.false_eq_true, if_false]
        exact ⟨.diag d, τ, ['\n'] :: (warns.map warningText).reverse, rfl, rfl⟩
    | ok bw =>
      obtain ⟨b, warns⟩ := bw
      dsimp only
      obtain ⟨o, τ', a, h1, h2⟩ := runOn_out cfg.fuel b τ ((warns.map warningText).reverse ++ o1) ((warns.map warningText).reverse ++ o2)
      have e1 : ({ τ.wo o1 with out := (warns.map warningText).reverse ++ (τ.wo o1).out } : St)
          = τ.wo ((warns.map warningText).reverse ++ o1) := rfl
      have e2 : ({ τ.wo o2 with out := (warns.map warningText).reverse ++ (τ.wo o2).out } : St)
          = τ.wo ((warns.map warningText).reverse ++ o2) := rfl
      rw [e1, e2, h1, h2]
      cases o with
      | diag d =>
        refine ⟨.diag d, τ', ['\n'] :: (a ++ (warns.map warningText).reverse), ?_, ?_⟩ <;>
          simp [St.wo, List.append_assoc]
      | ok => exact ⟨.ok, τ', a ++ (warns.map warningText).reverse, by simp [St.wo, List.append_assoc], by simp [St.wo, List.append_assoc]⟩
      | crash p => exact ⟨.crash p, τ', a ++ (warns.map warningText).reverse, by simp [St.wo, List.append_assoc], by simp [St.wo, List.append_assoc]⟩
      | fuel => exact ⟨.fuel, τ', a ++ (warns.map warningText).reverse, by simp [St.wo, List.append_assoc], by simp [St.wo, List.append_assoc]⟩

/-! ### `out` and the standard input -/

open IOSim in
theorem runOn_io (f : Nat) (b : Block) (τ : St) (p1 p2 : Priv) (hR : Rel p1 p2) :
    muSt (runOn f b (τ.wio p1)).2 < mu p1 ∨
    ∃ (o : Outcome) (τ' : St) (a : List Str),
      runOn f b (τ.wio p1) = (o, τ'.wio { p1 with out := a ++ p1.out }) ∧
      runOn f b (τ.wio p2) = (o, τ'.wio { p2 with out := a ++ p2.out }) := by
  cases ((iosim_runMain f b).run τ p1 p2).alt hR with
  | reads hlt => left; rw [runOn_eq]; exact hlt
  | same r τ' a h1 h2 =>
    right
    refine ⟨outcomeOf r, τ', a, ?_, ?_⟩
    · rw [runOn_eq, h1]
    · rw [runOn_eq, h2]

open IOSim in
theorem runSource_io (cfg : Cfg) (src : Str) (τ : St) (p1 p2 : Priv) (hR : Rel p1 p2) :
    muSt (runSource cfg src (τ.wio p1)).2 < mu p1 ∨
    ∃ (o : Outcome) (τ' : St) (a : List Str),
      runSource cfg src (τ.wio p1) = (o, τ'.wio { p1 with out := a ++ p1.out }) ∧
      runSource cfg src (τ.wio p2) = (o, τ'.wio { p2 with out := a ++ p2.out }) := by
  unfold runSource
  cases lex { pedantic := cfg.pedantic } src with
  | error d => exact .inr ⟨.diag d, τ, [['\n']], rfl, rfl⟩
  | ok toks =>
    dsimp only
    cases parse { pedantic := cfg.pedantic } toks with
    | error dw =>
      obtain ⟨d, warns⟩ := dw
      dsimp only
      by_cases hb : isBudget d = true
      · simp only [hb, if_true]
        exact .inr ⟨.fuel, τ, (warns.map warningText).reverse, rfl, rfl⟩
      · simp only [hb, Bool.false_eq_true, if_false]
        exact .inr ⟨.diag d, τ, ['\n'] :: (warns.map warningText).reverse, rfl, rfl⟩
    | ok bw =>
      obtain ⟨b, warns⟩ := bw
      dsimp only
      have e1 : ({ τ.wio p1 with out := (warns.map warningText).reverse ++ (τ.wio p1).out } : St)
          = τ.wio { p1 with out := (warns.map warningText).reverse ++ p1.out } := rfl
      have e2 : ({ τ.wio p2 with out := (warns.map warningText).reverse ++ (τ.wio p2).out } : St)
          = τ.wio { p2 with out := (warns.map warningText).reverse ++ p2.out } := rfl
      rw [e1, e2]
      rcases runOn_io cfg.fuel b τ { p1 with out := (warns.map warningText).reverse ++ p1.out }
        { p2 with out := (warns.map warningText).reverse ++ p2.out } ⟨hR.io⟩ with hlt | ⟨o, τ', a, h1, h2⟩
      · left
        have hmu : mu { p1 with out := (warns.map warningText).reverse ++ p1.out } = mu p1 := rfl
        rw [hmu] at hlt
        generalize runOn cfg.fuel b (τ.wio { p1 with out := (warns.map warningText).reverse ++ p1.out }) = x at hlt ⊢
        rcases x with ⟨o, s⟩
        cases o <;> exact hlt
      · right
        rw [h1, h2]
        cases o with
        | diag d =>
          refine ⟨.diag d, τ', ['\n'] :: (a ++ (warns.map warningText).reverse), ?_, ?_⟩ <;>
            simp [St.wio, List.append_assoc]
        | ok => exact ⟨.ok, τ', a ++ (warns.map warningText).reverse, by simp [St.wio, List.append_assoc], by simp [St.wio, List.append_assoc]⟩
        | crash p => exact ⟨.crash p, τ', a ++ (warns.map warningText).reverse, by simp [St.wio, List.append_assoc], by simp [St.wio, List.append_assoc]⟩
        | fuel => exact ⟨.fuel, τ', a ++ (warns.map warningText).reverse, by simp [St.wio, List.append_assoc], by simp [St.wio, List.append_assoc]⟩

/-! ### one turn of the loop in two sessions -/

/-- what an outcome adds to the recorded diagnostics / to the `inconclusive` flag -/
def newDiags : Outcome → List Diag
  | .diag d => if isBudget d then [] else [d]
  | _ => []

def newInc : Outcome → Bool
  | .diag d => isBudget d
  | .fuel => true
  | _ => false

/-- the records `SA`, `SB` of two sessions have developed from `rA`, `rB`: states with the same core, the diagnostics `dsA` /
    `dsB` added (newest first), the contributions `bA` / `bB` to `inconclusive`, the same crash status, no new error lines -/
structure Sim (SA SB rA rB : ReplSt) (dsA dsB : List Diag) (bA bB : Bool) : Prop where
  core : SameCore SA.st SB.st
  diagsA : SA.diags = dsA ++ rA.diags
  diagsB : SB.diags = dsB ++ rB.diags
  incA : SA.inconclusive = (bA || rA.inconclusive)
  incB : SB.inconclusive = (bB || rB.inconclusive)
  crash : SA.crash = SB.crash
  errA : SA.errLines = rA.errLines
  errB : SB.errLines = rB.errLines

theorem Sim.refl {rA rB : ReplSt} (hcore : SameCore rA.st rB.st) (hc : rA.crash = rB.crash) :
    Sim rA rB rA rB [] [] false false :=
  ⟨hcore, rfl, rfl, by simp, by simp, hc, rfl, rfl⟩

theorem Sim.trans {S2A S2B S1A S1B rA rB : ReplSt} {d1A d1B d2A d2B : List Diag} {b1A b1B b2A b2B : Bool}
    (h2 : Sim S2A S2B S1A S1B d2A d2B b2A b2B) (h1 : Sim S1A S1B rA rB d1A d1B b1A b1B) :
    Sim S2A S2B rA rB (d2A ++ d1A) (d2B ++ d1B) (b2A || b1A) (b2B || b1B) :=
  ⟨h2.core, by rw [h2.diagsA, h1.diagsA, List.append_assoc], by rw [h2.diagsB, h1.diagsB, List.append_assoc],
   by rw [h2.incA, h1.incA, Bool.or_assoc], by rw [h2.incB, h1.incB, Bool.or_assoc], h2.crash,
   h2.errA.trans h1.errA, h2.errB.trans h1.errB⟩

theorem record_sim (rA rB : ReplSt) (o : Outcome) (sA sB : St) (hcore : SameCore sA sB) (hc : rA.crash = rB.crash) :
    Sim (record rA (o, sA)) (record rB (o, sB)) rA rB (newDiags o) (newDiags o) (newInc o) (newInc o) := by
  cases o with
  | ok => exact ⟨hcore, rfl, rfl, by simp [record, newInc], by simp [record, newInc], hc, rfl, rfl⟩
  | diag d =>
    by_cases hb : isBudget d = true
    · simp only [record, newDiags, newInc, hb, if_true]
      exact ⟨hcore, rfl, rfl, rfl, rfl, hc, rfl, rfl⟩
    · have hb' : isBudget d = false := by simpa using hb
      simp only [record, newDiags, newInc, hb', Bool.false_eq_true, if_false]
      exact ⟨hcore, rfl, rfl, by simp, by simp, hc, rfl, rfl⟩
  | crash p => exact ⟨hcore, rfl, rfl, by simp [record, newInc], by simp [record, newInc], rfl, rfl, rfl⟩
  | fuel => exact ⟨hcore, rfl, rfl, rfl, rfl, hc, rfl, rfl⟩

/-- an entry that ends with a diagnostic, recorded in the first session only -/
theorem record_sim_left (rA rB : ReplSt) (d : Diag) (s : St) (hcore : SameCore s rB.st) (hc : rA.crash = rB.crash) :
    Sim (record rA (.diag d, s)) rB rA rB (newDiags (.diag d)) [] (newInc (.diag d)) false := by
  by_cases hb : isBudget d = true
  · simp only [record, newDiags, newInc, hb, if_true]
    exact ⟨hcore, rfl, rfl, rfl, by simp, hc, rfl, rfl⟩
  · have hb' : isBudget d = false := by simpa using hb
    simp only [record, newDiags, newInc, hb', Bool.false_eq_true, if_false]
    exact ⟨hcore, rfl, rfl, by simp, by simp, hc, rfl, rfl⟩

/-- **one turn in two sessions.** The states of the two sessions have the same core (`SameCore`: they may differ in `out`,
    `steps`, `depth` and in what is left on the standard input), neither input is at its end, and the turn of the first
    session leaves its input alone (`hkept`). Then the entry ends with the same outcome in both, in states with the same core
    and the same counters, having appended the same chunks `a`; the second session has not touched its input either. -/
theorem turn_sim (cfg : Cfg) (fA fB : Bool) (e : Entry) (rA rB : ReplSt) (restA restB : Str)
    (hcore : SameCore rA.st rB.st) (heofA : rA.st.stdinEof = false) (heofB : rB.st.stdinEof = false)
    (hkept : (step cfg fA e rA restA).st.stdin = restA ∧ (step cfg fA e rA restA).st.stdinEof = false) :
    ∃ (o : Outcome) (sA sB : St) (a : List Str),
      runSource cfg e.src (entrySt fA e rA.st restA) = (o, sA) ∧
      runSource cfg e.src (entrySt fB e rB.st restB) = (o, sB) ∧
      SameCore sA sB ∧ sA.out = a ++ (entrySt fA e rA.st restA).out ∧ sB.out = a ++ (entrySt fB e rB.st restB).out ∧
      sB.stdin = restB ∧ sB.stdinEof = false ∧ sA.steps = sB.steps ∧ sA.depth = sB.depth := by
  let τ : St := entrySt fB e rB.st restB
  let p1 : IOSim.Priv := IOSim.privOf (entrySt fA e rA.st restA)
  let p2 : IOSim.Priv := IOSim.privOf τ
  have hA : entrySt fA e rA.st restA = τ.wio p1 := by
    have h := hcore ⟨(entrySt fA e rA.st restA).out, 0, 0, restA, rA.st.stdinEof⟩
    exact h
  have hB : entrySt fB e rB.st restB = τ.wio p2 := rfl
  have hR : IOSim.Rel p1 p2 := ⟨.inl heofA⟩
  unfold step at hkept
  rw [record_st] at hkept
  rcases runSource_io cfg e.src τ p1 p2 hR with hlt | ⟨o, τ', a, h1, h2⟩
  · exfalso
    rw [← hA] at hlt
    have hm1 : IOSim.muSt (runSource cfg e.src (entrySt fA e rA.st restA)).2 = restA.length + 1 := by
      unfold IOSim.muSt IOSim.mu IOSim.privOf
      simp only [hkept.1, hkept.2, Bool.false_eq_true, if_false]
    have hm2 : IOSim.mu p1 = restA.length + 1 := by
      show (if rA.st.stdinEof = true then 0 else restA.length + 1) = _
      simp only [heofA, Bool.false_eq_true, if_false]
    omega
  · exact ⟨o, τ'.wio { p1 with out := a ++ p1.out }, τ'.wio { p2 with out := a ++ p2.out }, a, by rw [hA]; exact h1,
      by rw [hB]; exact h2, fun _ => rfl, rfl, rfl, rfl, heofB, rfl, rfl⟩

theorem record_crash_eq (rA rB : ReplSt) (o : Outcome) (sA sB : St) (hc : rA.crash = rB.crash) :
    (record rA (o, sA)).crash = (record rB (o, sB)).crash := by
  cases o with
  | ok => exact hc
  | diag d => simp only [record]; split <;> exact hc
  | crash p => rfl
  | fuel => exact hc

theorem isSome_false_of_none {α : Type} {x : Option α} (h : x.isSome = false) : x = none := by
  cases x with
  | none => rfl
  | some _ => cases h

theorem drop_text (t rest : Str) : (t ++ rest).drop t.length = rest := by simp

theorem isPrefixOf_append (t rest : Str) : t.isPrefixOf (t ++ rest) = true :=
  List.isPrefixOf_iff_prefix.mpr (List.prefix_append _ _)

/-! ### any number of common turns -/

/-- **common turns of two sessions.** As `turn_sim`, for a list of entries: the first session keeps its input at every turn
    (`inputKept`, computable), the input of the second starts with the texts of the entries. Then the two sessions develop
    in the same way (`Sim`), the entries print the same chunks `as`; and if they do not stop at a crash point, all entries
    have run, the second session has kept its input as well and stands at `tailB`. -/
theorem session_sim (cfg : Cfg) : ∀ (es : List Entry) (fA fB : Bool) (rA rB : ReplSt) (tailB : Str),
    SameCore rA.st rB.st → rB.st.stdinEof = false → rA.crash = rB.crash →
    inputKept cfg es fA rA = true →
    rB.st.stdin = (es.map Entry.text).flatten ++ tailB →
    ∃ (as : List (List Str)) (ds : List Diag) (b : Bool),
      as.length ≤ es.length ∧
      Sim (session cfg es fA rA) (session cfg es fB rB) rA rB ds ds b b ∧
      (session cfg es fA rA).st.out = replOut (es.zip as) fA rA.st.out ∧
      (session cfg es fB rB).st.out = replOut (es.zip as) fB rB.st.out ∧
      ((session cfg es fA rA).crash = none → as.length = es.length ∧
        (session cfg es fB rB).st.stdin = tailB ∧ (session cfg es fB rB).st.stdinEof = false ∧
        inputKept cfg es fB rB = true)
  | [], fA, fB, rA, rB, tailB, hcore, heofB, hc, _, hin => by
    refine ⟨[], [], false, Nat.le_refl _, Sim.refl hcore hc, rfl, rfl, fun _ => ⟨rfl, ?_, heofB, rfl⟩⟩
    show rB.st.stdin = tailB
    simpa using hin
  | e :: es, fA, fB, rA, rB, tailB, hcore, heofB, hc, hk, hin => by
    unfold inputKept at hk
    simp only [Bool.and_eq_true, Bool.not_eq_true', beq_iff_eq] at hk
    obtain ⟨⟨⟨⟨heofA, _⟩, hst⟩, heof'⟩, hrest⟩ := hk
    by_cases hcr : rA.crash.isSome = true
    · have hcrB : rB.crash.isSome = true := by rw [← hc]; exact hcr
      have hSA : session cfg (e :: es) fA rA = rA := by unfold session; simp [hcr]
      have hSB : session cfg (e :: es) fB rB = rB := by unfold session; simp [hcrB]
      rw [hSA, hSB]
      refine ⟨[], [], false, Nat.zero_le _, Sim.refl hcore hc, by simp [replOut], by simp [replOut], fun h => ?_⟩
      rw [h] at hcr
      cases hcr
    · have hcrA : rA.crash.isSome = false := by simpa using hcr
      have hcrB : rB.crash.isSome = false := by rw [← hc]; exact hcrA
      have hinB : rB.st.stdin = e.text ++ ((es.map Entry.text).flatten ++ tailB) := by
        rw [hin]; simp
      have hdropB : rB.st.stdin.drop e.text.length = (es.map Entry.text).flatten ++ tailB := by
        rw [hinB]; exact drop_text _ _
      generalize hrA : rA.st.stdin.drop e.text.length = restA at hst heof' hrest
      obtain ⟨o, sA, sB, a, hrunA, hrunB, hcore1, houtA, houtB, hsBin, hsBeof, _, _⟩ :=
        turn_sim cfg fA fB e rA rB restA ((es.map Entry.text).flatten ++ tailB) hcore heofA heofB ⟨hst, heof'⟩
      have hstepA : step cfg fA e rA restA = record rA (o, sA) := by unfold step; rw [hrunA]
      have hstepB : step cfg fB e rB ((es.map Entry.text).flatten ++ tailB) = record rB (o, sB) := by unfold step; rw [hrunB]
      have hSA : session cfg (e :: es) fA rA = session cfg es false (record rA (o, sA)) := by
        conv => lhs; unfold session
        simp only [hcrA, Bool.false_eq_true, if_false, hrA, hstepA]
      have hSB : session cfg (e :: es) fB rB = session cfg es false (record rB (o, sB)) := by
        conv => lhs; unfold session
        simp only [hcrB, Bool.false_eq_true, if_false, hdropB, hstepB]
      rw [hstepA] at hrest
      obtain ⟨as, ds, b, hlen, hsim, hoA, hoB, hfin⟩ :=
        session_sim cfg es false false (record rA (o, sA)) (record rB (o, sB)) tailB
          (by rw [record_st, record_st]; exact hcore1) (by rw [record_st]; exact hsBeof)
          (record_crash_eq rA rB o sA sB hc) hrest (by rw [record_st]; exact hsBin)
      rw [hSA, hSB]
      refine ⟨a :: as, ds ++ newDiags o, b || newInc o, by simp only [List.length_cons]; omega,
        hsim.trans (record_sim rA rB o sA sB hcore1 hc), ?_, ?_, fun h => ?_⟩
      · rw [hoA, record_st, houtA]; rfl
      · rw [hoB, record_st, houtB]; rfl
      · obtain ⟨h1, h2, h3, h4⟩ := hfin h
        refine ⟨by simp [h1], h2, h3, ?_⟩
        unfold inputKept
        rw [hdropB, hstepB, record_st, hsBin, hsBeof, h4, heofB, hinB, isPrefixOf_append]
        simp

/-! ### a session with an extra entry that fails without effect -/

theorem runSource_out_app (cfg : Cfg) (src : Str) (σ : St) : ∃ a, (runSource cfg src σ).2.out = a ++ σ.out := by
  obtain ⟨o, τ', a, h1, _⟩ := runSource_out cfg src σ σ.out σ.out
  have : σ.wo σ.out = σ := rfl
  rw [this] at h1
  exact ⟨a, by rw [h1]; rfl⟩

/-- the state in which the entry after `es` is run -/
def stateAt (cfg : Cfg) (es : List Entry) (first : Bool) (r : ReplSt) (e : Entry) : St :=
  entrySt (first && es.isEmpty) e (session cfg es first r).st ((session cfg es first r).st.stdin.drop e.text.length)

/-- **the session with the extra entry `bad` against the session without it.** `bad`, run after `es₁` in the first session,
    ends with a diagnostic `d` in a state with the same core (`hbad`; its input is kept by `inputKept`). Then: the common
    entries end with the same outcomes and print the same chunks (`as₁`, `as₂`) in both sessions, the final records are related
    by `Sim` — same core, the diagnostics of the first session are those of the second with `bad`'s inserted after those of
    `es₁` —, and the second session keeps its input as well. -/
theorem session_bad_sim (cfg : Cfg) (bad : Entry) (d : Diag) (es₂ : List Entry) :
    ∀ (es₁ : List Entry) (fA fB : Bool) (rA rB : ReplSt) (tailB : Str),
    SameCore rA.st rB.st → rB.st.stdinEof = false → rA.crash = rB.crash →
    inputKept cfg (es₁ ++ bad :: es₂) fA rA = true →
    rB.st.stdin = ((es₁ ++ es₂).map Entry.text).flatten ++ tailB →
    (session cfg es₁ fA rA).crash = none →
    (runSource cfg bad.src (stateAt cfg es₁ fA rA bad)).1 = .diag d →
    SameCore (stateAt cfg es₁ fA rA bad) (runSource cfg bad.src (stateAt cfg es₁ fA rA bad)).2 →
    ∃ (as₁ as₂ : List (List Str)) (ds₁ ds₂ : List Diag) (b₁ b₂ : Bool) (aBad : List Str),
      as₁.length = es₁.length ∧ as₂.length ≤ es₂.length ∧
      Sim (session cfg (es₁ ++ bad :: es₂) fA rA) (session cfg (es₁ ++ es₂) fB rB) rA rB
        (ds₂ ++ (newDiags (.diag d) ++ ds₁)) (ds₂ ++ ds₁) (b₂ || (newInc (.diag d) || b₁)) (b₂ || b₁) ∧
      (session cfg (es₁ ++ bad :: es₂) fA rA).st.out = replOut ((es₁ ++ bad :: es₂).zip (as₁ ++ aBad :: as₂)) fA rA.st.out ∧
      (session cfg (es₁ ++ es₂) fB rB).st.out = replOut ((es₁ ++ es₂).zip (as₁ ++ as₂)) fB rB.st.out ∧
      (runSource cfg bad.src (stateAt cfg es₁ fA rA bad)).2.out = aBad ++ (stateAt cfg es₁ fA rA bad).out ∧
      (session cfg es₁ fB rB).diags = ds₁ ++ rB.diags ∧
      ((session cfg (es₁ ++ bad :: es₂) fA rA).crash = none → as₂.length = es₂.length ∧
        (session cfg (es₁ ++ es₂) fB rB).st.stdin = tailB ∧ (session cfg (es₁ ++ es₂) fB rB).st.stdinEof = false ∧
        inputKept cfg (es₁ ++ es₂) fB rB = true)
  | [], fA, fB, rA, rB, tailB, hcore, heofB, hc, hk, hin, hcr, hd, hne => by
    simp only [List.nil_append] at hk hin ⊢
    have hcrA : rA.crash = none := hcr
    have hσ : stateAt cfg [] fA rA bad = entrySt fA bad rA.st (rA.st.stdin.drop bad.text.length) := by
      unfold stateAt; simp [session]
    rw [hσ] at hd hne ⊢
    unfold inputKept at hk
    simp only [Bool.and_eq_true, Bool.not_eq_true', beq_iff_eq] at hk
    obtain ⟨⟨⟨⟨heofA, _⟩, hst⟩, heof'⟩, hrest⟩ := hk
    generalize hrA : rA.st.stdin.drop bad.text.length = restA at hst heof' hrest hd hne ⊢
    obtain ⟨aBad, haBad⟩ := runSource_out_app cfg bad.src (entrySt fA bad rA.st restA)
    rcases hrun : runSource cfg bad.src (entrySt fA bad rA.st restA) with ⟨o, s'⟩
    rw [hrun] at hd hne haBad
    dsimp only at hd hne haBad
    subst hd
    have hstepA : step cfg fA bad rA restA = record rA (.diag d, s') := by unfold step; rw [hrun]
    have hSA : session cfg (bad :: es₂) fA rA = session cfg es₂ false (record rA (.diag d, s')) := by
      conv => lhs; unfold session
      simp only [hcrA, Option.isSome_none, Bool.false_eq_true, if_false, hrA, hstepA]
    rw [hstepA] at hrest hst heof'
    have hcore' : SameCore s' rB.st := hne.symm.trans ((SameCore.entrySt fA bad rA.st restA).trans hcore)
    have hsl := record_sim_left rA rB d s' hcore' hc
    obtain ⟨as, ds, b, hlen, hsim, hoA, hoB, hfin⟩ :=
      session_sim cfg es₂ false fB (record rA (.diag d, s')) rB tailB
        (by rw [record_st]; exact hcore') heofB hsl.crash hrest hin
    rw [hSA]
    refine ⟨[], as, [], ds, false, b, aBad, rfl, hlen, ?_, ?_, ?_, haBad, rfl, fun h => ?_⟩
    · have := hsim.trans hsl
      simpa using this
    · rw [hoA, record_st, haBad]; rfl
    · simpa using hoB
    · exact hfin h
  | e :: es₁, fA, fB, rA, rB, tailB, hcore, heofB, hc, hk, hin, hcr, hd, hne => by
    simp only [List.cons_append] at hk hin ⊢
    unfold inputKept at hk
    simp only [Bool.and_eq_true, Bool.not_eq_true', beq_iff_eq] at hk
    obtain ⟨⟨⟨⟨heofA, _⟩, hst⟩, heof'⟩, hrest⟩ := hk
    by_cases hcrx : rA.crash.isSome = true
    · exfalso
      have hSA : session cfg (e :: es₁) fA rA = rA := by unfold session; simp [hcrx]
      rw [hSA] at hcr
      rw [hcr] at hcrx
      cases hcrx
    · have hcrA : rA.crash.isSome = false := by simpa using hcrx
      have hcrB : rB.crash.isSome = false := by rw [← hc]; exact hcrA
      have hinB : rB.st.stdin = e.text ++ (((es₁ ++ es₂).map Entry.text).flatten ++ tailB) := by
        rw [hin]; simp
      have hdropB : rB.st.stdin.drop e.text.length = ((es₁ ++ es₂).map Entry.text).flatten ++ tailB := by
        rw [hinB]; exact drop_text _ _
      generalize hrA : rA.st.stdin.drop e.text.length = restA at hst heof' hrest
      obtain ⟨o, sA, sB, a, hrunA, hrunB, hcore1, houtA, houtB, hsBin, hsBeof, _, _⟩ :=
        turn_sim cfg fA fB e rA rB restA (((es₁ ++ es₂).map Entry.text).flatten ++ tailB) hcore heofA heofB ⟨hst, heof'⟩
      have hstepA : step cfg fA e rA restA = record rA (o, sA) := by unfold step; rw [hrunA]
      have hstepB : step cfg fB e rB (((es₁ ++ es₂).map Entry.text).flatten ++ tailB) = record rB (o, sB) := by
        unfold step; rw [hrunB]
      have hSA : ∀ l, session cfg (e :: l) fA rA = session cfg l false (record rA (o, sA)) := by
        intro l
        conv => lhs; unfold session
        simp only [hcrA, Bool.false_eq_true, if_false, hrA, hstepA]
      have hSB : ∀ l, session cfg (e :: l) fB rB = session cfg l false (record rB (o, sB)) := by
        intro l
        conv => lhs; unfold session
        simp only [hcrB, Bool.false_eq_true, if_false, hdropB, hstepB]
      have hσ : stateAt cfg (e :: es₁) fA rA bad = stateAt cfg es₁ false (record rA (o, sA)) bad := by
        unfold stateAt
        rw [hSA]
        simp
      rw [hσ] at hd hne ⊢
      rw [hSA] at hcr
      rw [hstepA] at hrest
      obtain ⟨as₁, as₂, ds₁, ds₂, b₁, b₂, aBad, hl1, hl2, hsim, hoA, hoB, haBad, hpos, hfin⟩ :=
        session_bad_sim cfg bad d es₂ es₁ false false (record rA (o, sA)) (record rB (o, sB)) tailB
          (by rw [record_st, record_st]; exact hcore1) (by rw [record_st]; exact hsBeof)
          (record_crash_eq rA rB o sA sB hc) hrest (by rw [record_st]; exact hsBin) hcr hd hne
      rw [hSA, hSB, hSB]
      refine ⟨a :: as₁, as₂, ds₁ ++ newDiags o, ds₂, b₁ || newInc o, b₂, aBad, by simp [hl1], hl2, ?_, ?_, ?_, haBad, ?_,
        fun h => ?_⟩
      · have := hsim.trans (record_sim rA rB o sA sB hcore1 hc)
        simpa [List.append_assoc, Bool.or_assoc] using this
      · rw [hoA, record_st, houtA]; rfl
      · rw [hoB, record_st, houtB]; rfl
      · rw [hpos, (record_sim rA rB o sA sB hcore1 hc).diagsB, List.append_assoc]
      · obtain ⟨h1, h2, h3, h4⟩ := hfin h
        refine ⟨h1, h2, h3, ?_⟩
        unfold inputKept
        rw [hdropB, hstepB, record_st, hsBin, hsBeof, h4, heofB, hinB, isPrefixOf_append]
        simp

end AtomicRest
end Pseudo
