import Properties.C14Exec
/-!
# Random files, part 2: several files at once

`PseudoProofs/RandomFile.lean` treats ONE random file. Here:

* `Kept s s' m`: the file component `s'` knows about the name `m` exactly what `s` knows (all handles of that name, the node on
  disk); `fstep_kept`: ANY file operation on a name `n` keeps every other name `m ≠ n`;
* `openRandom_kept`, `rinv_frame`: the one-file invariant of another file survives;
* `step_*_kept`, `run_op_cont`: the statements of one `ROp` on `n`, in front of any continuation block, with the strong frame;
* the two-file abstract machine `spec2Step` / `spec2Run` on `(name, ROp)` lists, `RInv2`, and the fold `run_ops2`.
-/
namespace Pseudo.RandomFile2
open Pseudo Pseudo.FileStmt Pseudo.ReadLoop Pseudo.RandomFile

/-- the file name a file operation is about -/
def opName : FOp → Str
  | .open n _ | .close n | .write n _ | .readLine n | .eof n | .seek n _ | .put n _ | .get n => n

/-- everything the file component `s'` knows about the name `m` is what `s` knows -/
def Kept (s s' : FState) (m : Str) : Prop :=
  s'.handles.filter (·.name == m) = s.handles.filter (·.name == m) ∧ s'.node m = s.node m

theorem Kept.refl (s : FState) (m : Str) : Kept s s m := ⟨rfl, rfl⟩

theorem Kept.trans {s s1 s2 : FState} {m : Str} (h1 : Kept s s1 m) (h2 : Kept s1 s2 m) : Kept s s2 m :=
  ⟨h2.1.trans h1.1, h2.2.trans h1.2⟩

theorem filter_upd_other (hs : List Handle) (n m : Str) (f : Handle → Handle) (hname : ∀ x, (f x).name = x.name)
    (hne : m ≠ n) : (updHandles hs n f).filter (·.name == m) = hs.filter (·.name == m) := by
  induction hs with
  | nil => rfl
  | cons x xs ih =>
    unfold updHandles at ih ⊢
    simp only [List.map_cons, List.filter_cons]
    by_cases hx : (x.name == n) = true
    · have hxn : x.name = n := by simpa using hx
      have hxm : (x.name == m) = false := by rw [hxn]; simpa using (Ne.symm hne)
      simp only [hx, if_true, hname, hxm]
      exact ih
    · simp only [hx, Bool.false_eq_true, if_false]
      rw [ih]

theorem filter_close_other (hs : List Handle) (n m : Str) (hne : m ≠ n) :
    (hs.filter (·.name != n)).filter (·.name == m) = hs.filter (·.name == m) := by
  rw [List.filter_filter]
  apply List.filter_congr
  intro x _
  by_cases hx : (x.name == m) = true
  · have hxm : x.name = m := by simpa using hx
    simp [hxm, hne]
  · simp [hx]

theorem filter_append_other (hs : List Handle) (x : Handle) (m : Str) (hne : m ≠ x.name) :
    (hs ++ [x]).filter (·.name == m) = hs.filter (·.name == m) := by
  have : (x.name == m) = false := by simpa using (Ne.symm hne)
  simp [List.filter_append, this]

theorem node_set_other (s : FState) (hs : List Handle) (n m : Str) (x : FsNode) (hne : m ≠ n) :
    FState.node { fs := setNode s.fs n x, handles := hs } m = s.node m :=
  node_setNode_other s.fs n m x (Ne.symm hne)

/-- **a file operation on `n` leaves everything about another name `m` alone** (any operation, any mode) -/
theorem fstep_kept (s s' : FState) (op : FOp) (r : FRes) (m : Str) (h : fstep s op = .ok (s', r)) (hne : m ≠ opName op) :
    Kept s s' m := by
  unfold fstep at h
  split at h
  · cases h
  · cases op with
    | «open» n mode =>
      simp only [opName] at hne
      dsimp only at h
      split at h
      · cases h
      · split at h <;> first
          | (injection h with h; injection h with h _; subst h
             exact ⟨filter_append_other _ _ _ hne, rfl⟩)
          | (split at h
             · cases h
             · injection h with h; injection h with h _; subst h
               exact ⟨filter_append_other _ _ _ hne, node_set_other s _ n m _ hne⟩)
          | cases h
    | close n =>
      simp only [opName] at hne
      dsimp only at h
      split at h
      · cases h
      · rename_i hd hh
        injection h with h; injection h with h _; subst h
        have hname := handle_name s n hd hh
        exact ⟨filter_close_other _ _ _ hne, node_flush_other s hd m (by rw [hname]; exact Ne.symm hne)⟩
    | write n txt =>
      simp only [opName] at hne
      dsimp only at h
      split at h <;> first
        | (injection h with h; injection h with h _; subst h
           exact ⟨rfl, node_set_other s _ n m _ hne⟩)
        | cases h
    | readLine n =>
      simp only [opName] at hne
      dsimp only at h
      split at h
      · cases h
      · injection h with h; injection h with h _; subst h
        exact ⟨filter_upd_other _ _ _ _ (fun _ => rfl) hne, rfl⟩
    | eof n =>
      dsimp only at h
      split at h
      · cases h
      · injection h with h; injection h with h _; subst h
        exact Kept.refl _ _
    | seek n a =>
      simp only [opName] at hne
      dsimp only at h
      split at h
      · cases h
      · split at h
        · cases h
        · split at h
          · cases h
          · injection h with h; injection h with h _; subst h
            exact ⟨filter_upd_other _ _ _ _ (fun _ => rfl) hne, rfl⟩
    | put n rec =>
      simp only [opName] at hne
      dsimp only at h
      injection h with h; injection h with h _; subst h
      exact ⟨filter_upd_other _ _ _ _ (fun _ => rfl) hne, rfl⟩
    | get n =>
      dsimp only at h
      split at h
      · cases h
      · split at h
        · injection h with h; injection h with h _; subst h
          exact Kept.refl _ _
        · cases h

/-! ## the invariant of another file survives -/

theorem handle_of_kept {s s' : FState} {m : Str} (k : Kept s s' m) : s'.handle m = s.handle m := by
  unfold FState.handle
  rw [← List.head?_filter, ← List.head?_filter, k.1]

theorem mem_of_kept {s s' : FState} {m : Str} (k : Kept s s' m) (x : Handle) (hx : x ∈ s'.handles) (hxm : x.name = m) :
    x ∈ s.handles := by
  have : x ∈ s'.handles.filter (·.name == m) := List.mem_filter.mpr ⟨hx, by simpa using hxm⟩
  rw [k.1] at this
  exact (List.mem_filter.mp this).1

theorem openRandom_kept {defs : Codec.Defs} {C : RecClass defs} {s s' : FState} {m : Str} {h : Handle} {q : VSeq}
    (inv : OpenRandom C s m h q) (k : Kept s s' m) : OpenRandom C s' m h q := by
  refine ⟨by rw [handle_of_kept k]; exact inv.handle, inv.mode, inv.abs, inv.ptr, inv.vals,
    fun x hx hxm => inv.uniq x (mem_of_kept k x hx hxm) hxm, inv.long, ?_⟩
  have := inv.disk
  unfold DiskOK at this ⊢
  rw [k.2]
  exact this

/-- the invariant of the file `m` in a state that differs from `σ` in `steps`, the current activation and the part of the
    file component that does not concern `m` -/
theorem rinv_frame {defs : Codec.Defs} {C : RecClass defs} {σ σ' : St} {m : Str} {q : VSeq} {a a' : Act} {rest : List Act}
    (inv : RInv C σ m q a rest) (hacts : σ'.acts = a' :: rest) (hdefs : codecDefsP σ' = .ok defs)
    (k : Kept (fileSt σ) (fileSt σ') m) : RInv C σ' m q a' rest := by
  obtain ⟨h, hf⟩ := inv.file
  exact ⟨hacts, hdefs, h, openRandom_kept hf k⟩

/-- a statement that is one accepted `fstep` on `opName op` keeps every other name -/
theorem kept_of_refines {R : Except Stop Val × St} {σ σ' : St} {t : Tok} {op : FOp} (href : StepRefines R σ t op)
    (hrun : R = (.ok .none, σ')) {s' : FState} {r : FRes} (hstep : fstep (fileSt σ) op = .ok (s', r))
    (m : Str) (hm : m ≠ opName op) : Kept (fileSt σ) (fileSt σ') m := by
  have e : σ' = _ := (Prod.mk.inj (hrun.symm.trans (href.1 s' r hstep))).2
  rw [e]
  exact fstep_kept (fileSt σ) s' op r m hstep hm

section Exec
variable {defs : Codec.Defs} {C : RecClass defs} {σ : St} {n : Str} {q : VSeq} {a : Act} {rest : List Act}

theorem step_seek_kept (inv : RInv C σ n q a rest) (f : Nat) (t tn tk : Tok) (k : Int) (q' : VSeq)
    (hb : σ.steps + 1 ≤ σ.stepLimit) (hk : q.seek k = some q') :
    ∃ σ', (execStmt (f+3) (.seek t (.strLit tn n) (.intLit tk k))).run.run σ = (.ok .none, σ') ∧ RInv C σ' n q' a rest ∧
      σ' = { σ with steps := σ.steps + 1, handles := σ'.handles } ∧
      ∀ m, m ≠ n → Kept (fileSt σ) (fileSt σ') m := by
  obtain ⟨σ', hrun, inv', hfr, _⟩ := step_seek_ok inv f t tn tk k q' hb hk
  obtain ⟨h, hf⟩ := inv.file
  obtain ⟨s', h', hstep, _⟩ := pure_seek_ok hf k q' hk
  have hk1 : 1 ≤ k := by
    unfold VSeq.seek at hk
    split at hk
    · rename_i hr; exact hr.1
    · cases hk
  exact ⟨σ', hrun, inv', hfr, fun m hm => kept_of_refines (C16_exec_seek_lit f t tn tk n k σ hb hk1) hrun hstep m hm⟩

theorem step_put_kept (inv : RInv C σ n q a rest) (f : Nat) (t tn x : Tok) (ty : Ty) (v : Val)
    (hb : σ.steps + 1 ≤ σ.stepLimit) (hx : HasVar a x.val ty v) (hp : isPtrTy ty = false) (hv : C.T v) :
    ∃ σ', (execStmt (f+3) (.putRecord t (.strLit tn n) x)).run.run σ = (.ok .none, σ') ∧ RInv C σ' n (q.put v) a rest ∧
      σ' = { σ with steps := σ.steps + 1, handles := σ'.handles } ∧
      ∀ m, m ≠ n → Kept (fileSt σ) (fileSt σ') m := by
  obtain ⟨σ', hrun, inv', hfr, _⟩ := step_put inv f t tn x ty v hb hx hp hv
  obtain ⟨h, hf⟩ := inv.file
  obtain ⟨s', h', hstep, _⟩ := pure_put hf v hv
  obtain ⟨s, hs, hty, _, href, hval⟩ := hx
  obtain ⟨hlv, hla, htgt⟩ := target_cur inv.acts x.val s hs href
  have hcur : readLocP σ (curLoc a x.val) = .ok v := by rw [readLocP_cur σ a rest x.val s inv.acts hs, hval]
  have href' := C16_exec_putRecord (f+1) t (.strLit tn n) x σ n _ _ (curLoc a x.val) s.ty v hb (evalsTo_strLit f tn n _)
    hlv hla (htgt _) (by rw [hty]; exact hp) hcur
  exact ⟨σ', hrun, inv', hfr, fun m hm => kept_of_refines href' hrun hstep m hm⟩

theorem step_reopen_kept (inv : RInv C σ n q a rest) (f f' : Nat) (t tn t' tn' : Tok) (hb : σ.steps + 2 ≤ σ.stepLimit) :
    ∃ σ1 σ', (execStmt (f+3) (.closeFile t (.strLit tn n))).run.run σ = (.ok .none, σ1) ∧
      (execStmt (f'+3) (.openFile t' (.strLit tn' n) .random)).run.run σ1 = (.ok .none, σ') ∧
      RInv C σ' n { q with cur := 0 } a rest ∧
      σ' = { σ with steps := σ.steps + 2, fs := σ'.fs, handles := σ'.handles } ∧
      ∀ m, m ≠ n → Kept (fileSt σ) (fileSt σ') m := by
  obtain ⟨σ1, σ', e1, e2, inv', hfr, _⟩ := step_reopen inv f f' t tn t' tn' hb
  obtain ⟨h, hf⟩ := inv.file
  obtain ⟨s1, h1, hcl, hd, _, _⟩ := pure_close hf
  obtain ⟨s2, h2, _⟩ := pure_open (C := C) s1 n q.vals hcl hf.long hd hf.vals
  have r1 := C16_exec_closeFile_lit f t tn n σ (by omega)
  have eσ1 : σ1 = { σ with steps := σ.steps + 1, fs := s1.fs, handles := s1.handles } :=
    (Prod.mk.inj (e1.symm.trans (r1.1 s1 .unit h1))).2
  have hb1 : σ1.steps + 1 ≤ σ1.stepLimit := by rw [eσ1]; show σ.steps + 1 + 1 ≤ σ.stepLimit; omega
  have r2 := C16_exec_openFile_lit f' t' tn' n .random σ1 hb1
  have h2' : fstep (fileSt σ1) (.open n .random) = .ok (s2, .unit) := by rw [eσ1]; exact h2
  refine ⟨σ1, σ', e1, e2, inv', hfr, fun m hm => ?_⟩
  exact (kept_of_refines r1 e1 h1 m hm).trans (kept_of_refines r2 e2 h2' m hm)

/-- **the statements of one operation on `n`, in front of any continuation `more`** (fuel `f + 3 + op.cost`):
    * defined: they end normally in a state `σ'` from which the continuation runs (fuel `f + 3`); the invariant holds for the
      abstract successor; `σ'` differs from `σ` in `steps`, the current activation and the file component only; and the file
      component has kept every other name `m ≠ n` — handles and disk node (`Kept`). The activation is `a` itself, or `a` with
      one good variable set to a value of the class (GETRECORD);
    * undefined: the block ends with the operation's runtime diagnostic in the state `tickSt σ`. -/
theorem run_op_cont (f : Nat) (op : ROp) (inv : RInv C σ n q a rest) (hvars : VarsOK C a [op])
    (hb : σ.steps + op.cost ≤ σ.stepLimit) (more : Block) :
    (∀ q' a', specStep q a op = some (q', a') →
      ∃ σ', (runBlock (f + 3 + op.cost) (op.stmts n ++ more)).run.run σ = (runBlock (f + 3) more).run.run σ' ∧
        RInv C σ' n q' a' rest ∧ StFrame σ σ' op.cost (a' :: rest) ∧
        (∀ m, m ≠ n → Kept (fileSt σ) (fileSt σ') m) ∧
        (a' = a ∨ ∃ x v, GoodVar C a x ∧ C.T v ∧ a' = setVar a x v)) ∧
    (specStep q a op = none →
      (runBlock (f + 3 + op.cost) (op.stmts n ++ more)).run.run σ = errAt (tickSt σ) op.tok op.failMsg) := by
  cases op with
  | seek t tn tk k =>
    have hb' : σ.steps + 1 ≤ σ.stepLimit := hb
    constructor
    · intro q' a' hs
      simp only [specStep, Option.map_eq_some_iff, Prod.mk.injEq] at hs
      obtain ⟨q1, hk, rfl, rfl⟩ := hs
      obtain ⟨σ', hrun, inv', hfr, hkept⟩ := step_seek_kept inv f t tn tk k q1 hb' hk
      exact ⟨σ', run_runBlock_cons (f+3) _ more σ σ' hrun, inv', (StFrame.fs_only hfr inv.acts).1, hkept, Or.inl rfl⟩
    · intro hs
      have hk : q.seek k = none := by
        cases hk : q.seek k with
        | none => rfl
        | some q1 => simp [specStep, hk] at hs
      exact run_runBlock_cons_err (f+3) _ more σ _ _ (step_seek_fail inv f t tn tk k hb' hk)
  | put t tn x =>
    have hb' : σ.steps + 1 ≤ σ.stepLimit := hb
    obtain ⟨ty, v, hx, hp, hv⟩ := hvars _ (List.mem_cons_self ..) x.val rfl
    have hval : varVal a x.val = some v := by
      obtain ⟨s, hs, _, _, _, hsv⟩ := hx
      unfold varVal; rw [hs, ← hsv]; rfl
    constructor
    · intro q' a' hs
      simp only [specStep, hval, Option.map_some, Option.some.injEq, Prod.mk.injEq] at hs
      obtain ⟨rfl, rfl⟩ := hs
      obtain ⟨σ', hrun, inv', hfr, hkept⟩ := step_put_kept inv f t tn x ty v hb' hx hp hv
      exact ⟨σ', run_runBlock_cons (f+3) _ more σ σ' hrun, inv', (StFrame.fs_only hfr inv.acts).1, hkept, Or.inl rfl⟩
    · intro hs
      simp [specStep, hval] at hs
  | get t tn x =>
    have hb' : σ.steps + 1 ≤ σ.stepLimit := hb
    have hx : GoodVar C a x.val := hvars _ (List.mem_cons_self ..) x.val rfl
    constructor
    · intro q' a' hs
      simp only [specStep, Option.map_eq_some_iff, Prod.mk.injEq] at hs
      obtain ⟨v, hg, rfl, rfl⟩ := hs
      obtain ⟨hrun, inv', hvT⟩ := step_get_ok inv f t tn x v hb' hx hg
      exact ⟨_, run_runBlock_cons (f+3) _ more σ _ hrun, inv', rfl, fun m _ => Kept.refl _ m, Or.inr ⟨x.val, v, hx, hvT, rfl⟩⟩
    · intro hs
      have hg : q.get = none := by
        cases hg : q.get with
        | none => rfl
        | some v => simp [specStep, hg] at hs
      exact run_runBlock_cons_err (f+3) _ more σ _ _ (step_get_fail inv f t tn x hb' hx hg)
  | reopen t tn t' tn' =>
    have hb' : σ.steps + 2 ≤ σ.stepLimit := hb
    constructor
    · intro q' a' hs
      simp only [specStep, Option.some.injEq, Prod.mk.injEq] at hs
      obtain ⟨rfl, rfl⟩ := hs
      obtain ⟨σ1, σ', e1, e2, inv', hfr, hkept⟩ := step_reopen_kept inv (f+1) f t tn t' tn' hb'
      refine ⟨σ', ?_, inv', ?_, hkept, Or.inl rfl⟩
      · show (runBlock (f + 3 + 1 + 1) (_ :: _ :: more)).run.run σ = _
        have e : f + 3 + 1 = f + 1 + 3 := by omega
        rw [e, run_runBlock_cons (f+1+3) _ _ σ σ1 e1, ← e, run_runBlock_cons (f+3) _ _ σ1 σ' e2]
      · show StFrame σ σ' 2 (a :: rest)
        unfold StFrame
        rw [← inv.acts]
        exact hfr
    · intro hs
      simp [specStep] at hs

end Exec

/-- good variables stay good over one operation -/
theorem goodVar_step_same' {defs : Codec.Defs} {C : RecClass defs} {a a' : Act}
    (ha : a' = a ∨ ∃ x v, GoodVar C a x ∧ C.T v ∧ a' = setVar a x v) : ∀ y, GoodVar C a y → GoodVar C a' y := by
  intro y hy
  rcases ha with rfl | ⟨x, v, hx, hv, rfl⟩
  · exact hy
  · exact hy.setVar hx v hv

end Pseudo.RandomFile2
