import PseudoProofs.AtomicRestSim
/-!
# `out` is write-only in the whole evaluator (`osim_all`), in `runMain` and `runOn`
-/
namespace Pseudo
namespace OutSim

macro_rules | `(tactic| osim_step) => `(tactic| with_reducible apply OSimAt.catchNotDefined)
macro_rules | `(tactic| osim_step) => `(tactic| contradiction)
macro_rules | `(tactic| osim_step) => `(tactic| with_reducible apply OSimAt.tryCatch)

structure AllOSim (f : Nat) : Prop where
  defaultVal : ∀ t ty, OSim (defaultVal f t ty)
  defaultCells : ∀ t ty n acc, OSim (defaultCells f t ty n acc)
  evalArgs : ∀ es acc, OSim (evalArgs f es acc)
  evalIndices : ∀ es dims acc, OSim (evalIndices f es dims acc)
  resolveRef : ∀ r, OSim (resolveRef f r)
  callFun : ∀ t args, OSim (callFun f t args)
  bindParams : ∀ t ps es vs acc, OSim (bindParams f t ps es vs acc)
  evalExpr : ∀ e, OSim (evalExpr f e)
  execAssign : ∀ t r rhs, OSim (execAssign f t r rhs)
  runBlock : ∀ b, OSim (runBlock f b)
  ifChain : ∀ t bs els, OSim (ifChain f t bs els)
  caseMatch : ∀ v cl, OSim (caseMatch f v cl)
  caseClauses : ∀ v cls, OSim (caseClauses f v cls)
  loopBody : ∀ b, OSim (loopBody f b)
  whileLoop : ∀ t c b, OSim (whileLoop f t c b)
  repeatLoop : ∀ t b c, OSim (repeatLoop f t b c)
  forLoop : ∀ t it stop step b, OSim (forLoop f t it stop step b)
  callProc : ∀ t name args, OSim (callProc f t name args)
  resolveParams : ∀ ps acc, OSim (resolveParams f ps acc)
  evalBounds : ∀ bs acc, OSim (evalBounds f bs acc)
  declareVars : ∀ t ids ty, OSim (declareVars f t ids ty)
  declareArrs : ∀ t ids ty dims, OSim (declareArrs f t ids ty dims)
  outputAll : ∀ es, OSim (outputAll f es)
  fileName : ∀ t e, OSim (fileName f t e)
  execStmt : ∀ s, OSim (execStmt f s)

set_option hygiene false in
macro_rules | `(tactic| osim_ih) => `(tactic| first
  | apply ih.evalExpr | apply ih.resolveRef | apply ih.evalArgs | apply ih.evalIndices | apply ih.callFun
  | apply ih.bindParams | apply ih.execAssign | apply ih.runBlock | apply ih.ifChain | apply ih.caseMatch
  | apply ih.caseClauses | apply ih.loopBody | apply ih.whileLoop | apply ih.repeatLoop | apply ih.forLoop
  | apply ih.callProc | apply ih.resolveParams | apply ih.evalBounds | apply ih.declareVars | apply ih.declareArrs
  | apply ih.outputAll | apply ih.fileName | apply ih.execStmt | apply ih.defaultVal | apply ih.defaultCells)

open Lean in
macro "osim_fn " id:ident : tactic =>
  `(tactic| (apply OSim.of_run; intro τ o1 o2; rw [$(mkIdent (id.getId ++ `eq_def)):ident]; try dsimp only
             osim_auto))

section induction
variable {f : Nat}

theorem AllOSim.zero : AllOSim 0 where
  defaultVal _ _ := by osim_fn defaultVal
  defaultCells _ _ _ _ := by osim_fn defaultCells
  evalArgs _ _ := by osim_fn evalArgs
  evalIndices _ _ _ := by osim_fn evalIndices
  resolveRef _ := by osim_fn resolveRef
  callFun _ _ := by osim_fn callFun
  bindParams _ _ _ _ _ := by osim_fn bindParams
  evalExpr _ := by osim_fn evalExpr
  execAssign _ _ _ := by osim_fn execAssign
  runBlock _ := by osim_fn runBlock
  ifChain _ _ _ := by osim_fn ifChain
  caseMatch _ _ := by osim_fn caseMatch
  caseClauses _ _ := by osim_fn caseClauses
  loopBody _ := by osim_fn loopBody
  whileLoop _ _ _ := by osim_fn whileLoop
  repeatLoop _ _ _ := by osim_fn repeatLoop
  forLoop _ _ _ _ _ := by osim_fn forLoop
  callProc _ _ _ := by osim_fn callProc
  resolveParams _ _ := by osim_fn resolveParams
  evalBounds _ _ := by osim_fn evalBounds
  declareVars _ _ _ := by osim_fn declareVars
  declareArrs _ _ _ _ := by osim_fn declareArrs
  outputAll _ := by osim_fn outputAll
  fileName _ _ := by osim_fn fileName
  execStmt _ := by osim_fn execStmt

theorem ostep_defaultVal (ih : AllOSim f) : ∀ t ty, OSim (defaultVal (f+1) t ty) := by
  intro t ty; osim_fn defaultVal

theorem ostep_defaultCells (ih : AllOSim f) : ∀ t ty n acc, OSim (defaultCells (f+1) t ty n acc) := by
  intro t ty n acc; osim_fn defaultCells

theorem ostep_evalArgs (ih : AllOSim f) : ∀ es acc, OSim (evalArgs (f+1) es acc) := by
  intro es acc; osim_fn evalArgs

theorem ostep_evalIndices (ih : AllOSim f) : ∀ es dims acc, OSim (evalIndices (f+1) es dims acc) := by
  intro es dims acc; osim_fn evalIndices

theorem ostep_resolveRef (ih : AllOSim f) : ∀ r, OSim (resolveRef (f+1) r) := by
  intro r; osim_fn resolveRef

set_option maxHeartbeats 2000000 in
theorem ostep_callFun (ih : AllOSim f) : ∀ t args, OSim (callFun (f+1) t args) := by
  intro t args; osim_fn callFun

theorem ostep_bindParams (ih : AllOSim f) : ∀ t ps es vs acc, OSim (bindParams (f+1) t ps es vs acc) := by
  intro t ps es vs acc; osim_fn bindParams

theorem ostep_evalExpr (ih : AllOSim f) : ∀ e, OSim (evalExpr (f+1) e) := by
  intro e; osim_fn evalExpr

theorem ostep_execAssign (ih : AllOSim f) : ∀ t r rhs, OSim (execAssign (f+1) t r rhs) := by
  intro t r rhs; osim_fn execAssign

theorem ostep_ifChain (ih : AllOSim f) : ∀ t bs els, OSim (ifChain (f+1) t bs els) := by
  intro t bs els; osim_fn ifChain

theorem ostep_caseMatch (ih : AllOSim f) : ∀ v cl, OSim (caseMatch (f+1) v cl) := by
  intro v cl; osim_fn caseMatch

theorem ostep_caseClauses (ih : AllOSim f) : ∀ v cls, OSim (caseClauses (f+1) v cls) := by
  intro v cls; osim_fn caseClauses

theorem ostep_loopBody (ih : AllOSim f) : ∀ b, OSim (loopBody (f+1) b) := by
  intro b; osim_fn loopBody

theorem ostep_whileLoop (ih : AllOSim f) : ∀ t c b, OSim (whileLoop (f+1) t c b) := by
  intro t c b; osim_fn whileLoop

theorem ostep_repeatLoop (ih : AllOSim f) : ∀ t b c, OSim (repeatLoop (f+1) t b c) := by
  intro t b c; osim_fn repeatLoop

theorem ostep_forLoop (ih : AllOSim f) : ∀ t it stop step b, OSim (forLoop (f+1) t it stop step b) := by
  intro t it stop step b; osim_fn forLoop

set_option maxHeartbeats 2000000 in
theorem ostep_callProc (ih : AllOSim f) : ∀ t name args, OSim (callProc (f+1) t name args) := by
  intro t name args; osim_fn callProc

theorem ostep_resolveParams (ih : AllOSim f) : ∀ ps acc, OSim (resolveParams (f+1) ps acc) := by
  intro ps acc; osim_fn resolveParams

theorem ostep_evalBounds (ih : AllOSim f) : ∀ bs acc, OSim (evalBounds (f+1) bs acc) := by
  intro bs acc; osim_fn evalBounds

theorem ostep_declareVars (ih : AllOSim f) : ∀ t ids ty, OSim (declareVars (f+1) t ids ty) := by
  intro t ids ty; osim_fn declareVars

theorem ostep_declareArrs (ih : AllOSim f) : ∀ t ids ty dims, OSim (declareArrs (f+1) t ids ty dims) := by
  intro t ids ty dims; osim_fn declareArrs

theorem ostep_outputAll (ih : AllOSim f) : ∀ es, OSim (outputAll (f+1) es) := by
  intro es; osim_fn outputAll

theorem ostep_fileName (ih : AllOSim f) : ∀ t e, OSim (fileName (f+1) t e) := by
  intro t e; osim_fn fileName

set_option maxHeartbeats 2000000 in
theorem ostep_execStmt (ih : AllOSim f) : ∀ s, OSim (execStmt (f+1) s) := by
  intro s; osim_fn execStmt

theorem ostep_runBlock (ih : AllOSim f) : ∀ b, OSim (runBlock (f+1) b) := by
  intro b; osim_fn runBlock

theorem AllOSim.succ (ih : AllOSim f) : AllOSim (f + 1) where
  defaultVal := ostep_defaultVal ih
  defaultCells := ostep_defaultCells ih
  evalArgs := ostep_evalArgs ih
  evalIndices := ostep_evalIndices ih
  resolveRef := ostep_resolveRef ih
  callFun := ostep_callFun ih
  bindParams := ostep_bindParams ih
  evalExpr := ostep_evalExpr ih
  execAssign := ostep_execAssign ih
  runBlock := ostep_runBlock ih
  ifChain := ostep_ifChain ih
  caseMatch := ostep_caseMatch ih
  caseClauses := ostep_caseClauses ih
  loopBody := ostep_loopBody ih
  whileLoop := ostep_whileLoop ih
  repeatLoop := ostep_repeatLoop ih
  forLoop := ostep_forLoop ih
  callProc := ostep_callProc ih
  resolveParams := ostep_resolveParams ih
  evalBounds := ostep_evalBounds ih
  declareVars := ostep_declareVars ih
  declareArrs := ostep_declareArrs ih
  outputAll := ostep_outputAll ih
  fileName := ostep_fileName ih
  execStmt := ostep_execStmt ih

end induction

/-- **`out` is write-only**: all 25 functions of the evaluator, every fuel, run in lockstep from two states that differ in
    `out` only, and append the same chunks -/
theorem osim_all : ∀ fuel, AllOSim fuel
  | 0 => AllOSim.zero
  | f + 1 => (osim_all f).succ

/-- whole programs / REPL entries (`MainBlock::run`) -/
theorem osim_runMain (f : Nat) (b : Block) : OSim (runMain f b) := by
  apply OSim.of_run
  intro τ o1 o2
  unfold runMain
  refine OSimAt.tryCatch (((osim_all f).runBlock b).run τ o1 o2) ?_
  intro e τ o1 o2
  osim_auto

end OutSim
end Pseudo
