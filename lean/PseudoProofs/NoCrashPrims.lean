import PseudoProofs.NoCrash
/-!
# C01: the primitives of `State.lean` / `Eval.lean` (outside the mutual block) in the Hoare layer
-/
namespace Pseudo.NC
open Pseudo

/-- exception postconditions that contain every harmless exception -/
class EOK (E : St → Stop → Prop) : Prop where
  of_nr : ∀ σ e, ErrNR σ e → E σ e

instance : EOK ErrNR := ⟨fun _ _ h => h⟩
instance : EOK ErrOK := ⟨fun _ _ h => h.1⟩

/-! ### read-only steps -/

section ro
variable {α β : Type} {σ : St}

theorem RO.pure (a : α) : RO (Pure.pure a : M α) σ (· = a) := ⟨rfl, rfl⟩

theorem RO.throw_diag (d : Diag) (post : α → Prop) : RO (throw (.diag d) : M α) σ post := ⟨rfl, errNR_diag σ d⟩

theorem RO.bind {m : M α} {f : α → M β} {p : α → Prop} {q : β → Prop} (hm : RO m σ p) (hf : ∀ a, p a → RO (f a) σ q) :
    RO (m >>= f) σ q := by
  unfold RO at *
  rcases h : m.run.run σ with ⟨e | a, σ'⟩
  · rw [run_bind_err m f σ σ' e h]
    rw [h] at hm
    exact hm
  · rw [run_bind_ok m f σ σ' a h]
    rw [h] at hm
    obtain ⟨rfl, hp⟩ := hm
    exact hf a hp

theorem RO.get_bind {f : St → M β} {q : β → Prop} (h : RO (f σ) σ q) : RO ((MonadState.get : M St) >>= f) σ q := by
  unfold RO at *
  rw [run_bind_ok _ _ _ _ _ (run_get σ)]
  exact h

theorem RO.mono {m : M α} {p q : α → Prop} (h : RO m σ p) (hpq : ∀ a, p a → q a) : RO m σ q := by
  unfold RO at *
  refine ⟨h.1, ?_⟩
  have := h.2
  split <;> rename_i heq <;> rw [heq] at this
  · exact hpq _ this
  · exact this

theorem WF.top (h : WF σ) : ∃ a rest, σ.acts = a :: rest := by
  cases hσ : σ.acts with
  | nil => exact absurd hσ h.ne
  | cons a rest => exact ⟨a, rest, rfl⟩

theorem WF.topOK (h : WF σ) {a : Act} {rest : List Act} (hσ : σ.acts = a :: rest) : ActOK rest a := by
  have := h.stack; rw [hσ] at this; exact this.1

theorem StackOK.mem : ∀ {acts : List Act} {a : Act}, StackOK acts → a ∈ acts → ∃ deeper, ActOK deeper a
  | b :: rest, a, h, hm => by
    rcases List.mem_cons.1 hm with rfl | hm
    · exact ⟨rest, h.1⟩
    · exact StackOK.mem h.2.2 hm

theorem WF.memOK (h : WF σ) {a : Act} (ha : a ∈ σ.acts) : ∃ deeper, ActOK deeper a := h.stack.mem ha

theorem ro_get : RO (get : M St) σ (· = σ) := ⟨rfl, rfl⟩

theorem ro_curAct (hW : WF σ) : RO curAct σ (fun a => ∃ rest, σ.acts = a :: rest) := by
  obtain ⟨a, rest, hσ⟩ := hW.top
  unfold curAct
  apply RO.get_bind
  rw [hσ]
  exact ⟨rfl, ⟨rest, rfl⟩⟩

theorem ro_globalAct (hW : WF σ) : RO globalAct σ (fun g => σ.acts.getLast? = some g) := by
  unfold globalAct
  apply RO.get_bind
  cases h : σ.acts.getLast? with
  | none => exact absurd (List.getLast?_eq_none_iff.1 h) hW.ne
  | some g => exact ⟨rfl, rfl⟩

theorem ro_scopeAct (hW : WF σ) : RO scopeAct σ (fun a => ∃ rest, σ.acts = a :: rest) := by
  obtain ⟨a, rest, hσ⟩ := hW.top
  have hc := (hW.topOK hσ).isComp
  unfold scopeAct
  apply RO.get_bind
  rw [hσ]
  simp only [List.find?, hc, Bool.not_false]
  exact ⟨rfl, ⟨rest, rfl⟩⟩

theorem ro_typeScopeAct (hW : WF σ) : RO typeScopeAct σ (fun a => ∃ rest, σ.acts = a :: rest) := by
  obtain ⟨a, rest, hσ⟩ := hW.top
  have hc := (hW.topOK hσ).isComp
  unfold typeScopeAct
  apply RO.get_bind
  rw [hσ]
  simp only [List.takeWhile, hc, List.any_nil, Bool.false_eq_true, if_false]
  rw [← hσ]
  exact ro_scopeAct hW

theorem ro_findAct (id : Nat) : RO (findAct id) σ (· = σ.acts.find? (·.id == id)) := ⟨rfl, rfl⟩
theorem ro_isLive (id : Nat) : RO (isLive id) σ (fun _ => True) := ⟨rfl, trivial⟩

theorem ro_rtErr (t : Tok) (m : Msg) (post : α → Prop) : RO (rtErr t m : M α) σ post := by
  obtain ⟨d, hd, _⟩ := rtErr_run (α := α) t m σ
  unfold RO; rw [hd]; exact ⟨rfl, errNR_diag σ d⟩

theorem ro_rtErr0 (m : Msg) (post : α → Prop) : RO (rtErr0 m : M α) σ post := by
  obtain ⟨d, hd, _⟩ := rtErr0_run (α := α) m σ
  unfold RO; rw [hd]; exact ⟨rfl, errNR_diag σ d⟩

theorem ro_pedErr (t : Tok) (m : Msg) (post : α → Prop) : RO (pedErr t m : M α) σ post := ⟨rfl, errNR_diag σ _⟩

theorem ro_liftMsg (t : Tok) (x : Except Msg α) : RO (liftMsg t x) σ (fun a => x = .ok a) := by
  cases x with
  | ok a => exact ⟨rfl, rfl⟩
  | error m => exact ro_rtErr t m _

theorem ro_liftMsg0 (x : Except Msg α) : RO (liftMsg0 x) σ (fun a => x = .ok a) := by
  cases x with
  | ok a => exact ⟨rfl, rfl⟩
  | error m => exact ro_rtErr0 m _

theorem ro_lookupVar (hW : WF σ) (n : Str) :
    RO (lookupVar n) σ (fun r => ∃ a rest g, σ.acts = a :: rest ∧ σ.acts.getLast? = some g ∧ r = lookupVarIn a g n) := by
  unfold lookupVar
  refine RO.bind (ro_curAct hW) fun a ⟨rest, ha⟩ => RO.bind (ro_globalAct hW) fun g hg => ?_
  exact ⟨rfl, a, rest, g, ha, hg, rfl⟩

theorem ro_lookupArr (hW : WF σ) (n : Str) :
    RO (lookupArr n) σ (fun r => ∃ a rest g, σ.acts = a :: rest ∧ σ.acts.getLast? = some g ∧ r = lookupArrIn a g n) := by
  unfold lookupArr
  refine RO.bind (ro_curAct hW) fun a ⟨rest, ha⟩ => RO.bind (ro_globalAct hW) fun g hg => ?_
  exact ⟨rfl, a, rest, g, ha, hg, rfl⟩

theorem getLast?_mem {l : List Act} {g : Act} (h : l.getLast? = some g) : g ∈ l := List.mem_of_getLast? h

/-- no activation has type definitions: every lookup of a type name fails -/
theorem ro_lookupList {γ : Type} (hW : WF σ) (sel : Act → List (Str × γ)) (hsel : ∀ d a, ActOK d a → sel a = [])
    (n : Str) (g : Bool) : RO (lookupList sel n g) σ (· = none) := by
  unfold lookupList
  refine RO.bind (ro_typeScopeAct hW) fun a ⟨rest, ha⟩ => RO.bind (ro_globalAct hW) fun gl hg => ?_
  have h1 : sel a = [] := hsel _ _ (hW.topOK ha)
  obtain ⟨d, hd⟩ := hW.memOK (getLast?_mem hg)
  have h2 : sel gl = [] := hsel _ _ hd
  rw [h1, h2]
  simp only [List.find?]
  split <;> exact ⟨rfl, rfl⟩

theorem ro_enumDefOf (hW : WF σ) (n : Str) (g : Bool) : RO (enumDefOf n g) σ (· = none) :=
  ro_lookupList hW _ (fun _ _ h => h.enums) n g
theorem ro_ptrDefOf (hW : WF σ) (n : Str) (g : Bool) : RO (ptrDefOf n g) σ (· = none) :=
  ro_lookupList hW _ (fun _ _ h => h.ptrs) n g
theorem ro_compDefOf (hW : WF σ) (n : Str) (g : Bool) : RO (compDefOf n g) σ (· = none) :=
  ro_lookupList hW _ (fun _ _ h => h.comps) n g

/-- without type definitions a type token denotes a primitive type or nothing -/
theorem ro_getType (hW : WF σ) (t : Tok) (g : Bool) :
    RO (getType t g) σ (fun ty => ty = .none ∨ ty.isPrimitive = true) := by
  unfold getType
  split
  · repeat' split
    all_goals exact ⟨rfl, Or.inr rfl⟩
  · refine RO.bind (ro_enumDefOf hW _ _) fun _ h => ?_
    subst h
    refine RO.bind (ro_ptrDefOf hW _ _) fun _ h => ?_
    subst h
    refine RO.bind (ro_compDefOf hW _ _) fun _ h => ?_
    subst h
    exact ⟨rfl, Or.inl rfl⟩

theorem ro_getEnumElement (hW : WF σ) (v : Str) (g : Bool) : RO (getEnumElement v g) σ (· = none) := by
  unfold getEnumElement
  refine RO.bind (ro_typeScopeAct hW) fun a ⟨rest, ha⟩ => RO.bind (ro_globalAct hW) fun gl hg => ?_
  have h1 : a.enums = [] := (hW.topOK ha).enums
  obtain ⟨d, hd⟩ := hW.memOK (getLast?_mem hg)
  have h2 : gl.enums = [] := hd.enums
  simp only [enumElemIn, h1, h2, List.findSome?]
  split <;> exact ⟨rfl, rfl⟩

theorem ro_isIdentifierType (hW : WF σ) (t : Tok) (g : Bool) : RO (isIdentifierType t g) σ (fun _ => True) := by
  unfold isIdentifierType
  refine RO.bind (ro_getType hW t g) fun ty _ => ?_
  split
  · exact ⟨rfl, trivial⟩
  · exact RO.bind (ro_getEnumElement hW _ _) fun _ _ => ⟨rfl, trivial⟩

theorem ro_readLoc {l : Loc} {v : Val} (h : ReadsIn σ.acts l v) : RO (readLoc l) σ (· = v) := by
  obtain ⟨a, s, h1, h2, h3⟩ := h
  unfold readLoc
  refine RO.bind (ro_findAct _) fun _ hx => ?_
  subst hx
  rw [h1]; dsimp only
  rw [h2]; dsimp only
  rw [h3]
  exact ⟨rfl, rfl⟩

theorem ro_locIsConst (l : Loc) : RO (locIsConst l) σ (fun _ => True) := by
  unfold locIsConst
  refine RO.bind (ro_findAct _) fun _ _ => ?_
  split <;> exact ⟨rfl, trivial⟩

theorem ro_outputText {v : Val} (hv : simple v = true) : RO (outputText v) σ (fun _ => True) := by
  unfold outputText
  cases v <;> first | exact ⟨rfl, trivial⟩ | simp [simple] at hv

theorem ro_filePre (t : Tok) (op : FOp) : RO (filePre t op) σ (fun _ => True) := by
  unfold filePre
  apply RO.get_bind
  split
  · exact ⟨rfl, trivial⟩
  · exact ro_rtErr _ _ _

theorem ro_codecDefs (hW : WF σ) : RO codecDefs σ (fun _ => True) := by
  unfold codecDefs
  exact RO.bind (ro_scopeAct hW) fun a _ => RO.bind (ro_globalAct hW) fun gl _ => ⟨rfl, trivial⟩

theorem ro_writeText (t : Tok) (v : Val) : RO (writeText t v) σ (fun _ => True) := by
  unfold writeText
  cases v <;> first | exact ro_rtErr _ _ _ | (dsimp only [primToString]; exact ⟨rfl, trivial⟩)

end ro


/-! ### state-changing steps -/

set_option linter.unusedSectionVars false

section changing
variable {α β : Type} {σ : St} {E : St → Stop → Prop} [EOK E]

/-- a step that leaves the stack, `nextId`, the procedures and the functions alone and raises only diagnostics -/
theorem run_frame {m : M α} {Q : α → St → Prop} (hW : WF σ)
    (h : (m.run.run σ).2.acts = σ.acts ∧ (m.run.run σ).2.nextId = σ.nextId ∧ (m.run.run σ).2.procs = σ.procs ∧
      (m.run.run σ).2.funs = σ.funs ∧
      match (m.run.run σ).1 with | .ok a => Q a (m.run.run σ).2 | .error e => ∃ d, e = .diag d) :
    Run m σ (ResE σ Q E) := by
  obtain ⟨h1, h2, h3, h4, h5⟩ := h
  refine ⟨hW.of_acts_eq h1 h2 h3 h4, Ext.of_acts_eq h1 h2, ?_⟩
  split <;> rename_i heq <;> rw [heq] at h5
  · exact h5
  · obtain ⟨d, rfl⟩ := h5; exact EOK.of_nr _ _ (errNR_diag _ d)

theorem run_modify_frame (hW : WF σ) (f : St → St) (h1 : (f σ).acts = σ.acts) (h2 : (f σ).nextId = σ.nextId)
    (h3 : (f σ).procs = σ.procs) (h4 : (f σ).funs = σ.funs) :
    Run (modify f : M PUnit) σ (ResE σ (fun _ _ => True) E) :=
  run_frame hW ⟨h1, h2, h3, h4, trivial⟩

theorem run_emit (hW : WF σ) (x : Str) : Run (emit x) σ (ResE σ (fun _ _ => True) E) :=
  run_modify_frame hW _ rfl rfl rfl rfl

theorem run_tick (hW : WF σ) (t : Tok) : Run (tick t) σ (ResE σ (fun _ _ => True) E) := by
  apply run_frame hW
  unfold tick
  rw [run_bind_ok _ _ _ _ _ (run_get σ)]
  split
  · obtain ⟨d, hd, _⟩ := rtErr_run (α := Unit) t .budget σ
    rw [hd]; exact ⟨rfl, rfl, rfl, rfl, d, rfl⟩
  · exact ⟨rfl, rfl, rfl, rfl, trivial⟩

theorem run_getLine (hW : WF σ) : Run getLine σ (ResE σ (fun _ _ => True) E) := by
  apply run_frame hW
  unfold getLine
  rw [run_bind_ok _ _ _ _ _ (run_get σ)]
  split
  · exact ⟨rfl, rfl, rfl, rfl, trivial⟩
  · dsimp only
    split <;> exact ⟨rfl, rfl, rfl, rfl, trivial⟩

theorem run_doFile (hW : WF σ) (t : Tok) (op : FOp) :
    Run (doFile t op) σ (ResE σ (fun r _ => ∃ s s', fstep s op = .ok (s', r)) E) := by
  apply run_frame hW
  unfold doFile
  rw [run_bind_ok _ _ _ _ _ (run_get σ)]
  split
  · rename_i f r heq
    exact ⟨rfl, rfl, rfl, rfl, _, _, heq⟩
  · rename_i m _
    obtain ⟨d, hd, _⟩ := rtErr_run (α := FRes) t m σ
    rw [hd]; exact ⟨rfl, rfl, rfl, rfl, d, rfl⟩

theorem run_addProc (hW : WF σ) (p : ProcDef) (hp : ProcOK p) :
    Run (modify fun st => { st with procs := st.procs ++ [p] } : M PUnit) σ (ResE σ (fun _ _ => True) E) := by
  refine ⟨⟨hW.ne, hW.stack, hW.below, ?_, hW.funs⟩, Ext.of_acts_eq rfl rfl, trivial⟩
  intro q hq
  rcases List.mem_append.1 hq with hq | hq
  · exact hW.procs q hq
  · rw [List.mem_singleton.1 hq]; exact hp

theorem run_addFun (hW : WF σ) (p : FunDef) (hp : FunOK p) :
    Run (modify fun st => { st with funs := st.funs ++ [p] } : M PUnit) σ (ResE σ (fun _ _ => True) E) := by
  refine ⟨⟨hW.ne, hW.stack, hW.below, hW.procs, ?_⟩, Ext.of_acts_eq rfl rfl, trivial⟩
  intro q hq
  rcases List.mem_append.1 hq with hq | hq
  · exact hW.funs q hq
  · rw [List.mem_singleton.1 hq]; exact hp

/-- `modifyAct` with an update that keeps the readable cells and the well-formedness of the activation -/
theorem run_modifyAct (hW : WF σ) (id : Nat) (f : Act → Act)
    (hk : ∀ a ∈ σ.acts, a.id = id → ActKeep a (f a))
    (hok : ∀ deeper a, a ∈ σ.acts → a.id = id → ActOK deeper a → ActOK deeper (f a)) :
    Run (modifyAct id f) σ (ResE σ (fun _ σ' => σ' = updSt σ id f) E) :=
  ⟨hW.updSt hk hok, Ext.updSt hk, rfl⟩

/-- updates of the bookkeeping fields -/
theorem ActKeep.of_eq {a a' : Act} (h1 : a'.id = a.id) (h2 : a'.isFn = a.isFn) (h3 : a'.vars = a.vars)
    (h4 : a'.arrs = a.arrs) : ActKeep a a' :=
  ⟨h1, h2, fun isArr name path v ⟨s, hs, hp⟩ => ⟨v, ⟨s, by rw [h3, h4]; exact hs, hp⟩, SameKind.refl v⟩⟩

theorem run_setSwitchTok (hW : WF σ) (id : Nat) (v : Option (Nat × Nat)) :
    Run (modifyAct id fun a => { a with switchTok := v }) σ (ResE σ (fun _ _ => True) E) := by
  refine (run_modifyAct (E := E) hW id (fun a => { a with switchTok := v }) (fun _ _ _ => ActKeep.of_eq rfl rfl rfl rfl)
    (fun _ _ _ _ h => ⟨h.vars, h.arrs, h.enums, h.ptrs, h.comps, h.isComp, h.retVal⟩)).mono ?_
  exact fun _ _ h => h.weaken (fun _ _ => trivial) (fun _ e => e)

theorem run_setRetVal (hW : WF σ) (id : Nat) (v : Val) (hv : simple v = true) :
    Run (modifyAct id fun a => { a with retVal := some v }) σ (ResE σ (fun _ _ => True) E) := by
  refine (run_modifyAct (E := E) hW id (fun a => { a with retVal := some v }) (fun _ _ _ => ActKeep.of_eq rfl rfl rfl rfl)
    (fun _ _ _ _ h => ⟨h.vars, h.arrs, h.enums, h.ptrs, h.comps, h.isComp, fun x hx => ?_⟩)).mono ?_
  · simp only [Option.some.injEq] at hx; subst hx; exact hv
  · exact fun _ _ h => h.weaken (fun _ _ => trivial) (fun _ e => e)

theorem findSlot_append (ss : List Slot) (s : Slot) (n : Str) :
    findSlot (ss ++ [s]) n = (findSlot ss n).or (if s.name == n then some s else none) := by
  unfold findSlot
  rw [List.find?_append]
  simp only [List.find?]
  cases s.name == n <;> rfl

theorem run_modifyCur (hW : WF σ) (f : Act → Act)
    (hk : ∀ a, ActKeep a (f a)) (hok : ∀ deeper a, ActOK deeper a → ActOK deeper (f a)) :
    Run (modifyCur f) σ (ResE σ (fun _ σ' => ∀ a rest, σ.acts = a :: rest → σ'.acts = f a :: rest) E) := by
  obtain ⟨a, rest, hσ⟩ := hW.top
  have hrun : (modifyCur f).run.run σ = (.ok ⟨⟩, updSt σ a.id f) := by
    unfold modifyCur
    have hc : curAct.run.run σ = (.ok a, σ) := by
      unfold curAct
      rw [run_bind_ok _ _ _ _ _ (run_get σ), hσ]; rfl
    rw [run_bind_ok _ _ _ _ _ hc]
    rfl
  unfold Run
  rw [hrun]
  refine ⟨hW.updSt (fun b _ _ => hk b) (fun d b _ _ => hok d b), Ext.updSt (fun b _ _ => hk b), ?_⟩
  intro a' rest' h
  rw [hσ] at h; cases h
  show updActs σ.acts a.id f = _
  rw [hσ]; unfold updActs; simp

/-- appending a variable with an own cell -/
theorem run_addVar (hW : WF σ) (s : Slot) (h1 : s.ref = none) (h2 : simple s.val = true) (h3 : s.val.ty = s.ty) :
    Run (addVar s) σ (ResE σ (fun _ σ' => ∀ a rest, σ.acts = a :: rest → findSlot a.vars s.name = none →
      ReadsIn σ'.acts ⟨a.id, false, s.name, []⟩ s.val) E) := by
  unfold addVar
  refine (run_modifyCur (E := E) hW _ ?_ ?_).mono fun r σ' h => ?_
  · intro a
    refine ⟨rfl, rfl, fun isArr name path v ⟨s0, hs0, hp⟩ => ⟨v, ⟨s0, ?_, hp⟩, SameKind.refl v⟩⟩
    cases isArr
    · simp only [Bool.false_eq_true, if_false] at hs0 ⊢
      rw [findSlot_append, hs0]; rfl
    · exact hs0
  · intro d a h
    refine ⟨fun s' hs' => ?_, h.arrs, h.enums, h.ptrs, h.comps, h.isComp, h.retVal⟩
    rcases List.mem_append.1 hs' with hs' | hs'
    · exact h.vars s' hs'
    · rw [List.mem_singleton.1 hs']
      unfold SlotOK; rw [h1]; exact ⟨h2, h3⟩
  · refine h.weaken (fun _ hq a rest hσ hnone => ?_) (fun _ e => e)
    rw [hq a rest hσ]
    refine (ReadsIn.cons_eq rfl).2 ⟨s, ?_, rfl⟩
    simp only [Bool.false_eq_true, if_false]
    rw [findSlot_append, hnone]
    simp

theorem run_addArr (hW : WF σ) (s : Slot) (hs : ArrSlotOK s) :
    Run (addArr s) σ (ResE σ (fun _ _ => True) E) := by
  unfold addArr
  refine (run_modifyCur (E := E) hW _ ?_ ?_).mono fun r σ' h => h.weaken (fun _ _ => trivial) (fun _ e => e)
  · intro a
    refine ⟨rfl, rfl, fun isArr name path v ⟨s0, hs0, hp⟩ => ⟨v, ⟨s0, ?_, hp⟩, SameKind.refl v⟩⟩
    cases isArr
    · exact hs0
    · simp only [if_true] at hs0 ⊢
      rw [findSlot_append, hs0]; rfl
  · intro d a h
    refine ⟨h.vars, fun s' hs' => ?_, h.enums, h.ptrs, h.comps, h.isComp, h.retVal⟩
    rcases List.mem_append.1 hs' with hs' | hs'
    · exact h.arrs s' hs'
    · rw [List.mem_singleton.1 hs']; exact hs


/-! ### `writeLoc` -/

theorem getPath_simple' {x : Val} (hx : simple x = true) (st : Step) (p : List Step) : getPath x (st :: p) = none := by
  cases x <;> first | rfl | (cases st <;> rfl) | simp [simple] at hx

theorem getPath_nil (x : Val) : getPath x [] = some x := by cases x <;> rfl
theorem setPath_nil (x v : Val) : setPath x [] v = some v := by cases x <;> rfl

/-- values that are stored in a slot: scalars or well-formed arrays -/
def Storable (x : Val) : Prop := simple x = true ∨ ∃ ty, ArrOK ty x

theorem getPath_arr_cons (e : Ty) (d : List (Int × Int)) (cells : List Val) (i : Nat) (q : List Step) :
    getPath (.arr e d cells) (.idx i :: q) = match cells[i]? with | some c => getPath c q | none => none := by
  rw [getPath.eq_def]; rfl

theorem getPath_arr_field (e : Ty) (d : List (Int × Int)) (cells : List Val) (n : Str) (q : List Step) :
    getPath (.arr e d cells) (.field n :: q) = none := by
  rw [getPath.eq_def]

theorem setPath_arr_cons (e : Ty) (d : List (Int × Int)) (cells : List Val) (i : Nat) (q : List Step) (v : Val) :
    setPath (.arr e d cells) (.idx i :: q) v = match cells[i]? with
      | some c => (match setPath c q v with | some c' => some (.arr e d (cells.set i c')) | none => none)
      | none => none := by
  rw [setPath.eq_def]; rfl

/-- reading a cell of a well-formed array: the path is one index, the cell is a scalar of the element type -/
theorem arr_read {ty : Ty} {dims : List (Int × Int)} {cells : List Val} (hc : ∀ c ∈ cells, simple c = true ∧ c.ty = ty)
    {st : Step} {q : List Step} {v0 : Val} (h : getPath (.arr ty dims cells) (st :: q) = some v0) :
    ∃ j, st = .idx j ∧ q = [] ∧ cells[j]? = some v0 ∧ simple v0 = true ∧ v0.ty = ty := by
  cases st with
  | field n => rw [getPath_arr_field] at h; cases h
  | idx j =>
    rw [getPath_arr_cons] at h
    cases hj : cells[j]? with
    | none => rw [hj] at h; cases h
    | some c =>
      rw [hj] at h; dsimp only at h
      have hcm := hc c (List.mem_of_getElem? hj)
      cases q with
      | nil => rw [getPath_nil] at h; cases h; exact ⟨j, rfl, rfl, hj, hcm⟩
      | cons st' q' => rw [getPath_simple' hcm.1] at h; cases h

/-- a store of the same kind at a readable path: it succeeds, the root keeps its kind, and so does every readable path -/
theorem setPath_kind {x : Val} (hx : Storable x) {p : List Step} {old v : Val} (hg : getPath x p = some old)
    (k : SameKind old v) :
    ∃ nv, setPath x p v = some nv ∧ SameKind x nv ∧
      ∀ p' v0, getPath x p' = some v0 → ∃ v', getPath nv p' = some v' ∧ SameKind v0 v' := by
  rcases hx with hx | ⟨ty, dims, cells, rfl, hlen, hc⟩
  · cases p with
    | cons st q => rw [getPath_simple' hx] at hg; cases hg
    | nil =>
      rw [getPath_nil] at hg; cases hg
      refine ⟨v, setPath_nil _ _, k, fun p' v0 h => ?_⟩
      cases p' with
      | cons st q => rw [getPath_simple' hx] at h; cases h
      | nil => rw [getPath_nil] at h; cases h; exact ⟨v, getPath_nil _, k⟩
  · cases p with
    | nil =>
      rw [getPath_nil] at hg; cases hg
      refine ⟨v, setPath_nil _ _, k, fun p' v0 h => ?_⟩
      cases p' with
      | nil => rw [getPath_nil] at h; cases h; exact ⟨v, getPath_nil _, k⟩
      | cons st q =>
        obtain ⟨j, rfl, rfl, hj, hs, ht⟩ := arr_read hc h
        rcases k with rfl | ⟨ha, _, _⟩ | ⟨ty2, dims2, cs, cs', heq, rfl, hl, hc2⟩
        · exact ⟨v0, h, SameKind.refl _⟩
        · simp [simple] at ha
        · cases heq
          have hjlt : j < cs'.length := by
            rw [hl]; exact (List.getElem?_eq_some_iff.1 hj).1
          refine ⟨cs'[j], ?_, ?_⟩
          · rw [getPath_arr_cons, List.getElem?_eq_getElem hjlt]; exact getPath_nil _
          · have := hc2 cs'[j] (List.getElem_mem hjlt)
            exact SameKind.of_simple hs this.1 (this.2.trans ht.symm)
    | cons st q =>
      obtain ⟨i, rfl, rfl, hi, hs, ht⟩ := arr_read hc hg
      obtain ⟨hvs, hvt⟩ := k.simp_ty hs
      have hilt : i < cells.length := (List.getElem?_eq_some_iff.1 hi).1
      have hcset : ∀ c ∈ cells.set i v, simple c = true ∧ c.ty = ty := by
        intro c hcm
        rcases List.mem_or_eq_of_mem_set hcm with hcm | rfl
        · exact hc c hcm
        · exact ⟨hvs, hvt.trans ht⟩
      refine ⟨.arr ty dims (cells.set i v), ?_, ?_, fun p' v0 h => ?_⟩
      · rw [setPath_arr_cons, hi]; dsimp only; rw [setPath_nil]
      · exact SameKind.of_arrOK rfl rfl (by simp) hcset
      · cases p' with
        | nil =>
          rw [getPath_nil] at h; cases h
          exact ⟨_, getPath_nil _, SameKind.of_arrOK rfl rfl (by simp) hcset⟩
        | cons st q =>
          obtain ⟨j, rfl, rfl, hj, hs0, ht0⟩ := arr_read hc h
          have hjlt : j < (cells.set i v).length := by
            rw [List.length_set]; exact (List.getElem?_eq_some_iff.1 hj).1
          refine ⟨(cells.set i v)[j], ?_, ?_⟩
          · rw [getPath_arr_cons, List.getElem?_eq_getElem hjlt]; exact getPath_nil _
          · have := hcset _ (List.getElem_mem hjlt)
            exact SameKind.of_simple hs0 this.1 (this.2.trans ht0.symm)

theorem findSlot_name {ss : List Slot} {n : Str} {s : Slot} (h : findSlot ss n = some s) : s.name = n := by
  have := List.find?_some h
  simpa using this

theorem findSlot_mem {ss : List Slot} {n : Str} {s : Slot} (h : findSlot ss n = some s) : s ∈ ss :=
  List.mem_of_find?_eq_some h

theorem findSlot_cons (c : Slot) (rest : List Slot) (n : Str) :
    findSlot (c :: rest) n = if (c.name == n) = true then some c else findSlot rest n := by
  unfold findSlot
  rw [List.find?]
  cases c.name == n <;> rfl

theorem findSlot_updSlot_eq {ss : List Slot} {n : Str} {f : Slot → Slot} {s : Slot} (h : findSlot ss n = some s)
    (hf : ∀ s, (f s).name = s.name) : findSlot (updSlot ss n f) n = some (f s) := by
  induction ss with
  | nil => cases h
  | cons c rest ih =>
    unfold updSlot
    rw [findSlot_cons] at h
    by_cases hc : (c.name == n) = true
    · rw [if_pos hc] at h ⊢
      cases h
      rw [findSlot_cons, hf, if_pos hc]
    · rw [if_neg hc] at h ⊢
      rw [findSlot_cons, if_neg hc]
      exact ih h

theorem findSlot_updSlot_ne {ss : List Slot} {n m : Str} {f : Slot → Slot} (hf : ∀ s, (f s).name = s.name) (h : m ≠ n) :
    findSlot (updSlot ss n f) m = findSlot ss m := by
  induction ss with
  | nil => rfl
  | cons c rest ih =>
    unfold updSlot
    by_cases hc : (c.name == n) = true
    · rw [if_pos hc]
      have h1 : ¬ (c.name == m) = true := by
        have : c.name = n := by simpa using hc
        rw [this]; simpa using fun e => h e.symm
      rw [findSlot_cons, findSlot_cons, hf, if_neg h1, if_neg h1]
    · rw [if_neg hc, findSlot_cons, findSlot_cons, ih]

theorem mem_updSlot {ss : List Slot} {n : Str} {f : Slot → Slot} {s' : Slot} (h : s' ∈ updSlot ss n f) :
    s' ∈ ss ∨ ∃ s0, findSlot ss n = some s0 ∧ s' = f s0 := by
  induction ss with
  | nil => simp [updSlot] at h
  | cons c rest ih =>
    unfold updSlot at h
    by_cases hc : (c.name == n) = true
    · rw [if_pos hc] at h
      rcases List.mem_cons.1 h with h | h
      · exact Or.inr ⟨c, by rw [findSlot_cons, if_pos hc], h⟩
      · exact Or.inl (List.mem_cons_of_mem _ h)
    · rw [if_neg hc] at h
      rcases List.mem_cons.1 h with h | h
      · exact Or.inl (h ▸ List.mem_cons_self)
      · rcases ih h with h | ⟨s0, h0, h1⟩
        · exact Or.inl (List.mem_cons_of_mem _ h)
        · exact Or.inr ⟨s0, by rw [findSlot_cons, if_neg hc]; exact h0, h1⟩

theorem StackOK.find_unique {acts : List Act} {id : Nat} {a b : Act} (h : StackOK acts)
    (hf : acts.find? (·.id == id) = some a) (hb : b ∈ acts) (hid : b.id = id) : b = a := by
  induction acts with
  | nil => cases hb
  | cons c rest ih =>
    by_cases hc : (c.id == id) = true
    · rw [List.find?, hc] at hf
      have hca : c = a := by simpa using hf
      rcases List.mem_cons.1 hb with hb | hb
      · exact hb.trans hca
      · have hcid : c.id = id := by simpa using hc
        exact absurd (hid.trans hcid.symm) (h.2.1 b hb)
    · have hc' : (c.id == id) = false := by simpa using hc
      rw [List.find?, hc'] at hf
      rcases List.mem_cons.1 hb with hb | hb
      · subst hb; exact absurd (by simpa using hid) hc
      · exact ih h.2.2 hf hb

theorem SlotOK.simple_val {d : List Act} {s : Slot} (h : SlotOK d s) : simple s.val = true := by
  unfold SlotOK at h
  split at h
  · exact h.1
  · exact h.1

/-- **`writeLoc` at a readable location with a value of the same kind**: no crash point, the state stays well-formed,
    every readable location stays readable with its kind -/
theorem run_writeLoc (hW : WF σ) (t : Tok) {l : Loc} {old : Val} (v : Val) (hr : ReadsIn σ.acts l old)
    (k : SameKind old v) : Run (writeLoc t l v) σ (ResE σ (fun _ _ => True) E) := by
  obtain ⟨a, s, h1, h2, h3⟩ := hr
  have ha : a ∈ σ.acts := List.mem_of_find?_eq_some h1
  have haid : a.id = l.act := by simpa using List.find?_some h1
  obtain ⟨deeper0, hok0⟩ := hW.memOK ha
  have hstor : Storable s.val := by
    unfold slotOf at h2
    cases hl : l.isArr
    · rw [hl] at h2
      exact Or.inl (hok0.vars s (findSlot_mem h2)).simple_val
    · rw [hl] at h2
      exact Or.inr ⟨_, (hok0.arrs s (findSlot_mem h2)).2⟩
  obtain ⟨nv, hset, knv, hpaths⟩ := setPath_kind hstor h3 k
  have hf : (findAct l.act).run.run σ = (.ok (some a), σ) := by
    show (Except.ok (σ.acts.find? (·.id == l.act)), σ) = _
    rw [h1]
  unfold writeLoc Run
  rw [run_bind_ok _ _ _ _ _ hf]
  dsimp only
  rw [h2]
  dsimp only
  by_cases hc : s.isConst = true
  · rw [if_pos hc]
    exact Run.of_ro (m := rtErr t .constAssign) hW (Ext.refl σ) (EOK.of_nr σ) (ro_rtErr _ _ (fun _ => False))
      (fun _ h => h.elim)
  · rw [if_neg hc, hset]
    dsimp only
    let g : Act → Act := fun a =>
      if l.isArr then { a with arrs := updSlot a.arrs l.name (fun s => { s with val := nv }) }
      else { a with vars := updSlot a.vars l.name (fun s => { s with val := nv }) }
    have hkeep : ∀ b ∈ σ.acts, b.id = a.id → ActKeep b (g b) := by
      intro b hb hid
      have : b = a := hW.stack.find_unique h1 hb (hid.trans haid)
      subst this
      refine ⟨by simp only [g]; split <;> rfl, by simp only [g]; split <;> rfl, ?_⟩
      intro isArr name path v0 ⟨s0, hs0, hp0⟩
      unfold slotOf at h2
      by_cases hsame : isArr = l.isArr ∧ name = l.name
      · obtain ⟨rfl, rfl⟩ := hsame
        have hss : s = s0 := by rw [h2] at hs0; exact Option.some.inj hs0
        subst hss
        obtain ⟨v', hv', kv⟩ := hpaths path v0 hp0
        refine ⟨v', ⟨{ s with val := nv }, ?_, hv'⟩, kv⟩
        simp only [g]
        cases hl : l.isArr
        · rw [hl] at h2
          simp only [Bool.false_eq_true, if_false]
          exact findSlot_updSlot_eq (f := fun s => { s with val := nv }) h2 (fun _ => rfl)
        · rw [hl] at h2
          simp only [if_true]
          exact findSlot_updSlot_eq (f := fun s => { s with val := nv }) h2 (fun _ => rfl)
      · refine ⟨v0, ⟨s0, ?_, hp0⟩, SameKind.refl v0⟩
        simp only [g]
        cases hl : l.isArr <;> cases hi : isArr <;> rw [hi] at hs0 <;>
          simp only [Bool.false_eq_true, if_false, if_true] at hs0 ⊢
        · have : name ≠ l.name := fun e => hsame ⟨by rw [hi, hl], e⟩
          rw [findSlot_updSlot_ne (f := fun s => { s with val := nv }) (fun _ => rfl) this]; exact hs0
        · exact hs0
        · exact hs0
        · have : name ≠ l.name := fun e => hsame ⟨by rw [hi, hl], e⟩
          rw [findSlot_updSlot_ne (f := fun s => { s with val := nv }) (fun _ => rfl) this]; exact hs0
    have hokg : ∀ deeper b, b ∈ σ.acts → b.id = a.id → ActOK deeper b → ActOK deeper (g b) := by
      intro deeper b hb hid hokb
      have : b = a := hW.stack.find_unique h1 hb (hid.trans haid)
      subst this
      unfold slotOf at h2
      simp only [g]
      cases hl : l.isArr
      · rw [hl] at h2
        simp only [Bool.false_eq_true, if_false] at h2 ⊢
        refine ⟨fun s' hs' => ?_, hokb.arrs, hokb.enums, hokb.ptrs, hokb.comps, hokb.isComp, hokb.retVal⟩
        rcases mem_updSlot hs' with hs' | ⟨s0, hs0, rfl⟩
        · exact hokb.vars s' hs'
        · have hss : s = s0 := by rw [h2] at hs0; exact Option.some.inj hs0
          subst hss
          have hso := hokb.vars s (findSlot_mem h2)
          obtain ⟨n1, n2⟩ := knv.simp_ty hso.simple_val
          cases hr : s.ref with
          | none =>
            simp only [SlotOK, hr] at hso ⊢
            exact ⟨n1, n2.trans hso.2⟩
          | some l' =>
            simp only [SlotOK, hr] at hso ⊢
            exact ⟨n1, hso.2⟩
      · rw [hl] at h2
        simp only [if_true] at h2 ⊢
        refine ⟨hokb.vars, fun s' hs' => ?_, hokb.enums, hokb.ptrs, hokb.comps, hokb.isComp, hokb.retVal⟩
        rcases mem_updSlot hs' with hs' | ⟨s0, hs0, rfl⟩
        · exact hokb.arrs s' hs'
        · have hss : s = s0 := by rw [h2] at hs0; exact Option.some.inj hs0
          subst hss
          have hso := hokb.arrs s (findSlot_mem h2)
          exact ⟨hso.1, knv.arrOK hso.2⟩
    show Run (modifyAct a.id g) σ (ResE σ (fun _ _ => True) E)
    refine (run_modifyAct (E := E) hW a.id g hkeep hokg).mono ?_
    exact fun _ _ h => h.weaken (fun _ _ => trivial) (fun _ e => e)


theorem run_doFile0 (hW : WF σ) (op : FOp) :
    Run (doFile0 op) σ (ResE σ (fun r _ => ∃ s s', fstep s op = .ok (s', r)) E) := by
  apply run_frame hW
  unfold doFile0
  rw [run_bind_ok _ _ _ _ _ (run_get σ)]
  split
  · rename_i f r heq
    exact ⟨rfl, rfl, rfl, rfl, _, _, heq⟩
  · rename_i m _
    obtain ⟨d, hd, _⟩ := rtErr0_run (α := FRes) m σ
    rw [hd]; exact ⟨rfl, rfl, rfl, rfl, d, rfl⟩

/-! ### the bracket `withAct` -/

theorem WF.push (hW : WF σ) {mk : Nat → Act} (hmk : ∀ i, (mk i).id = i) (hnew : ActOK σ.acts (mk σ.nextId)) :
    WF (pushSt mk σ) := by
  refine ⟨by simp [pushSt], ⟨hnew, fun b hb => ?_, hW.stack⟩, fun b hb => ?_, hW.procs, hW.funs⟩
  · rw [hmk]; exact Nat.ne_of_lt (hW.below b hb)
  · rcases List.mem_cons.1 hb with rfl | hb
    · rw [hmk]; exact Nat.lt_succ_self _
    · exact Nat.lt_succ_of_lt (hW.below b hb)

/-- push, run, pop: the state after the pop is well-formed and extends the state before the push -/
theorem pop_ok (hW : WF σ) {mk : Nat → Act} (hmk : ∀ i, (mk i).id = i) {σ2 : St} (hW2 : WF σ2)
    (hE2 : Ext (pushSt mk σ) σ2) : WF (popSt σ2) ∧ Ext σ (popSt σ2) := by
  have hids := hE2.ids
  obtain ⟨top, rest, hσ2⟩ := hW2.top
  rw [hσ2] at hids
  simp only [pushSt, List.map_cons, List.cons.injEq, Prod.mk.injEq] at hids
  obtain ⟨⟨htid, _⟩, hrest⟩ := hids
  rw [hmk] at htid
  have hpop : (popSt σ2).acts = rest := by simp [popSt, hσ2]
  have hst := hW2.stack; rw [hσ2] at hst
  refine ⟨⟨?_, ?_, ?_, hW2.procs, hW2.funs⟩, ⟨?_, ?_, ?_⟩⟩
  · rw [hpop]
    intro h
    rw [h] at hrest
    exact hW.ne (List.map_eq_nil_iff.1 hrest.symm)
  · rw [hpop]; exact hst.2.2
  · rw [hpop]; intro b hb
    exact hW2.below b (by rw [hσ2]; exact List.mem_cons_of_mem _ hb)
  · rw [hpop]; exact hrest
  · exact Nat.le_trans (Nat.le_succ _) hE2.nextId
  · intro l v hr
    obtain ⟨b, hb, hbid⟩ := hr.mem
    have hne : σ.nextId ≠ l.act := by
      rw [← hbid]; exact Nat.ne_of_gt (hW.below b hb)
    have hr1 : ReadsIn (pushSt mk σ).acts l v := by
      show ReadsIn (mk σ.nextId :: σ.acts) l v
      exact (ReadsIn.cons_ne (by rw [hmk]; exact hne)).2 hr
    obtain ⟨v', hr2, k⟩ := hE2.reads l v hr1
    rw [hσ2] at hr2
    rw [hpop]
    exact ⟨v', (ReadsIn.cons_ne (by rw [htid]; exact hne)).1 hr2, k⟩

theorem Run.withAct {σ0 : St} {mk : Nat → Act} {body : M α} {Q Qb : α → St → Prop}
    (hW : WF σ) (hE : Ext σ0 σ) (hmk : ∀ i, (mk i).id = i) (hnew : ActOK σ.acts (mk σ.nextId))
    (hbody : WF (pushSt mk σ) → Run body (pushSt mk σ) (ResE (pushSt mk σ) Qb ErrNR))
    (hpost : ∀ a σ2, WF σ2 → Ext (pushSt mk σ) σ2 → Qb a σ2 → Q a (popSt σ2)) :
    Run (withAct mk body) σ (ResE σ0 Q E) := by
  have hb := hbody (hW.push hmk hnew)
  unfold Run at *
  rw [run_withAct]
  obtain ⟨hW2, hE2, hres⟩ := hb
  obtain ⟨hWp, hEp⟩ := pop_ok hW hmk hW2 hE2
  refine ⟨hWp, hE.trans hEp, ?_⟩
  dsimp only
  rcases hr : (body.run.run (pushSt mk σ)).1 with e | a
  · rw [hr] at hres
    exact EOK.of_nr _ _ ⟨⟨hres.1.1, fun he => absurd he hres.2⟩, hres.2⟩
  · rw [hr] at hres
    exact hpost a _ hW2 hE2 hres

end changing

end Pseudo.NC
