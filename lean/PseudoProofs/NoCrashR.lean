import PseudoProofs.NoCrashRDefs
/-!
# C01 with enum / pointer / record types: monotonicity of the value predicate, the stack under updates, the Hoare layer
(the analogue of `NoCrashT.lean`)
-/
namespace Pseudo.NR
open Pseudo
open Pseudo.NC (ReadsIn ActRead ErrOK ErrNR NoCrash RO EOK readsIn_iff mem_updActs updActs_ne_nil errOK_diag errNR_diag errOK_fuel
  errNR_fuel errOK_brk errOK_cont getLast?_mem)

/-! ### kinds -/

theorem SameKind.refl (v : Val) : SameKind v v := rfl
theorem SameKind.trans {a b c : Val} (h1 : SameKind a b) (h2 : SameKind b c) : SameKind a c := Eq.trans h2 h1

theorem kind_val_narr {v : Val} {ty : Ty} (h : kind v = .val ty) : NArr v = true ∧ v.ty = ty := by
  cases v <;> simp_all [kind, NArr, Val.ty]

theorem kind_of_narr {v : Val} (h : NArr v = true) : kind v = .val v.ty := by
  cases v <;> simp_all [kind, NArr]

theorem kind_arr_inv {v : Val} {e : Ty} {d : List (Int × Int)} (h : kind v = .arr e d) : ∃ cells, v = .arr e d cells := by
  cases v <;> simp_all [kind]

/-! ### definitions only grow -/

theorem find_prefix {γ : Type} {l l' : List (Str × γ)} (h : l <+: l') {n : Str} {x : Str × γ}
    (hx : l.find? (·.1 == n) = some x) : l'.find? (·.1 == n) = some x := by
  obtain ⟨t, rfl⟩ := h
  rw [List.find?_append, hx]; rfl

theorem Live.of_ids {σ σ' : St} (h : σ'.acts.map (fun a => (a.id, a.isFn)) = σ.acts.map (fun a => (a.id, a.isFn)))
    {id : Nat} (hl : Live σ' id) : Live σ id := by
  obtain ⟨a, ha, rfl⟩ := hl
  have : (a.id, a.isFn) ∈ σ'.acts.map (fun a => (a.id, a.isFn)) := List.mem_map.2 ⟨a, ha, rfl⟩
  rw [h] at this
  obtain ⟨b, hb, hbe⟩ := List.mem_map.1 this
  exact ⟨b, hb, (Prod.mk.inj hbe).1⟩

/-- the definitions of `σ'` extend those of `σ` -/
structure DefsExt (σ σ' : St) : Prop where
  enums : genums σ <+: genums σ'
  ptrs : gptrs σ <+: gptrs σ'
  comps : gcomps σ <+: gcomps σ'
  toks : ∀ t, typeOfTok σ t ≠ .none → typeOfTok σ' t = typeOfTok σ t

theorem DefsExt.refl (σ : St) : DefsExt σ σ := ⟨List.prefix_refl _, List.prefix_refl _, List.prefix_refl _, fun _ _ => rfl⟩
theorem DefsExt.trans {a b c : St} (h1 : DefsExt a b) (h2 : DefsExt b c) : DefsExt a c :=
  ⟨List.IsPrefix.trans h1.enums h2.enums, List.IsPrefix.trans h1.ptrs h2.ptrs, List.IsPrefix.trans h1.comps h2.comps,
   fun t ht => by rw [h2.toks t (by rw [h1.toks t ht]; exact ht), h1.toks t ht]⟩
theorem Ext.defs {σ σ' : St} (h : Ext σ σ') : DefsExt σ σ' := ⟨h.enums, h.ptrs, h.comps, h.toks⟩

theorem DefsExt.of_eq {σ σ' : St} (h1 : genums σ' = genums σ) (h2 : gptrs σ' = gptrs σ) (h3 : gcomps σ' = gcomps σ) :
    DefsExt σ σ' := by
  refine ⟨by rw [h1]; exact List.prefix_refl _, by rw [h2]; exact List.prefix_refl _, by rw [h3]; exact List.prefix_refl _, ?_⟩
  intro t _
  unfold typeOfTok
  rw [h1, h2, h3]

theorem enumLk_ext {σ σ' : St} (h : DefsExt σ σ') {n : Str} {vals : List Str} (hl : enumLk σ n = some vals) :
    enumLk σ' n = some vals := by
  unfold enumLk at *
  cases hf : (genums σ).find? (·.1 == n) with
  | none => rw [hf] at hl; cases hl
  | some x => rw [hf] at hl; rw [find_prefix h.enums hf]; exact hl

theorem ptrLk_ext {σ σ' : St} (h : DefsExt σ σ') {n : Str} {tg : Ty} (hl : ptrLk σ n = some tg) :
    ptrLk σ' n = some tg := by
  unfold ptrLk at *
  cases hf : (gptrs σ).find? (·.1 == n) with
  | none => rw [hf] at hl; cases hl
  | some x => rw [hf] at hl; rw [find_prefix h.ptrs hf]; exact hl

theorem compLk_ext {σ σ' : St} (h : DefsExt σ σ') {n : Str} {b : Block} (hl : compLk σ n = some b) :
    compLk σ' n = some b := by
  unfold compLk at *
  cases hf : (gcomps σ).find? (·.1 == n) with
  | none => rw [hf] at hl; cases hl
  | some x => rw [hf] at hl; rw [find_prefix h.comps hf]; exact hl

theorem TyWF.ext {σ σ' : St} (hd : DefsExt σ σ') {ty : Ty} (h : TyWF σ ty) : TyWF σ' ty := by
  cases ty <;> try exact h
  · obtain ⟨vals, h1, h2⟩ := h; exact ⟨vals, enumLk_ext hd h1, h2⟩
  · obtain ⟨tg, h1⟩ := h; exact ⟨tg, ptrLk_ext hd h1⟩
  · obtain ⟨b, h1⟩ := h; exact ⟨b, compLk_ext hd h1⟩

/-- the member signature of a record body whose member types are all defined does not change -/
theorem scalSig_ext {σ σ' : St} (hd : DefsExt σ σ') : ∀ body : List Stmt, SigDefined (scalSig σ body) → scalSig σ' body = scalSig σ body
  | [], _ => rfl
  | s :: r, h => by
    cases s with
    | declare t ids tyTok =>
      simp only [scalSig] at h ⊢
      have hr : SigDefined (scalSig σ r) := fun x hx => h x (List.mem_append_right _ hx)
      rw [scalSig_ext hd r hr]
      cases ids with
      | nil => rfl
      | cons id rest =>
        have hne : typeOfTok σ tyTok ≠ .none := by
          intro e
          have := (h (id.val, Kind.val (typeOfTok σ tyTok)) (List.mem_append_left _ (by simp))).1
          rw [e] at this; exact this rfl
        rw [hd.toks tyTok hne]
    | _ => simp only [scalSig] at h ⊢; exact scalSig_ext hd r h

theorem arrSig_ext {σ σ' : St} (hd : DefsExt σ σ') : ∀ body : List Stmt, SigDefined (arrSig σ body) → arrSig σ' body = arrSig σ body
  | [], _ => rfl
  | s :: r, h => by
    cases s with
    | declareArr t ids tyTok bounds =>
      simp only [arrSig] at h ⊢
      have hr : SigDefined (arrSig σ r) := fun x hx => h x (List.mem_append_right _ hx)
      rw [arrSig_ext hd r hr]
      cases hb : litDims bounds with
      | none => rfl
      | some d =>
        rw [hb] at h
        cases ids with
        | nil => rfl
        | cons id rest =>
          have hne : typeOfTok σ tyTok ≠ .none := by
            intro e
            have := (h (id.val, Kind.arr (typeOfTok σ tyTok) d) (List.mem_append_left _ (by simp))).2 d
            rw [e] at this; exact this rfl
          rw [hd.toks tyTok hne]
    | _ => simp only [arrSig] at h ⊢; exact arrSig_ext hd r h

theorem memSig_ext {σ σ' : St} (hd : DefsExt σ σ') (body : List Stmt) (h : SigDefined (memSig σ body)) :
    memSig σ' body = memSig σ body := by
  unfold memSig at *
  rw [scalSig_ext hd body (fun x hx => h x (List.mem_append_left _ hx)),
      arrSig_ext hd body (fun x hx => h x (List.mem_append_right _ hx))]

theorem TgtOK.ext {σ σ' : St} (hE : Ext σ σ') {l : Loc} {tg : Ty} (h : TgtOK σ l tg) : TgtOK σ' l tg := by
  refine ⟨Nat.lt_of_lt_of_le h.1 hE.nextId, fun hl => ?_⟩
  obtain ⟨w, hr, hk⟩ := h.2 (Live.of_ids hE.ids hl)
  obtain ⟨w', hr', k⟩ := hE.reads _ _ hr
  exact ⟨w', hr', Eq.trans k hk⟩

theorem Local.ext {σ σ' : St} (hE : Ext σ σ') {v : Val} (h : Local σ v) : Local σ' v := by
  cases v <;> try exact h
  · obtain ⟨vals, h1, h2⟩ := h; exact ⟨vals, enumLk_ext hE.defs h1, h2⟩
  · obtain ⟨tg, h1, h2⟩ := h; exact ⟨tg, ptrLk_ext hE.defs h1, fun l hl => (h2 l hl).ext hE⟩
  · obtain ⟨body, h1, h2, h3⟩ := h
    have := memSig_ext hE.defs body h3
    exact ⟨body, compLk_ext hE.defs h1, by rw [this]; exact h2, by rw [this]; exact h3⟩

theorem Good.ext {σ σ' : St} (hE : Ext σ σ') {v : Val} (h : Good σ v) : Good σ' v := fun p w hp => (h p w hp).ext hE

theorem CellOK.ext {σ σ' : St} (hE : Ext σ σ') {ty : Ty} {c : Val} (h : CellOK σ ty c) : CellOK σ' ty c := ⟨h.1, h.2.ext hE⟩
theorem ArrOK.ext {σ σ' : St} (hE : Ext σ σ') {ty : Ty} {v : Val} (h : ArrOK σ ty v) : ArrOK σ' ty v := ⟨h.1, h.2.ext hE⟩

/-- values that are fine in `σ` are fine in `σ'` -/
def ValMono (σ σ' : St) : Prop := ∀ v, Good σ v → Good σ' v

theorem ValMono.of_ext {σ σ' : St} (hE : Ext σ σ') : ValMono σ σ' := fun _ h => h.ext hE

theorem SlotOK.mono {σ σ' : St} (hm : ValMono σ σ') {d : List Act} {s : Slot} (h : SlotOK σ d s) : SlotOK σ' d s := by
  unfold SlotOK at *
  split
  · rename_i hr; rw [hr] at h; exact ⟨h.1, hm _ h.2⟩
  · rename_i l hr; rw [hr] at h; exact h

theorem ArrSlotOK.mono {σ σ' : St} (hm : ValMono σ σ') {s : Slot} (h : ArrSlotOK σ s) : ArrSlotOK σ' s := ⟨h.1, hm _ h.2⟩

theorem ActOK.mono {σ σ' : St} (hm : ValMono σ σ') {d : List Act} {a : Act} (h : ActOK σ d a) : ActOK σ' d a :=
  ⟨fun s hs => (h.vars s hs).mono hm, fun s hs => (h.arrs s hs).mono hm, h.enums, h.ptrs, h.comps, h.compRef, h.glob,
   fun v hv => ⟨(h.retVal v hv).1, hm _ (h.retVal v hv).2⟩⟩

theorem StackOK.mono {σ σ' : St} (hm : ValMono σ σ') : ∀ {acts : List Act}, StackOK σ acts → StackOK σ' acts
  | [], _ => trivial
  | _ :: _, h => ⟨h.1.mono hm, h.2.1, StackOK.mono hm h.2.2⟩

/-! ### `Ext` -/

theorem Ext.refl (σ : St) : Ext σ σ :=
  ⟨rfl, Nat.le_refl _, fun _ v h => ⟨v, h, SameKind.refl v⟩, List.prefix_refl _, List.prefix_refl _, List.prefix_refl _,
   fun _ _ => rfl⟩

theorem Ext.trans {a b c : St} (h1 : Ext a b) (h2 : Ext b c) : Ext a c :=
  have hd := h1.defs.trans h2.defs
  ⟨h2.ids.trans h1.ids, Nat.le_trans h1.nextId h2.nextId, fun l v h => by
    obtain ⟨v1, hr1, k1⟩ := h1.reads l v h
    obtain ⟨v2, hr2, k2⟩ := h2.reads l v1 hr1
    exact ⟨v2, hr2, k1.trans k2⟩, hd.enums, hd.ptrs, hd.comps, hd.toks⟩

theorem genums_of_acts {σ σ' : St} (ha : σ'.acts = σ.acts) : genums σ' = genums σ := by unfold genums; rw [ha]
theorem gptrs_of_acts {σ σ' : St} (ha : σ'.acts = σ.acts) : gptrs σ' = gptrs σ := by unfold gptrs; rw [ha]
theorem gcomps_of_acts {σ σ' : St} (ha : σ'.acts = σ.acts) : gcomps σ' = gcomps σ := by unfold gcomps; rw [ha]

theorem DefsExt.of_acts_eq {σ σ' : St} (ha : σ'.acts = σ.acts) : DefsExt σ σ' :=
  DefsExt.of_eq (genums_of_acts ha) (gptrs_of_acts ha) (gcomps_of_acts ha)

/-- only the parts of the state outside the activation stack changed -/
theorem Ext.of_acts_eq {σ σ' : St} (ha : σ'.acts = σ.acts) (hn : σ'.nextId = σ.nextId) : Ext σ σ' :=
  have hd := DefsExt.of_acts_eq ha
  ⟨by rw [ha], by rw [hn]; exact Nat.le_refl _, fun _ v h => ⟨v, by rw [ha]; exact h, SameKind.refl v⟩,
   hd.enums, hd.ptrs, hd.comps, hd.toks⟩

theorem TyWF.of_acts_eq {σ σ' : St} (ha : σ'.acts = σ.acts) {ty : Ty} (h : TyWF σ ty) : TyWF σ' ty :=
  h.ext (DefsExt.of_acts_eq ha)

theorem GlobOK.of_acts_eq {σ σ' : St} (ha : σ'.acts = σ.acts) (h : GlobOK σ) : GlobOK σ' := by
  refine ⟨?_, ?_, ?_⟩
  · rw [genums_of_acts ha]; exact h.enums
  · rw [gptrs_of_acts ha]; exact fun p hp => (h.ptrs p hp).of_acts_eq ha
  · rw [gcomps_of_acts ha]; exact h.comps

theorem ParamsOK.ext {σ σ' : St} (hE : Ext σ σ') {ps : List (Str × Ty × Bool)} (h : ParamsOK σ ps) : ParamsOK σ' ps :=
  fun p hp => (h p hp).ext hE.defs

theorem ProcOK.ext {σ σ' : St} (hE : Ext σ σ') {p : ProcDef} (h : ProcOK σ p) : ProcOK σ' p := ⟨h.1.ext hE, h.2⟩
theorem FunOK.ext {σ σ' : St} (hE : Ext σ σ') {p : FunDef} (h : FunOK σ p) : FunOK σ' p := ⟨h.1.ext hE, h.2⟩

theorem WF.of_acts_eq {σ σ' : St} (h : WF σ) (ha : σ'.acts = σ.acts) (hn : σ'.nextId = σ.nextId)
    (hp : σ'.procs = σ.procs) (hf : σ'.funs = σ.funs) : WF σ' := by
  have hE := Ext.of_acts_eq ha hn
  refine ⟨by rw [ha]; exact h.ne, ?_, by rw [ha, hn]; exact h.below, ?_, ?_, h.glob.of_acts_eq ha⟩
  · rw [ha]; exact h.stack.mono (ValMono.of_ext hE)
  · rw [hp]; exact fun p hp => (h.procs p hp).ext hE
  · rw [hf]; exact fun p hp => (h.funs p hp).ext hE

theorem Ext.length {σ σ' : St} (h : Ext σ σ') : σ'.acts.length = σ.acts.length := by
  have := congrArg List.length h.ids
  simpa using this

theorem HolderOK.ext {σ σ' : St} {h : Holder} (hE : Ext σ σ') (hh : HolderOK σ h) : HolderOK σ' h := by
  obtain ⟨v, hr, hk⟩ := hh
  obtain ⟨v', hr', k⟩ := hE.reads _ _ hr
  refine ⟨v', hr', ?_⟩
  unfold SameKind at k
  rw [k]; exact hk

/-- a readable location holding a non-array value of type `ty` -/
def TyLoc (σ : St) (l : Loc) (ty : Ty) : Prop := ∃ v, ReadsIn σ.acts l v ∧ kind v = .val ty

theorem TyLoc.ext {σ σ' : St} {l : Loc} {ty : Ty} (hE : Ext σ σ') (h : TyLoc σ l ty) : TyLoc σ' l ty := by
  obtain ⟨v, hr, hk⟩ := h
  obtain ⟨v', hr', k⟩ := hE.reads _ _ hr
  exact ⟨v', hr', Eq.trans k hk⟩

/-- a readable location holding an INTEGER (the FOR iterator) -/
abbrev IntLoc (σ : St) (l : Loc) : Prop := TyLoc σ l .int

theorem IntLoc.ext {σ σ' : St} {l : Loc} (hE : Ext σ σ') (h : IntLoc σ l) : IntLoc σ' l := TyLoc.ext hE h

/-! ### the stack under an update of one activation -/

/-- what an update of an activation must keep: its id and flags, every readable cell with its kind -/
structure ActKeep (a a' : Act) : Prop where
  id : a'.id = a.id
  isFn : a'.isFn = a.isFn
  reads : ∀ isArr name path v, ActRead a isArr name path v → ∃ v', ActRead a' isArr name path v' ∧ SameKind v v'

theorem ActKeep.refl (a : Act) : ActKeep a a := ⟨rfl, rfl, fun _ _ _ v h => ⟨v, h, SameKind.refl v⟩⟩

/-- reading in the updated stack -/
theorem reads_upd {acts : List Act} {id : Nat} {f : Act → Act} (hk : ∀ a ∈ acts, a.id = id → ActKeep a (f a))
    {l : Loc} {v : Val} (h : ReadsIn acts l v) : ∃ v', ReadsIn (updActs acts id f) l v' ∧ SameKind v v' := by
  induction acts with
  | nil => obtain ⟨a, _, h1, _⟩ := h; simp at h1
  | cons a rest ih =>
    unfold updActs
    by_cases hid : a.id = l.act
    · have hr := (NC.ReadsIn.cons_eq hid).1 h
      split
      · rename_i hupd
        have hk' := hk a List.mem_cons_self (by simpa using hupd)
        obtain ⟨v', hr', k⟩ := hk'.reads _ _ _ _ hr
        exact ⟨v', (NC.ReadsIn.cons_eq (hk'.id.trans hid)).2 hr', k⟩
      · exact ⟨v, (NC.ReadsIn.cons_eq hid).2 hr, SameKind.refl v⟩
    · have hr := (NC.ReadsIn.cons_ne hid).1 h
      split
      · rename_i hupd
        have hk' := hk a List.mem_cons_self (by simpa using hupd)
        exact ⟨v, (NC.ReadsIn.cons_ne (by rw [hk'.id]; exact hid)).2 hr, SameKind.refl v⟩
      · obtain ⟨v', hr', k⟩ := ih (fun b hb => hk b (List.mem_cons_of_mem _ hb)) hr
        exact ⟨v', (NC.ReadsIn.cons_ne hid).2 hr', k⟩

theorem SlotOK.upd {σ : St} {acts : List Act} {id : Nat} {f : Act → Act} (hk : ∀ a ∈ acts, a.id = id → ActKeep a (f a))
    {s : Slot} (h : SlotOK σ acts s) : SlotOK σ (updActs acts id f) s := by
  unfold SlotOK at *
  split
  · rename_i hr; rw [hr] at h; exact h
  · rename_i l hr
    rw [hr] at h
    obtain ⟨hsv, v, hv, hkd⟩ := h
    obtain ⟨v', hv', k⟩ := reads_upd hk hv
    exact ⟨hsv, v', hv', Eq.trans k hkd⟩

theorem updActs_eq_nil {acts : List Act} {id : Nat} {f : Act → Act} (h : updActs acts id f = []) : acts = [] := by
  cases acts with
  | nil => rfl
  | cons a r => exact absurd h (updActs_ne_nil (by simp))

theorem ActOK.upd_deeper {σ : St} {acts : List Act} {id : Nat} {f : Act → Act} (hk : ∀ a ∈ acts, a.id = id → ActKeep a (f a))
    {a : Act} (h : ActOK σ acts a) : ActOK σ (updActs acts id f) a :=
  ⟨fun s hs => (h.vars s hs).upd hk, h.arrs, fun hne => h.enums (fun e => hne (by rw [e]; rfl)),
   fun hne => h.ptrs (fun e => hne (by rw [e]; rfl)), fun hne => h.comps (fun e => hne (by rw [e]; rfl)), h.compRef,
   fun e => h.glob (updActs_eq_nil e), h.retVal⟩

/-- the stack stays well-formed (for the same `σ`) when one activation is replaced by one that keeps its readable cells and is
    itself well-formed relative to the same callers -/
theorem StackOK.upd {σ : St} {acts : List Act} {id : Nat} {f : Act → Act} (h : StackOK σ acts)
    (hk : ∀ a ∈ acts, a.id = id → ActKeep a (f a))
    (hok : ∀ deeper a, a ∈ acts → a.id = id → ActOK σ deeper a → ActOK σ deeper (f a)) : StackOK σ (updActs acts id f) := by
  induction acts with
  | nil => exact h
  | cons a rest ih =>
    obtain ⟨ha, hd, hrest⟩ := h
    unfold updActs
    split
    · rename_i hupd
      have hid : a.id = id := by simpa using hupd
      refine ⟨hok rest a List.mem_cons_self hid ha, ?_, hrest⟩
      rw [(hk a List.mem_cons_self hid).id]; exact hd
    · have hk' : ∀ b ∈ rest, b.id = id → ActKeep b (f b) := fun b hb => hk b (List.mem_cons_of_mem _ hb)
      refine ⟨ha.upd_deeper hk', ?_, ih hrest hk' (fun d b hb => hok d b (List.mem_cons_of_mem _ hb))⟩
      intro b hb
      rcases mem_updActs hb with hb | ⟨b', hb', _, rfl⟩
      · exact hd b hb
      · rw [(hk' b' hb' ‹_›).id]; exact hd b' hb'

theorem updActs_map_of_keep {acts : List Act} {id : Nat} {f : Act → Act}
    (hk : ∀ a ∈ acts, a.id = id → ActKeep a (f a)) :
    (updActs acts id f).map (fun a => (a.id, a.isFn)) = acts.map (fun a => (a.id, a.isFn)) := by
  induction acts with
  | nil => rfl
  | cons a rest ih =>
    unfold updActs
    split
    · rename_i hupd
      have hk' := hk a List.mem_cons_self (by simpa using hupd)
      simp [hk'.id, hk'.isFn]
    · simp [ih (fun b hb => hk b (List.mem_cons_of_mem _ hb))]

/-- `Ext` for an update of one activation, given that the definitions of the new state extend the old ones -/
theorem Ext.updSt {σ : St} {id : Nat} {f : Act → Act}
    (hk : ∀ a ∈ σ.acts, a.id = id → ActKeep a (f a)) (hd : DefsExt σ (Pseudo.updSt σ id f)) : Ext σ (Pseudo.updSt σ id f) :=
  ⟨updActs_map_of_keep hk, Nat.le_refl _, fun _ _ h => reads_upd hk h, hd.enums, hd.ptrs, hd.comps, hd.toks⟩

/-- `WF` for an update of one activation; the global definitions of the new state are checked separately -/
theorem WF.updSt {σ : St} {id : Nat} {f : Act → Act} (h : WF σ)
    (hk : ∀ a ∈ σ.acts, a.id = id → ActKeep a (f a))
    (hok : ∀ deeper a, a ∈ σ.acts → a.id = id → ActOK σ deeper a → ActOK σ deeper (f a))
    (hd : DefsExt σ (Pseudo.updSt σ id f)) (hglob : GlobOK (Pseudo.updSt σ id f)) : WF (Pseudo.updSt σ id f) := by
  have hE := Ext.updSt hk hd
  refine ⟨updActs_ne_nil h.ne, (h.stack.upd hk hok).mono (ValMono.of_ext hE), ?_,
    fun p hp => (h.procs p hp).ext hE, fun p hp => (h.funs p hp).ext hE, hglob⟩
  intro b hb
  rcases mem_updActs hb with hb | ⟨b', hb', hid, rfl⟩
  · exact h.below b hb
  · rw [(hk b' hb' hid).id]; exact h.below b' hb'

theorem getLast_updActs {γ : Type} {id : Nat} {f : Act → Act} (sel : Act → γ) (hd : ∀ a, sel (f a) = sel a) :
    ∀ acts : List Act, (updActs acts id f).getLast?.map sel = acts.getLast?.map sel
  | [] => rfl
  | [a] => by
    unfold updActs
    by_cases h : (a.id == id) = true
    · simp [h, hd]
    · simp [h, updActs]
  | a :: b :: r => by
    have ih := getLast_updActs (id := id) sel hd (b :: r)
    unfold updActs
    by_cases h : (a.id == id) = true
    · simp [h, List.getLast?_cons_cons]
    · have hne : updActs (b :: r) id f ≠ [] := updActs_ne_nil (by simp)
      cases hu : updActs (b :: r) id f with
      | nil => exact absurd hu hne
      | cons c cs =>
        rw [hu] at ih
        simp only [h, Bool.false_eq_true, if_false, List.getLast?_cons_cons]
        exact ih

theorem genums_eq (σ : St) : genums σ = ((σ.acts.getLast?).map (·.enums)).getD [] := by
  unfold genums; cases σ.acts.getLast? <;> rfl
theorem gptrs_eq (σ : St) : gptrs σ = ((σ.acts.getLast?).map (·.ptrs)).getD [] := by
  unfold gptrs; cases σ.acts.getLast? <;> rfl
theorem gcomps_eq (σ : St) : gcomps σ = ((σ.acts.getLast?).map (·.comps)).getD [] := by
  unfold gcomps; cases σ.acts.getLast? <;> rfl

/-- an update that leaves the definitions alone -/
theorem defs_upd {σ : St} {id : Nat} {f : Act → Act}
    (hd : ∀ a, (f a).enums = a.enums ∧ (f a).ptrs = a.ptrs ∧ (f a).comps = a.comps) :
    genums (Pseudo.updSt σ id f) = genums σ ∧ gptrs (Pseudo.updSt σ id f) = gptrs σ ∧ gcomps (Pseudo.updSt σ id f) = gcomps σ := by
  refine ⟨?_, ?_, ?_⟩
  · rw [genums_eq, genums_eq]
    show ((updActs σ.acts id f).getLast?.map (·.enums)).getD [] = _
    rw [getLast_updActs (·.enums) (fun a => (hd a).1)]
  · rw [gptrs_eq, gptrs_eq]
    show ((updActs σ.acts id f).getLast?.map (·.ptrs)).getD [] = _
    rw [getLast_updActs (·.ptrs) (fun a => (hd a).2.1)]
  · rw [gcomps_eq, gcomps_eq]
    show ((updActs σ.acts id f).getLast?.map (·.comps)).getD [] = _
    rw [getLast_updActs (·.comps) (fun a => (hd a).2.2)]

theorem DefsExt.upd {σ : St} {id : Nat} {f : Act → Act}
    (hd : ∀ a, (f a).enums = a.enums ∧ (f a).ptrs = a.ptrs ∧ (f a).comps = a.comps) : DefsExt σ (Pseudo.updSt σ id f) :=
  DefsExt.of_eq (defs_upd hd).1 (defs_upd hd).2.1 (defs_upd hd).2.2

theorem GlobOK.upd {σ : St} {id : Nat} {f : Act → Act} (h : GlobOK σ)
    (hd : ∀ a, (f a).enums = a.enums ∧ (f a).ptrs = a.ptrs ∧ (f a).comps = a.comps) : GlobOK (Pseudo.updSt σ id f) := by
  obtain ⟨h1, h2, h3⟩ := defs_upd (σ := σ) (id := id) hd
  refine ⟨?_, ?_, ?_⟩
  · rw [h1]; exact h.enums
  · rw [h2]; exact fun p hp => (h.ptrs p hp).ext (DefsExt.upd hd)
  · rw [h3]; exact h.comps

/-! ### outcomes -/

theorem ErrOK.ext {σ σ' : St} {e : Stop} (hE : Ext σ σ') (h : ErrOK σ e) : ErrOK σ' e := by
  refine ⟨h.1, fun he => ?_⟩
  obtain ⟨a, rest, hacts, hfn⟩ := h.2 he
  have hids := hE.ids
  rw [hacts] at hids
  cases hσ' : σ'.acts with
  | nil => rw [hσ'] at hids; simp at hids
  | cons a' rest' =>
    rw [hσ'] at hids
    simp only [List.map_cons, List.cons.injEq, Prod.mk.injEq] at hids
    exact ⟨a', rest', rfl, hids.1.2.trans hfn⟩

/-- the outcome of `m` from `σ` satisfies `Φ` -/
def Run {α : Type} (m : M α) (σ : St) (Φ : Except Stop α → St → Prop) : Prop := Φ (m.run.run σ).1 (m.run.run σ).2

/-- the standard outcome predicate -/
def ResE {α : Type} (σ0 : St) (Q : α → St → Prop) (E : St → Stop → Prop) (r : Except Stop α) (σ' : St) : Prop :=
  WF σ' ∧ Ext σ0 σ' ∧ match r with | .ok a => Q a σ' | .error e => E σ' e

abbrev Res {α : Type} (σ0 : St) (Q : α → St → Prop) : Except Stop α → St → Prop := ResE σ0 Q ErrOK

/-- Hoare triple over the invariant -/
def Tri {α : Type} (P : St → Prop) (m : M α) (Q : St → α → St → Prop) : Prop :=
  ∀ σ, WF σ → P σ → Run m σ (Res σ (Q σ))

section combinators
variable {α β : Type} {σ0 σ : St} {E : St → Stop → Prop}

theorem Run.pure {a : α} {Q : α → St → Prop} (hW : WF σ) (hE : Ext σ0 σ) (h : Q a σ) :
    Run (Pure.pure a : M α) σ (ResE σ0 Q E) := ⟨hW, hE, h⟩

theorem Run.throw {e : Stop} {Q : α → St → Prop} (hW : WF σ) (hE : Ext σ0 σ) (h : E σ e) :
    Run (throw e : M α) σ (ResE σ0 Q E) := ⟨hW, hE, h⟩

theorem Run.mono {m : M α} {Φ Ψ : Except Stop α → St → Prop} (h : Run m σ Φ) (hi : ∀ r σ', Φ r σ' → Ψ r σ') :
    Run m σ Ψ := hi _ _ h

theorem ResE.weaken {Q Q' : α → St → Prop} {E' : St → Stop → Prop} {r : Except Stop α} {σ' : St}
    (h : ResE σ0 Q E r σ') (hQ : ∀ a, Q a σ' → Q' a σ') (hE : ∀ e, E σ' e → E' σ' e) : ResE σ0 Q' E' r σ' := by
  refine ⟨h.1, h.2.1, ?_⟩
  have := h.2.2
  cases r with
  | ok a => exact hQ a this
  | error e => exact hE e this

/-- sequencing after a state-changing step -/
theorem Run.bind {m : M α} {f : α → M β} {Qa : α → St → Prop} {Qb : β → St → Prop}
    (hE : Ext σ0 σ) (hm : Run m σ (ResE σ Qa E))
    (hk : ∀ a σ', WF σ' → Ext σ σ' → Ext σ0 σ' → Qa a σ' → Run (f a) σ' (ResE σ0 Qb E)) :
    Run (m >>= f) σ (ResE σ0 Qb E) := by
  unfold Run at *
  rcases h : m.run.run σ with ⟨e | a, σ'⟩
  · rw [run_bind_err m f σ σ' e h]
    rw [h] at hm
    exact ⟨hm.1, hE.trans hm.2.1, hm.2.2⟩
  · rw [run_bind_ok m f σ σ' a h]
    rw [h] at hm
    exact hk a σ' hm.1 hm.2.1 (hE.trans hm.2.1) hm.2.2

/-- sequencing after a read-only step -/
theorem Run.bind_ro {m : M α} {f : α → M β} {post : α → Prop} {Qb : β → St → Prop}
    (hW : WF σ) (hE : Ext σ0 σ) (hE' : ∀ e, ErrNR σ e → E σ e) (hm : RO m σ post)
    (hk : ∀ a, post a → Run (f a) σ (ResE σ0 Qb E)) : Run (m >>= f) σ (ResE σ0 Qb E) := by
  unfold Run RO at *
  rcases h : m.run.run σ with ⟨e | a, σ'⟩
  · rw [run_bind_err m f σ σ' e h]
    rw [h] at hm
    obtain ⟨rfl, hm⟩ := hm
    exact ⟨hW, hE, hE' e hm⟩
  · rw [run_bind_ok m f σ σ' a h]
    rw [h] at hm
    obtain ⟨rfl, hm⟩ := hm
    exact hk a hm

/-- a read-only step in tail position -/
theorem Run.of_ro {m : M α} {post : α → Prop} {Q : α → St → Prop}
    (hW : WF σ) (hE : Ext σ0 σ) (hE' : ∀ e, ErrNR σ e → E σ e) (hm : RO m σ post)
    (hk : ∀ a, post a → Q a σ) : Run m σ (ResE σ0 Q E) := by
  unfold Run RO at *
  rcases h : m.run.run σ with ⟨e | a, σ'⟩
  · rw [h] at hm; obtain ⟨rfl, hm⟩ := hm; exact ⟨hW, hE, hE' e hm⟩
  · rw [h] at hm; obtain ⟨rfl, hm⟩ := hm; exact ⟨hW, hE, hk a hm⟩

/-- a state-changing step in tail position -/
theorem Run.of_tri {m : M α} {Qa Q : α → St → Prop} (hE : Ext σ0 σ) (hm : Run m σ (ResE σ Qa E))
    (hk : ∀ a σ', WF σ' → Ext σ σ' → Qa a σ' → Q a σ') : Run m σ (ResE σ0 Q E) := by
  unfold Run at *
  obtain ⟨h1, h2, h3⟩ := hm
  refine ⟨h1, hE.trans h2, ?_⟩
  rcases h : (m.run.run σ).1 with e | a
  · rw [h] at h3; exact h3
  · rw [h] at h3; exact hk a _ h1 h2 h3

theorem Run.get_bind {f : St → M β} {Φ : Except Stop β → St → Prop} (h : Run (f σ) σ Φ) :
    Run ((MonadState.get : M St) >>= f) σ Φ := by
  unfold Run at *
  rw [run_bind_ok _ _ _ _ _ (run_get σ)]
  exact h

theorem Run.get_bind' {f : St → M β} {Φ : Except Stop β → St → Prop} (h : Run (f σ) σ Φ) :
    Run ((get : M St) >>= f) σ Φ := Run.get_bind h

/-- a handler: the body may raise anything in `E'`, the handler turns it into an outcome in `E` -/
theorem Run.tryCatch {m : M α} {hd : Stop → M α} {Q : α → St → Prop} {E' : St → Stop → Prop}
    (hE : Ext σ0 σ) (hm : Run m σ (ResE σ Q E'))
    (hh : ∀ e σ', WF σ' → Ext σ σ' → Ext σ0 σ' → E' σ' e → Run (hd e) σ' (ResE σ0 Q E)) :
    Run (tryCatch m hd) σ (ResE σ0 Q E) := by
  unfold Run at *
  rcases h : m.run.run σ with ⟨e | a, σ'⟩
  · rw [run_tryCatch_err m hd σ σ' e h]
    rw [h] at hm
    exact hh e σ' hm.1 hm.2.1 (hE.trans hm.2.1) hm.2.2
  · rw [run_tryCatch_ok m hd σ σ' a h]
    rw [h] at hm
    exact ⟨hm.1, hE.trans hm.2.1, hm.2.2⟩

theorem Run.ite {c : Prop} [Decidable c] {t e : M α} {Φ : Except Stop α → St → Prop}
    (ht : c → Run t σ Φ) (he : ¬ c → Run e σ Φ) : Run (if c then t else e) σ Φ := by
  split
  · exact ht ‹_›
  · exact he ‹_›

theorem Run.weakenE {m : M α} {Q : α → St → Prop} {E' : St → Stop → Prop} (h : Run m σ (ResE σ0 Q E))
    (hE : ∀ σ' e, E σ' e → E' σ' e) : Run m σ (ResE σ0 Q E') :=
  h.mono fun _ _ hr => hr.weaken (fun _ q => q) (hE _)

theorem Run.weakenQ {m : M α} {Q Q' : α → St → Prop} (h : Run m σ (ResE σ0 Q E))
    (hQ : ∀ a σ', WF σ' → Ext σ0 σ' → Q a σ' → Q' a σ') : Run m σ (ResE σ0 Q' E) := by
  unfold Run at *
  obtain ⟨h1, h2, h3⟩ := h
  refine ⟨h1, h2, ?_⟩
  rcases hr : (m.run.run σ).1 with e | a
  · rw [hr] at h3; exact h3
  · rw [hr] at h3; exact hQ a _ h1 h2 h3

end combinators

end Pseudo.NR
