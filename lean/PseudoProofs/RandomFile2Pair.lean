import PseudoProofs.RandomFile2
/-!
# Random files, part 3: interleaved operations on TWO random files

* `NOp = (file name, ROp)`; `block2 ops`: the statements of an interleaving; `cost2`;
* `spec2Step n` / `spec2Run n`: the abstract machine on a PAIR of value sequences (`q1` for the name `n`, `q2` for every other
  name — under the hypothesis that every name in the list is `n` or `m`: for `m`) and the current activation;
* `trace2`: the two `SOp` histories (one per file) an abstract run performs; `spec2Run_toSeq`: each sequence reached is
  `Seq.run` of the file's own history;
* `RInv2`: both one-file invariants + `n ≠ m`; `Compat`: the two record classes are disjoint or equal (needed only when a
  variable is used with both files); `VarsOK2`;
* `run_ops2`: the fold — an interleaving runs like the abstract machine on the pair.
-/
namespace Pseudo.RandomFile2
open Pseudo Pseudo.FileStmt Pseudo.ReadLoop Pseudo.RandomFile

/-- an operation on a named random file -/
abbrev NOp := Str × ROp

/-- the statements of an interleaving -/
def block2 (ops : List NOp) : Block := ops.flatMap fun p => p.2.stmts p.1

def cost2 (ops : List NOp) : Nat := (ops.map fun p => p.2.cost).sum

/-- one step of the abstract machine on two sequences: an operation on the name `n` is `specStep` on `q1`, any other on `q2`;
    the activation is shared -/
def spec2Step (n : Str) (q1 q2 : VSeq) (a : Act) (p : NOp) : Option (VSeq × VSeq × Act) :=
  if p.1 = n then (specStep q1 a p.2).map fun r => (r.1, q2, r.2)
  else (specStep q2 a p.2).map fun r => (q1, r.1, r.2)

structure Spec2Res where
  q1 : VSeq
  q2 : VSeq
  a : Act
  steps : Nat
  failed : Option NOp

/-- the abstract machine on an interleaving: stops at the first undefined operation -/
def spec2Run (n : Str) (q1 q2 : VSeq) (a : Act) : List NOp → Spec2Res
  | [] => ⟨q1, q2, a, 0, none⟩
  | p :: ops =>
    match spec2Step n q1 q2 a p with
    | none => ⟨q1, q2, a, 1, some p⟩
    | some (q1', q2', a') => let r := spec2Run n q1' q2' a' ops; { r with steps := p.2.cost + r.steps }

theorem spec2Run_cons_some (n : Str) (q1 q2 : VSeq) (a : Act) (p : NOp) (ops : List NOp) (q1' q2' : VSeq) (a' : Act)
    (hs : spec2Step n q1 q2 a p = some (q1', q2', a')) :
    spec2Run n q1 q2 a (p :: ops) = { spec2Run n q1' q2' a' ops with steps := p.2.cost + (spec2Run n q1' q2' a' ops).steps } := by
  rw [spec2Run, hs]

theorem spec2Run_cons_none (n : Str) (q1 q2 : VSeq) (a : Act) (p : NOp) (ops : List NOp)
    (hs : spec2Step n q1 q2 a p = none) : spec2Run n q1 q2 a (p :: ops) = ⟨q1, q2, a, 1, some p⟩ := by
  rw [spec2Run, hs]

/-- the operation the run stops at is undefined in the state reached -/
theorem spec2Run_failed (n : Str) (q1 q2 : VSeq) (a : Act) (ops : List NOp) (p : NOp)
    (h : (spec2Run n q1 q2 a ops).failed = some p) :
    spec2Step n (spec2Run n q1 q2 a ops).q1 (spec2Run n q1 q2 a ops).q2 (spec2Run n q1 q2 a ops).a p = none ∧ p ∈ ops := by
  induction ops generalizing q1 q2 a with
  | nil => simp [spec2Run] at h
  | cons o ops ih =>
    cases hs : spec2Step n q1 q2 a o with
    | none =>
      rw [spec2Run_cons_none n q1 q2 a o ops hs] at h ⊢
      simp only [Option.some.injEq] at h
      subst h
      exact ⟨hs, List.mem_cons_self ..⟩
    | some r =>
      obtain ⟨q1', q2', a'⟩ := r
      rw [spec2Run_cons_some n q1 q2 a o ops q1' q2' a' hs] at h ⊢
      obtain ⟨h1, h2⟩ := ih q1' q2' a' h
      exact ⟨h1, List.mem_cons_of_mem _ h2⟩

theorem spec2Run_steps (n : Str) (q1 q2 : VSeq) (a : Act) (ops : List NOp) (h : (spec2Run n q1 q2 a ops).failed = none) :
    (spec2Run n q1 q2 a ops).steps = cost2 ops := by
  induction ops generalizing q1 q2 a with
  | nil => rfl
  | cons o ops ih =>
    cases hs : spec2Step n q1 q2 a o with
    | none => rw [spec2Run_cons_none n q1 q2 a o ops hs] at h; cases h
    | some r =>
      obtain ⟨q1', q2', a'⟩ := r
      rw [spec2Run_cons_some n q1 q2 a o ops q1' q2' a' hs] at h ⊢
      dsimp only at h ⊢
      rw [ih q1' q2' a' h]
      simp [cost2]

/-! ### the two `Seq` histories -/

/-- one defined abstract step is one defined `Seq` operation -/
theorem specStep_toSeq (q : VSeq) (a : Act) (op : ROp) (q' : VSeq) (a' : Act) (hs : specStep q a op = some (q', a'))
    (ops : List SOp) :
    (q.toSeq.run (op.sop a :: ops)).1 = (q'.toSeq.run ops).1 ∧
    ∃ o, o.isSome = true ∧ (q.toSeq.run (op.sop a :: ops)).2 = o :: (q'.toSeq.run ops).2 := by
  cases op with
  | seek t tn tk k =>
    simp only [specStep, Option.map_eq_some_iff] at hs
    obtain ⟨q1, hq1, he⟩ := hs
    cases he
    have hk : q.toSeq.seek k = some q'.toSeq := by rw [← VSeq.toSeq_seek, hq1]; rfl
    simp only [ROp.sop, Seq.run, hk]
    exact ⟨trivial, _, rfl, rfl⟩
  | put t tn x =>
    simp only [specStep, Option.map_eq_some_iff] at hs
    obtain ⟨v, hv, he⟩ := hs
    cases he
    simp only [ROp.sop, Seq.run, hv, Option.getD_some, ← VSeq.toSeq_put]
    exact ⟨trivial, _, rfl, rfl⟩
  | get t tn x =>
    simp only [specStep, Option.map_eq_some_iff] at hs
    obtain ⟨v, hv, he⟩ := hs
    cases he
    have hg : q.toSeq.get = some (Codec.dump v) := by rw [← VSeq.toSeq_get, hv]; rfl
    simp only [ROp.sop, Seq.run]
    exact ⟨trivial, _, by rw [hg]; rfl, rfl⟩
  | reopen t tn t' tn' =>
    simp only [specStep, Option.some.injEq, Prod.mk.injEq] at hs
    obtain ⟨rfl, rfl⟩ := hs
    have hk : q.toSeq.seek 1 = some (VSeq.toSeq { q with cur := 0 }) := by
      unfold Seq.seek VSeq.toSeq
      have : (1 : Int) ≤ 1 ∧ (1 : Int) ≤ ((q.vals.map Codec.dump).length : Int) + 1 := ⟨by omega, by omega⟩
      simp only [this, and_self, if_true]
      rfl
    simp only [ROp.sop, Seq.run, hk]
    exact ⟨trivial, _, rfl, rfl⟩

/-- the `SOp` histories (first component: of the file `n`, second: of the other file) the abstract run performs, up to the
    failing operation (excluded) -/
def trace2 (n : Str) (q1 q2 : VSeq) (a : Act) : List NOp → List SOp × List SOp
  | [] => ([], [])
  | p :: ops =>
    match spec2Step n q1 q2 a p with
    | none => ([], [])
    | some (q1', q2', a') =>
      let r := trace2 n q1' q2' a' ops
      if p.1 = n then (p.2.sop a :: r.1, r.2) else (r.1, p.2.sop a :: r.2)

/-- **the abstract run on the pair is `Seq.run` per file**: each of the two sequences reached is the one `Seq.run` reaches on
    that file's own history, and `Seq.run` reports every operation of the two histories as defined -/
theorem spec2Run_toSeq (n : Str) (q1 q2 : VSeq) (a : Act) (ops : List NOp) :
    (q1.toSeq.run (trace2 n q1 q2 a ops).1).1 = (spec2Run n q1 q2 a ops).q1.toSeq ∧
    (q2.toSeq.run (trace2 n q1 q2 a ops).2).1 = (spec2Run n q1 q2 a ops).q2.toSeq ∧
    (∀ o ∈ (q1.toSeq.run (trace2 n q1 q2 a ops).1).2, o.isSome = true) ∧
    (∀ o ∈ (q2.toSeq.run (trace2 n q1 q2 a ops).2).2, o.isSome = true) := by
  induction ops generalizing q1 q2 a with
  | nil => exact ⟨rfl, rfl, by simp [trace2, Seq.run], by simp [trace2, Seq.run]⟩
  | cons p ops ih =>
    cases hs : spec2Step n q1 q2 a p with
    | none =>
      rw [spec2Run_cons_none n q1 q2 a p ops hs]
      simp only [trace2, hs]
      exact ⟨rfl, rfl, by simp [Seq.run], by simp [Seq.run]⟩
    | some r =>
      obtain ⟨q1', q2', a'⟩ := r
      rw [spec2Run_cons_some n q1 q2 a p ops q1' q2' a' hs]
      simp only [trace2, hs]
      obtain ⟨i1, i2, i3, i4⟩ := ih q1' q2' a'
      unfold spec2Step at hs
      by_cases hp : p.1 = n
      · simp only [hp, if_true, Option.map_eq_some_iff, Prod.mk.injEq] at hs ⊢
        obtain ⟨r, hr, rfl, rfl, rfl⟩ := hs
        obtain ⟨e1, o, ho, e2⟩ := specStep_toSeq q1 a p.2 r.1 r.2 hr (trace2 n r.1 q2 r.2 ops).1
        refine ⟨by rw [e1]; exact i1, i2, ?_, i4⟩
        rw [e2]
        intro x hx
        rcases List.mem_cons.mp hx with rfl | hx
        · exact ho
        · exact i3 x hx
      · simp only [hp, if_false, Option.map_eq_some_iff, Prod.mk.injEq] at hs ⊢
        obtain ⟨r, hr, rfl, rfl, rfl⟩ := hs
        obtain ⟨e1, o, ho, e2⟩ := specStep_toSeq q2 a p.2 r.1 r.2 hr (trace2 n q1 r.1 r.2 ops).2
        refine ⟨i1, by rw [e1]; exact i2, i3, ?_⟩
        rw [e2]
        intro x hx
        rcases List.mem_cons.mp hx with rfl | hx
        · exact ho
        · exact i4 x hx

/-! ### the invariant and the fold -/

/-- the two record classes are disjoint or equal: if they share a value they have the same values. (Used only for a variable
    that is named in operations on both files; `RecClass.int` / `RecClass.str` are disjoint, a class is compatible with itself.) -/
def Compat {defs : Codec.Defs} (C1 C2 : RecClass defs) : Prop := ∀ u, C1.T u → C2.T u → ∀ v, C1.T v ↔ C2.T v

theorem Compat.refl {defs : Codec.Defs} (C : RecClass defs) : Compat C C := fun _ _ _ _ => Iff.rfl

theorem Compat.of_disjoint {defs : Codec.Defs} (C1 C2 : RecClass defs) (h : ∀ u, C1.T u → ¬ C2.T u) : Compat C1 C2 :=
  fun u h1 h2 => absurd h2 (h u h1)

/-- **the invariant of a run on two files**: different names, and each file satisfies the one-file invariant `RInv` (same
    state, same activation) for its own record class and value sequence -/
structure RInv2 {defs : Codec.Defs} (C1 C2 : RecClass defs) (σ : St) (n m : Str) (q1 q2 : VSeq) (a : Act) (rest : List Act) :
    Prop where
  ne : n ≠ m
  i1 : RInv C1 σ n q1 a rest
  i2 : RInv C2 σ m q2 a rest

/-- every variable named in an operation on `n` is a good variable for `C1`, in an operation on another name for `C2` -/
def VarsOK2 {defs : Codec.Defs} (C1 C2 : RecClass defs) (n : Str) (a : Act) (ops : List NOp) : Prop :=
  ∀ p ∈ ops, ∀ x, p.2.var? = some x → (p.1 = n → GoodVar C1 a x) ∧ (p.1 ≠ n → GoodVar C2 a x)

/-- the outcome of the interleaving according to the abstract run -/
def outcome2 (r : Spec2Res) (σ' : St) : Except Stop Unit × St :=
  match r.failed with
  | none => (.ok ⟨⟩, σ')
  | some p => errAt σ' p.2.tok p.2.failMsg

theorem hasVar_val_unique {a : Act} {x : Str} {ty ty' : Ty} {v v' : Val} (h : HasVar a x ty v) (h' : HasVar a x ty' v') :
    v = v' := by
  obtain ⟨s, hs, _, _, _, hv⟩ := h
  obtain ⟨s', hs', _, _, _, hv'⟩ := h'
  rw [hs] at hs'
  injection hs' with hs'
  subst hs'
  rw [← hv, ← hv']

section Fold
variable {defs : Codec.Defs}

theorem goodVar_step_same {C : RecClass defs} {a a' : Act}
    (ha : a' = a ∨ ∃ x v, GoodVar C a x ∧ C.T v ∧ a' = setVar a x v) : ∀ y, GoodVar C a y → GoodVar C a' y := by
  intro y hy
  rcases ha with rfl | ⟨x, v, hx, hv, rfl⟩
  · exact hy
  · exact hy.setVar hx v hv

theorem goodVar_step_other {C C' : RecClass defs} {a a' : Act} (hc : ∀ u, C.T u → C'.T u → ∀ v, C.T v → C'.T v)
    (ha : a' = a ∨ ∃ x v, GoodVar C a x ∧ C.T v ∧ a' = setVar a x v) : ∀ y, GoodVar C' a y → GoodVar C' a' y := by
  intro y hy
  rcases ha with rfl | ⟨x, v, hx, hv, rfl⟩
  · exact hy
  · by_cases hxy : x = y
    · subst hxy
      obtain ⟨ty, cur, hcur, _, hT⟩ := hx
      obtain ⟨ty', cur', hcur', hp', hT'⟩ := hy
      have e : cur = cur' := hasVar_val_unique hcur hcur'
      subst e
      exact ⟨ty', v, hasVar_setVar_same a x ty' cur v hcur', hp', hc cur hT hT' v hv⟩
    · obtain ⟨ty', cur', hcur', hp', hT'⟩ := hy
      exact ⟨ty', cur', hasVar_setVar_ne a x y ty' cur' v hxy hcur', hp', hT'⟩

/-- one defined operation on the file `n` (class `C`) while another file `m` (class `C'`) is open: both invariants afterwards -/
theorem step_pair {C C' : RecClass defs} {σ : St} {n m : Str} {q q' : VSeq} {a : Act} {rest : List Act}
    (hc : ∀ u, C.T u → C'.T u → ∀ v, C.T v → C'.T v) (hne : m ≠ n)
    (inv : RInv C σ n q a rest) (inv' : RInv C' σ m q' a rest) (f : Nat) (op : ROp) (hvars : VarsOK C a [op])
    (hb : σ.steps + op.cost ≤ σ.stepLimit) (more : Block) (qn : VSeq) (a' : Act) (hs : specStep q a op = some (qn, a')) :
    ∃ σ', (runBlock (f + 3 + op.cost) (op.stmts n ++ more)).run.run σ = (runBlock (f + 3) more).run.run σ' ∧
      RInv C σ' n qn a' rest ∧ RInv C' σ' m q' a' rest ∧ StFrame σ σ' op.cost (a' :: rest) ∧
      (∀ k, k ≠ n → Kept (fileSt σ) (fileSt σ') k) ∧
      (∀ y, GoodVar C a y → GoodVar C a' y) ∧ (∀ y, GoodVar C' a y → GoodVar C' a' y) := by
  obtain ⟨σ', hrun, i1, hfr, hkept, ha⟩ := (run_op_cont f op inv hvars hb more).1 qn a' hs
  have hacts : σ'.acts = a' :: rest := by rw [hfr]
  exact ⟨σ', hrun, i1, rinv_frame inv' hacts i1.defs (hkept m hne), hfr, hkept, goodVar_step_same ha,
    goodVar_step_other hc ha⟩

variable {C1 C2 : RecClass defs} {n m : Str} {rest : List Act}

/-- **an interleaving of random-file statements on two files runs like the abstract machine on the pair of sequences** -/
theorem run_ops2 (hc : Compat C1 C2) (f : Nat) : ∀ (ops : List NOp) (σ : St) (q1 q2 : VSeq) (a : Act),
    RInv2 C1 C2 σ n m q1 q2 a rest → VarsOK2 C1 C2 n a ops → (∀ p ∈ ops, p.1 = n ∨ p.1 = m) →
    σ.steps + cost2 ops ≤ σ.stepLimit →
    ∃ σ', (runBlock (f + 3 + cost2 ops) (block2 ops)).run.run σ = outcome2 (spec2Run n q1 q2 a ops) σ' ∧
      RInv2 C1 C2 σ' n m (spec2Run n q1 q2 a ops).q1 (spec2Run n q1 q2 a ops).q2 (spec2Run n q1 q2 a ops).a rest ∧
      StFrame σ σ' (spec2Run n q1 q2 a ops).steps ((spec2Run n q1 q2 a ops).a :: rest) ∧
      (∀ k, k ≠ n → k ≠ m → Kept (fileSt σ) (fileSt σ') k) ∧
      (∀ x, GoodVar C1 a x → GoodVar C1 (spec2Run n q1 q2 a ops).a x) ∧
      (∀ x, GoodVar C2 a x → GoodVar C2 (spec2Run n q1 q2 a ops).a x)
  | [], σ, q1, q2, a, inv, _, _, _ => by
    refine ⟨σ, run_runBlock_nil (f+2) σ, inv, ?_, fun k _ _ => Kept.refl _ k, fun _ h => h, fun _ h => h⟩
    unfold StFrame spec2Run
    dsimp only
    rw [← inv.i1.acts]
    rfl
  | p :: ops, σ, q1, q2, a, inv, hvars, hnames, hb => by
    obtain ⟨nm, op⟩ := p
    have hcost : cost2 ((nm, op) :: ops) = op.cost + cost2 ops := by simp [cost2]
    have hblock : block2 ((nm, op) :: ops) = op.stmts nm ++ block2 ops := by simp [block2]
    have hfuel : f + 3 + cost2 ((nm, op) :: ops) = (f + cost2 ops) + 3 + op.cost := by rw [hcost]; omega
    have hfuel' : (f + cost2 ops) + 3 = f + 3 + cost2 ops := by omega
    rw [hcost] at hb
    have hvars' : VarsOK2 C1 C2 n a ops := fun o ho => hvars o (List.mem_cons_of_mem _ ho)
    have hnames' : ∀ o ∈ ops, o.1 = n ∨ o.1 = m := fun o ho => hnames o (List.mem_cons_of_mem _ ho)
    -- continuation after a defined first operation
    have cont : ∀ (σ1 : St) (q1' q2' : VSeq) (a1 : Act), spec2Step n q1 q2 a (nm, op) = some (q1', q2', a1) →
        (runBlock (f + cost2 ops + 3 + op.cost) (op.stmts nm ++ block2 ops)).run.run σ =
          (runBlock (f + cost2 ops + 3) (block2 ops)).run.run σ1 →
        RInv2 C1 C2 σ1 n m q1' q2' a1 rest → StFrame σ σ1 op.cost (a1 :: rest) →
        (∀ k, k ≠ n → k ≠ m → Kept (fileSt σ) (fileSt σ1) k) →
        (∀ y, GoodVar C1 a y → GoodVar C1 a1 y) → (∀ y, GoodVar C2 a y → GoodVar C2 a1 y) →
        ∃ σ', (runBlock (f + 3 + cost2 ((nm, op) :: ops)) (block2 ((nm, op) :: ops))).run.run σ =
            outcome2 (spec2Run n q1 q2 a ((nm, op) :: ops)) σ' ∧
          RInv2 C1 C2 σ' n m (spec2Run n q1 q2 a ((nm, op) :: ops)).q1 (spec2Run n q1 q2 a ((nm, op) :: ops)).q2
            (spec2Run n q1 q2 a ((nm, op) :: ops)).a rest ∧
          StFrame σ σ' (spec2Run n q1 q2 a ((nm, op) :: ops)).steps ((spec2Run n q1 q2 a ((nm, op) :: ops)).a :: rest) ∧
          (∀ k, k ≠ n → k ≠ m → Kept (fileSt σ) (fileSt σ') k) ∧
          (∀ x, GoodVar C1 a x → GoodVar C1 (spec2Run n q1 q2 a ((nm, op) :: ops)).a x) ∧
          (∀ x, GoodVar C2 a x → GoodVar C2 (spec2Run n q1 q2 a ((nm, op) :: ops)).a x) := by
      intro σ1 q1' q2' a1 hs hrun inv1 hfr hkept hg1 hg2
      have hst : σ1.steps = σ.steps + op.cost := by rw [hfr]
      have hlim : σ1.stepLimit = σ.stepLimit := by rw [hfr]
      have hv1 : VarsOK2 C1 C2 n a1 ops := fun o ho x hx =>
        ⟨fun h => hg1 x ((hvars' o ho x hx).1 h), fun h => hg2 x ((hvars' o ho x hx).2 h)⟩
      obtain ⟨σ', h1, h2, h3, h4, h5, h6⟩ := run_ops2 hc f ops σ1 q1' q2' a1 inv1 hv1 hnames' (by rw [hst, hlim]; omega)
      have hsr := spec2Run_cons_some n q1 q2 a (nm, op) ops q1' q2' a1 hs
      refine ⟨σ', ?_, ?_, ?_, ?_, ?_, ?_⟩
      · rw [hblock, hfuel, hrun, hfuel', h1, hsr]; rfl
      · rw [hsr]; exact h2
      · rw [hsr]; exact hfr.trans h3
      · intro k hk1 hk2; exact (hkept k hk1 hk2).trans (h4 k hk1 hk2)
      · intro x hx; rw [hsr]; exact h5 x (hg1 x hx)
      · intro x hx; rw [hsr]; exact h6 x (hg2 x hx)
    -- a failing first operation
    have stop : spec2Step n q1 q2 a (nm, op) = none →
        (runBlock (f + cost2 ops + 3 + op.cost) (op.stmts nm ++ block2 ops)).run.run σ = errAt (tickSt σ) op.tok op.failMsg →
        ∃ σ', (runBlock (f + 3 + cost2 ((nm, op) :: ops)) (block2 ((nm, op) :: ops))).run.run σ =
            outcome2 (spec2Run n q1 q2 a ((nm, op) :: ops)) σ' ∧
          RInv2 C1 C2 σ' n m (spec2Run n q1 q2 a ((nm, op) :: ops)).q1 (spec2Run n q1 q2 a ((nm, op) :: ops)).q2
            (spec2Run n q1 q2 a ((nm, op) :: ops)).a rest ∧
          StFrame σ σ' (spec2Run n q1 q2 a ((nm, op) :: ops)).steps ((spec2Run n q1 q2 a ((nm, op) :: ops)).a :: rest) ∧
          (∀ k, k ≠ n → k ≠ m → Kept (fileSt σ) (fileSt σ') k) ∧
          (∀ x, GoodVar C1 a x → GoodVar C1 (spec2Run n q1 q2 a ((nm, op) :: ops)).a x) ∧
          (∀ x, GoodVar C2 a x → GoodVar C2 (spec2Run n q1 q2 a ((nm, op) :: ops)).a x) := by
      intro hs hrun
      have hsr := spec2Run_cons_none n q1 q2 a (nm, op) ops hs
      refine ⟨tickSt σ, ?_, ?_, ?_, fun k _ _ => Kept.refl _ k, fun x hx => by rw [hsr]; exact hx,
        fun x hx => by rw [hsr]; exact hx⟩
      · rw [hblock, hfuel, hrun, hsr]; rfl
      · rw [hsr]
        exact ⟨inv.ne, ⟨inv.i1.acts, inv.i1.defs, inv.i1.file⟩, ⟨inv.i2.acts, inv.i2.defs, inv.i2.file⟩⟩
      · rw [hsr]
        unfold StFrame tickSt
        dsimp only
        rw [← inv.i1.acts]
    by_cases hp : nm = n
    · subst hp
      have hv : VarsOK C1 a [op] := by
        intro o ho x hx
        simp only [List.mem_cons, List.not_mem_nil, or_false] at ho
        subst ho
        exact (hvars (nm, o) (List.mem_cons_self ..) x hx).1 rfl
      cases hs : specStep q1 a op with
      | none =>
        exact stop (by simp [spec2Step, hs])
          ((run_op_cont (f + cost2 ops) op inv.i1 hv (by omega) (block2 ops)).2 hs)
      | some r =>
        obtain ⟨qn, a1⟩ := r
        obtain ⟨σ1, hrun, j1, j2, hfr, hkept, hg1, hg2⟩ :=
          step_pair (fun u h1 h2 v => (hc u h1 h2 v).1) inv.ne.symm inv.i1 inv.i2 (f + cost2 ops) op hv (by omega)
            (block2 ops) qn a1 hs
        exact cont σ1 qn q2 a1 (by simp [spec2Step, hs]) hrun ⟨inv.ne, j1, j2⟩ hfr (fun k hk _ => hkept k hk) hg1 hg2
    · have hm : nm = m := by
        rcases hnames (nm, op) (List.mem_cons_self ..) with h | h
        · exact absurd h hp
        · exact h
      subst hm
      have hv : VarsOK C2 a [op] := by
        intro o ho x hx
        simp only [List.mem_cons, List.not_mem_nil, or_false] at ho
        subst ho
        exact (hvars (nm, o) (List.mem_cons_self ..) x hx).2 hp
      cases hs : specStep q2 a op with
      | none =>
        exact stop (by simp [spec2Step, hp, hs])
          ((run_op_cont (f + cost2 ops) op inv.i2 hv (by omega) (block2 ops)).2 hs)
      | some r =>
        obtain ⟨qn, a1⟩ := r
        obtain ⟨σ1, hrun, j2, j1, hfr, hkept, hg2, hg1⟩ :=
          step_pair (fun u h2 h1 v => (hc u h1 h2 v).2) inv.ne inv.i2 inv.i1 (f + cost2 ops) op hv (by omega)
            (block2 ops) qn a1 hs
        exact cont σ1 q1 qn a1 (by simp [spec2Step, hp, hs]) hrun ⟨inv.ne, j1, j2⟩ hfr (fun k _ hk => hkept k hk) hg1 hg2

end Fold

end Pseudo.RandomFile2
