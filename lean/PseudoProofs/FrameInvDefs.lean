import PseudoProofs.EvalStep
import PseudoProofs.NoCrashPure
/-!
# C04 frame theorem: definitions and state-level lemmas

`HasPtr k v`: the value `v` contains, at any depth (record members, array cells), a pointer whose target is a
location of the activation with id `k`.  `NoPtr k v := ¬ HasPtr k v`.

`Inv k σ` ("`σ` is closed w.r.t. `k`, and `k` is neither the top nor the global activation"):
* the id of the top activation and the id of the last (global) activation differ from `k`; `k` is below the id counter;
* every activation whose id is not `k` is `ActClosed k`: no BYREF alias slot refers to a location of `k`, no stored value
  (variables, arrays, the pending RETURN value) contains a pointer into `k`.

`Fr k σ σ'`: same activation ids in the same order, the activations with id `k` are *identical* (all fields), the id
counter did not decrease.
-/
namespace Pseudo.Frame
open Pseudo

/-- `v` contains (at any depth) a pointer to a location of activation `k` -/
inductive HasPtr (k : Nat) : Val → Prop
  | ptr (ty : Str) (l : Loc) : l.act = k → HasPtr k (.ptr ty (some l))
  | comp (ty : Str) (fs : List (Str × Val)) (p : Str × Val) : p ∈ fs → HasPtr k p.2 → HasPtr k (.comp ty fs)
  | arr (e : Ty) (d : List (Int × Int)) (cs : List Val) (v : Val) : v ∈ cs → HasPtr k v → HasPtr k (.arr e d cs)

/-- no pointer into activation `k` anywhere inside `v` -/
abbrev NoPtr (k : Nat) (v : Val) : Prop := ¬ HasPtr k v

variable {k : Nat}

theorem noPtr_of_simple {v : Val} (h : NC.simple v = true) : NoPtr k v := by
  intro hp
  cases hp <;> cases h

theorem noPtr_none : NoPtr k .none := fun h => nomatch h
theorem noPtr_int (n : Int) : NoPtr k (.int n) := fun h => nomatch h
theorem noPtr_real (x : Float) : NoPtr k (.real x) := fun h => nomatch h
theorem noPtr_bool (b : Bool) : NoPtr k (.bool b) := fun h => nomatch h
theorem noPtr_chr (c : Char) : NoPtr k (.chr c) := fun h => nomatch h
theorem noPtr_str (s : Str) : NoPtr k (.str s) := fun h => nomatch h
theorem noPtr_date (t : Calendar.Date) : NoPtr k (.date t) := fun h => nomatch h
theorem noPtr_enum (ty : Str) (i : Nat) : NoPtr k (.enum ty i) := fun h => nomatch h
theorem noPtr_ptr_none (ty : Str) : NoPtr k (.ptr ty none) := fun h => nomatch h

theorem noPtr_ptr {ty : Str} {l : Loc} (h : l.act ≠ k) : NoPtr k (.ptr ty (some l)) := by
  intro hp
  cases hp with
  | ptr _ _ h' => exact h h'

theorem ptr_target_ne {ty : Str} {l : Loc} (h : NoPtr k (.ptr ty (some l))) : l.act ≠ k :=
  fun h' => h (.ptr ty l h')

theorem noPtr_arr {e : Ty} {d : List (Int × Int)} {cs : List Val} (h : ∀ v ∈ cs, NoPtr k v) : NoPtr k (.arr e d cs) := by
  intro hp
  cases hp with
  | arr _ _ _ v hv hp' => exact h v hv hp'

theorem noPtr_comp {ty : Str} {fs : List (Str × Val)} (h : ∀ p ∈ fs, NoPtr k p.2) : NoPtr k (.comp ty fs) := by
  intro hp
  cases hp with
  | comp _ _ p hm hp' => exact h p hm hp'

/-! ### paths -/

theorem findField_mem {fs : List (Str × Val)} {n : Str} {w : Bool} {v : Val} (h : findField fs n w = some v) :
    ∃ p ∈ fs, p.2 = v := by
  unfold findField at h
  cases hf : fs.find? (fun p => p.1 == n && p.2.isArr == w) with
  | none => rw [hf] at h; cases h
  | some p =>
    rw [hf] at h
    exact ⟨p, List.mem_of_find?_eq_some hf, Option.some.inj h⟩

theorem hasPtr_getPath : ∀ (p : List Step) (v w : Val), getPath v p = some w → HasPtr k w → HasPtr k v
  | [], v, w, h, hw => by
    have : getPath v [] = some v := by cases v <;> rfl
    rw [this] at h
    cases h
    exact hw
  | st :: rest, v, w, h, hw => by
    cases v <;> cases st <;> simp only [getPath] at h <;> try (exact absurd h (by simp))
    · rename_i ty fs n
      split at h
      · split at h
        · rename_i fv hfv
          obtain ⟨p, hp, rfl⟩ := findField_mem hfv
          exact .comp ty fs p hp (hasPtr_getPath rest _ w h hw)
        · cases h
      · cases h
    · rename_i e d cells i
      split at h
      · rename_i cv hcv
        exact .arr e d cells cv (List.mem_of_getElem? hcv) (hasPtr_getPath rest _ w h hw)
      · cases h

theorem noPtr_getPath {p : List Step} {v w : Val} (h : getPath v p = some w) (hv : NoPtr k v) : NoPtr k w :=
  fun hw => hv (hasPtr_getPath p v w h hw)

theorem setField_mem {n : Str} {w : Bool} {x : Val} : ∀ {fs : List (Str × Val)} {p : Str × Val},
    p ∈ setField fs n w x → p ∈ fs ∨ p.2 = x
  | [], _, h => by cases h
  | q :: rest, p, h => by
    unfold setField at h
    split at h
    · cases h with
      | head => exact .inr rfl
      | tail _ h' => exact .inl (List.mem_cons_of_mem _ h')
    · cases h with
      | head => exact .inl (List.mem_cons_self ..)
      | tail _ h' =>
        rcases setField_mem h' with h1 | h1
        · exact .inl (List.mem_cons_of_mem _ h1)
        · exact .inr h1

theorem hasPtr_setPath (nv : Val) : ∀ (p : List Step) (v v' : Val), setPath v p nv = some v' → HasPtr k v' →
    HasPtr k v ∨ HasPtr k nv
  | [], v, v', h, hw => by
    have : setPath v [] nv = some nv := by cases v <;> rfl
    rw [this] at h
    cases h
    exact .inr hw
  | st :: rest, v, v', h, hw => by
    cases v <;> cases st <;> simp only [setPath] at h <;> try (exact absurd h (by simp))
    · rename_i ty fs n
      split at h
      · split at h
        · rename_i w _ fv hfv
          split at h
          · rename_i x hx
            cases h
            obtain ⟨q, hq, rfl⟩ := findField_mem hfv
            cases hw with
            | comp _ _ p hp hpp =>
              rcases setField_mem hp with h1 | h1
              · exact .inl (.comp ty fs p h1 hpp)
              · rw [h1] at hpp
                rcases hasPtr_setPath nv rest _ _ hx hpp with h2 | h2
                · exact .inl (.comp ty fs q hq h2)
                · exact .inr h2
          · cases h
        · cases h
      · cases h
    · rename_i e d cells i
      split at h
      · rename_i cv hcv
        split at h
        · rename_i x hx
          cases h
          cases hw with
          | arr _ _ _ y hy hyp =>
            rcases List.mem_or_eq_of_mem_set hy with h1 | h1
            · exact .inl (.arr e d cells y h1 hyp)
            · rw [h1] at hyp
              rcases hasPtr_setPath nv rest _ _ hx hyp with h2 | h2
              · exact .inl (.arr e d cells cv (List.mem_of_getElem? hcv) h2)
              · exact .inr h2
        · cases h
      · cases h

theorem noPtr_setPath {nv : Val} {p : List Step} {v v' : Val} (h : setPath v p nv = some v') (hv : NoPtr k v)
    (hn : NoPtr k nv) : NoPtr k v' :=
  fun hw => (hasPtr_setPath nv p v v' h hw).elim hv hn

/-! ### pure value operations -/

theorem noPtr_implicitCast (ty : Ty) {v : Val} (h : NoPtr k v) : NoPtr k (implicitCast ty v) := by
  unfold implicitCast
  split <;> first | exact h | exact fun h => nomatch h

theorem noPtr_defaultPrim (ty : Ty) : NoPtr k (defaultPrim ty) := by
  cases ty <;> (intro h; cases h)

theorem noPtr_evalArith (sz : Str → Option Nat) (op : ArOp) (l r v : Val) (h : evalArith sz op l r = .ok v) :
    NoPtr k v := by
  cases l <;> cases r
  all_goals
    simp only [evalArith] at h
    try (repeat' split at h)
    all_goals first
      | (cases h; done)
      | (cases h; intro hp; cases hp; done)
      | (cases h; cases op <;> (intro hp; cases hp; done))

theorem noPtr_inputConvert (ty : Ty) (line : Str) (v : Val) (h : inputConvert ty line = some v) : NoPtr k v :=
  noPtr_of_simple (NC.simple_inputConvert ty line v h).1

/-! ### closed slots / activations, the invariant -/

/-- a cell that does not refer to activation `k`: not an alias of one of its locations, no pointer into it -/
def SlotClosed (k : Nat) (s : Slot) : Prop := (∀ l, s.ref = some l → l.act ≠ k) ∧ NoPtr k s.val

structure ActClosed (k : Nat) (a : Act) : Prop where
  vars : ∀ s ∈ a.vars, SlotClosed k s
  arrs : ∀ s ∈ a.arrs, SlotClosed k s
  ret : ∀ v, a.retVal = some v → NoPtr k v

/-- ids of the live activations, innermost first -/
def idsOf (σ : St) : List Nat := σ.acts.map (·.id)

/-- the activation(s) with id `k` -/
def actsOf (k : Nat) (σ : St) : List Act := σ.acts.filter (·.id == k)

structure Inv (k : Nat) (σ : St) : Prop where
  top : ∀ i, (idsOf σ).head? = some i → i ≠ k
  glob : ∀ i, (idsOf σ).getLast? = some i → i ≠ k
  below : k < σ.nextId
  closed : ∀ a ∈ σ.acts, a.id ≠ k → ActClosed k a

structure Fr (k : Nat) (σ σ' : St) : Prop where
  ids : idsOf σ' = idsOf σ
  same : actsOf k σ' = actsOf k σ
  next : σ.nextId ≤ σ'.nextId

theorem Fr.refl (σ : St) : Fr k σ σ := ⟨rfl, rfl, Nat.le_refl _⟩
theorem Fr.trans {a b c : St} (h1 : Fr k a b) (h2 : Fr k b c) : Fr k a c :=
  ⟨h2.ids.trans h1.ids, h2.same.trans h1.same, Nat.le_trans h1.next h2.next⟩

theorem Inv.top_ne {σ : St} (h : Inv k σ) {a : Act} {rest : List Act} (ha : σ.acts = a :: rest) : a.id ≠ k :=
  h.top a.id (by unfold idsOf; rw [ha]; rfl)

theorem Inv.top_closed {σ : St} (h : Inv k σ) {a : Act} {rest : List Act} (ha : σ.acts = a :: rest) : ActClosed k a :=
  h.closed a (by rw [ha]; exact List.mem_cons_self ..) (h.top_ne ha)

theorem Inv.glob_ne {σ : St} (h : Inv k σ) {g : Act} (hg : σ.acts.getLast? = some g) : g.id ≠ k :=
  h.glob g.id (by unfold idsOf; rw [List.getLast?_map, hg]; rfl)

theorem Inv.glob_closed {σ : St} (h : Inv k σ) {g : Act} (hg : σ.acts.getLast? = some g) : ActClosed k g :=
  h.closed g (List.mem_of_getLast? hg) (h.glob_ne hg)

/-- the activation found under an id other than `k` is closed -/
theorem Inv.find_closed {σ : St} (h : Inv k σ) {i : Nat} (hi : i ≠ k) {a : Act}
    (ha : σ.acts.find? (·.id == i) = some a) : a.id = i ∧ ActClosed k a := by
  have h1 : a.id = i := by simpa using List.find?_some ha
  exact ⟨h1, h.closed a (List.mem_of_find?_eq_some ha) (h1 ▸ hi)⟩

/-- only the parts of the state outside `acts` / `nextId` change -/
theorem Inv.of_acts {σ σ' : St} (h : Inv k σ) (h1 : σ'.acts = σ.acts) (h2 : σ'.nextId = σ.nextId) :
    Inv k σ' ∧ Fr k σ σ' :=
  ⟨⟨by unfold idsOf; rw [h1]; exact h.top, by unfold idsOf; rw [h1]; exact h.glob, by rw [h2]; exact h.below,
    by rw [h1]; exact h.closed⟩,
   ⟨by unfold idsOf; rw [h1], by unfold actsOf; rw [h1], Nat.le_of_eq h2.symm⟩⟩

/-! ### update of one activation -/

theorem updActs_ids (id : Nat) (F : Act → Act) (hF : ∀ a, (F a).id = a.id) :
    ∀ acts : List Act, (updActs acts id F).map (·.id) = acts.map (·.id)
  | [] => rfl
  | a :: rest => by
    unfold updActs
    split
    · simp only [List.map_cons, hF]
    · simp only [List.map_cons, updActs_ids id F hF rest]

theorem updActs_filter (id : Nat) (F : Act → Act) (hF : ∀ a, (F a).id = a.id) (hid : id ≠ k) :
    ∀ acts : List Act, (updActs acts id F).filter (·.id == k) = acts.filter (·.id == k)
  | [] => rfl
  | a :: rest => by
    unfold updActs
    split
    · rename_i heq
      have h1 : a.id = id := by simpa using heq
      have h2 : (a.id == k) = false := by simp [h1, hid]
      have h3 : ((F a).id == k) = false := by rw [hF]; exact h2
      simp only [List.filter_cons, h2, h3]
      rfl
    · simp only [List.filter_cons, updActs_filter id F hF hid rest]

theorem updActs_mem (id : Nat) (F : Act → Act) : ∀ (acts : List Act) (b : Act), b ∈ updActs acts id F →
    b ∈ acts ∨ ∃ a ∈ acts, a.id = id ∧ b = F a
  | [], _, h => by cases h
  | a :: rest, b, h => by
    unfold updActs at h
    split at h
    · rename_i heq
      cases h with
      | head => exact .inr ⟨a, List.mem_cons_self .., by simpa using heq, rfl⟩
      | tail _ h' => exact .inl (List.mem_cons_of_mem _ h')
    · cases h with
      | head => exact .inl (List.mem_cons_self ..)
      | tail _ h' =>
        rcases updActs_mem id F rest b h' with h1 | ⟨a', ha', hid, hb⟩
        · exact .inl (List.mem_cons_of_mem _ h1)
        · exact .inr ⟨a', List.mem_cons_of_mem _ ha', hid, hb⟩

/-- an update of an activation other than `k` that keeps its id and its closedness -/
theorem Inv.updSt {σ : St} (h : Inv k σ) (id : Nat) (F : Act → Act) (hid : id ≠ k) (hF : ∀ a, (F a).id = a.id)
    (hC : ∀ a, a.id = id → ActClosed k a → ActClosed k (F a)) :
    Inv k (Pseudo.updSt σ id F) ∧ Fr k σ (Pseudo.updSt σ id F) := by
  have hids : idsOf (Pseudo.updSt σ id F) = idsOf σ := updActs_ids id F hF σ.acts
  refine ⟨⟨by rw [hids]; exact h.top, by rw [hids]; exact h.glob, h.below, ?_⟩, ⟨hids, updActs_filter id F hF hid σ.acts,
    Nat.le_refl _⟩⟩
  intro b hb hbk
  rcases updActs_mem id F σ.acts b hb with h1 | ⟨a, ha, hai, rfl⟩
  · exact h.closed b h1 hbk
  · exact hC a hai (h.closed a ha (by rw [hai]; exact hid))

/-! ### push / pop -/

theorem Inv.push {σ : St} (h : Inv k σ) (mk : Nat → Act) (hmk : (mk σ.nextId).id = σ.nextId)
    (hC : ActClosed k (mk σ.nextId)) : Inv k (pushSt mk σ) := by
  have hne : σ.nextId ≠ k := Nat.ne_of_gt h.below
  refine ⟨?_, ?_, Nat.lt_succ_of_lt h.below, ?_⟩
  · intro i hi
    have : i = σ.nextId := by
      simp only [idsOf, pushSt, List.map_cons, List.head?_cons, Option.some.injEq, hmk] at hi
      exact hi.symm
    rw [this]; exact hne
  · intro i hi
    simp only [idsOf, pushSt, List.map_cons] at hi
    cases hacts : σ.acts with
    | nil =>
      rw [hacts] at hi
      simp only [List.map_nil, List.getLast?_singleton, Option.some.injEq, hmk] at hi
      rw [← hi]; exact hne
    | cons a rest =>
      rw [hacts] at hi
      rw [List.map_cons, List.getLast?_cons_cons] at hi
      exact h.glob i (by unfold idsOf; rw [hacts]; exact hi)
  · intro a ha hak
    simp only [pushSt, List.mem_cons] at ha
    rcases ha with rfl | ha
    · exact hC
    · exact h.closed a ha hak

/-- the bracket: what holds between the pushed state and the end of the body holds, after the pop, from the start -/
theorem Inv.pop {σ σ2 : St} (h : Inv k σ) (mk : Nat → Act) (hmk : (mk σ.nextId).id = σ.nextId)
    (h2 : Inv k σ2) (hfr : Fr k (pushSt mk σ) σ2) : Inv k (popSt σ2) ∧ Fr k σ (popSt σ2) := by
  have hne : σ.nextId ≠ k := Nat.ne_of_gt h.below
  have hids : idsOf σ2 = σ.nextId :: idsOf σ := by
    rw [hfr.ids]; simp only [idsOf, pushSt, List.map_cons, hmk]
  cases hacts : σ2.acts with
  | nil => rw [idsOf, hacts] at hids; cases hids
  | cons a2 rest2 =>
    rw [idsOf, hacts, List.map_cons] at hids
    have ha2 : a2.id = σ.nextId := (List.cons.inj hids).1
    have hrest : rest2.map (·.id) = idsOf σ := (List.cons.inj hids).2
    have hpop : (popSt σ2).acts = rest2 := by simp only [popSt, hacts, List.drop_succ_cons, List.drop_zero]
    have hids' : idsOf (popSt σ2) = idsOf σ := by unfold idsOf; rw [hpop]; exact hrest
    have hsame : actsOf k (popSt σ2) = actsOf k σ := by
      have h1 := hfr.same
      have e1 : (a2.id == k) = false := by simp [ha2, hne]
      have e2 : ((mk σ.nextId).id == k) = false := by simp [hmk, hne]
      simp only [actsOf, hacts, pushSt, List.filter_cons, e1, e2] at h1
      unfold actsOf
      rw [hpop]
      exact h1
    refine ⟨⟨by rw [hids']; exact h.top, by rw [hids']; exact h.glob, h2.below, ?_⟩, ⟨hids', hsame, ?_⟩⟩
    · intro a ha hak
      rw [hpop] at ha
      exact h2.closed a (by rw [hacts]; exact List.mem_cons_of_mem _ ha) hak
    · have := hfr.next
      simp only [pushSt] at this
      show σ.nextId ≤ σ2.nextId
      omega

/-! ### slots -/

theorem updSlot_mem (n : Str) (F : Slot → Slot) : ∀ (ss : List Slot) (s : Slot), s ∈ updSlot ss n F →
    s ∈ ss ∨ ∃ s0 ∈ ss, s = F s0
  | [], _, h => by cases h
  | a :: rest, s, h => by
    unfold updSlot at h
    split at h
    · cases h with
      | head => exact .inr ⟨a, List.mem_cons_self .., rfl⟩
      | tail _ h' => exact .inl (List.mem_cons_of_mem _ h')
    · cases h with
      | head => exact .inl (List.mem_cons_self ..)
      | tail _ h' =>
        rcases updSlot_mem n F rest s h' with h1 | ⟨s0, hs0, hs⟩
        · exact .inl (List.mem_cons_of_mem _ h1)
        · exact .inr ⟨s0, List.mem_cons_of_mem _ hs0, hs⟩

theorem findSlot_mem {ss : List Slot} {n : Str} {s : Slot} (h : findSlot ss n = some s) : s ∈ ss :=
  List.mem_of_find?_eq_some h

theorem slotOf_closed {a : Act} (ha : ActClosed k a) {l : Loc} {s : Slot} (h : slotOf a l = some s) : SlotClosed k s := by
  unfold slotOf at h
  split at h
  · exact ha.arrs s (findSlot_mem h)
  · exact ha.vars s (findSlot_mem h)

end Pseudo.Frame
