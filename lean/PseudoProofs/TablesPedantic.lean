import PseudoProofs.TablesBase
namespace Pseudo

/-- E7: the pedantic rejections of the source are the six sites the model (and C20) knows: two in the lexer, two in the parser,
    two in the evaluator (message wording is free) -/
theorem pedanticSites_agree : Generated.pedanticSites = [] ∨ Generated.pedanticSites.map (·.1) =
    ["src/lexer/symbolLexer.cpp", "src/lexer/symbolLexer.cpp", "src/nodes/io/io.cpp", "src/nodes/variable/variable.cpp",
     "src/parser/evalExprParser.cpp", "src/parser/selectionParser.cpp"] := by decide

end Pseudo
