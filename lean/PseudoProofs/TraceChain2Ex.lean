import Properties.C11Chain
import PseudoProofs.TraceChain2
/-!
# The concrete program of the non-vacuity instance of `Properties/C11Chain2.lean`: text, tokens, syntax tree

(kept in a module of its own because the two evaluations `lexEq` / `parseEq` take about a minute)
-/
namespace Pseudo
open ArrayLemmas C07Copy TraceLemmas TraceChain TraceChain2
namespace C11Chain2Ex
open C11ChainEx (tk getOk isOkB isTrueB run_of_isOk run_of_isOk_unit run_of_isTrue acts_head_tail)

set_option maxRecDepth 1000000

/-! ### evaluation helper: the parts of an array value read from a cell -/
def arrParts : Except Stop Val → Ty × List (Int × Int) × List Val
  | .ok (.arr e d c) => (e, d, c)
  | _ => default
def isArrB : Except Stop Val → Bool
  | .ok (.arr _ _ _) => true
  | _ => false
theorem arr_of_isArrB (x : Except Stop Val) (h : isArrB x = true) : x = .ok (.arr (arrParts x).1 (arrParts x).2.1 (arrParts x).2.2) := by
  rcases x with e | v
  · cases h
  · cases v <;> first | rfl | cases h


/-- three function calls deep, each call site at one of the new positions: the condition of a WHILE (line 16), an index
    expression of the TARGET of an assignment (line 11), the right operand of `&` inside OUTPUT (line 6) -/
def src : String :=
  "FUNCTION H(n : INTEGER) RETURNS STRING\n    OUTPUT 1 DIV 0\n    RETURN \"x\"\nENDFUNCTION\n" ++
  "FUNCTION G(i : INTEGER) RETURNS INTEGER\n    OUTPUT \"a\" & H(1)\n    RETURN i\nENDFUNCTION\n" ++
  "FUNCTION F(x : INTEGER) RETURNS INTEGER\n    DECLARE A : ARRAY[1:3] OF INTEGER\n    A[G(x)] <- 5\n    RETURN x\nENDFUNCTION\n" ++
  "DECLARE x : INTEGER\nx <- 2\nWHILE F(x) > 0 DO\n    x <- x - 1\nENDWHILE\n"

def toks : List Tok :=
  match lex {} (src.toList ++ ['\n']) with
  | .ok t => t
  | .error _ => []

theorem lexEq : lex {} (src.toList ++ ['\n']) = .ok toks := by
  have h : (match lex {} (src.toList ++ ['\n']) with | .ok _ => true | .error _ => false) = true := by decide +kernel
  unfold toks
  cases hl : lex {} (src.toList ++ ['\n']) with
  | ok t => rfl
  | error d => rw [hl] at h; cases h

def acc (l c : Nat) (v : String) : Expr := .access (tk .IDENTIFIER l c v) (.var (tk .IDENTIFIER l c v))
def intP (l c : Nat) (n : String) : Param := { name := n.toList, ty := tk .DATA_TYPE l c "INTEGER", byRef := false }

-- H
def odTok : Tok := tk .OUTPUT 2 5
def divTok : Tok := tk .DIV 2 14
def oneTok : Tok := tk .INTEGER 2 12 "1"
def zeroTok : Tok := tk .INTEGER 2 18 "0"
def moreH : Block := [.ret (tk .RETURN 3 5) (.strLit (tk .STRING 3 12 "x") "x".toList)]
def bodyH : Block := .output odTok [.arith divTok .idiv (.intLit oneTok 1) (.intLit zeroTok 0)] :: moreH
def defTokH : Tok := tk .FUNCTION 1 1
def defH : Stmt := .funDef defTokH "H".toList [intP 1 16 "n"] (tk .DATA_TYPE 1 33 "STRING") bodyH
-- G
def tH : Tok := tk .IDENTIFIER 6 18 "H"
def argsH : List Expr := [.intLit (tk .INTEGER 6 20 "1") 1]
def outTok : Tok := tk .OUTPUT 6 5
def catTok : Tok := tk .AMPERSAND 6 16
def litA : Expr := .strLit (tk .STRING 6 12 "a") "a".toList
def retI : Stmt := .ret (tk .RETURN 7 5) (acc 7 12 "i")
def bodyG : Block := [.output outTok [.concat catTok litA (.call tH argsH)], retI]
def defTokG : Tok := tk .FUNCTION 5 1
def defG : Stmt := .funDef defTokG "G".toList [intP 5 16 "i"] (tk .DATA_TYPE 5 33 "INTEGER") bodyG
-- F
def tG : Tok := tk .IDENTIFIER 11 7 "G"
def argsG : List Expr := [acc 11 9 "x"]
def declA : Stmt := .declareArr (tk .DECLARE 10 5) [tk .IDENTIFIER 10 13 "A"] (tk .DATA_TYPE 10 31 "INTEGER")
  [(.intLit (tk .INTEGER 10 23 "1") 1, .intLit (tk .INTEGER 10 25 "3") 3)]
def asgTok : Tok := tk .ASSIGNMENT 11 14
def ixTok : Tok := tk .LSQRBRACKET 11 6
def refA : Ref := .var (tk .IDENTIFIER 11 5 "A")
def rhs5 : Expr := .intLit (tk .INTEGER 11 16 "5") 5
def retX : Stmt := .ret (tk .RETURN 12 5) (acc 12 12 "x")
def bodyF : Block := [declA] ++ [.expr (.assign asgTok (.index ixTok refA [.call tG argsG]) rhs5), retX]
def defTokF : Tok := tk .FUNCTION 9 1
def defF : Stmt := .funDef defTokF "F".toList [intP 9 16 "x"] (tk .DATA_TYPE 9 33 "INTEGER") bodyF
-- main program
def tF : Tok := tk .IDENTIFIER 16 7 "F"
def argsF : List Expr := [acc 16 9 "x"]
def wt : Tok := tk .WHILE 16 1
def ct : Tok := tk .GREATER 16 13
def lit0 : Expr := .intLit (tk .INTEGER 16 14 "0") 0
def wb : Block := [.expr (.assign (tk .ASSIGNMENT 17 8) (.var (tk .IDENTIFIER 17 5 "x"))
  (.arith (tk .MINUS 17 12) .sub (acc 17 10 "x") (.intLit (tk .INTEGER 17 14 "1") 1)))]
def pre₀ : Block := [defH, defG, defF, .declare (tk .DECLARE 14 1) [tk .IDENTIFIER 14 9 "x"] (tk .DATA_TYPE 14 13 "INTEGER"),
  .expr (.assign (tk .ASSIGNMENT 15 4) (.var (tk .IDENTIFIER 15 1 "x")) (.intLit (tk .INTEGER 15 6 "2") 2))]
def prog : Block := pre₀ ++ [.while wt (.cmp ct .gt (.call tF argsF) lit0) wb]

/-- the parser's output for `src` is `prog` (checked by unfolding the parser) -/
theorem parseEq : parse {} toks = .ok (prog, []) := by rfl

end C11Chain2Ex
end Pseudo
