import PseudoProofs.EvalInv
/-!
# Step lemmas for the evaluator

* the read-only primitives as functions of the state: `run_mkRuntime` / `run_rtErr` (`rtDiag`), `run_isLive`,
  `run_findAct`, `run_readLoc` (`readLocP`), `run_locIsConst` (`locConstP`), `run_tick` (`tickSt`);
* `run_bind`, `run_tryCatch`: the general shape of a bind / handler in `M` (the state survives an exception);
* one-round unfolding equations of the mutual block as equalities of `M` computations (`resolveRef_deref`,
  `evalExpr_ptrAssign`, `evalExpr_access`, `loopBody_succ`, `whileLoop_succ`, `repeatLoop_succ`, `forLoop_succ`,
  `ifChain_nil/cons`, `caseClauses_nil/cons`, `runBlock_nil/cons`) — by `rw [f.eq_def]; rfl`;
* read after write: `getPath_setPath`, `run_writeLoc_ok`.
-/
namespace Pseudo

/-- the runtime diagnostic `mkRuntime` builds in state `σ` -/
def rtDiag (σ : St) (line col : Nat) (msg : Msg) : Diag :=
  match σ.acts with
  | [] => { kind := .runtime, line := line, col := col, msg := msg }
  | a :: parents =>
    { kind := .runtime, line := line, col := col, msg := msg,
      trace := { name := a.name, line := line, col := col } :: parents.map fun p =>
        match p.switchTok with
        | some (l, c) => { name := p.name, line := l, col := c }
        | none => { name := p.name, line := 0, col := 0 } }

theorem run_mkRuntime (l c : Nat) (m : Msg) (σ : St) : (mkRuntime l c m).run.run σ = (.ok (rtDiag σ l c m), σ) := by
  unfold mkRuntime rtDiag
  rw [run_bind_ok _ _ _ _ _ (run_get σ)]
  cases σ.acts <;> rfl

theorem run_rtErr {α : Type} (t : Tok) (m : Msg) (σ : St) :
    (rtErr t m : M α).run.run σ = (.error (.diag (rtDiag σ t.line t.col m)), σ) := by
  unfold rtErr
  rw [run_bind_ok _ _ _ _ _ (run_mkRuntime _ _ _ σ)]
  rfl

@[simp] theorem rtDiag_msg (σ : St) (l c : Nat) (m : Msg) : (rtDiag σ l c m).msg = m := by
  unfold rtDiag; cases σ.acts <;> rfl
@[simp] theorem rtDiag_kind (σ : St) (l c : Nat) (m : Msg) : (rtDiag σ l c m).kind = .runtime := by
  unfold rtDiag; cases σ.acts <;> rfl
@[simp] theorem rtDiag_line (σ : St) (l c : Nat) (m : Msg) : (rtDiag σ l c m).line = l := by
  unfold rtDiag; cases σ.acts <;> rfl
@[simp] theorem rtDiag_col (σ : St) (l c : Nat) (m : Msg) : (rtDiag σ l c m).col = c := by
  unfold rtDiag; cases σ.acts <;> rfl

theorem run_isLive (id : Nat) (σ : St) : (isLive id).run.run σ = (.ok (σ.acts.any (·.id == id)), σ) := rfl

theorem run_findAct (id : Nat) (σ : St) : (findAct id).run.run σ = (.ok (σ.acts.find? (·.id == id)), σ) := rfl

/-- `readLoc` as a function of the state -/
def readLocP (σ : St) (l : Loc) : Except Stop Val :=
  match σ.acts.find? (·.id == l.act) with
  | none => .error (.crash .danglingLoc)
  | some a =>
    match slotOf a l with
    | none => .error (.crash .danglingLoc)
    | some s =>
      match getPath s.val l.path with
      | some v => .ok v
      | none => .error (.crash .danglingLoc)

theorem run_readLoc (l : Loc) (σ : St) : (readLoc l).run.run σ = (readLocP σ l, σ) := by
  unfold readLoc readLocP
  rw [run_bind_ok _ _ _ _ _ (run_findAct _ σ)]
  cases σ.acts.find? (·.id == l.act) with
  | none => rfl
  | some a =>
    dsimp only
    cases slotOf a l with
    | none => rfl
    | some s =>
      dsimp only
      cases getPath s.val l.path <;> rfl

theorem run_tick (t : Tok) (σ : St) :
    (tick t).run.run σ =
      if σ.steps + 1 > σ.stepLimit then (.error (.diag (rtDiag σ t.line t.col .budget)), σ)
      else (.ok ⟨⟩, { σ with steps := σ.steps + 1 }) := by
  unfold tick
  rw [run_bind_ok _ _ _ _ _ (run_get σ)]
  split
  · exact run_rtErr t .budget σ
  · rfl



/-- the general shape of a bind: the state survives the exception -/
theorem run_bind {α β : Type} (m : M α) (f : α → M β) (σ : St) :
    (m >>= f).run.run σ =
      match m.run.run σ with
      | (.ok a, σ') => (f a).run.run σ'
      | (.error e, σ') => (.error e, σ') := by
  rcases h : m.run.run σ with ⟨e | a, σ'⟩
  · exact run_bind_err m f σ σ' e h
  · exact run_bind_ok m f σ σ' a h

theorem run_tryCatch {α : Type} (m : M α) (hd : Stop → M α) (σ : St) :
    (tryCatch m hd).run.run σ =
      match m.run.run σ with
      | (.ok a, σ') => (.ok a, σ')
      | (.error e, σ') => (hd e).run.run σ' := by
  rcases h : m.run.run σ with ⟨e | a, σ'⟩
  · exact run_tryCatch_err m hd σ σ' e h
  · exact run_tryCatch_ok m hd σ σ' a h

/-- the state after one successful `tick` -/
def tickSt (σ : St) : St := { σ with steps := σ.steps + 1 }

theorem run_tick_ok (t : Tok) (σ : St) (h : σ.steps + 1 ≤ σ.stepLimit) : (tick t).run.run σ = (.ok ⟨⟩, tickSt σ) := by
  rw [run_tick]
  have : ¬ (σ.steps + 1 > σ.stepLimit) := by omega
  simp only [this, if_false]
  rfl

theorem run_tick_budget (t : Tok) (σ : St) (h : σ.steps + 1 > σ.stepLimit) :
    (tick t).run.run σ = (.error (.diag (rtDiag σ t.line t.col .budget)), σ) := by
  rw [run_tick]
  simp only [h, if_true]

theorem readLocP_tickSt (σ : St) (l : Loc) : readLocP (tickSt σ) l = readLocP σ l := rfl

/-! ### one-round unfolding equations of the evaluator (equalities of `M` computations) -/

theorem resolveRef_deref (f : Nat) (t : Tok) (r : Ref) :
    resolveRef (f+1) (.deref t r) = (do
        let h ← resolveRef f r
        if h.isArr then rtErr t .typeMismatch
        else
          let v ← readLoc h.loc
          match v with
          | .ptr _ tgt =>
            match tgt with
            | none => rtErr t .deletedObject
            | some l =>
              if !(← isLive l.act) then rtErr t .deletedObject
              else
                let tv ← readLoc l
                pure { loc := l, isArr := false, ty := tv.ty, name := l.name }
          | _ => rtErr t .typeMismatch) := by
  rw [resolveRef.eq_def]; rfl

theorem evalExpr_ptrAssign (f : Nat) (t : Tok) (r v : Ref) :
    evalExpr (f+1) (.ptrAssign t r v) = (do
        let ph ← resolveRef f r
        if ph.isArr then rtErr t .arrayDirect
        else
          let vh ← resolveRef f v
          if vh.isArr then rtErr t .typeMismatch
          else
            match ph.ty with
            | .ptr pn =>
              match ← ptrDefOf pn with
              | none => throw (.crash .other)
              | some (_, target) =>
                if target != vh.ty then rtErr t .typeMismatch
                else
                  writeLoc t ph.loc (.ptr pn (some vh.loc))
                  pure .none
            | _ => rtErr t .typeMismatch) := by
  rw [evalExpr.eq_def]; rfl

theorem evalExpr_access (f : Nat) (t : Tok) (r : Ref) :
    evalExpr (f+1) (.access t r) = (do
        let h ← catchNotDefined (resolveRef f r >>= fun h => pure (some h)) fun e => do
          match ← getEnumElement t.val with
          | some _ => pure none
          | none => throw e
        match h with
        | none =>
          match ← getEnumElement t.val with
          | some v => pure v
          | none => throw (.crash .other)
        | some h =>
          if h.isArr then rtErr t .arrayDirect
          else readLoc h.loc) := by
  rw [evalExpr.eq_def]; rfl

theorem loopBody_succ (f : Nat) (b : Block) :
    loopBody (f+1) b = tryCatch (do runBlock f b; pure false) fun e =>
        match e with
        | .brk _ => pure true
        | .cont _ => pure false
        | e => throw e := by
  rw [loopBody.eq_def]; rfl

theorem whileLoop_succ (f : Nat) (t : Tok) (c : Expr) (b : Block) :
    whileLoop (f+1) t c b = (do
      tick t
      let v ← evalExpr f c
      match v with
      | .bool true =>
        if ← loopBody f b then pure () else whileLoop f t c b
      | .bool false => pure ()
      | _ => rtErr t .condType) := by
  rw [whileLoop.eq_def]; rfl

theorem repeatLoop_succ (f : Nat) (t : Tok) (b : Block) (c : Expr) :
    repeatLoop (f+1) t b c = (do
      tick t
      if ← loopBody f b then pure ()
      else
        let v ← evalExpr f c
        match v with
        | .bool true => pure ()
        | .bool false => repeatLoop f t b c
        | _ => rtErr t .condType) := by
  rw [repeatLoop.eq_def]; rfl

theorem forLoop_succ (f : Nat) (t : Tok) (it : Loc) (stop step : Int) (b : Block) :
    forLoop (f+1) t it stop step b = (do
      let cur ← readLoc it
      match cur with
      | .int i =>
        if (step < 0 && i ≥ stop) || (!(step < 0) && i ≤ stop) then
          tick t
          if ← loopBody f b then pure ()
          else
            let cur2 ← readLoc it
            match cur2 with
            | .int j =>
              writeLoc t it (.int (wrap64 (j + step)))
              forLoop f t it stop step b
            | _ => throw (.crash .other)
        else pure ()
      | _ => throw (.crash .other)) := by
  rw [forLoop.eq_def]; rfl

theorem ifChain_nil (f : Nat) (t : Tok) (els : Option Block) :
    ifChain (f+1) t [] els = (match els with
      | some b => runBlock f b
      | none => pure ()) := by
  rw [ifChain.eq_def]; rfl

theorem ifChain_cons (f : Nat) (t : Tok) (c : Expr) (b : Block) (rest : List (Expr × Block)) (els : Option Block) :
    ifChain (f+1) t ((c, b) :: rest) els = (do
      let v ← evalExpr f c
      match v with
      | .bool true => runBlock f b
      | .bool false => ifChain f t rest els
      | _ => rtErr t .condType) := by
  rw [ifChain.eq_def]; rfl

theorem caseClauses_nil (f : Nat) (v : Val) : caseClauses (f+1) v [] = pure () := by
  rw [caseClauses.eq_def]

theorem caseClauses_cons (f : Nat) (v : Val) (cl : Clause) (rest : List Clause) :
    caseClauses (f+1) v (cl :: rest) = (do
      match ← caseMatch f v cl with
      | some b => runBlock f b
      | none => caseClauses f v rest) := by
  rw [caseClauses.eq_def]; rfl

theorem runBlock_nil (f : Nat) : runBlock (f+1) [] = pure () := by
  rw [runBlock.eq_def]

theorem runBlock_cons (f : Nat) (s : Stmt) (rest : Block) :
    runBlock (f+1) (s :: rest) = (do
      let v ← execStmt f s
      if (← get).repl then replEcho v
      runBlock f rest) := by
  rw [runBlock.eq_def]

/-! ### read after write -/

theorem findField_setField_isSome (n : Str) (k : Bool) (fv' : Val) (hk : fv'.isArr = k) (m : Str) (w : Bool) :
    ∀ fs : List (Str × Val), (findField (setField fs n k fv') m w).isSome = (findField fs m w).isSome := by
  intro fs
  induction fs with
  | nil => rfl
  | cons p rest ih =>
    unfold setField
    by_cases hp : (p.1 == n && p.2.isArr == k) = true
    · simp only [hp, if_true]
      have hpk : p.2.isArr = k := by
        simp only [Bool.and_eq_true, beq_iff_eq] at hp
        exact hp.2
      unfold findField
      simp only [List.find?_cons, hk, hpk]
      cases (p.1 == m && k == w) <;> rfl
    · simp only [hp, Bool.false_eq_true, if_false]
      unfold findField at ih ⊢
      simp only [List.find?_cons]
      cases (p.1 == m && p.2.isArr == w)
      · exact ih
      · rfl

theorem findField_setField_same (n : Str) (k : Bool) (fv fv' : Val) (hk : fv'.isArr = k) :
    ∀ fs : List (Str × Val), findField fs n k = some fv → findField (setField fs n k fv') n k = some fv' := by
  intro fs
  induction fs with
  | nil => intro h; cases h
  | cons p rest ih =>
    intro h
    unfold setField
    by_cases hp : (p.1 == n && p.2.isArr == k) = true
    · simp only [hp, if_true]
      have hpn : (p.1 == n) = true := by
        simp only [Bool.and_eq_true] at hp
        exact hp.1
      unfold findField
      simp only [List.find?_cons]
      simp only [hpn, hk, beq_self_eq_true, Bool.and_self, Option.map_some]
    · simp only [hp, Bool.false_eq_true, if_false]
      unfold findField at ih h ⊢
      simp only [List.find?_cons, hp] at h ⊢
      exact ih h

theorem findField_isArr (fs : List (Str × Val)) (n : Str) (k : Bool) (fv : Val) (h : findField fs n k = some fv) :
    fv.isArr = k := by
  unfold findField at h
  cases hf : fs.find? (fun p => p.1 == n && p.2.isArr == k) with
  | none => rw [hf] at h; cases h
  | some p =>
    rw [hf] at h
    have := List.find?_some hf
    simp only [Bool.and_eq_true, beq_iff_eq] at this
    cases h
    exact this.2


theorem memberKind_setField (fs : List (Str × Val)) (n : Str) (k : Bool) (fv' : Val) (hk : fv'.isArr = k) (m : Str) :
    memberKind (setField fs n k fv') m = memberKind fs m := by
  unfold memberKind
  rw [findField_setField_isSome n k fv' hk m false fs, findField_setField_isSome n k fv' hk m true fs]

/-- writing a value of the same kind (array / not) at a readable path succeeds, and the path then reads the new value -/
theorem getPath_setPath (nv : Val) : ∀ (p : List Step) (v old : Val), getPath v p = some old → old.isArr = nv.isArr →
    ∃ v', setPath v p nv = some v' ∧ getPath v' p = some nv ∧ v'.isArr = v.isArr := by
  intro p
  induction p with
  | nil =>
    intro v old h hk
    simp only [getPath] at h
    cases h
    exact ⟨nv, by simp [setPath], by simp [getPath], hk.symm⟩
  | cons st rest ih =>
    intro v old h hk
    cases st with
    | field n =>
      cases v with
      | comp ty fs =>
        simp only [getPath] at h
        cases hm : memberKind fs n with
        | none => rw [hm] at h; cases h
        | some k =>
          rw [hm] at h
          simp only at h
          cases hf : findField fs n k with
          | none => rw [hf] at h; cases h
          | some fv =>
            rw [hf] at h
            simp only at h
            obtain ⟨fv', hs, hg, hi⟩ := ih fv old h hk
            have hfk : fv'.isArr = k := by rw [hi]; exact findField_isArr fs n k fv hf
            refine ⟨.comp ty (setField fs n k fv'), ?_, ?_, rfl⟩
            · simp only [setPath, hm, hf, hs]
            · simp only [getPath, memberKind_setField fs n k fv' hfk n, hm,
                findField_setField_same n k fv fv' hfk fs hf, hg]
      | _ => simp [getPath] at h
    | idx i =>
      cases v with
      | arr e d cells =>
        simp only [getPath] at h
        cases hc : cells[i]? with
        | none => rw [hc] at h; cases h
        | some c =>
          rw [hc] at h
          simp only at h
          obtain ⟨c', hs, hg, _⟩ := ih c old h hk
          have hi : i < cells.length := by
            rcases Nat.lt_or_ge i cells.length with h' | h'
            · exact h'
            · rw [List.getElem?_eq_none h'] at hc; cases hc
          refine ⟨.arr e d (cells.set i c'), ?_, ?_, rfl⟩
          · simp only [setPath, hc, hs]
          · simp only [getPath, List.getElem?_set_self hi, hg]
      | _ => simp [getPath] at h

theorem findSlot_updSlot (n : Str) (f : Slot → Slot) (hf : ∀ s, (f s).name = s.name) :
    ∀ ss : List Slot, findSlot (updSlot ss n f) n = (findSlot ss n).map f := by
  intro ss
  induction ss with
  | nil => rfl
  | cons s rest ih =>
    unfold updSlot
    by_cases hs : (s.name == n) = true
    · simp only [hs, if_true, findSlot, List.find?_cons, hf, Option.map_some]
    · simp only [hs, Bool.false_eq_true, if_false]
      unfold findSlot at ih ⊢
      simp only [List.find?_cons, hs]
      exact ih

theorem find_updActs (id : Nat) (f : Act → Act) (hf : ∀ a, (f a).id = a.id) :
    ∀ acts : List Act, (updActs acts id f).find? (·.id == id) = (acts.find? (·.id == id)).map f := by
  intro acts
  induction acts with
  | nil => rfl
  | cons a rest ih =>
    unfold updActs
    by_cases ha : (a.id == id) = true
    · simp only [ha, if_true, List.find?_cons, hf, Option.map_some]
    · simp only [ha, Bool.false_eq_true, if_false, List.find?_cons]
      exact ih

/-- is the root cell of `l` a constant (the pure content of `locIsConst`) -/
def locConstP (σ : St) (l : Loc) : Bool :=
  match σ.acts.find? (·.id == l.act) with
  | none => false
  | some a => ((slotOf a l).map (·.isConst)).getD false

theorem run_locIsConst (l : Loc) (σ : St) : (locIsConst l).run.run σ = (.ok (locConstP σ l), σ) := by
  unfold locIsConst locConstP
  rw [run_bind_ok _ _ _ _ _ (run_findAct _ σ)]
  cases σ.acts.find? (·.id == l.act) <;> rfl

/-- **read after write**: if `l` is readable (value `old`), its root cell is not a constant and the new value is of
    the same kind as the old one (array / not an array), then `writeLoc` succeeds, changes only the activation list
    (by updating the owner of `l`), and `l` then reads the new value; the root cell is still not a constant. -/
theorem run_writeLoc_ok (t : Tok) (l : Loc) (nv old : Val) (σ : St)
    (hold : readLocP σ l = .ok old) (hconst : locConstP σ l = false) (hk : old.isArr = nv.isArr) :
    ∃ F : Act → Act, (∀ a, (F a).id = a.id) ∧
      (writeLoc t l nv).run.run σ = (.ok ⟨⟩, updSt σ l.act F) ∧
      readLocP (updSt σ l.act F) l = .ok nv ∧ locConstP (updSt σ l.act F) l = false := by
  unfold readLocP at hold
  unfold locConstP at hconst
  cases ha : σ.acts.find? (·.id == l.act) with
  | none => rw [ha] at hold; cases hold
  | some a =>
    rw [ha] at hold hconst
    simp only at hold hconst
    have haid : a.id = l.act := by simpa using List.find?_some ha
    cases hs : slotOf a l with
    | none => rw [hs] at hold; cases hold
    | some s =>
      rw [hs] at hold hconst
      simp only [Option.map_some, Option.getD_some] at hold hconst
      cases hg : getPath s.val l.path with
      | none => rw [hg] at hold; cases hold
      | some v0 =>
        rw [hg] at hold
        simp only at hold
        injection hold with hold
        subst hold
        obtain ⟨nv', hset, hget, _⟩ := getPath_setPath nv l.path s.val v0 hg hk
        let F : Act → Act := fun a =>
          if l.isArr then { a with arrs := updSlot a.arrs l.name (fun s => { s with val := nv' }) }
          else { a with vars := updSlot a.vars l.name (fun s => { s with val := nv' }) }
        have hFid : ∀ a, (F a).id = a.id := by
          intro a; simp only [F]; split <;> rfl
        have hslot : slotOf (F a) l = some { s with val := nv' } := by
          unfold slotOf at hs ⊢
          simp only [F]
          cases hl : l.isArr
          · simp only [hl, Bool.false_eq_true, if_false] at hs ⊢
            rw [findSlot_updSlot l.name (fun s => { s with val := nv' }) (fun _ => rfl), hs]; rfl
          · simp only [hl, if_true] at hs ⊢
            rw [findSlot_updSlot l.name (fun s => { s with val := nv' }) (fun _ => rfl), hs]; rfl
        have hfind : (updSt σ l.act F).acts.find? (·.id == l.act) = some (F a) := by
          simp only [updSt]
          rw [find_updActs _ _ hFid, ha]; rfl
        refine ⟨F, hFid, ?_, ?_, ?_⟩
        · unfold writeLoc
          rw [run_bind_ok _ _ _ _ _ (run_findAct _ σ), ha]
          simp only [hs, hconst, Bool.false_eq_true, if_false, hset]
          rw [haid]
          rfl
        · unfold readLocP
          rw [hfind]
          simp only [hslot, hget]
        · unfold locConstP
          rw [hfind]
          simp only [hslot, Option.map_some, Option.getD_some, hconst]

/-- the rest of the state is untouched by a successful write -/
theorem updSt_frame (σ : St) (id : Nat) (F : Act → Act) :
    (updSt σ id F).steps = σ.steps ∧ (updSt σ id F).stepLimit = σ.stepLimit ∧ (updSt σ id F).out = σ.out ∧
    (updSt σ id F).nextId = σ.nextId ∧ (updSt σ id F).fs = σ.fs ∧ (updSt σ id F).handles = σ.handles :=
  ⟨rfl, rfl, rfl, rfl, rfl, rfl⟩

/-- a write keeps the set of live activations -/
theorem any_updActs (id k : Nat) (F : Act → Act) (hF : ∀ a, (F a).id = a.id) :
    ∀ acts : List Act, (updActs acts id F).any (·.id == k) = acts.any (·.id == k) := by
  intro acts
  induction acts with
  | nil => rfl
  | cons a rest ih =>
    unfold updActs
    by_cases ha : (a.id == id) = true
    · simp only [ha, if_true, List.any_cons, hF]
    · simp only [ha, Bool.false_eq_true, if_false, List.any_cons, ih]

end Pseudo
