import PseudoProofs.EvalInv
import PseudoProofs.NoCrashLDefs
/-!
# The RETURN protocol

`RETURN e` stores `retVal := some v'` in the top activation, then raises a `typeMismatch` diagnostic if `v'` is not of
the declared return type, else throws `.ret`.  `.ret` is caught in `callFun` only.  Nothing else changes a `retVal`,
nothing changes `id / isFn / isComp / typeGlobal / retTy` of a live activation, `withAct` pushes and always pops.

* `RPost σ r σ'` / `RP m`: the client's statement (header of every activation kept; on a normal end all `retVal`s are
  as before; on `.ret` the `retVal`s below the top are as before and the top is a function activation with a typed
  `retVal`).
* `LPost b L o L'` / `SP b m`: the strengthened statement that goes through the induction: all `retVal`s are as before
  for EVERY outcome but `.ret` and a `typeMismatch` diagnostic (`b = false`: moreover `.ret` is not raised).
* `TP m`: the same for the activations below the top only, and never `.ret` (body of a function call).
* `allSP` (25 functions, induction on the fuel), `allRP`, `fun_body_ret`.
-/
namespace Pseudo.NL
open Pseudo


/-- outcome `r`, final state `σ'`, from start state `σ` -/
def RPost {α : Type} (σ : St) (r : Except Stop α) (σ' : St) : Prop :=
  σ'.acts.map hdr = σ.acts.map hdr ∧
  match r with
  | .ok _ => σ'.acts.map (·.retVal) = σ.acts.map (·.retVal)
  | .error .ret => σ'.acts.tail.map (·.retVal) = σ.acts.tail.map (·.retVal) ∧
      ∃ a rest, σ'.acts = a :: rest ∧ a.isFn = true ∧ RetTyped a
  | .error _ => True

structure RP {α : Type} (m : M α) : Prop where
  run : ∀ σ, RPost σ (m.run.run σ).1 (m.run.run σ).2

/-! ### the strengthened postcondition -/

/-- the exception of an outcome -/
def exn {α : Type} : Except Stop α → Option Stop
  | .ok _ => none
  | .error e => some e

/-- a `typeMismatch` diagnostic -/
def MisE (e : Stop) : Prop := ∃ d, e = .diag d ∧ d.msg = .typeMismatch

/-- the two exceptions that RETURN raises after it has stored the value -/
def HardE (e : Stop) : Prop := e = .ret ∨ MisE e

def Hard : Option Stop → Prop
  | none => False
  | some e => HardE e

def rvs (L : List Act) : List (Option Val) := L.map (·.retVal)

/-- from the activation stack `L` to the stack `L'` with outcome `o` -/
def LPost (b : Bool) (L : List Act) (o : Option Stop) (L' : List Act) : Prop :=
  L'.map hdr = L.map hdr ∧
  (¬ Hard o → rvs L' = rvs L) ∧
  (o = some .ret → b = true ∧ rvs L'.tail = rvs L.tail ∧ ∃ a rest, L' = a :: rest ∧ a.isFn = true ∧ RetTyped a)

theorem rvs_tail (L : List Act) : rvs L.tail = (rvs L).tail := by unfold rvs; exact List.map_tail

theorem LPost.refl (b : Bool) (L : List Act) : LPost b L none L := ⟨rfl, fun _ => rfl, nofun⟩

theorem LPost.refl_err (b : Bool) (L : List Act) {e : Stop} (h : e ≠ .ret) : LPost b L (some e) L :=
  ⟨rfl, fun _ => rfl, fun h' => by cases h'; exact absurd rfl h⟩

theorem LPost.trans {b : Bool} {L L1 L2 : List Act} {o : Option Stop} (h1 : LPost b L none L1) (h2 : LPost b L1 o L2) :
    LPost b L o L2 := by
  have hv : rvs L1 = rvs L := h1.2.1 (fun h => h)
  refine ⟨h2.1.trans h1.1, fun hs => (h2.2.1 hs).trans hv, fun hr => ?_⟩
  obtain ⟨hb, ht, hx⟩ := h2.2.2 hr
  refine ⟨hb, ?_, hx⟩
  rw [ht, rvs_tail, rvs_tail, hv]

/-- an exception other than the two hard ones: everything is as before -/
theorem LPost.soft {b : Bool} {L L1 : List Act} {e : Stop} (h : LPost b L (some e) L1) (hs : ¬ HardE e) :
    LPost b L none L1 := ⟨h.1, fun _ => h.2.1 hs, nofun⟩

/-- not `.ret`: the statement for the activations below the top, with any flag -/
theorem LPost.tail_of_ne {b b' : Bool} {L L' : List Act} {o : Option Stop} (h : LPost b L o L') (hne : o ≠ some .ret) :
    LPost b' L.tail o L'.tail := by
  refine ⟨?_, fun hs => ?_, fun hr => absurd hr hne⟩
  · rw [List.map_tail, List.map_tail, h.1]
  · rw [rvs_tail, rvs_tail, h.2.1 hs]

theorem LPost.of_false {b : Bool} {L L' : List Act} {o : Option Stop} (h : LPost false L o L') : LPost b L o L' :=
  ⟨h.1, h.2.1, fun hr => by cases (h.2.2 hr).1⟩

theorem LPost.ne_ret {L L' : List Act} {o : Option Stop} (h : LPost false L o L') : o ≠ some .ret :=
  fun hr => by cases (h.2.2 hr).1

/-- `m` satisfies the strengthened postcondition from every state (one-field structure so that `intro` / `apply`
    cannot unfold it) -/
structure SP (b : Bool) {α : Type} (m : M α) : Prop where
  run : ∀ σ, LPost b σ.acts (exn (m.run.run σ).1) (m.run.run σ).2.acts

/-- the body of a function call: the header of the top is kept, the activations below it satisfy the strengthened
    postcondition, `.ret` is not raised -/
structure TP {α : Type} (m : M α) : Prop where
  run : ∀ σ, (m.run.run σ).2.acts.map hdr = σ.acts.map hdr ∧
    LPost false σ.acts.tail (exn (m.run.run σ).1) (m.run.run σ).2.acts.tail

section combinators
variable {α β : Type} {b : Bool}

theorem SP.pure (a : α) : SP b (pure a : M α) := ⟨fun σ => LPost.refl b σ.acts⟩

theorem SP.throw {e : Stop} (h : e ≠ .ret) : SP b (throw e : M α) := ⟨fun σ => LPost.refl_err b σ.acts h⟩

theorem throwSP_diag (d : Diag) : SP b (throw (.diag d) : M α) := SP.throw nofun
theorem throwSP_brk (t : Tok) : SP b (throw (.brk t) : M α) := SP.throw nofun
theorem throwSP_cont (t : Tok) : SP b (throw (.cont t) : M α) := SP.throw nofun
theorem throwSP_fuel : SP b (throw .outOfFuel : M α) := SP.throw nofun
theorem throwSP_crash (p : CrashPoint) : SP b (throw (.crash p) : M α) := SP.throw nofun

theorem SP.get : SP b (get : M St) := ⟨fun σ => LPost.refl b σ.acts⟩

/-- a raw `modify` that leaves the activation stack alone -/
theorem SP.modify (f : St → St) (h : ∀ σ, (f σ).acts = σ.acts) : SP b (modify f : M PUnit) :=
  ⟨fun σ => by
    show LPost b σ.acts none (f σ).acts
    rw [h]
    exact LPost.refl b σ.acts⟩

theorem SP.bind {m : M α} {f : α → M β} (hm : SP b m) (hf : ∀ a, SP b (f a)) : SP b (m >>= f) := by
  constructor
  intro σ
  have h1 := hm.run σ
  rcases h : m.run.run σ with ⟨e | a, σ'⟩
  · rw [run_bind_err m f σ σ' e h]
    rw [h] at h1
    exact h1
  · rw [run_bind_ok m f σ σ' a h]
    rw [h] at h1
    exact LPost.trans h1 ((hf a).run σ')

/-- a handler that passes the two hard exceptions on unchanged -/
theorem SP.tryCatch {m : M α} {hd : Stop → M α} (hm : SP b m)
    (hhard : ∀ e, HardE e → ∀ σ, (hd e).run.run σ = (.error e, σ))
    (hsoft : ∀ e, e ≠ .ret → ¬ MisE e → SP b (hd e)) : SP b (tryCatch m hd) := by
  constructor
  intro σ
  have h1 := hm.run σ
  rcases h : m.run.run σ with ⟨e | a, σ'⟩
  · rw [run_tryCatch_err m hd σ σ' e h]
    rw [h] at h1
    by_cases hh : HardE e
    · rw [hhard e hh σ']
      exact h1
    · exact LPost.trans (h1.soft hh) ((hsoft e (fun h => hh (Or.inl h)) (fun h => hh (Or.inr h))).run σ')
  · rw [run_tryCatch_ok m hd σ σ' a h]
    rw [h] at h1
    exact h1

theorem SP.ite {c : Prop} [Decidable c] {t e : M α} (ht : c → SP b t) (he : ¬ c → SP b e) :
    SP b (if c then t else e) := by
  split
  · exact ht ‹_›
  · exact he ‹_›

/-- start with `get`: the continuation may be analysed at the very state it reads -/
theorem SP.get_bind {f : St → M α}
    (h : ∀ σ, LPost b σ.acts (exn ((f σ).run.run σ).1) ((f σ).run.run σ).2.acts) :
    SP b ((MonadState.get : M St) >>= f) := by
  constructor
  intro σ
  rw [run_bind_ok _ _ _ _ _ (run_get σ)]
  exact h σ

theorem SP.of_false {m : M α} (h : SP false m) : SP b m := ⟨fun σ => (h.run σ).of_false⟩

theorem TP.of_SP {m : M α} (h : SP false m) : TP m :=
  ⟨fun σ => ⟨(h.run σ).1, (h.run σ).tail_of_ne (h.run σ).ne_ret⟩⟩

theorem TP.bind {m : M α} {f : α → M β} (hm : TP m) (hf : ∀ a, TP (f a)) : TP (m >>= f) := by
  constructor
  intro σ
  have h1 := hm.run σ
  rcases h : m.run.run σ with ⟨e | a, σ'⟩
  · rw [run_bind_err m f σ σ' e h]
    rw [h] at h1
    exact h1
  · rw [run_bind_ok m f σ σ' a h]
    rw [h] at h1
    have h2 := (hf a).run σ'
    exact ⟨h2.1.trans h1.1, LPost.trans h1.2 h2.2⟩

end combinators


/-! ### the activation primitives -/

theorem mkRuntime_run' (l c : Nat) (msg : Msg) (σ : St) :
    ∃ d, (mkRuntime l c msg).run.run σ = (.ok d, σ) ∧ d.msg = msg ∧ d.kind = .runtime := by
  unfold mkRuntime
  rw [run_bind_ok _ _ _ _ _ (run_get σ)]
  cases hacts : σ.acts with
  | nil => exact ⟨_, rfl, rfl, rfl⟩
  | cons a parents => exact ⟨_, rfl, rfl, rfl⟩

/-- `rtErr` changes nothing and raises a runtime diagnostic with the given message -/
theorem rtErr_run' {α : Type} (t : Tok) (msg : Msg) (σ : St) :
    ∃ d, (rtErr t msg : M α).run.run σ = (.error (.diag d), σ) ∧ d.msg = msg ∧ d.kind = .runtime := by
  obtain ⟨d, hd, h⟩ := mkRuntime_run' t.line t.col msg σ
  refine ⟨d, ?_, h⟩
  unfold rtErr
  rw [run_bind_ok _ _ _ _ _ hd]
  rfl

section prims
variable {α : Type} {b : Bool}

theorem run_curAct_cons (σ : St) (a : Act) (rest : List Act) (h : σ.acts = a :: rest) :
    curAct.run.run σ = (.ok a, σ) := by
  unfold curAct
  rw [run_bind_ok _ _ _ _ _ (run_get σ), h]
  rfl

theorem run_curAct_nil (σ : St) (h : σ.acts = []) : curAct.run.run σ = (.error (.crash .noActivation), σ) := by
  unfold curAct
  rw [run_bind_ok _ _ _ _ _ (run_get σ), h]
  rfl

/-- start with `curAct`: the continuation may be analysed at a state whose top activation it gets -/
theorem SP.curAct_bind {f : Act → M α}
    (h : ∀ σ a rest, σ.acts = a :: rest → LPost b σ.acts (exn ((f a).run.run σ).1) ((f a).run.run σ).2.acts) :
    SP b (curAct >>= f) := by
  constructor
  intro σ
  cases hacts : σ.acts with
  | nil =>
    rw [run_bind_err _ _ _ _ _ (run_curAct_nil σ hacts), hacts]
    exact LPost.refl_err b [] nofun
  | cons a rest =>
    rw [run_bind_ok _ _ _ _ _ (run_curAct_cons σ a rest hacts), ← hacts]
    exact h σ a rest hacts

theorem SP.l_curAct : SP b curAct := by
  constructor
  intro σ
  cases hacts : σ.acts with
  | nil => rw [run_curAct_nil σ hacts, hacts]; exact LPost.refl_err b [] nofun
  | cons a rest => rw [run_curAct_cons σ a rest hacts, hacts]; exact LPost.refl b _

theorem updActs_map {γ : Type} (g : Act → γ) (acts : List Act) (id : Nat) (f : Act → Act) (hf : ∀ a, g (f a) = g a) :
    (updActs acts id f).map g = acts.map g := by
  induction acts with
  | nil => rfl
  | cons a rest ih =>
    unfold updActs
    split
    · simp [hf]
    · simp [ih]

/-- the update keeps the header and the `retVal` -/
@[reducible] def Keeps (f : Act → Act) : Prop :=
  ∀ a, (f a).id = a.id ∧ (f a).isFn = a.isFn ∧ (f a).isComp = a.isComp ∧ (f a).typeGlobal = a.typeGlobal ∧
    (f a).retTy = a.retTy ∧ (f a).retVal = a.retVal

theorem Keeps.hdr {f : Act → Act} (h : Keeps f) (a : Act) : hdr (f a) = hdr a := by
  obtain ⟨h1, h2, h3, h4, h5, _⟩ := h a
  unfold NL.hdr
  rw [h1, h2, h3, h4, h5]

theorem SP.modifyAct (id : Nat) (f : Act → Act) (hf : Keeps f) : SP b (modifyAct id f) :=
  ⟨fun σ => by
    show LPost b σ.acts none (updActs σ.acts id f)
    exact ⟨updActs_map hdr _ _ _ hf.hdr, fun _ => updActs_map (·.retVal) _ _ _ (fun a => (hf a).2.2.2.2.2), nofun⟩⟩

theorem SP.modifyCur (f : Act → Act) (hf : Keeps f) : SP b (modifyCur f) := by
  unfold Pseudo.modifyCur
  exact SP.bind SP.l_curAct fun a => SP.modifyAct a.id f hf

theorem SP.addVar (s : Slot) : SP b (addVar s) := SP.modifyCur _ fun _ => ⟨rfl, rfl, rfl, rfl, rfl, rfl⟩
theorem SP.addArr (s : Slot) : SP b (addArr s) := SP.modifyCur _ fun _ => ⟨rfl, rfl, rfl, rfl, rfl, rfl⟩
theorem SP.emit (x : Str) : SP b (emit x) := SP.modify _ fun _ => rfl

theorem acts_pushSt (mk : Nat → Act) (σ : St) : (pushSt mk σ).acts = mk σ.nextId :: σ.acts := rfl
theorem acts_popSt (σ : St) : (popSt σ).acts = σ.acts.tail := by
  show σ.acts.drop 1 = σ.acts.tail
  exact List.drop_one

/-- the bracket rule for a body that does not raise `.ret` (a function call: the `retVal` of the callee's own
    activation is changed, but that activation is popped) -/
theorem SP.withAct_fn (mk : Nat → Act) (body : M α) (hb : TP body) : SP b (withAct mk body) := by
  constructor
  intro σ
  rw [run_withAct]
  have h := (hb.run (pushSt mk σ)).2
  rw [acts_pushSt] at h
  show LPost b σ.acts (exn (body.run.run (pushSt mk σ)).1) (popSt (body.run.run (pushSt mk σ)).2).acts
  rw [acts_popSt]
  exact h.of_false

/-- the bracket rule for an activation that is not a function's: `.ret` cannot come out of the body -/
theorem SP.withAct_proc (mk : Nat → Act) (body : M α) (hmk : ∀ i, (mk i).isFn = false) (hb : SP true body) :
    SP b (withAct mk body) := by
  constructor
  intro σ
  rw [run_withAct]
  have h := hb.run (pushSt mk σ)
  rw [acts_pushSt] at h
  show LPost b σ.acts (exn (body.run.run (pushSt mk σ)).1) (popSt (body.run.run (pushSt mk σ)).2).acts
  rw [acts_popSt]
  have hne : exn (body.run.run (pushSt mk σ)).1 ≠ some .ret := by
    intro hr
    obtain ⟨_, _, a, rest, ha, hfn, _⟩ := h.2.2 hr
    have h1 := h.1
    rw [ha] at h1
    have h2 : hdr a = hdr (mk σ.nextId) := by
      simp only [List.map_cons, List.cons.injEq] at h1
      exact h1.1
    have h3 : a.isFn = (mk σ.nextId).isFn := congrArg (fun x => x.2.1) h2
    rw [hfn, hmk] at h3
    cases h3
  exact h.tail_of_ne hne

/-- the body of a user function: `.ret` ends it normally, BREAK / CONTINUE become diagnostics -/
theorem TP.catchRet {m : M Unit} {hd : Stop → M Unit} (hm : SP true m)
    (hret : hd .ret = pure ()) (hbrk : ∀ t, hd (.brk t) = rtErr t .breakOutside)
    (hcont : ∀ t, hd (.cont t) = rtErr t .breakOutside) (hdiag : ∀ d, hd (.diag d) = throw (.diag d))
    (hcrash : ∀ p, hd (.crash p) = throw (.crash p)) (hfuel : hd .outOfFuel = throw .outOfFuel) :
    TP (tryCatch m hd) := by
  constructor
  intro σ
  have h1 := hm.run σ
  rcases h : m.run.run σ with ⟨e | a, σ'⟩
  · rw [run_tryCatch_err _ _ σ σ' e h]
    rw [h] at h1
    have hsig : ∀ t, LPost true σ.acts none σ'.acts →
        (((rtErr t .breakOutside : M Unit).run.run σ').2.acts.map hdr = σ.acts.map hdr ∧
          LPost false σ.acts.tail (exn ((rtErr t .breakOutside : M Unit).run.run σ').1)
            ((rtErr t .breakOutside : M Unit).run.run σ').2.acts.tail) := by
      intro t h2
      obtain ⟨d, hd, _⟩ := rtErr_run' (α := Unit) t .breakOutside σ'
      rw [hd]
      have h3 : LPost false σ.acts.tail none σ'.acts.tail := h2.tail_of_ne nofun
      exact ⟨h2.1, h3.1, fun _ => h3.2.1 (fun h => h), nofun⟩
    cases e with
    | ret =>
      rw [hret]
      obtain ⟨_, ht, _⟩ := h1.2.2 rfl
      refine ⟨h1.1, ?_, fun _ => ht, nofun⟩
      show List.map hdr σ'.acts.tail = List.map hdr σ.acts.tail
      rw [List.map_tail, List.map_tail, h1.1]
    | brk t =>
      rw [hbrk]
      exact hsig t (h1.soft (by rintro (h | ⟨d, h, _⟩) <;> cases h))
    | cont t =>
      rw [hcont]
      exact hsig t (h1.soft (by rintro (h | ⟨d, h, _⟩) <;> cases h))
    | diag d => rw [hdiag]; exact ⟨h1.1, h1.tail_of_ne nofun⟩
    | crash p => rw [hcrash]; exact ⟨h1.1, h1.tail_of_ne nofun⟩
    | outOfFuel => rw [hfuel]; exact ⟨h1.1, h1.tail_of_ne nofun⟩
  · rw [run_tryCatch_ok _ _ σ σ' a h]
    rw [h] at h1
    exact ⟨h1.1, h1.tail_of_ne nofun⟩

end prims


/-! ### automation -/

/-- one step of the syntax-directed proof search: the leaves -/
macro "sp_basic" : tactic => `(tactic| with_reducible first
  | exact SP.pure _
  | exact SP.get
  | exact throwSP_diag _
  | exact throwSP_fuel
  | exact throwSP_brk _
  | exact throwSP_cont _
  | exact throwSP_crash _
  | exact SP.throw (by assumption)
  | exact SP.emit _
  | exact SP.addVar _
  | exact SP.addArr _
  | exact SP.l_curAct
  | exact SP.modifyAct _ _ (fun _ => ⟨rfl, rfl, rfl, rfl, rfl, rfl⟩)
  | exact SP.modifyCur _ (fun _ => ⟨rfl, rfl, rfl, rfl, rfl, rfl⟩)
  | exact SP.modify _ (fun _ => rfl))

/-- library lemmas about the functions defined outside the mutual block; extended by `macro_rules` -/
syntax "sp_lib" : tactic
macro_rules | `(tactic| sp_lib) => `(tactic| fail "sp_lib: no lemma")

/-- hypotheses of the induction -/
syntax "sp_ih" : tactic
macro_rules | `(tactic| sp_ih) => `(tactic| fail "sp_ih: no hypothesis")

/-- a handler passes `.ret` and a `typeMismatch` diagnostic on, by computation -/
macro "sp_hard" : tactic => `(tactic| (
  intro e he σ
  cases he with
  | inl h => subst h; rfl
  | inr h => cases h with
    | intro d h => cases h with
      | intro h1 h2 =>
        subst h1
        first
          | rfl
          | (dsimp only; rw [if_neg (by simp [h2])]; rfl)))

macro "sp_step" : tactic => `(tactic| first
  | cases ‹_ + 1 = Nat.succ _›
  | sp_basic
  | with_reducible sp_lib
  | with_reducible sp_ih
  | with_reducible apply SP.bind
  | with_reducible apply SP.tryCatch
  | with_reducible apply SP.withAct_proc _ _ (fun _ => rfl)
  | with_reducible apply SP.withAct_fn
  | refine TP.catchRet ?_ rfl (fun _ => rfl) (fun _ => rfl) (fun _ => rfl) (fun _ => rfl) rfl
  | with_reducible apply TP.bind
  | sp_hard
  | intro _
  | split
  | dsimp only
  | with_reducible apply TP.of_SP)

/-- the proof search -/
macro "sp_auto" : tactic => `(tactic| repeat' sp_step)

open Lean in
/-- unfold the function by its `eq_def` lemma and run the proof search -/
macro "sp_fn " id:ident : tactic =>
  `(tactic| (rw [$(mkIdent (id.getId ++ `eq_def)):ident]; try dsimp only
             sp_auto))

/-! ### the functions outside the mutual block -/

section library
variable {α : Type} {b : Bool}

theorem SP.l_globalAct : SP b globalAct := by unfold globalAct; sp_auto
macro_rules | `(tactic| sp_lib) => `(tactic| exact SP.l_globalAct)
theorem SP.l_scopeAct : SP b scopeAct := by unfold scopeAct; sp_auto
macro_rules | `(tactic| sp_lib) => `(tactic| exact SP.l_scopeAct)
theorem SP.l_findAct (id : Nat) : SP b (findAct id) := by unfold findAct; sp_auto
macro_rules | `(tactic| sp_lib) => `(tactic| exact SP.l_findAct _)
theorem SP.l_mkRuntime (l c : Nat) (m : Msg) : SP b (mkRuntime l c m) := by unfold mkRuntime; sp_auto
macro_rules | `(tactic| sp_lib) => `(tactic| exact SP.l_mkRuntime _ _ _)
theorem SP.l_rtErr (t : Tok) (m : Msg) : SP b (rtErr t m : M α) := by unfold rtErr; sp_auto
macro_rules | `(tactic| sp_lib) => `(tactic| exact SP.l_rtErr _ _)
theorem SP.l_rtErr0 (m : Msg) : SP b (rtErr0 m : M α) := by unfold rtErr0; sp_auto
macro_rules | `(tactic| sp_lib) => `(tactic| exact SP.l_rtErr0 _)
theorem SP.l_pedErr (t : Tok) (m : Msg) : SP b (pedErr t m : M α) := by unfold pedErr; sp_auto
macro_rules | `(tactic| sp_lib) => `(tactic| exact SP.l_pedErr _ _)
theorem SP.l_lookupVar (n : Str) : SP b (lookupVar n) := by unfold lookupVar; sp_auto
macro_rules | `(tactic| sp_lib) => `(tactic| exact SP.l_lookupVar _)
theorem SP.l_lookupArr (n : Str) : SP b (lookupArr n) := by unfold lookupArr; sp_auto
macro_rules | `(tactic| sp_lib) => `(tactic| exact SP.l_lookupArr _)
theorem SP.l_typeScopeAct : SP b typeScopeAct := by unfold typeScopeAct; sp_auto
macro_rules | `(tactic| sp_lib) => `(tactic| exact SP.l_typeScopeAct)
theorem SP.l_lookupList {β : Type} (sel : Act → List (Str × β)) (n : Str) (g : Bool) : SP b (lookupList sel n g) := by
  unfold lookupList; sp_auto
macro_rules | `(tactic| sp_lib) => `(tactic| exact SP.l_lookupList _ _ _)
theorem SP.l_enumDefOf (n : Str) (g : Bool) : SP b (enumDefOf n g) := by unfold enumDefOf; sp_auto
macro_rules | `(tactic| sp_lib) => `(tactic| exact SP.l_enumDefOf _ _)
theorem SP.l_ptrDefOf (n : Str) (g : Bool) : SP b (ptrDefOf n g) := by unfold ptrDefOf; sp_auto
macro_rules | `(tactic| sp_lib) => `(tactic| exact SP.l_ptrDefOf _ _)
theorem SP.l_compDefOf (n : Str) (g : Bool) : SP b (compDefOf n g) := by unfold compDefOf; sp_auto
macro_rules | `(tactic| sp_lib) => `(tactic| exact SP.l_compDefOf _ _)
theorem SP.l_getType (t : Tok) (g : Bool) : SP b (getType t g) := by unfold getType; sp_auto
macro_rules | `(tactic| sp_lib) => `(tactic| exact SP.l_getType _ _)
theorem SP.l_getEnumElement (v : Str) (g : Bool) : SP b (getEnumElement v g) := by unfold getEnumElement; sp_auto
macro_rules | `(tactic| sp_lib) => `(tactic| exact SP.l_getEnumElement _ _)
theorem SP.l_isIdentifierType (t : Tok) (g : Bool) : SP b (isIdentifierType t g) := by unfold isIdentifierType; sp_auto
macro_rules | `(tactic| sp_lib) => `(tactic| exact SP.l_isIdentifierType _ _)
theorem SP.l_readLoc (l : Loc) : SP b (readLoc l) := by unfold readLoc; sp_auto
macro_rules | `(tactic| sp_lib) => `(tactic| exact SP.l_readLoc _)
theorem SP.l_locIsConst (l : Loc) : SP b (locIsConst l) := by unfold locIsConst; sp_auto
macro_rules | `(tactic| sp_lib) => `(tactic| exact SP.l_locIsConst _)
theorem SP.l_isLive (id : Nat) : SP b (isLive id) := by unfold isLive; sp_auto
macro_rules | `(tactic| sp_lib) => `(tactic| exact SP.l_isLive _)
theorem SP.l_liftMsg (t : Tok) (x : Except Msg α) : SP b (liftMsg t x) := by unfold liftMsg; sp_auto
macro_rules | `(tactic| sp_lib) => `(tactic| exact SP.l_liftMsg _ _)
theorem SP.l_liftMsg0 (x : Except Msg α) : SP b (liftMsg0 x) := by unfold liftMsg0; sp_auto
macro_rules | `(tactic| sp_lib) => `(tactic| exact SP.l_liftMsg0 _)
theorem SP.l_outputText (v : Val) : SP b (outputText v) := by unfold outputText; sp_auto
macro_rules | `(tactic| sp_lib) => `(tactic| exact SP.l_outputText _)
theorem SP.l_filePre (t : Tok) (op : FOp) : SP b (filePre t op) := by unfold filePre; sp_auto
macro_rules | `(tactic| sp_lib) => `(tactic| exact SP.l_filePre _ _)
theorem SP.l_codecDefs : SP b codecDefs := by unfold codecDefs; sp_auto
macro_rules | `(tactic| sp_lib) => `(tactic| exact SP.l_codecDefs)
theorem SP.l_writeText (t : Tok) (v : Val) : SP b (writeText t v) := by unfold writeText; sp_auto
macro_rules | `(tactic| sp_lib) => `(tactic| exact SP.l_writeText _ _)

/-- `catchNotDefined`: the handler sees a diagnostic (which is not a `typeMismatch`) -/
theorem SP.l_catchNotDefined {m : M α} {h : Stop → M α} (hm : SP b m) (hh : ∀ d, SP b (h (.diag d))) :
    SP b (catchNotDefined m h) := by
  unfold catchNotDefined
  apply SP.tryCatch hm
  · intro e he σ
    rcases he with rfl | ⟨d, rfl, hd⟩
    · rfl
    · have hc : (d.kind == DiagKind.runtime && d.msg == Msg.notDefined) = false := by
        rw [hd]; simp
      simp only [hc]
      rfl
  · intro e he _
    split
    · split
      · refine SP.bind SP.get fun s => ?_
        split
        · exact hh _
        · exact throwSP_diag _
      · exact throwSP_diag _
    · exact SP.throw he

/-! the state-changing primitives that read the state first -/

theorem SP.l_tick (t : Tok) : SP b (tick t) := by
  unfold tick
  apply SP.get_bind
  intro σ
  split
  · exact (SP.l_rtErr t .budget).run σ
  · exact LPost.refl b σ.acts
macro_rules | `(tactic| sp_lib) => `(tactic| exact SP.l_tick _)

theorem SP.l_getLine : SP b getLine := by
  unfold getLine
  apply SP.get_bind
  intro σ
  split
  · exact LPost.refl b σ.acts
  · dsimp only
    split
    · exact LPost.refl b σ.acts
    · exact LPost.refl b σ.acts
macro_rules | `(tactic| sp_lib) => `(tactic| exact SP.l_getLine)

theorem SP.l_doFile (t : Tok) (op : FOp) : SP b (doFile t op) := by
  unfold doFile
  apply SP.get_bind
  intro σ
  split
  · exact LPost.refl b σ.acts
  · exact (SP.l_rtErr t _).run σ
macro_rules | `(tactic| sp_lib) => `(tactic| exact SP.l_doFile _ _)

theorem SP.l_doFile0 (op : FOp) : SP b (doFile0 op) := by
  unfold doFile0
  apply SP.get_bind
  intro σ
  split
  · exact LPost.refl b σ.acts
  · exact (SP.l_rtErr0 _).run σ
macro_rules | `(tactic| sp_lib) => `(tactic| exact SP.l_doFile0 _)

/-- `writeLoc`: the update changes `vars` or `arrs` only -/
theorem SP.l_writeLoc (t : Tok) (l : Loc) (v : Val) : SP b (writeLoc t l v) := by
  unfold writeLoc
  sp_auto
  all_goals
    apply SP.modifyAct
    intro a
    first
      | exact ⟨rfl, rfl, rfl, rfl, rfl, rfl⟩
      | (split <;> exact ⟨rfl, rfl, rfl, rfl, rfl, rfl⟩)
macro_rules | `(tactic| sp_lib) => `(tactic| exact SP.l_writeLoc _ _ _)

theorem SP.l_runBuiltin (id : Str) (args : List Val) : SP b (runBuiltin id args) := by unfold runBuiltin; sp_auto
macro_rules | `(tactic| sp_lib) => `(tactic| exact SP.l_runBuiltin _ _)
theorem SP.l_replEcho (v : Val) : SP b (replEcho v) := by unfold replEcho; sp_auto
macro_rules | `(tactic| sp_lib) => `(tactic| exact SP.l_replEcho _)

end library

macro_rules | `(tactic| sp_lib) => `(tactic| apply SP.l_catchNotDefined)


/-! ### the induction -/

/-- the statement proved by induction on fuel: one field per function of the mutual block -/
structure AllSP (f : Nat) : Prop where
  defaultVal : ∀ t ty, SP true (defaultVal f t ty)
  defaultCells : ∀ t ty n acc, SP true (defaultCells f t ty n acc)
  evalArgs : ∀ es acc, SP true (evalArgs f es acc)
  evalIndices : ∀ es dims acc, SP true (evalIndices f es dims acc)
  resolveRef : ∀ r, SP true (resolveRef f r)
  callFun : ∀ t args, SP true (callFun f t args)
  bindParams : ∀ t ps es vs acc, SP true (bindParams f t ps es vs acc)
  evalExpr : ∀ e, SP true (evalExpr f e)
  execAssign : ∀ t r rhs, SP true (execAssign f t r rhs)
  runBlock : ∀ b, SP true (runBlock f b)
  ifChain : ∀ t bs els, SP true (ifChain f t bs els)
  caseMatch : ∀ v cl, SP true (caseMatch f v cl)
  caseClauses : ∀ v cls, SP true (caseClauses f v cls)
  loopBody : ∀ b, SP true (loopBody f b)
  whileLoop : ∀ t c b, SP true (whileLoop f t c b)
  repeatLoop : ∀ t b c, SP true (repeatLoop f t b c)
  forLoop : ∀ t it stop step b, SP true (forLoop f t it stop step b)
  callProc : ∀ t name args, SP true (callProc f t name args)
  resolveParams : ∀ ps acc, SP true (resolveParams f ps acc)
  evalBounds : ∀ bs acc, SP true (evalBounds f bs acc)
  declareVars : ∀ t ids ty, SP true (declareVars f t ids ty)
  declareArrs : ∀ t ids ty dims, SP true (declareArrs f t ids ty dims)
  outputAll : ∀ es, SP true (outputAll f es)
  fileName : ∀ t e, SP true (fileName f t e)
  execStmt : ∀ s, SP true (execStmt f s)

set_option hygiene false in
macro_rules | `(tactic| sp_ih) => `(tactic| first
  | apply ih.evalExpr | apply ih.resolveRef | apply ih.evalArgs | apply ih.evalIndices | apply ih.callFun
  | apply ih.bindParams | apply ih.execAssign | apply ih.runBlock | apply ih.ifChain | apply ih.caseMatch
  | apply ih.caseClauses | apply ih.loopBody | apply ih.whileLoop | apply ih.repeatLoop | apply ih.forLoop
  | apply ih.callProc | apply ih.resolveParams | apply ih.evalBounds | apply ih.declareVars | apply ih.declareArrs
  | apply ih.outputAll | apply ih.fileName | apply ih.execStmt | apply ih.defaultVal | apply ih.defaultCells)

/-- fuel 0: every function raises `outOfFuel` -/
theorem AllSP.zero : AllSP 0 where
  defaultVal _ _ := by rw [Pseudo.defaultVal.eq_def]; dsimp only; sp_auto
  defaultCells _ _ _ _ := by rw [Pseudo.defaultCells.eq_def]; dsimp only; sp_auto
  evalArgs _ _ := by rw [Pseudo.evalArgs.eq_def]; dsimp only; sp_auto
  evalIndices _ _ _ := by rw [Pseudo.evalIndices.eq_def]; dsimp only; sp_auto
  resolveRef _ := by rw [Pseudo.resolveRef.eq_def]; dsimp only; sp_auto
  callFun _ _ := by rw [Pseudo.callFun.eq_def]; dsimp only; sp_auto
  bindParams _ _ _ _ _ := by rw [Pseudo.bindParams.eq_def]; dsimp only; sp_auto
  evalExpr _ := by rw [Pseudo.evalExpr.eq_def]; dsimp only; sp_auto
  execAssign _ _ _ := by rw [Pseudo.execAssign.eq_def]; dsimp only; sp_auto
  runBlock _ := by rw [Pseudo.runBlock.eq_def]; dsimp only; sp_auto
  ifChain _ _ _ := by rw [Pseudo.ifChain.eq_def]; dsimp only; sp_auto
  caseMatch _ _ := by rw [Pseudo.caseMatch.eq_def]; dsimp only; sp_auto
  caseClauses _ _ := by rw [Pseudo.caseClauses.eq_def]; dsimp only; sp_auto
  loopBody _ := by rw [Pseudo.loopBody.eq_def]; dsimp only; sp_auto
  whileLoop _ _ _ := by rw [Pseudo.whileLoop.eq_def]; dsimp only; sp_auto
  repeatLoop _ _ _ := by rw [Pseudo.repeatLoop.eq_def]; dsimp only; sp_auto
  forLoop _ _ _ _ _ := by rw [Pseudo.forLoop.eq_def]; dsimp only; sp_auto
  callProc _ _ _ := by rw [Pseudo.callProc.eq_def]; dsimp only; sp_auto
  resolveParams _ _ := by rw [Pseudo.resolveParams.eq_def]; dsimp only; sp_auto
  evalBounds _ _ := by rw [Pseudo.evalBounds.eq_def]; dsimp only; sp_auto
  declareVars _ _ _ := by rw [Pseudo.declareVars.eq_def]; dsimp only; sp_auto
  declareArrs _ _ _ _ := by rw [Pseudo.declareArrs.eq_def]; dsimp only; sp_auto
  outputAll _ := by rw [Pseudo.outputAll.eq_def]; dsimp only; sp_auto
  fileName _ _ := by rw [Pseudo.fileName.eq_def]; dsimp only; sp_auto
  execStmt _ := by rw [Pseudo.execStmt.eq_def]; dsimp only; sp_auto

section steps
variable {f : Nat}

theorem stepSP_defaultVal (ih : AllSP f) : ∀ t ty, SP true (defaultVal (f+1) t ty) := by
  intro t ty; sp_fn defaultVal

theorem stepSP_defaultCells (ih : AllSP f) : ∀ t ty n acc, SP true (defaultCells (f+1) t ty n acc) := by
  intro t ty n acc; sp_fn defaultCells

theorem stepSP_evalArgs (ih : AllSP f) : ∀ es acc, SP true (evalArgs (f+1) es acc) := by
  intro es acc; sp_fn evalArgs

theorem stepSP_evalIndices (ih : AllSP f) : ∀ es dims acc, SP true (evalIndices (f+1) es dims acc) := by
  intro es dims acc; sp_fn evalIndices

theorem stepSP_resolveRef (ih : AllSP f) : ∀ r, SP true (resolveRef (f+1) r) := by
  intro r; sp_fn resolveRef

theorem stepSP_callFun (ih : AllSP f) : ∀ t args, SP true (callFun (f+1) t args) := by
  intro t args; sp_fn callFun

theorem stepSP_bindParams (ih : AllSP f) : ∀ t ps es vs acc, SP true (bindParams (f+1) t ps es vs acc) := by
  intro t ps es vs acc; sp_fn bindParams

theorem stepSP_evalExpr (ih : AllSP f) : ∀ e, SP true (evalExpr (f+1) e) := by
  intro e; sp_fn evalExpr

theorem stepSP_runBlock (ih : AllSP f) : ∀ b, SP true (runBlock (f+1) b) := by
  intro b; sp_fn runBlock

theorem stepSP_ifChain (ih : AllSP f) : ∀ t bs els, SP true (ifChain (f+1) t bs els) := by
  intro t bs els; sp_fn ifChain

theorem stepSP_caseMatch (ih : AllSP f) : ∀ v cl, SP true (caseMatch (f+1) v cl) := by
  intro v cl; sp_fn caseMatch

theorem stepSP_caseClauses (ih : AllSP f) : ∀ v cls, SP true (caseClauses (f+1) v cls) := by
  intro v cls; sp_fn caseClauses

theorem stepSP_loopBody (ih : AllSP f) : ∀ b, SP true (loopBody (f+1) b) := by
  intro b; sp_fn loopBody

theorem stepSP_whileLoop (ih : AllSP f) : ∀ t c b, SP true (whileLoop (f+1) t c b) := by
  intro t c b; sp_fn whileLoop

theorem stepSP_repeatLoop (ih : AllSP f) : ∀ t b c, SP true (repeatLoop (f+1) t b c) := by
  intro t b c; sp_fn repeatLoop

theorem stepSP_forLoop (ih : AllSP f) : ∀ t it stop step b, SP true (forLoop (f+1) t it stop step b) := by
  intro t it stop step b; sp_fn forLoop

theorem stepSP_callProc (ih : AllSP f) : ∀ t name args, SP true (callProc (f+1) t name args) := by
  intro t name args; sp_fn callProc

theorem stepSP_resolveParams (ih : AllSP f) : ∀ ps acc, SP true (resolveParams (f+1) ps acc) := by
  intro ps acc; sp_fn resolveParams

theorem stepSP_evalBounds (ih : AllSP f) : ∀ bs acc, SP true (evalBounds (f+1) bs acc) := by
  intro bs acc; sp_fn evalBounds

theorem stepSP_declareVars (ih : AllSP f) : ∀ t ids ty, SP true (declareVars (f+1) t ids ty) := by
  intro t ids ty; sp_fn declareVars

theorem stepSP_declareArrs (ih : AllSP f) : ∀ t ids ty dims, SP true (declareArrs (f+1) t ids ty dims) := by
  intro t ids ty dims; sp_fn declareArrs

theorem stepSP_outputAll (ih : AllSP f) : ∀ es, SP true (outputAll (f+1) es) := by
  intro es; sp_fn outputAll

theorem stepSP_fileName (ih : AllSP f) : ∀ t e, SP true (fileName (f+1) t e) := by
  intro t e; sp_fn fileName

theorem stepSP_execAssign (ih : AllSP f) : ∀ t r rhs, SP true (execAssign (f+1) t r rhs) := by
  intro t r rhs; sp_fn execAssign

theorem updActs_head (a1 : Act) (rest : List Act) (id : Nat) (g : Act → Act) (h : a1.id = id) :
    updActs (a1 :: rest) id g = g a1 :: rest := by
  unfold updActs
  simp [h]

/-- `RETURN e` -/
theorem sp_return (ih : AllSP f) (t : Tok) (e : Expr) : SP true (do
    tick t
    let a ← curAct
    if (!a.isFn) = true then rtErr t Msg.returnOutside
      else do
        let v ← evalExpr f e
        modifyAct a.id fun a_1 => { a_1 with retVal := some (implicitCast a.retTy v) }
        if ((implicitCast a.retTy v).ty != a.retTy) = true then rtErr t Msg.typeMismatch else throw Stop.ret : M Val) := by
  refine SP.bind (SP.l_tick t) fun _ => ?_
  apply SP.curAct_bind
  intro σ a rest hσ
  split
  · exact (SP.l_rtErr t .returnOutside).run σ
  · rename_i hfn
    have hfn' : a.isFn = true := by
      cases hx : a.isFn with
      | true => rfl
      | false => rw [hx] at hfn; exact absurd rfl hfn
    have h1 := (ih.evalExpr e).run σ
    rcases h : (evalExpr f e).run.run σ with ⟨x | v, σ1⟩
    · rw [run_bind_err _ _ σ σ1 x h]
      rw [h] at h1
      exact h1
    · rw [run_bind_ok _ _ σ σ1 v h]
      rw [h] at h1
      have h1 : LPost true σ.acts none σ1.acts := h1
      rw [run_bind_ok _ _ _ _ _ (run_modifyAct _ _ σ1)]
      generalize hg : (fun a_1 : Act => { a_1 with retVal := some (implicitCast a.retTy v) }) = g
      have hgh : ∀ x, hdr (g x) = hdr x := by subst hg; intro x; rfl
      have hH : (updSt σ1 a.id g).acts.map hdr = σ.acts.map hdr :=
        (updActs_map hdr _ _ _ hgh).trans h1.1
      split
      · obtain ⟨d, hd, hmsg, _⟩ := rtErr_run' (α := Val) t .typeMismatch (updSt σ1 a.id g)
        rw [hd]
        exact ⟨hH, fun hs => absurd (Or.inr ⟨d, rfl, hmsg⟩) hs, nofun⟩
      · rename_i hty
        have hty' : (implicitCast a.retTy v).ty = a.retTy := by
          simpa using hty
        refine ⟨hH, fun hs => absurd (Or.inl rfl) hs, fun _ => ⟨rfl, ?_⟩⟩
        have hv : rvs σ1.acts = rvs σ.acts := h1.2.1 (fun h => h)
        have hh := h1.1
        rw [hσ] at hh hv
        cases hacts1 : σ1.acts with
        | nil => rw [hacts1] at hh; cases hh
        | cons a1 rest1 =>
          rw [hacts1] at hh hv
          simp only [List.map_cons, List.cons.injEq] at hh
          simp only [rvs, List.map_cons, List.cons.injEq] at hv
          have hid : a1.id = a.id := congrArg (fun x => x.1) hh.1
          have hfn1 : a1.isFn = a.isFn := congrArg (fun x => x.2.1) hh.1
          have hrt : a1.retTy = a.retTy := congrArg (fun x => x.2.2.2.2) hh.1
          have hacts2 : (updSt σ1 a.id g).acts = g a1 :: rest1 := by
            show updActs σ1.acts a.id g = _
            rw [hacts1]
            exact updActs_head a1 rest1 a.id g hid
          show rvs (updSt σ1 a.id g).acts.tail = rvs σ.acts.tail ∧ _
          rw [hacts2, hσ]
          refine ⟨by simp only [rvs, List.tail_cons]; exact hv.2, g a1, rest1, hacts2, ?_, ?_⟩
          · subst hg
            exact hfn1.trans hfn'
          · subst hg
            exact ⟨implicitCast a.retTy v, rfl, hty'.trans hrt.symm⟩

set_option maxHeartbeats 1000000 in
theorem stepSP_execStmt (ih : AllSP f) : ∀ s, SP true (execStmt (f+1) s) := by
  intro s
  cases s
  case ret t e =>
    rw [Pseudo.execStmt.eq_def]; dsimp only
    exact sp_return ih t e
  all_goals (rw [Pseudo.execStmt.eq_def]; dsimp only; sp_auto)

/-- the induction step: every function at fuel `f+1` calls the others at fuel `f` only -/
theorem AllSP.succ (ih : AllSP f) : AllSP (f + 1) where
  defaultVal := stepSP_defaultVal ih
  defaultCells := stepSP_defaultCells ih
  evalArgs := stepSP_evalArgs ih
  evalIndices := stepSP_evalIndices ih
  resolveRef := stepSP_resolveRef ih
  callFun := stepSP_callFun ih
  bindParams := stepSP_bindParams ih
  evalExpr := stepSP_evalExpr ih
  execAssign := stepSP_execAssign ih
  runBlock := stepSP_runBlock ih
  ifChain := stepSP_ifChain ih
  caseMatch := stepSP_caseMatch ih
  caseClauses := stepSP_caseClauses ih
  loopBody := stepSP_loopBody ih
  whileLoop := stepSP_whileLoop ih
  repeatLoop := stepSP_repeatLoop ih
  forLoop := stepSP_forLoop ih
  callProc := stepSP_callProc ih
  resolveParams := stepSP_resolveParams ih
  evalBounds := stepSP_evalBounds ih
  declareVars := stepSP_declareVars ih
  declareArrs := stepSP_declareArrs ih
  outputAll := stepSP_outputAll ih
  fileName := stepSP_fileName ih
  execStmt := stepSP_execStmt ih

end steps

/-- **all 25 functions of the evaluator**, at every fuel, satisfy the strengthened postcondition -/
theorem allSP : ∀ fuel, AllSP fuel
  | 0 => AllSP.zero
  | f + 1 => (allSP f).succ

/-! ### the client's statement -/

/-- the strengthened postcondition implies the client's -/
theorem LPost.toRPost {α : Type} {b : Bool} {σ σ' : St} {r : Except Stop α} (h : LPost b σ.acts (exn r) σ'.acts) :
    RPost σ r σ' := by
  refine ⟨h.1, ?_⟩
  cases r with
  | ok a => exact h.2.1 (fun h => h)
  | error e =>
    cases e with
    | ret =>
      obtain ⟨_, ht, hx⟩ := h.2.2 rfl
      exact ⟨ht, hx⟩
    | diag d => trivial
    | brk t => trivial
    | cont t => trivial
    | crash p => trivial
    | outOfFuel => trivial

theorem SP.toRP {α : Type} {b : Bool} {m : M α} (h : SP b m) : RP m := ⟨fun σ => (h.run σ).toRPost⟩

/-- one field per function of the mutual block -/
structure AllRP (f : Nat) : Prop where
  defaultVal : ∀ t ty, RP (defaultVal f t ty)
  defaultCells : ∀ t ty n acc, RP (defaultCells f t ty n acc)
  evalArgs : ∀ es acc, RP (evalArgs f es acc)
  evalIndices : ∀ es dims acc, RP (evalIndices f es dims acc)
  resolveRef : ∀ r, RP (resolveRef f r)
  callFun : ∀ t args, RP (callFun f t args)
  bindParams : ∀ t ps es vs acc, RP (bindParams f t ps es vs acc)
  evalExpr : ∀ e, RP (evalExpr f e)
  execAssign : ∀ t r rhs, RP (execAssign f t r rhs)
  runBlock : ∀ b, RP (runBlock f b)
  ifChain : ∀ t bs els, RP (ifChain f t bs els)
  caseMatch : ∀ v cl, RP (caseMatch f v cl)
  caseClauses : ∀ v cls, RP (caseClauses f v cls)
  loopBody : ∀ b, RP (loopBody f b)
  whileLoop : ∀ t c b, RP (whileLoop f t c b)
  repeatLoop : ∀ t b c, RP (repeatLoop f t b c)
  forLoop : ∀ t it stop step b, RP (forLoop f t it stop step b)
  callProc : ∀ t name args, RP (callProc f t name args)
  resolveParams : ∀ ps acc, RP (resolveParams f ps acc)
  evalBounds : ∀ bs acc, RP (evalBounds f bs acc)
  declareVars : ∀ t ids ty, RP (declareVars f t ids ty)
  declareArrs : ∀ t ids ty dims, RP (declareArrs f t ids ty dims)
  outputAll : ∀ es, RP (outputAll f es)
  fileName : ∀ t e, RP (fileName f t e)
  execStmt : ∀ s, RP (execStmt f s)

/-- **the RETURN protocol**, all 25 functions of the evaluator, at every fuel -/
theorem allRP : ∀ f, AllRP f := fun f =>
  have h := allSP f
  { defaultVal := fun t ty => (h.defaultVal t ty).toRP,
    defaultCells := fun t ty n acc => (h.defaultCells t ty n acc).toRP,
    evalArgs := fun es acc => (h.evalArgs es acc).toRP,
    evalIndices := fun es dims acc => (h.evalIndices es dims acc).toRP,
    resolveRef := fun r => (h.resolveRef r).toRP,
    callFun := fun t args => (h.callFun t args).toRP,
    bindParams := fun t ps es vs acc => (h.bindParams t ps es vs acc).toRP,
    evalExpr := fun e => (h.evalExpr e).toRP,
    execAssign := fun t r rhs => (h.execAssign t r rhs).toRP,
    runBlock := fun b => (h.runBlock b).toRP,
    ifChain := fun t bs els => (h.ifChain t bs els).toRP,
    caseMatch := fun v cl => (h.caseMatch v cl).toRP,
    caseClauses := fun v cls => (h.caseClauses v cls).toRP,
    loopBody := fun b => (h.loopBody b).toRP,
    whileLoop := fun t c b => (h.whileLoop t c b).toRP,
    repeatLoop := fun t b c => (h.repeatLoop t b c).toRP,
    forLoop := fun t it stop step b => (h.forLoop t it stop step b).toRP,
    callProc := fun t name args => (h.callProc t name args).toRP,
    resolveParams := fun ps acc => (h.resolveParams ps acc).toRP,
    evalBounds := fun bs acc => (h.evalBounds bs acc).toRP,
    declareVars := fun t ids ty => (h.declareVars t ids ty).toRP,
    declareArrs := fun t ids ty dims => (h.declareArrs t ids ty dims).toRP,
    outputAll := fun es => (h.outputAll es).toRP,
    fileName := fun t e => (h.fileName t e).toRP,
    execStmt := fun s => (h.execStmt s).toRP }

/-- a function body that ends normally (no RETURN was executed) or by `RETURN` leaves a typed `retVal` or none at all -/
theorem fun_body_ret (f : Nat) (body : Block) (σ : St) (a : Act) (rest : List Act) (hσ : σ.acts = a :: rest)
    (hnone : a.retVal = none) :
    match (Pseudo.runBlock f body).run.run σ with
    | (.ok _, σ') => ∃ a' rest', σ'.acts = a' :: rest' ∧ a'.retVal = none ∧ hdr a' = hdr a
    | (.error .ret, σ') => ∃ a' rest', σ'.acts = a' :: rest' ∧ RetTyped a' ∧ hdr a' = hdr a
    | _ => True := by
  have h := ((allSP f).runBlock body).run σ
  rcases hr : (Pseudo.runBlock f body).run.run σ with ⟨r, σ'⟩
  rw [hr] at h
  have hh : σ'.acts.map hdr = (a :: rest).map hdr := by rw [← hσ]; exact h.1
  cases hacts : σ'.acts with
  | nil => rw [hacts] at hh; cases hh
  | cons a' rest' =>
    rw [hacts] at hh
    simp only [List.map_cons, List.cons.injEq] at hh
    cases r with
    | ok v =>
      have hv : rvs σ'.acts = rvs σ.acts := h.2.1 (fun h => h)
      rw [hacts, hσ] at hv
      simp only [rvs, List.map_cons, List.cons.injEq] at hv
      exact ⟨a', rest', hacts, hv.1.trans hnone, hh.1⟩
    | error e =>
      cases e with
      | ret =>
        obtain ⟨_, _, a2, rest2, h2, _, htyped⟩ := h.2.2 rfl
        rw [hacts] at h2
        cases h2
        exact ⟨a', rest', hacts, htyped, hh.1⟩
      | diag d => trivial
      | brk t => trivial
      | cont t => trivial
      | crash p => trivial
      | outOfFuel => trivial

#print axioms allSP
#print axioms allRP
#print axioms fun_body_ret

end Pseudo.NL
