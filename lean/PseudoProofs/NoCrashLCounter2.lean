import PseudoProofs.NoCrashLMain
/-!
# C01 with TYPE statements anywhere: concrete programs of the sublanguage, evaluated by the kernel
-/
namespace Pseudo

/-- global enum and record types; a recursive procedure with local enum, pointer and record types (the local record has a member of
    the global record type), a pointer into the local record, BYREF of a global record; a function with a local
    enum type that returns a global record -/
def C01.progLocalTypes : String :=
  "TYPE Point\nDECLARE x : INTEGER\nENDTYPE\nDECLARE g : Point\nPROCEDURE Bump(BYREF q : Point, BYVAL n : INTEGER)\nTYPE Dir = (North, South)\nTYPE PD = ^Dir\nTYPE Leg\nDECLARE d : Dir\nDECLARE at : Point\nENDTYPE\nDECLARE l : Leg\nDECLARE p : PD\nl.d <- South\np <- ^l.d\nl.at <- q\nl.at.x <- l.at.x + n\nq <- l.at\nOUTPUT p^\nIF n > 1 THEN\nCALL Bump(q, n - 1)\nENDIF\nENDPROCEDURE\nFUNCTION Mk(a : INTEGER) RETURNS Point\nTYPE T = (A, B)\nDECLARE t : T\nDECLARE r : Point\nt <- B\nr.x <- a\nRETURN r\nENDFUNCTION\ng <- Mk(3)\nCALL Bump(g, 2)\nOUTPUT g.x"

namespace NL

theorem progLocalTypes_ok : OkSrc {} (C01.progLocalTypes.toList ++ ['\n']) := by decide +kernel
theorem progLocalTypes_runs : (runFile {} C01.progLocalTypes.toList [] []).out = "South\nSouth\n6\n".toList := by decide +kernel

end NL
end Pseudo
