import PseudoProofs.FrameInvDefs
/-!
# C04 frame theorem: the triple `EnsF`, combinators, library lemmas, proof search

`EnsF k P m`: from every start state `σ` with `Inv k σ`, the run of `m` ends — normally or with an exception — in a
state `σ'` with `Inv k σ'` and `Fr k σ σ'` (activation `k` untouched), and a normal result `a` satisfies `P a`.
The result predicates are state independent (`NoPtr k v`, `l.act ≠ k`, `SlotClosed k s`, …).
-/
namespace Pseudo.Frame
open Pseudo

structure EnsF (k : Nat) {α : Type} (P : α → Prop) (m : M α) : Prop where
  run : ∀ σ, Inv k σ → Inv k (m.run.run σ).2 ∧ Fr k σ (m.run.run σ).2 ∧ ∀ a, (m.run.run σ).1 = .ok a → P a

/-- marks a side goal (a statement about values) that the proof search must not take apart -/
def Leaf (p : Prop) : Prop := p
theorem Leaf.mk {p : Prop} (h : p) : Leaf p := h
theorem Leaf.out {p : Prop} (h : Leaf p) : p := h

/-- the canonical result predicate of a type (used where the proof search cannot infer one) -/
class Safe (α : Type) where
  safe : Nat → α → Prop

instance instSafeVal : Safe Val := ⟨fun k v => NoPtr k v⟩
instance instSafeLoc : Safe Loc := ⟨fun k l => l.act ≠ k⟩
instance instSafeHolder : Safe Holder := ⟨fun k h => h.loc.act ≠ k⟩
instance instSafeOption {α : Type} [Safe α] : Safe (Option α) := ⟨fun k o => ∀ a, o = some a → Safe.safe k a⟩
instance instSafeProd {α β : Type} [Safe α] [Safe β] : Safe (α × β) := ⟨fun k p => Safe.safe k p.1 ∧ Safe.safe k p.2⟩
instance (priority := low) instSafeDefault {α : Type} : Safe α := ⟨fun _ _ => True⟩

/-- the relation "the state is unchanged" (for the read-only library functions of `EvalInv`) -/
def Same (σ σ' : St) : Prop := σ' = σ
instance : RPre Same := ⟨fun _ => rfl, fun h1 h2 => h2.trans h1⟩

section combinators
variable {k : Nat} {α β : Type} {P : α → Prop} {Q : β → Prop}

theorem EnsF.pure (a : α) (h : Leaf (P a)) : EnsF k P (pure a : M α) :=
  ⟨fun σ hσ => ⟨hσ, Fr.refl σ, fun a' h' => by cases h'; exact h⟩⟩

theorem EnsF.throw (e : Stop) : EnsF k P (throw e : M α) :=
  ⟨fun σ hσ => ⟨hσ, Fr.refl σ, fun a' h' => by cases h'⟩⟩

theorem EnsF.get : EnsF k (fun _ => True) (get : M St) :=
  ⟨fun σ hσ => ⟨hσ, Fr.refl σ, fun _ _ => trivial⟩⟩

theorem EnsF.post {P' : α → Prop} {m : M α} (h : EnsF k P' m) (hP : ∀ a, P' a → Leaf (P a)) : EnsF k P m :=
  ⟨fun σ hσ => ⟨(h.run σ hσ).1, (h.run σ hσ).2.1, fun a ha => hP a ((h.run σ hσ).2.2 a ha)⟩⟩

theorem EnsF.triv {m : M α} (h : EnsF k P m) : EnsF k (fun _ => True) m := h.post fun _ _ => trivial

theorem EnsF.bind {m : M α} {f : α → M β} (hm : EnsF k P m) (hf : ∀ a, P a → EnsF k Q (f a)) :
    EnsF k Q (m >>= f) := by
  constructor
  intro σ hσ
  have h1 := hm.run σ hσ
  rcases h : m.run.run σ with ⟨e | a, σ'⟩
  · rw [run_bind_err m f σ σ' e h]
    rw [h] at h1
    exact ⟨h1.1, h1.2.1, fun a' h' => by cases h'⟩
  · rw [run_bind_ok m f σ σ' a h]
    rw [h] at h1
    have h2 := (hf a (h1.2.2 a rfl)).run σ' h1.1
    exact ⟨h2.1, h1.2.1.trans h2.2.1, h2.2.2⟩

theorem EnsF.tryCatch {m : M α} {hd : Stop → M α} (hm : EnsF k P m) (hh : ∀ e, EnsF k P (hd e)) :
    EnsF k P (tryCatch m hd) := by
  constructor
  intro σ hσ
  have h1 := hm.run σ hσ
  rcases h : m.run.run σ with ⟨e | a, σ'⟩
  · rw [run_tryCatch_err m hd σ σ' e h]
    rw [h] at h1
    have h2 := (hh e).run σ' h1.1
    exact ⟨h2.1, h1.2.1.trans h2.2.1, h2.2.2⟩
  · rw [run_tryCatch_ok m hd σ σ' a h]
    rw [h] at h1
    exact h1

theorem EnsF.tryCatch' {m : M α} {hd : Stop → M α} (hm : EnsF k P m) (hh : ∀ e, EnsF k P (hd e)) :
    EnsF k P (MonadExcept.tryCatch m hd) := EnsF.tryCatch hm hh

theorem EnsF.ite {c : Prop} [Decidable c] {t e : M α} (ht : c → EnsF k P t) (he : ¬ c → EnsF k P e) :
    EnsF k P (if c then t else e) := by
  split
  · exact ht ‹_›
  · exact he ‹_›

/-- a read-only computation: only the result matters -/
theorem EnsF.of_ro {m : M α} (h : Ens Same (fun _ => True) m)
    (hP : ∀ σ a, Inv k σ → (m.run.run σ).1 = .ok a → P a) : EnsF k P m := by
  constructor
  intro σ hσ
  have h1 : (m.run.run σ).2 = σ := (h.run σ).1
  rw [h1]
  exact ⟨hσ, Fr.refl σ, fun a ha => hP σ a hσ ha⟩

theorem EnsF.ro_triv {m : M α} (h : Ens Same (fun _ => True) m) : EnsF k (fun _ => True) m :=
  EnsF.of_ro h fun _ _ _ _ => trivial

/-- a computation that never returns normally satisfies every result predicate -/
theorem EnsF.of_ro_err {m : M α} (h : Ens Same (fun _ => True) m) (he : ∀ σ, ∃ e, (m.run.run σ).1 = .error e) :
    EnsF k P m :=
  EnsF.of_ro h fun σ a _ ha => by obtain ⟨e, he⟩ := he σ; rw [he] at ha; cases ha

/-- a computation that leaves the activations and the id counter alone -/
theorem EnsF.of_sameActs {m : M α} (h : Ens SameActs (fun _ => True) m) : EnsF k (fun _ => True) m := by
  constructor
  intro σ hσ
  have h1 := (h.run σ).1
  have := hσ.of_acts h1.1 h1.2
  exact ⟨this.1, this.2, fun _ _ => trivial⟩

theorem EnsF.modify (f : St → St) (h1 : ∀ σ, (f σ).acts = σ.acts) (h2 : ∀ σ, (f σ).nextId = σ.nextId) :
    EnsF k (fun _ => True) (modify f : M PUnit) :=
  ⟨fun σ hσ => ⟨(hσ.of_acts (h1 σ) (h2 σ)).1, (hσ.of_acts (h1 σ) (h2 σ)).2, fun _ _ => trivial⟩⟩

theorem EnsF.modifyAct (id : Nat) (F : Act → Act) (hid : id ≠ k) (hF : ∀ a, (F a).id = a.id)
    (hC : Leaf (∀ a, ActClosed k a → ActClosed k (F a))) : EnsF k (fun _ => True) (modifyAct id F) :=
  ⟨fun σ hσ => ⟨(hσ.updSt id F hid hF fun a _ => hC a).1, (hσ.updSt id F hid hF fun a _ => hC a).2, fun _ _ => trivial⟩⟩

/-- the bracket rule -/
theorem EnsF.withAct (mk : Nat → Act) (body : M α) (hmk : ∀ i, (mk i).id = i) (hC : Leaf (∀ i, ActClosed k (mk i)))
    (hb : EnsF k P body) : EnsF k P (withAct mk body) := by
  constructor
  intro σ hσ
  rw [run_withAct]
  have h1 := hσ.push mk (hmk _) (hC _)
  have h2 := hb.run _ h1
  have h3 := hσ.pop mk (hmk _) h2.1 h2.2.1
  exact ⟨h3.1, h3.2, h2.2.2⟩

/-- start with `get`: the continuation may be analysed at the very state it reads -/
theorem EnsF.get_bind {f : St → M α}
    (h : ∀ σ, Inv k σ → Inv k ((f σ).run.run σ).2 ∧ Fr k σ ((f σ).run.run σ).2 ∧
      ∀ a, ((f σ).run.run σ).1 = .ok a → P a) : EnsF k P ((MonadState.get : M St) >>= f) := by
  constructor
  intro σ hσ
  rw [run_bind_ok _ _ _ _ _ (run_get σ)]
  exact h σ hσ

end combinators

/-! ### library: functions outside the mutual block -/

section library
variable {k : Nat} {α : Type} {P : α → Prop}

theorem EnsF.l_rtErr (t : Tok) (m : Msg) : EnsF k P (rtErr t m : M α) :=
  EnsF.of_ro (Ens.l_rtErr t m) fun σ a _ ha => by rw [run_rtErr] at ha; cases ha

theorem EnsF.l_rtErr0 (m : Msg) : EnsF k P (rtErr0 m : M α) :=
  EnsF.of_ro (Ens.l_rtErr0 m) fun σ a _ ha => by
    unfold rtErr0 at ha
    rw [run_bind_ok _ _ _ _ _ (run_mkRuntime _ _ _ σ)] at ha
    cases ha

theorem EnsF.l_pedErr (t : Tok) (m : Msg) : EnsF k P (pedErr t m : M α) := EnsF.throw _

/-- the current activation: not `k`, closed -/
abbrev ActSafe (k : Nat) (a : Act) : Prop := a.id ≠ k ∧ ActClosed k a

theorem run_curAct_ok {σ : St} {a : Act} (h : (curAct.run.run σ).1 = .ok a) : ∃ rest, σ.acts = a :: rest := by
  unfold curAct at h
  rw [run_bind_ok _ _ _ _ _ (run_get σ)] at h
  cases hacts : σ.acts with
  | nil => rw [hacts] at h; cases h
  | cons b rest => rw [hacts] at h; cases h; exact ⟨rest, rfl⟩

theorem run_globalAct_ok {σ : St} {a : Act} (h : (globalAct.run.run σ).1 = .ok a) : σ.acts.getLast? = some a := by
  unfold globalAct at h
  rw [run_bind_ok _ _ _ _ _ (run_get σ)] at h
  cases hacts : σ.acts.getLast? with
  | none => rw [hacts] at h; cases h
  | some b => rw [hacts] at h; cases h; rfl

theorem EnsF.l_curAct : EnsF k (ActSafe k) curAct :=
  EnsF.of_ro Ens.l_curAct fun σ a hσ ha => by
    obtain ⟨rest, hr⟩ := run_curAct_ok ha
    exact ⟨hσ.top_ne hr, hσ.top_closed hr⟩

theorem EnsF.l_globalAct : EnsF k (ActSafe k) globalAct :=
  EnsF.of_ro Ens.l_globalAct fun σ a hσ ha => ⟨hσ.glob_ne (run_globalAct_ok ha), hσ.glob_closed (run_globalAct_ok ha)⟩

/-- the result of a name lookup: the owner is not `k`, the slot is closed -/
abbrev LookSafe (k : Nat) (o : Option (Act × Slot)) : Prop := ∀ a s, o = some (a, s) → a.id ≠ k ∧ SlotClosed k s

theorem lookupVarIn_safe {a g : Act} (ha : ActSafe k a) (hg : ActSafe k g) (n : Str) : LookSafe k (lookupVarIn a g n) := by
  intro b s h
  unfold lookupVarIn at h
  split at h
  · rename_i s' hs'
    cases h
    exact ⟨ha.1, ha.2.vars _ (findSlot_mem hs')⟩
  · split at h
    · cases h
    · cases hf : findSlot g.vars n with
      | none => rw [hf] at h; cases h
      | some s' =>
        rw [hf] at h
        cases h
        exact ⟨hg.1, hg.2.vars _ (findSlot_mem hf)⟩

theorem lookupArrIn_safe {a g : Act} (ha : ActSafe k a) (hg : ActSafe k g) (n : Str) : LookSafe k (lookupArrIn a g n) := by
  intro b s h
  unfold lookupArrIn at h
  split at h
  · rename_i s' hs'
    cases h
    exact ⟨ha.1, ha.2.arrs _ (findSlot_mem hs')⟩
  · split at h
    · cases h
    · cases hf : findSlot g.arrs n with
      | none => rw [hf] at h; cases h
      | some s' =>
        rw [hf] at h
        cases h
        exact ⟨hg.1, hg.2.arrs _ (findSlot_mem hf)⟩

theorem EnsF.l_lookupVar (n : Str) : EnsF k (LookSafe k) (lookupVar n) := by
  unfold lookupVar
  refine EnsF.bind EnsF.l_curAct fun a ha => ?_
  refine EnsF.bind EnsF.l_globalAct fun g hg => ?_
  exact EnsF.pure _ (lookupVarIn_safe ha hg n)

theorem EnsF.l_lookupArr (n : Str) : EnsF k (LookSafe k) (lookupArr n) := by
  unfold lookupArr
  refine EnsF.bind EnsF.l_curAct fun a ha => ?_
  refine EnsF.bind EnsF.l_globalAct fun g hg => ?_
  exact EnsF.pure _ (lookupArrIn_safe ha hg n)

theorem EnsF.l_scopeAct : EnsF k (fun _ => True) scopeAct := .ro_triv Ens.l_scopeAct
theorem EnsF.l_typeScopeAct : EnsF k (fun _ => True) typeScopeAct := .ro_triv Ens.l_typeScopeAct
theorem EnsF.l_enumDefOf (n : Str) (g : Bool) : EnsF k (fun _ => True) (enumDefOf n g) := .ro_triv (Ens.l_enumDefOf n g)
theorem EnsF.l_ptrDefOf (n : Str) (g : Bool) : EnsF k (fun _ => True) (ptrDefOf n g) := .ro_triv (Ens.l_ptrDefOf n g)
theorem EnsF.l_compDefOf (n : Str) (g : Bool) : EnsF k (fun _ => True) (compDefOf n g) := .ro_triv (Ens.l_compDefOf n g)
theorem EnsF.l_getType (t : Tok) (g : Bool) : EnsF k (fun _ => True) (getType t g) := .ro_triv (Ens.l_getType t g)
theorem EnsF.l_isIdentifierType (t : Tok) (g : Bool) : EnsF k (fun _ => True) (isIdentifierType t g) :=
  .ro_triv (Ens.l_isIdentifierType t g)
theorem EnsF.l_locIsConst (l : Loc) : EnsF k (fun _ => True) (locIsConst l) := .ro_triv (Ens.l_locIsConst l)
theorem EnsF.l_isLive (id : Nat) : EnsF k (fun _ => True) (isLive id) := .ro_triv (Ens.l_isLive id)
theorem EnsF.l_outputText (v : Val) : EnsF k (fun _ => True) (outputText v) := .ro_triv (Ens.l_outputText v)
theorem EnsF.l_filePre (t : Tok) (op : FOp) : EnsF k (fun _ => True) (filePre t op) := .ro_triv (Ens.l_filePre t op)
theorem EnsF.l_codecDefs : EnsF k (fun _ => True) codecDefs := .ro_triv Ens.l_codecDefs
theorem EnsF.l_writeText (t : Tok) (v : Val) : EnsF k (fun _ => True) (writeText t v) := .ro_triv (Ens.l_writeText t v)

theorem enumElemIn_noPtr {a : Act} {v : Str} {x : Val} (h : enumElemIn a v = some x) : NoPtr k x := by
  unfold enumElemIn at h
  obtain ⟨p, _, hp⟩ := List.exists_of_findSome?_eq_some h
  dsimp only at hp
  split at hp
  · cases hp; exact noPtr_enum _ _
  · cases hp

/-- an enumeration constant is not a pointer -/
theorem EnsF.l_getEnumElement (v : Str) (g : Bool) :
    EnsF k (fun o => ∀ x, o = some x → NoPtr k x) (getEnumElement v g) := by
  unfold getEnumElement
  refine EnsF.bind EnsF.l_typeScopeAct fun a _ => ?_
  refine EnsF.bind (EnsF.l_globalAct.triv) fun gl _ => ?_
  split
  · rename_i x hx
    exact EnsF.pure _ (fun y hy => by cases hy; exact enumElemIn_noPtr hx)
  · split
    · exact EnsF.pure _ (fun y hy => by cases hy)
    · exact EnsF.pure _ (fun y hy => enumElemIn_noPtr hy)

/-- reading a location outside `k` gives a value without pointers into `k` -/
theorem EnsF.l_readLoc (l : Loc) (hl : l.act ≠ k) : EnsF k (NoPtr k) (readLoc l) :=
  EnsF.of_ro (Ens.l_readLoc l) fun σ v hσ hv => by
    rw [run_readLoc] at hv
    unfold readLocP at hv
    dsimp only at hv
    split at hv
    · cases hv
    · rename_i a ha
      split at hv
      · cases hv
      · rename_i s hs
        split at hv
        · rename_i w hw
          cases hv
          exact noPtr_getPath hw (slotOf_closed (hσ.find_closed hl ha).2 hs).2
        · cases hv

theorem EnsF.l_liftMsg (t : Tok) (x : Except Msg α) (h : Leaf (∀ a, x = .ok a → P a)) : EnsF k P (liftMsg t x) := by
  unfold liftMsg
  split
  · exact EnsF.pure _ (h _ rfl)
  · exact EnsF.l_rtErr _ _

theorem EnsF.l_liftMsg0 (x : Except Msg α) (h : Leaf (∀ a, x = .ok a → P a)) : EnsF k P (liftMsg0 x) := by
  unfold liftMsg0
  split
  · exact EnsF.pure _ (h _ rfl)
  · exact EnsF.l_rtErr0 _

theorem EnsF.l_emit (x : Str) : EnsF k (fun _ => True) (emit x) := .of_sameActs (frame_emit x)
theorem EnsF.l_tick (t : Tok) : EnsF k (fun _ => True) (tick t) := .of_sameActs (frame_tick t)
theorem EnsF.l_getLine : EnsF k (fun _ => True) getLine := .of_sameActs frame_getLine
theorem EnsF.l_doFile (t : Tok) (op : FOp) : EnsF k (fun _ => True) (doFile t op) := .of_sameActs (frame_doFile t op)
theorem EnsF.l_doFile0 (op : FOp) : EnsF k (fun _ => True) (doFile0 op) := .of_sameActs (frame_doFile0 op)

theorem EnsF.l_modifyCur (F : Act → Act) (hF : ∀ a, (F a).id = a.id)
    (hC : Leaf (∀ a, ActClosed k a → ActClosed k (F a))) : EnsF k (fun _ => True) (modifyCur F) := by
  unfold modifyCur
  exact EnsF.bind EnsF.l_curAct fun a ha => EnsF.modifyAct a.id F ha.1 hF hC

theorem EnsF.l_addVar (s : Slot) (hs : Leaf (SlotClosed k s)) : EnsF k (fun _ => True) (addVar s) := by
  unfold addVar
  refine EnsF.l_modifyCur _ (fun _ => rfl) fun a ha => ⟨?_, ha.arrs, ha.ret⟩
  intro s' hs'
  rcases List.mem_append.1 hs' with h | h
  · exact ha.vars s' h
  · rw [List.mem_singleton.1 h]; exact hs

theorem EnsF.l_addArr (s : Slot) (hs : Leaf (SlotClosed k s)) : EnsF k (fun _ => True) (addArr s) := by
  unfold addArr
  refine EnsF.l_modifyCur _ (fun _ => rfl) fun a ha => ⟨ha.vars, ?_, ha.ret⟩
  intro s' hs'
  rcases List.mem_append.1 hs' with h | h
  · exact ha.arrs s' h
  · rw [List.mem_singleton.1 h]; exact hs

/-- a store to a location outside `k` of a value without pointers into `k` -/
theorem EnsF.l_writeLoc (t : Tok) (l : Loc) (v : Val) (hl : l.act ≠ k) (hv : Leaf (NoPtr k v)) :
    EnsF k (fun _ => True) (writeLoc t l v) := by
  unfold writeLoc
  refine EnsF.bind (P := fun o => ∀ a, o = some a → a.id = l.act ∧ ActClosed k a) ?_ fun o ho => ?_
  · exact EnsF.of_ro (Ens.l_findAct _) fun σ o hσ ho a ha => by
      rw [run_findAct] at ho
      cases ho
      exact hσ.find_closed hl ha
  · split
    · exact EnsF.throw _
    · rename_i a
      obtain ⟨hid, hca⟩ := ho a rfl
      split
      · exact EnsF.throw _
      · rename_i s hs
        have hsc := slotOf_closed hca hs
        split
        · exact EnsF.l_rtErr _ _
        · split
          · exact EnsF.throw _
          · rename_i nv hnv
            have hnvp : NoPtr k nv := noPtr_setPath hnv hsc.2 hv
            refine EnsF.modifyAct a.id _ (by rw [hid]; exact hl) (fun b => by split <;> rfl) ?_
            intro b hb
            have hupd : ∀ ss : List Slot, (∀ s ∈ ss, SlotClosed k s) →
                ∀ s ∈ updSlot ss l.name (fun s => { s with val := nv }), SlotClosed k s := by
              intro ss hss s' hs'
              rcases updSlot_mem _ _ ss s' hs' with h1 | ⟨s0, hs0, rfl⟩
              · exact hss s' h1
              · exact ⟨(hss s0 hs0).1, hnvp⟩
            split
            · exact ⟨hb.vars, hupd _ hb.arrs, hb.ret⟩
            · exact ⟨hupd _ hb.vars, hb.arrs, hb.ret⟩

theorem EnsF.l_catchNotDefined {m : M α} {h : Stop → M α} (hm : EnsF k P m) (hh : ∀ e, EnsF k P (h e)) :
    EnsF k P (catchNotDefined m h) := by
  unfold catchNotDefined
  refine EnsF.tryCatch hm fun e => ?_
  split
  · split
    · refine EnsF.bind EnsF.get fun _ _ => ?_
      split
      · exact hh _
      · exact EnsF.throw _
    · exact EnsF.throw _
  · exact EnsF.throw _

theorem noPtr_mathBuiltin {id : Str} {args : List Val} {v : Val} (h : mathBuiltin id args = some v) : NoPtr k v := by
  unfold mathBuiltin at h
  dsimp only at h
  split at h <;> first | (cases h; exact noPtr_real _) | cases h

end library

end Pseudo.Frame
