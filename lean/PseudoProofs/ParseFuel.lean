import PseudoProofs.ParseFuelExpr
/-!
# PseudoProofs.ParseFuel — the fuel that `parse` supplies is sufficient (support of `Properties/C10Fuel.lean`)

Calculus and the invariant `EndsEOF`: `PseudoProofs/ParseFuelCalc.lean`; the nine expression parsers:
`PseudoProofs/ParseFuelExpr.lean`.  Here: the DECLARE / CONSTANT / TYPE / parameter-list parsers, the six
mutually recursive statement parsers, and the whole program: with fuel `12 * n + 15` on an input of `n`
tokens that ends in the end marker, `parseBlock` does not end in the out-of-fuel diagnostic; `parseFuel`
supplies `12 * n + 64`.
-/
namespace Pseudo.ParseFuel
open Pseudo

theorem identListFuel : ∀ f {acc s}, EndsEOF s.toks → 12 * s.toks.length + 1 ≤ f →
    Safe (parseIdentList f acc) s (PostLt s)
  | 0 => by intros; omega
  | f + 1 => by
    intro he hf
    have ih := @identListFuel f
    rw [parseIdentList]
    pauto [ih] []

theorem exprLevelFuel (cfg : PCfg) (f k : Nat) {s} (he : EndsEOF s.toks) (hf : 12 * s.toks.length + bLevel k ≤ f) :
    Safe (parseLevel cfg f k) s (PostLt s) := (exprFuel cfg f).level he hf

theorem evalFuel (cfg : PCfg) (f : Nat) {s} (he : EndsEOF s.toks) (hf : 12 * s.toks.length + 11 ≤ f) :
    Safe (parseEval cfg f) s (PostLt s) := (exprFuel cfg f).level he hf
theorem arithEFuel (cfg : PCfg) (f : Nat) {s} (he : EndsEOF s.toks) (hf : 12 * s.toks.length + 7 ≤ f) :
    Safe (parseArithE cfg f) s (PostLt s) := (exprFuel cfg f).level he hf
theorem strEFuel (cfg : PCfg) (f : Nat) {s} (he : EndsEOF s.toks) (hf : 12 * s.toks.length + 8 ≤ f) :
    Safe (parseStrE cfg f) s (PostLt s) := (exprFuel cfg f).level he hf

theorem boundsFuel (cfg : PCfg) : ∀ f {acc s}, EndsEOF s.toks → 12 * s.toks.length + 8 ≤ f →
    Safe (parseBounds cfg f acc) s (PostLt s)
  | 0 => by intros; omega
  | f + 1 => by
    intro he hf
    have ih := @boundsFuel cfg f
    have e := @arithEFuel cfg f
    rw [parseBounds]
    pauto [ih, e] []

theorem declareFuel (cfg : PCfg) (f : Nat) {s} (he : EndsEOF s.toks) (hf : 12 * s.toks.length + 8 ≤ f) :
    Safe (parseDeclare cfg f) s (PostLt s) := by
  have h1 := @identListFuel f
  have h2 := @boundsFuel cfg f
  unfold parseDeclare
  pauto [h1, h2] []

theorem constFuel {s} (he : EndsEOF s.toks) (_ : 0 ≤ s.toks.length) : Safe parseConst s (PostLt s) := by
  unfold parseConst
  pauto [] []

theorem enumValsFuel : ∀ f {acc s}, EndsEOF s.toks → 12 * s.toks.length + 1 ≤ f →
    Safe (parseEnumVals f acc) s (PostLt s)
  | 0 => by intros; omega
  | f + 1 => by
    intro he hf
    have ih := @enumValsFuel f
    rw [parseEnumVals]
    pauto [ih] []

theorem compositeBodyFuel (cfg : PCfg) : ∀ f {acc s}, EndsEOF s.toks → 12 * s.toks.length + 9 ≤ f →
    Safe (parseCompositeBody cfg f acc) s (PostLe s)
  | 0 => by intros; omega
  | f + 1 => by
    intro he hf
    have ih := @compositeBodyFuel cfg f
    have h1 := @declareFuel cfg f
    rw [parseCompositeBody]
    pauto [ih, h1] []

theorem typeFuel (cfg : PCfg) (f : Nat) {s} (he : EndsEOF s.toks) (hf : 12 * s.toks.length + 9 ≤ f) :
    Safe (parseType cfg f) s (PostLt s) := by
  have h1 := @compositeBodyFuel cfg f
  have h2 := @enumValsFuel f
  unfold parseType
  pauto [h1, h2] []

theorem paramsFuel : ∀ f {a s}, EndsEOF s.toks → 12 * s.toks.length + 1 ≤ f →
    Safe (parseParams f a) s (PostLt s)
  | 0 => by intros; omega
  | f + 1 => by
    intro he hf
    have ih := @paramsFuel f
    rw [parseParams]
    pauto [ih] []

/-- fuel bounds of the six mutually recursive statement parsers -/
structure StmtFuel (cfg : PCfg) (f : Nat) : Prop where
  block : ∀ {bk acc s}, EndsEOF s.toks → 12 * s.toks.length + 15 ≤ f → Safe (parseBlock cfg f bk acc) s (PostLe s)
  procedure : ∀ {s}, EndsEOF s.toks → 12 * s.toks.length + 14 ≤ f → Safe (parseProcedure cfg f) s (PostLt s)
  function : ∀ {s}, EndsEOF s.toks → 12 * s.toks.length + 14 ≤ f → Safe (parseFunction cfg f) s (PostLt s)
  else_ : ∀ {acc s}, EndsEOF s.toks → 12 * s.toks.length + 14 ≤ f → Safe (parseElse cfg f acc) s (PostLe s)
  clauses : ∀ {acc s}, EndsEOF s.toks → 12 * s.toks.length + 14 ≤ f → Safe (parseClauses cfg f acc) s (PostLe s)
  stmt : ∀ {s}, EndsEOF s.toks → 12 * s.toks.length + 14 ≤ f → Safe (parseStmt cfg f) s (PostLt s)

theorem stmtFuel (cfg : PCfg) : ∀ f, StmtFuel cfg f
  | 0 => by constructor <;> intros <;> omega
  | f + 1 => by
    obtain ⟨h1, h2, h3, h4, h5, h6⟩ := stmtFuel cfg f
    have e1 := @evalFuel cfg f
    have e2 := @arithEFuel cfg f
    have e3 := @strEFuel cfg f
    have e4 := @(exprFuel cfg f).args
    have e5 := @(exprFuel cfg f).callArgs
    have e6 := @(exprFuel cfg f).ref
    have d1 := @declareFuel cfg f
    have d2 := @typeFuel cfg f
    have d3 := @paramsFuel f
    have d4 := @constFuel
    constructor
    · intro bk acc s he hf
      rw [parseBlock]
      pauto [h1, h2, h3, h6] []
    · intro s he hf
      rw [parseProcedure]
      pauto [h1, d3] []
    · intro s he hf
      rw [parseFunction]
      pauto [h1, d3] []
    · intro acc s he hf
      rw [parseElse]
      pauto [h1, h4, e1] []
    · intro acc s he hf
      rw [parseClauses]
      pauto [h1, h5, e1] []
    · intro s he hf
      rw [parseStmt]
      refine Safe.bind (Safe.cur ?_)
      generalize hk : (curT s).k = k
      cases k <;> dsimp only <;> pauto [h1, h4, h5, e1, e2, e3, e4, e5, d1, d2, d4] [e6]

/-- the statement loop with the fuel of `parse` -/
theorem parseBlock_safe (cfg : PCfg) (f : Nat) (bk : BlockKind) (acc : List Stmt) (s : PState)
    (he : EndsEOF s.toks) (hf : 12 * s.toks.length + 15 ≤ f) :
    Safe (parseBlock cfg f bk acc) s (PostLe s) := (stmtFuel cfg f).block he hf

/-- `Safe` excludes the out-of-fuel result -/
theorem Safe.not_budget {α} {x : P α} {s : PState} {Q : α → PState → Prop} (h : Safe x s Q) :
    ¬ IsBudget (x.run.run s).1 := by
  unfold Safe at h
  rcases hx : x.run.run s with ⟨r, s'⟩
  rw [hx] at h
  cases r with
  | error d => exact h
  | ok a => exact fun h => h

/-- what `Safe` says about a run, without the `match` -/
theorem Safe.out {α} {x : P α} {s : PState} {Q : α → PState → Prop} (h : Safe x s Q)
    {r : Except Diag α} {s' : PState} (hr : x.run.run s = (r, s')) :
    (∀ d, r = .error d → d.msg ≠ .budget) ∧ (∀ a, r = .ok a → Q a s') := by
  unfold Safe at h
  rw [hr] at h
  cases r with
  | error d =>
    refine ⟨fun d' hd => ?_, fun a ha => ?_⟩
    · cases hd; exact h
    · cases ha
  | ok a =>
    refine ⟨fun d hd => ?_, fun a' ha => ?_⟩
    · cases hd
    · cases ha; exact h

/-- **no parser function runs out of the fuel `12 * n + 15`** on an input of `n` tokens that ends in the
    end marker; here for the whole-program body of `parse` (block, then the test for the end marker) -/
theorem parseMain_not_budget (cfg : PCfg) (f : Nat) (s : PState) (he : EndsEOF s.toks)
    (hf : 12 * s.toks.length + 15 ≤ f) :
    ¬ IsBudget ((do
        let b ← parseBlock cfg f .main []
        let t ← P.cur
        if t.k != .EXPRESSION_END then P.fail t else return b : P Block).run.run s).1 := by
  apply Safe.not_budget (Q := fun _ _ => True)
  refine Safe.bind (Safe.mono (parseBlock_safe cfg f .main [] s he hf) ?_)
  intro b s' _
  refine Safe.bind (Safe.cur ?_)
  exact Safe.ite (fun _ => Safe.fail (by decide)) (fun _ => Safe.pure trivial)

end Pseudo.ParseFuel
