import Properties.C11Trace
/-!
# Helper lemmas for the general traceback chain of C11 (`Properties/C11Chain.lean`)

`Properties/C11Trace.lean` proves the chain theorem for parameterless procedures whose body STARTS with the next `CALL`.
Here the path from a block to the failing statement is described by an inductive relation

  `Descent N σ c calls σl last`

"the code `c` (a block, a statement, an IF chain, a loop, a loop body, the clauses of a CASE, an expression, an argument
list, the operands of OUTPUT), started in the state `σ`, gets — after whatever it executes NORMALLY before — to the block
`last`, started in the state `σl`, through the nested calls `calls = [(t₀, P₁), (t₁, P₂), …]` (token of the call,
name of the callee; outermost first)".  Every constructor is one step of the evaluator and carries, as hypotheses,
the runs of what is executed before the step goes down (any statements, any state change, each with a fuel of its own);
`N` is the fuel the steps need on top of the fuel of `last`.

* `Descent.sound`: a diagnostic with which `last` ends is the diagnostic with which `c` ends (no handler on the way
  rewrites it);
* `Descent.acts`: the activation stack of `σl` is the stack of `σ` with one activation per call on top, each caller
  carrying the position of its call;
* `Code.err_mono`: more fuel does not change that outcome.
-/
namespace Pseudo

namespace TraceChain

set_option linter.unusedVariables false

open ArrayLemmas C07Copy TraceLemmas

/-! ## the exception with which a computation ends -/

/-- the exception with which `m` ends when started in `σ` (`none`: it ends normally) -/
def errOf {α : Type} (m : M α) (σ : St) : Option Stop :=
  match (m.run.run σ).1 with
  | .error e => some e
  | .ok _ => none

theorem errOf_of_run {α : Type} {m : M α} {σ σ' : St} {e : Stop} (h : m.run.run σ = (.error e, σ')) : errOf m σ = some e := by
  unfold errOf; rw [h]

theorem run_of_errOf {α : Type} {m : M α} {σ : St} {e : Stop} (h : errOf m σ = some e) : ∃ σ', m.run.run σ = (.error e, σ') := by
  unfold errOf at h
  rcases hr : m.run.run σ with ⟨e' | a, σ'⟩
  · rw [hr] at h
    have h' : some e' = some e := h
    cases h'
    exact ⟨σ', rfl⟩
  · rw [hr] at h
    have h' : (none : Option Stop) = some e := h
    cases h'

theorem errOf_mono {α : Type} {m1 m2 : M α} (hm : Mono m1 m2) {σ : St} {d : Diag} (h : errOf m1 σ = some (.diag d)) :
    errOf m2 σ = some (.diag d) := by
  obtain ⟨σ', hr⟩ := run_of_errOf h
  exact errOf_of_run (hm.run σ _ σ' hr (by intro h; cases h))

theorem ok_mono {α : Type} {m1 m2 : M α} (hm : Mono m1 m2) {σ σ' : St} {a : α} (h : m1.run.run σ = (.ok a, σ')) :
    m2.run.run σ = (.ok a, σ') := hm.run σ _ σ' h (by intro h; cases h)

/-! ## code positions -/

/-- the pieces of code a diagnostic passes on its way up (each is one function of the evaluator with its arguments) -/
inductive Code
  | block (b : Block)
  | stmt (s : Stmt)
  | ifChain (t : Tok) (bs : List (Expr × Block)) (els : Option Block)
  | caseClauses (v : Val) (cls : List Clause)
  | loopBody (b : Block)
  | whileLoop (t : Tok) (c : Expr) (b : Block)
  | repeatLoop (t : Tok) (b : Block) (c : Expr)
  | forLoop (t : Tok) (it : Loc) (stop step : Int) (b : Block)
  | expr (e : Expr)
  | args (es : List Expr) (acc : List Val)
  | outputAll (es : List Expr)

/-- the exception with which the code ends when run with `fuel` from `σ` -/
def Code.err (c : Code) (f : Nat) (σ : St) : Option Stop :=
  match c with
  | .block b => errOf (runBlock f b) σ
  | .stmt s => errOf (execStmt f s) σ
  | .ifChain t bs els => errOf (Pseudo.ifChain f t bs els) σ
  | .caseClauses v cls => errOf (Pseudo.caseClauses f v cls) σ
  | .loopBody b => errOf (Pseudo.loopBody f b) σ
  | .whileLoop t c b => errOf (Pseudo.whileLoop f t c b) σ
  | .repeatLoop t b c => errOf (Pseudo.repeatLoop f t b c) σ
  | .forLoop t it stop step b => errOf (Pseudo.forLoop f t it stop step b) σ
  | .expr e => errOf (evalExpr f e) σ
  | .args es acc => errOf (evalArgs f es acc) σ
  | .outputAll es => errOf (Pseudo.outputAll f es) σ

/-- **more fuel does not change a diagnostic** -/
theorem Code.err_mono (c : Code) {f g : Nat} (hfg : f ≤ g) {σ : St} {d : Diag} (h : c.err f σ = some (.diag d)) :
    c.err g σ = some (.diag d) := by
  have hm := fuel_mono_all hfg
  cases c with
  | block b => exact errOf_mono (hm.runBlock b) h
  | stmt s => exact errOf_mono (hm.execStmt s) h
  | ifChain t bs els => exact errOf_mono (hm.ifChain t bs els) h
  | caseClauses v cls => exact errOf_mono (hm.caseClauses v cls) h
  | loopBody b => exact errOf_mono (hm.loopBody b) h
  | whileLoop t c b => exact errOf_mono (hm.whileLoop t c b) h
  | repeatLoop t b c => exact errOf_mono (hm.repeatLoop t b c) h
  | forLoop t it stop step b => exact errOf_mono (hm.forLoop t it stop step b) h
  | expr e => exact errOf_mono (hm.evalExpr e) h
  | args es acc => exact errOf_mono (hm.evalArgs es acc) h
  | outputAll es => exact errOf_mono (hm.outputAll es) h

/-! ## the stack along a run -/

/-- what `RTrace` says about a non-empty stack -/
theorem RTrace_cons {σ σ' : St} (h : RTrace σ σ') (cur : Act) (rest : List Act) (hacts : σ.acts = cur :: rest) :
    ∃ cur' rest', σ'.acts = cur' :: rest' ∧ cur'.id = cur.id ∧ cur'.name = cur.name ∧ rest'.map frameOf = rest.map frameOf ∧
      rest'.length = rest.length := by
  have hfr := h.frames
  have hlen := h.length
  have hid := h.1
  rw [hacts] at hid hfr hlen
  cases hacts' : σ'.acts with
  | nil => rw [hacts'] at hid; cases hid
  | cons cur' rest' =>
    rw [hacts'] at hid hfr hlen
    simp only [List.map_cons, List.cons.injEq] at hid
    refine ⟨cur', rest', rfl, congrArg Prod.fst hid.1, congrArg Prod.snd hid.1, hfr, ?_⟩
    simpa using hlen

theorem RTrace_tickSt (σ : St) : RTrace σ (tickSt σ) := ⟨rfl, rfl⟩

theorem RTrace_of_run {α : Type} {m : M α} (h : Ens RTrace (fun _ => True) m) {σ σ' : St} {r : Except Stop α}
    (hr : m.run.run σ = (r, σ')) : RTrace σ σ' := by
  have := (h.run σ).1
  rw [hr] at this
  exact this

theorem RTrace_execStmt {f : Nat} {s : Stmt} {σ σ' : St} {r : Except Stop Val} (h : (execStmt f s).run.run σ = (r, σ')) :
    RTrace σ σ' := RTrace_of_run ((trace_all f).execStmt s) h
theorem RTrace_evalExpr {f : Nat} {e : Expr} {σ σ' : St} {r : Except Stop Val} (h : (evalExpr f e).run.run σ = (r, σ')) :
    RTrace σ σ' := RTrace_of_run ((trace_all f).evalExpr e) h
theorem RTrace_evalArgs {f : Nat} {es : List Expr} {acc : List Val} {σ σ' : St} {r : Except Stop (List Val)}
    (h : (evalArgs f es acc).run.run σ = (r, σ')) : RTrace σ σ' := RTrace_of_run ((trace_all f).evalArgs es acc) h
theorem RTrace_loopBody {f : Nat} {b : Block} {σ σ' : St} {r : Except Stop Bool} (h : (loopBody f b).run.run σ = (r, σ')) :
    RTrace σ σ' := RTrace_of_run ((trace_all f).loopBody b) h
theorem RTrace_caseMatch {f : Nat} {v : Val} {cl : Clause} {σ σ' : St} {r : Except Stop (Option Block)}
    (h : (caseMatch f v cl).run.run σ = (r, σ')) : RTrace σ σ' := RTrace_of_run ((trace_all f).caseMatch v cl) h

/-! ## the traceback a chain of calls leads to -/

/-- the name of the innermost activation after the calls (`nm`: the name of the activation that makes the first call) -/
def chainName : Str → List (Tok × Str) → Str
  | nm, [] => nm
  | _, (_, callee) :: more => chainName callee more

/-- the traceback entries of the callers, innermost first: the activation named `nm` calls at the first token, the
    callee of that call at the second, …; `acc`: the entries below -/
def chainFrames : Str → List (Tok × Str) → List Frame → List Frame
  | _, [], acc => acc
  | nm, (t, callee) :: more, acc => chainFrames callee more ({ name := nm, line := t.line, col := t.col } :: acc)

theorem chainFrames_length : ∀ (nm : Str) (calls : List (Tok × Str)) (acc : List Frame),
    (chainFrames nm calls acc).length = acc.length + calls.length
  | _, [], _ => rfl
  | nm, (t, callee) :: more, acc => by
    unfold chainFrames
    rw [chainFrames_length callee more _]
    simp only [List.length_cons]
    omega


/-- the stack of `σl` is the stack of `σ` with the activations of `calls` on top: the innermost activation carries the
    name of the last callee, the enclosing ones give the traceback entries `chainFrames` -/
def StackAt (σ : St) (calls : List (Tok × Str)) (σl : St) : Prop :=
  ∀ cur rest, σ.acts = cur :: rest → ∃ a parents, σl.acts = a :: parents ∧ a.name = chainName cur.name calls ∧
    parents.map frameOf = chainFrames cur.name calls (rest.map frameOf)

theorem StackAt.refl (σ : St) : StackAt σ [] σ := fun cur rest h => ⟨cur, rest, h, rfl, rfl⟩

/-- whatever runs before the step down keeps names and notes -/
theorem StackAt.step {σ σ1 σl : St} {calls : List (Tok × Str)} (hR : RTrace σ σ1) (h : StackAt σ1 calls σl) : StackAt σ calls σl := by
  intro cur rest hacts
  obtain ⟨cur', rest', h1, _, hn, hf, _⟩ := RTrace_cons hR cur rest hacts
  obtain ⟨a, parents, h2, h3, h4⟩ := h cur' rest' h1
  exact ⟨a, parents, h2, by rw [h3, hn], by rw [h4, hn, hf]⟩

/-- one call: the callee's body starts with the new activation on top, the caller carrying the call position -/
theorem StackAt.call {σ σ1 σ2 σl : St} {calls : List (Tok × Str)} (f : Nat) (t : Tok) (ps : List (Str × Ty × Bool)) (args : List Expr)
    (vals : List Val) (cur : Act) (rest' : List Act) (slots : List Slot) (mk : Nat → Act) (nm : Str) (hmk : ∀ i, (mk i).name = nm)
    (hR : RTrace σ σ1) (hcur : σ1.acts = cur :: rest')
    (hbind : (bindParams f t ps args vals []).run.run σ1 = (.ok slots, σ2))
    (h : StackAt (calleeSt mk (setSwitch σ2 cur.id t)) calls σl) : StackAt σ ((t, nm) :: calls) σl := by
  intro cur0 rest0 hacts
  obtain ⟨cur1, rest1, h1, _, hn, hf, _⟩ := RTrace_cons hR cur0 rest0 hacts
  rw [hcur] at h1
  simp only [List.cons.injEq] at h1
  obtain ⟨rfl, rfl⟩ := h1
  obtain ⟨⟨cur', rest'', hacts', _, _, _, _, _, hframes⟩, _⟩ :=
    C11_trace_callee_stack f t ps args vals σ1 σ2 cur rest' slots mk hcur hbind
  obtain ⟨a, parents, h2, h3, h4⟩ := h _ _ hacts'
  refine ⟨a, parents, h2, ?_, ?_⟩
  · rw [h3, hmk]; rfl
  · rw [h4, hmk, hframes, hn, hf]; rfl

/-- the stack at the end is as much deeper as there are calls -/
theorem StackAt.length {σ σl : St} {calls : List (Tok × Str)} (h : StackAt σ calls σl) (hne : σ.acts ≠ []) :
    σl.acts.length = σ.acts.length + calls.length := by
  cases hacts : σ.acts with
  | nil => exact absurd hacts hne
  | cons cur rest =>
    obtain ⟨a, parents, h1, _, h3⟩ := h cur rest hacts
    have := congrArg List.length h3
    rw [chainFrames_length] at this
    simp only [List.length_map] at this
    rw [h1]
    simp only [List.length_cons]
    omega

/-! ## single steps (runs) -/

theorem evalExpr_call' (f : Nat) (t : Tok) (args : List Expr) : evalExpr (f+1) (.call t args) = callFun f t args := by
  rw [evalExpr.eq_def]

theorem evalExpr_assign' (f : Nat) (t : Tok) (r : Ref) (rhs : Expr) :
    evalExpr (f+1) (.assign t r rhs) = (do execAssign f t r rhs; pure .none) := by
  rw [evalExpr.eq_def]

theorem evalArgs_cons' (f : Nat) (e : Expr) (rest : List Expr) (acc : List Val) :
    evalArgs (f+1) (e :: rest) acc = (do let v ← evalExpr f e; evalArgs f rest (v :: acc)) := by
  rw [evalArgs.eq_def]

theorem execStmt_case' (f : Nat) (t sel : Tok) (cls : List Clause) :
    execStmt (f+1) (.case t sel cls) = (do
      tick t
      let v ← evalExpr f (.access sel (.var sel))
      caseClauses f v cls
      pure .none) := by
  rw [execStmt.eq_def]

theorem execStmt_ret' (f : Nat) (t : Tok) (e : Expr) :
    execStmt (f+1) (.ret t e) = (do
      tick t
      let a ← curAct
      if !a.isFn then rtErr t .returnOutside
      else
        let v ← evalExpr f e
        let v' := implicitCast a.retTy v
        modifyAct a.id fun a => { a with retVal := some v' }
        if v'.ty != a.retTy then rtErr t .typeMismatch
        else throw .ret) := by
  rw [execStmt.eq_def]

/-- REPEAT: an iteration that ends normally with the condition false is followed by the next one -/
theorem run_repeat_next (f : Nat) (t : Tok) (b : Block) (c : Expr) (σ σ1 σ2 : St) (hsteps : σ.steps + 1 ≤ σ.stepLimit)
    (hb : (loopBody f b).run.run (tickSt σ) = (.ok false, σ1)) (hc : (evalExpr f c).run.run σ1 = (.ok (.bool false), σ2)) :
    (repeatLoop (f+1) t b c).run.run σ = (repeatLoop f t b c).run.run σ2 := by
  rw [repeatLoop_succ, run_bind_ok _ _ _ _ _ (run_tick_ok t σ hsteps), run_bind_ok _ _ _ _ _ hb]
  simp only [Bool.false_eq_true, if_false]
  rw [run_bind_ok _ _ _ _ _ hc]

/-- FOR: an iteration that ends normally is followed by the increment and the next one -/
theorem run_for_next (f : Nat) (t : Tok) (it : Loc) (stop step i j : Int) (b : Block) (σ σ1 σ2 : St)
    (hit : readLocP σ it = .ok (.int i)) (hin : ((step < 0 && i ≥ stop) || (!(step < 0) && i ≤ stop)) = true)
    (hsteps : σ.steps + 1 ≤ σ.stepLimit) (hb : (loopBody f b).run.run (tickSt σ) = (.ok false, σ1))
    (hit2 : readLocP σ1 it = .ok (.int j)) (hw : (writeLoc t it (.int (wrap64 (j + step)))).run.run σ1 = (.ok ⟨⟩, σ2)) :
    (forLoop (f+1) t it stop step b).run.run σ = (forLoop f t it stop step b).run.run σ2 := by
  rw [forLoop_succ, run_bind_ok _ _ _ _ _ (by rw [run_readLoc, hit])]
  simp only [hin, if_true]
  rw [run_bind_ok _ _ _ _ _ (run_tick_ok t σ hsteps), run_bind_ok _ _ _ _ _ hb]
  simp only [Bool.false_eq_true, if_false]
  rw [run_bind_ok _ _ _ _ _ (by rw [run_readLoc, hit2])]
  simp only []
  rw [run_bind_ok _ _ _ _ _ hw]

theorem run_case_miss (f : Nat) (v : Val) (cl : Clause) (rest : List Clause) (σ σ1 : St)
    (hm : (caseMatch f v cl).run.run σ = (.ok none, σ1)) :
    (caseClauses (f+1) v (cl :: rest)).run.run σ = (caseClauses f v rest).run.run σ1 := by
  rw [caseClauses_cons, run_bind_ok _ _ _ _ _ hm]

theorem run_case_stmt_err (f : Nat) (t sel : Tok) (cls : List Clause) (v : Val) (σ σ1 σ' : St) (e : Stop)
    (hsteps : σ.steps + 1 ≤ σ.stepLimit)
    (hv : (evalExpr f (.access sel (.var sel))).run.run (tickSt σ) = (.ok v, σ1))
    (h : (caseClauses f v cls).run.run σ1 = (.error e, σ')) :
    (execStmt (f+1) (.case t sel cls)).run.run σ = (.error e, σ') := by
  rw [execStmt_case', run_bind_ok _ _ _ _ _ (run_tick_ok t σ hsteps), run_bind_ok _ _ _ _ _ hv]
  exact run_bind_err _ _ _ _ _ h

theorem run_expr_stmt (f : Nat) (e : Expr) (σ : St) (hsteps : σ.steps + 1 ≤ σ.stepLimit) :
    (execStmt (f+1) (.expr e)).run.run σ = (evalExpr f e).run.run (tickSt σ) := by
  rw [execStmt_expr, run_bind_ok _ _ _ _ _ (run_tick_ok e.tok σ hsteps)]

theorem run_assign_err (f : Nat) (t : Tok) (r : Ref) (rhs : Expr) (σ σ' : St) (e : Stop)
    (h : (execAssign f t r rhs).run.run σ = (.error e, σ')) :
    (evalExpr (f+1) (.assign t r rhs)).run.run σ = (.error e, σ') := by
  rw [evalExpr_assign']
  exact run_bind_err _ _ _ _ _ h

theorem run_arith_left_err (f : Nat) (t : Tok) (op : ArOp) (l r : Expr) (σ σ' : St) (e : Stop)
    (h : (evalExpr f l).run.run σ = (.error e, σ')) : (evalExpr (f+1) (.arith t op l r)).run.run σ = (.error e, σ') := by
  rw [evalExpr.eq_def]
  dsimp only
  exact run_bind_err _ _ _ _ _ h

theorem run_arith_right_err (f : Nat) (t : Tok) (op : ArOp) (l r : Expr) (lv : Val) (σ σ1 σ' : St) (e : Stop)
    (hl : (evalExpr f l).run.run σ = (.ok lv, σ1))
    (h : (evalExpr f r).run.run σ1 = (.error e, σ')) : (evalExpr (f+1) (.arith t op l r)).run.run σ = (.error e, σ') := by
  rw [evalExpr.eq_def]
  dsimp only
  rw [run_bind_ok _ _ _ _ _ hl]
  exact run_bind_err _ _ _ _ _ h

theorem run_cmp_left_err (f : Nat) (t : Tok) (op : CmpOp) (l r : Expr) (σ σ' : St) (e : Stop)
    (h : (evalExpr f l).run.run σ = (.error e, σ')) : (evalExpr (f+1) (.cmp t op l r)).run.run σ = (.error e, σ') := by
  rw [evalExpr.eq_def]
  dsimp only
  exact run_bind_err _ _ _ _ _ h

theorem run_cmp_right_err (f : Nat) (t : Tok) (op : CmpOp) (l r : Expr) (lv : Val) (σ σ1 σ' : St) (e : Stop)
    (hl : (evalExpr f l).run.run σ = (.ok lv, σ1))
    (h : (evalExpr f r).run.run σ1 = (.error e, σ')) : (evalExpr (f+1) (.cmp t op l r)).run.run σ = (.error e, σ') := by
  rw [evalExpr.eq_def]
  dsimp only
  rw [run_bind_ok _ _ _ _ _ hl]
  exact run_bind_err _ _ _ _ _ h

theorem run_output_stmt_err (f : Nat) (t : Tok) (es : List Expr) (σ σ' : St) (e : Stop) (hsteps : σ.steps + 1 ≤ σ.stepLimit)
    (h : (outputAll f es).run.run (tickSt σ) = (.error e, σ')) : (execStmt (f+1) (.output t es)).run.run σ = (.error e, σ') := by
  rw [C11TraceAux.execStmt_output, run_bind_ok _ _ _ _ _ (run_tick_ok t σ hsteps)]
  exact run_bind_err _ _ _ _ _ h

theorem run_outputAll_head_err (f : Nat) (e : Expr) (rest : List Expr) (σ σ' : St) (x : Stop)
    (h : (evalExpr f e).run.run σ = (.error x, σ')) : (outputAll (f+1) (e :: rest)).run.run σ = (.error x, σ') := by
  rw [C11TraceAux.outputAll_cons]
  exact run_bind_err _ _ _ _ _ h

/-- the state after a chunk of output -/
def emitSt (σ : St) (s : Str) : St := { σ with out := s :: σ.out }

theorem run_outputAll_next (f : Nat) (e : Expr) (rest : List Expr) (v : Val) (s : Str) (σ σ1 : St)
    (hv : (evalExpr f e).run.run σ = (.ok v, σ1)) (ht : (outputText v).run.run σ1 = (.ok (some s), σ1)) :
    (outputAll (f+1) (e :: rest)).run.run σ = (outputAll f rest).run.run (emitSt σ1 s) := by
  rw [C11TraceAux.outputAll_cons, run_bind_ok _ _ _ _ _ hv, run_bind_ok _ _ _ _ _ ht]
  rfl

theorem run_call_args_err (f : Nat) (t : Tok) (name : Str) (args : List Expr) (pd : ProcDef) (σ σ' : St) (e : Stop)
    (hsteps : σ.steps + 1 ≤ σ.stepLimit) (hpd : σ.procs.find? (·.name == name) = some pd)
    (h : (evalArgs f args []).run.run (tickSt σ) = (.error e, σ')) :
    (execStmt (f+2) (.call t name args)).run.run σ = (.error e, σ') := by
  rw [execStmt_call, run_bind_ok _ _ _ _ _ (run_tick_ok t σ hsteps)]
  apply run_bind_err
  have hpd' : (tickSt σ).procs.find? (·.name == name) = some pd := hpd
  rw [callProc_succ, run_bind_ok _ _ _ _ _ (run_get _), hpd']
  dsimp only
  exact run_bind_err _ _ _ _ _ h

theorem run_callFun_args_err (f : Nat) (t : Tok) (args : List Expr) (fd : FunDef) (σ σ' : St) (e : Stop)
    (hfd : funLookup σ t.val = some fd)
    (h : (evalArgs f args []).run.run σ = (.error e, σ')) :
    (evalExpr (f+2) (.call t args)).run.run σ = (.error e, σ') := by
  rw [evalExpr_call', callFun_succ, run_bind_ok _ _ _ _ _ (run_get _), hfd]
  dsimp only
  exact run_bind_err _ _ _ _ _ h

theorem run_args_head_err (f : Nat) (e : Expr) (rest : List Expr) (acc : List Val) (σ σ' : St) (x : Stop)
    (h : (evalExpr f e).run.run σ = (.error x, σ')) : (evalArgs (f+1) (e :: rest) acc).run.run σ = (.error x, σ') := by
  rw [evalArgs_cons']
  exact run_bind_err _ _ _ _ _ h

theorem run_args_next (f : Nat) (e : Expr) (rest : List Expr) (acc : List Val) (v : Val) (σ σ1 : St)
    (h : (evalExpr f e).run.run σ = (.ok v, σ1)) :
    (evalArgs (f+1) (e :: rest) acc).run.run σ = (evalArgs f rest (v :: acc)).run.run σ1 := by
  rw [evalArgs_cons', run_bind_ok _ _ _ _ _ h]

theorem run_if_cond_err (f : Nat) (t : Tok) (c : Expr) (b : Block) (rest : List (Expr × Block)) (els : Option Block)
    (σ σ' : St) (e : Stop) (h : (evalExpr f c).run.run σ = (.error e, σ')) :
    (ifChain (f+1) t ((c, b) :: rest) els).run.run σ = (.error e, σ') := by
  rw [ifChain_cons]
  exact run_bind_err _ _ _ _ _ h

theorem run_ret_err (f : Nat) (t : Tok) (e : Expr) (a : Act) (r : List Act) (σ σ' : St) (x : Stop)
    (hsteps : σ.steps + 1 ≤ σ.stepLimit) (hacts : σ.acts = a :: r) (hfn : a.isFn = true)
    (h : (evalExpr f e).run.run (tickSt σ) = (.error x, σ')) :
    (execStmt (f+1) (.ret t e)).run.run σ = (.error x, σ') := by
  have hacts' : (tickSt σ).acts = a :: r := hacts
  rw [execStmt_ret', run_bind_ok _ _ _ _ _ (run_tick_ok t σ hsteps), run_bind_ok _ _ _ _ _ (run_curAct_cons _ a r hacts')]
  simp only [hfn, Bool.not_true, Bool.false_eq_true, if_false]
  exact run_bind_err _ _ _ _ _ h


/-- **a prefix that runs normally**: when the block `pre` ends normally from `σ` in `σ1` (fuel `f`), the block
    `pre ++ rest` goes on with `rest` from `σ1` (any statements in `pre`, REPL echo included) -/
theorem run_runBlock_append (rest : Block) : ∀ (pre : Block) (f : Nat) (σ σ1 : St),
    (runBlock f pre).run.run σ = (.ok ⟨⟩, σ1) → ∀ g, f ≤ g →
      (runBlock (g + pre.length) (pre ++ rest)).run.run σ = (runBlock g rest).run.run σ1
  | [], f, σ, σ1, h, g, hg => by
    cases f with
    | zero => rw [runBlock.eq_def] at h; cases h
    | succ f' =>
      rw [runBlock_nil] at h
      cases h
      rfl
  | s :: pre', f, σ, σ1, h, g, hg => by
    cases f with
    | zero => rw [runBlock.eq_def] at h; cases h
    | succ f' =>
      rw [runBlock_cons, run_bind] at h
      rcases hs : (execStmt f' s).run.run σ with ⟨e | v, σ'⟩
      · rw [hs] at h; cases h
      · rw [hs] at h
        dsimp only at h
        have hs' := ok_mono ((fuel_mono_all (by omega : f' ≤ g + pre'.length)).execStmt s) hs
        show (runBlock (g + (pre'.length + 1)) (s :: (pre' ++ rest))).run.run σ = _
        rw [show g + (pre'.length + 1) = g + pre'.length + 1 by omega, runBlock_cons, run_bind_ok _ _ _ _ _ hs',
          run_bind_ok _ _ _ _ _ (run_get σ')]
        rw [run_bind_ok _ _ _ _ _ (run_get σ')] at h
        cases hr : σ'.repl with
        | false =>
          simp only [hr, Bool.false_eq_true, if_false] at h ⊢
          exact run_runBlock_append rest pre' f' σ' σ1 h g (by omega)
        | true =>
          simp only [hr, if_true] at h ⊢
          rw [run_bind] at h
          rcases he : (replEcho v).run.run σ' with ⟨e | u, σ''⟩
          · rw [he] at h; cases h
          · rw [he] at h
            dsimp only at h
            rw [run_bind_ok _ _ _ _ _ he]
            exact run_runBlock_append rest pre' f' σ'' σ1 h g (by omega)

/-! ## the path from a block to the failing statement -/

/-- `Descent N σ c calls σl last` — see the head of this file.  Every hypothesis of the form `(… f …).run.run σ = (.ok …, σ1)` is
    the run of something that is executed, and ends normally, before the step goes down (fuel `f`: any fuel with which
    it ends that way). -/
inductive Descent : Nat → St → Code → List (Tok × Str) → St → Block → Prop
  /-- arrived: the block that fails -/
  | here (σ : St) (b : Block) : Descent 0 σ (.block b) [] σ b
  /-- a block: the first statement ends normally (statements proper end with the value NONE; outside the REPL any value
      will do), the path goes on in the rest -/
  | seq {N : Nat} {calls : List (Tok × Str)} {σl : St} {last : Block} (f : Nat) (s : Stmt) (rest : Block) (v : Val) (σ σ1 : St) :
      (execStmt f s).run.run σ = (.ok v, σ1) → (v = .none ∨ σ1.repl = false) →
      Descent N σ1 (.block rest) calls σl last → Descent (N + f + 1) σ (.block (s :: rest)) calls σl last
  /-- a block `pre ++ rest`: the statements `pre` end normally (any statements, any state change), the path goes on in
      `rest` -/
  | pre {N : Nat} {calls : List (Tok × Str)} {σl : St} {last : Block} (f : Nat) (pre rest : Block) (σ σ1 : St) :
      (runBlock f pre).run.run σ = (.ok ⟨⟩, σ1) →
      Descent N σ1 (.block rest) calls σl last → Descent (N + f + pre.length) σ (.block (pre ++ rest)) calls σl last
  /-- a block: the path goes into the first statement -/
  | head {N : Nat} {calls : List (Tok × Str)} {σl : St} {last : Block} (s : Stmt) (rest : Block) (σ : St) :
      Descent N σ (.stmt s) calls σl last → Descent (N + 1) σ (.block (s :: rest)) calls σl last
  /-- `CALL name(args)` of a procedure with any parameters: the arguments are evaluated (`σ1`), arity and depth are fine,
      the parameters are bound (`σ2`); the path goes on in the body of the procedure -/
  | call {N : Nat} {calls : List (Tok × Str)} {σl : St} {last : Block} (f : Nat) (t : Tok) (name : Str) (args : List Expr)
      (σ σ1 σ2 : St) (pd : ProcDef) (vals : List Val) (cur : Act) (rest : List Act) (slots : List Slot) :
      σ.steps + 1 ≤ σ.stepLimit → σ.procs.find? (·.name == name) = some pd →
      (evalArgs f args []).run.run (tickSt σ) = (.ok vals, σ1) → vals.length = pd.params.length →
      σ1.depth + 1 ≤ σ1.depthLimit → σ1.acts = cur :: rest →
      (bindParams f t pd.params args vals []).run.run σ1 = (.ok slots, σ2) →
      Descent N (calleeSt (procAct pd slots) (setSwitch σ2 cur.id t)) (.block pd.body) calls σl last →
      Descent (N + f + 2) σ (.stmt (.call t name args)) ((t, pd.name) :: calls) σl last
  /-- a call `name(args)` of a user-defined function inside an expression -/
  | callF {N : Nat} {calls : List (Tok × Str)} {σl : St} {last : Block} (f : Nat) (t : Tok) (args : List Expr)
      (σ σ1 σ2 : St) (fd : FunDef) (body : Block) (defTok : Tok) (vals : List Val) (cur : Act) (rest : List Act) (slots : List Slot) :
      funLookup σ t.val = some fd → fd.body = .user body defTok →
      (evalArgs f args []).run.run σ = (.ok vals, σ1) → vals.length = fd.params.length →
      σ1.depth + 1 ≤ σ1.depthLimit → σ1.acts = cur :: rest →
      (bindParams f t fd.params args vals []).run.run σ1 = (.ok slots, σ2) →
      Descent N (calleeSt (funAct fd slots) (setSwitch σ2 cur.id t)) (.block body) calls σl last →
      Descent (N + f + 2) σ (.expr (.call t args)) ((t, fd.name) :: calls) σl last
  /-- IF statement -/
  | ifS {N : Nat} {calls : List (Tok × Str)} {σl : St} {last : Block} (t : Tok) (bs : List (Expr × Block)) (els : Option Block) (σ : St) :
      σ.steps + 1 ≤ σ.stepLimit → Descent N (tickSt σ) (.ifChain t bs els) calls σl last →
      Descent (N + 1) σ (.stmt (.ifs t bs els)) calls σl last
  /-- the condition is true: into the branch -/
  | ifTrue {N : Nat} {calls : List (Tok × Str)} {σl : St} {last : Block} (f : Nat) (t : Tok) (c : Expr) (b : Block)
      (rest : List (Expr × Block)) (els : Option Block) (σ σ1 : St) :
      (evalExpr f c).run.run σ = (.ok (.bool true), σ1) → Descent N σ1 (.block b) calls σl last →
      Descent (N + f + 1) σ (.ifChain t ((c, b) :: rest) els) calls σl last
  /-- the condition is false: on to the remaining branches -/
  | ifFalse {N : Nat} {calls : List (Tok × Str)} {σl : St} {last : Block} (f : Nat) (t : Tok) (c : Expr) (b : Block)
      (rest : List (Expr × Block)) (els : Option Block) (σ σ1 : St) :
      (evalExpr f c).run.run σ = (.ok (.bool false), σ1) → Descent N σ1 (.ifChain t rest els) calls σl last →
      Descent (N + f + 1) σ (.ifChain t ((c, b) :: rest) els) calls σl last
  /-- the ELSE branch -/
  | ifElse {N : Nat} {calls : List (Tok × Str)} {σl : St} {last : Block} (t : Tok) (b : Block) (σ : St) :
      Descent N σ (.block b) calls σl last → Descent (N + 1) σ (.ifChain t [] (some b)) calls σl last
  /-- the condition of an IF branch contains the call -/
  | ifCond {N : Nat} {calls : List (Tok × Str)} {σl : St} {last : Block} (t : Tok) (c : Expr) (b : Block)
      (rest : List (Expr × Block)) (els : Option Block) (σ : St) :
      Descent N σ (.expr c) calls σl last → Descent (N + 1) σ (.ifChain t ((c, b) :: rest) els) calls σl last
  /-- WHILE statement -/
  | whileS {N : Nat} {calls : List (Tok × Str)} {σl : St} {last : Block} (t : Tok) (c : Expr) (b : Block) (σ : St) :
      σ.steps + 1 ≤ σ.stepLimit → Descent N (tickSt σ) (.whileLoop t c b) calls σl last →
      Descent (N + 1) σ (.stmt (.while t c b)) calls σl last
  /-- WHILE: this iteration -/
  | whileBody {N : Nat} {calls : List (Tok × Str)} {σl : St} {last : Block} (f : Nat) (t : Tok) (c : Expr) (b : Block) (σ σ1 : St) :
      σ.steps + 1 ≤ σ.stepLimit → (evalExpr f c).run.run (tickSt σ) = (.ok (.bool true), σ1) →
      Descent N σ1 (.loopBody b) calls σl last → Descent (N + f + 1) σ (.whileLoop t c b) calls σl last
  /-- WHILE: this iteration ends normally (no BREAK), a later one -/
  | whileNext {N : Nat} {calls : List (Tok × Str)} {σl : St} {last : Block} (f : Nat) (t : Tok) (c : Expr) (b : Block) (σ σ1 σ2 : St) :
      σ.steps + 1 ≤ σ.stepLimit → (evalExpr f c).run.run (tickSt σ) = (.ok (.bool true), σ1) →
      (loopBody f b).run.run σ1 = (.ok false, σ2) →
      Descent N σ2 (.whileLoop t c b) calls σl last → Descent (N + f + 1) σ (.whileLoop t c b) calls σl last
  /-- the body of a loop -/
  | loopBody {N : Nat} {calls : List (Tok × Str)} {σl : St} {last : Block} (b : Block) (σ : St) :
      Descent N σ (.block b) calls σl last → Descent (N + 1) σ (.loopBody b) calls σl last
  /-- REPEAT statement -/
  | repeatS {N : Nat} {calls : List (Tok × Str)} {σl : St} {last : Block} (t : Tok) (b : Block) (c : Expr) (σ : St) :
      σ.steps + 1 ≤ σ.stepLimit → Descent N (tickSt σ) (.repeatLoop t b c) calls σl last →
      Descent (N + 1) σ (.stmt (.repeat t b c)) calls σl last
  /-- REPEAT: this iteration -/
  | repeatBody {N : Nat} {calls : List (Tok × Str)} {σl : St} {last : Block} (t : Tok) (b : Block) (c : Expr) (σ : St) :
      σ.steps + 1 ≤ σ.stepLimit → Descent N (tickSt σ) (.loopBody b) calls σl last →
      Descent (N + 1) σ (.repeatLoop t b c) calls σl last
  /-- REPEAT: this iteration ends normally, the condition is false; a later one -/
  | repeatNext {N : Nat} {calls : List (Tok × Str)} {σl : St} {last : Block} (f : Nat) (t : Tok) (b : Block) (c : Expr) (σ σ1 σ2 : St) :
      σ.steps + 1 ≤ σ.stepLimit → (Pseudo.loopBody f b).run.run (tickSt σ) = (.ok false, σ1) →
      (evalExpr f c).run.run σ1 = (.ok (.bool false), σ2) →
      Descent N σ2 (.repeatLoop t b c) calls σl last → Descent (N + f + 1) σ (.repeatLoop t b c) calls σl last
  /-- FOR (the iterations; `it`: the iterator's cell): this iteration -/
  | forBody {N : Nat} {calls : List (Tok × Str)} {σl : St} {last : Block} (t : Tok) (it : Loc) (stop step i : Int) (b : Block) (σ : St) :
      readLocP σ it = .ok (.int i) → ((step < 0 && i ≥ stop) || (!(step < 0) && i ≤ stop)) = true →
      σ.steps + 1 ≤ σ.stepLimit → Descent N (tickSt σ) (.loopBody b) calls σl last →
      Descent (N + 1) σ (.forLoop t it stop step b) calls σl last
  /-- FOR: this iteration ends normally, the iterator is incremented; a later one -/
  | forNext {N : Nat} {calls : List (Tok × Str)} {σl : St} {last : Block} (f : Nat) (t : Tok) (it : Loc) (stop step i j : Int)
      (b : Block) (σ σ1 σ2 : St) :
      readLocP σ it = .ok (.int i) → ((step < 0 && i ≥ stop) || (!(step < 0) && i ≤ stop)) = true →
      σ.steps + 1 ≤ σ.stepLimit → (Pseudo.loopBody f b).run.run (tickSt σ) = (.ok false, σ1) →
      readLocP σ1 it = .ok (.int j) → (writeLoc t it (.int (wrap64 (j + step)))).run.run σ1 = (.ok ⟨⟩, σ2) →
      Descent N σ2 (.forLoop t it stop step b) calls σl last → Descent (N + f + 1) σ (.forLoop t it stop step b) calls σl last
  /-- CASE statement: the selector is read -/
  | caseS {N : Nat} {calls : List (Tok × Str)} {σl : St} {last : Block} (f : Nat) (t sel : Tok) (cls : List Clause) (v : Val) (σ σ1 : St) :
      σ.steps + 1 ≤ σ.stepLimit → (evalExpr f (.access sel (.var sel))).run.run (tickSt σ) = (.ok v, σ1) →
      Descent N σ1 (.caseClauses v cls) calls σl last → Descent (N + f + 1) σ (.stmt (.case t sel cls)) calls σl last
  /-- CASE: this clause matches -/
  | caseHit {N : Nat} {calls : List (Tok × Str)} {σl : St} {last : Block} (f : Nat) (v : Val) (cl : Clause) (rest : List Clause)
      (b : Block) (σ σ1 : St) :
      (caseMatch f v cl).run.run σ = (.ok (some b), σ1) → Descent N σ1 (.block b) calls σl last →
      Descent (N + f + 1) σ (.caseClauses v (cl :: rest)) calls σl last
  /-- CASE: this clause does not match -/
  | caseMiss {N : Nat} {calls : List (Tok × Str)} {σl : St} {last : Block} (f : Nat) (v : Val) (cl : Clause) (rest : List Clause)
      (σ σ1 : St) :
      (caseMatch f v cl).run.run σ = (.ok none, σ1) → Descent N σ1 (.caseClauses v rest) calls σl last →
      Descent (N + f + 1) σ (.caseClauses v (cl :: rest)) calls σl last
  /-- an expression statement (an assignment, a bare call) -/
  | exprS {N : Nat} {calls : List (Tok × Str)} {σl : St} {last : Block} (e : Expr) (σ : St) :
      σ.steps + 1 ≤ σ.stepLimit → Descent N (tickSt σ) (.expr e) calls σl last → Descent (N + 1) σ (.stmt (.expr e)) calls σl last
  /-- the right-hand side of an assignment contains the call (`calls ≠ []`: the diagnostic comes from a callee, so the
      handler around the right-hand side passes it on) -/
  | assignRhs {N : Nat} {calls : List (Tok × Str)} {σl : St} {last : Block} (t : Tok) (r : Ref) (rhs : Expr) (cur : Act)
      (rest : List Act) (σ : St) :
      calls ≠ [] → σ.acts = cur :: rest →
      Descent N σ (.expr rhs) calls σl last → Descent (N + 2) σ (.expr (.assign t r rhs)) calls σl last
  /-- operands of an arithmetic operator -/
  | arithL {N : Nat} {calls : List (Tok × Str)} {σl : St} {last : Block} (t : Tok) (op : ArOp) (l r : Expr) (σ : St) :
      Descent N σ (.expr l) calls σl last → Descent (N + 1) σ (.expr (.arith t op l r)) calls σl last
  | arithR {N : Nat} {calls : List (Tok × Str)} {σl : St} {last : Block} (f : Nat) (t : Tok) (op : ArOp) (l r : Expr) (lv : Val) (σ σ1 : St) :
      (evalExpr f l).run.run σ = (.ok lv, σ1) → Descent N σ1 (.expr r) calls σl last →
      Descent (N + f + 1) σ (.expr (.arith t op l r)) calls σl last
  /-- operands of a comparison -/
  | cmpL {N : Nat} {calls : List (Tok × Str)} {σl : St} {last : Block} (t : Tok) (op : CmpOp) (l r : Expr) (σ : St) :
      Descent N σ (.expr l) calls σl last → Descent (N + 1) σ (.expr (.cmp t op l r)) calls σl last
  | cmpR {N : Nat} {calls : List (Tok × Str)} {σl : St} {last : Block} (f : Nat) (t : Tok) (op : CmpOp) (l r : Expr) (lv : Val) (σ σ1 : St) :
      (evalExpr f l).run.run σ = (.ok lv, σ1) → Descent N σ1 (.expr r) calls σl last →
      Descent (N + f + 1) σ (.expr (.cmp t op l r)) calls σl last
  /-- OUTPUT statement -/
  | outputS {N : Nat} {calls : List (Tok × Str)} {σl : St} {last : Block} (t : Tok) (es : List Expr) (σ : St) :
      σ.steps + 1 ≤ σ.stepLimit → Descent N (tickSt σ) (.outputAll es) calls σl last →
      Descent (N + 1) σ (.stmt (.output t es)) calls σl last
  | outHead {N : Nat} {calls : List (Tok × Str)} {σl : St} {last : Block} (e : Expr) (rest : List Expr) (σ : St) :
      Descent N σ (.expr e) calls σl last → Descent (N + 1) σ (.outputAll (e :: rest)) calls σl last
  | outNext {N : Nat} {calls : List (Tok × Str)} {σl : St} {last : Block} (f : Nat) (e : Expr) (rest : List Expr) (v : Val) (s : Str)
      (σ σ1 : St) :
      (evalExpr f e).run.run σ = (.ok v, σ1) → (outputText v).run.run σ1 = (.ok (some s), σ1) →
      Descent N (emitSt σ1 s) (.outputAll rest) calls σl last → Descent (N + f + 1) σ (.outputAll (e :: rest)) calls σl last
  /-- the arguments of a `CALL` contain the call -/
  | callArgs {N : Nat} {calls : List (Tok × Str)} {σl : St} {last : Block} (t : Tok) (name : Str) (args : List Expr) (pd : ProcDef) (σ : St) :
      σ.steps + 1 ≤ σ.stepLimit → σ.procs.find? (·.name == name) = some pd →
      Descent N (tickSt σ) (.args args []) calls σl last → Descent (N + 2) σ (.stmt (.call t name args)) calls σl last
  /-- the arguments of a function call contain the call -/
  | callFArgs {N : Nat} {calls : List (Tok × Str)} {σl : St} {last : Block} (t : Tok) (args : List Expr) (fd : FunDef) (σ : St) :
      funLookup σ t.val = some fd →
      Descent N σ (.args args []) calls σl last → Descent (N + 2) σ (.expr (.call t args)) calls σl last
  | argHead {N : Nat} {calls : List (Tok × Str)} {σl : St} {last : Block} (e : Expr) (rest : List Expr) (acc : List Val) (σ : St) :
      Descent N σ (.expr e) calls σl last → Descent (N + 1) σ (.args (e :: rest) acc) calls σl last
  | argNext {N : Nat} {calls : List (Tok × Str)} {σl : St} {last : Block} (f : Nat) (e : Expr) (rest : List Expr) (acc : List Val)
      (v : Val) (σ σ1 : St) :
      (evalExpr f e).run.run σ = (.ok v, σ1) → Descent N σ1 (.args rest (v :: acc)) calls σl last →
      Descent (N + f + 1) σ (.args (e :: rest) acc) calls σl last
  /-- `RETURN e` inside a function: `e` contains the call -/
  | retS {N : Nat} {calls : List (Tok × Str)} {σl : St} {last : Block} (t : Tok) (e : Expr) (a : Act) (r : List Act) (σ : St) :
      σ.steps + 1 ≤ σ.stepLimit → σ.acts = a :: r → a.isFn = true →
      Descent N (tickSt σ) (.expr e) calls σl last → Descent (N + 1) σ (.stmt (.ret t e)) calls σl last

theorem RTrace_emitSt (σ : St) (s : Str) : RTrace σ (emitSt σ s) := ⟨rfl, rfl⟩

theorem RTrace_writeLoc {t : Tok} {l : Loc} {v : Val} {σ σ' : St} {r : Except Stop Unit}
    (h : (writeLoc t l v).run.run σ = (r, σ')) : RTrace σ σ' :=
  RTrace_of_run (tr_writeLoc (Q := fun _ => True) t l v) h

/-- **the stack at the end of a path** -/
theorem Descent.acts {N : Nat} {σ : St} {c : Code} {calls : List (Tok × Str)} {σl : St} {last : Block}
    (h : Descent N σ c calls σl last) : StackAt σ calls σl := by
  induction h with
  | here σ b => exact StackAt.refl σ
  | seq f s rest v σ σ1 hs _ _ ih => exact ih.step (RTrace_execStmt hs)
  | pre f pre rest σ σ1 hp _ ih => exact ih.step (RTrace_of_run ((trace_all f).runBlock pre) hp)
  | head s rest σ _ ih => exact ih
  | call f t name args σ σ1 σ2 pd vals cur rest slots _ _ hargs _ _ hcur hbind _ ih =>
    exact StackAt.call f t pd.params args vals cur rest slots (procAct pd slots) pd.name (fun _ => rfl)
      (RPre.trans (RTrace_tickSt σ) (RTrace_evalArgs hargs)) hcur hbind ih
  | callF f t args σ σ1 σ2 fd body defTok vals cur rest slots _ _ hargs _ _ hcur hbind _ ih =>
    exact StackAt.call f t fd.params args vals cur rest slots (funAct fd slots) fd.name (fun _ => rfl)
      (RTrace_evalArgs hargs) hcur hbind ih
  | ifS t bs els σ _ _ ih => exact ih.step (RTrace_tickSt σ)
  | ifTrue f t c b rest els σ σ1 hc _ ih => exact ih.step (RTrace_evalExpr hc)
  | ifFalse f t c b rest els σ σ1 hc _ ih => exact ih.step (RTrace_evalExpr hc)
  | ifElse t b σ _ ih => exact ih
  | ifCond t c b rest els σ _ ih => exact ih
  | whileS t c b σ _ _ ih => exact ih.step (RTrace_tickSt σ)
  | whileBody f t c b σ σ1 _ hc _ ih => exact ih.step (RPre.trans (RTrace_tickSt σ) (RTrace_evalExpr hc))
  | whileNext f t c b σ σ1 σ2 _ hc hb _ ih =>
    exact ih.step (RPre.trans (RPre.trans (RTrace_tickSt σ) (RTrace_evalExpr hc)) (RTrace_loopBody hb))
  | loopBody b σ _ ih => exact ih
  | repeatS t b c σ _ _ ih => exact ih.step (RTrace_tickSt σ)
  | repeatBody t b c σ _ _ ih => exact ih.step (RTrace_tickSt σ)
  | repeatNext f t b c σ σ1 σ2 _ hb hc _ ih =>
    exact ih.step (RPre.trans (RPre.trans (RTrace_tickSt σ) (RTrace_loopBody hb)) (RTrace_evalExpr hc))
  | forBody t it stop step i b σ _ _ _ _ ih => exact ih.step (RTrace_tickSt σ)
  | forNext f t it stop step i j b σ σ1 σ2 _ _ _ hb _ hw _ ih =>
    exact ih.step (RPre.trans (RPre.trans (RTrace_tickSt σ) (RTrace_loopBody hb)) (RTrace_writeLoc hw))
  | caseS f t sel cls v σ σ1 _ hv _ ih => exact ih.step (RPre.trans (RTrace_tickSt σ) (RTrace_evalExpr hv))
  | caseHit f v cl rest b σ σ1 hm _ ih => exact ih.step (RTrace_caseMatch hm)
  | caseMiss f v cl rest σ σ1 hm _ ih => exact ih.step (RTrace_caseMatch hm)
  | exprS e σ _ _ ih => exact ih.step (RTrace_tickSt σ)
  | assignRhs t r rhs cur rest σ _ _ _ ih => exact ih
  | arithL t op l r σ _ ih => exact ih
  | arithR f t op l r lv σ σ1 hl _ ih => exact ih.step (RTrace_evalExpr hl)
  | cmpL t op l r σ _ ih => exact ih
  | cmpR f t op l r lv σ σ1 hl _ ih => exact ih.step (RTrace_evalExpr hl)
  | outputS t es σ _ _ ih => exact ih.step (RTrace_tickSt σ)
  | outHead e rest σ _ ih => exact ih
  | outNext f e rest v s σ σ1 hv _ _ ih => exact ih.step (RPre.trans (RTrace_evalExpr hv) (RTrace_emitSt σ1 s))
  | callArgs t name args pd σ _ _ _ ih => exact ih.step (RTrace_tickSt σ)
  | callFArgs t args fd σ _ _ ih => exact ih
  | argHead e rest acc σ _ ih => exact ih
  | argNext f e rest acc v σ σ1 hv _ ih => exact ih.step (RTrace_evalExpr hv)
  | retS t e a r σ _ _ _ _ ih => exact ih.step (RTrace_tickSt σ)


/-- **a diagnostic with which the block at the end of the path ends is the diagnostic with which the code at its start
    ends** (fuel: that of `last` plus `N`).  `hdeep`: the traceback has at least one frame per activation of the stack in
    which `last` starts (true of every runtime diagnostic raised there or deeper) — this is what lets it pass the handler
    around the right-hand side of an assignment. -/
theorem Descent.sound {N : Nat} {σ : St} {c : Code} {calls : List (Tok × Str)} {σl : St} {last : Block}
    (h : Descent N σ c calls σl last) :
    ∀ (F : Nat) (d : Diag), errOf (runBlock F last) σl = some (.diag d) → σl.acts.length ≤ d.trace.length →
      c.err (F + N) σ = some (.diag d) := by
  induction h with
  | here σ b => intro F d h _; exact h
  | @seq N calls σl last f s rest v σ σ1 hs hv hD ih =>
    intro F d h hd
    have ih' : errOf (runBlock (F + N + f) rest) σ1 = some (.diag d) :=
      Code.err_mono (.block rest) (g := F + N + f) (by omega) (ih F d h hd)
    obtain ⟨σ', hr⟩ := run_of_errOf ih'
    have hs' := ok_mono ((fuel_mono_all (by omega : f ≤ F + N + f)).execStmt s) hs
    show errOf (runBlock (F + (N + f + 1)) (s :: rest)) σ = _
    rw [show F + (N + f + 1) = F + N + f + 1 by omega]
    exact errOf_of_run (C11_trace_propagates_runBlock_tail _ s rest v σ σ1 σ' d hs' hv hr)
  | @pre N calls σl last f pre rest σ σ1 hp hD ih =>
    intro F d h hd
    have ih' : errOf (runBlock (F + N + f) rest) σ1 = some (.diag d) :=
      Code.err_mono (.block rest) (g := F + N + f) (by omega) (ih F d h hd)
    show errOf (runBlock (F + (N + f + pre.length)) (pre ++ rest)) σ = _
    rw [show F + (N + f + pre.length) = F + N + f + pre.length by omega]
    unfold errOf
    rw [run_runBlock_append rest pre f σ σ1 hp (F + N + f) (by omega)]
    exact ih'
  | @head N calls σl last s rest σ hD ih =>
    intro F d h hd
    obtain ⟨σ', hr⟩ := run_of_errOf (show errOf (execStmt (F + N) s) σ = some (.diag d) from ih F d h hd)
    show errOf (runBlock (F + (N + 1)) (s :: rest)) σ = _
    rw [show F + (N + 1) = F + N + 1 by omega]
    exact errOf_of_run (C11_trace_propagates_runBlock_head _ s rest σ σ' d hr)
  | @call N calls σl last f t name args σ σ1 σ2 pd vals cur rest slots hsteps hpd hargs hlen hdepth hcur hbind hD ih =>
    intro F d h hd
    have ih' : errOf (runBlock (F + N + f) pd.body) (calleeSt (procAct pd slots) (setSwitch σ2 cur.id t)) = some (.diag d) :=
      Code.err_mono (.block pd.body) (g := F + N + f) (by omega) (ih F d h hd)
    obtain ⟨σ4, hr⟩ := run_of_errOf ih'
    have hm := fuel_mono_all (by omega : f ≤ F + N + f)
    have hargs' := ok_mono (hm.evalArgs args []) hargs
    have hbind' := ok_mono (hm.bindParams t pd.params args vals []) hbind
    have hpd' : (tickSt σ).procs.find? (·.name == name) = some pd := hpd
    show errOf (execStmt (F + (N + f + 2)) (.call t name args)) σ = _
    rw [show F + (N + f + 2) = F + N + f + 1 + 1 by omega]
    exact errOf_of_run (C11_trace_propagates_stmt_call _ t name args σ _ d hsteps
      (C11_trace_propagates_callProc _ t name args (tickSt σ) σ1 σ2 σ4 pd vals cur rest slots d hpd' hargs' hlen hdepth hcur hbind' hr))
  | @callF N calls σl last f t args σ σ1 σ2 fd body defTok vals cur rest slots hfd hbody hargs hlen hdepth hcur hbind hD ih =>
    intro F d h hd
    have ih' : errOf (runBlock (F + N + f) body) (calleeSt (funAct fd slots) (setSwitch σ2 cur.id t)) = some (.diag d) :=
      Code.err_mono (.block body) (g := F + N + f) (by omega) (ih F d h hd)
    obtain ⟨σ4, hr⟩ := run_of_errOf ih'
    have hm := fuel_mono_all (by omega : f ≤ F + N + f)
    have hargs' := ok_mono (hm.evalArgs args []) hargs
    have hbind' := ok_mono (hm.bindParams t fd.params args vals []) hbind
    show errOf (evalExpr (F + (N + f + 2)) (.call t args)) σ = _
    rw [show F + (N + f + 2) = F + N + f + 1 + 1 by omega, evalExpr_call']
    exact errOf_of_run (C11_trace_propagates_callFun _ t args σ σ1 σ2 σ4 fd body defTok vals cur rest slots d hfd hbody
      hargs' hlen hdepth hcur hbind' hr)
  | @ifS N calls σl last t bs els σ hsteps hD ih =>
    intro F d h hd
    obtain ⟨σ', hr⟩ := run_of_errOf (show errOf (ifChain (F + N) t bs els) (tickSt σ) = some (.diag d) from ih F d h hd)
    show errOf (execStmt (F + (N + 1)) (.ifs t bs els)) σ = _
    rw [show F + (N + 1) = F + N + 1 by omega]
    exact errOf_of_run ((C11_trace_propagates_stmt_wrappers _ t σ σ' d hsteps).1 bs els hr)
  | @ifTrue N calls σl last f t c b rest els σ σ1 hc hD ih =>
    intro F d h hd
    have ih' : errOf (runBlock (F + N + f) b) σ1 = some (.diag d) :=
      Code.err_mono (.block b) (g := F + N + f) (by omega) (ih F d h hd)
    obtain ⟨σ', hr⟩ := run_of_errOf ih'
    have hc' := ok_mono ((fuel_mono_all (by omega : f ≤ F + N + f)).evalExpr c) hc
    show errOf (ifChain (F + (N + f + 1)) t ((c, b) :: rest) els) σ = _
    rw [show F + (N + f + 1) = F + N + f + 1 by omega]
    exact errOf_of_run (C11_trace_propagates_if _ t c b rest els σ σ1 σ' d hc' hr)
  | @ifFalse N calls σl last f t c b rest els σ σ1 hc hD ih =>
    intro F d h hd
    have ih' : errOf (ifChain (F + N + f) t rest els) σ1 = some (.diag d) :=
      Code.err_mono (.ifChain t rest els) (g := F + N + f) (by omega) (ih F d h hd)
    obtain ⟨σ', hr⟩ := run_of_errOf ih'
    have hc' := ok_mono ((fuel_mono_all (by omega : f ≤ F + N + f)).evalExpr c) hc
    show errOf (ifChain (F + (N + f + 1)) t ((c, b) :: rest) els) σ = _
    rw [show F + (N + f + 1) = F + N + f + 1 by omega]
    exact errOf_of_run ((C11_trace_if_next _ t c b rest els σ σ1 hc').trans hr)
  | @ifElse N calls σl last t b σ hD ih =>
    intro F d h hd
    show errOf (ifChain (F + (N + 1)) t [] (some b)) σ = _
    rw [show F + (N + 1) = F + N + 1 by omega, C11_trace_if_else]
    exact ih F d h hd
  | @ifCond N calls σl last t c b rest els σ hD ih =>
    intro F d h hd
    obtain ⟨σ', hr⟩ := run_of_errOf (show errOf (evalExpr (F + N) c) σ = some (.diag d) from ih F d h hd)
    show errOf (ifChain (F + (N + 1)) t ((c, b) :: rest) els) σ = _
    rw [show F + (N + 1) = F + N + 1 by omega]
    exact errOf_of_run (run_if_cond_err _ t c b rest els σ σ' _ hr)
  | @whileS N calls σl last t c b σ hsteps hD ih =>
    intro F d h hd
    obtain ⟨σ', hr⟩ := run_of_errOf (show errOf (whileLoop (F + N) t c b) (tickSt σ) = some (.diag d) from ih F d h hd)
    show errOf (execStmt (F + (N + 1)) (.while t c b)) σ = _
    rw [show F + (N + 1) = F + N + 1 by omega]
    exact errOf_of_run ((C11_trace_propagates_stmt_wrappers _ t σ σ' d hsteps).2.1 c b hr)
  | @whileBody N calls σl last f t c b σ σ1 hsteps hc hD ih =>
    intro F d h hd
    have ih' : errOf (Pseudo.loopBody (F + N + f) b) σ1 = some (.diag d) :=
      Code.err_mono (.loopBody b) (g := F + N + f) (by omega) (ih F d h hd)
    obtain ⟨σ', hr⟩ := run_of_errOf ih'
    have hc' := ok_mono ((fuel_mono_all (by omega : f ≤ F + N + f)).evalExpr c) hc
    show errOf (whileLoop (F + (N + f + 1)) t c b) σ = _
    rw [show F + (N + f + 1) = F + N + f + 1 by omega]
    exact errOf_of_run (C11_trace_propagates_while _ t c b σ σ1 σ' d hsteps hc' hr)
  | @whileNext N calls σl last f t c b σ σ1 σ2 hsteps hc hb hD ih =>
    intro F d h hd
    have ih' : errOf (whileLoop (F + N + f) t c b) σ2 = some (.diag d) :=
      Code.err_mono (.whileLoop t c b) (g := F + N + f) (by omega) (ih F d h hd)
    obtain ⟨σ', hr⟩ := run_of_errOf ih'
    have hm := fuel_mono_all (by omega : f ≤ F + N + f)
    have hc' := ok_mono (hm.evalExpr c) hc
    have hb' := ok_mono (hm.loopBody b) hb
    show errOf (whileLoop (F + (N + f + 1)) t c b) σ = _
    rw [show F + (N + f + 1) = F + N + f + 1 by omega]
    exact errOf_of_run ((C11_trace_while_next _ t c b σ σ1 σ2 hsteps hc' hb').trans hr)
  | @loopBody N calls σl last b σ hD ih =>
    intro F d h hd
    obtain ⟨σ', hr⟩ := run_of_errOf (show errOf (runBlock (F + N) b) σ = some (.diag d) from ih F d h hd)
    show errOf (Pseudo.loopBody (F + (N + 1)) b) σ = _
    rw [show F + (N + 1) = F + N + 1 by omega]
    exact errOf_of_run (C11_trace_propagates_loopBody _ b σ σ' d hr)
  | @repeatS N calls σl last t b c σ hsteps hD ih =>
    intro F d h hd
    obtain ⟨σ', hr⟩ := run_of_errOf (show errOf (repeatLoop (F + N) t b c) (tickSt σ) = some (.diag d) from ih F d h hd)
    show errOf (execStmt (F + (N + 1)) (.repeat t b c)) σ = _
    rw [show F + (N + 1) = F + N + 1 by omega]
    exact errOf_of_run ((C11_trace_propagates_stmt_wrappers _ t σ σ' d hsteps).2.2 b c hr)
  | @repeatBody N calls σl last t b c σ hsteps hD ih =>
    intro F d h hd
    obtain ⟨σ', hr⟩ := run_of_errOf (show errOf (Pseudo.loopBody (F + N) b) (tickSt σ) = some (.diag d) from ih F d h hd)
    show errOf (repeatLoop (F + (N + 1)) t b c) σ = _
    rw [show F + (N + 1) = F + N + 1 by omega]
    exact errOf_of_run (C11_trace_propagates_repeat _ t b c σ σ' d hsteps hr)
  | @repeatNext N calls σl last f t b c σ σ1 σ2 hsteps hb hc hD ih =>
    intro F d h hd
    have ih' : errOf (repeatLoop (F + N + f) t b c) σ2 = some (.diag d) :=
      Code.err_mono (.repeatLoop t b c) (g := F + N + f) (by omega) (ih F d h hd)
    obtain ⟨σ', hr⟩ := run_of_errOf ih'
    have hm := fuel_mono_all (by omega : f ≤ F + N + f)
    have hc' := ok_mono (hm.evalExpr c) hc
    have hb' := ok_mono (hm.loopBody b) hb
    show errOf (repeatLoop (F + (N + f + 1)) t b c) σ = _
    rw [show F + (N + f + 1) = F + N + f + 1 by omega]
    exact errOf_of_run ((run_repeat_next _ t b c σ σ1 σ2 hsteps hb' hc').trans hr)
  | @forBody N calls σl last t it stop step i b σ hit hin hsteps hD ih =>
    intro F d h hd
    obtain ⟨σ', hr⟩ := run_of_errOf (show errOf (Pseudo.loopBody (F + N) b) (tickSt σ) = some (.diag d) from ih F d h hd)
    show errOf (forLoop (F + (N + 1)) t it stop step b) σ = _
    rw [show F + (N + 1) = F + N + 1 by omega]
    exact errOf_of_run (C11_trace_propagates_for _ t it stop step i b σ σ' d hit hin hsteps hr)
  | @forNext N calls σl last f t it stop step i j b σ σ1 σ2 hit hin hsteps hb hit2 hw hD ih =>
    intro F d h hd
    have ih' : errOf (forLoop (F + N + f) t it stop step b) σ2 = some (.diag d) :=
      Code.err_mono (.forLoop t it stop step b) (g := F + N + f) (by omega) (ih F d h hd)
    obtain ⟨σ', hr⟩ := run_of_errOf ih'
    have hb' := ok_mono ((fuel_mono_all (by omega : f ≤ F + N + f)).loopBody b) hb
    show errOf (forLoop (F + (N + f + 1)) t it stop step b) σ = _
    rw [show F + (N + f + 1) = F + N + f + 1 by omega]
    exact errOf_of_run ((run_for_next _ t it stop step i j b σ σ1 σ2 hit hin hsteps hb' hit2 hw).trans hr)
  | @caseS N calls σl last f t sel cls v σ σ1 hsteps hv hD ih =>
    intro F d h hd
    have ih' : errOf (caseClauses (F + N + f) v cls) σ1 = some (.diag d) :=
      Code.err_mono (.caseClauses v cls) (g := F + N + f) (by omega) (ih F d h hd)
    obtain ⟨σ', hr⟩ := run_of_errOf ih'
    have hv' := ok_mono ((fuel_mono_all (by omega : f ≤ F + N + f)).evalExpr (.access sel (.var sel))) hv
    show errOf (execStmt (F + (N + f + 1)) (.case t sel cls)) σ = _
    rw [show F + (N + f + 1) = F + N + f + 1 by omega]
    exact errOf_of_run (run_case_stmt_err _ t sel cls v σ σ1 σ' _ hsteps hv' hr)
  | @caseHit N calls σl last f v cl rest b σ σ1 hm hD ih =>
    intro F d h hd
    have ih' : errOf (runBlock (F + N + f) b) σ1 = some (.diag d) :=
      Code.err_mono (.block b) (g := F + N + f) (by omega) (ih F d h hd)
    obtain ⟨σ', hr⟩ := run_of_errOf ih'
    have hm' := ok_mono ((fuel_mono_all (by omega : f ≤ F + N + f)).caseMatch v cl) hm
    show errOf (caseClauses (F + (N + f + 1)) v (cl :: rest)) σ = _
    rw [show F + (N + f + 1) = F + N + f + 1 by omega]
    exact errOf_of_run (C11_trace_propagates_case _ v cl rest b σ σ1 σ' d hm' hr)
  | @caseMiss N calls σl last f v cl rest σ σ1 hm hD ih =>
    intro F d h hd
    have ih' : errOf (caseClauses (F + N + f) v rest) σ1 = some (.diag d) :=
      Code.err_mono (.caseClauses v rest) (g := F + N + f) (by omega) (ih F d h hd)
    obtain ⟨σ', hr⟩ := run_of_errOf ih'
    have hm' := ok_mono ((fuel_mono_all (by omega : f ≤ F + N + f)).caseMatch v cl) hm
    show errOf (caseClauses (F + (N + f + 1)) v (cl :: rest)) σ = _
    rw [show F + (N + f + 1) = F + N + f + 1 by omega]
    exact errOf_of_run ((run_case_miss _ v cl rest σ σ1 hm').trans hr)
  | @exprS N calls σl last e σ hsteps hD ih =>
    intro F d h hd
    obtain ⟨σ', hr⟩ := run_of_errOf (show errOf (evalExpr (F + N) e) (tickSt σ) = some (.diag d) from ih F d h hd)
    show errOf (execStmt (F + (N + 1)) (.expr e)) σ = _
    rw [show F + (N + 1) = F + N + 1 by omega]
    exact errOf_of_run ((run_expr_stmt _ e σ hsteps).trans hr)
  | @assignRhs N calls σl last t r rhs cur rest σ hcalls hacts hD ih =>
    intro F d h hd
    obtain ⟨σ', hr⟩ := run_of_errOf (show errOf (evalExpr (F + N) rhs) σ = some (.diag d) from ih F d h hd)
    have hlen := hD.acts.length (by rw [hacts]; exact List.cons_ne_nil _ _)
    have hpos : 0 < calls.length := List.length_pos_iff.mpr hcalls
    show errOf (evalExpr (F + (N + 2)) (.assign t r rhs)) σ = _
    rw [show F + (N + 2) = F + N + 1 + 1 by omega]
    exact errOf_of_run (run_assign_err _ t r rhs σ σ' _
      (C11_trace_propagates_assign_rhs_callee _ t r rhs σ σ' cur rest d hacts hr (by omega)))
  | @arithL N calls σl last t op l r σ hD ih =>
    intro F d h hd
    obtain ⟨σ', hr⟩ := run_of_errOf (show errOf (evalExpr (F + N) l) σ = some (.diag d) from ih F d h hd)
    show errOf (evalExpr (F + (N + 1)) (.arith t op l r)) σ = _
    rw [show F + (N + 1) = F + N + 1 by omega]
    exact errOf_of_run (run_arith_left_err _ t op l r σ σ' _ hr)
  | @arithR N calls σl last f t op l r lv σ σ1 hl hD ih =>
    intro F d h hd
    have ih' : errOf (evalExpr (F + N + f) r) σ1 = some (.diag d) :=
      Code.err_mono (.expr r) (g := F + N + f) (by omega) (ih F d h hd)
    obtain ⟨σ', hr⟩ := run_of_errOf ih'
    have hl' := ok_mono ((fuel_mono_all (by omega : f ≤ F + N + f)).evalExpr l) hl
    show errOf (evalExpr (F + (N + f + 1)) (.arith t op l r)) σ = _
    rw [show F + (N + f + 1) = F + N + f + 1 by omega]
    exact errOf_of_run (run_arith_right_err _ t op l r lv σ σ1 σ' _ hl' hr)
  | @cmpL N calls σl last t op l r σ hD ih =>
    intro F d h hd
    obtain ⟨σ', hr⟩ := run_of_errOf (show errOf (evalExpr (F + N) l) σ = some (.diag d) from ih F d h hd)
    show errOf (evalExpr (F + (N + 1)) (.cmp t op l r)) σ = _
    rw [show F + (N + 1) = F + N + 1 by omega]
    exact errOf_of_run (run_cmp_left_err _ t op l r σ σ' _ hr)
  | @cmpR N calls σl last f t op l r lv σ σ1 hl hD ih =>
    intro F d h hd
    have ih' : errOf (evalExpr (F + N + f) r) σ1 = some (.diag d) :=
      Code.err_mono (.expr r) (g := F + N + f) (by omega) (ih F d h hd)
    obtain ⟨σ', hr⟩ := run_of_errOf ih'
    have hl' := ok_mono ((fuel_mono_all (by omega : f ≤ F + N + f)).evalExpr l) hl
    show errOf (evalExpr (F + (N + f + 1)) (.cmp t op l r)) σ = _
    rw [show F + (N + f + 1) = F + N + f + 1 by omega]
    exact errOf_of_run (run_cmp_right_err _ t op l r lv σ σ1 σ' _ hl' hr)
  | @outputS N calls σl last t es σ hsteps hD ih =>
    intro F d h hd
    obtain ⟨σ', hr⟩ := run_of_errOf (show errOf (Pseudo.outputAll (F + N) es) (tickSt σ) = some (.diag d) from ih F d h hd)
    show errOf (execStmt (F + (N + 1)) (.output t es)) σ = _
    rw [show F + (N + 1) = F + N + 1 by omega]
    exact errOf_of_run (run_output_stmt_err _ t es σ σ' _ hsteps hr)
  | @outHead N calls σl last e rest σ hD ih =>
    intro F d h hd
    obtain ⟨σ', hr⟩ := run_of_errOf (show errOf (evalExpr (F + N) e) σ = some (.diag d) from ih F d h hd)
    show errOf (Pseudo.outputAll (F + (N + 1)) (e :: rest)) σ = _
    rw [show F + (N + 1) = F + N + 1 by omega]
    exact errOf_of_run (run_outputAll_head_err _ e rest σ σ' _ hr)
  | @outNext N calls σl last f e rest v s σ σ1 hv ht hD ih =>
    intro F d h hd
    have ih' : errOf (Pseudo.outputAll (F + N + f) rest) (emitSt σ1 s) = some (.diag d) :=
      Code.err_mono (.outputAll rest) (g := F + N + f) (by omega) (ih F d h hd)
    obtain ⟨σ', hr⟩ := run_of_errOf ih'
    have hv' := ok_mono ((fuel_mono_all (by omega : f ≤ F + N + f)).evalExpr e) hv
    show errOf (Pseudo.outputAll (F + (N + f + 1)) (e :: rest)) σ = _
    rw [show F + (N + f + 1) = F + N + f + 1 by omega]
    exact errOf_of_run ((run_outputAll_next _ e rest v s σ σ1 hv' ht).trans hr)
  | @callArgs N calls σl last t name args pd σ hsteps hpd hD ih =>
    intro F d h hd
    obtain ⟨σ', hr⟩ := run_of_errOf (show errOf (evalArgs (F + N) args []) (tickSt σ) = some (.diag d) from ih F d h hd)
    show errOf (execStmt (F + (N + 2)) (.call t name args)) σ = _
    rw [show F + (N + 2) = F + N + 2 by omega]
    exact errOf_of_run (run_call_args_err _ t name args pd σ σ' _ hsteps hpd hr)
  | @callFArgs N calls σl last t args fd σ hfd hD ih =>
    intro F d h hd
    obtain ⟨σ', hr⟩ := run_of_errOf (show errOf (evalArgs (F + N) args []) σ = some (.diag d) from ih F d h hd)
    show errOf (evalExpr (F + (N + 2)) (.call t args)) σ = _
    rw [show F + (N + 2) = F + N + 2 by omega]
    exact errOf_of_run (run_callFun_args_err _ t args fd σ σ' _ hfd hr)
  | @argHead N calls σl last e rest acc σ hD ih =>
    intro F d h hd
    obtain ⟨σ', hr⟩ := run_of_errOf (show errOf (evalExpr (F + N) e) σ = some (.diag d) from ih F d h hd)
    show errOf (evalArgs (F + (N + 1)) (e :: rest) acc) σ = _
    rw [show F + (N + 1) = F + N + 1 by omega]
    exact errOf_of_run (run_args_head_err _ e rest acc σ σ' _ hr)
  | @argNext N calls σl last f e rest acc v σ σ1 hv hD ih =>
    intro F d h hd
    have ih' : errOf (evalArgs (F + N + f) rest (v :: acc)) σ1 = some (.diag d) :=
      Code.err_mono (.args rest (v :: acc)) (g := F + N + f) (by omega) (ih F d h hd)
    obtain ⟨σ', hr⟩ := run_of_errOf ih'
    have hv' := ok_mono ((fuel_mono_all (by omega : f ≤ F + N + f)).evalExpr e) hv
    show errOf (evalArgs (F + (N + f + 1)) (e :: rest) acc) σ = _
    rw [show F + (N + f + 1) = F + N + f + 1 by omega]
    exact errOf_of_run ((run_args_next _ e rest acc v σ σ1 hv').trans hr)
  | @retS N calls σl last t e a r σ hsteps hacts hfn hD ih =>
    intro F d h hd
    obtain ⟨σ', hr⟩ := run_of_errOf (show errOf (evalExpr (F + N) e) (tickSt σ) = some (.diag d) from ih F d h hd)
    show errOf (execStmt (F + (N + 1)) (.ret t e)) σ = _
    rw [show F + (N + 1) = F + N + 1 by omega]
    exact errOf_of_run (run_ret_err _ t e a r σ σ' _ hsteps hacts hfn hr)

end TraceChain

end Pseudo
