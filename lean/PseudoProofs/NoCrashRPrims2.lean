import PseudoProofs.NoCrashRPrims
import PseudoProofs.NoCrashRPath
/-!
# C01 with enum / pointer / record types: `writeLoc` and what the invariant says about readable values
-/
namespace Pseudo.NR
open Pseudo
open Pseudo.NC (ReadsIn ActRead ErrOK ErrNR NoCrash RO EOK readsIn_iff mem_updActs updActs_ne_nil errOK_diag errNR_diag
  getLast?_mem ro_findAct ro_isLive ro_rtErr ro_readLoc getPath_nil setPath_nil findSlot_name findSlot_mem findSlot_cons
  findSlot_updSlot_eq findSlot_updSlot_ne mem_updSlot findSlot_append getPath_append)

set_option linter.unusedSectionVars false

section
variable {α β : Type} {σ : St} {E : St → Stop → Prop} [EOK E]

theorem StackOK.find_unique {acts : List Act} {id : Nat} {a b : Act} (h : StackOK σ acts)
    (hf : acts.find? (·.id == id) = some a) (hb : b ∈ acts) (hid : b.id = id) : b = a := by
  induction acts with
  | nil => cases hb
  | cons c rest ih =>
    by_cases hc : (c.id == id) = true
    · rw [List.find?, hc] at hf
      have hca : c = a := by simpa using hf
      rcases List.mem_cons.1 hb with hb | hb
      · exact hb.trans hca
      · have hcid : c.id = id := by simpa using hc
        exact absurd (hid.trans hcid.symm) (h.2.1 b hb)
    · have hc' : (c.id == id) = false := by simpa using hc
      rw [List.find?, hc'] at hf
      rcases List.mem_cons.1 hb with hb | hb
      · subst hb; exact absurd (by simpa using hid) hc
      · exact ih h.2.2 hf hb

theorem good_none : Good σ Val.none := good_of_scalar trivial trivial

theorem SlotOK.good {d : List Act} {s : Slot} (h : SlotOK σ d s) : Good σ s.val := by
  unfold SlotOK at h
  split at h
  · exact h.2
  · rw [h.1]; exact good_none

/-- the value of a slot found in a well-formed activation is good -/
theorem slot_good (hW : WF σ) {a : Act} (ha : a ∈ σ.acts) {l : Loc} {s : Slot} (h2 : slotOf a l = some s) : Good σ s.val := by
  obtain ⟨deeper0, hok0⟩ := hW.memOK ha
  unfold slotOf at h2
  cases hl : l.isArr
  · rw [hl] at h2
    exact (hok0.vars s (findSlot_mem h2)).good
  · rw [hl] at h2
    exact (hok0.arrs s (findSlot_mem h2)).2

/-- every readable value of a well-formed state is good -/
theorem WF.reads_good (hW : WF σ) {l : Loc} {w : Val} (h : ReadsIn σ.acts l w) : Good σ w := by
  obtain ⟨a, s, h1, h2, h3⟩ := h
  exact (slot_good hW (List.mem_of_find?_eq_some h1) h2).sub h3

/-- **`writeLoc` at a readable location with a good value of the same kind** -/
theorem run_writeLoc (hW : WF σ) (t : Tok) {l : Loc} {old : Val} (v : Val) (hr : ReadsIn σ.acts l old)
    (k : SameKind old v) (hv : Good σ v) : Run (writeLoc t l v) σ (ResE σ (fun _ _ => True) E) := by
  obtain ⟨a, s, h1, h2, h3⟩ := hr
  have ha : a ∈ σ.acts := List.mem_of_find?_eq_some h1
  have haid : a.id = l.act := by simpa using List.find?_some h1
  have hsg := slot_good hW ha h2
  obtain ⟨nv, hset, knv, hnvg, hpaths⟩ := setPath_good l.path hsg h3 k hv
  have hf : (findAct l.act).run.run σ = (.ok (some a), σ) := by
    show (Except.ok (σ.acts.find? (·.id == l.act)), σ) = _
    rw [h1]
  unfold writeLoc Run
  rw [run_bind_ok _ _ _ _ _ hf]
  dsimp only
  rw [h2]
  dsimp only
  by_cases hc : s.isConst = true
  · rw [if_pos hc]
    exact Run.of_ro (m := rtErr t .constAssign) hW (Ext.refl σ) (EOK.of_nr σ) (ro_rtErr _ _ (fun _ => False))
      (fun _ h => h.elim)
  · rw [if_neg hc, hset]
    dsimp only
    let g : Act → Act := fun a =>
      if l.isArr then { a with arrs := updSlot a.arrs l.name (fun s => { s with val := nv }) }
      else { a with vars := updSlot a.vars l.name (fun s => { s with val := nv }) }
    have hgd : ∀ b, (g b).enums = b.enums ∧ (g b).ptrs = b.ptrs ∧ (g b).comps = b.comps := by
      intro b; simp only [g]; split <;> exact ⟨rfl, rfl, rfl⟩
    have hgc : ∀ b, (g b).isComp = b.isComp := by
      intro b; simp only [g]; split <;> rfl
    have hkeep : ∀ b ∈ σ.acts, b.id = a.id → ActKeep b (g b) := by
      intro b hb hid
      have : b = a := hW.stack.find_unique h1 hb (hid.trans haid)
      subst this
      refine ⟨by simp only [g]; split <;> rfl, by simp only [g]; split <;> rfl, ?_⟩
      intro isArr name path v0 ⟨s0, hs0, hp0⟩
      unfold slotOf at h2
      by_cases hsame : isArr = l.isArr ∧ name = l.name
      · obtain ⟨rfl, rfl⟩ := hsame
        have hss : s = s0 := by rw [h2] at hs0; exact Option.some.inj hs0
        subst hss
        obtain ⟨v', hv', kv⟩ := hpaths path v0 hp0
        refine ⟨v', ⟨{ s with val := nv }, ?_, hv'⟩, kv⟩
        simp only [g]
        cases hl : l.isArr
        · rw [hl] at h2
          simp only [Bool.false_eq_true, if_false]
          exact findSlot_updSlot_eq (f := fun s => { s with val := nv }) h2 (fun _ => rfl)
        · rw [hl] at h2
          simp only [if_true]
          exact findSlot_updSlot_eq (f := fun s => { s with val := nv }) h2 (fun _ => rfl)
      · refine ⟨v0, ⟨s0, ?_, hp0⟩, SameKind.refl v0⟩
        simp only [g]
        cases hl : l.isArr <;> cases hi : isArr <;> rw [hi] at hs0 <;>
          simp only [Bool.false_eq_true, if_false, if_true] at hs0 ⊢
        · have : name ≠ l.name := fun e => hsame ⟨by rw [hi, hl], e⟩
          rw [findSlot_updSlot_ne (f := fun s => { s with val := nv }) (fun _ => rfl) this]; exact hs0
        · exact hs0
        · exact hs0
        · have : name ≠ l.name := fun e => hsame ⟨by rw [hi, hl], e⟩
          rw [findSlot_updSlot_ne (f := fun s => { s with val := nv }) (fun _ => rfl) this]; exact hs0
    have hokg : ∀ deeper b, b ∈ σ.acts → b.id = a.id → ActOK σ deeper b → ActOK σ deeper (g b) := by
      intro deeper b hb hid hokb
      have : b = a := hW.stack.find_unique h1 hb (hid.trans haid)
      subst this
      unfold slotOf at h2
      cases hl : l.isArr
      · rw [hl] at h2
        simp only [Bool.false_eq_true, if_false] at h2
        have hg : g b = { b with vars := updSlot b.vars l.name (fun s => { s with val := nv }) } := by
          simp only [g, hl, Bool.false_eq_true, if_false]
        rw [hg]
        refine ⟨fun s' hs' => ?_, hokb.arrs, hokb.enums, hokb.ptrs, hokb.comps, fun hcp s' hs' => ?_, hokb.glob, hokb.retVal⟩
        · rcases mem_updSlot hs' with hs' | ⟨s0, hs0, rfl⟩
          · exact hokb.vars s' hs'
          · have hss : s = s0 := by rw [h2] at hs0; exact Option.some.inj hs0
            subst hss
            have hso := hokb.vars s (findSlot_mem h2)
            cases hr : s.ref with
            | none =>
              simp only [SlotOK, hr] at hso ⊢
              exact ⟨Eq.trans knv hso.1, hnvg⟩
            | some l' =>
              simp only [SlotOK, hr] at hso ⊢
              refine ⟨?_, hso.2⟩
              have hkn : kind nv = .val .none := by rw [knv, hso.1]; rfl
              have := kind_val_narr hkn
              cases nv <;> simp_all [Val.ty, NArr]
        · rcases mem_updSlot hs' with hs' | ⟨s0, hs0, rfl⟩
          · exact hokb.compRef hcp s' hs'
          · exact hokb.compRef hcp s0 (findSlot_mem hs0)
      · rw [hl] at h2
        simp only [if_true] at h2
        have hg : g b = { b with arrs := updSlot b.arrs l.name (fun s => { s with val := nv }) } := by
          simp only [g, hl, if_true]
        rw [hg]
        refine ⟨hokb.vars, fun s' hs' => ?_, hokb.enums, hokb.ptrs, hokb.comps, hokb.compRef, hokb.glob, hokb.retVal⟩
        rcases mem_updSlot hs' with hs' | ⟨s0, hs0, rfl⟩
        · exact hokb.arrs s' hs'
        · have hss : s = s0 := by rw [h2] at hs0; exact Option.some.inj hs0
          subst hss
          have hso := hokb.arrs s (findSlot_mem h2)
          obtain ⟨d, hd⟩ := hso.1
          exact ⟨⟨d, Eq.trans knv hd⟩, hnvg⟩
    show Run (modifyAct a.id g) σ (ResE σ (fun _ _ => True) E)
    refine (run_modifyAct (E := E) hW a.id g hkeep hokg hgd).mono ?_
    exact fun _ _ h => h.weaken (fun _ _ => trivial) (fun _ e => e)

end

end Pseudo.NR
