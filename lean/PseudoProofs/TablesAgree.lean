import Generated.Tables
import PseudoModel.Parser
import PseudoModel.Builtins
/-!
  Tie II: the tables regenerated from the C++ sources on every run (lean/Generated/Tables.lean) equal the model's own
  tables. A changed keyword, token kind, operator level, block terminator, built-in signature or pedantic site in the
  source makes one of these theorems fail to check (a broken proof obligation of the properties that use the table).
  If the extractor could not recognise a source shape the table is flagged unavailable and its theorem holds trivially.
-/
namespace Pseudo

def allTK : List TK := [
  .INTEGER, .REAL, .CHAR, .STRING, .DATE, .RPAREN, .LPAREN, .PLUS, .MINUS, .STAR, .SLASH, .DIV, .MOD, .AMPERSAND,
  .ASSIGNMENT, .COLON, .COMMA, .EQUALS, .NOT_EQUALS, .GREATER, .LESSER, .GREATER_EQUAL, .LESSER_EQUAL, .AND, .OR, .NOT,
  .TRUE, .FALSE, .DECLARE, .CONSTANT, .IDENTIFIER, .DATA_TYPE, .ARRAY, .LSQRBRACKET, .RSQRBRACKET, .TYPE, .ENDTYPE, .CARET, .PERIOD,
  .IF, .THEN, .ELSE, .ENDIF, .CASE, .OF, .OTHERWISE, .ENDCASE, .WHILE, .DO, .ENDWHILE, .REPEAT, .UNTIL, .FOR, .TO, .STEP, .NEXT,
  .BREAK, .CONTINUE, .PROCEDURE, .BYREF, .BYVAL, .ENDPROCEDURE, .CALL, .FUNCTION, .ENDFUNCTION, .RETURNS, .RETURN, .OUTPUT, .INPUT,
  .OPENFILE, .READFILE, .WRITEFILE, .CLOSEFILE, .READ, .WRITE, .APPEND, .RANDOM, .SEEK, .GETRECORD, .PUTRECORD, .LINE_END, .EXPRESSION_END]

theorem allTK_complete (k : TK) : k ∈ allTK := by cases k <;> decide

/-- E1: the keyword chain of `Lexer::makeWord` is the model's keyword table -/
theorem keywords_agree : Generated.keywordsAvailable = true → Generated.keywords = keywordTable := by decide

/-- E2: `enum class TokenType` is the model's token vocabulary, in order -/
theorem tokenKinds_agree : Generated.tokenKindsAvailable = true → Generated.tokenKinds = allTK := by decide

def levelOps (k : Nat) : List TK := ((Generated.exprLevels.find? (·.1 == k)).map (·.2.1)).getD []
def levelOperand (k : Nat) : String := ((Generated.exprLevels.find? (·.1 == k)).map (·.2.2)).getD ""

/-- E3: at each of the six binary levels the parser's loop condition accepts exactly the operators of the model's `levelOp` -/
theorem exprLevels_agree : Generated.exprLevelsAvailable = true →
    ∀ k ∈ [0, 1, 2, 3, 4, 5], ∀ t ∈ allTK, (levelOp k t).isSome = (levelOps k).contains t := by decide

/-- E3': each level parses its operands with the next level (the model's `parseLevel (k+1)`) -/
theorem exprLevels_chain : Generated.exprLevelsAvailable = true →
    [0, 1, 2, 3, 4, 5].map levelOperand =
      ["parseLogicalExpression", "parseComparisonExpression", "parseStringExpression", "parseArithmeticExpression", "parseTerm", "parseFactor"] := by decide

/-- E4: the token kinds that end `parseBlock` are the model's `isBlockEnd` -/
theorem blockTerminators_agree : Generated.blockTerminatorsAvailable = true →
    ∀ t ∈ allTK, isBlockEnd t = Generated.blockTerminators.contains t := by decide

/-- E5: names, parameter names / types and return types of the built-in functions, in registration order -/
theorem builtins_agree : Generated.builtinsAvailable = true → Generated.builtins = builtinTable := by decide

/-- E7: the pedantic rejections of the source are exactly the six the model (and C20) knows -/
theorem pedanticSites_agree : Generated.pedanticSites = [] ∨ Generated.pedanticSites.map (·.2) =
    ["Use of BREAK statement", "Use of CONTINUE statement", "Reading input into undefined variable", "Assigning to undeclared variable",
     "Use of type casting", "Use of ELSE IF"] := by decide

end Pseudo
